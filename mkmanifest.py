#!/usr/bin/env python3
"""Regenerates MANIFEST.json from props.py (the checks that exist) and properties.jsonl."""
import json, os, sys
sys.path.insert(0, os.path.dirname(os.path.abspath(__file__)))
from props import PROPS
from manifest_text import TEXT, PENDING

ids = [json.loads(l)["id"] for l in open("properties.jsonl")]
checks, na = [], []
for i in ids:
    if i in PROPS and i in TEXT:
        t = TEXT[i]
        checks.append({
            "property_id": i,
            "quick_cmd": "./check %s quick" % i,
            "thorough_cmd": "./check %s thorough" % i,
            "evidence_file": "/verif/evidence/%s.json" % i,
            "replay_cmd_template": "./check %s --replay {path}" % i,
            "engine": "lean-proof+correspondence",
            "level_claimed": {"category": "proof", "text": t["text"], "design_ref": t["ref"]},
            "level_note": t["note"],
            "technique": t["technique"],
        })
    else:
        na.append({"property_id": i, "reason": PENDING.get(i, "check not built yet in this session; see DESIGN.md §5 for the plan")})
m = {
    "version": 1,
    "setup_cmd": "./check setup",
    "hooks": {
        "guard": "verif",
        "enable": "go build -tags 'verif verifgen' (Go build tags; hook files are *_verif.go with //go:build verif; the two files that export unexported helpers of pkg/bech32 and pkg/vrf need verif && verifgen, so that a harness built with -tags verif alone still compiles when such a helper changes its signature)",
        "baseline_off_cmd": "for m in . ./pkg/curl/asm; do (cd /repo/$m && go test -mod=mod -json -vet=off -count=1 -timeout 25m ./...); done",
        "source_commits": json.load(open("hook_commits.json")) if os.path.exists("hook_commits.json") else [],
        "add_only": True,
    },
    "engines": [{
        "name": "lean-proof+correspondence", "path": "/verif/check",
        "serves_properties": [c["property_id"] for c in checks],
        "kind_free_text": "Lean 4 theorems over executable models (lean/Iota), tied to /repo on every run by a Go fact/function translator (go/cmd/extract -> lean/Iota/Gen, compared by lean/Iota/Tie theorems) and by a differential correspondence run (go/cmd/harness vs the compiled Lean driver)"}],
    "checks": checks,
    "not_applicable": na,
    "notes": "All checks go through ./check <id> quick|thorough; see DESIGN.md. Known findings: known_findings.jsonl.",
}
json.dump(m, open("MANIFEST.json", "w"), indent=1)
print("checks:", len(checks), "not_applicable:", len(na))
