TEXT = {
 "C14": dict(ref="DESIGN.md §5 C14",
   technique="Lean 4 proof (induction over byte/trit lists + kernel-decided finite tables) with regenerated-fact tie and differential correspondence",
   text="Lean theorems over the executable model of b1t6/b1t8: encode = balanced-ternary spec for all 256 bytes (kernel decide) lifted to all byte strings by induction; "
        "decode∘encode = id; decode accepts exactly encoder outputs (all 729 / 6561 groups decided in the kernel, lifted by induction); error order and count. "
        "Model tied to the source by translated encodeGroup/decodeGroup, regenerated LUTs and source-text snapshots, and by an exhaustive-on-groups differential run.",
   note="Trusted: Lean kernel; extractor+harness; b1t6 decoders only specified on trits in {-1,0,1} (documented as undefined otherwise); Go int does not overflow in encodeGroup."),
}
PENDING = {}
