TEXT = {
 "C14": dict(ref="DESIGN.md §5 C14",
   technique="Lean 4 proof (induction over byte/trit lists + kernel-decided finite tables) with regenerated-fact tie and differential correspondence",
   text="Lean theorems over the executable model of b1t6/b1t8: encode = balanced-ternary spec for all 256 bytes (kernel decide) lifted to all byte strings by induction; "
        "decode∘encode = id; decode accepts exactly encoder outputs (all 729 / 6561 groups decided in the kernel, lifted by induction); error order and count. "
        "Model tied to the source by translated encodeGroup/decodeGroup, regenerated LUTs and source-text snapshots, and by an exhaustive-on-groups differential run.",
   note="Trusted: Lean kernel; extractor+harness; b1t6 decoders only specified on trits in {-1,0,1} (documented as undefined otherwise); Go int does not overflow in encodeGroup."),
 "C10": dict(ref="DESIGN.md §5 C10",
   technique="Lean 4 proof (parser = grammar, print/parse round trip by list induction) with regenerated call-site facts (ParseUint base/bit size, regexp literal) and exhaustive short-string correspondence",
   text="Lean theorems over the executable model of ParsePath/String: parse(print p) = p for every path; parse s succeeds iff s is in the grammar (\"\", \"m\", optional m/ then digit+[H']? components, decimal value < 2^31) "
        "and returns the decimal value (+2^31 if marked); leading zeros irrelevant. The tie regenerates the strconv.ParseUint base and bit size, the regexp literal and the source text from /repo; "
        "the correspondence enumerates every string of length <= 5/6 over a 10-letter alphabet.",
   note="Trusted: Lean kernel; extractor+harness; Go regexp/strconv/strings/fmt are modelled by their documented behaviour (exhaustively cross-checked on short strings). No-panic is observed by the correspondence run, the model being total."),
 "C15": dict(ref="DESIGN.md §5 C15",
   technique="Lean 4 proof (strong induction on the leaf count, for an arbitrary hash function) with source-text tie and differential correspondence over every leaf count up to thousands",
   text="Lean theorems for every hash function H and every n <= 2^63: largestPowerOfTwo n is the unique power of two k with k < n <= 2k; Hash = RFC 6962 MTH (inductive relation, shown functional); "
        "the first marshaling error in index order is returned, otherwise a hash. Correspondence runs every leaf count 0..600/4100 and 2^e±1 with three hash functions and an erroring leaf at every position of small trees.",
   note="Trusted: Lean kernel; extractor+harness; crypto.Hash instances are functions of their input; Lean hash oracles in the driver. The bottom-up and audit-path equivalences of the statement are not yet theorems (partial); "
        "they are exercised only through RFC-shaped MTH."),
 "C04": dict(ref="DESIGN.md §5 C04/C05",
   technique="Lean 4 proof (Decode = declarative BIP-173 validity predicate, by case analysis of every guard + list induction; base32 regrouping via arithmetic forms decided per byte and omega) with regenerated-fact tie and differential correspondence",
   text="Lean theorems over the executable model of bech32.Decode and its base32/charset/checksum helpers: decode s = ok(hrp,data) IFF Valid s hrp data (<=90 chars, one case, printable-ASCII prefix, last '1' separator, "
        "charset data, polymod = 1, payload = BIP-173 convertbits(8->5, pad) of data stated positionally); every accepted string re-encodes to its lower-case form (unique spelling); every SyntaxError offset is < len(s); "
        "base32.Decode accepts exactly base32.Encode outputs. Tie: charset, generator constants, limits, translated isValidHRPChar/EncodedLen/DecodedLen, source snapshots. Correspondence: checksum-correct strings for every "
        "symbol count 0..84 in all padding patterns, mutations, non-ASCII look-alikes.",
   note="Trusted: Lean kernel; extractor+harness; Go strings.ToLower/ToUpper/LastIndex modelled as ASCII operations (after the F2 fix Decode only folds ASCII). No-panic is observed by the correspondence run; the model is a total function."),
 "C05": dict(ref="DESIGN.md §5 C04/C05",
   technique="Lean 4 proof (Encode = BIP-173 string; Decode∘Encode = id via the Valid predicate; checksum existence/uniqueness by XOR-linearity of one polymod step) with regenerated-fact tie and differential correspondence",
   text="Lean theorems: encode hrp d = ok r IFF (non-empty, single-case, bytes 33..126, len(hrp)+ceil(8n/5)+7 <= 90) and r = the BIP-173 string (to5 d ++ the unique verifying 6-symbol checksum over lower(hrp), in hrp's case); "
        "decode(encode hrp d) = ok(lower hrp, d); otherwise an error (empty / over-long / mixed-case / non-printable each stated). Correspondence: all data lengths 0..52 x prefix lengths straddling the 90 limit, invalid prefixes, random cases.",
   note="Trusted: Lean kernel; extractor+harness; Go strings case functions modelled on printable ASCII."),
 "C19": dict(ref="DESIGN.md §5 C19",
   technique="Lean 4 proof (ParseBech32/Bech32 over the proved Bech32 model; migration codec over the proved b1t6 model, for an arbitrary hash) with regenerated-fact tie and differential correspondence",
   text="Lean theorems: ParseBech32(Bech32(p,a)) = (p,a) for the four prefixes and three address kinds; ParseBech32 s = ok(p,a) implies Valid Bech32 with hrp = prefix p, version in {0,8,16}, payload length 32/20/20 and "
        "Bech32(p,a) = lower(s); migration.Decode(Encode a) = a for every 32-byte a and every hash with >= 4 output bytes; migration.Decode t = ok a implies t = Encode a (81 trytes). "
        "Correspondence: every version byte 0..255 x payload lengths, all prefixes, corrupted addresses, every single-tryte substitution of sampled migration strings.",
   note="Trusted: Lean kernel; extractor+harness; BLAKE2b is an arbitrary function in the theorems and a Lean oracle in the driver; inherits the C04/C05/C14 assumptions. No-panic observed by correspondence (total model)."),
 "C16": dict(ref="DESIGN.md §5 C16",
   technique="Lean 4 proof: XOR-linearity of polymod + a kernel-evaluated (decide +kernel, no native_decide) meet-in-the-middle certificate over all weight<=4 error patterns in an 89-symbol window, lifted to Decode",
   text="Lean theorems: (i) two symbol words with polymod = 1 cannot differ in 1..4 positions within the last 89 positions (affine-over-GF(2) polymod; certificate: 3.68M syndrome pairs checked absent from a 2728-key tree inside the kernel, "
        "split over 16 modules); (ii) lifted to Decode: any valid string h++\"1\"++d with 1..4 characters replaced (data: charset character of a different value, either case; prefix: letter for letter of the same case or digit for digit) "
        "is rejected. Correspondence: all weight-1, all weight-2 position pairs and sampled weight 3-4 substitutions of sampled code words (incl. longest) through the real Decode.",
   note="Trusted: Lean kernel (the certificate is checked by kernel evaluation; `#print axioms` shows propext, Classical.choice, Quot.sound only); extractor+harness; generator constants tied by Tie/Bech32. Inherits the C04 ASCII-case assumption."),
 "C03": dict(ref="DESIGN.md §5 C03",
   technique="Lean 4 proof (positional-numeral lemmas: the sentence is the base-2^11 expansion of entropy·2^cs + checksum; round trip and canonicity for any 32-byte hash and any list of 2048 distinct words) with regenerated word lists/digests and differential correspondence",
   text="Lean theorems for every H with 32-byte output and every W with 2048 distinct words: EntropyToMnemonic = the BIP-39 rule stated positionally for entropy lengths 16..64 step 4; MnemonicToEntropy(EntropyToMnemonic e) = e; "
        "MnemonicToEntropy ws = ok e IFF valid count, all words in W and ws = EntropyToMnemonic e (so every accepted sentence re-encodes to itself); other sizes -> ErrInvalidEntropySize, bad counts/unknown words -> ErrInvalidMnemonic. "
        "The committed official English/Japanese lists are proved to have 2048 distinct words (kernel check); the tie proves the repository's embedded lists equal them index for index and hash to the official file digests.",
   note="Trusted: Lean kernel; extractor+harness; SHA-256 abstract in theorems (Lean oracle in the driver); math/big modelled on Nat. F1 (right-padding of decoded entropy) was found by this check and fixed in /repo."),
 "C06": dict(ref="DESIGN.md §5 C06/C20",
   technique="Lean 4 proof (loop invariant for the Go index walk; bit-level s-box = truth table; simulation by induction over arbitrary operation histories) with translated s-box, source-text tie and differential correspondence against two independent single-lane references",
   text="Lean theorems over the model of curl.go/transform.go: transformGeneric never indexes out of range and equals 81 closed-form rounds; on valid encodings each of the 64 lanes undergoes exactly Curl-P-81 (truth table, index walk 364i mod 729) and validity is invariant; "
        "for EVERY history of Absorb/Squeeze/Reset calls meeting the documented preconditions the observations equal those of 64 independent specification sponges (induction over the history), lane j's outputs depend on lane j's inputs only, rejected calls carry no state change, Squeeze never panics.",
   note="Trusted: Lean kernel; extractor+harness. Clone is the identity on immutable model values (aliasing is checked by the correspondence run, which interleaves a clone with its original). Histories that violate the documented preconditions (absorb after squeeze, lanes shorter than tritsCount) panic in Go and are outside the quantifier."),
 "C09": dict(ref="DESIGN.md §5 C09",
   technique="Lean 4 proof of the repository's own logic (seed = PBKDF2 of joined words / 'mnemonic'++NFKD(pass) after validation; byte-level strings.Fields lemmas by induction) with NFKD and PBKDF2 as parameters; regenerated call-site facts; differential correspondence with a Lean PBKDF2",
   text="partial by construction: NFKD and PBKDF2 are external. Proved: MnemonicToSeed returns PBKDF2(join \" \" words, \"mnemonic\" ++ nfkd(pass), 2048, 64) exactly when MnemonicToEntropy accepts, else that error and no seed; "
        "fields(join ws) = ws for clean words; fields is invariant under replacing any white-space run by any other and under leading/trailing white space (byte-level model of unicode.IsSpace encodings, incl. truncated encodings); "
        "parse(print(parse s)) = parse s under the stated NFKD hypothesis; equal NFKD forms parse equally. The tie regenerates the pbkdf2.Key call arguments (iterations, key length, salt expression, hash). "
        "Correspondence compares 64-byte seeds against a Lean PBKDF2-HMAC-SHA512 fed the x/text NFKD form.",
   note="Trusted: Lean kernel; extractor+harness; golang.org/x/text NFKD (one hypothesis, exercised on generated strings) and x/crypto PBKDF2 are not verified; the Lean PBKDF2/SHA-512 are oracles validated by agreement."),
 "C20": dict(ref="DESIGN.md §5 C06/C20",
   technique="Lean 4 proof: deep-embedded interpreter of the extracted amd64 instruction list, symbolic execution per basic block, inner-loop invariant and induction over 81 rounds; the portable Go loop by its own invariant; both equal one closed form. The .s file is re-parsed on every run and compared with the proved program",
   text="Lean theorems for ALL contents of the four 729-word buffers: the instruction list of transform_amd64.s runs exactly 664935 steps without fault (every access in-buffer and aligned, no register read before written) and leaves roundsW 81 in the to-buffers, roundsW 80 in the from-buffers; "
        "transformGeneric (portable Go, bounds-checked model) returns the same four buffers; per bit lane and for arbitrary words this is 81 rounds of the bit-pair round function, which on valid encodings is the Curl-P truth table. "
        "Tie: Gen.CurlAsm.program (parsed from the .s on every run) = the proved program; build-tag selection and the portable wrapper are regenerated facts.",
   note="Trusted: Lean kernel; the machine semantics in AsmSem.lean (tagged pointers, conservative flags) — validated by running the interpreter and the real assembly on the same states in every check; the assembler, linker and CPU; extractor+harness."),
 "C11": dict(ref="DESIGN.md §5 C11",
   technique="Lean 4 proof of the bit-plane lane test and of mining with the least sufficient zero count for an abstract monotone score; regenerated source snapshot of the (repaired) zero-count computation; differential correspondence incl. rounding-boundary targets",
   text="partial (floating point): proved for all bit planes that checkStateTrits returns exactly the first lane with >= n trailing zero trits; for ANY ordered score type with a monotone score function, mining with the least z whose score reaches the target returns "
        "only nonces meeting the target, passes none over, and serves trivially low targets from the first nonce. The Go code computes that z with the very expression Score uses (fix F7/F8); the float expression's monotonicity is checked exhaustively at run time. "
        "Score's z is compared against an independent Lean BLAKE2b/b1t6/Curl-P-81 pipeline.",
   note="Trusted: Lean kernel; extractor+harness; IEEE-754 behaviour of math.Pow and division (hypothesis, exercised); iota.go curl/bct and trinary (external); goroutine scheduling is C13's subject. F7/F8 were found by this check and fixed in /repo."),
 "C12": dict(ref="DESIGN.md §5 C12",
   technique="Lean 4 proof (positional numerals for toInt incl. uint64 no-overflow, exact integer logarithm, bit-plane lane test soundness and no-pass-over for all planes, sequential mining) with regenerated constants/translated tritToUint/source snapshots and differential correspondence through exported internals",
   text="Lean theorems: maxHash = 3^243, uint64Radix = 3^40; toInt = base-3 value + 1 with no uint64 overflow; Score = min(floor(floor(3^243/h)/len), 2^64-1); sufficientTrailingZeros = least s with 3^s >= len*t (wrapping loop = exact loop); "
        "for ALL 64-lane plane states and 8 <= len*t < 2^64: a lane returned by checkStateTrits has floor(3^243/h) >= len*t (hence Score >= t) and a lane with floor(3^243/h) > len*t is never passed over; single-worker mining returns the first accepting block.",
   note="Trusted: Lean kernel; extractor+harness; BLAKE2b and iota.go curl/bct (external; re-scored through an independent Lean pipeline); math/big. F10 (overflow guard off by one: products in [2^64, 2^64+len-2] passed) was found by the statement audit and fixed in /repo."),
 "C02": dict(ref="DESIGN.md §5 C02/C08",
   technique="Lean 4 proof of the repository's derivation logic for every curve value (retry loops with fuel = SLIP-0010's first-valid-candidate sequence; CKD inputs; path concatenation; error cases), primitives as parameters; source-snapshot tie; differential correspondence incl. pluggable high-rejection curves",
   text="Lean theorems for every Curve value: NewMasterKey = first valid candidate of I0 = HMAC(curve key, S), I(n+1) = HMAC(curve key, In) (iff characterisation); CKD uses 0x00||ser256(k)||ser32(i) resp. serP(point(k))||ser32(i); child key = Shift(parent, IL), chain code IR, "
        "retry with HMAC(chain, 0x01||IR||ser32(i)) on ErrInvalidKey only; any other curve error is returned by both loops; derive(p++[i]) = derive(p) then child i; hardened child of a public key and non-hardened child on ed25519 fail; fingerprint formula. "
        "Byte-exact agreement with SLIP-0010 on the three real curves comes from the correspondence run against Lean implementations of the primitives.",
   note="Trusted: Lean kernel; extractor+harness; HMAC/SHA/RIPEMD, crypto/elliptic P-256, filippo edwards25519 (parameters in theorems; Lean oracles in the driver). Non-termination of the retry loops is modelled by fuel. F4 and F5 were found by this check and fixed in /repo."),
 "C08": dict(ref="DESIGN.md §5 C02/C08",
   technique="Lean 4 proof over an abstract cyclic group (Mathlib addOrderOf): private and public shift are both invalid or both succeed with matching results; same HMAC input and fingerprint on both sides; the group hypothesis discharged for secp256k1 (C17 group law + Pratt-certificate primality of N + kernel-evaluated [N]G = 0); differential correspondence on both real curves at all algebraic corner cases",
   text="secp256k1: unconditional (LawfulW is proved for the curve whose operations run the C17 model: group law, N prime, ord(G) = N); P-256: partial (group assumed). For any curve operations that are the operations of a cyclic group of order n generated by the base point, every 0<k<n and every shift: PrivateKey.Shift and PublicKey.Shift both report ErrInvalidKey exactly when shift >= n or k+shift = 0 mod n, "
        "else both succeed and point(shifted private) = shifted public; for non-hardened indices both sides feed HMAC the same input, hence the same candidate sequence, chain code and fingerprint. ",
   note="Trusted: Lean kernel, Mathlib; for P-256 that crypto/elliptic implements a cyclic group of order n is assumed; byte-level agreement and absence of panics at shift 0, k, n-k are observed by correspondence (F6 fixed the panics)."),
 "C17": dict(ref="DESIGN.md §5 C17",
   technique="Lean 4 + Mathlib proof: extended-Euclid inverse, ring-hom of the big.Int code into ZMod P, Jacobian add-2007-bl/dbl-2009-l incl. all special cases = Mathlib's Weierstrass group law, double-and-add = nsmul for every byte string; constants and source snapshot regenerated; differential correspondence",
   text="Lean theorems with no hypothesis (P prime, N prime and ord(G) = N are themselves proved: Pratt certificates via lucas_primality, [N]G = 0 by kernel evaluation of the model): for all representable points ((0,0) = identity, else reduced on-curve coordinates) Add, Double return the group sum/double of Mathlib's elliptic-curve group, never panic, results reduced and canonical, identity returned exactly as (0,0); "
        "ScalarMult / ScalarBaseMult = (big-endian value of the bytes) • point for EVERY byte string incl. 0, >= n, leading zeros, and every base incl. the identity; IsOnCurve x y iff y^2 = x^3 + 7 in ZMod P; ModInverse never fails on a nonzero z.",
   note="Trusted: Lean kernel; Mathlib (elliptic-curve group law, lucas_primality); math/big modelled on Int; extractor+harness. Both copies of secp256k1.go are required to be byte-identical by the tie. F6 was found by this check and fixed in /repo."),
 "C13": dict(ref="DESIGN.md §5 C13",
   technique="Lean 4 proof over a labelled transition system of one Mine call (main, watcher, W workers, environment cancel; nondeterministic batch outcomes): inductive invariant, ranking function, for every W >= 1 and every interleaving; "
             "tie = regenerated synchronisation skeleton / closure captures / atomic-access lists of both worker.go files; correspondence = replay of recorded real executions (build-tag hooks) through the model; supporting run under the Go race detector",
   text="partial (runtime): Lean theorems for every worker count W >= 1, every schedule, every cancellation instant and every batch outcome: Mine returns ErrCancelled only if the context was cancelled and a nonce only if a worker's lane test produced it; "
        "a finder's send never blocks (buffer W) and never hits a closed channel; no reachable non-final state is deadlocked; once the done flag is set or the join is passed every step decreases a measure <= 5W+9 (bounded drain, at most one more batch per worker); "
        "with the context cancelled the watcher's path to setting the flag stays enabled until taken; at return all workers have exited, the WaitGroup is 0 and the watcher has exited or its single remaining step is enabled. "
        "Data-race freedom is carried as: every variable shared between goroutines is only read, or is an atomic / channel / WaitGroup (regenerated capture and access lists), plus a race-detector run; real-time bounds and scheduler fairness are outside the model.",
   note="Trusted: Lean kernel; the transition system as a faithful abstraction of worker.go (tied by regenerated skeletons and validated by replaying every recorded execution, every event required to be an enabled model step); Go memory model, scheduler fairness; "
        "the race detector and goroutine accounting in the supporting run; extractor+harness+hooks (pkg/pow/hook_verif.go, build tag verif)."),
 "C01": dict(ref="DESIGN.md §5 C01",
   technique="Lean 4 proof of the byte-level logic of Verify over an abstract curve library whose group laws are an explicit hypothesis (satisfiable: witness over ZMod L); source-snapshot tie; differential correspondence against an independent Lean edwards25519/SHA-512 cofactored oracle",
   text="partial (curve library assumed): Lean theorems for every 32-byte key, message and signature: Verify = true iff len 64, S < L, key and R decode, [8][S]B = [8]R + [8][k]A with k = SHA-512(R||A||M) mod L (equivalently unreduced, given cofactor 8); false otherwise; panic iff key length != 32; "
        "the top-bits pre-check is implied by S < L; S + jL (j >= 1) is rejected; everything the cofactorless encoded comparison (crypto/ed25519) accepts is accepted; the equation and the verdicts are invariant under adding 8-torsion to A and to R. "
        "Hypothesis Lawful: the library's add/neg/smul/eq/decode/encode are those of an abelian group with [L]B = 0.",
   note="Trusted: Lean kernel; Mathlib algebra; filippo.io/edwards25519 and crypto/sha512 are NOT verified (hypothesis Lawful/Cofactor, shown satisfiable); which byte strings decode is observed by correspondence against a from-scratch Lean curve, not proved; extractor+harness."),
 "C07": dict(ref="DESIGN.md §5 C07",
   technique="Lean 4 proof that the model's RFC 8032 key generation, signing and ZIP-215 verification fit together for every seed and message (abstract curve library, explicit hypothesis); byte identity with crypto/ed25519 by differential correspondence (three-way: package, standard library, independent Lean implementation)",
   text="partial (byte identity with crypto/ed25519 is correspondence, not theorem): Lean theorems for every 32-byte seed and every message: the key is seed || enc([s]B) with s the clamped SHA-512 half (never 0 mod L), Sign yields 64 bytes R || S with S = k*s + r mod L, Verify accepts it for its own key and message; "
        "Sign is a function (deterministic); the Signer wrapper returns the same signature for Hash(0) and an error for any other option; the only failures are the length panics. "
        "Correspondence: pkg/ed25519 = crypto/ed25519 = Lean RFC 8032 byte for byte over both SHA-512 padding regimes.",
   note="Trusted: Lean kernel; curve library and SHA-512 (hypothesis Lawful); crypto/ed25519 as the reference named by the property; the Lean edwards25519/SHA-512 oracle; extractor+harness."),
 "C18": dict(ref="DESIGN.md §5 C18",
   technique="Lean 4 proof of ECVRF completeness, codec canonicity, key validation and the algebraic half of uniqueness over an abstract curve library (hypotheses explicit and shown jointly satisfiable); RFC 9381 conformance by differential correspondence against an independent Lean ECVRF",
   text="partial (library assumed; uniqueness is a random-oracle statement): Lean theorems for every seed and alpha on which try-and-increment succeeds: Prove yields a proof, Verify accepts its 80-byte encoding for the matching key with Proof.Hash, ProofToHash gives the same hash; for ANY accepted proof the three hash routes agree; "
        "acceptance is characterised (canonical non-small-order key, canonical 80-byte (Gamma,c,s), recomputed challenge = c); non-canonical, undecodable and small-order keys are rejected; decoding succeeds only for strings that re-encode to themselves (s < L, 16-byte c) and every such proof round-trips; isCanonicalY iff y < p; "
        "an accepted proof whose Gamma differs from [x]H by a small-order point yields the honest hash.",
   note="Trusted: Lean kernel; Mathlib algebra; curve library/SHA-512 (hypotheses Lawful, Cofactor, OrderExact, EncodeCanonical, EncodeDecode; Nat.Prime L is proved); conformance with RFC 9381 rests on the independent Lean implementation agreeing on every op incl. the RFC vectors; full uniqueness (Chaum-Pedersen soundness in the ROM) is not a theorem."),
}
PENDING = {}
