TEXT = {
 "C14": dict(ref="DESIGN.md §5 C14",
   technique="Lean 4 proof (induction over byte/trit lists + kernel-decided finite tables) with regenerated-fact tie and differential correspondence",
   text="Lean theorems over the executable model of b1t6/b1t8: encode = balanced-ternary spec for all 256 bytes (kernel decide) lifted to all byte strings by induction; "
        "decode∘encode = id; decode accepts exactly encoder outputs (all 729 / 6561 groups decided in the kernel, lifted by induction); error order and count. "
        "Model tied to the source by translated encodeGroup/decodeGroup, regenerated LUTs and source-text snapshots, and by an exhaustive-on-groups differential run.",
   note="Trusted: Lean kernel; extractor+harness; b1t6 decoders only specified on trits in {-1,0,1} (documented as undefined otherwise); Go int does not overflow in encodeGroup."),
 "C10": dict(ref="DESIGN.md §5 C10",
   technique="Lean 4 proof (parser = grammar, print/parse round trip by list induction) with regenerated call-site facts (ParseUint base/bit size, regexp literal) and exhaustive short-string correspondence",
   text="Lean theorems over the executable model of ParsePath/String: parse(print p) = p for every path; parse s succeeds iff s is in the grammar (\"\", \"m\", optional m/ then digit+[H']? components, decimal value < 2^31) "
        "and returns the decimal value (+2^31 if marked); leading zeros irrelevant. The tie regenerates the strconv.ParseUint base and bit size, the regexp literal and the source text from /repo; "
        "the correspondence enumerates every string of length <= 5/6 over a 10-letter alphabet.",
   note="Trusted: Lean kernel; extractor+harness; Go regexp/strconv/strings/fmt are modelled by their documented behaviour (exhaustively cross-checked on short strings). No-panic is observed by the correspondence run, the model being total."),
 "C15": dict(ref="DESIGN.md §5 C15",
   technique="Lean 4 proof (strong induction on the leaf count, for an arbitrary hash function) with source-text tie and differential correspondence over every leaf count up to thousands",
   text="Lean theorems for every hash function H and every n <= 2^63: largestPowerOfTwo n is the unique power of two k with k < n <= 2k; Hash = RFC 6962 MTH (inductive relation, shown functional); "
        "the first marshaling error in index order is returned, otherwise a hash. Correspondence runs every leaf count 0..600/4100 and 2^e±1 with three hash functions and an erroring leaf at every position of small trees.",
   note="Trusted: Lean kernel; extractor+harness; crypto.Hash instances are functions of their input; Lean hash oracles in the driver. The bottom-up and audit-path equivalences of the statement are not yet theorems (partial); "
        "they are exercised only through RFC-shaped MTH."),
}
PENDING = {}
