"""Per-property configuration of ./check (modules, generator, evidence texts)."""

def P(n, **kw):
    d = dict(tie="Iota.Tie.%s" % n, props="Iota.Props.%s" % n, audit="Iota.Audit.%s" % n, gen=n)
    d.update(kw)
    return d

PROPS = {
 "C14": P("C14", e2e="Iota.Tie.E2E.Codec",
   rule="ops: b1t6.enc/dec/dectrytes, b1t8.enc/dec. Enumerated: all 256 bytes, all 729 b1t6 groups (alone and after a valid group), "
        "all 6561 b1t8 groups over {-1,0,1}, all 27^2 tryte pairs, every int8 value inside a b1t8 group; random: multi-group strings "
        "with every length remainder and one fault (substitution / inserted invalid group / bad last trit). distinct = distinct op lines; "
        "non-trivial = reached the codec (not a harness-level parse failure)",
   assumptions=["Go int arithmetic in encodeGroup/decodeGroup does not overflow (values below 2^10)",
                "b1t6 decoders are specified only on trits in {-1,0,1} / trytes in [9A-Z] (documented as undefined otherwise)"],
   trusted_base=["iota.go trinary: the four functions b1t6 calls are translated from the pinned module source and tied like the repository's code; nothing of it is merely modelled any more"]),
 "C10": P("C10", e2e="Iota.Tie.E2E.Bip32Path",
   rule="ops: path.parse (ParsePath and UnmarshalText must agree), path.print (String, MarshalText, ParsePath of it), each mirrored as gen.path.* and answered by the GENERATED ParsePath / Path.String (the mirror also compares the error kind). Enumerated: ALL strings of "
        "length <= 5 (quick) / 6 (thorough) over the alphabet {0,1,7,9,8,m,/,H,',x}; 2^31 boundary values with 0..20 leading zeros, all markers, "
        "with/without m/; other-base look-alikes; random paths of length 0..40 for the round trip; random mutations of printed paths",
   assumptions=["keyReg.FindStringSubmatch returns the leftmost-first match of `(\\d+)([H']?)` (structure Externs, field find_spec) and strconv.ParseUint(ds, 10, 31) on a non-empty digit string returns its decimal value below 2^31 and an error otherwise (field parseUint_digits): the only hypotheses of code_parsePath; validated exhaustively on short strings"],
   trusted_base=["Go regexp and strconv: parameters of the translated ParsePath, assumed as stated, not verified; strings.TrimPrefix, strings.Split (one-byte separator) and fmt's %d of an unsigned integer: defined in Iota/Model/GoBits.lean (Go.trimPrefix, Go.splitByte, Go.decimal), validated by the gen.path.* ops"]),
 "C15": P("C15", e2e="Iota.Tie.E2E.Merkle",
   rule="ops: merkle.gen (n generated leaves, optional erroring leaf), merkle.hash (explicit leaves incl. empty and erroring ones), merkle.empty. "
        "Every leaf count 0..600 (quick) / 0..4100 (thorough), 2^e-1, 2^e, 2^e+1 for e up to 13 / 17, SHA-256, BLAKE2b-256, SHA-512; an erroring leaf at "
        "every position of every tree with <= 33 leaves; random small trees with several erroring/empty leaves; the harness also checks that inputs are not modified; every op is mirrored as gen.merkle.* and answered by the GENERATED Hasher.Hash / EmptyRoot",
   assumptions=["hash.Hash contract: every New() returns a fresh object, Write never fails and appends, Sum(nil) is a function of the bytes written (hash_sum is an arbitrary function in the tie, H in the theorems)",
                "MarshalBinary is a pure function of the element and does not panic; no element of data is a nil interface (a leaf is modelled by its (bytes, error) result)",
                "the receiver is not nil and its hash function is linked into the binary (crypto.Hash.New panics otherwise)",
                "n < 2^63 (Go int)"],
   trusted_base=["Lean SHA-256/SHA-512/BLAKE2b-256 oracles in the driver (validated against the Go standard library by this very run)"]),
 "C04": P("C04", e2e=["Iota.Tie.E2E.Bech32", "Iota.Tie.E2E.Bech32Api"], tie="Iota.Tie.Bech32",
   rule="ops: bech32.dec. For every symbol count 0..84: random 5-bit symbol sequences with a CORRECT checksum in all 32 values of the last symbol (all padding patterns, every length residue mod 8); "
        "valid encodings mutated by case changes, charset/arbitrary substitutions, insertions, deletions, truncations, separator games, over-long strings, random bytes; "
        "bytes >= 0x80, invalid UTF-8 and the Unicode characters whose Go case mapping lands in ASCII (U+212A, U+0130, U+017F, ...) at every position of sample strings",
   assumptions=["strings.ToLower/ToUpper map ASCII strings by ASCII case mapping and strings.LastIndex(s, \"1\") is the last occurrence of the byte (structure Externs, the only hypotheses of code_decode; nothing assumed on non-ASCII strings)", "len(s) < 2^63"],
   trusted_base=["Go strings.ToLower/ToUpper/LastIndex: parameters of the translated Decode, assumed as stated, not verified"]),
 "C05": P("C05", e2e=["Iota.Tie.E2E.Bech32", "Iota.Tie.E2E.Bech32Api"], tie="Iota.Tie.Bech32",
   rule="ops: bech32.enc. All data lengths 0..52 x hrp lengths {0,1,2, limit-1, limit, limit+1, limit+2, 83, 84} (both sides of the 90-character rule), boundary byte fills for every length residue mod 5, "
        "invalid prefixes (empty, mixed case, non-printable, non-ASCII, containing '1'), random single-case prefixes of length 1..84 with random data 0..51 bytes",
   assumptions=["strings.ToLower/ToUpper map ASCII strings by ASCII case mapping (structure Externs)", "len(hrp) < 2^62, len(src) < 2^60 (at exactly 2^60 EncodedLen wraps and make panics: encode_panics_at_2_60)"],
   trusted_base=["Go strings.ToLower/ToUpper: parameters of the translated Encode, assumed as stated, not verified"]),
 "C16": P("C16", e2e=["Iota.Tie.E2E.Bech32", "Iota.Tie.E2E.Bech32Api"], tie="Iota.Tie.Bech32",
   rule="ops: bech32.dec on corrupted code words. Per sampled valid string (incl. longest ones, window 89): ALL weight-1 substitutions of the data part, all position pairs of weight 2 "
        "(sampled symbols; 12 symbol pairs per position pair for 4 strings at thorough), sampled weight 3-4 incl. same-kind substitutions in the human-readable part",
   assumptions=["same as C04"],
   trusted_base=["Go strings.ToLower/ToUpper/LastIndex: parameters of the translated Decode, assumed as stated, not verified"]),
 "C19": P("C19", e2e=["Iota.Tie.E2E.Migration", "Iota.Tie.E2E.Address"],
   rule="ops: addr.enc (Bech32 of an address of every prefix x version, then ParseBech32 of it), addr.parse (with re-encoding of the parsed address) — both mirrored as gen.addr.* and answered by the GENERATED address.ParseBech32 / Bech32 / Bytes / Version on top of the generated bech32.Decode / Encode —, addr.frompk/fromoutput, mig.enc, mig.dec (the last two mirrored as gen.mig.* and answered by the GENERATED migration.Encode / Decode). "
        "All prefixes x versions x random/boundary hashes; Bech32 strings carrying every version byte 0..255 and payload lengths 0..50 under known and unknown prefixes, upper-case forms; corrupted addresses; "
        "migration round trips, single-tryte substitutions at every position of sampled strings, lengths 80/82, lower case, non-ASCII, bad prefix/suffix, invalid groups",
   assumptions=["BLAKE2b is a function (arbitrary H in the theorems, the parameter blake2b_Sum256 of the translated migration code, assumed to return 32 bytes); len(trytes) < 2^63",
                "address.go: ParsePrefix, Prefix.String, ParseBech32, Bech32 and the Bytes / Version methods are translated as code (stage 11; the interface Address as a CLOSED sum over the package's own three implementations — a foreign implementation passed to Bech32 is outside the translation; strings.ToLower/ToUpper/LastIndex assumed as in C04); ParseVersion, the String methods and the constructors from keys / output ids stay hand-modelled or pinned by text; migration.go with its iota.go callees (guards.IsTrytesOfExactLength, the iota.go copy of b1t6) is translated as code"],
   trusted_base=["Lean BLAKE2b oracle in the driver (validated against x/crypto by this run)"]),
 "C03": P("C03", e2e="Iota.Tie.E2E.Bip39",
   rule="ops: bip39.enc, bip39.dec (per op the word list is selected with SetWordList; each mirrored as gen.bip39.* and answered by the GENERATED EntropyToMnemonic / MnemonicToEntropy), hash.sha256. Every entropy length 12..68 (valid and invalid) x {all-zero, all-one, random, 1..4 leading zero bytes, "
        "1..4 trailing zero bytes, value 1} x {english, japanese}; all 2048 word indices of each list placed in every word position class; decode stream: valid sentences with a swapped/dropped/added/unknown/NFC-composed/"
        "foreign-list word or two words exchanged; every single checksum bit and the 11 entropy bits next to it flipped in valid sentences of every size",
   assumptions=["SHA-256 is an arbitrary 32-byte-output function H in the theorems (the parameter sha256_Sum256 of the translated code)",
                "the three methods of the package-level interface variable wordList are those of one list of 2048 words during a call (structure Externs; no concurrent SetWordList — a documented API restriction)",
                "math/big SetBytes/Bytes/Int64/And/Or/Lsh/Rsh/Cmp by their documented meaning on Int (translator stages 10 and 12, ownership discipline checked syntactically); len(entropy) < 2^59, fewer than 2^58 words"],
   trusted_base=["Lean SHA-256 oracle in the driver (validated against crypto/sha256 by hash.sha256 ops)", "committed official word lists (Iota/Spec/Bip39Words.lean), tied to the repository's lists and to the official digests"]),
 "C06": P("C06", e2e="Iota.Tie.E2E.Curl", tie="Iota.Tie.Curl",
   rule="ops: curl.hist = one whole history (A absorb with batch sizes 1..64 varying between calls and 0..3 blocks, lanes possibly longer than tritsCount; S squeeze of 0..2 blocks for 1..64 lanes; R reset; "
        "C clone; X continue on the clone; rejected calls with bad batch size/length in the middle; absorb-after-squeeze panic as last op). The harness runs the real batched Curl and, independently, 64 iota.go single-lane "
        "sponges; the driver runs the Lean model and 64 Lean spec sponges; the line compares outputs and both agreement flags",
   assumptions=["Go arrays are copied by value (Clone/Reset)"],
   trusted_base=["iota.go single-lane curl used as a second reference in the harness only"]),
 "C09": P("C09", tie="Iota.Tie.C03",
   rule="ops: bip39.seed (raw passphrase to the implementation, its x/text NFKD form to the Lean PBKDF2), bip39.parse (fields and parse∘print∘parse), hash.sha512. Valid mnemonics of both lists x passphrases "
        "(empty, long, composed/decomposed pairs, compatibility characters, full-width, Hangul, invalid UTF-8), invalid mnemonics (no seed); parser: every IsSpace code point and several look-alike non-spaces as separator, "
        "leading/trailing/multiple, truncated encodings, random mixes of words, spaces and non-spaces",
   assumptions=["x/text NFKD satisfies: nfkd(join(fields(nfkd s))) = join(fields(nfkd s))", "PBKDF2/HMAC/SHA-512 abstract in the theorems"],
   trusted_base=["Lean PBKDF2-HMAC-SHA512 oracle in the driver (validated against the Go implementation by this run)", "byte-level model of strings.Fields (white-space table)"]),
 "C20": P("C20", tie="Iota.Tie.Curl",
   rule="ops: curl.transform on arbitrary planes (all 25 combinations of plane shapes {random, all-zero, all-one, single bit, sparse}, i.e. including invalid (0,0) encodings, then random states): the harness runs the build's "
        "transform (assembly on amd64) and transformGeneric inside guard words (stray writes are reported) and requires them equal; the driver runs the Lean model of transformGeneric AND the Lean interpreter of the extracted assembly "
        "and requires them equal; then both sides are compared. curl.hist: whole-sponge runs on top of the build's transform",
   assumptions=["instruction semantics of the Go-assembler subset as written in Iota/Model/AsmSem.lean", "the Go assembler/linker/CPU"],
   trusted_base=["Iota/Model/AsmSem.lean (207 lines) is the specification of the machine; it is exercised against the real CPU by the correspondence run"]),
 "C11": P("C11", tie="Iota.Tie.Pow",
   rule="ops: pow1.check (hook-exported checkStateTrits on planes built from 64 lanes with n-1/n/n+1/random trailing zeros, n = 0..243), pow.score (trailing zeros from the Lean BLAKE2b/b1t6/Curl-P pipeline; the float score is "
        "compared inside the harness with math.Pow(3,z)/len), pow1.mono (monotonicity of the float score over z = 0..243 for each length used), pow.mined v1 (every nonce returned by Mine at targets exactly at / one ulp above / one ulp below "
        "3^k/len, at 1/(2 len), 0, negative, denormal; 1..16 workers) re-scored",
   assumptions=["IEEE-754: z -> math.Pow(3,z)/len is monotone (checked exhaustively per length at run time)", "iota.go curl/bct computes the lanes' Curl-P-81 hashes (external)"],
   trusted_base=["float64 semantics are outside the model (abstract monotone score in the theorems)"]),
 "C12": P("C12", tie="Iota.Tie.Pow", e2e="Iota.Tie.E2E.PowV2",
   rule="ops: pow2.toint, pow2.suff (sufficientTrailingZeros and targetHash incl. the overflow guard), pow2.check (hook-exported checkStateTrits on constructed planes: lanes whose hash integer is exactly the target hash, "
        "one above, one below, the largest with s / s-1 trailing zeros, random with >= s-1 zeros, random; at lane 0, 63, random; all-fail and all-candidate planes; sprinkled invalid (0,0) encodings), pow2.statetoint, pow.score, "
        "pow.mined v2 (nonces returned by Mine with 1..16 workers re-scored by the Lean pipeline: the expected reply is ok=true; also series of Mine calls on ONE long-lived Worker with the same target and message lengths 0..6000 going up and down), pow2.nopassover (single worker: every earlier nonce re-scored); pow2.toint / pow2.statetoint / pow2.suff are answered a second time by the GENERATED code (gen.pow2.*)",
   assumptions=["iota.go curl/bct computes the lanes' Curl-P-81 hashes (external)", "len(data)+8 times target fits 64 bits (the property's quantifier)"],
   trusted_base=["Lean BLAKE2b-256 / b1t6 / Curl-P-81 pipeline in the driver", "math/big modelled on Nat / Int (stage 14: SetUint64, Mul, Add, Quo by their documented meaning)"]),
 "C02": P("C02", tie="Iota.Tie.Slip10",
   rule="ops: slip10.derive (private key, chain code, serialized public key, fingerprint; the harness also derives step by step and requires the same key), slip10.pubderive, hash.hmac512, hash.hash160. Seeds of length 0..64 x "
        "{secp256k1, P-256, ed25519} x random paths (length 0..6, mixed hardened); undefined derivations (non-hardened on ed25519 private and public keys, hardened child of a public key); pluggable curves whose validity predicate "
        "rejects ~50% and ~99% of the candidates (both retry loops run hundreds of times) and one returning a permanent error (per-op timeout turns a hang into an outcome)",
   assumptions=["HMAC-SHA512, SHA-256, RIPEMD-160 and the curve operations are parameters of the theorems"],
   trusted_base=["Lean HMAC-SHA512/SHA-256/RIPEMD-160, the secp256k1 model (C17), P-256 and Ed25519 oracles in the driver, validated by agreement with the Go packages"]),
 "C08": P("C08", tie="Iota.Tie.Slip10", e2e="Iota.Tie.E2E.Slip10Secp",
   rule="ops: slip10.shift (mirrored as gen.slip10.shift and answered by the GENERATED NewPrivateKey / PrivateKey.Shift / PublicKey.Shift, with the generated secp256k1 code resp. a Lean P-256 oracle as the curve) on secp256k1 and P-256: random scalars 0<k<n (also 1 and n-1) x shifts {0, k, n-k, n-k+1, n-1, n, n+1, 2^256-1, 1, random}, private side vs public side with panics recovered; "
        "slip10.pubderive: child of the private key made public vs child of the public key (key bytes, chain code, fingerprint) for random parents and non-hardened indices",
   assumptions=["NIST P-256 only: crypto/elliptic's operations form a cyclic group of order n generated by the base point (hypothesis LawfulW). For secp256k1 the hypothesis is discharged (C17 + N prime + [N]G = 0): shift_commutes_secp256k1 is unconditional"],
   trusted_base=["crypto/elliptic P-256 (external)"]),
 "C17": P("C17", e2e="Iota.Tie.E2E.Secp",
   rule="ops: secp.add, secp.double, secp.mul, secp.basemul, secp.oncurve on btccurve.Secp256k1() (each mirrored as gen.secp.* and answered by the GENERATED Add / Double / ScalarMult / ScalarBaseMult / IsOnCurve): random pairs, P=Q, P=-Q, identity on either side and both, scalars 0, 1, 2, n-1, n, n+1, 2n, 2^256-1, n/2, with leading zero bytes, "
        "lengths 0..40, multiples of the identity; IsOnCurve on curve points, near misses and (0,0)",
   assumptions=["none about the curve: P and N prime and ord(G) = N are theorems (Pratt certificates, kernel-evaluated [N]G = 0)",
                "(*big.Int).ModInverse, a parameter of the translated code, behaves as documented: inverse in [0, n) when it exists, nil only when g and n are not coprime (structure ExternsSpec, met by the model's extended Euclid)",
                "*big.Int arguments and the receiver's CurveParams are not nil; no concurrent writer of the arguments (stated in the header of Gen/Secp256k1Code.lean)"],
   trusted_base=["Mathlib's elliptic-curve group law (WeierstrassCurve.Affine.Point) and lucas_primality",
                 "math/big Mul/Add/Sub/Mod/Lsh/Set/SetInt64/Sign/Cmp by their documented meaning on Int (translator stage 10: *big.Int as a value under a syntactically checked ownership discipline); executed against the real functions by the gen.secp.* ops and audit/stage10-validation"]),
 "C13": P("C13", race=True,
   rule="ops: mine.trace = one recorded execution of the real Mine (hook events spawn / batch / saw-done / store / send / wg.Done / Wait returned / close / recv / watcher arms / cancel, with the result), replayed by the Lean validator "
        "against the transition system (every event must be an enabled step, the run must end in `returned` with the reported result); mine.runtime = goroutines alive 200 ms after return, time from cancel() to return, unexpected errors "
        "(each scenario also without the trace sink). Scenarios: v1 and v2 x workers {1,2,3,8} (thorough: also 16, 64; 8 repetitions) x {every lane qualifies, some work, cancelled before the call, pre-cancelled and satisfiable, "
        "cancelled during mining, cancellation racing a find}. The same stream runs once more in a harness built with -race",
   assumptions=["sync/atomic, channels, sync.WaitGroup and context behave as the Go memory model specifies (each is one atomic step of the model)",
                "the Go scheduler is fair (every enabled goroutine eventually runs); real time is not modelled: bounds are step counts",
                "numWorkers >= 1 (enforced by New)"],
   trusted_base=["Iota/Model/Mine.lean (the transition system) is tied to the source by the regenerated synchronisation skeleton, capture and access lists (Tie/C13) and validated by trace replay",
                 "the Go race detector and runtime.NumGoroutine in the supporting run"]),
 "C01": P("C01", tie="Iota.Tie.Ed",
   rule="ops: ed.verify (verdict of pkg/ed25519.Verify; the harness also records crypto/ed25519's verdict and requires std-accept => accept). Honest signatures for messages of many lengths; every single-bit flip of signature and key (quick: a sample); "
        "all 8x8 torsion shifts of A and of R built so that the cofactored equation holds, and one-sided shifts after signing; S + j*L for every j that fits 256 bits; wrong lengths; the 14 small-order / non-canonical encodings in all pairings as key and R with S = 0 and random S; "
        "honest key with small-order R and vice versa; random bytes and non-points; a 31-byte key (panic). The Lean side runs the model over a from-scratch edwards25519 and SHA-512",
   assumptions=["filippo.io/edwards25519 implements the group law, Point.SetBytes/Bytes and Equal of edwards25519 (hypothesis Lawful, Cofactor); crypto/sha512 is a function with 64-byte output"],
   trusted_base=["Lean edwards25519 + SHA-512 in the driver (Iota/Model/Edwards.lean, Hash/SHA2.lean): the independent cofactored oracle, validated by agreement on every op",
                 "filippo.io/edwards25519, crypto/sha512 (external, modelled by their contracts)"]),
 "C07": P("C07", tie="Iota.Tie.Ed",
   rule="ops: ed.keygen (NewKeyFromSeed, GenerateKey with a deterministic reader, Seed, Public; compared in the harness with crypto/ed25519.NewKeyFromSeed), ed.sign (signed twice; compared with crypto/ed25519.Sign on honest keys), ed.verify of each signature, "
        "ed.signer (crypto.Signer with Hash(0) and with SHA-512/SHA-256 options). Random seeds x message lengths 0..300 covering 111/112/127/128-byte boundaries of both SHA-512 padding regimes; bad seed/key lengths (panics); a private key whose public half is foreign",
   assumptions=["same as C01", "crypto/ed25519 is RFC 8032 (the reference the property names)"],
   trusted_base=["crypto/ed25519 as comparison inside the harness", "Lean edwards25519 + SHA-512 in the driver as the second, independent RFC 8032 implementation"]),
 "C18": P("C18", tie="Iota.Tie.Ed",
   rule="ops: vrf.prove (proof bytes, Proof.Hash, ProofToHash), vrf.verify (verdict and hash), vrf.setbytes (decode then re-encode). Random seeds x alphas incl. empty and long, alphas found by search to need 2..5 try-and-increment rounds; each proof: wrong alpha, "
        "every bit flip (quick: sample), s >= L, lengths 79/81, Gamma or key replaced by each non-canonical / small-order encoding; random 80-byte strings. The Lean side is an independent ECVRF-EDWARDS25519-SHA512-TAI over a from-scratch curve",
   assumptions=["same as C01, plus: the base point has order L (OrderExact; that L is prime is proved), Point.Bytes is canonical and canonical encodings are unique (EncodeCanonical, EncodeDecode)",
                "uniqueness beyond the algebraic half is a random-oracle argument, not a theorem"],
   trusted_base=["Lean ECVRF in the driver (Iota/Model/Vrf.lean over Iota/Model/Edwards.lean), validated on the RFC 9381 vectors by agreement with pkg/vrf"]),
}
