#!/usr/bin/env python3
"""Generates Iota/Proofs/Vectors/*.lean from the expected values computed by tools/vectors/govec (out.txt)
and the repository's testdata.  Byte strings are emitted as list literals, 16 bytes per line."""
import sys, json, gzip
OUT=sys.argv[2] if len(sys.argv) > 2 else 'Iota/Proofs/Vectors/'
out = dict(l.strip().split('=',1) for l in open(sys.argv[1] if len(sys.argv) > 1 else 'tools/vectors/govec/out.txt') if '=' in l and ' ' not in l.split('=')[0])

def bl(h, ind=4):
    b = bytes.fromhex(h)
    if len(b) <= 20:
        return "[" + ",".join("0x%02x" % x for x in b) + "]"
    rows = [",".join("0x%02x" % x for x in b[i:i+16]) for i in range(0,len(b),16)]
    return "[" + (",\n"+" "*(ind+1)).join(rows) + "]"
def sl(s, ind=4): return bl(s.encode().hex(), ind)

def thm(name, doc, stmt, pre=""):
    return f"/-- {doc} -/\n{pre}theorem {name} :\n    {stmt} := by decide +kernel\n\n"

# ---------------------------------------------------------------- Hash.lean
h = '''/-
Known-answer tests for the hash oracles, proved by kernel evaluation (`decide +kernel`).
Every expected value was recomputed with Go (crypto/sha256, crypto/sha512, golang.org/x/crypto v0.2.0
blake2b and ripemd160 — the versions of /repo/go.mod) by tools/vectors/govec/main.go; the published
source of each vector is named in its doc comment.  Core Lean only.
-/
import Iota.Model.Hash.SHA2
import Iota.Model.Hash.Blake2b
import Iota.Model.Hash.Ripemd160

namespace Iota.Proofs.Vectors
open Iota

set_option maxRecDepth 100000

/-! ### SHA-256 (FIPS 180-4 / NIST CSRC example values) -/

'''
m56="abcdbcdecdefdefgefghfghighijhijkijkljklmklmnlmnomnopnopq"
m112="abcdefghbcdefghicdefghijdefghijkefghijklfghijklmghijklmnhijklmnoijklmnopjklmnopqklmnopqrlmnopqrsmnopqrstnopqrstu"
h += thm("sha256_empty", 'SHA-256(""), NIST CSRC "SHA256 example values" / FIPS 180-4; = Go `sha256.Sum256`.', f"Hash.sha256 [] =\n    {bl(out['sha256_0'])}")
h += thm("sha256_abc", 'SHA-256("abc"), FIPS 180-4 one-block example; = Go `sha256.Sum256`.', f"Hash.sha256 {sl('abc')} =\n    {bl(out['sha256_3'])}")
h += thm("sha256_448bits", f'SHA-256 of the 56-byte FIPS 180-4 two-block example "{m56}"; = Go `sha256.Sum256`.', f"Hash.sha256\n    {sl(m56)} =\n    {bl(out['sha256_56'])}")
h += "/-! ### SHA-512 (FIPS 180-4 / NIST CSRC example values) -/\n\n"
h += thm("sha512_empty", 'SHA-512(""); = Go `sha512.Sum512`.', f"Hash.sha512 [] =\n    {bl(out['sha512_0'])}")
h += thm("sha512_abc", 'SHA-512("abc"), FIPS 180-4 one-block example; = Go `sha512.Sum512`.', f"Hash.sha512 {sl('abc')} =\n    {bl(out['sha512_3'])}")
h += thm("sha512_896bits", f'SHA-512 of the 112-byte FIPS 180-4 two-block example "abcdefghbcdefghi…nopqrstu"; = Go `sha512.Sum512`.', f"Hash.sha512\n    {sl(m112)} =\n    {bl(out['sha512_112'])}")
h += "/-! ### BLAKE2b-256 (values of golang.org/x/crypto/blake2b `Sum256`; \"abc\" is also the RFC 7693 message) -/\n\n"
h += thm("blake2b256_empty", 'BLAKE2b-256(""); Go x/crypto `blake2b.Sum256(nil)`.', f"Hash.blake2b256 [] =\n    {bl(out['blake2b256_'])}")
h += thm("blake2b256_abc", 'BLAKE2b-256("abc"); Go x/crypto `blake2b.Sum256`.', f"Hash.blake2b256 {sl('abc')} =\n    {bl(out['blake2b256_abc'])}")
h += thm("blake2b512_abc", 'BLAKE2b-512("abc"): the worked example of RFC 7693 Appendix A; = Go x/crypto `blake2b.Sum512`.', f"Hash.blake2b 64 {sl('abc')} =\n    {bl(out['blake2b512_abc'])}")
h += "/-! ### RIPEMD-160 (test values of the RIPEMD-160 paper, Dobbertin–Bosselaers–Preneel) -/\n\n"
h += thm("ripemd160_empty", 'RIPEMD-160(""); published test value, = Go x/crypto `ripemd160`.', f"Hash.ripemd160 [] =\n    {bl(out['ripemd160_'])}")
h += thm("ripemd160_abc", 'RIPEMD-160("abc"); published test value, = Go x/crypto `ripemd160`.', f"Hash.ripemd160 {sl('abc')} =\n    {bl(out['ripemd160_abc'])}")
h += "end Iota.Proofs.Vectors\n"
open(OUT+'Hash.lean','w').write(h)

# ---------------------------------------------------------------- Mac.lean
mn = "abandon abandon abandon abandon abandon abandon abandon abandon abandon abandon abandon about"
m = '''/-
Known-answer tests for HMAC-SHA512 and PBKDF2-HMAC-SHA512, proved by kernel evaluation.
Expected values recomputed with Go (crypto/hmac + crypto/sha512, golang.org/x/crypto/pbkdf2 v0.2.0) by
tools/vectors/govec/main.go.

The full BIP-39 seed derivation (2048 iterations = 8192 SHA-512 compressions in this oracle, which
does not cache the padded-key blocks) is out of reach of kernel evaluation: one HMAC costs ≈ 15 s, so
2048 iterations would take about 9 hours.  The PBKDF2 vectors below use 1 and 2 iterations instead
(same password and salt as the first vector of /repo/pkg/bip39/testdata/TestBIP39.json for the 1-iteration one).
Core Lean only.
-/
import Iota.Model.Hash.SHA2

namespace Iota.Proofs.Vectors
open Iota

set_option maxRecDepth 100000

/-! ### HMAC-SHA512 (RFC 4231) -/

'''
m += thm("hmacSha512_rfc4231_tc1", 'RFC 4231 test case 1: key = 20 × 0x0b, data = "Hi There"; = Go crypto/hmac.', f"Hash.hmacSha512 {bl('0b'*20)} {sl('Hi There')} =\n    {bl(out['hmac_tc1'])}")
m += thm("hmacSha512_rfc4231_tc2", 'RFC 4231 test case 2: key = "Jefe", data = "what do ya want for nothing?"; = Go crypto/hmac.', f"Hash.hmacSha512 {sl('Jefe')}\n    {sl('what do ya want for nothing?')} =\n    {bl(out['hmac_tc2'])}")
m += thm("hmacSha512_rfc4231_tc6", 'RFC 4231 test case 6: key = 131 × 0xaa (longer than the 128-byte block, so it is hashed first),\ndata = "Test Using Larger Than Block-Size Key - Hash Key First"; = Go crypto/hmac.', f"Hash.hmacSha512 (List.replicate 131 0xaa)\n    {sl('Test Using Larger Than Block-Size Key - Hash Key First')} =\n    {bl(out['hmac_tc6'])}")
m += "/-! ### PBKDF2-HMAC-SHA512 (shrunk: 1 and 2 iterations instead of 2048) -/\n\n"
m += thm("pbkdf2Sha512_password_salt_2", 'PBKDF2-HMAC-SHA512("password", "salt", c = 2, dkLen = 64): the widely published RFC 6070-style vector\n(e1d9c16a…); = Go x/crypto `pbkdf2.Key(…, 2, 64, sha512.New)`.  Exercises the iteration loop and the XOR accumulation.', f"Hash.pbkdf2Sha512 {sl('password')} {sl('salt')} 2 64 =\n    {bl(out['pbkdf2_ps_2'])}")
m += thm("pbkdf2Sha512_bip39_1iter", 'Password and salt of the first vector of /repo/pkg/bip39/testdata/TestBIP39.json\n(mnemonic "abandon … about", salt "mnemonic" ++ "TREZOR") but with ONE iteration instead of 2048;\nexpected value from Go x/crypto `pbkdf2.Key(…, 1, 64, sha512.New)`.', f"Hash.pbkdf2Sha512\n    {sl(mn)}\n    {sl('mnemonicTREZOR')} 1 64 =\n    {bl(out['pbkdf2_bip39_1'])}")
m += "end Iota.Proofs.Vectors\n"
open(OUT+'Mac.lean','w').write(m)

# ---------------------------------------------------------------- Ed.lean
lines = gzip.open('/repo/pkg/ed25519/testdata/sign.input.gz','rt').read().split('\n')
rfc = []
for ln in lines[:3]:
    a = ln.split(':')
    sk, pk, msg, sigmsg = a[0], a[1], a[2], a[3]
    rfc.append((sk, pk, msg, sigmsg[:128]))
for i,(sk,pk,msg,sig) in enumerate(rfc):
    assert sk == out[f'ed_{i+1}_priv'] and sig == out[f'ed_{i+1}_sig'] and sk[64:] == pk
vr = json.load(open('/repo/pkg/vrf/testdata/rfc.json'))
for i in range(3):
    assert vr[i]['pi'] == out[f'vrf_{i+1}_pi'] and vr[i]['beta'] == out[f'vrf_{i+1}_beta'] and vr[i]['sk'] == rfc[i][0][:64] and vr[i]['pk']==rfc[i][1]
e = '''/-
Known-answer tests for the from-scratch edwards25519 oracle (Iota/Model/Edwards.lean) through the
models of pkg/ed25519 and pkg/vrf instantiated with the concrete library `Ed25519.edLib` (the
instance the driver uses), proved by kernel evaluation.

Sources: RFC 8032 §7.1 TEST 1 and TEST 2 = lines 1 and 2 of /repo/pkg/ed25519/testdata/sign.input.gz
(seed ‖ public key, public key, message, signature ‖ message); RFC 9381 Appendix B.3 Example 16 =
first entry of /repo/pkg/vrf/testdata/rfc.json.  All values were also recomputed with Go
(crypto/ed25519 and the repository's pkg/ed25519, pkg/vrf) by tools/vectors/govec/main.go.
Core Lean only.
-/
import Iota.Model.Vrf

namespace Iota.Proofs.Vectors
open Iota Iota.Ed25519

set_option maxRecDepth 100000

/-! ### Ed25519, RFC 8032 §7.1 -/

'''
for i,(sk,pk,msg,sig) in enumerate(rfc[:2]):
    n=i+1
    mdesc = 'the empty message' if msg=='' else f'the one-byte message 0x{msg}'
    e += thm(f"ed25519_rfc8032_test{n}_keygen", f'RFC 8032 §7.1 TEST {n}: secret seed ↦ private key `seed ‖ A` (A = the public key {pk[:8]}…).', f"newKeyFromSeed edLib\n    {bl(sk[:64])} =\n    some {bl(sk,9)}")
    e += thm(f"ed25519_rfc8032_test{n}_sign", f'RFC 8032 §7.1 TEST {n}: signature of {mdesc}.', f"sign edLib\n    {bl(sk)}\n    {bl(msg)} =\n    some {bl(sig,9)}")
    e += thm(f"ed25519_rfc8032_test{n}_verify", f'RFC 8032 §7.1 TEST {n}: the signature verifies.', f"verify edLib\n    {bl(pk)}\n    {bl(msg)}\n    {bl(sig)} = some true")
# a negative one: flip last bit of message for test 2
sk,pk,msg,sig = rfc[1]
e += thm("ed25519_rfc8032_test2_verify_wrong_message", 'RFC 8032 §7.1 TEST 2 signature against a different message (0x73 instead of 0x72): rejected\n(Go `ed25519.Verify` = false, checked with the repository package).', f"verify edLib\n    {bl(pk)}\n    [0x73]\n    {bl(sig)} = some false")
e += "/-! ### ECVRF-EDWARDS25519-SHA512-TAI, RFC 9381 Appendix B.3, Example 16 (SK = 9d61b1…, alpha = \"\") -/\n\n"
v=vr[0]; sk=rfc[0][0]
e += thm("ecvrf_rfc9381_ex16_prove", 'Example 16: `Prove(SK, alpha).Bytes()` = pi_string.', f"(Vrf.prove edLib\n    {bl(sk)}\n    []).map (Vrf.Proof.bytes edLib) =\n    some {bl(v['pi'],9)}")
e += thm("ecvrf_rfc9381_ex16_prove_hash", 'Example 16: `Prove(SK, alpha).Hash()` = beta_string.', f"(Vrf.prove edLib\n    {bl(sk)}\n    []).map (Vrf.Proof.hash edLib) =\n    some {bl(v['beta'],9)}")
e += thm("ecvrf_rfc9381_ex16_proofToHash", 'Example 16: `ProofToHash(pi_string)` = beta_string.', f"Vrf.proofToHash edLib\n    {bl(v['pi'])} =\n    some {bl(v['beta'],9)}")
e += thm("ecvrf_rfc9381_ex16_verify", 'Example 16: `Verify(PK, alpha, pi_string)` = (true, beta_string).', f"Vrf.verify edLib\n    {bl(v['pk'])}\n    []\n    {bl(v['pi'])} =\n    some (true,\n     {bl(v['beta'],5)})")
e += "end Iota.Proofs.Vectors\n"
open(OUT+'Ed.lean','w').write(e)

# ---------------------------------------------------------------- Slip10.lean
def pt(k): x,y = out[k].split(','); return f"(0x{x},\n          0x{y})"
sd = json.load(open('/repo/pkg/slip10/testdata/TestSecp256k1.json'))[0]
ee = json.load(open('/repo/pkg/slip10/testdata/TestEd25519.json'))[0]
assert sd['seed']==ee['seed']=='000102030405060708090a0b0c0d0e0f'
s = '''/-
Known-answer tests for the secp256k1 model (Iota/Model/Secp256k1.lean), the affine Weierstrass oracle
(Iota/Model/WeierOracle.lean) and SLIP-0010 key derivation (Iota/Model/Slip10.lean) instantiated exactly
as the driver does (Iota/Driver/Slip10.lean: `secpW`, `edPublic`, `hmac512`, `hash160`, `fuel`), proved by
kernel evaluation.

Sources: SEC 2 (generator G) and the standard multiples 2G, 3G; SLIP-0010 "Test vector 1" for secp256k1 and
ed25519 = first entries of /repo/pkg/slip10/testdata/TestSecp256k1.json and TestEd25519.json (chains m and
m/0H).  All values were recomputed with the repository's packages (pkg/slip10, btccurve) and
crypto/elliptic by tools/vectors/govec.  Core Lean only.
-/
import Iota.Driver.Slip10

namespace Iota.Proofs.Vectors
open Iota Iota.Slip10 Iota.Driver.Slip10

set_option maxRecDepth 100000

/-! ### secp256k1 model: multiples of the generator -/

'''
s += thm("secp256k1_1G", '1·G = G (SEC 2 §2.4.1 generator).', "Secp256k1.scalarBaseMult [1] = some (Secp256k1.Gx, Secp256k1.Gy)")
s += thm("secp256k1_2G", '2·G (standard value c6047f94…; = repository `btccurve.Secp256k1().ScalarBaseMult`).', f"Secp256k1.scalarBaseMult [2] =\n    some {pt('secp_02')}")
s += thm("secp256k1_3G", '3·G (standard value f9308a01…; = repository `btccurve`).', f"Secp256k1.scalarBaseMult [3] =\n    some {pt('secp_03')}")
s += thm("secp256k1_slip10_master_pub", 'k·G for the 32-byte SLIP-0010 test-vector-1 master key k = e8f32e72…: the point whose compression is the\npublished public key 0339a360…; y from the repository `btccurve`.', f"Secp256k1.scalarBaseMult\n    {bl(sd['tests'][0]['private'])} =\n    some {pt('secp_e8')}")
s += thm("secp256k1_2G_on_curve", '2·G satisfies the curve equation of the model.', f"Secp256k1.isOnCurve\n      0x{out['secp_02'].split(',')[0]}\n      0x{out['secp_02'].split(',')[1]} = true")
s += "/-! ### Weierstrass oracle (P-256 and, as a second opinion, secp256k1) -/\n\n"
def ptn(k): x,y = out[k].split(','); return f"(0x{x},\n     0x{y})"
s += thm("p256_2G", '2·G on NIST P-256 (= Go `elliptic.P256().ScalarBaseMult`).', f"WeierOracle.baseMul WeierOracle.p256 2 =\n    {ptn('p256_2')}")
s += thm("p256_k112233445566778899", 'k·G on NIST P-256 for k = 112233445566778899 (NIST "point-mul" test value 33915084…; = Go crypto/elliptic).', f"WeierOracle.baseMul WeierOracle.p256 112233445566778899 =\n    {ptn('p256_112233445566778899')}")
s += thm("weierOracle_secp256k1_3G", '3·G on secp256k1 by the affine oracle: agrees with the Jacobian model above.', f"WeierOracle.baseMul WeierOracle.secp256k1 3 =\n    {ptn('secp_03')}")
s += '''/-! ### SLIP-0010 test vector 1 (seed 000102030405060708090a0b0c0d0e0f) -/

/-- what the test data lists for an extended key: private key, chain code, public key, parent fingerprint. -/
def slip10View {κ : Type} (c : Curve κ) (r : Except Err (ExtKey κ)) : Option (Bytes × Bytes × Bytes × Bytes) :=
  match r with
  | .ok e => some (c.bytes e.key, e.chainCode, c.bytes (c.pub e.key), fingerprint c hash160 e)
  | .error _ => none

/-- the driver's "k1" curve: HMAC key "Bitcoin seed". -/
def slip10K1 : Curve (WKey Pt) := wCurve secpW [66, 105, 116, 99, 111, 105, 110, 32, 115, 101, 101, 100]

/-- the driver's "ed" curve. -/
def slip10Ed : Curve EdKey := edCurve edPublic

def slip10Seed : Bytes := [0x00,0x01,0x02,0x03,0x04,0x05,0x06,0x07,0x08,0x09,0x0a,0x0b,0x0c,0x0d,0x0e,0x0f]

'''
def s10(name, doc, cv, path, t):
    return thm(name, doc, f"slip10View {cv} (deriveKeyFromPath hmac512 {cv} fuel slip10Seed {path}) =\n    some ({bl(t['private'],10)},\n          {bl(t['chainCode'],10)},\n          {bl(t['public'],10)},\n          {bl(t['fingerprint'])})")
s += s10("slip10_secp256k1_tv1_m", 'secp256k1, chain m.', 'slip10K1', '[]', sd['tests'][0])
s += s10("slip10_secp256k1_tv1_m_0H", 'secp256k1, chain m/0H.', 'slip10K1', '[hardened + 0]', sd['tests'][1])
s += s10("slip10_ed25519_tv1_m", 'ed25519, chain m.', 'slip10Ed', '[]', ee['tests'][0])
s += s10("slip10_ed25519_tv1_m_0H", 'ed25519, chain m/0H.', 'slip10Ed', '[hardened + 0]', ee['tests'][1])
s += "end Iota.Proofs.Vectors\n"
open(OUT+'Slip10.lean','w').write(s)

# ---------------------------------------------------------------- Bip39.lean
tb = json.load(open('/repo/pkg/bip39/testdata/TestBIP39.json'))[0]['tests']
def words(mn): return "[" + ",\n     ".join(sl(w) for w in mn.split()) + "]"
b = '''/-
Known-answer tests for the BIP-39 model with the committed English word list and the SHA-256 oracle,
proved by kernel evaluation.  Source: /repo/pkg/bip39/testdata/TestBIP39.json (the Trezor reference
vectors), entries 1 and 4 of the English list; recomputed with the repository's pkg/bip39.
(The seed of these vectors needs PBKDF2 with 2048 iterations and is out of reach, see Mac.lean.)
Core Lean only.
-/
import Iota.Model.Mnemonic
import Iota.Model.Hash.SHA2
import Iota.Spec.Bip39Words

namespace Iota.Proofs.Vectors
open Iota Iota.Bip39

set_option maxRecDepth 100000

'''
for idx,nm in ((0,'zero'),(3,'ones')):
    t = tb[idx]
    b += f"/-- \"{t['mnemonic']}\" -/\ndef bip39Mnemonic_{nm} : List Word :=\n    {words(t['mnemonic'])}\n\n"
    b += thm(f"bip39_entropyToMnemonic_{nm}", f"entropy {t['entropy']} ↦ \"{t['mnemonic']}\".", f"entropyToMnemonic Hash.sha256 Spec.Bip39Words.english\n    {bl(t['entropy'])} = .ok bip39Mnemonic_{nm}")
    b += thm(f"bip39_mnemonicToEntropy_{nm}", f"and back.", f"mnemonicToEntropy Hash.sha256 Spec.Bip39Words.english bip39Mnemonic_{nm} =\n    .ok {bl(t['entropy'])}")
bad = tb[0]['mnemonic'].rsplit(' ',1)[0] + ' abandon'
b += thm("bip39_mnemonicToEntropy_bad_checksum", "twelve times \"abandon\" has a wrong checksum (Go `MnemonicToEntropy` returns ErrInvalidChecksum).", f"mnemonicToEntropy Hash.sha256 Spec.Bip39Words.english (List.replicate 12 {sl('abandon')}) =\n    .error .invalidChecksum")
b += thm("mnemonic_join_zero", "`Mnemonic.String`: the words joined by single spaces.", f"Mnemonic.join bip39Mnemonic_zero =\n    {sl(tb[0]['mnemonic'])}")
b += "end Iota.Proofs.Vectors\n"
open(OUT+'Bip39.lean','w').write(b)
