#!/usr/bin/env python3
"""Plane literals for Iota/Proofs/Vectors/Curl.lean: for entry N of /repo/pkg/curl/testdata/curlp81.json prints
P0, N0 (planes of the loaded state, multiplier m_0 = 1) and P81, N81 (planes of the state after 81 rounds read
through the multiplier m_81 = (-2)^81 mod 729).  Reference Curl-P-81 on trits, independent of the Lean side."""
import json, sys
TT = [1, 0, -1, 2, 1, -1, 0, 2, -1, 1, 0]
LUT = "NOPQRSTUVWXYZ9ABCDEFGHIJKLM"
def rnd(s): return [TT[s[(364*i) % 729] + 4*s[(364*(i+1)) % 729] + 5] for i in range(729)]
def trits(c):
    v = LUT.index(c); return [v % 3 - 1, (v // 3) % 3 - 1, (v // 9) % 3 - 1]
def planes(state, m):
    P = N = 0
    for j in range(729):
        t = state[m*j % 729]
        if t == 1: P |= 1 << j
        elif t == -1: N |= 1 << j
    return P, N
v = json.load(open('/repo/pkg/curl/testdata/curlp81.json'))[int(sys.argv[1]) if len(sys.argv) > 1 else 0]
assert len(v['in']) == 81
s = [t for c in v['in'] for t in trits(c)] + [0]*486
P0, N0 = planes(s, 1)
for _ in range(81): s = rnd(s)
out = "".join(LUT[s[i] + 3*s[i+1] + 9*s[i+2] + 13] for i in range(0, 243, 3))
assert out == v['hash']
m81 = pow(727, 81, 729)
P81, N81 = planes(s, m81)
print("in  ", [ord(c) for c in v['in']])
print("hash", [ord(c) for c in v['hash']])
print("P0  0x%x\nN0  0x%x\nP81 0x%x\nN81 0x%x" % (P0, N0, P81, N81))
