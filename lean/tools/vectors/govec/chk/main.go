package main

import (
	"encoding/hex"
	"fmt"
	"strings"

	"github.com/wollac/iota-crypto-demo/pkg/bip39"
	"github.com/wollac/iota-crypto-demo/pkg/ed25519"
)

func unhex(s string) []byte { b, _ := hex.DecodeString(s); return b }

func main() {
	pk := unhex("3d4017c3e843895a92b70aa74d1b7ebc9c982ccf2ec4968cc0cd55f12af4660c")
	sig := unhex("92a009a9f0d4cab8720e820b5f642540a2b27b5416503f8fb3762223ebdb69da085ac1e43e15996e458f3613d0f11d8c387b2eaeb4302aeeb00d291612bb0c00")
	fmt.Println("verify72", ed25519.Verify(pk, []byte{0x72}, sig), "verify73", ed25519.Verify(pk, []byte{0x73}, sig))
	m := bip39.Mnemonic(strings.Fields(strings.Repeat("abandon ", 12)))
	_, err := bip39.MnemonicToEntropy(m)
	fmt.Println("12xabandon:", err)
	e := unhex("ffffffffffffffffffffffffffffffff")
	mm, err := bip39.EntropyToMnemonic(e)
	fmt.Println(mm, err)
	back, err := bip39.MnemonicToEntropy(mm)
	fmt.Printf("%x %v\n", back, err)
}
