package main

import (
	"crypto/hmac"
	"crypto/sha256"
	"crypto/sha512"
	stded "crypto/ed25519"
	"encoding/hex"
	"fmt"
	"math/big"
	"strings"

	"github.com/wollac/iota-crypto-demo/pkg/bip39"
	"github.com/wollac/iota-crypto-demo/pkg/ed25519"
	"github.com/wollac/iota-crypto-demo/pkg/slip10"
	"github.com/wollac/iota-crypto-demo/pkg/slip10/btccurve"
	"github.com/wollac/iota-crypto-demo/pkg/slip10/eddsa"
	"github.com/wollac/iota-crypto-demo/pkg/slip10/elliptic"
	"github.com/wollac/iota-crypto-demo/pkg/vrf"
	"golang.org/x/crypto/blake2b"
	"golang.org/x/crypto/pbkdf2"
	"golang.org/x/crypto/ripemd160"
)

func p(k string, v []byte) { fmt.Printf("%s=%s\n", k, hex.EncodeToString(v)) }
func unhex(s string) []byte { b, err := hex.DecodeString(s); if err != nil { panic(err) }; return b }

func main() {
	for _, m := range []string{"", "abc", "abcdbcdecdefdefgefghfghighijhijkijkljklmklmnlmnomnopnopq"} {
		h := sha256.Sum256([]byte(m)); p(fmt.Sprintf("sha256_%d", len(m)), h[:])
	}
	for _, m := range []string{"", "abc", "abcdefghbcdefghicdefghijdefghijkefghijklfghijklmghijklmnhijklmnoijklmnopjklmnopqklmnopqrlmnopqrsmnopqrstnopqrstu"} {
		h := sha512.Sum512([]byte(m)); p(fmt.Sprintf("sha512_%d", len(m)), h[:])
	}
	hm := func(name string, k, m []byte) { h := hmac.New(sha512.New, k); h.Write(m); p(name, h.Sum(nil)) }
	hm("hmac_tc1", []byte(strings.Repeat("\x0b", 20)), []byte("Hi There"))
	hm("hmac_tc2", []byte("Jefe"), []byte("what do ya want for nothing?"))
	hm("hmac_tc6", []byte(strings.Repeat("\xaa", 131)), []byte("Test Using Larger Than Block-Size Key - Hash Key First"))
	mn := "abandon abandon abandon abandon abandon abandon abandon abandon abandon abandon abandon about"
	p("pbkdf2_bip39_2048", pbkdf2.Key([]byte(mn), []byte("mnemonicTREZOR"), 2048, 64, sha512.New))
	p("pbkdf2_bip39_1", pbkdf2.Key([]byte(mn), []byte("mnemonicTREZOR"), 1, 64, sha512.New))
	p("pbkdf2_bip39_2", pbkdf2.Key([]byte(mn), []byte("mnemonicTREZOR"), 2, 64, sha512.New))
	p("pbkdf2_ps_1", pbkdf2.Key([]byte("password"), []byte("salt"), 1, 64, sha512.New))
	p("pbkdf2_ps_2", pbkdf2.Key([]byte("password"), []byte("salt"), 2, 64, sha512.New))
	p("pbkdf2_ps_2_100", pbkdf2.Key([]byte("password"), []byte("salt"), 2, 100, sha512.New))
	for _, m := range []string{"", "abc"} {
		h := blake2b.Sum256([]byte(m)); p("blake2b256_"+m, h[:])
		h5 := blake2b.Sum512([]byte(m)); p("blake2b512_"+m, h5[:])
		r := ripemd160.New(); r.Write([]byte(m)); p("ripemd160_"+m, r.Sum(nil))
	}
	// Ed25519 RFC 8032 tests 1,2,3
	for i, tv := range [][2]string{
		{"9d61b19deffd5a60ba844af492ec2cc44449c5697b326919703bac031cae7f60", ""},
		{"4ccd089b28ff96da9db6c346ec114e0f5b8a319f35aba624da8cf6ed4fb8a6fb", "72"},
		{"c5aa8df43f9f837bedb7442f31dcb7b166d38535076f094b85ce3a2e0b4458f7", "af82"}} {
		seed := unhex(tv[0]); msg := unhex(tv[1])
		k := ed25519.NewKeyFromSeed(seed)
		p(fmt.Sprintf("ed_%d_priv", i+1), k)
		sig := ed25519.Sign(k, msg)
		p(fmt.Sprintf("ed_%d_sig", i+1), sig)
		sk := stded.NewKeyFromSeed(seed)
		p(fmt.Sprintf("ed_%d_stdpriv", i+1), sk)
		p(fmt.Sprintf("ed_%d_stdsig", i+1), stded.Sign(sk, msg))
		fmt.Println("verify", ed25519.Verify(ed25519.PublicKey(k[32:]), msg, sig))
		// VRF
		pi := vrf.Prove(k, msg)
		p(fmt.Sprintf("vrf_%d_pi", i+1), pi.Bytes())
		p(fmt.Sprintf("vrf_%d_beta", i+1), pi.Hash())
		ok, beta := vrf.Verify(vrf.PublicKey(k[32:]), msg, pi.Bytes())
		fmt.Println("vrfverify", ok, hex.EncodeToString(beta))
	}
	// secp256k1
	c := btccurve.Secp256k1()
	for _, k := range []string{"01", "02", "03", "e8f32e723decf4051aefac8e2c93c9c5b214313817cdb01a1494b917c8436b35", "edb2e14f9ee77d26dd93b4ecede8d16ed408ce149b6cd80b0715a2d911a0afea"} {
		x, y := c.ScalarBaseMult(unhex(k))
		fmt.Printf("secp_%s=%064x,%064x\n", k[:2], x, y)
	}
	_ = big.NewInt
	seed := unhex("000102030405060708090a0b0c0d0e0f")
	for _, cv := range []struct{ n string; c slip10.Curve }{{"k1", elliptic.Secp256k1()}, {"p256", elliptic.Nist256p1()}, {"ed", eddsa.Ed25519()}} {
		for _, path := range [][]uint32{{}, {0x80000000}} {
			e, err := slip10.DeriveKeyFromPath(seed, cv.c, path)
			if err != nil { panic(err) }
			fmt.Printf("slip10_%s_%d key=%x cc=%x pub=%x fpr=%x\n", cv.n, len(path), e.Key.Bytes(), e.ChainCode, e.Key.Public().Bytes(), e.Fingerprint())
		}
	}
	ent := make([]byte, 16)
	m, err := bip39.EntropyToMnemonic(ent)
	fmt.Println("bip39", m, err)
	e2, err := bip39.MnemonicToEntropy(m)
	fmt.Printf("bip39back %x %v\n", e2, err)
	sd, err := bip39.MnemonicToSeed(m, "TREZOR")
	fmt.Printf("bip39seed %x %v\n", sd, err)
}
