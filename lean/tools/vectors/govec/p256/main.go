package main

import (
	"crypto/elliptic"
	"fmt"
	"math/big"
)

func main() {
	c := elliptic.P256()
	for _, ks := range []string{"1", "2", "112233445566778899"} {
		k, _ := new(big.Int).SetString(ks, 10)
		x, y := c.ScalarBaseMult(k.Bytes())
		fmt.Printf("p256_%s=%064x,%064x\n", ks, x, y)
	}
}
