import sys, json, time
from sympy import factorint, isprime, primitive_root
sys.setrecursionlimit(10000)
P = 2**256 - 2**32 - 977
N = 0xFFFFFFFFFFFFFFFFFFFFFFFFFFFFFFFEBAAEDCE6AF48A03BBFD25E8CD0364141
L = 2**252 + 27742317777372353535851937790883648493
cert = {}
def pratt(p):
    if p in cert or p < 200: return
    t=time.time()
    hints = {L: {2:2,3:1,11:1,198211423230930754013084525763697:1,276602624281642239937218680557139826668747:1},
             N: {2:6,3:1,149:1,631:1,107361793816595537:1,174723607534414371449:1,341948486974166000522343609283189:1}}
    f = hints[p] if p in hints else factorint(p-1)
    assert all(isprime(q) for q in f)
    pr=1
    for q,e in f.items(): pr*=q**e
    assert pr==p-1
    print("factored", p.bit_length(), "bits in %.1fs"%(time.time()-t), {k.bit_length():v for k,v in f.items()}, flush=True)
    # find witness
    a = 2
    while True:
        if pow(a, p-1, p) == 1 and all(pow(a, (p-1)//q, p) != 1 for q in f): break
        a += 1
    cert[p] = (a, sorted(f.items()))
    for q in f: pratt(q)
for name, p in (("P",P),("L",L),("N",N)):
    print("==",name, flush=True)
    pratt(p)
json.dump({str(k):[v[0],[[str(q),e] for q,e in v[1]]] for k,v in cert.items()}, open('/tmp/pratt/cert.json','w'))
print("done", len(cert))
