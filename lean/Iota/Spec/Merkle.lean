/-
RFC 6962 §2.1 Merkle Tree Hash, as a relation:
  MTH({})   = H()
  MTH({d})  = H(0x00 || d)
  MTH(D[n]) = H(0x01 || MTH(D[0:k]) || MTH(D[k:n]))   k the largest power of two smaller than n
("k < n ≤ 2k", RFC 6962), for an arbitrary hash function `H`.
-/
import Iota.Model.Merkle

namespace Iota.Spec.Merkle
open Iota.Merkle

inductive IsMTH (H : Bytes → Bytes) : List Bytes → Bytes → Prop
  | empty : IsMTH H [] (H [])
  | leaf (d : Bytes) : IsMTH H [d] (H (0 :: d))
  | node (D : List Bytes) (k e : Nat) (l r : Bytes) :
      2 ≤ D.length → k = 2 ^ e → k < D.length → D.length ≤ 2 * k →
      IsMTH H (D.take k) l → IsMTH H (D.drop k) r → IsMTH H D (H (1 :: (l ++ r)))

/-- the first marshaling error in index order, if any. -/
def firstError {ε : Type} : List (Except ε Bytes) → Option ε
  | [] => none
  | .error e :: _ => some e
  | .ok _ :: rest => firstError rest

end Iota.Spec.Merkle
