/-! Balanced ternary, little-endian, as the b1t6 specification states it. -/
namespace Iota.Spec

/-- value of little-endian (balanced or not) ternary digits: Σ tᵢ·3ⁱ. -/
def balValue : List Int → Int
  | [] => 0
  | t :: ts => t + 3 * balValue ts

end Iota.Spec
