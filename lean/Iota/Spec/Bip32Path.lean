/-
Specification of the BIP-32 path text form accepted by `ParsePath`, written as a
grammar: `""`, `"m"`, or an optional `"m/"` followed by '/'-separated components,
each made of decimal digits with an optional single `H` or apostrophe.
-/
import Iota.Model.Bip32Path

namespace Iota.Spec.Bip32Path
open Iota.Bip32Path

/-- positional decimal value, least significant digit first. -/
def decLE : Str → Nat
  | [] => 0
  | d :: ds => digitVal d + 10 * decLE ds

/-- the decimal reading of a digit string (most significant first): Σ dᵢ·10^(n-1-i). -/
def decimal (ds : Str) : Nat := decLE ds.reverse

structure Comp where
  digits : Str
  marker : Option UInt8

def Comp.WF (c : Comp) : Prop :=
  c.digits ≠ [] ∧ (∀ d ∈ c.digits, isDigit d = true) ∧ decimal c.digits < 2 ^ 31 ∧
  (c.marker = none ∨ c.marker = some chH ∨ c.marker = some chApos)

def Comp.text (c : Comp) : Str := c.digits ++ c.marker.toList

def Comp.index (c : Comp) : Nat := decimal c.digits + (if c.marker.isSome then 2 ^ 31 else 0)

def joinSlash : List Str → Str
  | [] => []
  | [x] => x
  | x :: y :: xs => x ++ chSlash :: joinSlash (y :: xs)

inductive Grammar : Str → List Nat → Prop
  | empty : Grammar [] []
  | m : Grammar [chM] []
  | bare (cs : List Comp) : cs ≠ [] → (∀ c ∈ cs, c.WF) →
      Grammar (joinSlash (cs.map Comp.text)) (cs.map Comp.index)
  | rooted (cs : List Comp) : cs ≠ [] → (∀ c ∈ cs, c.WF) →
      Grammar (chM :: chSlash :: joinSlash (cs.map Comp.text)) (cs.map Comp.index)

end Iota.Spec.Bip32Path
