/-
BIP-173 (Bech32) specification, written independently of the Go code's structure:
 * `to5`: the 8→5 bit regrouping with zero padding, stated positionally — the symbols are the
   base-32 digits of (the bytes read as a big-endian number) · 2^pad;
 * `Valid s hrp data`: what BIP-173 calls a valid Bech32 string that carries whole bytes.
The checksum polynomial `polymod` and the charset are BIP-173's reference definitions; they are
shared with the model (the model *is* the reference algorithm there) and tied to the source by
Iota/Tie/Bech32.lean.
-/
import Iota.Model.Bech32

namespace Iota.Spec.Bip173
open Iota.Bech32

/-- big-endian value of a byte string. -/
def valBE : List UInt8 → Nat := List.foldl (fun acc b => acc * 256 + b.toNat) 0

/-- the `n` low-order base-32 digits of `x`, most significant first (least significant last). -/
def digits32 : Nat → Nat → List UInt8
  | 0, _ => []
  | n + 1, x => digits32 n (x / 32) ++ [UInt8.ofNat (x % 32)]

/-- number of 5-bit symbols for `n` bytes: ⌈8n/5⌉. -/
def symCount (n : Nat) : Nat := (8 * n + 4) / 5

/-- BIP-173 `convertbits(data, 8, 5, pad=true)`. -/
def to5 (bs : List UInt8) : List UInt8 :=
  digits32 (symCount bs.length) (valBE bs * 2 ^ (5 * symCount bs.length - 8 * bs.length))

def hasUpper (s : Str) : Prop := ∃ c ∈ s, isUpperAscii c = true
def hasLower (s : Str) : Prop := ∃ c ∈ s, isLowerAscii c = true

/-- `s` is a valid Bech32 string with human-readable part `hrp` (lower-cased) carrying the bytes `data`. -/
structure Valid (s hrp : Str) (data : List UInt8) : Prop where
  /-- at most 90 characters -/
  len : s.length ≤ 90
  /-- a single case -/
  oneCase : ¬ (hasUpper s ∧ hasLower s)
  /-- the last '1' separates a non-empty printable-ASCII prefix from the data part … -/
  split : ∃ h d syms : Str,
    s = h ++ [separator] ++ d ∧ separator ∉ d ∧ h ≠ [] ∧
    (∀ c ∈ h, 33 ≤ c.toNat ∧ c.toNat ≤ 126) ∧
    /- … the data part consists of charset characters (in either case) … -/
    (∀ x ∈ syms, x.toNat < 32) ∧ lower d = charsetEncode syms ∧
    /- … ends in a valid six-symbol checksum over the lower-cased prefix … -/
    6 ≤ syms.length ∧ polymod (hrpExpand (lower h) ++ syms) = 1 ∧
    /- … and the rest regroups into whole bytes with zero padding bits. -/
    syms.take (syms.length - 6) = to5 data ∧ hrp = lower h

end Iota.Spec.Bip173
