/-
Two constructions that are independent of the recursion of `Iota.Merkle.hash` (and of `largestPowerOfTwo`):

* `bottomUp`: the level-by-level construction of a Merkle tree.  Start from the list of leaf hashes
  `H (0x00 ‖ leaf)`; one pass replaces a level by the list of `H (0x01 ‖ l ‖ r)` for consecutive pairs and
  carries an unpaired last node up unchanged; repeat until one node remains.  No leaves ↦ `H ()`.

* RFC 6962 §2.1.1 audit paths `auditPath` (the RFC's `PATH(m, D[n])`, with the RFC's `MTH` written out as the
  function `mth` and "the largest power of two smaller than n" as `splitPoint`), and the *iterative* verifier of
  RFC 9162 §2.1.3.2 (`rootFromPath` / `verifyPath`), which walks the path bottom-up using only the bits of the
  leaf index and of `tree_size - 1`; it never computes a split point.

Core Lean only.  Theorems: Iota/Proofs/MerkleTree.lean.
-/
import Iota.Model.Merkle

namespace Iota.Spec.MerkleTree
open Iota.Merkle

/-! ### A. bottom-up construction -/

/-- one pairing pass over a level: consecutive pairs are hashed, an unpaired last node is carried up unchanged. -/
def pairUp (H : Bytes → Bytes) : List Bytes → List Bytes
  | l :: r :: rest => hashNode H l r :: pairUp H rest
  | [x] => [x]
  | [] => []

theorem length_pairUp_le (H : Bytes → Bytes) : ∀ (n : Nat) (L : List Bytes), L.length ≤ n →
    (pairUp H L).length ≤ L.length
  | _, [], _ => Nat.le_refl _
  | _, [_], _ => Nat.le_refl _
  | 0, _ :: _ :: _, h => by simp at h
  | n + 1, _ :: _ :: rest, h => by
    have := length_pairUp_le H n rest (by simp at h; omega)
    simp only [pairUp, List.length_cons]; omega

/-- repeat the pairing pass until a single node remains. -/
def collapse (H : Bytes → Bytes) (level : List Bytes) : Bytes :=
  match level with
  | [] => H []
  | [x] => x
  | l :: r :: rest => collapse H (pairUp H (l :: r :: rest))
termination_by level.length
decreasing_by
  have := length_pairUp_le H rest.length rest (Nat.le_refl _)
  simp only [pairUp, List.length_cons]; omega

/-- the root of the tree over `leaves`, built bottom-up. -/
def bottomUp (H : Bytes → Bytes) (leaves : List Bytes) : Bytes :=
  collapse H (leaves.map (hashLeaf H))

/-! ### B. RFC 6962 §2.1.1: MTH and audit paths, as written -/

/-- "k the largest power of two smaller than n" (for n ≥ 2): `2 ^ ⌊log₂ (n-1)⌋`.
(`splitPoint_spec` in the proofs: it is a power of two with `k < n ≤ 2k`, which determines it.) -/
def splitPoint (n : Nat) : Nat := 2 ^ Nat.log2 (n - 1)

theorem splitPoint_pos_lt (n : Nat) (h : 2 ≤ n) : 0 < splitPoint n ∧ splitPoint n < n := by
  unfold splitPoint
  have hne : n - 1 ≠ 0 := by omega
  have := Nat.log2_self_le hne
  exact ⟨Nat.pow_pos (by omega), by omega⟩

/-- RFC 6962 §2.1: `MTH({}) = H()`, `MTH({d}) = H(0x00 ‖ d)`,
`MTH(D[n]) = H(0x01 ‖ MTH(D[0:k]) ‖ MTH(D[k:n]))`. -/
def mth (H : Bytes → Bytes) (D : List Bytes) : Bytes :=
  if _h : D.length < 2 then
    match D with
    | [] => H []
    | d :: _ => hashLeaf H d
  else
    let k := splitPoint D.length
    hashNode H (mth H (D.take k)) (mth H (D.drop k))
termination_by D.length
decreasing_by
  all_goals
    have := splitPoint_pos_lt D.length (by omega)
    simp only [List.length_take, List.length_drop]
    omega

/-- RFC 6962 §2.1.1: `PATH(0, {d(0)}) = {}`,
`PATH(m, D[n]) = PATH(m, D[0:k]) : MTH(D[k:n])` for `m < k`,
`PATH(m, D[n]) = PATH(m - k, D[k:n]) : MTH(D[0:k])` for `m ≥ k`  (`:` appends; the list is ordered leaf to root). -/
def auditPath (H : Bytes → Bytes) (D : List Bytes) (m : Nat) : List Bytes :=
  if _h : D.length < 2 then []
  else
    let k := splitPoint D.length
    if m < k then auditPath H (D.take k) m ++ [mth H (D.drop k)]
    else auditPath H (D.drop k) (m - k) ++ [mth H (D.take k)]
termination_by D.length
decreasing_by
  all_goals
    have := splitPoint_pos_lt D.length (by omega)
    simp only [List.length_take, List.length_drop]
    omega

/-! ### B. RFC 9162 §2.1.3.2: verifying an inclusion proof, iteratively -/

/-- "right-shift both `fn` and `sn` equally until either `LSB(fn)` is set or `fn` is 0". -/
def shiftOdd (fn sn : Nat) : Nat × Nat :=
  if fn % 2 = 1 ∨ fn = 0 then (fn, sn) else shiftOdd (fn / 2) (sn / 2)
termination_by fn
decreasing_by omega

/-- steps 4 and 5 of RFC 9162 §2.1.3.2, returning the computed root (`none` = the proof fails to verify):
for each `p` in the path: fail if `sn = 0`; if `LSB(fn)` is set or `fn = sn`, then `r := H(0x01 ‖ p ‖ r)` and both are
shifted until `LSB(fn)` is set or `fn = 0`; otherwise `r := H(0x01 ‖ r ‖ p)`; finally both are shifted once more.
At the end `sn` must be 0. -/
def rootFromPath (H : Bytes → Bytes) : Nat → Nat → Bytes → List Bytes → Option Bytes
  | _, sn, r, [] => if sn = 0 then some r else none
  | fn, sn, r, p :: path =>
    if sn = 0 then none
    else if fn % 2 = 1 ∨ fn = sn then
      rootFromPath H ((shiftOdd fn sn).1 / 2) ((shiftOdd fn sn).2 / 2) (hashNode H p r) path
    else
      rootFromPath H (fn / 2) (sn / 2) (hashNode H r p) path

/-- RFC 9162 §2.1.3.2 steps 1–4: the root computed from leaf number `leafIndex` (with content `leaf`) of a tree of
`treeSize` leaves and an inclusion path; `none` if `leafIndex ≥ treeSize` or the path does not fit the tree shape. -/
def verifyPath (H : Bytes → Bytes) (leafIndex treeSize : Nat) (leaf : Bytes) (path : List Bytes) : Option Bytes :=
  if leafIndex < treeSize then rootFromPath H leafIndex (treeSize - 1) (hashLeaf H leaf) path else none

/-- step 5: compare with the expected root. -/
def verifyInclusion (H : Bytes → Bytes) (leafIndex treeSize : Nat) (leaf : Bytes) (path : List Bytes)
    (root : Bytes) : Bool :=
  verifyPath H leafIndex treeSize leaf path == some root

/-- the byte strings that `rootFromPath` feeds to `H`, in order (for stating collision-freeness on exactly those). -/
def rootFromPathInputs (H : Bytes → Bytes) : Nat → Nat → Bytes → List Bytes → List Bytes
  | _, _, _, [] => []
  | fn, sn, r, p :: path =>
    if sn = 0 then []
    else if fn % 2 = 1 ∨ fn = sn then
      (1 :: (p ++ r)) ::
        rootFromPathInputs H ((shiftOdd fn sn).1 / 2) ((shiftOdd fn sn).2 / 2) (hashNode H p r) path
    else
      (1 :: (r ++ p)) :: rootFromPathInputs H (fn / 2) (sn / 2) (hashNode H r p) path

/-- the byte strings that `verifyPath` feeds to `H`: the leaf preimage, then the node preimages bottom-up. -/
def verifyPathInputs (H : Bytes → Bytes) (leafIndex treeSize : Nat) (leaf : Bytes) (path : List Bytes) : List Bytes :=
  (0 :: leaf) :: rootFromPathInputs H leafIndex (treeSize - 1) (hashLeaf H leaf) path

end Iota.Spec.MerkleTree
