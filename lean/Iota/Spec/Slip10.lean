/-
SLIP-0010 ("Universal private key derivation from master private key") written the way the standard
is written — candidate sequences as functions of the retry number, "the result is the first valid
candidate" — and independent of the model `Iota.Model.Slip10` (this file imports nothing; it has its
own `parse256` / `ser256` / `ser32`).  HMAC-SHA512 and HASH160 are parameters; a curve enters through
its order `n`, `point(p) = p·G`, point addition, the point at infinity and `serP`.  Core Lean only.

Conventions of the standard used below:
  ser32(i)     the 32-bit unsigned integer i as 4 bytes, most significant byte first
  ser256(p)    the integer p as 32 bytes, most significant byte first
  parse256(p)  a 32-byte sequence as a 256-bit number, most significant byte first
  point(p)     the point p·G
  serP(P)      the compressed SEC1 encoding (0x02 or 0x03) ‖ ser256(x)
  I_L, I_R     the first 32 bytes and the rest of the 64-byte HMAC-SHA512 output I
-/
namespace Iota.Spec.Slip10

abbrev Bytes := List UInt8

/-! ### serialisation -/

/-- a byte sequence as a number, most significant byte first. -/
def parse256 : Bytes → Nat
  | [] => 0
  | x :: xs => x.toNat * 256 ^ xs.length + parse256 xs

/-- the number `p` as `len` bytes, most significant byte first (the low `len` bytes of `p`). -/
def serBE : Nat → Nat → Bytes
  | 0, _ => []
  | len + 1, p => serBE len (p / 256) ++ [UInt8.ofNat (p % 256)]

def ser32 (i : Nat) : Bytes := serBE 4 i
def ser256 (p : Nat) : Bytes := serBE 32 p

/-- `serP(P)` for the finite point `P = (x, y)`: SEC1 compressed form, `0x02` (y even) or `0x03` (y odd), then
`ser256(x)`. -/
def serPxy (x y : Nat) : Bytes := (if y % 2 = 0 then 0x02 else 0x03) :: ser256 x

def IL (I : Bytes) : Bytes := I.take 32
def IR (I : Bytes) : Bytes := I.drop 32

/-- the first hardened index, 2³¹. -/
def hardened : Nat := 2 ^ 31

/-- `j` is the first index at which `valid` holds. -/
def IsFirst (valid : Bytes → Prop) (seq : Nat → Bytes) (j : Nat) : Prop :=
  valid (seq j) ∧ ∀ m, m < j → ¬ valid (seq m)

section
variable (hmac : Bytes → Bytes → Bytes)

/-! ### the candidate sequences -/

/-- master key generation: `I₀ = HMAC(Key = Curve, Data = S)`; "if the key is invalid, set S := I
and restart": `Iₙ₊₁ = HMAC(Key = Curve, Data = Iₙ)`. -/
def masterI (curveKey S : Bytes) : Nat → Bytes
  | 0 => hmac curveKey S
  | n + 1 => hmac curveKey (masterI curveKey S n)

/-- child key derivation: `I₀ = HMAC(Key = c_par, Data = data)`; "if the resulting key is invalid,
let I = HMAC(Key = c_par, Data = 0x01 ‖ I_R ‖ ser32(i)) and restart":
`Iₙ₊₁ = HMAC(Key = c_par, Data = 0x01 ‖ I_R(Iₙ) ‖ ser32(i))`. -/
def childI (cpar data : Bytes) (i : Nat) : Nat → Bytes
  | 0 => hmac cpar data
  | n + 1 => hmac cpar (0x01 :: (IR (childI cpar data i n) ++ ser32 i))

/-! ### secp256k1 and NIST P-256 -/

/-- what SLIP-0010 uses of a Weierstrass curve. -/
structure EC (Pt : Type) where
  /-- "Bitcoin seed", "Nist256p1 seed" -/
  curveKey : Bytes
  /-- the order of the curve -/
  n : Nat
  /-- `point(p)` -/
  point : Nat → Pt
  add : Pt → Pt → Pt
  /-- the point at infinity -/
  inf : Pt
  serP : Pt → Bytes

variable {Pt : Type} (E : EC Pt)

/-- master: `parse256(I_L)` is a valid key iff it is in `[1, n-1]`. -/
def validMaster (I : Bytes) : Prop := 1 ≤ parse256 (IL I) ∧ parse256 (IL I) < E.n

/-- private child: `parse256(I_L) < n` and `k_i = parse256(I_L) + k_par (mod n) ≠ 0`. -/
def validPrivChild (kpar : Nat) (I : Bytes) : Prop :=
  parse256 (IL I) < E.n ∧ (parse256 (IL I) + kpar) % E.n ≠ 0

/-- public child: `parse256(I_L) < n` and `K_i = point(parse256(I_L)) + K_par` is not the point at infinity. -/
def validPubChild (Kpar : Pt) (I : Bytes) : Prop :=
  parse256 (IL I) < E.n ∧ E.add (E.point (parse256 (IL I))) Kpar ≠ E.inf

/-- the HMAC data of CKDpriv: hardened `0x00 ‖ ser256(k_par) ‖ ser32(i)`, else `serP(point(k_par)) ‖ ser32(i)`. -/
def dataPriv (kpar i : Nat) : Bytes :=
  if hardened ≤ i then 0x00 :: (ser256 kpar ++ ser32 i) else E.serP (E.point kpar) ++ ser32 i

/-- the HMAC data of CKDpub (`i < 2³¹` only): `serP(K_par) ‖ ser32(i)`. -/
def dataPub (Kpar : Pt) (i : Nat) : Bytes := E.serP Kpar ++ ser32 i

/-- the master key of seed `S` is `(k, c)`, found at candidate number `j`. -/
def MasterAt (S : Bytes) (j k : Nat) (c : Bytes) : Prop :=
  IsFirst (validMaster E) (masterI hmac E.curveKey S) j ∧
    k = parse256 (IL (masterI hmac E.curveKey S j)) ∧ c = IR (masterI hmac E.curveKey S j)

/-- `CKDpriv((k_par, c_par), i) = (k, c)`, found at candidate number `j`. -/
def CKDprivAt (kpar : Nat) (cpar : Bytes) (i j k : Nat) (c : Bytes) : Prop :=
  IsFirst (validPrivChild E kpar) (childI hmac cpar (dataPriv E kpar i) i) j ∧
    k = (parse256 (IL (childI hmac cpar (dataPriv E kpar i) i j)) + kpar) % E.n ∧
    c = IR (childI hmac cpar (dataPriv E kpar i) i j)

/-- `CKDpub((K_par, c_par), i) = (K, c)`, found at candidate number `j`; defined for `i < 2³¹` only. -/
def CKDpubAt (Kpar : Pt) (cpar : Bytes) (i j : Nat) (K : Pt) (c : Bytes) : Prop :=
  i < hardened ∧
  IsFirst (validPubChild E Kpar) (childI hmac cpar (dataPub E Kpar i) i) j ∧
    K = E.add (E.point (parse256 (IL (childI hmac cpar (dataPub E Kpar i) i j)))) Kpar ∧
    c = IR (childI hmac cpar (dataPub E Kpar i) i j)

def Master (S : Bytes) (k : Nat) (c : Bytes) : Prop := ∃ j, MasterAt hmac E S j k c
def CKDpriv (kpar : Nat) (cpar : Bytes) (i k : Nat) (c : Bytes) : Prop := ∃ j, CKDprivAt hmac E kpar cpar i j k c
def CKDpub (Kpar : Pt) (cpar : Bytes) (i : Nat) (K : Pt) (c : Bytes) : Prop := ∃ j, CKDpubAt hmac E Kpar cpar i j K c

/-- an extended private key with what its serialisation shows of its parent: the fingerprint. -/
structure XPriv where
  k : Nat
  c : Bytes
  fingerprint : Bytes

/-- the fingerprint field: `0x00000000` for a master key, otherwise the first 32 bits of
HASH160(serP(K_par)). -/
def fingerprintOf (hash160 : Bytes → Bytes) (Kpar : Pt) : Bytes := (hash160 (E.serP Kpar)).take 4

/-- `m/i₁/…/i_k`: the master key of `S`, then CKDpriv along the path; every step uses at most
`bound` candidates (`bound` is there to state completeness for a run with given fuel). -/
inductive DerivesWithin (hash160 : Bytes → Bytes) (bound : Nat) : XPriv → List Nat → XPriv → Prop
  | nil (x : XPriv) : DerivesWithin hash160 bound x [] x
  | cons (x : XPriv) (i j k : Nat) (c : Bytes) (is : List Nat) (z : XPriv) :
      j < bound → CKDprivAt hmac E x.k x.c i j k c →
      DerivesWithin hash160 bound ⟨k, c, fingerprintOf E hash160 (E.point x.k)⟩ is z →
      DerivesWithin hash160 bound x (i :: is) z

def PathKeyWithin (hash160 : Bytes → Bytes) (bound : Nat) (S : Bytes) (path : List Nat) (z : XPriv) : Prop :=
  ∃ j k c, j < bound ∧ MasterAt hmac E S j k c ∧
    DerivesWithin hmac E hash160 bound ⟨k, c, [0, 0, 0, 0]⟩ path z

/-- the extended private key at `path` below the master key of `S`. -/
def PathKey (hash160 : Bytes → Bytes) (S : Bytes) (path : List Nat) (z : XPriv) : Prop :=
  ∃ bound, PathKeyWithin hmac E hash160 bound S path z

/-! ### ed25519: every 256-bit string is a private key; hardened derivation only -/

/-- "ed25519 seed" -/
def edCurveKey : Bytes := [0x65, 0x64, 0x32, 0x35, 0x35, 0x31, 0x39, 0x20, 0x73, 0x65, 0x65, 0x64]

/-- master key: `I = HMAC(Key = "ed25519 seed", Data = S)`, `k = I_L`, `c = I_R` (no retry). -/
def edMaster (S : Bytes) : Bytes × Bytes :=
  (IL (hmac edCurveKey S), IR (hmac edCurveKey S))

/-- CKDpriv, `i ≥ 2³¹` only: `I = HMAC(Key = c_par, Data = 0x00 ‖ k_par ‖ ser32(i))`, `k = I_L`, `c = I_R`. -/
def edCKDpriv (kpar cpar : Bytes) (i : Nat) : Bytes × Bytes :=
  (IL (hmac cpar (0x00 :: (kpar ++ ser32 i))), IR (hmac cpar (0x00 :: (kpar ++ ser32 i))))

/-- the public key `A` (32 bytes) is serialised as `0x00 ‖ A`. -/
def edSerP (A : Bytes) : Bytes := 0x00 :: A

/-- the fingerprint of a child of `k_par`: first 32 bits of HASH160(0x00 ‖ A_par), `A_par` the public key of `k_par`. -/
def edFingerprintOf (edPublic : Bytes → Bytes) (hash160 : Bytes → Bytes) (kpar : Bytes) : Bytes :=
  (hash160 (edSerP (edPublic kpar))).take 4

/-- CKDpriv along a path, all indices hardened (otherwise undefined); the state is (k, c, fingerprint). -/
def edDerive (edPublic : Bytes → Bytes) (hash160 : Bytes → Bytes) :
    Bytes × Bytes × Bytes → List Nat → Option (Bytes × Bytes × Bytes)
  | x, [] => some x
  | x, i :: is =>
    if hardened ≤ i then
      edDerive edPublic hash160
        ((edCKDpriv hmac x.1 x.2.1 i).1, (edCKDpriv hmac x.1 x.2.1 i).2, edFingerprintOf edPublic hash160 x.1) is
    else none

/-- the key, chain code and fingerprint at `path` below the master key of `S`. -/
def edPathKey (edPublic : Bytes → Bytes) (hash160 : Bytes → Bytes) (S : Bytes) (path : List Nat) :
    Option (Bytes × Bytes × Bytes) :=
  edDerive hmac edPublic hash160 ((edMaster hmac S).1, (edMaster hmac S).2, [0, 0, 0, 0]) path

end

/-! ### sanity of the serialisation functions -/

example : ser32 (2 ^ 31 + 44) = [0x80, 0, 0, 44] := by decide
example : parse256 [1, 0] = 256 := by decide
example : ser256 258 = List.replicate 30 0 ++ [1, 2] := by decide

end Iota.Spec.Slip10
