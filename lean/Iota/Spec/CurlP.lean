/-
Curl-P-81, single lane, at the trit level — the specification.
State: 729 balanced trits (initially all 0).  One round replaces the state by
  new[i] = f(old[364·i mod 729], old[364·(i+1) mod 729]),  f(a,b) = TRUTH[a + 4·b + 5],
with the reference truth table.  The sponge has rate 243: absorbing a block overwrites the first
243 trits and applies 81 rounds; squeezing outputs the first 243 trits, applying 81 rounds before
every block but the first one squeezed.
-/
namespace Iota.Spec.CurlP

def truthTable : List Int := [1, 0, -1, 2, 1, -1, 0, 2, -1, 1, 0]

/-- the Curl-P s-box on balanced trits. -/
def f (a b : Int) : Int := truthTable.getD (a + 4 * b + 5).toNat 0

def idx (i : Nat) : Nat := (364 * i) % 729

abbrev State := Array Int   -- size 729

def zeroState : State := Array.replicate 729 0

def round (s : State) : State :=
  Array.ofFn (n := 729) fun i => f (s.getD (idx i.val) 0) (s.getD (idx (i.val + 1)) 0)

def rounds : Nat → State → State
  | 0, s => s
  | n + 1, s => rounds n (round s)

def transform (s : State) : State := rounds 81 s

structure Sponge where
  state : State
  squeezing : Bool

def Sponge.init : Sponge := { state := zeroState, squeezing := false }

/-- sign-normalised trit: the batched code treats any positive value as +1, any negative as −1. -/
def normTrit (t : Int) : Int := if t > 0 then 1 else if t < 0 then -1 else 0

/-- absorb one block of (at least) 243 trits. -/
def Sponge.absorbBlock (s : Sponge) (block : List Int) : Sponge :=
  { s with state := transform (Array.ofFn (n := 729) fun i =>
      if i.val < 243 then normTrit (block.getD i.val 0) else s.state.getD i.val 0) }

/-- absorb `n` consecutive blocks of `input`. -/
def Sponge.absorb (s : Sponge) (input : List Int) : Nat → Sponge
  | 0 => s
  | n + 1 => Sponge.absorb (s.absorbBlock input) (input.drop 243) n

/-- squeeze one block. -/
def Sponge.squeezeBlock (s : Sponge) : Sponge × List Int :=
  let st := if s.squeezing then transform s.state else s.state
  ({ state := st, squeezing := true }, (List.range 243).map fun i => st.getD i 0)

def Sponge.squeeze (s : Sponge) : Nat → Sponge × List Int
  | 0 => (s, [])
  | n + 1 =>
    let (s1, o1) := s.squeezeBlock
    let (s2, o2) := Sponge.squeeze s1 n
    (s2, o1 ++ o2)

end Iota.Spec.CurlP
