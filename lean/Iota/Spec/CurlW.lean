/-
Word-level closed form of one Curl-P round on bit-sliced planes:
  new[i] = sBox(old[364·i mod 729], old[364·(i+1) mod 729])   (64 lanes at once),
the common target of `transformGeneric` (Go) and of the amd64 assembly.
-/
import Iota.Model.Curl
import Iota.Spec.CurlP

namespace Iota.Spec.CurlW
open Iota.Curl Iota.Spec.CurlP

def rdW (p : Plane) (i : Nat) : W := p.toArray.getD i 0

def roundW (lh : Plane × Plane) : Plane × Plane :=
  (Vector.ofFn fun (i : Fin 729) =>
      (sBox (rdW lh.1 (idx i.val)) (rdW lh.2 (idx i.val)) (rdW lh.1 (idx (i.val + 1))) (rdW lh.2 (idx (i.val + 1)))).1,
   Vector.ofFn fun (i : Fin 729) =>
      (sBox (rdW lh.1 (idx i.val)) (rdW lh.2 (idx i.val)) (rdW lh.1 (idx (i.val + 1))) (rdW lh.2 (idx (i.val + 1)))).2)

def roundsW : Nat → Plane × Plane → Plane × Plane
  | 0, lh => lh
  | n + 1, lh => roundsW n (roundW lh)

end Iota.Spec.CurlW
