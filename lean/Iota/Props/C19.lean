/-
C19 — network and migration addresses round-trip and parse strictly.
`parseBech32` and `Migration.decode` are total functions (no panic outcome in the model; a Go
panic would be a `panic` reply in the correspondence run).
-/
import Iota.Proofs.Address

namespace Iota.Props.C19
open Iota.Address Iota.Bech32 Iota.Spec.Bip173

/-- for every network prefix and every Ed25519, Alias or NFT address, `ParseBech32` of the Bech32
form returns the same prefix and address. -/
theorem parse_of_bech32 (p : Nat) (hp : p < 4) (a : Addr) (hl : a.hash.length = a.kind.hashLen) :
    ∃ s, bech32 p a = .ok s ∧ parseBech32 s = .ok (p, a) :=
  Proofs.Address.parse_bech32 p hp a hl

/-- `ParseBech32` accepts a string only if it is valid Bech32 with a known prefix, a known version
byte and exactly the payload length of that version; re-encoding gives the lower-cased input. -/
theorem parse_strict (s : Str) (p : Nat) (a : Addr) (h : parseBech32 s = .ok (p, a)) :
    p < 4 ∧ Valid s (hrpStrings.getD p []) (a.kind.version :: a.hash) ∧
    a.hash.length = a.kind.hashLen ∧ bech32 p a = .ok (lower s) :=
  Proofs.Address.parse_ok s p a h

/-- for every 32-byte address the migration form decodes to that address (any hash function with
at least 4 output bytes). -/
theorem migration_decode_encode (H : Migration.Bytes → Migration.Bytes) (hH : ∀ x, 4 ≤ (H x).length)
    (a : Migration.Bytes) (ha : a.length = 32) : Migration.decode H (Migration.encode H a) = .ok a :=
  Proofs.Migration.decode_encode H hH a ha

/-- the migration decoder accepts only the strings the encoder can produce. -/
theorem migration_canonical (H : Migration.Bytes → Migration.Bytes) (t a : Migration.Bytes)
    (h : Migration.decode H t = .ok a) : t = Migration.encode H a ∧ a.length = 32 :=
  Proofs.Migration.encode_of_decode H t a h

/-- … which are 81 trytes: fixed prefix, 72 b1t6 trytes, fixed suffix. -/
theorem migration_shape (H : Migration.Bytes → Migration.Bytes) (hH : ∀ x, 4 ≤ (H x).length)
    (a : Migration.Bytes) (ha : a.length = 32) : (Migration.encode H a).length = 81 := by
  unfold Migration.encode
  simp only [List.length_append, Proofs.Migration.encodeToTrytes_length, ha, List.length_take,
    Migration.checksumSize]
  have := hH a
  simp [Migration.pfx, Migration.sfx]; omega

/-! ### non-vacuity -/
example : hrpStrings.getD 0 [] = [105,111,116,97] ∧ parsePrefix [114,109,115] = some 3 := by decide
example : ∃ s, bech32 2 ⟨.alias, List.replicate 20 7⟩ = .ok s := by
  obtain ⟨s, h, _⟩ := parse_of_bech32 2 (by decide) ⟨.alias, List.replicate 20 7⟩ (by decide)
  exact ⟨s, h⟩
-- an unknown version byte is rejected: Bech32("iota", [1]) = "iota1qyu5qu9d"
example : (parseBech32 [105,111,116,97,49,113,121,117,53,113,117,57,100]).toOption = none := by decide +kernel

end Iota.Props.C19
