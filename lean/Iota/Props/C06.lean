/-
C06 — batched Curl equals independent Curl-P-81 sponges, lane by lane.
Model: Iota/Model/Curl.lean (the Go code, with every array access bounds-checked);
specification: Iota/Spec/CurlP.lean (trit-level Curl-P-81, single lane).
Proofs: Iota/Proofs/Curl/*.  `Clone` is the identity on the model's immutable values (Go copies
the two arrays by value: `clone_continues_identically`); that clones do not alias is observed by the
correspondence run (clone scenarios) and by the pinned text of `Clone`.
-/
import Iota.Proofs.Curl

namespace Iota.Props.C06
open Iota.Curl Iota.Spec.CurlP Iota.Spec.CurlW Iota.Proofs.Curl

/-- the Go permutation loop never indexes out of range and equals 81 applications of the closed-form
round `new[i] = sBox(old[364·i mod 729], old[364·(i+1) mod 729])` (64 lanes at once). -/
theorem transformGeneric_closed_form (b : Bufs) :
    transformGeneric b = some
      { lto := (roundsW 81 (b.lfrom, b.hfrom)).1, hto := (roundsW 81 (b.lfrom, b.hfrom)).2,
        lfrom := (roundsW 80 (b.lfrom, b.hfrom)).1, hfrom := (roundsW 80 (b.lfrom, b.hfrom)).2 } :=
  transformGeneric_eq b

/-- on valid encodings every lane of `transform` is the Curl-P-81 permutation of that lane alone,
and validity is preserved. -/
theorem transform_lane_by_lane (c : Curl) (hv : ValidEnc c.l c.h) :
    ∃ c', c.transform = some c' ∧ c'.direction = c.direction ∧ ValidEnc c'.l c'.h ∧
      ∀ j, j < 64 → laneState c'.l c'.h j = Spec.CurlP.transform (laneState c.l c.h j) :=
  transform_lanes c hv

/-- the bit-sliced s-box is the Curl-P truth table on the three valid encodings of a trit. -/
theorem sbox_is_truth_table (a b : Bool × Bool) (ha : validPair a) (hb : validPair b) :
    validPair (fPair a b) ∧ tritOf (fPair a b) = f (tritOf a) (tritOf b) :=
  fPair_valid a b ha hb

/-- **every history**: from a fresh instance, any sequence of Absorb / Squeeze / Reset calls that
respects the documented preconditions produces exactly the observations (squeezed trits, returned
errors) of 64 independent specification sponges fed the lanes' own inputs — and never panics. -/
theorem history_simulation (ops : List Op) (hwf : WF false ops) :
    run Curl.init ops = specRun (fun _ => Spec.CurlP.Sponge.init) ops ∧ Ev.panic ∉ run Curl.init ops :=
  ⟨run_init_eq ops hwf, run_no_panic ops hwf⟩

/-- lane `j`'s outputs are those of the single-lane Curl-P-81 sponge applied to lane `j`'s input alone
(zero blocks where the batch was shorter) … -/
theorem lane_equals_single_sponge (ops : List Op) (hwf : WF false ops) (j : Nat) :
    laneOuts j (run Curl.init ops) = laneRun Spec.CurlP.Sponge.init (ops.map (proj j)) :=
  run_lane ops hwf j

/-- … so no lane influences another. -/
theorem no_lane_influences_another (ops ops' : List Op) (hwf : WF false ops) (hwf' : WF false ops') (j : Nat)
    (hagree : ops.map (proj j) = ops'.map (proj j)) :
    laneOuts j (run Curl.init ops) = laneOuts j (run Curl.init ops') :=
  lane_independence ops ops' hwf hwf' j hagree

/-- calls rejected with an error leave the state untouched: an `.err` outcome carries no new state and
`run` continues from the old one; these are exactly the rejected calls. -/
theorem absorb_rejects_batch (c : Curl) (src : List (List Int)) (n : Nat) (h : src.length < 1 ∨ src.length > 64) :
    c.absorb src n = .err .invalidBatchSize := absorb_err_batch c src n h
theorem squeeze_rejects_batch (c : Curl) (lanes n : Nat) (h : lanes < 1 ∨ lanes > 64) :
    c.squeeze lanes n = .err .invalidBatchSize := squeeze_err_batch c lanes n h

/-- `Squeeze` never panics, in any state; `Absorb` panics only on absorb-after-squeeze or a short lane. -/
theorem squeeze_never_panics (c : Curl) (lanes n : Nat) : c.squeeze lanes n ≠ .panic :=
  squeeze_no_panic c lanes n

/-- `Reset` returns the instance to its initial state (`run` restarts from `Curl.init`), which simulates
64 fresh sponges. -/
theorem reset_is_init : Sim Curl.init (fun _ => Spec.CurlP.Sponge.init) := sim_init

/-- `Clone` copies all three fields, so the clone IS the original as a value: every continuation of the clone
produces what the same continuation of the original produces, and (values being immutable) nothing done to the one
is visible on the other.  What this theorem cannot see is aliasing in the Go struct copy; arrays are values in Go,
the text of `Clone` is pinned (Tie/Curl) and clone-and-continue histories run in the correspondence. -/
theorem clone_continues_identically (c : Curl) (ops : List Op) :
    c.clone = c ∧ run c.clone ops = run c ops ∧ c.copyState = (c.l, c.h) := ⟨rfl, rfl, rfl⟩

/-! ### non-vacuity -/
example : WF false [.absorb [[1, 0, -1]] 0, .squeeze 2 486, .reset, .squeeze 65 243, .squeeze 1 243] := by
  refine ⟨rfl, ?_, trivial⟩
  intro lane hl; exact Nat.zero_le _
example : validPair (true, true) ∧ tritOf (true, true) = 0 ∧ tritOf (false, true) = 1 ∧ tritOf (true, false) = -1 := by
  decide

end Iota.Props.C06
