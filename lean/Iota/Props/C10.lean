/-
C10 — BIP-32 path text form round-trips and is read as decimal.
Property theorems only; lemmas are in Iota/Proofs/Bip32Path.lean, the grammar in
Iota/Spec/Bip32Path.lean.  `parsePath : Str → Option (List Nat)` is total, so the model has no
panic outcome; that the Go function has none either is observed by the correspondence run
(a recovered panic is printed as `panic` and can never equal a model reply).
-/
import Iota.Proofs.Bip32Path

namespace Iota.Props.C10
open Iota.Bip32Path Iota.Spec.Bip32Path

/-- the printed form of every path (any length, any 32-bit indices) parses back to it. -/
theorem parse_print (p : List Nat) (h : ∀ i ∈ p, i < 2 ^ 32) : parsePath (printPath p) = some p :=
  Proofs.Bip32Path.parse_print p h

/-- `ParsePath` succeeds exactly on the grammar: "", "m", or optional "m/" then '/'-separated
`digit+ [H']?` components with decimal value < 2^31, and returns value (+2^31 if marked). -/
theorem parse_iff_grammar (s : Str) (p : List Nat) : parsePath s = some p ↔ Grammar s p :=
  ⟨Proofs.Bip32Path.grammar_of_parsePath s p, Proofs.Bip32Path.parsePath_of_grammar s p⟩

/-- the value of an accepted component is its *decimal* reading: leading zeros do not change it. -/
theorem leading_zeros_irrelevant (k : Nat) (ds mk : Str) (hne : ds ≠ [])
    (hd : ∀ d ∈ ds, isDigit d = true) (hm : mk = [] ∨ mk = [chH] ∨ mk = [chApos]) :
    parseKey (List.replicate k 48 ++ ds ++ mk) = parseKey (ds ++ mk) :=
  Proofs.Bip32Path.parseKey_leading_zeros k ds mk hne hd hm

theorem decimal_leading_zeros (k : Nat) (ds : Str) :
    decimal (List.replicate k 48 ++ ds) = decimal ds := by
  rw [← Proofs.Bip32Path.decValue_eq_decimal, ← Proofs.Bip32Path.decValue_eq_decimal]
  exact Proofs.Bip32Path.decValue_leading_zeros k ds

/-- every index the parser returns is a 32-bit value. -/
theorem parsed_indices_32bit (s : Str) (p : List Nat) (h : parsePath s = some p) : ∀ i ∈ p, i < 2 ^ 32 := by
  have g := (parse_iff_grammar s p).mp h
  cases g with
  | empty => simp
  | m => simp
  | bare cs _ hwf | rooted cs _ hwf =>
    intro i hi
    obtain ⟨c, hc, rfl⟩ := List.mem_map.mp hi
    have := (hwf c hc).2.2.1
    unfold Comp.index
    split <;> omega

/-! ### non-vacuity -/
-- "m/44'/0H/010"  ↦ [44+2^31, 2^31, 10]
example : parsePath [109,47,52,52,39,47,48,72,47,48,49,48] = some [44 + 2^31, 2^31, 10] := by decide +kernel
-- "m/2147483648" (2^31) is rejected, "2147483647" accepted without the m/ prefix
example : parsePath [109,47,50,49,52,55,52,56,51,54,52,56] = none := by decide +kernel
example : parsePath [50,49,52,55,52,56,51,54,52,55] = some [2147483647] := by decide +kernel
-- "m/" , "m//0", "m/0x1", "m/1HH" are rejected
example : parsePath [109,47] = none ∧ parsePath [109,47,47,48] = none ∧
    parsePath [109,47,48,120,49] = none ∧ parsePath [109,47,49,72,72] = none := by decide +kernel
example : printPath [44 + 2^31, 0, 4294967295] =
    [109,47,52,52,39,47,48,47,50,49,52,55,52,56,51,54,52,55,39] := by decide +kernel

end Iota.Props.C10
