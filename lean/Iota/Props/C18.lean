/-
C18 — ECVRF proofs are RFC 9381 conformant, complete, canonical and unique.

Model: `Iota/Model/Vrf.lean` (ECVRF-EDWARDS25519-SHA512-TAI as pkg/vrf performs it: try-and-increment,
nonce generation, challenge generation, `Prove`, `Verify`, `ProofToHash`, the 80-byte codec, canonical point
decoding, key validation) over the abstract curve library; proofs: `Iota/Proofs/Ed/{Canonical,Vrf}.lean`.
Theorems: completeness for every seed and alpha, the codec round trips / canonicity, key validation,
agreement of the three hash routes, and the algebraic half of uniqueness.
PARTIAL, stated in the theorems: (1) the curve library and SHA-512 are the hypotheses `Lawful`, `Cofactor`,
`OrderExact`, `EncodeCanonical`, `EncodeDecode` (that L is prime is proved: `Iota/Proofs/Primes.lean`); (2) conformance with an independent RFC 9381
implementation is established by the correspondence run (the Lean model instantiated with a from-scratch
curve IS that independent implementation), not by a theorem; (3) full uniqueness ("any accepted proof yields
the same hash") is a random-oracle statement: what is proved is that the output depends on Gamma only
through [8]Gamma and equals the honest output whenever Gamma − [x]H has small order; that an accepted proof
must have such a Gamma is the Chaum–Pedersen soundness argument, which needs the challenge to be
unpredictable and has no counterpart over an arbitrary function `sha512`.
-/
import Iota.Proofs.Ed
import Iota.Proofs.Ed.Witness2
import Iota.Proofs.Primes

namespace Iota.Props.C18
open Iota.Proofs.Ed
open Iota.Edwards (Bytes leNat leBytes L)
open Iota.Ed25519 (EdLib newKeyFromSeed)
open Iota

variable {G : Type} [AddCommGroup G] {lib : EdLib G}

/-- **completeness**, every seed and alpha (whenever try-and-increment finds a point, i.e. does not hit
its 256-round panic): `Prove` yields a proof, `Verify` accepts its encoding for the matching public key
with the proof's hash, and `ProofToHash` gives the same hash. -/
theorem complete (h : Lawful lib) (hcof : Cofactor lib) (hcan : EncodeCanonical lib)
    (hord : OrderExact lib) (seed alpha sk : Bytes)
    (hsk : newKeyFromSeed lib seed = some sk) (H : G)
    (hH : Vrf.encodeToCurve lib (sk.drop 32) alpha = some H) :
    ∃ pr, Vrf.prove lib sk alpha = some pr ∧
      Vrf.verify lib (sk.drop 32) alpha (pr.bytes lib) = some (true, pr.hash lib) ∧
      Vrf.proofToHash lib (pr.bytes lib) = some (pr.hash lib) :=
  E3_complete h hcof hcan hord Iota.Proofs.Primes.prime_L seed alpha sk hsk H hH

/-- the three hash routes agree for ANY accepted proof. -/
theorem hash_routes_agree (h : Lawful lib) (pk alpha pi β : Bytes) (hpk : pk.length = 32)
    (hv : Vrf.verify lib pk alpha pi = some (true, β)) : Vrf.proofToHash lib pi = some β :=
  proofToHash_of_verify h pk alpha pi β hpk hv

/-- **acceptance, characterised**: key decodes canonically to a point not of small order, the proof is a
canonical 80-byte encoding of (Gamma, c, s), try-and-increment succeeds, and the challenge recomputed from
U = [s]B − [c]Y, V = [s]H − [c]Gamma equals c. -/
theorem verify_iff (h : Lawful lib) (pk alpha pi β : Bytes) (hpk : pk.length = 32) :
    Vrf.verify lib pk alpha pi = some (true, β) ↔
      ∃ Y D H, Vrf.pointFromCanonicalBytes lib pk = some Y ∧ (8 : ℕ) • Y ≠ 0 ∧
        Vrf.Proof.setBytes lib pi = some D ∧ Vrf.encodeToCurve lib pk alpha = some H ∧
        D.c = Vrf.challenge lib pk (lib.encode H) D.gamma
          (D.s • lib.base - D.c • Y) (D.s • H - D.c • D.gamma) ∧
        β = D.hash lib := vrf_verify_eq_true_iff h pk alpha pi β hpk

/-- **keys**: non-canonical encodings (y ≥ p, or the two x = 0 encodings with the sign bit), undecodable
keys and small-order keys are rejected whatever the proof. -/
theorem bad_keys_rejected (h : Lawful lib) (pk alpha pi : Bytes) (hpk : pk.length = 32) :
    ((Vrf.isCanonicalY pk = false ∨ pk ∈ Vrf.nonCanonicalSignBytes ∨ lib.decode pk = none) →
      Vrf.verify lib pk alpha pi = some (false, [])) ∧
    (∀ Y, Vrf.pointFromCanonicalBytes lib pk = some Y → (8 : ℕ) • Y = 0 →
      Vrf.verify lib pk alpha pi = some (false, [])) := E3_key_validation h pk alpha pi hpk

/-- honest keys pass the validation. -/
theorem honest_key_valid (h : Lawful lib) (hord : OrderExact lib) (seed : Bytes) :
    Vrf.validateKey lib (publicPoint lib seed) = true := E3_honest_key h hord Iota.Proofs.Primes.prime_L seed

/-- the group order L = 2^252 + 27742317777372353535851937790883648493 is prime (Pratt certificate, kernel-checked). -/
theorem order_prime : Nat.Prime L := Iota.Proofs.Primes.prime_L

/-- the canonical-y test is exactly `y < p`. -/
theorem canonicalY_iff (x : Bytes) (hx : x.length = 32) :
    Vrf.isCanonicalY x = true ↔ leNat x % 2 ^ 255 < Iota.Edwards.p := E3_isCanonicalY x hx

omit [AddCommGroup G] in
/-- **codec, decoding**: only 80-byte strings with s < L (c is 16 bytes) decode, and what decodes
re-encodes to itself. -/
theorem decode_canonical (hed : EncodeDecode lib) (b : Bytes) (pr : Vrf.Proof G)
    (hb : Vrf.Proof.setBytes lib b = some pr) :
    b.length = 80 ∧ pr.s < L ∧ pr.c < 2 ^ 128 ∧ pr.bytes lib = b := E3_setBytes hed b pr hb

/-- **codec, encoding**: every proof with s < L and c < 2^128 survives the round trip. -/
theorem encode_decode (h : Lawful lib) (hcan : EncodeCanonical lib) (pr : Vrf.Proof G)
    (hs : pr.s < L) (hc : pr.c < 2 ^ 128) : Vrf.Proof.setBytes lib (pr.bytes lib) = some pr :=
  E3_setBytes_bytes h hcan pr hs hc

/-- **uniqueness, algebraic half** (`unique_partial`: see the header for what is missing): an accepted proof
whose Gamma differs from [x]H by a small-order point yields the honest hash for secret scalar x. -/
theorem unique_partial (h : Lawful lib) (pk alpha pi β : Bytes) (hpk : pk.length = 32)
    (x : ℕ) (D : Vrf.Proof G) (H : G)
    (hv : Vrf.verify lib pk alpha pi = some (true, β))
    (hD : Vrf.Proof.setBytes lib pi = some D) (hH : Vrf.encodeToCurve lib pk alpha = some H)
    (hsmall : (8 : ℕ) • (D.gamma - x • H) = 0) :
    β = lib.sha512 (Vrf.suiteString ++ [0x03] ++ lib.encode ((8 : ℕ) • (x • H)) ++ [0x00]) :=
  E3_unique_algebraic h pk alpha pi β hpk x D H hv hD hH hsmall

/-- the verifier's commitments for key Y = [x]B: both are [u] of the respective base with the same
u = s − c·x, up to the defect c·([x]H − Gamma) (the Chaum–Pedersen identity; no hypotheses). -/
theorem commitments (x c s : ℕ) (B H Γ : G) :
    s • B - c • (x • B) = ((s : ℤ) - c * x) • B ∧
    s • H - c • Γ = ((s : ℤ) - c * x) • H + c • (x • H - Γ) := vrf_commitments x c s B H Γ

/-! ### non-vacuity: all hypotheses are jointly satisfiable -/
example : ∃ (G : Type) (_ : AddCommGroup G) (lib : EdLib G),
    Lawful lib ∧ Cofactor lib ∧ OrderExact lib ∧ EncodeCanonical lib ∧ EncodeDecode lib := lawful_witness_full

/-- the hypotheses are not only jointly satisfiable: there is a lawful library with a NON-constant hash on which
try-and-increment succeeds for every input and, for every 32-byte seed, alpha and message, key generation, `Prove`,
`Verify` (accepting, with the proof's hash), `ProofToHash`, the proof codec and Ed25519 sign-then-verify all go through
— so the hypotheses of `complete`, `verify_iff`, `hash_routes_agree`, `unique_partial` (with x the secret scalar) and
of C07's `sign_then_verify` are met by actual runs. -/
theorem hypotheses_met_by_runs :
    ∃ (G : Type) (_ : AddCommGroup G) (lib : EdLib G),
      Lawful lib ∧ Cofactor lib ∧ OrderExact lib ∧ EncodeCanonical lib ∧ EncodeDecode lib ∧
      (∃ m m', lib.sha512 m ≠ lib.sha512 m') ∧
      (∀ salt alpha, ∃ H, Iota.Vrf.encodeToCurve lib salt alpha = some H) ∧
      (∀ seed alpha : Bytes, seed.length = 32 →
        ∃ sk H D, Iota.Ed25519.newKeyFromSeed lib seed = some sk ∧ (sk.drop 32).length = 32 ∧
          Iota.Vrf.encodeToCurve lib (sk.drop 32) alpha = some H ∧
          Iota.Vrf.prove lib sk alpha = some D ∧
          Iota.Vrf.verify lib (sk.drop 32) alpha (D.bytes lib) = some (true, D.hash lib) ∧
          Iota.Vrf.proofToHash lib (D.bytes lib) = some (D.hash lib) ∧
          Iota.Vrf.Proof.setBytes lib (D.bytes lib) = some D ∧
          (8 : ℕ) • (D.gamma - secretScalar lib seed • H) = 0) ∧
      (∀ seed msg : Bytes, seed.length = 32 →
        ∃ sk sig, Iota.Ed25519.newKeyFromSeed lib seed = some sk ∧ sk.length = 64 ∧
          Iota.Ed25519.sign lib sk msg = some sig ∧ sig.length = 64 ∧
          Iota.Ed25519.verify lib (sk.drop 32) msg sig = some true) :=
  lawful_witness_vrf_runs

end Iota.Props.C18
