/-
C02 — SLIP-0010 derivation matches the specification.  Proof of the repository's own logic
(pkg/slip10/slip10.go) for EVERY curve value — so also for pluggable curves whose validity predicate
rejects most candidates — with HMAC-SHA512, HASH160 and the curve operations as parameters.
The concrete primitives are exercised by the correspondence run (Lean HMAC-SHA512 / SHA-256 /
RIPEMD-160 / secp256k1 model / P-256 and Ed25519 oracles against the real packages).
-/
import Iota.Proofs.Slip10
import Iota.Proofs.Slip10Spec
import Iota.Proofs.Slip10NonVacuity

namespace Iota.Props.C02
open Iota.Slip10 Iota.Proofs.Slip10

variable {κ : Type} (hmac : Bytes → Bytes → Bytes) (c : Curve κ)

/-- master key: the first valid candidate of I₀ = HMAC(curve key, S), Iₙ₊₁ = HMAC(curve key, Iₙ);
private key from I_L, chain code I_R — "the prescribed retry when an intermediate value is not a valid key". -/
theorem master_key_is_first_valid (fuel : Nat) (seed : Bytes) (e : ExtKey κ) :
    masterLoop hmac c fuel seed = .ok e ↔
      ∃ n, n < fuel ∧ (∀ m, m < n → c.newPrivateKey ((masterSeq hmac c seed m).take 32) = .error .invalidKey) ∧
        c.newPrivateKey ((masterSeq hmac c seed n).take 32) = .ok e.key ∧
        e.chainCode = (masterSeq hmac c seed n).drop 32 ∧ e.parent = none :=
  masterLoop_ok_iff hmac c fuel seed e

/-- CKD inputs: hardened ↦ 0x00 ‖ ser256(k_par) ‖ ser32(i); normal ↦ serP(point(k_par)) ‖ ser32(i). -/
theorem ckd_hardened (fuel : Nat) (e : ExtKey κ) (i : Nat) (hi : hardened ≤ i) (hp : c.isPrivate e.key = true) :
    deriveChild hmac c fuel e i =
      childLoop hmac c e i fuel (hmac e.chainCode (0x00 :: (c.bytes e.key ++ ser32 i))) :=
  deriveChild_hardened hmac c fuel e i hi hp

theorem ckd_normal (fuel : Nat) (e : ExtKey κ) (i : Nat) (hi : i < hardened) (hh : c.hardenedOnly e.key = false) :
    deriveChild hmac c fuel e i =
      childLoop hmac c e i fuel (hmac e.chainCode (c.bytes (c.pub e.key) ++ ser32 i)) :=
  deriveChild_normal hmac c fuel e i hi hh

/-- child: key = Shift(parent, I_L), chain code = I_R, parent remembered for the fingerprint … -/
theorem child_accept (e : ExtKey κ) (index fuel : Nat) (inter : Bytes) (k : κ)
    (h : c.shift e.key (inter.take 32) = .ok k) :
    childLoop hmac c e index (fuel + 1) inter = .ok { chainCode := inter.drop 32, key := k, parent := some e.key } :=
  childLoop_accept hmac c e index fuel inter k h

/-- … with the retry I ← HMAC(chain, 0x01 ‖ I_R ‖ ser32(i)) on ErrInvalidKey only. -/
theorem child_retry (e : ExtKey κ) (index fuel : Nat) (inter : Bytes)
    (h : c.shift e.key (inter.take 32) = .error .invalidKey) :
    childLoop hmac c e index (fuel + 1) inter =
      childLoop hmac c e index fuel (hmac e.chainCode (0x01 :: (inter.drop 32 ++ ser32 index))) :=
  childLoop_retry hmac c e index fuel inter h

/-- a curve error other than invalid-key is returned to the caller rather than retried — in both loops. -/
theorem permanent_error_master (fuel : Nat) (seed : Bytes) (x : Nat)
    (h : c.newPrivateKey ((hmac c.hmacKey seed).take 32) = .error (.other x)) :
    masterLoop hmac c (fuel + 1) seed = .error (.curve x) :=
  masterLoop_permanent hmac c fuel seed x h

theorem permanent_error_child (e : ExtKey κ) (index fuel : Nat) (inter : Bytes) (x : Nat)
    (h : c.shift e.key (inter.take 32) = .error (.other x)) :
    childLoop hmac c e index (fuel + 1) inter = .error (.curve x) :=
  childLoop_permanent hmac c e index fuel inter x h

/-- deriving along p then i equals deriving along p followed by i. -/
theorem path_concatenation (fuel : Nat) (seed : Bytes) (p : List Nat) (i : Nat) :
    deriveKeyFromPath hmac c fuel seed (p ++ [i]) =
      match deriveKeyFromPath hmac c fuel seed p with
      | .ok e => deriveChild hmac c fuel e i
      | .error x => .error x :=
  derive_path_snoc hmac c fuel seed p i

/-- derivations SLIP-0010 does not define fail with an error. -/
theorem hardened_child_of_public_key_fails (fuel : Nat) (e : ExtKey κ) (i : Nat) (hi : hardened ≤ i)
    (hp : c.isPrivate e.key = false) : deriveChild hmac c fuel e i = .error .hardenedChildPublicKey :=
  hardened_child_of_public hmac c fuel e i hi hp

theorem non_hardened_child_on_ed25519_fails (edPublic : Bytes → Bytes) (fuel : Nat) (e : ExtKey EdKey) (i : Nat)
    (hi : i < hardened) : deriveChild hmac (edCurve edPublic) fuel e i = .error .notHardened :=
  non_hardened_on_hardened_only hmac (edCurve edPublic) fuel e i hi rfl

/-- fingerprint = first 4 bytes of HASH160(parent public key), zero for the master key. -/
theorem fingerprint_spec (hash160 : Bytes → Bytes) (e : ExtKey κ) :
    fingerprint c hash160 e = match e.parent with
      | none => [0, 0, 0, 0]
      | some p => (hash160 (c.bytes (c.pub p))).take 4 := by
  unfold fingerprint; cases e.parent <;> rfl

/-! ### against SLIP-0010 written the way the standard is written (`Iota/Spec/Slip10.lean`)
The specification has its own serialisations (`parse256`, `ser32`, `ser256`, `serP`), the candidate sequences
`masterI`, `childI` as functions of the retry number, "first valid candidate" (`IsFirst`), the validity
predicates of the standard, and path derivation as an inductive relation; it does not import the model.
Proofs: `Iota/Proofs/Slip10Spec.lean`. -/
section Spec
open Iota.Spec.Slip10 (IL IR masterI childI XPriv PathKeyWithin edPathKey)
open Iota.Proofs.Slip10Spec

/-- **the child retry loop returns exactly the first valid candidate** of the sequence
I_0 = HMAC(c_par, data), I_{n+1} = HMAC(c_par, 0x01 ‖ I_R(n) ‖ ser32 i) — for every curve value and all fuel. -/
theorem child_is_first_valid (e : ExtKey κ) (i fuel : Nat) (data : Bytes) (e' : ExtKey κ) :
    childLoop hmac c e i fuel (hmac e.chainCode data) = .ok e' ↔
      ∃ j, j < fuel ∧
        (∀ m, m < j → c.shift e.key (IL (childI hmac e.chainCode data i m)) = .error .invalidKey) ∧
        c.shift e.key (IL (childI hmac e.chainCode data i j)) = .ok e'.key ∧
        e'.chainCode = IR (childI hmac e.chainCode data i j) ∧ e'.parent = some e.key :=
  childLoop_ok_iff hmac c e i fuel data e'

/-- a curve error other than ErrInvalidKey is returned exactly when it is the verdict on a candidate all of whose
predecessors were rejected with ErrInvalidKey (at ANY retry, not only the first); same for the master loop. -/
theorem permanent_error_at_any_candidate (e : ExtKey κ) (i fuel : Nat) (data S : Bytes) (x : Nat) :
    (childLoop hmac c e i fuel (hmac e.chainCode data) = .error (.curve x) ↔
      ∃ j, j < fuel ∧
        (∀ m, m < j → c.shift e.key (IL (childI hmac e.chainCode data i m)) = .error .invalidKey) ∧
        c.shift e.key (IL (childI hmac e.chainCode data i j)) = .error (.other x)) ∧
    (masterLoop hmac c fuel S = .error (.curve x) ↔
      ∃ j, j < fuel ∧
        (∀ m, m < j → c.newPrivateKey (IL (masterI hmac c.hmacKey S m)) = .error .invalidKey) ∧
        c.newPrivateKey (IL (masterI hmac c.hmacKey S j)) = .error (.other x)) :=
  ⟨childLoop_curve_iff hmac c e i fuel data x, masterLoop_curve_iff hmac c fuel S x⟩

end Spec

/-- **secp256k1 / P-256 (the `elliptic` package over a lawful curve): `DeriveKeyFromPath` = the specification's
path derivation** — private key, chain code, fingerprint (and, through `Repr.bytes`, the serialisations
ser256(k) and serP(point k)) are the ones SLIP-0010 prescribes, with every key found within `fuel` candidates. -/
theorem derive_matches_spec_weierstrass {Pt : Type} [AddCommGroup Pt] (hmac : Bytes → Bytes → Bytes)
    (w : WCurve Pt) (g : Pt) (hk : Bytes) (hw : Iota.Proofs.Slip10Shift.LawfulW w g) (hn : w.n < 256 ^ 40)
    (hash160 : Bytes → Bytes) (fuel : Nat) (S : Bytes) (path : List Nat) (z : Iota.Spec.Slip10.XPriv) :
    (∃ e, deriveKeyFromPath hmac (wCurve w hk) fuel S path = .ok e ∧ Iota.Proofs.Slip10Spec.Repr w hk hash160 e z) ↔
      Iota.Spec.Slip10.PathKeyWithin hmac (Iota.Proofs.Slip10Spec.ecOf w g hk) hash160 fuel S path z :=
  Iota.Proofs.Slip10Spec.deriveKeyFromPath_w_iff hmac w g hk hw hn hash160 fuel S path z

/-- **ed25519**: on all-hardened paths the model returns the specification's key, chain code and fingerprint; as soon as
an index is not hardened it returns ErrNotHardened. -/
theorem derive_matches_spec_ed25519 (hmac : Bytes → Bytes → Bytes) (edPublic : Bytes → Bytes)
    (hpub : ∀ s, (edPublic s).length = 32) (hash160 : Bytes → Bytes) (fuel : Nat) (S : Bytes) (path : List Nat) :
    match Iota.Spec.Slip10.edPathKey hmac edPublic hash160 S path with
    | some (k, c, fp) => ∃ e, deriveKeyFromPath hmac (edCurve edPublic) (fuel + 1) S path = .ok e ∧
        e.key = .seed k ∧ e.chainCode = c ∧ fingerprint (edCurve edPublic) hash160 e = fp
    | none => deriveKeyFromPath hmac (edCurve edPublic) (fuel + 1) S path = .error .notHardened :=
  Iota.Proofs.Slip10Spec.ed_deriveKeyFromPath hmac edPublic hpub hash160 fuel S path

/-! ### non-vacuity (see also `Iota/Proofs/Slip10NonVacuity.lean`: a toy curve on ℤ/7 whose validity predicate rejects
candidates, run through both loops by `decide`: master and child keys found at candidate 1 after a rejection at 0) -/
example : ser32 (2 ^ 31 + 44) = [0x80, 0, 0, 44] := by decide
example : hardened = 2147483648 := rfl

end Iota.Props.C02
