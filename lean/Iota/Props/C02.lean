/-
C02 — SLIP-0010 derivation matches the specification.  Proof of the repository's own logic
(pkg/slip10/slip10.go) for EVERY curve value — so also for pluggable curves whose validity predicate
rejects most candidates — with HMAC-SHA512, HASH160 and the curve operations as parameters.
The concrete primitives are exercised by the correspondence run (Lean HMAC-SHA512 / SHA-256 /
RIPEMD-160 / secp256k1 model / P-256 and Ed25519 oracles against the real packages).
-/
import Iota.Proofs.Slip10

namespace Iota.Props.C02
open Iota.Slip10 Iota.Proofs.Slip10

variable {κ : Type} (hmac : Bytes → Bytes → Bytes) (c : Curve κ)

/-- master key: the first valid candidate of I₀ = HMAC(curve key, S), Iₙ₊₁ = HMAC(curve key, Iₙ);
private key from I_L, chain code I_R — "the prescribed retry when an intermediate value is not a valid key". -/
theorem master_key_is_first_valid (fuel : Nat) (seed : Bytes) (e : ExtKey κ) :
    masterLoop hmac c fuel seed = .ok e ↔
      ∃ n, n < fuel ∧ (∀ m, m < n → c.newPrivateKey ((masterSeq hmac c seed m).take 32) = .error .invalidKey) ∧
        c.newPrivateKey ((masterSeq hmac c seed n).take 32) = .ok e.key ∧
        e.chainCode = (masterSeq hmac c seed n).drop 32 ∧ e.parent = none :=
  masterLoop_ok_iff hmac c fuel seed e

/-- CKD inputs: hardened ↦ 0x00 ‖ ser256(k_par) ‖ ser32(i); normal ↦ serP(point(k_par)) ‖ ser32(i). -/
theorem ckd_hardened (fuel : Nat) (e : ExtKey κ) (i : Nat) (hi : hardened ≤ i) (hp : c.isPrivate e.key = true) :
    deriveChild hmac c fuel e i =
      childLoop hmac c e i fuel (hmac e.chainCode (0x00 :: (c.bytes e.key ++ ser32 i))) :=
  deriveChild_hardened hmac c fuel e i hi hp

theorem ckd_normal (fuel : Nat) (e : ExtKey κ) (i : Nat) (hi : i < hardened) (hh : c.hardenedOnly e.key = false) :
    deriveChild hmac c fuel e i =
      childLoop hmac c e i fuel (hmac e.chainCode (c.bytes (c.pub e.key) ++ ser32 i)) :=
  deriveChild_normal hmac c fuel e i hi hh

/-- child: key = Shift(parent, I_L), chain code = I_R, parent remembered for the fingerprint … -/
theorem child_accept (e : ExtKey κ) (index fuel : Nat) (inter : Bytes) (k : κ)
    (h : c.shift e.key (inter.take 32) = .ok k) :
    childLoop hmac c e index (fuel + 1) inter = .ok { chainCode := inter.drop 32, key := k, parent := some e.key } :=
  childLoop_accept hmac c e index fuel inter k h

/-- … with the retry I ← HMAC(chain, 0x01 ‖ I_R ‖ ser32(i)) on ErrInvalidKey only. -/
theorem child_retry (e : ExtKey κ) (index fuel : Nat) (inter : Bytes)
    (h : c.shift e.key (inter.take 32) = .error .invalidKey) :
    childLoop hmac c e index (fuel + 1) inter =
      childLoop hmac c e index fuel (hmac e.chainCode (0x01 :: (inter.drop 32 ++ ser32 index))) :=
  childLoop_retry hmac c e index fuel inter h

/-- a curve error other than invalid-key is returned to the caller rather than retried — in both loops. -/
theorem permanent_error_master (fuel : Nat) (seed : Bytes) (x : Nat)
    (h : c.newPrivateKey ((hmac c.hmacKey seed).take 32) = .error (.other x)) :
    masterLoop hmac c (fuel + 1) seed = .error (.curve x) :=
  masterLoop_permanent hmac c fuel seed x h

theorem permanent_error_child (e : ExtKey κ) (index fuel : Nat) (inter : Bytes) (x : Nat)
    (h : c.shift e.key (inter.take 32) = .error (.other x)) :
    childLoop hmac c e index (fuel + 1) inter = .error (.curve x) :=
  childLoop_permanent hmac c e index fuel inter x h

/-- deriving along p then i equals deriving along p followed by i. -/
theorem path_concatenation (fuel : Nat) (seed : Bytes) (p : List Nat) (i : Nat) :
    deriveKeyFromPath hmac c fuel seed (p ++ [i]) =
      match deriveKeyFromPath hmac c fuel seed p with
      | .ok e => deriveChild hmac c fuel e i
      | .error x => .error x :=
  derive_path_snoc hmac c fuel seed p i

/-- derivations SLIP-0010 does not define fail with an error. -/
theorem hardened_child_of_public_key_fails (fuel : Nat) (e : ExtKey κ) (i : Nat) (hi : hardened ≤ i)
    (hp : c.isPrivate e.key = false) : deriveChild hmac c fuel e i = .error .hardenedChildPublicKey :=
  hardened_child_of_public hmac c fuel e i hi hp

theorem non_hardened_child_on_ed25519_fails (edPublic : Bytes → Bytes) (fuel : Nat) (e : ExtKey EdKey) (i : Nat)
    (hi : i < hardened) : deriveChild hmac (edCurve edPublic) fuel e i = .error .notHardened :=
  non_hardened_on_hardened_only hmac (edCurve edPublic) fuel e i hi rfl

/-- fingerprint = first 4 bytes of HASH160(parent public key), zero for the master key. -/
theorem fingerprint_spec (hash160 : Bytes → Bytes) (e : ExtKey κ) :
    fingerprint c hash160 e = match e.parent with
      | none => [0, 0, 0, 0]
      | some p => (hash160 (c.bytes (c.pub p))).take 4 := by
  unfold fingerprint; cases e.parent <;> rfl

/-! ### non-vacuity -/
example : ser32 (2 ^ 31 + 44) = [0x80, 0, 0, 44] := by decide
example : hardened = 2147483648 := rfl

end Iota.Props.C02
