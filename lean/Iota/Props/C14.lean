/-
C14 — b1t6 and b1t8 are exact, strict byte/trit codecs.
Property theorems only; helper lemmas live in Iota/Proofs/B1T6.lean.
-/
import Iota.Proofs.B1T6
import Iota.Proofs.B1T8

namespace Iota.Props.C14
open Iota Iota.B1T6

/-- (a) every byte is written as the 6 balanced little-endian trits of its signed value. -/
theorem b1t6_encodeByte_spec (b : UInt8) :
    (encodeByte b).length = 6 ∧ ValidTrits (encodeByte b) ∧
    Spec.balValue (encodeByte b) = int8OfByte b :=
  Proofs.B1T6.encodeByte_spec b

/-- the balanced representation is unique, so (a) pins the code word down. -/
theorem balanced_unique (xs ys : List Int) (hl : xs.length = ys.length)
    (hx : ValidTrits xs) (hy : ValidTrits ys) (h : Spec.balValue xs = Spec.balValue ys) : xs = ys :=
  Proofs.B1T6.balValue_inj xs ys hl hx hy h

/-- (a, lifted) `Encode` of any byte string is the concatenation of the code words. -/
theorem b1t6_encode_length (bs : List UInt8) : (encode bs).length = 6 * bs.length :=
  Proofs.B1T6.encode_length bs

theorem b1t6_encode_valid (bs : List UInt8) : ValidTrits (encode bs) :=
  Proofs.B1T6.encode_valid bs

/-- (b) the tryte form equals the trit form. -/
theorem b1t6_trytes_eq_trits (bs : List UInt8) :
    tritsToTrytes (encode bs) = encodeToTrytes bs :=
  Proofs.B1T6.trytes_of_encode bs

/-- (c) decoding an encoding returns the original bytes, for every byte string. -/
theorem b1t6_decode_encode (bs : List UInt8) : decode (encode bs) = (bs, none) :=
  Proofs.B1T6.decode_encode bs

theorem b1t6_decodeTrytes_encode (bs : List UInt8) :
    decodeTrytes (encodeToTrytes bs) = .ok bs :=
  Proofs.B1T6.decodeTrytes_encode bs

/-- (d) acceptance is exactly "is an encoding": every accepted input re-encodes to itself. -/
theorem b1t6_decode_ok_iff (ts : List Int) (hv : ValidTrits ts) (bs : List UInt8) :
    decode ts = (bs, none) ↔ ts = encode bs :=
  Proofs.B1T6.decode_ok_iff ts hv bs

theorem b1t6_decodeTrytes_ok_iff (cs : List UInt8) (hv : ∀ c ∈ cs, isTryteChar c = true)
    (bs : List UInt8) :
    decodeTrytes cs = .ok bs ↔ cs = encodeToTrytes bs :=
  Proofs.B1T6.decodeTrytes_ok_iff cs hv bs

/-- (e) error order and count: with `k` whole valid groups `encode pre` in front,
an invalid group is reported with `n = k`, whatever follows (even a bad length). -/
theorem b1t6_decode_invalid_group (pre : List UInt8) (g rest : List Int)
    (hg : g.length = 6) (hgv : ValidTrits g) (hbad : ∀ b, g ≠ encodeByte b) :
    decode (encode pre ++ g ++ rest) = (pre, some .invalidTrits) :=
  Proofs.B1T6.decode_invalid_group pre g rest hg hgv hbad

/-- (e) otherwise a trailing partial group gives invalid length with `n` = whole groups. -/
theorem b1t6_decode_invalid_length (pre : List UInt8) (r : List Int)
    (h0 : 0 < r.length) (h6 : r.length < 6) :
    decode (encode pre ++ r) = (pre, some .invalidLength) :=
  Proofs.B1T6.decode_invalid_length pre r h0 h6

/-- (e) the same order for `DecodeTrytes` (which returns no bytes on error, only the error): the first tryte pair that
is not a code word gives ErrInvalidTrits whatever follows — even an odd length —, and otherwise an odd length gives
ErrInvalidLength. -/
theorem b1t6_decodeTrytes_invalid_group (pre : List UInt8) (c1 c2 : UInt8) (rest : List UInt8)
    (hbad : decodeGroup (tryteValue c1) (tryteValue c2) = none) :
    decodeTrytes (encodeToTrytes pre ++ c1 :: c2 :: rest) = .error .invalidTrits := by
  unfold decodeTrytes
  rw [Proofs.B1T6.decodeTrytesAux_encode_append, Proofs.B1T6.decodeTrytesAux_cons2, hbad]

theorem b1t6_decodeTrytes_invalid_length (pre : List UInt8) (c : UInt8) :
    decodeTrytes (encodeToTrytes pre ++ [c]) = .error .invalidLength := by
  unfold decodeTrytes
  rw [Proofs.B1T6.decodeTrytesAux_encode_append, Proofs.B1T6.decodeTrytesAux_one]

/-- exactly 256 of the 729 groups are code words (so 473 are rejected). -/
theorem b1t6_codeword_count :
    ((Proofs.B1T6.allGroups).filter (fun g => (decode g).2 == none)).length = 256 := by
  decide +kernel

/-! ### b1t8 -/

theorem b1t8_encodeByte_spec (b : UInt8) :
    B1T8.encodeByte b = (List.range 8).map (fun i => (((b.toNat >>> i) % 2 : Nat) : Int)) :=
  Proofs.B1T8.encodeByte_spec b

theorem b1t8_decode_encode (bs : List UInt8) : B1T8.decode (B1T8.encode bs) = (bs, none) :=
  Proofs.B1T8.decode_encode bs

/-- acceptance ↔ encoding, over *all* int8 values (no validity hypothesis). -/
theorem b1t8_decode_ok_iff (ts : List Int) (bs : List UInt8) :
    B1T8.decode ts = (bs, none) ↔ ts = B1T8.encode bs :=
  Proofs.B1T8.decode_ok_iff ts bs

theorem b1t8_decode_invalid_group (pre : List UInt8) (g rest : List Int)
    (hg : g.length = 8) (hbad : g.any B1T8.badTrit = true) :
    B1T8.decode (B1T8.encode pre ++ g ++ rest) = (pre, some .invalidTrit) :=
  Proofs.B1T8.decode_invalid_group pre g rest hg hbad

/-- remainder scan: a bad trit in the trailing partial group wins over the bad length. -/
theorem b1t8_decode_remainder (pre : List UInt8) (r : List Int)
    (h0 : 0 < r.length) (h8 : r.length < 8) :
    B1T8.decode (B1T8.encode pre ++ r) =
      (pre, some (if r.any B1T8.badTrit then .invalidTrit else .invalidLength)) :=
  Proofs.B1T8.decode_remainder pre r h0 h8

/-! ### non-vacuity -/
example : decode (encode [0x00, 0x7f, 0x80, 0xff]) = ([0x00, 0x7f, 0x80, 0xff], none) := by decide
example : encode [0x01] = [1,0,0,0,0,0] ∧ encode [0xff] = [-1,0,0,0,0,0] ∧
    encode [0x80] = [1,-1,1,1,1,-1] := by decide
example : decode [1,1,1,1,1,1] = ([], some .invalidTrits) := by decide
example : decode ([1,0,0,0,0,0] ++ [0,0,0]) = ([1], some .invalidLength) := by decide
example : B1T8.decode [1,0,0,0,0,0,0,0, 0,2] = ([1], some .invalidTrit) := by decide

end Iota.Props.C14
