/- C05 — Bech32 Encode is BIP-173 conformant and Decode inverts it. -/
import Iota.Proofs.Bech32

namespace Iota.Props.C05
open Iota.Bech32 Iota.Spec.Bip173 Iota.Proofs.Bech32

/-- `Encode` succeeds exactly for a non-empty, single-case, printable-ASCII prefix that fits together with
the data in 90 characters, and then returns exactly the BIP-173 string `encSpec`: bytes regrouped into
5-bit symbols with zero padding (`to5`), six checksum symbols over the lower-cased prefix, the whole
string in the prefix's case. -/
theorem encode_ok_iff (hrp : Str) (src : List UInt8) (r : Str) :
    encode hrp src = .ok r ↔ EncPre hrp src ∧ r = encSpec hrp src :=
  Proofs.Bech32.encode_ok_iff hrp src r

/-- the six checksum symbols are the unique ones that make the BIP-173 checksum verify. -/
theorem checksum_verifies (hrp : Str) (data : List UInt8) :
    polymod (hrpExpand hrp ++ (data ++ createChecksum hrp data)) = 1 := by
  have := verify_create hrp data
  unfold verifyChecksum at this
  simpa using this

theorem checksum_is_unique (hrp : Str) (data cs : List UInt8) (hlen : cs.length = 6)
    (hlt : ∀ c ∈ cs, c.toNat < 32) (hv : polymod (hrpExpand hrp ++ (data ++ cs)) = 1) :
    cs = createChecksum hrp data :=
  checksum_unique hrp data cs hlen hlt (by unfold verifyChecksum; rw [hv]; rfl)

/-- `Decode` of the result returns the lower-cased prefix and the original bytes. -/
theorem decode_encode (hrp : Str) (src : List UInt8) (r : Str) (h : encode hrp src = .ok r) :
    decode r = .ok (lower hrp, src) :=
  Proofs.Bech32.decode_encode hrp src r h

/-- an empty, mixed-case, non-printable or over-long input yields an error and never a string. -/
theorem encode_error_otherwise (hrp : Str) (src : List UInt8) (h : ¬ EncPre hrp src) :
    ∃ e, encode hrp src = .error e :=
  Proofs.Bech32.encode_err_of_not_pre hrp src h

theorem encode_empty_hrp (src : List UInt8) : ∃ e, encode [] src = .error e :=
  encode_error_otherwise [] src (fun h => h.2.1 rfl)

theorem encode_too_long (hrp : Str) (src : List UInt8) (h : 90 < hrp.length + symCount src.length + 7) :
    ∃ e, encode hrp src = .error e :=
  encode_error_otherwise hrp src (fun hp => by have := hp.1; omega)

theorem encode_mixed_case (hrp : Str) (src : List UInt8) (h : hasUpper hrp ∧ hasLower hrp) :
    ∃ e, encode hrp src = .error e :=
  encode_error_otherwise hrp src (fun hp => hp.2.2.2 h)

theorem encode_non_printable (hrp : Str) (src : List UInt8) (c : UInt8) (hc : c ∈ hrp)
    (h : c.toNat < 33 ∨ 126 < c.toNat) : ∃ e, encode hrp src = .error e :=
  encode_error_otherwise hrp src (fun hp => by have := hp.2.2.1 c hc; omega)

/-! ### non-vacuity -/
-- Encode("a", []) = "a12uel5l", Encode("A", []) = "A12UEL5L"
example : encode [97] [] = .ok [97,49,50,117,101,108,53,108] := by decide +kernel
example : encode [65] [] = .ok [65,49,50,85,69,76,53,76] := by decide +kernel
example : EncPre [97] [] := ⟨by decide, by decide, by decide, by
  rintro ⟨⟨c, hc, hu⟩, _⟩; simp at hc; subst hc; revert hu; decide⟩
-- one byte: two symbols, the second carries two zero padding bits
example : to5 [0xff] = [31, 28] := by decide +kernel

end Iota.Props.C05
