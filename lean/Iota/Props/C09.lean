/-
C09 — the BIP-39 seed is PBKDF2 over the normalized sentence and passphrase; sentence parsing.
NFKD (`golang.org/x/text/unicode/norm`) and PBKDF2-HMAC-SHA512 are parameters of the model: what is
proved is the repository's own logic around them.  The correspondence run instantiates PBKDF2 with a
Lean implementation and feeds the NFKD form computed by x/text, so that a dropped normalisation, a
different iteration count, salt or password shows up as a disagreement.
-/
import Iota.Proofs.Fields
import Iota.Props.C03

namespace Iota.Props.C09
open Iota.Bip39 Iota.Mnemonic Iota.Proofs.Fields

section
variable (H : Bytes → Bytes) (W : List Word) (nfkd : Bytes → Bytes) (pbkdf2 : Bytes → Bytes → Nat → Nat → Bytes)

/-- for a valid mnemonic the seed is PBKDF2(password = the words joined by single spaces,
salt = "mnemonic" ++ NFKD(passphrase), 2048 iterations, 64 bytes) … -/
theorem seed_is_pbkdf2 (ms : List Word) (pass e : Bytes) (h : mnemonicToEntropy H W ms = .ok e) :
    mnemonicToSeed H W nfkd pbkdf2 ms pass = .ok (pbkdf2 (join ms) (saltPrefix ++ nfkd pass) 2048 64) := by
  unfold mnemonicToSeed; rw [h]

/-- … and an invalid mnemonic yields the validation error and no seed. -/
theorem invalid_mnemonic_no_seed (ms : List Word) (pass : Bytes) (err : Err) (h : mnemonicToEntropy H W ms = .error err) :
    mnemonicToSeed H W nfkd pbkdf2 ms pass = .error err := by
  unfold mnemonicToSeed; rw [h]

/-- the password is the sentence with exactly one U+0020 between words: it parses back to the words. -/
theorem password_roundtrip (ws : List Bytes) (h : ∀ w ∈ ws, w ≠ [] ∧ SpaceFree w) : fields (join ws) = ws :=
  fields_join ws h

/-- parsing is insensitive to the kind and amount of white space between words … -/
theorem whitespace_kind_and_amount_irrelevant (a b r r' : Bytes) (hr : SpaceRun r) (hr' : SpaceRun r') :
    fields (a ++ r ++ b) = fields (a ++ r' ++ b) :=
  fields_run_irrelevant a b r r' hr hr'

/-- … and to leading and trailing white space. -/
theorem leading_trailing_whitespace_irrelevant (a r : Bytes) (hr : SpaceRun r) :
    fields (r ++ a) = fields a ∧ fields (a ++ r) = fields a :=
  fields_trim a r hr

/-- the words produced by the parser are non-empty and contain no white space … -/
theorem parsed_words_clean (s : Bytes) : ∀ w ∈ fields s, w ≠ [] ∧ SpaceFree w := fields_spaceFree s

/-- … so parsing the printed form of a parsed sentence gives the same sentence.  The hypothesis on the
normalisation map is what NFKD provides (idempotent; the printed form consists of NFKD text and U+0020). -/
theorem parse_print_parse (hfix : ∀ s, nfkd (join (fields (nfkd s))) = join (fields (nfkd s))) (s : Bytes) :
    parseMnemonic nfkd (join (parseMnemonic nfkd s)) = parseMnemonic nfkd s :=
  Proofs.Fields.parse_print_parse nfkd hfix s

/-- insensitivity to Unicode compatibility forms: two inputs with the same NFKD form parse identically. -/
theorem compatibility_forms_irrelevant (s s' : Bytes) (h : nfkd s = nfkd s') :
    parseMnemonic nfkd s = parseMnemonic nfkd s' := by
  unfold parseMnemonic; rw [h]
end

/-! ### non-vacuity -/
-- "a b" and "a \t　b " parse to the same two words
example : fields [97, 32, 98] = [[97], [98]] ∧ fields [97, 32, 9, 0xE3, 0x80, 0x80, 98, 32] = [[97], [98]] := by
  decide +kernel
example : SpaceRun [32] := SpaceRun.one [32] (by decide) (by decide)
example : join [[97], [98, 99]] = [97, 32, 98, 99] := rfl

end Iota.Props.C09
