/-
C16 — the Bech32 checksum detects every error of up to four characters.
The certificate (kernel-evaluated, no `native_decide`) is Iota/Proofs/BCH*; the lift to `Decode`
is Iota/Proofs/Bech32Errors.lean.
-/
import Iota.Proofs.Bech32Errors

namespace Iota.Props.C16
open Iota.Bech32 Iota.Proofs.BCH Iota.Proofs.Bech32Errors

/-- BCH core: two symbol words of equal length with `polymod = 1` cannot differ in 1…4 positions
that all lie within the last 89 positions. (89 is tight: a weight-4 code word exists at 90.) -/
theorem checksum_distance (v v' : List UInt8) (hlen : v.length = v'.length)
    (hv : ∀ x ∈ v, x.toNat < 32) (hv' : ∀ x ∈ v', x.toNat < 32)
    (h1 : 1 ≤ hamming v v') (h4 : hamming v v' ≤ 4) (hwin : DiffWithinLast 89 v v')
    (hp : polymod v = 1) : polymod v' ≠ 1 :=
  bch_detects v v' hlen hv hv' h1 h4 hwin hp

/-- Any string obtained from a valid Bech32 string `h ++ "1" ++ d` by replacing characters of the data
part (checksum included) by charset characters of a different value and/or letters/digits of the
human-readable part by characters of the same kind (`Forall2 …Sub` = position-wise, length unchanged),
one to four characters in total, is rejected by `Decode`. -/
theorem substitutions_rejected (h d h' d' : Str) (hrp : Str) (data : List UInt8)
    (hsep : separator ∉ d)
    (hok : decode (h ++ [separator] ++ d) = .ok (hrp, data))
    (hh : Forall2 HrpSub h h') (hd : Forall2 DataSub d d')
    (h1 : 1 ≤ hamming h h' + hamming d d') (h4 : hamming h h' + hamming d d' ≤ 4) :
    ∃ e, decode (h' ++ [separator] ++ d') = .error e :=
  decode_rejects h d h' d' hrp data hsep hok hh hd h1 h4

/-- the shape hypothesis is no restriction: every accepted string is `h ++ "1" ++ d` with no '1' in `d`. -/
theorem accepted_shape (s hrp : Str) (data : List UInt8) (hok : decode s = .ok (hrp, data)) :
    ∃ h d, s = h ++ [separator] ++ d ∧ separator ∉ d := by
  obtain ⟨_, _, h, d, _, hs, hn, _⟩ := (Iota.Proofs.Bech32.decode_ok_iff_valid s hrp data).mp hok
  exact ⟨h, d, hs, hn⟩

/-! ### non-vacuity: "a12uel5l" is accepted; "a12uel5m" (one data character changed) satisfies the
hypotheses and is rejected -/
example : decode ([97] ++ [separator] ++ [50,117,101,108,53,108]) = .ok ([97], []) := by decide +kernel
example : DataSub 108 109 := Or.inr (by decide)
example : HrpSub 97 98 := Or.inr (Or.inl (by decide))
example : ∃ e, decode ([97] ++ [separator] ++ [50,117,101,108,53,109]) = .error e :=
  substitutions_rejected [97] [50,117,101,108,53,108] [97] [50,117,101,108,53,109] [97] []
    (by decide) (by decide +kernel)
    (.cons (Or.inl rfl) .nil)
    (.cons (Or.inl rfl) (.cons (Or.inl rfl) (.cons (Or.inl rfl) (.cons (Or.inl rfl) (.cons (Or.inl rfl)
      (.cons (Or.inr (by decide)) .nil))))))
    (by decide) (by decide)

end Iota.Props.C16
