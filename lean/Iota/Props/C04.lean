/-
C04 — Bech32 Decode accepts exactly the valid strings and never panics.
`decode : Str → Except Err (Str × List UInt8)` is total (no panic outcome in the model; a Go panic
would surface in the correspondence run as a `panic` reply that no model reply can equal).
-/
import Iota.Proofs.Bech32

namespace Iota.Props.C04
open Iota.Bech32 Iota.Spec.Bip173

/-- `Decode` succeeds exactly on the valid BIP-173 strings (≤ 90 characters, one case, printable-ASCII
prefix, last '1' as separator, charset data, valid checksum) whose data regroups into whole bytes with
zero padding bits, and returns the lower-cased prefix and those bytes. -/
theorem decode_ok_iff_valid (s hrp : Str) (data : List UInt8) :
    decode s = .ok (hrp, data) ↔ Valid s hrp data :=
  Proofs.Bech32.decode_ok_iff_valid s hrp data

/-- every accepted string re-encodes to its own lower-case form … -/
theorem accepted_reencodes (s hrp : Str) (data : List UInt8) (h : decode s = .ok (hrp, data)) :
    encode hrp data = .ok (lower s) :=
  Proofs.Bech32.reencode s hrp data h

/-- … so a (prefix, data) pair has exactly one accepted spelling up to ASCII case. -/
theorem unique_spelling (s s' hrp : Str) (data : List UInt8)
    (h : decode s = .ok (hrp, data)) (h' : decode s' = .ok (hrp, data)) : lower s = lower s' := by
  have a := accepted_reencodes s hrp data h
  have b := accepted_reencodes s' hrp data h'
  rw [a] at b
  exact Except.ok.inj b

/-- when the error carries a position it lies inside the input. -/
theorem error_offset_in_input (s : Str) (k : ErrKind) (off : Nat)
    (h : decode s = .error (k, some off)) : off < s.length :=
  Proofs.Bech32.decode_err_offset s k off h

/-- the data regrouping of an accepted string is BIP-173's 8→5 conversion with zero padding. -/
theorem base32_is_bip173 (bs : List UInt8) : b32Encode bs = to5 bs :=
  Proofs.Base32.b32Encode_eq_to5 bs

theorem base32_decode_ok_iff (syms bs : List UInt8) (hlt : ∀ s ∈ syms, s.toNat < 32) :
    b32Decode syms = .ok bs ↔ syms = b32Encode bs :=
  Proofs.Base32.b32_decode_ok_iff syms bs hlt

/-! ### non-vacuity -/
-- "A12UEL5L" and "a12uel5l" are valid (BIP-173 test vectors), "A12uEL5L" (mixed case) is not
example : decode [65,49,50,85,69,76,53,76] = .ok ([97], []) := by decide +kernel
example : decode [97,49,50,117,101,108,53,108] = .ok ([97], []) := by decide +kernel
example : decode [65,49,50,117,69,76,53,76] = .error (.mixedCase, some 3) := by decide +kernel
-- non-zero padding: "a1qqqqql2szs3" style strings are rejected by the regrouping
example : (decode [97,49,112,50,117,101,108,53,108]).toOption = none := by decide +kernel
example : Valid [97,49,50,117,101,108,53,108] [97] [] :=
  (decode_ok_iff_valid _ _ _).mp (by decide +kernel)

end Iota.Props.C04
