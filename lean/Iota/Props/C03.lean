/-
C03 — BIP-39 entropy and mnemonic sentences are exact inverses.
For every hash `H` with 32-byte output (SHA-256 in the code) and every list `W` of 2048 distinct
words — in particular the official English and Japanese lists (Iota/Spec/Bip39Words.lean).
-/
import Iota.Proofs.Bip39
import Iota.Proofs.WordLists

namespace Iota.Props.C03
open Iota.Bip39 Iota.Proofs.Bip39 Iota.Proofs.Digits

section
variable (H : Bytes → Bytes) (W : List Word)

/-- BIP-39 rule, positionally: the sentence consists of the words whose indices are the 3·ENT/32
base-2^11 digits (most significant first) of  entropy·2^(ENT/32) + (first ENT/32 bits of H(entropy)),
i.e. of the bit string "entropy followed by the checksum bits" cut into 11-bit groups. -/
theorem encode_is_bip39 (hH : ∀ x, (H x).length = 32) (e : Bytes) (hv : ValidLen e.length) :
    entropyToMnemonic H W e = .ok
      ((digs 2048 (3 * (e.length * 8) / 32)
          (setBytes e * 2 ^ (e.length * 8 / 32) + setBytes (H e) / 2 ^ (256 - e.length * 8 / 32))).map
        fun i => W.getD i []) := by
  have := encode_eq H hH W e hv
  unfold bigOf computeChecksum entropyBitsToWordCount at this
  rw [Nat.shiftRight_eq_div_pow] at this
  exact this

/-- … and `MnemonicToEntropy` of that sentence returns the same entropy. -/
theorem decode_encode (hH : ∀ x, (H x).length = 32) (hW : W.length = 2048) (hN : W.Nodup) (e : Bytes) (hv : ValidLen e.length) (ws : List Word)
    (henc : entropyToMnemonic H W e = .ok ws) : mnemonicToEntropy H W ws = .ok e :=
  Proofs.Bip39.decode_encode H hH W hW hN e hv ws henc

/-- every accepted sentence re-encodes to itself: acceptance ⇔ "is the encoding of its entropy". -/
theorem encode_decode (hH : ∀ x, (H x).length = 32) (hW : W.length = 2048) (hN : W.Nodup) (ws : List Word) (e : Bytes) (hdec : mnemonicToEntropy H W ws = .ok e) :
    entropyToMnemonic H W e = .ok ws :=
  Proofs.Bip39.encode_decode H hH W hW hN ws e hdec

/-- `MnemonicToEntropy` accepts a word sequence exactly when its length is 12…48 in steps of 3, every
word is in the list and the embedded checksum matches the checksum of the decoded entropy. -/
theorem decode_ok_iff (hH : ∀ x, (H x).length = 32) (hW : W.length = 2048) (hN : W.Nodup) (ws : List Word) (e : Bytes) :
    mnemonicToEntropy H W ws = .ok e ↔
      (ValidCount ws.length ∧ (∀ w ∈ ws, w ∈ W) ∧ ValidLen e.length ∧ entropyToMnemonic H W e = .ok ws) := by
  constructor
  · intro h
    have henc := encode_decode H W hH hW hN ws e h
    obtain ⟨hc, hm, _, _⟩ := decode_ok H W hW ws e h
    refine ⟨hc, hm, ?_, henc⟩
    exact Classical.byContradiction fun hv => by
      rw [encode_err H W e hv] at henc; simp at henc
  · rintro ⟨_, _, hv, henc⟩
    exact decode_encode H W hH hW hN e hv ws henc

/-- other entropy sizes are rejected with ErrInvalidEntropySize. -/
theorem encode_bad_size (e : Bytes) (hv : ¬ ValidLen e.length) :
    entropyToMnemonic H W e = .error .invalidEntropySize :=
  encode_err H W e hv

/-- wrong word counts and unknown words are rejected with ErrInvalidMnemonic (before any checksum work). -/
theorem decode_bad_count (ws : List Word) (h : ¬ ValidCount ws.length) :
    mnemonicToEntropy H W ws = .error .invalidMnemonic := by
  unfold mnemonicToEntropy
  simp only
  rw [if_pos (Classical.byContradiction fun hc => h ((validCount_iff ws.length).mp hc))]

theorem decode_unknown_word (ws : List Word) (hc : ValidCount ws.length) (w : Word) (hw : w ∈ ws) (hnot : w ∉ W) :
    mnemonicToEntropy H W ws = .error .invalidMnemonic := by
  unfold mnemonicToEntropy
  simp only
  rw [if_neg ((validCount_iff ws.length).mpr hc)]
  have : (!ws.all fun w => W.contains w) = true := by
    simp only [Bool.not_eq_true', List.all_eq_false, List.contains_iff_mem]
    exact ⟨w, hw, by simpa using hnot⟩
  rw [this]; rfl

/-- the third documented error: a sentence of valid length whose words are all in the list but which is not the
encoding of any entropy (i.e. its embedded checksum does not match) is rejected with ErrInvalidChecksum — so the
three outcomes `invalidMnemonic` / `invalidChecksum` / accepted are exactly: bad count or unknown word / checksum
mismatch / encoding of its entropy. -/
theorem decode_bad_checksum (ws : List Word) (hc : ValidCount ws.length) (hall : ∀ w ∈ ws, w ∈ W)
    (hne : ∀ e, mnemonicToEntropy H W ws ≠ .ok e) :
    mnemonicToEntropy H W ws = .error .invalidChecksum := by
  unfold mnemonicToEntropy at hne ⊢
  simp only at hne ⊢
  rw [if_neg ((validCount_iff ws.length).mpr hc)] at hne ⊢
  have hallb : (!ws.all fun w => W.contains w) = false := by
    simp only [Bool.not_eq_false', List.all_eq_true, List.contains_iff_mem]
    exact hall
  rw [hallb] at hne ⊢
  simp only [Bool.false_eq_true, if_false] at hne ⊢
  split
  · rfl
  · rename_i h
    exact absurd (if_neg h) (hne _)

end

/-- the two built-in lists satisfy the hypotheses (2048 pairwise distinct words each). -/
theorem builtin_lists_ok :
    Spec.Bip39Words.english.length = 2048 ∧ Spec.Bip39Words.english.Nodup ∧
    Spec.Bip39Words.japanese.length = 2048 ∧ Spec.Bip39Words.japanese.Nodup :=
  ⟨Proofs.WordLists.english_length, Proofs.WordLists.english_nodup,
   Proofs.WordLists.japanese_length, Proofs.WordLists.japanese_nodup⟩

/-! ### non-vacuity -/
example : ValidLen 16 ∧ ValidLen 64 ∧ ¬ ValidLen 18 ∧ ValidCount 12 ∧ ValidCount 48 ∧ ¬ ValidCount 13 := by
  unfold ValidLen ValidCount; omega
-- with H = thirty-two zero bytes, entropy = sixteen zero bytes gives index 0 twelve times: "abandon …"
example : entropyToMnemonic (fun _ => List.replicate 32 0) Spec.Bip39Words.english (List.replicate 16 0)
    = .ok (List.replicate 12 [97,98,97,110,100,111,110]) := by decide +kernel

end Iota.Props.C03
