/-
C07 — Ed25519 keys and signatures are those of RFC 8032 / crypto/ed25519.

Model: `Iota/Model/Ed25519.lean` (`newKeyFromSeed`, `sign`, `signerSign`, `verify`), written as the RFC 8032
§5.1.5/§5.1.6 steps over the abstract curve library `EdLib G`; proofs: `Iota/Proofs/Ed/{Bytes,Lawful,Sign}.lean`.
What is a theorem: the algebra — for every seed and message the signature the model produces is accepted by
`verify` for the produced key (so the three functions fit together for all inputs), signing is a function
(deterministic), the clamped secret is never ≡ 0 mod L, the Signer wrapper returns the same signature and
refuses pre-hashed input, and the panics are exactly the length checks.
What is NOT a theorem (PARTIAL): byte identity with crypto/ed25519.  The Go standard library is a second
implementation outside the model; identity with it is established by the correspondence run only (the
harness compares pkg/ed25519 with crypto/ed25519 byte for byte, and both with the Lean model instantiated
with a from-scratch curve and SHA-512, for message lengths covering both SHA-512 padding regimes).  The group
law of filippo.io/edwards25519 and SHA-512 are the hypothesis `Lawful lib`.
-/
import Iota.Proofs.Ed
import Iota.Proofs.Ed.Witness2

namespace Iota.Props.C07
open Iota.Proofs.Ed
open Iota.Edwards (Bytes leNat leBytes L)
open Iota.Ed25519 (EdLib newKeyFromSeed sign signerSign)

variable {G : Type} [AddCommGroup G] {lib : EdLib G}

/-- **sign then verify**, every 32-byte seed and every message: key and signature exist, have the RFC
lengths, and `Verify` accepts the signature for its own key and message. -/
theorem sign_then_verify (h : Lawful lib) (seed msg : Bytes) (hs : seed.length = 32) :
    ∃ sk sig, newKeyFromSeed lib seed = some sk ∧ sk.length = 64 ∧
      sign lib sk msg = some sig ∧ sig.length = 64 ∧
      Iota.Ed25519.verify lib (sk.drop 32) msg sig = some true := E2_sign_verify h seed msg hs

/-- the private key is `seed ‖ A` with `A` the encoding of `[s]B`, `s` the clamped hash of the seed. -/
theorem private_key_layout (h : Lawful lib) (seed sk : Bytes) (hsk : newKeyFromSeed lib seed = some sk) :
    sk.length = 64 ∧ seed.length = 32 ∧ sk.take 32 = seed ∧ sk.drop 32 = lib.encode (publicPoint lib seed) :=
  newKeyFromSeed_length h seed sk hsk

/-- clamping: the secret scalar is never a multiple of the group order (the public key is never the identity
for a prime-order base). -/
theorem clamped_scalar_nonzero (hb : Bytes) : Iota.Edwards.clamp hb % L ≠ 0 := E2_clamp hb

omit [AddCommGroup G] in
/-- the only failures are the documented panics on wrong lengths. -/
theorem panics_iff (seed sk msg : Bytes) :
    (newKeyFromSeed lib seed = none ↔ seed.length ≠ 32) ∧ (sign lib sk msg = none ↔ sk.length ≠ 64) :=
  E2_panics seed sk msg

omit [AddCommGroup G] in
/-- **crypto.Signer**: the same signature for `crypto.Hash(0)`, an error for any pre-hash option. -/
theorem signer_interface (sk msg : Bytes) (hf : ℕ) :
    signerSign lib sk msg 0 = (sign lib sk msg).map .ok ∧
    (hf ≠ 0 → signerSign lib sk msg hf = some (.error ())) := E2_signer sk msg hf

/-- the 32-byte little-endian scalar encoding is exact below 2^256. -/
theorem scalar_encoding (n : ℕ) (hn : n < 2 ^ 256) : leNat (leBytes n 32) = n ∧ (leBytes n 32).length = 32 :=
  E2_leBytes n hn

omit [AddCommGroup G] in
/-- **determinism** is definitional in the model (`sign` is a function of key and message); on the
implementation side the harness signs every input twice. -/
theorem deterministic (sk msg : Bytes) (a b : Bytes) (ha : sign lib sk msg = some a) (hb : sign lib sk msg = some b) :
    a = b := by rw [ha] at hb; exact Option.some.inj hb

/-! ### non-vacuity -/
example : ∃ (G : Type) (_ : AddCommGroup G) (lib : EdLib G), Lawful lib ∧ Cofactor lib := lawful_witness

/-- the hypotheses are not only jointly satisfiable: there is a lawful library with a NON-constant hash on which
try-and-increment succeeds for every input and, for every 32-byte seed, alpha and message, key generation, `Prove`,
`Verify` (accepting, with the proof's hash), `ProofToHash`, the proof codec and Ed25519 sign-then-verify all go through
— so the hypotheses of `complete`, `verify_iff`, `hash_routes_agree`, `unique_partial` (with x the secret scalar) and
of C07's `sign_then_verify` are met by actual runs. -/
theorem hypotheses_met_by_runs :
    ∃ (G : Type) (_ : AddCommGroup G) (lib : EdLib G),
      Lawful lib ∧ Cofactor lib ∧ OrderExact lib ∧ EncodeCanonical lib ∧ EncodeDecode lib ∧
      (∃ m m', lib.sha512 m ≠ lib.sha512 m') ∧
      (∀ salt alpha, ∃ H, Iota.Vrf.encodeToCurve lib salt alpha = some H) ∧
      (∀ seed alpha : Bytes, seed.length = 32 →
        ∃ sk H D, Iota.Ed25519.newKeyFromSeed lib seed = some sk ∧ (sk.drop 32).length = 32 ∧
          Iota.Vrf.encodeToCurve lib (sk.drop 32) alpha = some H ∧
          Iota.Vrf.prove lib sk alpha = some D ∧
          Iota.Vrf.verify lib (sk.drop 32) alpha (D.bytes lib) = some (true, D.hash lib) ∧
          Iota.Vrf.proofToHash lib (D.bytes lib) = some (D.hash lib) ∧
          Iota.Vrf.Proof.setBytes lib (D.bytes lib) = some D ∧
          (8 : ℕ) • (D.gamma - secretScalar lib seed • H) = 0) ∧
      (∀ seed msg : Bytes, seed.length = 32 →
        ∃ sk sig, Iota.Ed25519.newKeyFromSeed lib seed = some sk ∧ sk.length = 64 ∧
          Iota.Ed25519.sign lib sk msg = some sig ∧ sig.length = 64 ∧
          Iota.Ed25519.verify lib (sk.drop 32) msg sig = some true) :=
  lawful_witness_vrf_runs

end Iota.Props.C07
