/-
C15 — Merkle Hash is the RFC 6962-style tree hash for every leaf count, for every hash function `H`.
Lemmas: Iota/Proofs/Merkle.lean; the RFC relation `IsMTH`: Iota/Spec/Merkle.lean.
The bound `n ≤ 2^63` is Go's `int` range (a slice cannot be longer).
-/
import Iota.Proofs.Merkle
import Iota.Proofs.MerkleTree

namespace Iota.Props.C15
open Iota.Merkle Iota.Spec.Merkle Iota.Spec.MerkleTree

/-- the split point is a power of two `k` with `k < n ≤ 2k` … -/
theorem split_point (n : Nat) (h2 : 2 ≤ n) (h63 : n ≤ 2 ^ 63) :
    ∃ e, largestPowerOfTwo n = 2 ^ e ∧ largestPowerOfTwo n < n ∧ n ≤ 2 * largestPowerOfTwo n :=
  Proofs.Merkle.lpo2_spec n h2 h63

/-- … and that determines it uniquely ("the largest power of two strictly below n"). -/
theorem split_point_unique (n a b : Nat) (ha : 2 ^ a < n) (ha' : n ≤ 2 * 2 ^ a)
    (hb : 2 ^ b < n) (hb' : n ≤ 2 * 2 ^ b) : a = b :=
  Proofs.Merkle.pow2_split_unique n a b ha ha' hb hb'

/-- `Hash` of n ≥ 0 successfully marshaled leaves is exactly RFC 6962's MTH, for every n and every H. -/
theorem hash_eq_MTH {ε : Type} (H : Bytes → Bytes) (D : List Bytes) (h63 : D.length ≤ 2 ^ 63) (h : Bytes) :
    hash (ε := ε) H (D.map .ok) = .ok h ↔ IsMTH H D h :=
  Proofs.Merkle.hash_eq_mth H D h63 h

/-- the three defining cases, stated outright. -/
theorem hash_empty {ε : Type} (H : Bytes → Bytes) : hash (ε := ε) H [] = .ok (H []) :=
  Proofs.Merkle.hash_nil H

theorem hash_one {ε : Type} (H : Bytes → Bytes) (b : Bytes) : hash (ε := ε) H [.ok b] = .ok (H (0 :: b)) := by
  rw [Proofs.Merkle.hash_single]; rfl

theorem hash_many {ε : Type} (H : Bytes → Bytes) (data : List (Except ε Bytes)) (h2 : 2 ≤ data.length)
    (l r : Bytes) (hl : hash H (data.take (largestPowerOfTwo data.length)) = .ok l)
    (hr : hash H (data.drop (largestPowerOfTwo data.length)) = .ok r) :
    hash H data = .ok (H (1 :: (l ++ r))) := by
  rw [Proofs.Merkle.hash_split H data h2, hl, hr]; rfl

/-- MTH is a function of the marshaled leaves (the result depends on nothing else). -/
theorem MTH_functional (H : Bytes → Bytes) (D : List Bytes) (h h' : Bytes)
    (a : IsMTH H D h) (b : IsMTH H D h') : h = h' :=
  Proofs.Merkle.isMTH_functional H D h h' a b

/-- the first marshaling error in index order is returned instead of a hash … -/
theorem first_error_returned {ε : Type} (H : Bytes → Bytes) (data : List (Except ε Bytes)) (e : ε)
    (h : firstError data = some e) : hash H data = .error e :=
  Proofs.Merkle.hash_error H data.length data rfl e h

/-- … and without an error a hash is returned. -/
theorem no_error_ok {ε : Type} (H : Bytes → Bytes) (data : List (Except ε Bytes))
    (h : firstError data = none) : ∃ r, hash H data = .ok r :=
  Proofs.Merkle.hash_ok_of_no_error H data.length data rfl h

/-! ### "… which is what an independent bottom-up construction yields and what RFC 6962 audit paths verify against"
Definitions: `Iota/Spec/MerkleTree.lean` — `bottomUp` pairs consecutive nodes level by level, promoting an unpaired last
node, and never mentions a split point; `auditPath` is the RFC 6962 §2.1.1 PATH; `verifyPath` is the iterative verifier of
RFC 9162 §2.1.3.2 (index and tree-size bits only). Proofs: `Iota/Proofs/MerkleTree.lean`. -/

/-- the level-by-level construction yields the same root, for every hash function and every leaf count -/
theorem hash_eq_bottomUp {ε : Type} (H : Bytes → Bytes) (D : List Bytes) (h63 : D.length ≤ 2 ^ 63) :
    hash (ε := ε) H (D.map .ok) = .ok (bottomUp H D) :=
  Proofs.MerkleTree.hash_eq_bottomUp H D h63

theorem bottomUp_isMTH (H : Bytes → Bytes) (D : List Bytes) : IsMTH H D (bottomUp H D) :=
  Proofs.MerkleTree.bottomUp_isMTH H D

/-- the RFC 6962 audit path of every leaf verifies against the root `Hash` returns -/
theorem audit_path_verifies {ε : Type} (H : Bytes → Bytes) (D : List Bytes) (h63 : D.length ≤ 2 ^ 63) (root : Bytes)
    (hroot : hash (ε := ε) H (D.map .ok) = .ok root) (m : Nat) (leaf : Bytes) (hm : D[m]? = some leaf) :
    verifyPath H m D.length leaf (auditPath H D m) = some root :=
  Proofs.MerkleTree.hash_verifies H D h63 root hroot m leaf hm

/-- an audit path has at most ⌈log₂ n⌉ nodes -/
theorem audit_path_length (H : Bytes → Bytes) (D : List Bytes) (m e : Nat) (h : D.length ≤ 2 ^ e) :
    (auditPath H D m).length ≤ e :=
  Proofs.MerkleTree.auditPath_length_le H e _ D m rfl h

/-- soundness of verification: unless `H` collides on the (finitely many) strings hashed in the honest and in the
presented verification, a path that verifies against the root for index m is the audit path of the leaf at m. -/
theorem audit_path_sound (H : Bytes → Bytes) (len : Nat) (hlen : ∀ x, (H x).length = len) (D : List Bytes) (m : Nat)
    (leaf' : Bytes) (path' : List Bytes)
    (hcf : ∀ d, D[m]? = some d → ∀ x ∈ verifyPathInputs H m D.length d (auditPath H D m),
      ∀ y ∈ verifyPathInputs H m D.length leaf' path', H x = H y → x = y)
    (hv : verifyPath H m D.length leaf' path' = some (mth H D)) :
    D[m]? = some leaf' ∧ path' = auditPath H D m :=
  Proofs.MerkleTree.verifyPath_sound H len hlen D m leaf' path' hcf hv

/-! ### non-vacuity (H = identity, so the tree shape is visible in the result) -/
example : largestPowerOfTwo 2 = 1 ∧ largestPowerOfTwo 3 = 2 ∧ largestPowerOfTwo 4 = 2 ∧
    largestPowerOfTwo 5 = 4 ∧ largestPowerOfTwo 1025 = 1024 ∧ largestPowerOfTwo (2^63) = 2^62 := by
  decide +kernel
example : IsMTH id [[7],[8],[9]] [1, 1,0,7,0,8, 0,9] :=
  IsMTH.node [[7],[8],[9]] 2 1 [1,0,7,0,8] [0,9] (by decide) rfl (by decide) (by decide)
    (IsMTH.node [[7],[8]] 1 0 [0,7] [0,8] (by decide) rfl (by decide) (by decide) (IsMTH.leaf [7]) (IsMTH.leaf [8]))
    (IsMTH.leaf [9])
example : firstError [.ok [1], .error "x", .error "y"] = some "x" := rfl

/-- the bottom-up construction and audit-path verification on a 5-leaf tree with the identity "hash" -/
example : bottomUp id [[7], [8], [9]] = [1, 1, 0, 7, 0, 8, 0, 9] ∧
    verifyPath id 2 3 [9] (auditPath id [[7], [8], [9]] 2) = some (bottomUp id [[7], [8], [9]]) := by decide +kernel

end Iota.Props.C15
