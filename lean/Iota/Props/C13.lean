/-
C13 — PoW `Mine` terminates, honours cancellation and is race- and leak-free.

Model: `Iota/Model/Mine.lean`, the transition system of one `Mine` call (both PoW versions share it,
`Iota/Tie/C13.lean`), for an arbitrary worker count `W ≥ 1` (`New` forces `numWorkers ≥ 1`).  A state
is reachable if some sequence of labelled steps leads to it from `init W`: every interleaving of the
caller, the watcher, the `W` workers and the environment's `cancel`, every batch outcome (any worker
may or may not find a nonce in any batch), every cancellation instant (before the call: `cancel` first).
Proofs: `Iota/Proofs/Mine/*` (inductive invariant `Inv`, ranking function `measure`).

What the theorems carry: safety for all schedules, absence of deadlock, bounded drain after the flag is
set, the cancellation path staying enabled until taken, and nothing left running at return.
What they cannot exhibit (runtime, see DESIGN.md): the Go scheduler's fairness and real time ("a short
bounded time" is a bounded number of steps here: at most one batch per worker plus `5W+9` steps), and
the Go memory model itself — race freedom is carried as "every shared access is one atomic step of the
model" plus the tie that the only shared variables are the atomics, the channels and the WaitGroup.
-/
import Iota.Proofs.Mine

namespace Iota.Props.C13
open Iota.Mine Iota.Proofs.Mine

/-- **outcome**: whatever `Mine` returns, under every schedule: the cancellation error only if the
context was cancelled; a nonce only if some worker's lane test returned it (that such a nonce meets
the target is C11 / C12). -/
theorem outcome {W : Nat} (hW : 1 ≤ W) {s : State} (h : Reachable W s) :
    (s.main = .returned none → s.ctx = true) ∧
    (∀ n, s.main = .returned (some n) → n ∈ s.founds) :=
  ⟨fun hm => M2 hW h hm, fun _ hm => M3 hW h hm⟩

/-- **a finder never blocks**: whenever a worker is about to send its nonce the channel has room and
is still open, so the send is enabled (all `W` workers may find at once). -/
theorem finder_never_blocks {W : Nat} (hW : 1 ≤ W) {s : State} (h : Reachable W s) {i n : Nat} (hi : i < W)
    (hw : s.workers.getD i .idle = .send n) :
    (s.results.length < W ∧ s.resultsClosed = false) ∧ ∀ o, ∃ s', step W s (.worker i o) = some s' :=
  M1 hW h hi hw

/-- **no deadlock**: in every reachable state in which `Mine` has not returned, some thread of the
call itself (not the environment) can take a step. -/
theorem no_deadlock {W : Nat} (hW : 1 ≤ W) {s : State} (h : Reachable W s) (hr : ∀ r, s.main ≠ .returned r) :
    ∃ l s', l ≠ .cancel ∧ step W s l = some s' := M4 hW h hr

/-- **termination once the flag is set or the join is passed**: every step of the call strictly
decreases `measure ≤ 5W + 9`; hence any continuation consists of at most `5W + 9` steps, and by
`no_deadlock` it can only stop in `returned`.  (Before that, a worker that has read `done = 0` hashes one
more batch: at most one batch per worker separates setting the flag from this bound.) -/
theorem bounded_drain {W : Nat} (hW : 1 ≤ W) {s : State} (h : Reachable W s) :
    (s.done = true → ∀ l s', l ≠ .cancel → step W s l = some s' → measure W s' < measure W s) ∧
    (s.main = .closeResults ∨ s.main = .closeClosing ∨ s.main = .recv →
      ∀ l s', l ≠ .cancel → step W s l = some s' → measure W s' < measure W s) ∧
    measure W s ≤ 5 * W + 9 ∧
    (s.done = true ∨ pastWait s.main = true → ∀ ls s', run W s ls = some s' →
      (ls.filter (fun l => l ≠ .cancel)).length + measure W s' ≤ measure W s) :=
  M6_abc hW h

/-- states reached by continuing a run are reachable -/
theorem reachable_run {W : Nat} {s s' : State} (h : Reachable W s) (ls : List Label)
    (hr : run W s ls = some s') : Reachable W s' := by
  obtain ⟨l0, h0⟩ := h
  exact ⟨l0 ++ ls, by rw [run_append, h0]; exact hr⟩

/-- **termination, put together**: from any reachable state with the flag set (a nonce was found or the
watcher saw the cancellation) or with the join passed, EVERY continuation — whatever the scheduler does —
consists of at most `5W + 9` steps of the call's own threads, and a continuation that cannot be extended
by any such step has ended in `Mine` having returned. So under any scheduler that keeps running enabled
goroutines, `Mine` returns after a bounded number of steps; no fairness between particular goroutines is
needed in this phase. -/
theorem terminates_once_draining {W : Nat} (hW : 1 ≤ W) {s : State} (h : Reachable W s)
    (hd : s.done = true ∨ pastWait s.main = true) (ls : List Label) (s' : State)
    (hr : run W s ls = some s') :
    (ls.filter (fun l => l ≠ .cancel)).length ≤ 5 * W + 9 ∧
    ((∀ l s'', l ≠ .cancel → step W s' l ≠ some s'') → ∃ r, s'.main = .returned r) := by
  obtain ⟨_, _, hb, hrun⟩ := M6_abc hW h
  constructor
  · have := hrun hd ls s' hr
    omega
  · intro hstuck
    have hreach := reachable_run h ls hr
    apply Classical.byContradiction
    intro hne
    have hnr : ∀ r, s'.main ≠ .returned r := fun r hr' => hne ⟨r, hr'⟩
    obtain ⟨l, s'', hl, hs⟩ := M4 hW hreach hnr
    exact hstuck l s'' hl hs

/-- **cancellation is honoured**: in every reachable state with the context cancelled, the flag not yet
set and `Mine` not returned, the watcher's next step towards setting the flag is enabled (or the watcher
is about to be started, or the call is already past the join and about to return). -/
theorem cancellation_honoured {W : Nat} (hW : 1 ≤ W) {s : State} (h : Reachable W s)
    (hc : s.ctx = true) (hd : s.done = false) (hr : ∀ r, s.main ≠ .returned r) :
    (s.watcher = .select ∧ ∃ s', step W s .watcherCtx = some s' ∧ s'.watcher = .store) ∨
    (s.watcher = .store ∧ ∃ s', step W s .watcherStore = some s' ∧ s'.done = true) ∨
    (s.main = .start ∧ ∃ s', step W s .main = some s' ∧ s'.watcher = .select) ∨
    (s.main = .recv ∧ s.watcher = .exited ∧ s.closingClosed = true) :=
  M6_d hW h hc hd hr

/-- **nothing is left behind**: when `Mine` has returned every worker goroutine has exited, the
WaitGroup is at zero, and the watcher has exited or its one remaining step is enabled (the `closing`
channel is closed) and ends it. -/
theorem nothing_left_behind {W : Nat} (hW : 1 ≤ W) {s : State} (h : Reachable W s) {r : Option Nat}
    (hm : s.main = .returned r) :
    (∀ i, i < W → ∃ b, s.workers.getD i .idle = .exited b) ∧ s.wg = 0 ∧ s.closingClosed = true ∧
    (s.watcher = .exited ∨
      (s.watcher = .select ∧ ∃ s', step W s .watcherClosing = some s' ∧ s'.watcher = .exited) ∨
      (s.watcher = .store ∧ ∃ s', step W s .watcherStore = some s' ∧ s'.watcher = .exited)) :=
  M5 hW h hm

/-- **the invariant** behind all of the above is inductive (so it also covers every intermediate state
the trace validator of the correspondence run visits). -/
theorem invariant {W : Nat} (hW : 1 ≤ W) :
    Inv W (init W) ∧ (∀ s l s', Inv W s → step W s l = some s' → Inv W s') ∧
    (∀ s, Reachable W s → Inv W s) := M0_invariant hW

/-- **before the protocol**: a call that does not enter the protocol has started no goroutine; it returns the
cancellation error only once the context is cancelled (a target no hash can reach, v1), nonce 0 for the zero target
(v2), or panics in the caller for a target that overflows (v2, documented) — and a call with an attainable, valid
target enters the protocol the theorems above are about. -/
theorem preamble (ctx : Bool) :
    (∀ p, preambleResult ctx p = some (some none) → ctx = true) ∧
    preambleResult ctx (preambleV1 false) = (if ctx then some (some none) else none) ∧
    preambleV1 true = .protocol ∧
    preambleV2 true true = .trivial 0 ∧ preambleV2 false true = .protocol ∧
    preambleResult ctx (preambleV2 false false) = some none := by
  refine ⟨?_, ?_, rfl, rfl, rfl, rfl⟩
  · intro p h
    cases p <;> simp [preambleResult] at h
    exact h
  · simp [preambleV1, preambleResult]

/-! ### non-vacuity: complete runs for two workers -/
open Iota.Mine.Label in
example : (run 2 (init 2) runFound).map (·.main) = some (.returned (some 42)) ∧
    (run 2 (init 2) runCancelled).map (·.main) = some (.returned none) ∧
    (run 2 (init 2) runBothFind).map (fun s => (s.main, s.results)) = some (.returned (some 9), [7]) ∧
    (run 2 (init 2) runBothFindPrefix).map (·.workers) = some [.send 7, .send 9] := by decide
/-- the hypotheses of `cancellation_honoured` are met by a reachable state -/
example : ∃ s, run 2 (init 2) [.main, .main, .cancel] = some s ∧ s.ctx = true ∧ s.done = false ∧
    s.watcher = .select := by decide
/-- `W ≥ 1` is needed: without workers `Mine` would return the cancellation error uncancelled. -/
example : (run 0 (init 0) [.main, .main, .main, .main, .main, .main]).map (fun s => (s.main, s.ctx)) =
    some (.returned none, false) := by decide

end Iota.Props.C13
