/-
C11 — PoW (v1) nonces returned by Mine meet the requested score.  *Partial by construction*:
the score is the IEEE-754 value `math.Pow(3, z) / float64(len)`; Lean's `Float` is opaque to the
kernel, so the float enters as an abstract ordered type with a monotone score function
(`sc : Nat → F`).  Monotonicity of the real expression is checked exhaustively (z = 0…243) by the
correspondence run for every length it uses.  What is proved: the bit-plane lane test is exact,
and mining with the least sufficient zero count (which is what the repaired code computes, with the
same expression as Score) returns only nonces whose score meets the target and never passes one over.
-/
import Iota.Proofs.Pow
import Iota.Proofs.PowScore

namespace Iota.Props.C11
open Iota.Pow Iota.Proofs.Pow

/-- the lane test returns the first lane with at least n trailing zero trits, for all bit planes. -/
theorem lane_test_exact (l h : Planes) (n i : Nat) (hn : n ≤ 243) (hc : checkV1 l h n = i) :
    i ≤ 64 ∧
    (i < 64 → trailingZeros (laneTrits l h i) ≥ n ∧ ∀ j, j < i → ¬ trailingZeros (laneTrits l h j) ≥ n) ∧
    (i = 64 → ∀ j, j < 64 → ¬ trailingZeros (laneTrits l h j) ≥ n) :=
  P6_checkV1 l h n i hn hc

/-- soundness of the returned nonce, for any monotone score. -/
theorem returned_nonce_meets_target {F : Type} [LE F] (le_trans : ∀ a b c : F, a ≤ b → b ≤ c → a ≤ c)
    (sc : Nat → F) (mono : ∀ a b, a ≤ b → sc a ≤ sc b) (target : F) (req : Nat) (hreq : req ≤ 243)
    (hsat : target ≤ sc req) (l h : Planes) (hacc : checkV1 l h req < 64) :
    target ≤ sc (trailingZeros (laneTrits l h (checkV1 l h req))) :=
  checkV1_mine_sound le_trans sc mono target req hreq hsat l h hacc

/-- single worker, with `req` the least zero count whose score reaches the target (0 for every target
that any nonce satisfies — so trivially low targets are served by the very first nonce). -/
theorem single_worker_mining {F : Type} [LE F] (le_trans : ∀ a b c : F, a ≤ b → b ≤ c → a ≤ c)
    (sc : Nat → F) (mono : ∀ a b, a ≤ b → sc a ≤ sc b) (target : F) (req : Nat) (hreq : req ≤ 243)
    (hsat : target ≤ sc req) (hleast : ∀ z, z < req → ¬ target ≤ sc z)
    (planes : Nat → Planes × Planes) (fuel k b i : Nat)
    (hm : mineSeq (fun l h => checkV1 l h req) planes fuel k = some (b, i)) :
    k ≤ b ∧ i < 64 ∧ target ≤ sc (trailingZeros (laneTrits (planes b).1 (planes b).2 i)) ∧
    ∀ b', k ≤ b' → b' < b → ∀ j, j < 64 → ¬ target ≤ sc (trailingZeros (laneTrits (planes b').1 (planes b').2 j)) :=
  mineSeq_v1 le_trans sc mono target req hreq hsat hleast planes fuel k b i hm

/-- with zero required zeros every lane qualifies: lane 0 of the first block is returned (no crash, no search). -/
theorem trivially_low_target (l h : Planes) : checkV1 l h 0 = 0 := by
  have h0 := P6_checkV1 l h 0 (checkV1 l h 0) (by omega) rfl
  rcases Nat.lt_or_ge (checkV1 l h 0) 64 with hlt | hge
  · have := (h0.2.1 hlt).2
    rcases Nat.eq_zero_or_pos (checkV1 l h 0) with hz | hp
    · exact hz
    · exact absurd (Nat.zero_le _) (this 0 hp)
  · have h64 : checkV1 l h 0 = 64 := by omega
    exact absurd (Nat.zero_le _) (h0.2.2 h64 0 (by omega))

/-! ### up to `Score(data ‖ nonce)` (see the corresponding section of Props/C12.lean for the modelling and the one
hypothesis `BctFaithful` about the external batched sponge) -/
open Iota.PowScore Iota.Proofs.PowScore in
/-- a nonce returned by a v1 worker started anywhere is the FIRST nonce in its scan order whose hash has at least z
trailing zero trits … -/
theorem worker_returns_first_qualifying (slice : (Fin 64 → List Int) → Planes × Planes) (hslice : BctFaithful slice)
    (digest : List UInt8) (start fuel z n : Nat) (hz : z ≤ 243)
    (hw : worker slice (testV1 z) digest start fuel = some n) :
    ∃ k, k < 64 * fuel ∧ n = (start + k) % 2 ^ 64 ∧ z ≤ trailingZeros (hashTrits digest n) ∧
      ∀ k', k' < k → ¬ z ≤ trailingZeros (hashTrits digest ((start + k') % 2 ^ 64)) :=
  worker_v1 slice hslice digest start fuel z n hz hw

open Iota.PowScore Iota.Proofs.PowScore in
/-- … hence, for any monotone score (the abstraction of `math.Pow(3, z)/len`), `Score(data ‖ nonce) ≥ target` whenever the
required zero count z satisfies `target ≤ sc z` (which is how the repaired `Mine` chooses z). -/
theorem returned_nonce_scores {F : Type} [LE F] (le_trans : ∀ a b c : F, a ≤ b → b ≤ c → a ≤ c)
    (sc : Nat → Nat → F) (mono : ∀ len a b, a ≤ b → sc len a ≤ sc len b)
    (slice : (Fin 64 → List Int) → Planes × Planes) (hslice : BctFaithful slice)
    (H : List UInt8 → List UInt8) (data : List UInt8) (target : F) (z start fuel n : Nat) (hz : z ≤ 243)
    (hsat : target ≤ sc (data.length + 8) z)
    (hw : worker slice (testV1 z) (H data) start fuel = some n) :
    target ≤ ScoreV1 sc H data n ∧ target ≤ ScoreMsgV1 sc H (data ++ nonceBytes n) :=
  mine_v1_score le_trans sc mono slice hslice H data target z start fuel n hz hsat hw

/-! ### non-vacuity -/
example : trailingZeros [1, 0, -1, 0, 0] = 2 ∧ trailingZeros [0, 0] = 2 ∧ trailingZeros [0, 1] = 0 := by decide
example : checkV1 (Vector.replicate 243 allOnes) (Vector.replicate 243 allOnes) 243 = 0 := by decide +kernel

end Iota.Props.C11
