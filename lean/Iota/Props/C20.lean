/-
C20 — assembly and portable Curl permutations both equal Curl-P-81.
 * Iota/Model/AsmSem.lean: small-step semantics of the Go-assembler subset (tagged pointers, every
   memory access bounds- and alignment-checked against the buffer the pointer belongs to, `fault`
   on anything else) — part of the trusted base, exercised by the correspondence run against the CPU.
 * Iota/Model/AsmProgram.lean: the instruction list (Tie/Curl proves it equals the list regenerated
   from transform_amd64.s on every run).
 * Iota/Proofs/AsmCurl*: symbolic execution, loop invariants, 81-round induction.
 * Iota/Proofs/Curl/{Walk,Transform,Lanes}: the portable Go loop and the lane-level meaning.
-/
import Iota.Proofs.AsmCurl
import Iota.Proofs.Curl

namespace Iota.Props.C20
open Iota.Curl Iota.Spec.CurlW Iota.Asm Iota.Proofs.Curl

/-- the assembly routine, on every contents of the four buffers: terminates without fault — every read
and write was inside one of the four 729-word buffers, 8-byte aligned — after exactly `fuelNeeded`
steps, leaving 81 closed-form rounds in the to-buffers and 80 in the from-buffers. -/
theorem asm_is_81_rounds (lto hto lfrom hfrom : Plane) (fuel : Nat) (h : Proofs.AsmCurl.fuelNeeded ≤ fuel) :
    runProgram lto hto lfrom hfrom fuel = .done
      { lto := (roundsW 81 (lfrom, hfrom)).1, hto := (roundsW 81 (lfrom, hfrom)).2,
        lfrom := (roundsW 80 (lfrom, hfrom)).1, hfrom := (roundsW 80 (lfrom, hfrom)).2 } :=
  Proofs.AsmCurl.asm_transform_ge lto hto lfrom hfrom fuel h

/-- the assembly and the portable Go permutation write the same result, on every state. -/
theorem asm_eq_portable (lto hto lfrom hfrom : Plane) :
    ∃ b : Bufs, transformGeneric { lto := lto, hto := hto, lfrom := lfrom, hfrom := hfrom } = some b ∧
      runProgram lto hto lfrom hfrom Proofs.AsmCurl.fuelNeeded =
        .done { lto := b.lto, hto := b.hto, lfrom := b.lfrom, hfrom := b.hfrom } := by
  refine ⟨_, transformGeneric_eq _, ?_⟩
  exact Proofs.AsmCurl.asm_transform_fuel lto hto lfrom hfrom

/-- what the common result means: in each of the 64 bit lanes, for ARBITRARY words (valid encodings or
not), 81 rounds of the Curl-P round function on that lane's (l,h) bit pairs … -/
theorem lanes_of_rounds (l h : Plane) (n : Nat) {j i : Nat} (hj : j < 64) (hi : i < 729) :
    lanePair (roundsW n (l, h)).1 (roundsW n (l, h)).2 j i = pairRounds n (lanePair l h j) i :=
  roundsW_lanePair n l h j hj i hi

/-- … where the bit-pair function is the Curl-P truth table on the three valid encodings of a trit. -/
theorem pair_function_is_truth_table (a b : Bool × Bool) (ha : validPair a) (hb : validPair b) :
    validPair (fPair a b) ∧ tritOf (fPair a b) = Spec.CurlP.f (tritOf a) (tritOf b) :=
  fPair_valid a b ha hb

/-- fewer steps do not finish: the routine executes exactly `fuelNeeded` = 664 935 instructions. -/
theorem asm_step_count (lto hto lfrom hfrom : Plane) (fuel : Nat) (h : fuel < Proofs.AsmCurl.fuelNeeded) :
    runProgram lto hto lfrom hfrom fuel = .outOfFuel :=
  Proofs.AsmCurl.asm_transform_lt lto hto lfrom hfrom fuel h

/-! ### non-vacuity -/
example : Proofs.AsmCurl.fuelNeeded = 5 + 81 * (15 + 182 * 45 + 4) + 1 := by decide
example : Iota.Asm.program.length = 70 := by decide

end Iota.Props.C20
