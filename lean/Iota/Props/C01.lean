/-
C01 — Ed25519 `Verify` accepts exactly the ZIP-215 signature set.

Model: `Iota/Model/Ed25519.lean` (`verify`: the byte-level logic of pkg/ed25519/ed25519.go:Verify) over
an abstract curve library `EdLib G`; proofs: `Iota/Proofs/Ed/{Bytes,Lawful,Verify}.lean`.
PARTIAL in one respect, stated in every theorem: filippo.io/edwards25519 and crypto/sha512 are not
verified; their group law and codec contracts are the hypothesis `Lawful lib` (and `Cofactor lib`
where the hash scalar is left unreduced).  The correspondence run instantiates `lib` with a concrete
Lean implementation of the curve and of SHA-512 and compares verdicts with the real package.
-/
import Iota.Proofs.Ed
import Iota.Proofs.Ed.Witness2

namespace Iota.Props.C01
open Iota.Proofs.Ed
open Iota.Edwards (Bytes leNat leBytes L)
open Iota.Ed25519 (EdLib uniformScalar)

variable {G : Type} [AddCommGroup G] {lib : EdLib G}

/-- **the iff**: for every 32-byte key, message and signature, `Verify` returns true exactly when the
signature is 64 bytes, `S < L`, key and `R` decode, and `[8][S]B = [8]R + [8][k]A` with `k` from SHA-512
over the bytes as given; otherwise it returns false. -/
theorem verify_iff_zip215 (h : Lawful lib) (pk msg sig : Bytes) (hpk : pk.length = 32) :
    (Iota.Ed25519.verify lib pk msg sig = some true ↔
      sig.length = 64 ∧ leNat (sig.drop 32) < L ∧
        ∃ A R, lib.decode pk = some A ∧ lib.decode (sig.take 32) = some R ∧
          (8 : ℕ) • (leNat (sig.drop 32) • lib.base) =
            (8 : ℕ) • R + (8 : ℕ) • (uniformScalar (lib.sha512 (sig.take 32 ++ pk ++ msg)) • A)) ∧
    (Iota.Ed25519.verify lib pk msg sig = some false ↔ ¬ Zip215 lib pk msg sig) :=
  E1_verify h pk msg sig hpk

omit [AddCommGroup G] in
/-- the only other outcome is the documented panic on a key that is not 32 bytes. -/
theorem verify_panics_iff (pk msg sig : Bytes) :
    Iota.Ed25519.verify lib pk msg sig = none ↔ pk.length ≠ 32 := E1_verify_panic pk msg sig

/-- with cofactor 8 the hash may equally be read as the unreduced 512-bit integer. -/
theorem verify_iff_zip215_unreduced (h : Lawful lib) (hc : Cofactor lib) (pk msg sig : Bytes)
    (hpk : pk.length = 32) :
    Iota.Ed25519.verify lib pk msg sig = some true ↔
      sig.length = 64 ∧ leNat (sig.drop 32) < L ∧
        ∃ A R, lib.decode pk = some A ∧ lib.decode (sig.take 32) = some R ∧
          (8 : ℕ) • (leNat (sig.drop 32) • lib.base) =
            (8 : ℕ) • R + (8 : ℕ) • (leNat (lib.sha512 (sig.take 32 ++ pk ++ msg)) • A) :=
  E1_unreduced h hc pk msg sig hpk

/-- the top-bits pre-check of `S` never rejects a canonical scalar (so it only short-cuts). -/
theorem precheck_is_implied (sig : Bytes) (hlen : sig.length = 64) (hS : leNat (sig.drop 32) < L) :
    (sig.getD 63 0) &&& 224 = 0 := E1_precheck sig hlen hS

/-- **malleability**: a valid `S` plus any non-zero multiple of the order is rejected. -/
theorem s_plus_multiple_of_order_rejected (h : Lawful lib) (pk msg sig : Bytes) (hpk : pk.length = 32)
    (S j : ℕ) (hj : 1 ≤ j) (hS : leNat (sig.drop 32) = S + j * L) :
    Iota.Ed25519.verify lib pk msg sig = some false := E1_malleability h pk msg sig hpk S j hj hS

/-- **everything crypto/ed25519 accepts is accepted** (the cofactorless check with encoded comparison). -/
theorem std_accepted_is_accepted (h : Lawful lib) (pk msg sig : Bytes)
    (hstd : stdVerify lib pk msg sig = true) : Iota.Ed25519.verify lib pk msg sig = some true :=
  E1_inclusion h pk msg sig hstd

/-- **small-order components do not matter** when the cofactored equation still holds: the equation
sees `A` and `R` only through `[8]A`, `[8]R` … -/
theorem torsion_invisible (S k : ℕ) (A R T T' : G) (hT : (8 : ℕ) • T = 0) (hT' : (8 : ℕ) • T' = 0) :
    (Zip215Eq lib S k A R ↔ (8 : ℕ) • (S • lib.base) = (8 : ℕ) • R + k • ((8 : ℕ) • A)) ∧
    (Zip215Eq lib S k (A + T) (R + T') ↔ Zip215Eq lib S k A R) := E1_torsion S k A R T T' hT hT'

/-- … and so do the verdicts, for key encodings of `A` and `A + T` (given the same hash scalar, which is
computed from the bytes) and for `R` halves encoding `R` and `R + T'`. -/
theorem torsion_verdicts (h : Lawful lib) (pk pk' msg sig sig' : Bytes) (hpk : pk.length = 32)
    (hpk' : pk'.length = 32) :
    (∀ A T, lib.decode pk = some A → lib.decode pk' = some (A + T) → (8 : ℕ) • T = 0 →
      hramScalar lib pk msg sig = hramScalar lib pk' msg sig →
      (Iota.Ed25519.verify lib pk msg sig = some true ↔ Iota.Ed25519.verify lib pk' msg sig = some true)) ∧
    (sig.length = 64 → sig'.length = 64 → sig.drop 32 = sig'.drop 32 →
      ∀ R T', lib.decode (sig.take 32) = some R → lib.decode (sig'.take 32) = some (R + T') →
      (8 : ℕ) • T' = 0 → hramScalar lib pk msg sig = hramScalar lib pk msg sig' →
      (Iota.Ed25519.verify lib pk msg sig = some true ↔ Iota.Ed25519.verify lib pk msg sig' = some true)) :=
  ⟨fun A T hA hA' hT hk => verify_torsion_key h pk pk' msg sig hpk hpk' A T hA hA' hT hk,
   fun hl hl' hSS R T' hR hR' hT' hk => verify_torsion_R h pk msg sig sig' hpk hl hl' hSS R T' hR hR' hT' hk⟩

/-! ### non-vacuity: the hypotheses are satisfiable — `Iota.Proofs.Ed.Witness` builds a lawful library -/
example : ∃ (G : Type) (_ : AddCommGroup G) (lib : EdLib G), Lawful lib ∧ Cofactor lib := lawful_witness

/-- … and the torsion theorems are witnessed with T ≠ 0: a lawful cofactor-8 library (over ℤ/8L) with an 8-torsion
point T ≠ 0 on which, for every honest key and message, two different key encodings (of A and A + T) with the same hash
scalar both make `verify` accept while the cofactorless check accepts only the first — the ZIP-215 set is strictly
larger than crypto/ed25519's — and likewise for R versus R + T. -/
theorem torsion_nonvacuous :
    ∃ (G : Type) (_ : AddCommGroup G) (lib : EdLib G) (T : G),
      Lawful lib ∧ Cofactor lib ∧ (8 : ℕ) • T = 0 ∧ T ≠ 0 ∧
      (∃ (S k : ℕ) (A R : G), Zip215Eq lib S k A R ∧ Zip215Eq lib S k (A + T) R ∧
        S • lib.base = R + k • A ∧ S • lib.base ≠ R + k • (A + T)) ∧
      (∀ (x : ℕ) (msg : Bytes), ∃ (pk pk' sig : Bytes),
        pk.length = 32 ∧ pk'.length = 32 ∧ pk ≠ pk' ∧
        lib.decode pk = some (x • lib.base) ∧ lib.decode pk' = some (x • lib.base + T) ∧
        hramScalar lib pk msg sig = hramScalar lib pk' msg sig ∧
        Iota.Ed25519.verify lib pk msg sig = some true ∧ Iota.Ed25519.verify lib pk' msg sig = some true ∧
        stdVerify lib pk msg sig = true ∧ stdVerify lib pk' msg sig = false) :=
  let ⟨G, i, lib, T, h1, h2, h3, h4, h5, h6, _⟩ := lawful_witness_torsion
  ⟨G, i, lib, T, h1, h2, h3, h4, h5, h6⟩

end Iota.Props.C01
