/-
C17 — the secp256k1 curve implements the group law for all points and scalars.
Model: Iota/Model/Secp256k1.lean (the Go `math/big` code on `Int`, with every `Mod`, conditional `+P`
and the special cases added by the F6 repair).  Specification: Mathlib's group of nonsingular points of
the Weierstrass curve y² = x³ + 7 over `ZMod P` (`WeierstrassCurve.Affine.Point`, an `AddCommGroup`).
NO assumption is left: that P = 2^256 − 2^32 − 977 is prime — which makes `ZMod P` a field — is itself proved
(`Iota/Proofs/Primes.lean`: Pratt certificates through Mathlib's `lucas_primality`, every numeric side condition
evaluated by the kernel), and so are the primality of the group order N and that the base point has order
exactly N (`Iota/Proofs/Secp/Order.lean`: `[N]G = 0` by kernel evaluation of the model's own double-and-add).
Proofs: Iota/Proofs/Secp/* (modular inverse, ring-hom layer, Jacobian formulas incl. all special cases, API).
-/
import Iota.Proofs.Secp
import Iota.Proofs.Primes
import Iota.Proofs.Secp.Order

namespace Iota.Props.C17
open Iota.Secp256k1 Iota.Proofs.Secp WeierstrassCurve.Affine

-- `Fact (Nat.Prime P.toNat)` is the global instance of Iota/Proofs/Primes.lean: none of the theorems below has a hypothesis about P.

/-- the points the API talks about: `(0,0)` is the identity (as crypto/elliptic prescribes); otherwise
coordinates in `[0, P)` on the curve. -/
theorem representable_iff (x y : Int) :
    (∃ Q, toPoint (x, y) = some Q) ↔
      (x = 0 ∧ y = 0) ∨ ((0 ≤ x ∧ x < P) ∧ (0 ≤ y ∧ y < P) ∧ isOnCurve x y = true) :=
  toPoint_isSome_iff x y

/-- `Add` returns the group sum for ALL points P, Q — including P = Q, P = −Q and the identity —
without panicking (`some`), with a representable result. -/
theorem add_is_group_add {x1 y1 x2 y2 : Int} {Q1 Q2 : Curve.Point}
    (h1 : toPoint (x1, y1) = some Q1) (h2 : toPoint (x2, y2) = some Q2) :
    ∃ x3 y3, add x1 y1 x2 y2 = some (x3, y3) ∧ toPoint (x3, y3) = some (Q1 + Q2) :=
  add_spec h1 h2

/-- `Double` returns the double. -/
theorem double_is_group_double {x y : Int} {Q : Curve.Point} (h : toPoint (x, y) = some Q) :
    ∃ x3 y3, double x y = some (x3, y3) ∧ toPoint (x3, y3) = some (Q + Q) :=
  double_spec h

/-- `ScalarMult` returns the corresponding multiple for EVERY scalar byte string (zero, values at or above
the group order, any length, leading zeros) and every base point including the identity. -/
theorem scalarMult_is_nsmul {x y : Int} {Q : Curve.Point} (h : toPoint (x, y) = some Q) (k : List UInt8) :
    ∃ x' y', scalarMult x y k = some (x', y') ∧ toPoint (x', y') = some (beNat k • Q) :=
  scalarMult_spec h k

theorem scalarBaseMult_is_nsmul (k : List UInt8) :
    ∃ x' y', scalarBaseMult k = some (x', y') ∧ toPoint (x', y') = some (beNat k • G Fp) :=
  scalarBaseMult_spec k

/-- the identity is returned as `(0,0)` and only the identity is. -/
theorem identity_is_zero_zero (x y : Int) : toPoint (x, y) = some 0 ↔ x = 0 ∧ y = 0 :=
  toPoint_eq_zero_iff x y

/-- results are determined by the group element and have coordinates in `[0, P)`. -/
theorem results_canonical {x y x' y' : Int} {Q : Curve.Point} (h : toPoint (x, y) = some Q)
    (h' : toPoint (x', y') = some Q) : x = x' ∧ y = y' := toPoint_inj h h'

theorem results_reduced {x y : Int} {Q : Curve.Point} (h : toPoint (x, y) = some Q) :
    (0 ≤ x ∧ x < P) ∧ (0 ≤ y ∧ y < P) := toPoint_range h

/-- for all integers — hence for coordinates in `[0, p)` — `IsOnCurve` holds exactly for the affine
solutions of y² = x³ + 7; `(0,0)` is not one. -/
theorem isOnCurve_iff (x y : Int) : isOnCurve x y = true ↔ (y : Fp) ^ 2 = (x : Fp) ^ 3 + 7 :=
  isOnCurve_correct x y

/-- the modular inverse used by the conversion back to affine coordinates never fails on a nonzero z. -/
theorem mod_inverse_total (g : Int) (hg : g % P ≠ 0) :
    ∃ zi, modInverse g P = some zi ∧ 0 ≤ zi ∧ zi < P ∧ (zi * g) % P = 1 :=
  modInverse_prime (by decide +kernel) (by decide +kernel) Fact.out hg

/-- P and N are prime, and the base point generates a group of order exactly N. -/
theorem constants_prime : Nat.Prime P.toNat ∧ Nat.Prime N.toNat := ⟨Iota.Proofs.Primes.prime_P, Iota.Proofs.Primes.prime_N⟩

theorem base_point_order : N.toNat • G Fp = 0 ∧ G Fp ≠ 0 ∧ addOrderOf (G Fp) = N.toNat :=
  ⟨N_smul_G, G_ne_zero, addOrderOf_G⟩

/-! ### non-vacuity -/
example : isOnCurve Gx Gy = true ∧ isOnCurve 0 0 = false := by decide +kernel
example : toPoint (Gx, Gy) = some (G Fp) := toPoint_G

end Iota.Props.C17
