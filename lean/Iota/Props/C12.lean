/-
C12 — PoW v2 Mine is sound and never passes over a clearly qualifying nonce.
Model: Iota/Model/Pow.lean (integer and bit-plane logic of pkg/pow/v2); proofs: Iota/Proofs/Pow/*.
The hash of each lane is data here (the planes `CopyState` leaves behind); that those planes hold the
Curl-P-81 hashes of the 64 nonces is the business of iota.go's curl/bct (external; see Tie/Pow and the
correspondence run, which re-scores every returned nonce through an independent Lean pipeline).
-/
import Iota.Proofs.Pow
import Iota.Proofs.PowScore

namespace Iota.Props.C12
open Iota.Pow Iota.Proofs.Pow

/-- the big constants are what the comments say. -/
theorem constants : maxHash = 3 ^ 243 ∧ uint64Radix = 3 ^ 40 := P1_constants

/-- `toInt` reads the hash as a little-endian base-3 number (digit 2 for trit −1) plus one; no `uint64`
in the 40-trit chunk loop overflows. -/
theorem toInt_is_base3_plus_one (trits : List Int) (hlen : trits.length = 243)
    (hv : ∀ t ∈ trits, t = -1 ∨ t = 0 ∨ t = 1) :
    toInt trits = digitsVal trits + 1 ∧ 1 ≤ toInt trits ∧ toInt trits ≤ 3 ^ 243 ∧
    (∀ i, chunkValue ((trits.drop (i * 40)).take 40) + 1 ≤ 3 ^ 40) ∧ 3 ^ 40 < 2 ^ 64 :=
  P2_toInt trits hlen hv

/-- Score = ⌊d / length⌋ saturated at 2^64 − 1, with d = ⌊3^243 / h⌋. -/
theorem score_formula (trits : List Int) (msgLen : Nat) (h : 1 ≤ msgLen) :
    score trits msgLen = min (maxHash / toInt trits / msgLen) (2 ^ 64 - 1) := P3_score trits msgLen h

/-- `sufficientTrailingZeros` is the least s with 3^s ≥ len·t, computed without `uint64` overflow. -/
theorem sufficient_is_least (lx : Nat) (h1 : 1 ≤ lx) (hlx : lx < 2 ^ 64) :
    let s := sufficientTrailingZeros lx
    3 ^ s ≥ lx ∧ (∀ s', s' < s → 3 ^ s' < lx) ∧ s ≤ 41 ∧ (lx ≥ 8 → s ≥ 2) ∧
    (∀ s', s' ≤ 40 → 3 ^ s' ≤ 3 ^ 40) ∧ 3 ^ 40 < 2 ^ 64 ∧ sufficientLoopU64 lx 41 0 1 = s :=
  P4_sufficientTrailingZeros lx h1 hlx

/-- the lane test, for ALL 64-lane bit-plane states (valid encodings or not), message lengths and
targets with 8 ≤ len·t < 2^64: a returned lane qualifies (soundness) and a lane whose difficulty
strictly exceeds len·t is never passed over. -/
theorem lane_test (l h : Planes) (lx : Nat) (h8 : 8 ≤ lx) (hlx : lx < 2 ^ 64) :
    let hLane := stateToInt l h
    let i := checkV2 l h (sufficientTrailingZeros lx) (targetHash lx)
    (∀ j, 1 ≤ hLane j ∧ hLane j ≤ 3 ^ 243) ∧ i ≤ 64 ∧
    (i < 64 → maxHash / hLane i ≥ lx) ∧
    ((∃ j, j < 64 ∧ maxHash / hLane j > lx) → i < 64) ∧
    (∀ len t, 1 ≤ len → lx = len * t → i < 64 → score (laneTrits l h i) len ≥ t) :=
  P5_checkV2 l h lx h8 hlx

/-- single worker: the nonce returned lies in the first block whose lane test succeeds; its score meets
the target and no earlier block of 64 nonces holds a nonce whose difficulty strictly exceeds len·t. -/
theorem single_worker_mining (planes : Nat → Planes × Planes) (lx len t : Nat) (h8 : 8 ≤ lx) (hlx : lx < 2 ^ 64)
    (hlen : 1 ≤ len) (hlt : lx = len * t) (fuel k b i : Nat)
    (hm : mineSeq (fun l h => checkV2 l h (sufficientTrailingZeros lx) (targetHash lx)) planes fuel k = some (b, i)) :
    k ≤ b ∧ i < 64 ∧ t ≤ score (laneTrits (planes b).1 (planes b).2 i) len ∧
    lx ≤ maxHash / stateToInt (planes b).1 (planes b).2 i ∧
    ∀ b', k ≤ b' → b' < b → ∀ j, j < 64 → maxHash / stateToInt (planes b').1 (planes b').2 j ≤ lx :=
  mineSeq_v2 planes lx len t h8 hlx hlen hlt fuel k b i hm

/-! ### up to `Score(data ‖ nonce)`
`Iota/Model/PowScore.lean` models what the integer core above abstracts from: the nonce of lane i in batch b of a worker
started at `start` is `(start + 64·b + i) mod 2^64`; the hashed block is b1t6(digest) ‖ b1t6(nonce, 8 bytes little-endian)
‖ 000; the hash is one absorb and one squeeze of the single-lane Curl-P-81 specification; `ScoreV2`/`ScoreMsgV2` is
`Score` on data ‖ nonce.  The ONE hypothesis about iota.go's batched sponge `curl/bct` (external) is `BctFaithful slice`:
the planes it leaves are the bit-slicing of the 64 lane hashes — satisfiable (`sliceOf_faithful`).  (That `Score` itself
hashes with iota.go's single-lane `curl`, read here as the Curl-P-81 specification, is the second reliance on iota.go.)
`Mine` returns a nonce some worker returned (`Iota.Props.C13.outcome`), and worker i starts at i·⌊(2^64−1)/W⌋: hence an
arbitrary `start`. Proofs: `Iota/Proofs/PowScore.lean`. -/
open Iota.PowScore Iota.Proofs.PowScore in
/-- **soundness at Score level, any worker**: a nonce returned by a worker's loop scores at least t. -/
theorem returned_nonce_scores (slice : (Fin 64 → List Int) → Planes × Planes) (hslice : BctFaithful slice)
    (H : List UInt8 → List UInt8) (data : List UInt8) (t start fuel n : Nat)
    (ht : 1 ≤ t) (hlx : (data.length + 8) * t < 2 ^ 64)
    (hw : worker slice (testV2 ((data.length + 8) * t)) (H data) start fuel = some n) :
    t ≤ ScoreV2 H data n ∧ t ≤ ScoreMsgV2 H (data ++ nonceBytes n) :=
  mine_v2_score slice hslice H data t start fuel n ht hlx hw

open Iota.PowScore Iota.Proofs.PowScore in
/-- **no pass-over at nonce level, single worker** (start 0): no nonce of an earlier 64-block has difficulty above len·t. -/
theorem single_worker_no_passover (slice : (Fin 64 → List Int) → Planes × Planes) (hslice : BctFaithful slice)
    (digest : List UInt8) (fuel lx len t n : Nat) (hfuel : fuel ≤ 2 ^ 58) (h8 : 8 ≤ lx) (hlx : lx < 2 ^ 64)
    (hlen : 1 ≤ len) (hlt : lx = len * t)
    (hw : worker slice (testV2 lx) digest 0 fuel = some n) :
    n < 64 * fuel ∧ t ≤ score (hashTrits digest n) len ∧
      ∀ m, m / 64 < n / 64 → difficulty (hashTrits digest m) ≤ lx :=
  worker_v2_first slice hslice digest fuel lx len t n hfuel h8 hlx hlen hlt hw

open Iota.PowScore Iota.Proofs.PowScore in
theorem bct_hypothesis_satisfiable : BctFaithful sliceOf := sliceOf_faithful

/-! ### non-vacuity -/
example : sufficientTrailingZeros 8 = 2 ∧ sufficientTrailingZeros 9 = 2 ∧ sufficientTrailingZeros 10 = 3 ∧
    sufficientTrailingZeros (2^64 - 1) = 41 := by decide +kernel
example : toInt (List.replicate 243 0) = 1 ∧ toInt (List.replicate 243 (-1)) = 3 ^ 243 := by decide +kernel
-- all-zero hashes in every lane: lane 0 is returned
example : checkV2 (Vector.replicate 243 allOnes) (Vector.replicate 243 allOnes) 2 (targetHash 8) = 0 := by
  decide +kernel

end Iota.Props.C12
