/-
Model of pkg/slip10/elliptic/internal/btccurve/secp256k1.go (and its exported twin
pkg/slip10/btccurve/secp256k1.go): the `math/big` arithmetic on `Int`, every `Mod`, conditional
`+P` and un-reduced intermediate as written (after the repair of finding F6).  `Mod` is Go's
Euclidean modulus (`%` on `Int`).  A `nil` result of `ModInverse` would be dereferenced by the Go
code: `none` stands for that panic.  Core Lean only.
-/
namespace Iota.Secp256k1

def P : Int := 0xFFFFFFFFFFFFFFFFFFFFFFFFFFFFFFFFFFFFFFFFFFFFFFFFFFFFFFFEFFFFFC2F
def N : Int := 0xFFFFFFFFFFFFFFFFFFFFFFFFFFFFFFFEBAAEDCE6AF48A03BBFD25E8CD0364141
def B : Int := 7
def Gx : Int := 0x79BE667EF9DCBBAC55A06295CE870B07029BFCDB2DCE28D959F2815B16F81798
def Gy : Int := 0x483ADA7726A3C4655DA4FBFC0E1108A8FD17B448A68554199C47D08FFB10D4B8

/-- extended Euclid: `(g, s)` with `g = gcd a b` and `s·a ≡ g (mod b)`; `fuel` bounds the steps. -/
def egcd : Nat → Int → Int → Int → Int → Int × Int
  | 0, r0, _, s0, _ => (r0, s0)
  | fuel + 1, r0, r1, s0, s1 =>
    if r1 = 0 then (r0, s0) else egcd fuel r1 (r0 % r1) s1 (s0 - (r0 / r1) * s1)

/-- `new(big.Int).ModInverse(g, n)` for `n > 0`: the inverse in `[0, n)`, or `none` (Go returns nil)
when `g` and `n` are not coprime. -/
def modInverse (g n : Int) : Option Int :=
  let r := egcd 1024 (g % n) n 1 0
  if r.1 = 1 then some (r.2 % n) else none

/-- `IsOnCurve`. -/
def isOnCurve (x y : Int) : Bool :=
  let y2 := (y * y) % P
  let x3 := (x * x * x + B) % P
  x3 == y2

/-- `affineFromJacobian`; `none` = nil dereference. -/
def affineFromJacobian (x y z : Int) : Option (Int × Int) :=
  if z = 0 then some (0, 0) else
  match modInverse z P with
  | none => none
  | some zinv =>
    let zinvsq := zinv * zinv
    some ((x * zinvsq) % P, (y * (zinvsq * zinv)) % P)

def zForAffine (x y : Int) : Int := if x ≠ 0 ∨ y ≠ 0 then 1 else 0

/-- `doubleJacobian` (dbl-2009-l, a = 0). -/
def doubleJacobian (x y z : Int) : Int × Int × Int :=
  let a := x * x
  let b := y * y
  let c := b * b
  let d := ((x + b) * (x + b) - a - c) * 2
  let e := 3 * a
  let f := e * e
  let x3 := (f - 2 * d) % P
  let y3 := (e * (d - x3) - 8 * c) % P
  let z3 := (2 * (y * z)) % P
  (x3, y3, z3)

/-- `addJacobian` (add-2007-bl with the special cases). -/
def addJacobian (x1 y1 z1 x2 y2 z2 : Int) : Int × Int × Int :=
  if z1 = 0 then (x2, y2, z2)
  else if z2 = 0 then (x1, y1, z1)
  else
    let z1z1 := (z1 * z1) % P
    let z2z2 := (z2 * z2) % P
    let u1 := (x1 * z2z2) % P
    let u2 := (x2 * z1z1) % P
    let h0 := u2 - u1
    let h := if h0 < 0 then h0 + P else h0
    let i := (h * 2) * (h * 2)
    let j := h * i
    let s1 := (y1 * z2 * z2z2) % P
    let s2 := (y2 * z1 * z1z1) % P
    let r0 := s2 - s1
    let r1 := if r0 < 0 then r0 + P else r0
    if h = 0 ∧ r1 = 0 then doubleJacobian x1 y1 z1
    else
      let r := r1 * 2
      let v := u1 * i
      let x3 := (r * r - j - v - v) % P
      let y3 := (r * (v - x3) - (s1 * j) * 2) % P
      let z30 := (z1 + z2) * (z1 + z2) - z1z1
      let z31 := if z30 < 0 then z30 + P else z30
      let z32 := z31 - z2z2
      let z33 := if z32 < 0 then z32 + P else z32
      let z3 := (z33 * h) % P
      (x3, y3, z3)

def add (x1 y1 x2 y2 : Int) : Option (Int × Int) :=
  let r := addJacobian x1 y1 (zForAffine x1 y1) x2 y2 (zForAffine x2 y2)
  affineFromJacobian r.1 r.2.1 r.2.2

def double (x1 y1 : Int) : Option (Int × Int) :=
  let r := doubleJacobian x1 y1 (zForAffine x1 y1)
  affineFromJacobian r.1 r.2.1 r.2.2

/-- the bits of the scalar bytes, most significant first. -/
def bitsOfBytes (k : List UInt8) : List Bool :=
  k.flatMap fun b => (List.range 8).map fun i => (b.toNat >>> (7 - i)) % 2 = 1

/-- the double-and-add loop of `ScalarMult`. -/
def scalarLoop (bx by_ bz : Int) : List Bool → Int × Int × Int → Int × Int × Int
  | [], acc => acc
  | bit :: bits, (x, y, z) =>
    let d := doubleJacobian x y z
    let a := if bit then addJacobian bx by_ bz d.1 d.2.1 d.2.2 else d
    scalarLoop bx by_ bz bits a

def scalarMult (bx by_ : Int) (k : List UInt8) : Option (Int × Int) :=
  let r := scalarLoop bx by_ (zForAffine bx by_) (bitsOfBytes k) (0, 0, 0)
  affineFromJacobian r.1 r.2.1 r.2.2

def scalarBaseMult (k : List UInt8) : Option (Int × Int) := scalarMult Gx Gy k

end Iota.Secp256k1
