/-
Support definitions for Go code translated AS CODE by cmd/extract (loops*.go).  Core Lean only.

* `Flow ρ σ` is the outcome of a statement list inside a function with result type `ρ`: it ran to its end
  with state `σ` (`run`), it executed `return r` (`done`), or it hit a Go run-time panic (`panic`: index out
  of range, slice bounds out of range, negative shift count).  `forIn` / `whileFuel` are the loops over such
  statement lists; they stop at the first `done` / `panic`.  `Flow.result` is the outcome of the whole
  function body: `none` = the Go function panics.
* `forInB` / `whileFuelB` are these loops for bodies that contain `break`: the body yields its state together with
  a flag, `true` = a `break` was executed.
* `forUp` / `forDown` are the index lists of three-clause loops, `trailingZeros64` is `math/bits.TrailingZeros`
  and `bitsLen64` is `math/bits.Len` on a 64-bit `uint`.
-/
namespace Iota.Go

inductive Flow (ρ σ : Type) where
  /-- the statements ran to their end; `s` is the tuple of the variables they assign -/
  | run (s : σ)
  /-- a `return r` was executed -/
  | done (r : ρ)
  /-- a run-time panic occurred -/
  | panic

namespace Flow

/-- sequencing: continue with `f` only after a normal end -/
def bind {ρ σ τ : Type} (x : Flow ρ σ) (f : σ → Flow ρ τ) : Flow ρ τ :=
  match x with
  | .run s => f s
  | .done r => .done r
  | .panic => .panic

/-- the outcome of a function body (whose statement list ends in `return`): `none` = panic -/
def result {ρ : Type} : Flow ρ ρ → Option ρ
  | .run r => some r
  | .done r => some r
  | .panic => none

end Flow

/-- `for … range l { body }`: the body is run on the elements of `l` in order, starting from state `s`,
until it returns or panics -/
def forIn {α ρ σ : Type} : List α → σ → (σ → α → Flow ρ σ) → Flow ρ σ
  | [], s, _ => .run s
  | a :: l, s, f => (f s a).bind (fun s' => forIn l s' f)

/-- `for cond { body }` with at most `fuel` iterations.  The translator only emits it for loops whose
condition is `len(x) >= c` (c ≥ 1) and whose body removes at least one element of `x` in every iteration
that ends normally, with `fuel` = the length of `x` at loop entry: then the condition is false when the
fuel is used up, so the bound is never what ends the loop. -/
def whileFuel {ρ σ : Type} (cond : σ → Bool) (body : σ → Flow ρ σ) : Nat → σ → Flow ρ σ
  | 0, s => .run s
  | fuel + 1, s => if cond s then (body s).bind (whileFuel cond body fuel) else .run s

/-- `forIn` for a body that may `break`: the body yields `(true, s)` after a `break` (the loop ends with state `s`)
and `(false, s)` at its normal end (the loop goes on) -/
def forInB {α ρ σ : Type} : List α → σ → (σ → α → Flow ρ (Bool × σ)) → Flow ρ σ
  | [], s, _ => .run s
  | a :: l, s, f => (f s a).bind (fun r => if r.1 then .run r.2 else forInB l r.2 f)

/-- `whileFuel` for a body that may `break` (as `forInB`).  Emitted under the same conditions as `whileFuel`: every
iteration that ends normally, without `break`, has removed at least one element of the slice whose length is the fuel. -/
def whileFuelB {ρ σ : Type} (cond : σ → Bool) (body : σ → Flow ρ (Bool × σ)) : Nat → σ → Flow ρ σ
  | 0, s => .run s
  | fuel + 1, s =>
    if cond s then (body s).bind (fun r => if r.1 then .run r.2 else whileFuelB cond body fuel r.2) else .run s

/-- an `int` index `i` is within `0 … n-1` -/
def inRangeS (i : BitVec 64) (n : Nat) : Bool := !i.msb && decide (i.toNat < n)
/-- a `uint` index `i` is within `0 … n-1` -/
def inRangeU (i : BitVec 64) (n : Nat) : Bool := decide (i.toNat < n)
/-- an `int` lower bound `i` of `x[i:]` is within `0 … n` -/
def sliceFromS (i : BitVec 64) (n : Nat) : Bool := !i.msb && decide (i.toNat ≤ n)
/-- a `uint` lower bound `i` of `x[i:]` is within `0 … n` -/
def sliceFromU (i : BitVec 64) (n : Nat) : Bool := decide (i.toNat ≤ n)
/-- an `int` shift count is not negative -/
def nonneg (i : BitVec 64) : Bool := !i.msb

/-- the values of `i` in `for i := a; i < b; i += k` (`incl`: `i <= b`), compared as `int` (`signed`) or
`uint`; `k ≥ 1`.  The translator only emits it where `i += k` cannot wrap around before the condition
fails (k = 1 with `<`, or a constant `b` far enough from the largest value), so the list is
`a, a+k, a+2k, …` as long as the condition holds, and the loop terminates. -/
def forUp (signed incl : Bool) (a b : BitVec 64) (k : Nat) : List (BitVec 64) :=
  let enter : Bool :=
    if signed then (if incl then a.sle b else a.slt b) else (if incl then a.ule b else a.ult b)
  if enter then
    let d : Nat := (b - a).toNat
    let n : Nat := if incl then d / k + 1 else (d + k - 1) / k
    (List.range n).map (fun m => a + BitVec.ofNat 64 (m * k))
  else []

/-- the values of `i` in `for i := a; i > b; i -= k` (`incl`: `i >= b`); as `forUp`. -/
def forDown (signed incl : Bool) (a b : BitVec 64) (k : Nat) : List (BitVec 64) :=
  let enter : Bool :=
    if signed then (if incl then b.sle a else b.slt a) else (if incl then b.ule a else b.ult a)
  if enter then
    let d : Nat := (a - b).toNat
    let n : Nat := if incl then d / k + 1 else (d + k - 1) / k
    (List.range n).map (fun m => a - BitVec.ofNat 64 (m * k))
  else []

/-! The step-by-step meaning of a three-clause loop header, against which `forUp` / `forDown` are proved correct
(`Iota/Tie/GoFlow.lean`: `forUp_sound`, `forDown_sound`). -/

/-- the values of `i` in `for i := a; cond(i); i = step(i)`, as executed: at most `fuel` of them -/
def loopIdx (cond : BitVec 64 → Bool) (step : BitVec 64 → BitVec 64) : Nat → BitVec 64 → List (BitVec 64)
  | 0, _ => []
  | fuel + 1, i => if cond i then i :: loopIdx cond step fuel (step i) else []


/-- the loop condition `i < b` (`incl`: `i <= b`) on `int` (`signed`) or `uint` -/
def cmpUp (signed incl : Bool) (b : BitVec 64) (i : BitVec 64) : Bool :=
  if signed then (if incl then i.sle b else i.slt b) else (if incl then i.ule b else i.ult b)


/-- the loop condition `i > b` (`incl`: `i >= b`) -/
def cmpDown (signed incl : Bool) (b : BitVec 64) (i : BitVec 64) : Bool :=
  if signed then (if incl then b.sle i else b.slt i) else (if incl then b.ule i else b.ult i)


/-- `math/bits.TrailingZeros(x)` for a 64-bit `uint`: the index of the lowest 1 bit, 64 for `x = 0` -/
def trailingZeros64 (x : BitVec 64) : BitVec 64 :=
  BitVec.ofNat 64 (((List.range 64).find? fun i => x.getLsbD i).getD 64)

/-- `math/bits.Len(x)` for a 64-bit `uint`: the minimum number of bits required to represent `x`, i.e. 64 minus the
number of leading zeros (the index of the highest 1 bit plus one); 0 for `x = 0` -/
def bitsLen64 (x : BitVec 64) : BitVec 64 :=
  BitVec.ofNat 64 ((((List.range 64).reverse.find? fun i => x.getLsbD i).map (· + 1)).getD 0)

example : bitsLen64 0#64 = 0#64 := by decide
example : bitsLen64 5#64 = 3#64 := by decide
example : bitsLen64 (BitVec.ofInt 64 (-1)) = 64#64 := by decide

/-- `copy(dst, src)`: the content of `dst` afterwards (the first `min (len dst) (len src)` elements are those of `src`) -/
def copy {α : Type} (dst src : List α) : List α := src.take dst.length ++ dst.drop src.length

/-- Array-pointer variables that a function swaps (`p, q = q, p`) are translated as pairs (tag, content): the tag says
which of the caller's arrays the variable points to (the position of the parameter that pointed to it on entry), the
content is that array's current content.  This is sound when the caller's arrays are pairwise distinct (the ASSUMPTION
`!disjoint` under which such functions are translated) and the only assignments to these variables are swaps, so that
at any time the variables point to distinct arrays.  `byTag ps k` is the content on return of the array that the `k`-th
of these parameters pointed to on entry. -/
def byTag {α : Type} (ps : List (Nat × List α)) (k : Nat) : List α :=
  match ps.find? (fun p => p.1 == k) with
  | some p => p.2
  | none => []

/-- the outcome of a call of a translated function that may panic, inside the caller: `none` (the callee panicked)
is a panic of the caller -/
def call {ρ α : Type} : Option α → Flow ρ α
  | some a => .run a
  | none => .panic

/-- the bounds of `x[lo:hi]` (both `int`) are valid for a list of length `n`: `0 ≤ lo ≤ hi ≤ n` -/
def sliceOK (lo hi : BitVec 64) (n : Nat) : Bool :=
  !lo.msb && !hi.msb && decide (lo.toNat ≤ hi.toNat) && decide (hi.toNat ≤ n)

/-- an `int8` index `i` is within `0 … n-1` -/
def inRangeS8 (i : BitVec 8) (n : Nat) : Bool := !i.msb && decide (i.toNat < n)
/-- a `byte` index `i` is within `0 … n-1` -/
def inRangeU8 (i : BitVec 8) (n : Nat) : Bool := decide (i.toNat < n)

/-! ### `for i := range s` over a string: the byte offsets at which Go's UTF-8 decoder starts a rune

`runeWidth p` is the number of bytes `utf8.DecodeRuneInString` consumes at the start of the non-empty byte string `p`
(package unicode/utf8, tables `first` and `acceptRanges`): 1 for an ASCII byte and for every byte that does not start
a well-formed sequence (Go yields U+FFFD and advances by one byte), otherwise the length 2–4 of the sequence. -/

/-- the second byte `b1` is acceptable after the first byte `b0` of a multi-byte sequence -/
def utf8Second (b0 b1 : Nat) : Bool :=
  let lo := if b0 == 0xE0 then 0xA0 else if b0 == 0xF0 then 0x90 else 0x80
  let hi := if b0 == 0xED then 0x9F else if b0 == 0xF4 then 0x8F else 0xBF
  decide (lo ≤ b1) && decide (b1 ≤ hi)

/-- a continuation byte -/
def utf8Cont (b : Nat) : Bool := decide (0x80 ≤ b) && decide (b ≤ 0xBF)

def runeWidth (p : List (BitVec 8)) : Nat :=
  match p with
  | [] => 1
  | c0 :: rest =>
    let b0 := c0.toNat
    let size := if b0 < 0xC2 then 1 else if b0 < 0xE0 then 2 else if b0 < 0xF0 then 3 else if b0 < 0xF5 then 4 else 1
    if size == 1 then 1
    else if rest.length + 1 < size then 1
    else if !utf8Second b0 (rest.getD 0 0).toNat then 1
    else if size == 2 then 2
    else if !utf8Cont (rest.getD 1 0).toNat then 1
    else if size == 3 then 3
    else if !utf8Cont (rest.getD 2 0).toNat then 1
    else 4

/-- the offsets of the rune starts of `p`, counted from `off`; `fuel` = `p.length` suffices -/
def runeStartsFrom : Nat → Nat → List (BitVec 8) → List (BitVec 64)
  | 0, _, _ => []
  | _ + 1, _, [] => []
  | fuel + 1, off, p@(_ :: _) =>
    BitVec.ofNat 64 off :: runeStartsFrom fuel (off + runeWidth p) (p.drop (runeWidth p))

/-- the values of `i` in `for i := range s` for the string with bytes `s` -/
def runeStarts (s : List (BitVec 8)) : List (BitVec 64) := runeStartsFrom s.length 0 s

/-- `x << n` evaluated without building the intermediate `x.toNat <<< n` (which Lean's runtime refuses for huge `n`):
equal to `x <<< n` (`Iota/Tie/GoFlow.lean`: `shl_eq`).  The translator only emits it when asked to
(EXTRACT_SAFE_SHL=1, used by the random differential test of the translator, which shifts by counts up to 2^64). -/
def shl {w : Nat} (x : BitVec w) (n : Nat) : BitVec w := if w ≤ n then 0#w else x <<< n

/-- the rune Go's decoder yields at the start of the non-empty byte string `p` (U+FFFD = 65533 where `runeWidth p = 1` for a
byte ≥ 0x80: an ill-formed sequence) -/
def runeValue (p : List (BitVec 8)) : BitVec 32 :=
  let b (i : Nat) : Nat := (p.getD i 0).toNat
  match runeWidth p with
  | 2 => BitVec.ofNat 32 ((b 0 % 32) * 64 + b 1 % 64)
  | 3 => BitVec.ofNat 32 (((b 0 % 16) * 64 + b 1 % 64) * 64 + b 2 % 64)
  | 4 => BitVec.ofNat 32 ((((b 0 % 8) * 64 + b 1 % 64) * 64 + b 2 % 64) * 64 + b 3 % 64)
  | _ => if b 0 < 128 then BitVec.ofNat 32 (b 0) else 65533#32

/-- the (offset, rune) pairs of `for i, c := range s` -/
def runesFrom : Nat → Nat → List (BitVec 8) → List (BitVec 64 × BitVec 32)
  | 0, _, _ => []
  | _ + 1, _, [] => []
  | fuel + 1, off, p@(_ :: _) =>
    (BitVec.ofNat 64 off, runeValue p) :: runesFrom fuel (off + runeWidth p) (p.drop (runeWidth p))

def runes (s : List (BitVec 8)) : List (BitVec 64 × BitVec 32) := runesFrom s.length 0 s

/-! ### library functions on strings that the translator DEFINES (stage 8; a string is the list of its bytes) -/

/-- `strings.TrimPrefix(s, p)`: `s` without the leading `p` if it starts with `p`, otherwise `s` -/
def trimPrefix (s p : List (BitVec 8)) : List (BitVec 8) := if p.isPrefixOf s then s.drop p.length else s

example : trimPrefix [109#8, 47#8, 48#8] [109#8, 47#8] = [48#8] := by decide
example : trimPrefix [109#8] [109#8, 47#8] = [109#8] := by decide
example : trimPrefix [47#8, 109#8, 47#8] [109#8, 47#8] = [47#8, 109#8, 47#8] := by decide
example : trimPrefix [109#8, 47#8] [] = [109#8, 47#8] := by decide

/-! library functions the translator DEFINES since stage 9 -/

/-- `strings.HasPrefix(s, p)`: `s` starts with `p` (every string starts with the empty string) -/
def hasPrefix (s p : List (BitVec 8)) : Bool := p.isPrefixOf s

example : hasPrefix [84#8, 82#8, 65#8] [84#8, 82#8] = true := by decide
example : hasPrefix [84#8, 82#8] [84#8, 82#8] = true := by decide
example : hasPrefix [84#8] [84#8, 82#8] = false := by decide
example : hasPrefix [65#8, 84#8, 82#8] [84#8, 82#8] = false := by decide
example : hasPrefix [84#8] [] = true := by decide
example : hasPrefix [] [] = true := by decide
example : hasPrefix [] [84#8] = false := by decide

/-- `strings.HasSuffix(s, p)`: `s` ends with `p` (every string ends with the empty string) -/
def hasSuffix (s p : List (BitVec 8)) : Bool := p.isSuffixOf s

example : hasSuffix [65#8, 66#8, 57#8] [57#8] = true := by decide
example : hasSuffix [65#8, 66#8, 57#8] [66#8, 57#8] = true := by decide
example : hasSuffix [57#8] [57#8] = true := by decide
example : hasSuffix [57#8, 65#8] [57#8] = false := by decide
example : hasSuffix [57#8] [65#8, 57#8] = false := by decide
example : hasSuffix [65#8] [] = true := by decide
example : hasSuffix [] [57#8] = false := by decide

/-- `strings.TrimSuffix(s, p)`: `s` without the trailing `p` if it ends with `p`, otherwise `s` -/
def trimSuffix (s p : List (BitVec 8)) : List (BitVec 8) := if p.isSuffixOf s then s.take (s.length - p.length) else s

example : trimSuffix [65#8, 66#8, 57#8] [57#8] = [65#8, 66#8] := by decide
example : trimSuffix [65#8, 57#8, 57#8] [57#8] = [65#8, 57#8] := by decide
example : trimSuffix [65#8, 66#8, 57#8] [66#8, 57#8] = [65#8] := by decide
example : trimSuffix [57#8] [57#8] = [] := by decide
example : trimSuffix [57#8, 65#8] [57#8] = [57#8, 65#8] := by decide
example : trimSuffix [57#8] [65#8, 57#8] = [57#8] := by decide
example : trimSuffix [65#8, 57#8] [] = [65#8, 57#8] := by decide
example : trimSuffix [] [57#8] = [] := by decide

/-- `bytes.Equal(a, b)`: the same length and the same bytes (a nil slice is the empty list: nil and empty are equal) -/
def bytesEqual (a b : List (BitVec 8)) : Bool := a == b

example : bytesEqual [1#8, 2#8] [1#8, 2#8] = true := by decide
example : bytesEqual [1#8, 2#8] [1#8, 3#8] = false := by decide
example : bytesEqual [1#8, 2#8] [1#8] = false := by decide
example : bytesEqual [1#8] [1#8, 2#8] = false := by decide
example : bytesEqual [] [] = true := by decide
example : bytesEqual [] [0#8] = false := by decide

/-- `strings.Split(s, sep)` for a separator `sep` that consists of the single byte `b`: the substrings between the
occurrences of `b`, in order (one more than there are occurrences; `""` ↦ `[""]`, `"a/"` ↦ `["a", ""]`) -/
def splitByte : List (BitVec 8) → BitVec 8 → List (List (BitVec 8))
  | [], _ => [[]]
  | c :: s, b =>
    if c == b then [] :: splitByte s b
    else match splitByte s b with
      | [] => [[c]] -- not reached: the result is never empty
      | p :: ps => (c :: p) :: ps

example : splitByte [97#8, 47#8, 98#8] 47#8 = [[97#8], [98#8]] := by decide
example : splitByte [] 47#8 = [[]] := by decide
example : splitByte [97#8, 47#8] 47#8 = [[97#8], []] := by decide
example : splitByte [47#8, 47#8, 97#8] 47#8 = [[], [], [97#8]] := by decide

/-- the decimal digits of `n` in front of `acc`, least significant digit produced first; `fuel` = `n + 1` suffices -/
def decimalFuel : Nat → Nat → List (BitVec 8) → List (BitVec 8)
  | 0, _, acc => acc
  | fuel + 1, n, acc =>
    let acc := BitVec.ofNat 8 (48 + n % 10) :: acc
    if n / 10 = 0 then acc else decimalFuel fuel (n / 10) acc

/-- what the verb `%d` of package fmt prints for an unsigned integer: the ASCII decimal digits of `n`, most significant
first, without leading zeros (`"0"` for 0) -/
def decimal (n : Nat) : List (BitVec 8) := decimalFuel (n + 1) n []

example : decimal 0 = [48#8] := by decide
example : decimal 7 = [55#8] := by decide
example : decimal 1203 = [49#8, 50#8, 48#8, 51#8] := by decide
example : decimal 2147483647 = [50#8, 49#8, 52#8, 55#8, 52#8, 56#8, 51#8, 54#8, 52#8, 55#8] := by decide

/-- the (index, element) pairs of `for i, v := range xs`, the indices counted from `k` -/
def indexedFrom {α : Type} : Nat → List α → List (BitVec 64 × α)
  | _, [] => []
  | k, x :: xs => (BitVec.ofNat 64 k, x) :: indexedFrom (k + 1) xs

/-- the (index, element) pairs of `for i, v := range xs` -/
def indexed {α : Type} (xs : List α) : List (BitVec 64 × α) := indexedFrom 0 xs

example : indexed [[97#8], ([] : List (BitVec 8))] = [(0#64, [97#8]), (1#64, [])] := by decide

/-- `fmt.Errorf("…%w…", …, err, …)` with `err` a local error variable: always a non-nil error; it wraps what `err` wraps
(`some name`), and for `err == nil` it is an error that wraps nothing (the name `""`, which is no error variable) -/
def errWrap (e : Option String) : Option String := some (e.getD "")

example : errWrap (some "ErrX") = some "ErrX" := by decide
example : errWrap none = some "" := by decide

/-! ### error values with an optional position (functions that return both plain errors and `&T{err, offset}` errors) -/

/-- a plain error (`some name`) as an error with optional position -/
def errOfPlain (e : Option String) : Option (String × Option (BitVec 64)) := e.map fun n => (n, none)
/-- a positioned error as an error with optional position -/
def errOfAt (e : Option (String × BitVec 64)) : Option (String × Option (BitVec 64)) := e.map fun p => (p.1, some p.2)

/-- the name of the error variable an error with optional position wraps ("" for nil) -/
def errName (e : Option (String × Option (BitVec 64))) : String := (e.map (·.1)).getD ""
/-- its position (0 when there is none) -/
def errOff (e : Option (String × Option (BitVec 64))) : BitVec 64 := ((e.bind (·.2))).getD 0#64

/-- the same two accessors for a positioned error (functions whose errors are all `&T{err, offset}` values) -/
def errNameAt (e : Option (String × BitVec 64)) : String := (e.map (·.1)).getD ""
def errOffAt (e : Option (String × BitVec 64)) : BitVec 64 := (e.map (·.2)).getD 0#64

/-- an error that comes out of a function of ANOTHER package keeps its identity by getting that package's name in front of
the variable name ("ErrX" of package p is "p.ErrX" for the caller): two packages may both have an `ErrInvalidLength` -/
def errQual (p : String) (e : Option String) : Option String := e.map fun n => p ++ "." ++ n
def errQualAt (p : String) (e : Option (String × BitVec 64)) : Option (String × BitVec 64) := e.map fun x => (p ++ "." ++ x.1, x.2)
def errQualOpt (p : String) (e : Option (String × Option (BitVec 64))) : Option (String × Option (BitVec 64)) :=
  e.map fun x => (p ++ "." ++ x.1, x.2)

/-! ## stage 10: math/big

`*big.Int` values are `Int` (cmd/extract, loops_big.go states the ownership discipline under which that is sound).
`z.Mul / Add / Sub (x, y)` are `*`, `+`, `-` on `Int`; `z.Mod(x, m)` is `x % m` (`Int.emod`, the Euclidean modulus that
`big.Int.Mod` computes) guarded by `decide (m ≠ 0)`; the definitions below are the remaining operations. -/

/-- `x.Sign()` of a `*big.Int`: the Go `int` -1, 0 or +1 -/
def bigSign (x : Int) : BitVec 64 := BitVec.ofInt 64 x.sign

/-- `x.Cmp(y)` of `*big.Int`s: the Go `int` -1 (x < y), 0 (x = y) or +1 (x > y) -/
def bigCmp (x y : Int) : BitVec 64 := BitVec.ofInt 64 (x - y).sign

/-- `z.Lsh(x, n)`: `x << n` on a `*big.Int` is `x · 2ⁿ` (the sign is kept: big.Int shifts the magnitude) -/
def bigLsh (x : Int) (n : Nat) : Int := x * 2 ^ n

/-! ## stage 11: named types, closed interfaces -/

/-- `fmt.Errorf("…%w…", …, err, …)` with `err` a local error variable in a function whose error carrier has an optional
position: always a non-nil error; it wraps exactly what `err` wraps (the same variable name, the same offset), and for
`err == nil` it is an error that wraps nothing (the name `""`, which is no error variable, no offset) -/
def errWrapOpt (e : Option (String × Option (BitVec 64))) : Option (String × Option (BitVec 64)) :=
  some (e.getD ("", none))

example : errWrapOpt (some ("bech32.ErrInvalidChecksum", some 5#64)) = some ("bech32.ErrInvalidChecksum", some 5#64) := by decide
example : errWrapOpt (some ("ErrInvalidPrefix", none)) = some ("ErrInvalidPrefix", none) := by decide
example : errWrapOpt none = some ("", none) := by decide

/-- the carrier of a value of a CLOSED interface type of the translated package (cmd/extract, loops_iface.go): `none` is
the nil interface, `some (k, h)` a value of the `k`-th struct type of the package that implements the interface (in
order of declaration) whose single array field holds the bytes `h` -/
abbrev Iface := Option (Nat × List (BitVec 8))

/-! ## stage 12: math/big bit operations

All of them are defined for every `Int` with the meaning math/big documents (`And`, `Or`, `Rsh` treat a negative number
as its infinite two's complement; `Int.negSucc n` = `-(n+1)` = `~n`).  On non-negative arguments (`Int.ofNat`) they are
the `Nat` operations by definition. -/

/-- `z.SetBytes(b)`: the big-endian unsigned value of the bytes -/
def bigSetBytes (b : List (BitVec 8)) : Int := Int.ofNat (b.foldl (fun acc x => acc * 256 + x.toNat) 0)

/-- the minimal big-endian bytes of `n` (none for 0); `fuel ≥` the number of bytes -/
def natBytesFuel : Nat → Nat → List (BitVec 8)
  | 0, _ => []
  | fuel + 1, n => if n = 0 then [] else natBytesFuel fuel (n / 256) ++ [BitVec.ofNat 8 (n % 256)]

/-- `x.Bytes()`: the minimal big-endian bytes of the absolute value of `x`, empty for 0 (a number has at most as many
bytes as its value, so the fuel suffices) -/
def bigBytes (x : Int) : List (BitVec 8) := natBytesFuel x.natAbs x.natAbs

/-- `x.Int64()`: `x` as an `int64` when it fits; otherwise (Go: "undefined") the low 64 bits, as the implementation does -/
def bigInt64 (x : Int) : BitVec 64 := BitVec.ofInt 64 x

/-- `z.And(x, y)` -/
def bigAnd : Int → Int → Int
  | .ofNat a, .ofNat b => .ofNat (a &&& b)
  | .ofNat a, .negSucc b => .ofNat (a ^^^ (a &&& b))          -- a & ~b
  | .negSucc a, .ofNat b => .ofNat (b ^^^ (b &&& a))          -- ~a & b
  | .negSucc a, .negSucc b => .negSucc (a ||| b)               -- ~a & ~b = ~(a | b)

/-- `z.Or(x, y)` -/
def bigOr : Int → Int → Int
  | .ofNat a, .ofNat b => .ofNat (a ||| b)
  | .ofNat a, .negSucc b => .negSucc (b ^^^ (b &&& a))        -- a | ~b = ~(b & ~a)
  | .negSucc a, .ofNat b => .negSucc (a ^^^ (a &&& b))        -- ~a | b = ~(a & ~b)
  | .negSucc a, .negSucc b => .negSucc (a &&& b)               -- ~a | ~b = ~(a & b)

/-- `z.Rsh(x, n)`: the arithmetic shift (floor division by 2ⁿ) -/
def bigRsh (x : Int) (n : Nat) : Int := x >>> n

end Iota.Go
