/-
Model of pkg/merkle/merkle.go.  The hash function is a parameter `H`; a leaf is the
result of its `MarshalBinary` (`Except ε Bytes`).  Core Lean only.
-/
namespace Iota.Merkle

abbrev Bytes := List UInt8

/-- Go `bits.Len(uint(m))` for `m < 2^64`. -/
def bitsLen (m : Nat) : Nat := if m = 0 then 0 else Nat.log2 m + 1

/-- `largestPowerOfTwo(x)` for `x ≥ 2` exactly as written:
`log := bits.Len(uint(x-1)) - 1; return 1 << (log & (bits.UintSize-1))`. -/
def largestPowerOfTwo (x : Nat) : Nat := 1 <<< ((bitsLen (x - 1) - 1) &&& 63)

def hashLeaf (H : Bytes → Bytes) (b : Bytes) : Bytes := H (0 :: b)
def hashNode (H : Bytes → Bytes) (l r : Bytes) : Bytes := H (1 :: (l ++ r))

theorem lpo2_pos_lt (n : Nat) (h : 2 ≤ n) : 0 < largestPowerOfTwo n ∧ largestPowerOfTwo n < n := by
  unfold largestPowerOfTwo bitsLen
  have hne : n - 1 ≠ 0 := by omega
  simp only [hne, if_false, Nat.add_sub_cancel, Nat.shiftLeft_eq, Nat.one_mul]
  have h63 : (n - 1).log2 &&& 63 ≤ (n - 1).log2 := Nat.and_le_left
  have hle : 2 ^ ((n - 1).log2 &&& 63) ≤ 2 ^ (n - 1).log2 := Nat.pow_le_pow_right (by omega) h63
  have := Nat.log2_self_le hne
  exact ⟨Nat.pow_pos (by omega), by omega⟩

/-- `Hasher.Hash`: `ok (H [])` for no leaves, the leaf hash for one, otherwise split at
`largestPowerOfTwo n`, left subtree first; the first error encountered is returned. -/
def hash {ε : Type} (H : Bytes → Bytes) (data : List (Except ε Bytes)) : Except ε Bytes :=
  if _h0 : data.length = 0 then .ok (H [])
  else if _h1 : data.length = 1 then
    match data.head? with
    | some (.ok b) => .ok (hashLeaf H b)
    | some (.error e) => .error e
    | none => .ok (H [])
  else
    let k := largestPowerOfTwo data.length
    match hash H (data.take k) with
    | .error e => .error e
    | .ok l =>
      match hash H (data.drop k) with
      | .error e => .error e
      | .ok r => .ok (hashNode H l r)
termination_by data.length
decreasing_by
  all_goals
    have := lpo2_pos_lt data.length (by omega)
    simp only [List.length_take, List.length_drop]
    omega

end Iota.Merkle
