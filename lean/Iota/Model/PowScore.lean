/-
The link between the bit-plane core of the PoW model (`Iota/Model/Pow.lean`) and `Score(data ‖ nonce)`.

`Iota.Pow` treats the hash trits of a lane / the two bit planes of a batch as DATA.  This file models
what the data is, following `pkg/pow/{pow,worker}.go` and `pkg/pow/v2/{pow,worker}.go`:

  * `nonceBytes n`    — `binary.LittleEndian.PutUint64(nonceBuf[:], nonce)`;
  * `powBlock dg n`   — the one Curl block `buf`: `b1t6.Encode(buf, powDigest)` (6 trits per byte, 192 for a
                        32-byte digest), `encodeNonce(buf[n:], nonce)` (48 trits), the rest of the 243 trits
                        (3 for a 32-byte digest) left zero by `make`;
  * `curlHash block`  — `c := curl.NewCurlP81(); c.Absorb(buf); c.Squeeze(243)`: one absorbed block and one
                        squeezed block of the single-lane specification sponge `Iota.Spec.CurlP`;
  * `hashTrits dg n`  — the hash `trailingZeros` / `difficulty` look at;
  * `ScoreV2`, `ScoreV1`, and the byte-string forms `ScoreMsgV2`, `ScoreMsgV1` that split `msg` the way
    `Score` does;
  * `worker`          — the loop of `(*Worker).worker`: batch `b` hashes the 64 nonces
                        `startNonce + 64·b + i` (all arithmetic in `uint64`, i.e. mod 2^64), runs the lane
                        test on the planes `CopyState` leaves behind, and returns `nonce + uint64(i)` for the
                        first batch whose test yields `i < 64`.

The workers hash with iota.go's `curl/bct` (an external dependency).  It enters as a parameter:
`slice` maps the 64 single-lane hashes of a batch to the planes `(l, h)`; the ONE assumption made about
it is `BctFaithful slice`.  `sliceOf` is the obvious bit-slicing, which satisfies it
(`Iota/Proofs/PowScore.lean`).  A second, lower-level form takes the library as a map `bct` from the 64 input
BLOCKS to planes (`workerB`, `BctBlocksFaithful`), which does not presuppose that the planes depend on the
blocks only through their hashes; the `slice` form is the special case `bctOfSlice slice`.
Core Lean only.
-/
import Iota.Model.Pow
import Iota.Model.B1T6
import Iota.Spec.CurlP

namespace Iota.PowScore
open Iota.Pow Iota.Spec.CurlP

/-! ### the hashed block -/

/-- `binary.LittleEndian.PutUint64(buf, nonce)`: the 8 bytes of `n mod 2^64`, least significant first. -/
def nonceBytes (n : Nat) : List UInt8 :=
  (List.range 8).map fun k => UInt8.ofNat ((n % 2 ^ 64) / 256 ^ k % 256)

/-- `binary.LittleEndian.Uint64(bs)` (for 8 bytes). -/
def leUint64 (bs : List UInt8) : Nat := bs.foldr (fun b acc => b.toNat + 256 * acc) 0

/-- the Curl block of `trailingZeros` / `difficulty` / the worker's `buf[i]`: the b1t6 trits of the digest,
then the b1t6 trits of the little-endian nonce, then zeros up to 243 trits.  (For a digest of more than 32
bytes the Go code panics: the buffer is too short; BLAKE2b-256 digests have 32 bytes.) -/
def powBlock (digest : List UInt8) (n : Nat) : List Int :=
  let b := Iota.B1T6.encode digest ++ Iota.B1T6.encode (nonceBytes n)
  b ++ List.replicate (243 - b.length) 0

/-- `c := curl.NewCurlP81(); c.Absorb(block); c.Squeeze(243)` for a 243-trit block: one block absorbed and
one block squeezed by the single-lane specification sponge. -/
def curlHash (block : List Int) : List Int := ((Sponge.init.absorb block 1).squeeze 1).2

/-- the Curl-P-81 hash of digest ‖ nonce: Curl-P-81(b1t6(digest) ‖ b1t6(nonce LE 8 bytes) ‖ 0…0). -/
def hashTrits (digest : List UInt8) (n : Nat) : List Int := curlHash (powBlock digest n)

/-! ### Score -/

/-- v2 `Score(data ‖ nonce)`; `H` is the digest function (`blake2b.Sum256`, abstract). -/
def ScoreV2 (H : List UInt8 → List UInt8) (data : List UInt8) (n : Nat) : Nat :=
  score (hashTrits (H data) n) (data.length + 8)

/-- v2 `Score(msg)` on the byte string, split as the code does (`len(msg) ≥ 8`, else it panics). -/
def ScoreMsgV2 (H : List UInt8 → List UInt8) (msg : List UInt8) : Nat :=
  let dataLen := msg.length - 8
  score (hashTrits (H (msg.take dataLen)) (leUint64 (msg.drop dataLen))) msg.length

/-- v1 `Score(data ‖ nonce)`: `sc len z` stands for the float `math.Pow(3, z) / float64(len)`
(floats are opaque to the kernel; the theorems assume only that `sc len` is monotone). -/
def ScoreV1 {F : Type} (sc : Nat → Nat → F) (H : List UInt8 → List UInt8) (data : List UInt8) (n : Nat) : F :=
  sc (data.length + 8) (trailingZeros (hashTrits (H data) n))

/-- v1 `Score(msg)` on the byte string. -/
def ScoreMsgV1 {F : Type} (sc : Nat → Nat → F) (H : List UInt8 → List UInt8) (msg : List UInt8) : F :=
  let dataLen := msg.length - 8
  sc msg.length (trailingZeros (hashTrits (H (msg.take dataLen)) (leUint64 (msg.drop dataLen))))

/-! ### the worker loop -/

/-- the nonce hashed in lane `i` of the worker's batch number `b`: `nonce + uint64(i)` with
`nonce = startNonce + b·64`, in `uint64` arithmetic. -/
def laneNonce (start b i : Nat) : Nat := (start + 64 * b + i) % 2 ^ 64

/-- the scan of `(*Worker).worker` over batches `b, b+1, …` (at most `fuel` of them — the `done` flag may stop
the loop after any batch, which is the result `none`): `planes b` are the planes `CopyState` yields for batch
`b`; the first batch whose lane test is `< 64` decides, and the nonce of that lane is returned. -/
def scan (planes : Nat → Planes × Planes) (test : Planes → Planes → Nat) (start : Nat) : Nat → Nat → Option Nat
  | 0, _ => none
  | fuel + 1, b =>
    let i := test (planes b).1 (planes b).2
    if i < 64 then some (laneNonce start b i) else scan planes test start fuel (b + 1)

/-- the planes of batch `b` when the batched sponge is `slice` applied to the 64 lane hashes. -/
def batchPlanes (slice : (Fin 64 → List Int) → Planes × Planes) (digest : List UInt8) (start b : Nat) :
    Planes × Planes :=
  slice fun i => hashTrits digest (laneNonce start b i.val)

/-- `(*Worker).worker(powDigest, startNonce, …)` of both packages, with the lane test `test`
(`fun l h => checkV1 l h targetZeros`, resp. `fun l h => checkV2 l h sufficientTrailing target`). -/
def worker (slice : (Fin 64 → List Int) → Planes × Planes) (test : Planes → Planes → Nat)
    (digest : List UInt8) (start fuel : Nat) : Option Nat :=
  scan (batchPlanes slice digest start) test start fuel 0

/-- the trits are balanced and there are 243 of them -/
def IsHash (ts : List Int) : Prop := ts.length = 243 ∧ ∀ t ∈ ts, t = -1 ∨ t = 0 ∨ t = 1

/-- **the hypothesis about iota.go's `curl/bct`** (`Reset`, `Absorb(buf, 243)`, `CopyState(l, h)`), in the form:
the planes are the bit-slicing of the 64 lane hashes — decoding lane `i` of the planes (trit = h-bit − l-bit,
`Iota.Pow.laneTrits`) gives back hash `i`, for every family of 64 hashes. -/
def BctFaithful (slice : (Fin 64 → List Int) → Planes × Planes) : Prop :=
  ∀ f : Fin 64 → List Int, (∀ i, IsHash (f i)) →
    ∀ i : Fin 64, laneTrits (slice f).1 (slice f).2 i.val = f i

/-- the 64-bit word whose bit `j` is `p j`. -/
def wordOfBits (p : Nat → Bool) : W := (BitVec.ofBoolListLE ((List.range 64).map p)).setWidth 64

/-- the bit-slicing of 64 trit lists in the encoding of `bct` (−1 ↦ (l,h) = (1,0), 0 ↦ (1,1), 1 ↦ (0,1)):
bit `j` of `l[k]` is set iff trit `k` of lane `j` is ≤ 0, bit `j` of `h[k]` iff it is ≥ 0. -/
def sliceOf (f : Fin 64 → List Int) : Planes × Planes :=
  (Vector.ofFn fun k : Fin 243 => wordOfBits fun j => if h : j < 64 then decide ((f ⟨j, h⟩).getD k.val 0 ≤ 0) else false,
   Vector.ofFn fun k : Fin 243 => wordOfBits fun j => if h : j < 64 then decide ((f ⟨j, h⟩).getD k.val 0 ≥ 0) else false)

/-! ### the same with the library as a map from input blocks to planes -/

/-- the worker with the batched sponge as a map `bct` from the 64 input blocks `buf[0..63]` to the planes. -/
def workerB (bct : (Fin 64 → List Int) → Planes × Planes) (test : Planes → Planes → Nat)
    (digest : List UInt8) (start fuel : Nat) : Option Nat :=
  scan (fun b => bct fun i => powBlock digest (laneNonce start b i.val)) test start fuel 0

/-- the hypothesis in block form: on 64 blocks of 243 balanced trits, lane `i` of the planes decodes to the
single-lane Curl-P-81 hash of block `i`. -/
def BctBlocksFaithful (bct : (Fin 64 → List Int) → Planes × Planes) : Prop :=
  ∀ blocks : Fin 64 → List Int, (∀ i, IsHash (blocks i)) →
    ∀ i : Fin 64, laneTrits (bct blocks).1 (bct blocks).2 i.val = curlHash (blocks i)

/-- hash every lane with the single-lane sponge, then slice. -/
def bctOfSlice (slice : (Fin 64 → List Int) → Planes × Planes) (blocks : Fin 64 → List Int) : Planes × Planes :=
  slice fun i => curlHash (blocks i)

end Iota.PowScore
