/-
Abstract syntax of the Go-assembler (Plan 9, amd64) subset that occurs in
pkg/curl/transform_amd64.s.  The instruction list itself is regenerated from the .s file on every
run (Iota/Gen/CurlAsm.lean); the committed copy the proofs are about is `Iota.Asm.program` in
Iota/Model/AsmProgram.lean, and Tie/C20 proves the two equal.
Operand order is the assembler's: `OP src, dst`.
-/
namespace Iota.Asm

inductive Reg
  | AX | CX | DX | BX | SI | DI | R8 | R9 | R10 | R11 | R12 | R13 | R14 | R15 | BP | SP
deriving DecidableEq, Repr

inductive Operand
  /-- `$imm` -/
  | imm (v : Int)
  /-- a register -/
  | reg (r : Reg)
  /-- `disp(base)` or `disp(base)(index*scale)` -/
  | mem (disp : Int) (base : Reg) (index : Option Reg) (scale : Nat)
  /-- `name+off(FP)`: the argument at byte offset `off` of the frame -/
  | arg (off : Nat)
deriving DecidableEq, Repr

inductive Instr
  | movq (src dst : Operand)
  | xorq (src dst : Operand)
  | andq (src dst : Operand)
  | orq (src dst : Operand)
  | notq (dst : Operand)
  | addq (src dst : Operand)
  | subq (src dst : Operand)
  /-- `CMPQ a, b` (Go operand order: flags of `a - b`; `JL` then jumps when `a < b` signed) -/
  | cmpq (a b : Operand)
  | decq (dst : Operand)
  | xchgq (a b : Operand)
  | jl (label : Nat)
  | jnz (label : Nat)
  | label (id : Nat)
  | ret
deriving DecidableEq, Repr

end Iota.Asm
