/-
Model of pkg/bip39/mnemonic.go and of MnemonicToSeed (bip39.go).
`strings.Fields` is modelled on bytes: a separator is any byte position at which the UTF-8 encoding
of a `unicode.IsSpace` code point starts (the lead bytes of those encodings never occur as
continuation bytes, so scanning bytes and scanning runes — invalid bytes being width-1 non-space
runes — split identically).  NFKD normalisation (`x/text/unicode/norm`) and PBKDF2-HMAC-SHA512 are
parameters.  Core Lean only.
-/
import Iota.Model.Bip39

namespace Iota.Mnemonic
open Iota.Bip39

/-- byte length of the `unicode.IsSpace` rune encoded at the head of `s` (0 if none):
U+0009–U+000D, U+0020, U+0085, U+00A0, U+1680, U+2000–U+200A, U+2028, U+2029, U+202F, U+205F, U+3000. -/
def spaceLen : Bytes → Nat
  | 0x09 :: _ | 0x0A :: _ | 0x0B :: _ | 0x0C :: _ | 0x0D :: _ | 0x20 :: _ => 1
  | 0xC2 :: 0x85 :: _ | 0xC2 :: 0xA0 :: _ => 2
  | 0xE1 :: 0x9A :: 0x80 :: _ => 3
  | 0xE2 :: 0x80 :: c :: _ =>
    if (0x80 ≤ c.toNat ∧ c.toNat ≤ 0x8A) ∨ c = 0xA8 ∨ c = 0xA9 ∨ c = 0xAF then 3 else 0
  | 0xE2 :: 0x81 :: 0x9F :: _ => 3
  | 0xE3 :: 0x80 :: 0x80 :: _ => 3
  | _ => 0

/-- `strings.Fields`: `cur` is the field being collected (reversed). `fuel` ≥ length of `s`. -/
def fieldsAux : Nat → Bytes → Bytes → List Bytes
  | 0, _, cur => if cur.isEmpty then [] else [cur.reverse]
  | _ + 1, [], cur => if cur.isEmpty then [] else [cur.reverse]
  | fuel + 1, c :: cs, cur =>
    let n := spaceLen (c :: cs)
    if n = 0 then fieldsAux fuel cs (c :: cur)
    else
      let rest := fieldsAux fuel ((c :: cs).drop n) []
      if cur.isEmpty then rest else cur.reverse :: rest

def fields (s : Bytes) : List Bytes := fieldsAux (s.length + 1) s []

/-- `Mnemonic.String` / `strings.Join(ms, " ")`. -/
def join : List Bytes → Bytes
  | [] => []
  | [w] => w
  | w :: ws => w ++ 0x20 :: join ws

/-- `ParseMnemonic(s)` with the NFKD map as a parameter. -/
def parseMnemonic (nfkd : Bytes → Bytes) (s : Bytes) : List Bytes := fields (nfkd s)

/-- "mnemonic" -/
def saltPrefix : Bytes := [109, 110, 101, 109, 111, 110, 105, 99]

/-- `MnemonicToSeed`: validation by `MnemonicToEntropy`, then
PBKDF2-HMAC-SHA512(password = words joined by one space, salt = "mnemonic" ++ NFKD(passphrase), 2048, 64). -/
def mnemonicToSeed (H : Bytes → Bytes) (W : List Word) (nfkd : Bytes → Bytes)
    (pbkdf2 : Bytes → Bytes → Nat → Nat → Bytes) (mnemonic : List Word) (passphrase : Bytes) : Except Err Bytes :=
  match mnemonicToEntropy H W mnemonic with
  | .error e => .error e
  | .ok _ => .ok (pbkdf2 (join mnemonic) (saltPrefix ++ nfkd passphrase) 2048 64)

end Iota.Mnemonic
