/-
Model of pkg/encoding/b1t6/b1t6.go and pkg/encoding/b1t8/b1t8.go (and of the
textually identical iota.go/encoding/b1t6 used by pow and migration).

Trits are `Int` (Go `int8`).  b1t6 documents inputs outside {-1,0,1} as
undefined, so its theorems carry `ValidTrits`; b1t8.Decode is defined on every
int8 and is modelled on all of them.
Core Lean only.
-/
namespace Iota.B1T6

/-- Go `int8(b)` as an integer. -/
def int8OfByte (b : UInt8) : Int :=
  if b.toNat < 128 then (b.toNat : Int) else (b.toNat : Int) - 256

/-- Go `byte(v)` for `-128 ≤ v ≤ 127`. -/
def byteOfInt8 (v : Int) : UInt8 := UInt8.ofNat (v % 256).toNat

/-- `encodeGroup` as written: offset division by 27. Returns tryte values (t1, t2). -/
def encodeGroup (b : UInt8) : Int × Int :=
  let v : Int := int8OfByte b + (27 / 2) * 27 + 27 / 2
  let quo := v / 27
  let rem := v % 27
  (rem + (-13), quo + (-13))

/-- `decodeGroup` as written. -/
def decodeGroup (t1 t2 : Int) : Option UInt8 :=
  let v := t1 + t2 * 27
  if v < -128 ∨ v > 127 then none else some (byteOfInt8 v)

/-- `trinary.TryteValueToTritsLUT` (index = value + 13). -/
def tryteValueToTritsLUT : List (List Int) :=
  [[-1,-1,-1],[0,-1,-1],[1,-1,-1],[-1,0,-1],[0,0,-1],[1,0,-1],
   [-1,1,-1],[0,1,-1],[1,1,-1],[-1,-1,0],[0,-1,0],[1,-1,0],
   [-1,0,0],[0,0,0],[1,0,0],[-1,1,0],[0,1,0],[1,1,0],
   [-1,-1,1],[0,-1,1],[1,-1,1],[-1,0,1],[0,0,1],[1,0,1],
   [-1,1,1],[0,1,1],[1,1,1]]

/-- `trinary.TryteValueToTyteLUT` (index = value + 13). -/
def tryteValueToTryteLUT : List UInt8 :=
  [78,79,80,81,82,83,84,85,86,87,88,89,90,57,65,66,67,68,69,70,71,72,73,74,75,76,77]

/-- `trinary.TryteToTryteValueLUT` (index = char - '9'). -/
def tryteToTryteValueLUT : List Int :=
  [0,0,0,0,0,0,0,0,1,2,3,4,5,6,7,8,9,10,11,12,13,
   -13,-12,-11,-10,-9,-8,-7,-6,-5,-4,-3,-2,-1]

/-- `trinary.MustPutTryteTrits`: the three trits of a tryte value in [-13,13]. -/
def tryteTrits (v : Int) : List Int :=
  (tryteValueToTritsLUT.getD (v + 13).toNat [])

/-- `trinary.MustTritsToTryteValue`. -/
def tritsToTryteValue (a b c : Int) : Int := a + b * 3 + c * 9

/-- `trinary.MustTryteValueToTryte` for v in [-13,13]. -/
def tryteChar (v : Int) : UInt8 := tryteValueToTryteLUT.getD (v + 13).toNat 0

/-- `trinary.MustTryteToTryteValue` for a character in `[9A-Z]`. -/
def tryteValue (c : UInt8) : Int := tryteToTryteValueLUT.getD (c.toNat - 57) 0

def isTryteChar (c : UInt8) : Bool := c == 57 || (65 ≤ c.toNat && c.toNat ≤ 90)

/-- the six trits written for one byte by `Encode`. -/
def encodeByte (b : UInt8) : List Int :=
  let g := encodeGroup b
  tryteTrits g.1 ++ tryteTrits g.2

/-- `Encode` (the trits written to dst[0:6n]). -/
def encode (src : List UInt8) : List Int := src.flatMap encodeByte

/-- the two characters written for one byte by `EncodeToTrytes`. -/
def encodeByteTrytes (b : UInt8) : List UInt8 :=
  let g := encodeGroup b
  [tryteChar g.1, tryteChar g.2]

/-- `EncodeToTrytes`. -/
def encodeToTrytes (src : List UInt8) : List UInt8 := src.flatMap encodeByteTrytes

inductive Err | invalidTrits | invalidLength
deriving DecidableEq, Repr

/-- `Decode`: bytes written before stopping (Go's `n`) and the error, in Go's order:
groups are scanned first, the length remainder is examined afterwards. -/
def decode : List Int → List UInt8 × Option Err
  | t0 :: t1 :: t2 :: t3 :: t4 :: t5 :: rest =>
    match decodeGroup (tritsToTryteValue t0 t1 t2) (tritsToTryteValue t3 t4 t5) with
    | none => ([], some .invalidTrits)
    | some b => let r := decode rest; (b :: r.1, r.2)
  | [] => ([], none)
  | _ => ([], some .invalidLength)

/-- group loop of `DecodeTrytes` over the tryte values of the characters. -/
def decodeValues : List Int → List UInt8 × Option Err
  | v1 :: v2 :: rest =>
    match decodeGroup v1 v2 with
    | none => ([], some .invalidTrits)
    | some b => let r := decodeValues rest; (b :: r.1, r.2)
  | [] => ([], none)
  | _ => ([], some .invalidLength)

/-- `DecodeTrytes` (returns nil on error, so only the error is observable). -/
def decodeTrytesAux (src : List UInt8) : List UInt8 × Option Err :=
  decodeValues (src.map tryteValue)

def decodeTrytes (src : List UInt8) : Except Err (List UInt8) :=
  match decodeTrytesAux src with
  | (bs, none) => .ok bs
  | (_, some e) => .error e

/-- trits → trytes (`trinary.MustTritsToTrytes`) on whole triples. -/
def tritsToTrytes : List Int → List UInt8
  | a :: b :: c :: rest => tryteChar (tritsToTryteValue a b c) :: tritsToTrytes rest
  | _ => []

def ValidTrit (t : Int) : Prop := t = -1 ∨ t = 0 ∨ t = 1
instance (t : Int) : Decidable (ValidTrit t) := by unfold ValidTrit; infer_instance
def ValidTrits (ts : List Int) : Prop := ∀ t ∈ ts, ValidTrit t

end Iota.B1T6

namespace Iota.B1T8

/-- the eight trits written for one byte. -/
def encodeByte (b : UInt8) : List Int :=
  [ ((b &&& 0x01) >>> 0).toNat, ((b &&& 0x02) >>> 1).toNat, ((b &&& 0x04) >>> 2).toNat,
    ((b &&& 0x08) >>> 3).toNat, ((b &&& 0x10) >>> 4).toNat, ((b &&& 0x20) >>> 5).toNat,
    ((b &&& 0x40) >>> 6).toNat, ((b &&& 0x80) >>> 7).toNat ]

def encode (src : List UInt8) : List Int := src.flatMap encodeByte

inductive Err | invalidTrit | invalidLength
deriving DecidableEq, Repr

/-- Go `uint(int8 t) > 1`, i.e. t is neither 0 nor 1 (negative values wrap to huge). -/
def badTrit (t : Int) : Bool := !(t == 0 || t == 1)

/-- inner loop of `Decode`: fold eight trits into a byte, `none` on a bad trit. -/
def packByte (ts : List Int) : Option UInt8 :=
  if ts.any badTrit then none
  else some (UInt8.ofNat ((List.range 8).foldl (fun acc j => acc ||| ((ts.getD j 0).toNat <<< j)) 0))

/-- `Decode`: bytes written (Go's `n`) and the error, remainder scanned for a bad
trit before the bad length is reported. -/
def decode : List Int → List UInt8 × Option Err
  | t0 :: t1 :: t2 :: t3 :: t4 :: t5 :: t6 :: t7 :: rest =>
    match packByte [t0,t1,t2,t3,t4,t5,t6,t7] with
    | none => ([], some .invalidTrit)
    | some b => let r := decode rest; (b :: r.1, r.2)
  | [] => ([], none)
  | rem => if rem.any badTrit then ([], some .invalidTrit) else ([], some .invalidLength)

end Iota.B1T8
