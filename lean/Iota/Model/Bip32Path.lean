/-
Model of pkg/bip32path/path.go.  Strings are byte lists (Go strings are bytes;
every function used here — TrimPrefix, Split, the ASCII-only regexp `(\d+)([H']?)`,
strconv.ParseUint — works on bytes).  Core Lean only.
-/
namespace Iota.Bip32Path

abbrev Str := List UInt8

def chSlash : UInt8 := 47
def chM : UInt8 := 109
def chH : UInt8 := 72
def chApos : UInt8 := 39

def hardened : Nat := 2 ^ 31

def isDigit (c : UInt8) : Bool := decide (48 ≤ c.toNat) && decide (c.toNat ≤ 57)

/-- `strings.Split(s, "/")`: first component and the remaining ones. -/
def splitAux : Str → Str × List Str
  | [] => ([], [])
  | c :: cs =>
    let r := splitAux cs
    if c = chSlash then ([], r.1 :: r.2) else (c :: r.1, r.2)

def split (s : Str) : List Str := (splitAux s).1 :: (splitAux s).2

/-- `strings.TrimPrefix(s, "m/")`. -/
def trimPrefixM (s : Str) : Str :=
  if s.take 2 = [chM, chSlash] then s.drop 2 else s

/-- value of an ASCII digit.  (Irreducible only to keep Lean's equation-lemma generation for the
recursive functions below from unfolding `Nat.sub`; proofs `unfold` it where needed.) -/
@[irreducible] def digitVal (c : UInt8) : Nat := c.toNat - 48

/-- decimal reading of a digit string (most significant first). -/
def decValueAux (acc : Nat) : Str → Nat
  | [] => acc
  | c :: cs => decValueAux (acc * 10 + digitVal c) cs

def decValue (ds : Str) : Nat := decValueAux 0 ds

/-- `strconv.ParseUint(ds, 10, 31)` on a non-empty string of ASCII digits: the decimal
value, or a range error when it does not fit 31 bits. -/
def parseUint31 (ds : Str) : Option Nat :=
  if decValue ds < 2 ^ 31 then some (decValue ds) else none

/-- one path component: the leftmost match of `(\d+)([H']?)` must be the whole component. -/
def parseKey (key : Str) : Option Nat :=
  let ds := key.takeWhile isDigit
  let rest := key.dropWhile isDigit
  if ds.isEmpty then none
  else if rest = [] then parseUint31 ds
  else if rest = [chH] ∨ rest = [chApos] then (parseUint31 ds).map (· + hardened)
  else none

def mapKeys : List Str → Option (List Nat)
  | [] => some []
  | k :: ks =>
    match parseKey k with
    | none => none
    | some v => match mapKeys ks with
      | none => none
      | some vs => some (v :: vs)

/-- `ParsePath`; `none` = an error is returned (the model never panics). -/
def parsePath (s : Str) : Option (List Nat) :=
  if s = [] ∨ s = [chM] then some []
  else mapKeys (split (trimPrefixM s))

/-- decimal digits of `n`, most significant first (`%d`). `fuel` ≥ number of digits. -/
def decDigitsAux : Nat → Nat → Str
  | 0, _ => []
  | fuel + 1, n => if n < 10 then [UInt8.ofNat (48 + n)] else decDigitsAux fuel (n / 10) ++ [UInt8.ofNat (48 + n % 10)]

/-- `%d` of a value below 2^32 (at most 10 digits). -/
def decDigits (n : Nat) : Str := decDigitsAux 10 n

def printKey (idx : Nat) : Str :=
  chSlash :: (decDigits (idx % hardened) ++ (if idx ≥ hardened then [chApos] else []))

/-- `Path.String`. -/
def printPath (p : List Nat) : Str := chM :: p.flatMap printKey

end Iota.Bip32Path
