/-
Affine short-Weierstrass arithmetic from scratch (y² = x³ + ax + b over a prime field), used by the
driver as the oracle for NIST P-256 (crypto/elliptic, external) and as a second opinion for
secp256k1.  (0,0) stands for the point at infinity.  Core Lean only.
-/
import Iota.Model.Edwards

namespace Iota.WeierOracle
open Iota.Edwards (powMod)

structure Params where
  p : Nat
  a : Nat
  b : Nat
  gx : Nat
  gy : Nat
  n : Nat

def p256 : Params where
  p := 0xffffffff00000001000000000000000000000000ffffffffffffffffffffffff
  a := 0xffffffff00000001000000000000000000000000fffffffffffffffffffffffc
  b := 0x5ac635d8aa3a93e7b3ebbd55769886bc651d06b0cc53b0f63bce3c3e27d2604b
  gx := 0x6b17d1f2e12c4247f8bce6e563a440f277037d812deb33a0f4a13945d898c296
  gy := 0x4fe342e2fe1a7f9b8ee7eb4a7c0f9e162bce33576b315ececbb6406837bf51f5
  n := 0xffffffff00000000ffffffffffffffffbce6faada7179e84f3b9cac2fc632551

def secp256k1 : Params where
  p := 0xFFFFFFFFFFFFFFFFFFFFFFFFFFFFFFFFFFFFFFFFFFFFFFFFFFFFFFFEFFFFFC2F
  a := 0
  b := 7
  gx := 0x79BE667EF9DCBBAC55A06295CE870B07029BFCDB2DCE28D959F2815B16F81798
  gy := 0x483ADA7726A3C4655DA4FBFC0E1108A8FD17B448A68554199C47D08FFB10D4B8
  n := 0xFFFFFFFFFFFFFFFFFFFFFFFFFFFFFFFEBAAEDCE6AF48A03BBFD25E8CD0364141

def add (c : Params) (P Q : Nat × Nat) : Nat × Nat :=
  let p := c.p
  if P = (0, 0) then Q else if Q = (0, 0) then P else
  let (x1, y1) := P
  let (x2, y2) := Q
  if x1 = x2 ∧ (y1 + y2) % p = 0 then (0, 0) else
  let lam :=
    if x1 = x2 then (3 * x1 * x1 + c.a) % p * powMod (2 * y1) (p - 2) p % p
    else (y2 + p - y1) % p * powMod ((x2 + p - x1) % p) (p - 2) p % p
  let x3 := (lam * lam + 2 * p - x1 - x2) % p
  let y3 := (lam * ((x1 + p - x3) % p) + p - y1) % p
  (x3, y3)

def mul (c : Params) (k : Nat) (P : Nat × Nat) : Nat × Nat := Id.run do
  let mut acc : Nat × Nat := (0, 0)
  let mut base := P
  let mut k := k
  for _ in [0:600] do
    if k = 0 then break
    if k % 2 = 1 then acc := add c acc base
    base := add c base base
    k := k / 2
  return acc

def baseMul (c : Params) (k : Nat) : Nat × Nat := mul c k (c.gx, c.gy)

end Iota.WeierOracle
