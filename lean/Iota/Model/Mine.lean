/-
Transition system of one `Mine` call (pkg/pow/worker.go and pkg/pow/v2/worker.go share this
synchronisation skeleton), parametric in the worker count `W`.

Threads: `main` (the caller), the cancellation `watcher`, `W` workers, and the environment step
`cancel`.  Shared state: the atomic `done` flag, the `results` channel (buffered, capacity `W`), the
`closing` channel, the context, the WaitGroup counter.  A worker's batch outcome is nondeterministic
(`some nonce` / `none`), so every hash behaviour is covered.  `founds` is a ghost list of every nonce
some worker found.  Core Lean only.
-/
namespace Iota.Mine

/-- program counter of a worker goroutine -/
inductive WPc
  | idle                    -- not spawned yet
  | loop                    -- at `atomic.LoadUint32(done)` in the for condition
  | batch                   -- the load returned 0: hashing one batch of 64 nonces
  | found (n : Nat)         -- worker returned a nonce: about to `atomic.StoreUint32(&done, 1)`
  | send (n : Nat)          -- about to `results <- nonce`
  | exiting (sent : Bool)   -- about to run the deferred `wg.Done()`
  | exited (sent : Bool)
deriving DecidableEq, Repr

/-- program counter of the caller -/
inductive MPc
  | start                   -- about to `go watcher`
  | spawn (k : Nat)         -- `k` workers spawned so far (wg.Add(1); go …)
  | wait                    -- at `wg.Wait()`
  | closeResults
  | closeClosing
  | recv                    -- at `nonce, ok := <-results`
  | returned (r : Option Nat)   -- `some n` = (n, nil); `none` = ErrCancelled
deriving DecidableEq, Repr

/-- program counter of the watcher goroutine -/
inductive TPc
  | idle
  | select                  -- blocked in `select { <-ctx.Done() / <-closing }`
  | store                   -- the ctx arm fired: about to `atomic.StoreUint32(&done, 1)`
  | exited
deriving DecidableEq, Repr

structure State where
  done : Bool
  results : List Nat
  resultsClosed : Bool
  closingClosed : Bool
  ctx : Bool
  wg : Nat
  main : MPc
  watcher : TPc
  workers : List WPc
  founds : List Nat
deriving DecidableEq, Repr

def init (W : Nat) : State :=
  { done := false, results := [], resultsClosed := false, closingClosed := false, ctx := false, wg := 0,
    main := .start, watcher := .idle, workers := List.replicate W .idle, founds := [] }

inductive Label
  | main                               -- the caller takes its next step
  | watcherCtx                         -- the watcher's `<-ctx.Done()` arm fires
  | watcherClosing                     -- the watcher's `<-closing` arm fires
  | watcherStore
  | worker (i : Nat) (outcome : Option Nat)   -- worker `i` takes its next step (`outcome` is used by a batch)
  | cancel                             -- the environment cancels the context
deriving DecidableEq, Repr

def setWorker (s : State) (i : Nat) (pc : WPc) : State := { s with workers := s.workers.set i pc }

/-- one step; `none` = the step is not enabled in this state. `W` = `numWorkers` = capacity of `results`. -/
def step (W : Nat) (s : State) : Label → Option State
  | .cancel => if s.ctx then none else some { s with ctx := true }
  | .main =>
    match s.main with
    | .start => if s.watcher = .idle then some { s with main := .spawn 0, watcher := .select } else none
    | .spawn k =>
      if k < W then
        if s.workers.getD k (.exited false) = .idle then
          some { (setWorker s k .loop) with main := .spawn (k + 1), wg := s.wg + 1 }
        else none
      else some { s with main := .wait }
    | .wait => if s.wg = 0 then some { s with main := .closeResults } else none
    | .closeResults => some { s with main := .closeClosing, resultsClosed := true }
    | .closeClosing => some { s with main := .recv, closingClosed := true }
    | .recv =>
      match s.results with
      | n :: rest => some { s with main := .returned (some n), results := rest }
      | [] => if s.resultsClosed then some { s with main := .returned none } else none
    | .returned _ => none
  | .watcherCtx => if s.watcher = .select ∧ s.ctx then some { s with watcher := .store } else none
  | .watcherClosing => if s.watcher = .select ∧ s.closingClosed then some { s with watcher := .exited } else none
  | .watcherStore => if s.watcher = .store then some { s with watcher := .exited, done := true } else none
  | .worker i outcome =>
    if i < W then
      match s.workers.getD i .idle with
      | .idle => none
      | .loop => some (setWorker s i (if s.done then .exiting false else .batch))
      | .batch =>
        match outcome with
        | none => some (setWorker s i .loop)
        | some n => some { (setWorker s i (.found n)) with founds := n :: s.founds }
      | .found n => some { (setWorker s i (.send n)) with done := true }
      | .send n =>
        if s.results.length < W ∧ ¬ s.resultsClosed then
          some { (setWorker s i (.exiting true)) with results := s.results ++ [n] }
        else none   -- a full channel blocks; a send on a closed channel would panic
      | .exiting sent => if 0 < s.wg then some { (setWorker s i (.exited sent)) with wg := s.wg - 1 } else none
      | .exited _ => none
    else none

/-- run a sequence of labels; `none` if some step is not enabled. -/
def run (W : Nat) : State → List Label → Option State
  | s, [] => some s
  | s, l :: ls => match step W s l with
    | some s' => run W s' ls
    | none => none

/-- the states a `Mine` call can reach. -/
def Reachable (W : Nat) (s : State) : Prop := ∃ ls, run W (init W) ls = some s

/-- some step is enabled. -/
def Enabled (W : Nat) (s : State) : Prop := ∃ l s', step W s l = some s'

/-! ### what `Mine` does before the protocol starts (no goroutine exists yet)

v1 computes the required number of trailing zeros first: if no hash can reach the target (a score above
3^243/len, NaN) it waits for the context to be cancelled and returns the cancellation error.
v2 returns nonce 0 for target 0 and validates the target (documented panic when len·target overflows 64 bits)
before anything is started. Otherwise the protocol above runs. -/
inductive Preamble
  | protocol
  | trivial (nonce : Nat)
  | waitCancel
  | invalidTarget
deriving DecidableEq, Repr

def preambleV1 (attainable : Bool) : Preamble := if attainable then .protocol else .waitCancel

def preambleV2 (targetZero targetFits : Bool) : Preamble :=
  if targetZero then .trivial 0 else if targetFits then .protocol else .invalidTarget

/-- result of a call that stays in the preamble, given whether the context has been cancelled:
`none` = still blocked; `some (some r)` = returned `r` (`none` = ErrCancelled); `some none` = panic in the caller. -/
def preambleResult (ctx : Bool) : Preamble → Option (Option (Option Nat))
  | .protocol => none
  | .trivial n => some (some (some n))
  | .waitCancel => if ctx then some (some none) else none
  | .invalidTarget => some none

end Iota.Mine
