/-
Model of pkg/pow (v1) and pkg/pow/v2: the integer / bit-plane logic of Score and of the lane test
`checkStateTrits`, and the sequential (single-worker) mining loop.  `uint` words are `BitVec 64`,
`big.Int` and (overflow-checked) `uint64` values are `Nat`.  The Curl hash enters as data: the 243
hash trits of each lane / the two 243-word bit planes the batched sponge leaves behind.
Floating point (v1 Score) is not modelled here: v1 is modelled up to the trailing-zero count `z`,
and the score `3^z/len` is an abstract monotone function in the theorems.  Core Lean only.
-/
namespace Iota.Pow

abbrev W := BitVec 64
/-- the first 243 words of the `l` / `h` planes (`CopyState`) -/
abbrev Planes := Vector W 243

def allOnes : W := BitVec.allOnes 64

/-- index of the lowest 0 bit of `w` — Go `bits.TrailingZeros(^w)` — 64 if there is none. -/
def firstZeroBit (w : W) : Nat := ((List.range 64).find? fun i => !w.getLsbD i).getD 64

/-- Go `bits.Len(^w)`: one more than the index of the highest 0 bit of `w`, 0 if there is none. -/
def lenNot (w : W) : Nat := (((List.range 64).reverse.find? fun i => !w.getLsbD i).map (· + 1)).getD 0

/-- `v |= l[i] ^ h[i]` for `i` in `[from, 243)`: bit `j` is 0 iff lane `j` has zero trits there. -/
def orDiff (l h : Planes) (start : Nat) : W :=
  (List.range 243).foldl (fun v i => if start ≤ i then v ||| (l.toArray.getD i 0 ^^^ h.toArray.getD i 0) else v) 0

/-- trit `i` of lane `idx`: `(h[i]>>idx)&1 - (l[i]>>idx)&1`. -/
def laneTrit (l h : Planes) (idx i : Nat) : Int :=
  (if (h.toArray.getD i 0).getLsbD idx then 1 else 0) - (if (l.toArray.getD i 0).getLsbD idx then 1 else 0)

def laneTrits (l h : Planes) (idx : Nat) : List Int := (List.range 243).map (laneTrit l h idx)

/-! ### v1 -/

/-- v1 `checkStateTrits(l, h, n)`; Go computes `HashTrinarySize - n` in `uint`, so `n ≤ 243` is required
(the worker panics before for larger `n`). -/
def checkV1 (l h : Planes) (n : Nat) : Nat := firstZeroBit (orDiff l h (243 - n))

/-- `trinary.TrailingZeros`. -/
def trailingZeros (trits : List Int) : Nat := (trits.reverse.takeWhile (· == 0)).length

/-! ### v2 -/

/-- `tritToUint` on a balanced trit. -/
def tritToUint (t : Int) : Nat := if t = -1 then 2 else t.toNat

def uint64Radix : Nat := 12157665459056928801
def maxHash : Nat := 0x2367b879df2fe073dfc27f021fbc70343b4661546d9dcaa0de38db00a48d9b295613405167b19e1ddba02c679e2d7385b

/-- the inner loop of `toInt` over one 40-trit chunk: `v = v*3 + tritToUint(chunk[j])` for j = 39 … 0. -/
def chunkValue (chunk : List Int) : Nat := chunk.reverse.foldl (fun v t => v * 3 + tritToUint t) 0

/-- `toInt(trits)` for 243 trits, chunked exactly as the code: the top three trits, then chunks 5 … 0. -/
def toInt (trits : List Int) : Nat :=
  let b0 := tritToUint (trits.getD 242 0) * 9 + tritToUint (trits.getD 241 0) * 3 + tritToUint (trits.getD 240 0)
  (List.range 6).reverse.foldl (fun b i =>
      let v := chunkValue ((trits.drop (i * 40)).take 40)
      b * uint64Radix + (if i = 0 then v + 1 else v)) b0

/-- the largest intermediate `uint64` the chunk loop of `toInt` produces (for the no-overflow theorem). -/
def chunkMax (chunk : List Int) : Nat := chunkValue chunk + 1

/-- `difficulty`: `maxHash / toInt(hash)`. -/
def difficulty (hashTrits : List Int) : Nat := maxHash / toInt hashTrits

/-- `Score(msg)` given the hash trits and `len(msg)`: the `IsUint64` branches as written. -/
def score (hashTrits : List Int) (msgLen : Nat) : Nat :=
  let d := difficulty hashTrits
  if d < 2 ^ 64 then d / msgLen
  else if d / msgLen < 2 ^ 64 then d / msgLen
  else 2 ^ 64 - 1

/-- the loop of `sufficientTrailingZeros`: `for s, v := 0, 1; s <= 40; s++ { if v >= lx {return s}; v *= 3 }; return 41`. -/
def sufficientLoop (lx : Nat) : Nat → Nat → Nat → Nat
  | 0, _, _ => 41
  | fuel + 1, s, v => if v ≥ lx then s else sufficientLoop lx fuel (s + 1) (v * 3)

/-- `sufficientTrailingZeros` for `lx = (len(data)+8)·targetScore` (which must fit a uint64). -/
def sufficientTrailingZeros (lx : Nat) : Nat := sufficientLoop lx 41 0 1

/-- `targetHash`: ⌊maxHash / (lx + 1)⌋. -/
def targetHash (lx : Nat) : Nat := maxHash / (lx + 1)

/-- `stateToInt(l, h, idx)`. -/
def stateToInt (l h : Planes) (idx : Nat) : Nat := toInt (laneTrits l h idx)

/-- v2 `checkStateTrits(l, h, sufficientTrailing, target)`; requires `1 ≤ s ≤ 243` (s = 0 would index
`l[243]`; the callers have s ≥ 2 because len ≥ 8). Returns the lane index or 64. -/
def checkV2 (l h : Planes) (s : Nat) (target : Nat) : Nat :=
  let v := orDiff l h (243 - (s - 1))
  if v = allOnes then 64
  else
    let w := v ||| (l.toArray.getD (243 - s) 0 ^^^ h.toArray.getD (243 - s) 0)
    if w ≠ allOnes then firstZeroBit w
    else
      let lo := firstZeroBit v
      let hi := lenNot v
      ((List.range 64).find? fun i => decide (lo ≤ i) && decide (i < hi) && !v.getLsbD i &&
          decide (stateToInt l h i ≤ target)).getD 64

/-- the single-worker mining loop over consecutive blocks of 64 nonces: `planes k` are the planes of
block `k`; returns the first (block, lane) whose check succeeds within `fuel` blocks. -/
def mineSeq (check : Planes → Planes → Nat) (planes : Nat → Planes × Planes) : Nat → Nat → Option (Nat × Nat)
  | 0, _ => none
  | fuel + 1, k =>
    let i := check (planes k).1 (planes k).2
    if i < 64 then some (k, i) else mineSeq check planes fuel (k + 1)

end Iota.Pow
