/-
Model of pkg/bech32/address/address.go (Bech32, ParseBech32) over the Bech32 model, and of
pkg/migration/migration.go (Encode, Decode) over the b1t6 model with the hash `H` (BLAKE2b-256 in
the code) as a parameter.  Core Lean only.
-/
import Iota.Model.Bech32
import Iota.Model.B1T6

namespace Iota.Address
open Iota.Bech32

/-- `hrpStrings = [...]string{"iota", "atoi", "smr", "rms"}` -/
def hrpStrings : List Str :=
  [[105,111,116,97], [97,116,111,105], [115,109,114], [114,109,115]]

/-- `ParsePrefix`: index of the network prefix. -/
def parsePrefix (s : Str) : Option Nat := hrpStrings.idxOf? s

inductive Kind | ed25519 | alias | nft
deriving DecidableEq, Repr

def Kind.version : Kind → UInt8
  | .ed25519 => 0x00 | .alias => 0x08 | .nft => 0x10

/-- payload length of each address version (blake2b.Size256 / Blake2b160Length). -/
def Kind.hashLen : Kind → Nat
  | .ed25519 => 32 | .alias => 20 | .nft => 20

/-- an address value: its kind and hash (of length `kind.hashLen`, an array in Go). -/
structure Addr where
  kind : Kind
  hash : List UInt8
deriving DecidableEq, Repr

/-- `Address.Bytes()`: version byte followed by the hash. -/
def Addr.bytes (a : Addr) : List UInt8 := a.kind.version :: a.hash

/-- `Bech32(hrp, addr)`; `prefix` must be one of the four `Prefix` constants. -/
def bech32 (pfx : Nat) (a : Addr) : Except Bech32.Err Str :=
  Bech32.encode (hrpStrings.getD pfx []) a.bytes

inductive ParseErr | bech32 (e : Bech32.Err) | invalidPrefix | invalidVersion | invalidLength
deriving DecidableEq, Repr

/-- `ParseBech32`. -/
def parseBech32 (s : Str) : Except ParseErr (Nat × Addr) :=
  match Bech32.decode s with
  | .error e => .error (.bech32 e)
  | .ok (hrp, addrData) =>
    match parsePrefix hrp with
    | none => .error .invalidPrefix
    | some pfx =>
      match addrData with
      | [] => .error .invalidVersion
      | version :: rest =>
        if version = 0x00 then
          if rest.length ≠ 32 then .error .invalidLength else .ok (pfx, ⟨.ed25519, rest⟩)
        else if version = 0x08 then
          if rest.length ≠ 20 then .error .invalidLength else .ok (pfx, ⟨.alias, rest⟩)
        else if version = 0x10 then
          if rest.length ≠ 20 then .error .invalidLength else .ok (pfx, ⟨.nft, rest⟩)
        else .error .invalidVersion

end Iota.Address

namespace Iota.Migration
open Iota.B1T6

abbrev Bytes := List UInt8

/-- "TRANSFER" -/
def pfx : Bytes := [84,82,65,78,83,70,69,82]
/-- "9" -/
def sfx : Bytes := [57]
def checksumSize : Nat := 4
def addressSize : Nat := 32
def hashTrytesSize : Nat := 81

/-- `migration.Encode` for a 32-byte address. -/
def encode (H : Bytes → Bytes) (addr : Bytes) : Bytes :=
  pfx ++ encodeToTrytes (addr ++ (H addr).take checksumSize) ++ sfx

inductive Err | invalidLength | noPrefix | noSuffix | addrEncoding | checksumEncoding | invalidChecksum
deriving DecidableEq, Repr

/-- `guards.IsTrytesOfExactLength`. -/
def isTrytesOfExactLength (t : Bytes) (n : Nat) : Bool :=
  t.length == n && t.length != 0 && t.all isTryteChar

/-- `migration.Decode`. -/
def decode (H : Bytes → Bytes) (trytes : Bytes) : Except Err Bytes :=
  if !isTrytesOfExactLength trytes hashTrytesSize then .error .invalidLength
  else if trytes.take pfx.length ≠ pfx then .error .noPrefix
  else
    let t1 := trytes.drop pfx.length
    if t1.drop (t1.length - sfx.length) ≠ sfx then .error .noSuffix
    else
      let t2 := t1.take (t1.length - sfx.length)
      let addrTrytesLen := 6 * addressSize / 3
      match decodeTrytes (t2.take addrTrytesLen) with
      | .error _ => .error .addrEncoding
      | .ok addrBytes =>
        match decodeTrytes (t2.drop addrTrytesLen) with
        | .error _ => .error .checksumEncoding
        | .ok checksumBytes =>
          if checksumBytes ≠ (H addrBytes).take checksumBytes.length then .error .invalidChecksum
          else .ok addrBytes

end Iota.Migration
