/- RIPEMD-160, executable oracle for the driver (SLIP-10 fingerprints). -/
import Iota.Model.Hash.SHA2

namespace Iota.Hash

@[inline] def rotl32 (x : UInt32) (n : UInt32) : UInt32 := (x <<< n) ||| (x >>> (32 - n))

def rmdR : Array Nat := #[
  0,1,2,3,4,5,6,7,8,9,10,11,12,13,14,15, 7,4,13,1,10,6,15,3,12,0,9,5,2,14,11,8,
  3,10,14,4,9,15,8,1,2,7,0,6,13,11,5,12, 1,9,11,10,0,8,12,4,13,3,7,15,14,5,6,2,
  4,0,5,9,7,12,2,10,14,1,3,8,11,6,15,13]
def rmdR' : Array Nat := #[
  5,14,7,0,9,2,11,4,13,6,15,8,1,10,3,12, 6,11,3,7,0,13,5,10,14,15,8,12,4,9,1,2,
  15,5,1,3,7,14,6,9,11,8,12,2,10,0,4,13, 8,6,4,1,3,11,15,0,5,12,2,13,9,7,10,14,
  12,15,10,4,1,5,8,7,6,2,13,14,0,3,9,11]
def rmdS : Array Nat := #[
  11,14,15,12,5,8,7,9,11,13,14,15,6,7,9,8, 7,6,8,13,11,9,7,15,7,12,15,9,11,7,13,12,
  11,13,6,7,14,9,13,15,14,8,13,6,5,12,7,5, 11,12,14,15,14,15,9,8,9,14,5,6,8,6,5,12,
  9,15,5,11,6,8,13,12,5,12,13,14,11,8,5,6]
def rmdS' : Array Nat := #[
  8,9,9,11,13,15,15,5,7,7,8,11,14,14,12,6, 9,13,15,7,12,8,9,11,7,7,12,7,6,15,13,11,
  9,7,15,11,8,6,6,14,12,13,5,14,13,13,7,5, 15,5,8,11,14,14,6,14,6,9,12,9,12,5,15,8,
  8,5,12,9,12,5,14,6,8,13,6,5,15,13,11,11]

def rmdF (j : Nat) (x y z : UInt32) : UInt32 :=
  if j < 16 then x ^^^ y ^^^ z
  else if j < 32 then (x &&& y) ||| ((~~~ x) &&& z)
  else if j < 48 then (x ||| (~~~ y)) ^^^ z
  else if j < 64 then (x &&& z) ||| (y &&& (~~~ z))
  else x ^^^ (y ||| (~~~ z))

def rmdK (j : Nat) : UInt32 :=
  if j < 16 then 0 else if j < 32 then 0x5a827999 else if j < 48 then 0x6ed9eba1
  else if j < 64 then 0x8f1bbcdc else 0xa953fd4e
def rmdK' (j : Nat) : UInt32 :=
  if j < 16 then 0x50a28be6 else if j < 32 then 0x5c4dd124 else if j < 48 then 0x6d703ef3
  else if j < 64 then 0x7a6d76e9 else 0

def le32 (b : Array UInt8) (i : Nat) : UInt32 :=
  (b[i]!).toUInt32 ||| ((b[i+1]!).toUInt32 <<< 8) ||| ((b[i+2]!).toUInt32 <<< 16) ||| ((b[i+3]!).toUInt32 <<< 24)

def u32le (x : UInt32) : List UInt8 := [x.toUInt8, (x >>> 8).toUInt8, (x >>> 16).toUInt8, (x >>> 24).toUInt8]

def ripemd160 (msg : Bytes) : Bytes := Id.run do
  let l := msg.length
  let padLen := (64 - (l + 9) % 64) % 64
  let bits := l * 8
  let lenEnc := (List.range 8).map fun i => UInt8.ofNat ((bits >>> (8 * i)) % 256)
  let p := (msg ++ [0x80] ++ List.replicate padLen 0 ++ lenEnc).toArray
  let mut h : Array UInt32 := #[0x67452301, 0xefcdab89, 0x98badcfe, 0x10325476, 0xc3d2e1f0]
  for blk in [0:p.size / 64] do
    let mut x : Array UInt32 := Array.replicate 16 0
    for i in [0:16] do
      x := x.set! i (le32 p (64 * blk + 4 * i))
    let mut a := h[0]!; let mut b := h[1]!; let mut c := h[2]!; let mut d := h[3]!; let mut e := h[4]!
    let mut a' := h[0]!; let mut b' := h[1]!; let mut c' := h[2]!; let mut d' := h[3]!; let mut e' := h[4]!
    for j in [0:80] do
      let t := rotl32 (a + rmdF j b c d + x[rmdR[j]!]! + rmdK j) (UInt32.ofNat rmdS[j]!) + e
      a := e; e := d; d := rotl32 c 10; c := b; b := t
      let t' := rotl32 (a' + rmdF (79 - j) b' c' d' + x[rmdR'[j]!]! + rmdK' j) (UInt32.ofNat rmdS'[j]!) + e'
      a' := e'; e' := d'; d' := rotl32 c' 10; c' := b'; b' := t'
    let t := h[1]! + c + d'
    h := #[t, h[2]! + d + e', h[3]! + e + a', h[4]! + a + b', h[0]! + b + c']
    -- rotate into place: h0 gets the value computed from h1
    h := #[h[0]!, h[1]!, h[2]!, h[3]!, h[4]!]
  return h.toList.flatMap u32le

end Iota.Hash
