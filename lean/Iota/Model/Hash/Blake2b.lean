/- BLAKE2b (RFC 7693), unkeyed, output length 1..64.  Executable oracle for the driver. -/
import Iota.Model.Hash.SHA2

namespace Iota.Hash

def blake2bIV : Array UInt64 := #[
  0x6a09e667f3bcc908, 0xbb67ae8584caa73b, 0x3c6ef372fe94f82b, 0xa54ff53a5f1d36f1,
  0x510e527fade682d1, 0x9b05688c2b3e6c1f, 0x1f83d9abfb41bd6b, 0x5be0cd19137e2179]

def blake2bSigma : Array (Array Nat) := #[
  #[0,1,2,3,4,5,6,7,8,9,10,11,12,13,14,15],
  #[14,10,4,8,9,15,13,6,1,12,0,2,11,7,5,3],
  #[11,8,12,0,5,2,15,13,10,14,3,6,7,1,9,4],
  #[7,9,3,1,13,12,11,14,2,6,5,10,4,0,15,8],
  #[9,0,5,7,2,4,10,15,14,1,11,12,6,8,3,13],
  #[2,12,6,10,0,11,8,3,4,13,7,5,15,14,1,9],
  #[12,5,1,15,14,13,4,10,0,7,6,3,9,2,8,11],
  #[13,11,7,14,12,1,3,9,5,0,15,4,8,6,2,10],
  #[6,15,14,9,11,3,0,8,12,2,13,7,1,4,10,5],
  #[10,2,8,4,7,6,1,5,15,11,9,14,3,12,13,0],
  #[0,1,2,3,4,5,6,7,8,9,10,11,12,13,14,15],
  #[14,10,4,8,9,15,13,6,1,12,0,2,11,7,5,3]]

def le64 (b : Array UInt8) (i : Nat) : UInt64 := Id.run do
  let mut r : UInt64 := 0
  for j in [0:8] do
    r := r ||| ((b[i+j]!).toUInt64 <<< (UInt64.ofNat (8*j)))
  return r

def u64le (x : UInt64) : List UInt8 :=
  (List.range 8).map fun j => (x >>> (UInt64.ofNat (8*j))).toUInt8

@[inline] def b2G (v : Array UInt64) (a b c d : Nat) (x y : UInt64) : Array UInt64 :=
  let va := v[a]! + v[b]! + x
  let vd := rotr64 (v[d]! ^^^ va) 32
  let vc := v[c]! + vd
  let vb := rotr64 (v[b]! ^^^ vc) 24
  let va := va + vb + y
  let vd := rotr64 (vd ^^^ va) 16
  let vc := vc + vd
  let vb := rotr64 (vb ^^^ vc) 63
  ((((v.set! a va).set! b vb).set! c vc).set! d vd)

def b2Compress (h : Array UInt64) (blk : Array UInt8) (off : Nat) (t : Nat) (last : Bool) : Array UInt64 := Id.run do
  let mut m : Array UInt64 := Array.replicate 16 0
  for i in [0:16] do
    m := m.set! i (le64 blk (off + 8*i))
  let mut v : Array UInt64 := h ++ blake2bIV
  v := v.set! 12 (v[12]! ^^^ UInt64.ofNat (t % 2^64))
  v := v.set! 13 (v[13]! ^^^ UInt64.ofNat (t / 2^64))
  if last then v := v.set! 14 (~~~ v[14]!)
  for r in [0:12] do
    let s := blake2bSigma[r]!
    v := b2G v 0 4 8 12 m[s[0]!]! m[s[1]!]!
    v := b2G v 1 5 9 13 m[s[2]!]! m[s[3]!]!
    v := b2G v 2 6 10 14 m[s[4]!]! m[s[5]!]!
    v := b2G v 3 7 11 15 m[s[6]!]! m[s[7]!]!
    v := b2G v 0 5 10 15 m[s[8]!]! m[s[9]!]!
    v := b2G v 1 6 11 12 m[s[10]!]! m[s[11]!]!
    v := b2G v 2 7 8 13 m[s[12]!]! m[s[13]!]!
    v := b2G v 3 4 9 14 m[s[14]!]! m[s[15]!]!
  let mut out := h
  for i in [0:8] do
    out := out.set! i (h[i]! ^^^ v[i]! ^^^ v[i+8]!)
  return out

def blake2b (outLen : Nat) (msg : Bytes) : Bytes := Id.run do
  let mut h := blake2bIV
  h := h.set! 0 (h[0]! ^^^ 0x01010000 ^^^ UInt64.ofNat outLen)
  let n := msg.length
  let nblocks := if n = 0 then 1 else (n + 127) / 128
  let padded := (msg ++ List.replicate (nblocks * 128 - n) 0).toArray
  for i in [0:nblocks] do
    let last := i + 1 == nblocks
    let t := if last then n else 128 * (i + 1)
    h := b2Compress h padded (128 * i) t last
  return (h.toList.flatMap u64le).take outLen

def blake2b256 (msg : Bytes) : Bytes := blake2b 32 msg

end Iota.Hash
