/- Small additions to core used by several models. -/
deriving instance DecidableEq for Except
