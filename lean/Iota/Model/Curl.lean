/-
Model of pkg/curl (curl.go, transform.go): the batched, bit-sliced Curl-P-81.
`uint` is `BitVec 64`; the two 729-word planes are `Vector (BitVec 64) 729`.  Every array access
the Go code performs goes through `rd`/`wr`, which return `none` when the index is out of range
(a Go run-time panic), so "no out-of-range access" is a theorem about this model, not an artefact.
(pkg/pow uses iota.go's own batched sponge `curl/bct`, which is a different implementation and an external
dependency; nothing here is about it.)  Core Lean only.
-/
namespace Iota.Curl

abbrev W := BitVec 64
def stateSize : Nat := 729
def hashSize : Nat := 243
def numRounds : Nat := 81

abbrev Plane := Vector W 729

def allOnes : W := BitVec.allOnes 64

/-- `sBox` of transform.go. -/
def sBox (aL aH bL bH : W) : W × W :=
  let tmp := aL &&& (aH ^^^ bL)
  (~~~tmp, (aL ^^^ bH) ||| tmp)

def rd (v : Plane) (i : Nat) : Option W := if h : i < 729 then some v[i] else none
def wr (v : Plane) (i : Nat) (x : W) : Option Plane := if h : i < 729 then some (v.set i x) else none

/-- loop-carried variables of the inner `for i := 1; i <= StateSize-4; i += 4` loop. -/
structure LoopSt where
  t : Nat
  bL : W
  bH : W
  lto : Plane
  hto : Plane

/-- one iteration of the inner loop (four s-boxes), with `t += 364 / t -= 365` as written.
`t - 365` on a Go `int` never goes negative here; the model uses `Nat` subtraction guarded by an
explicit check (a wrong walk would read a wrong or out-of-range index and the theorems would fail). -/
def loopBody (lfrom hfrom : Plane) (i : Nat) : LoopSt → Option LoopSt
  | ⟨t, bL, bH, lto, hto⟩ => do
    let t := t + 364
    let aL ← rd lfrom t; let aH ← rd hfrom t
    let r0 := sBox bL bH aL aH
    let lto ← wr lto (i + 0) r0.1; let hto ← wr hto (i + 0) r0.2
    if t < 365 then none else
    let t := t - 365
    let bL ← rd lfrom t; let bH ← rd hfrom t
    let r1 := sBox aL aH bL bH
    let lto ← wr lto (i + 1) r1.1; let hto ← wr hto (i + 1) r1.2
    let t := t + 364
    let aL ← rd lfrom t; let aH ← rd hfrom t
    let r2 := sBox bL bH aL aH
    let lto ← wr lto (i + 2) r2.1; let hto ← wr hto (i + 2) r2.2
    if t < 365 then none else
    let t := t - 365
    let bL ← rd lfrom t; let bH ← rd hfrom t
    let r3 := sBox aL aH bL bH
    let lto ← wr lto (i + 3) r3.1; let hto ← wr hto (i + 3) r3.2
    pure { t := t, bL := bL, bH := bH, lto := lto, hto := hto }

/-- `n` iterations of the inner loop starting at index `i` (step 4). -/
def innerLoop (lfrom hfrom : Plane) : Nat → Nat → LoopSt → Option LoopSt
  | 0, _, s => some s
  | n + 1, i, s => do
    let s' ← loopBody lfrom hfrom i s
    innerLoop lfrom hfrom n (i + 4) s'

/-- one round of `transformGeneric`: fills `to` from `from` (the inner loop runs for
i = 1, 5, …, 725, i.e. 182 iterations). -/
def roundGo (lto hto lfrom hfrom : Plane) : Option (Plane × Plane) := do
  let aL ← rd lfrom 0; let aH ← rd hfrom 0
  let bL ← rd lfrom 364; let bH ← rd hfrom 364
  let r := sBox aL aH bL bH
  let lto ← wr lto 0 r.1; let hto ← wr hto 0 r.2
  let s ← innerLoop lfrom hfrom 182 1 { t := 364, bL := bL, bH := bH, lto := lto, hto := hto }
  pure (s.lto, s.hto)

/-- the four buffers `transformGeneric` is given. -/
structure Bufs where
  lto : Plane
  hto : Plane
  lfrom : Plane
  hfrom : Plane

/-- `r` rounds with the buffer swap after each round; the result names the buffers by the
caller's view (`lto`/`hto` are the arrays passed first). `swapped` tracks the local pointer swap. -/
def roundsGo : Nat → Bool → Bufs → Option Bufs
  | 0, _, b => some b
  | r + 1, swapped, b =>
    if swapped then do
      -- local (lto,hto) are the caller's from-buffers and vice versa
      let (l, h) ← roundGo b.lfrom b.hfrom b.lto b.hto
      roundsGo r false { b with lfrom := l, hfrom := h }
    else do
      let (l, h) ← roundGo b.lto b.hto b.lfrom b.hfrom
      roundsGo r true { b with lto := l, hto := h }

/-- `transformGeneric(lto, hto, lfrom, hfrom)`: final contents of all four arrays. -/
def transformGeneric (b : Bufs) : Option Bufs := roundsGo numRounds false b

/-! ### the sponge (curl.go) -/

inductive Direction | absorbing | squeezing
deriving DecidableEq, Repr

structure Curl where
  l : Plane
  h : Plane
  direction : Direction

def onesPlane : Plane := Vector.replicate 729 allOnes

/-- `Clone`: `&Curl{l: c.l, h: c.h, direction: c.direction}` — Go arrays are values, so the two 729-word arrays
are copied, not shared. -/
def Curl.clone (c : Curl) : Curl := { l := c.l, h := c.h, direction := c.direction }

/-- `CopyState(l, h)`: the two planes copied out. -/
def Curl.copyState (c : Curl) : Plane × Plane := (c.l, c.h)

/-- `Reset` / `NewCurlP81`. -/
def init : Curl := { l := onesPlane, h := onesPlane, direction := .absorbing }

/-- `c.transform()`: fresh zeroed temporaries as `to`, the state as `from`; the state becomes the
temporaries. `none` = a panic inside the permutation. -/
def Curl.transform (c : Curl) : Option Curl := do
  let z : Plane := Vector.replicate 729 0
  let b ← transformGeneric { lto := z, hto := z, lfrom := c.l, hfrom := c.h }
  pure { c with l := b.lto, h := b.hto }

/-- Go `bool2int`. -/
def bool2int (b : Bool) : W := if b then allOnes else 0

/-- `c.in(src, idx)` on the 243 trits `src` (already sliced). -/
def inLane (l h : Plane) (src : List Int) (idx : Nat) : Plane × Plane :=
  let m : W := ~~~((1 : W) <<< idx)
  (Vector.ofFn fun (i : Fin 729) =>
      if i.val < 243 then l[i] &&& (bool2int (decide (src.getD i.val 0 ≤ 0)) ||| m) else l[i],
   Vector.ofFn fun (i : Fin 729) =>
      if i.val < 243 then h[i] &&& (bool2int (decide (src.getD i.val 0 ≥ 0)) ||| m) else h[i])

/-- reset of the first 243 words of both planes to all-ones. -/
def resetRate (p : Plane) : Plane :=
  Vector.ofFn fun (i : Fin 729) => if i.val < 243 then allOnes else p[i]

/-- `c.out(dst, idx)`: the 243 trits of lane `idx`. -/
def outLane (c : Curl) (idx : Nat) : List Int :=
  (List.range 243).map fun i =>
    let hb : Int := if (c.h.toArray.getD i 0).getLsbD idx then 1 else 0
    let lb : Int := if (c.l.toArray.getD i 0).getLsbD idx then 1 else 0
    hb - lb

inductive Err | invalidBatchSize | invalidTritsLength | invalidSqueezeLength
deriving DecidableEq, Repr

/-- outcome of a call: normal return (with the new state), returned error (state untouched), or panic. -/
inductive Outcome (α : Type)
  | ok (c : Curl) (out : α)
  | err (e : Err)
  | panic

/-- absorb the blocks `i = 0, 243, …` below `tritsCount`. -/
def absorbBlocks (src : List (List Int)) : Nat → Nat → Curl → Option Curl
  | 0, _, c => some c
  | n + 1, off, c => do
    let l0 := resetRate c.l
    let h0 := resetRate c.h
    let (l1, h1) := (List.range src.length).foldl
      (fun (acc : Plane × Plane) j => inLane acc.1 acc.2 ((src.getD j []).drop off) j) (l0, h0)
    let c' ← Curl.transform { c with l := l1, h := h1 }
    absorbBlocks src n (off + 243) c'

/-- `Absorb(src, tritsCount)`. Precondition of the Go code (documented): every lane has at least
`tritsCount` trits; a shorter lane makes the slice expression panic. -/
def Curl.absorb (c : Curl) (src : List (List Int)) (tritsCount : Nat) : Outcome Unit :=
  if src.length < 1 ∨ src.length > 64 then .err .invalidBatchSize
  else if tritsCount % 243 ≠ 0 then .err .invalidTritsLength
  else if c.direction ≠ .absorbing then .panic
  else if tritsCount ≠ 0 ∧ src.any (fun lane => decide (lane.length < tritsCount)) then .panic
  else match absorbBlocks src (tritsCount / 243) 0 c with
    | some c' => .ok c' ()
    | none => .panic

/-- squeeze `n` blocks for `lanes` lanes; returns the state and, per lane, the trits produced. -/
def squeezeBlocks (lanes : Nat) : Nat → Curl → List (List Int) → Option (Curl × List (List Int))
  | 0, c, acc => some (c, acc)
  | n + 1, c, acc => do
    let c1 ← if c.direction = .squeezing then Curl.transform c else some c
    let c2 := { c1 with direction := .squeezing }
    let acc' := (List.range lanes).map fun j => acc.getD j [] ++ outLane c2 j
    squeezeBlocks lanes n c2 acc'

/-- `Squeeze(dst, tritsCount)` with `lanes = len(dst)`. -/
def Curl.squeeze (c : Curl) (lanes : Nat) (tritsCount : Nat) : Outcome (List (List Int)) :=
  if lanes < 1 ∨ lanes > 64 then .err .invalidBatchSize
  else if tritsCount % 243 ≠ 0 then .err .invalidSqueezeLength
  else match squeezeBlocks lanes (tritsCount / 243) c (List.replicate lanes []) with
    | some (c', out) => .ok c' out
    | none => .panic

end Iota.Curl
