import Iota.Model.Common
/-
Model of pkg/bech32 (bech32.go, chars.go, checksum.go) and pkg/bech32/internal/base32.
Strings are byte lists.  `strings.ToLower/ToUpper/LastIndex` are modelled on ASCII: after the
repair of finding F2 `Decode` rejects every byte ≥ 0x80 before any case folding happens, and
`Encode` only folds strings it has already checked to be printable ASCII.  Core Lean only.
-/
namespace Iota.Bech32

abbrev Str := List UInt8

/-! ### base32 (internal/base32/base32.go) -/

/-- `base32.EncodedLen`. -/
def encodedLen (n : Nat) : Nat := (n * 8 + 4) / 5

/-- `base32.DecodedLen`. -/
def decodedLen (n : Nat) : Nat := n * 5 / 8

/-- one quantum of `base32.Encode`: `src` holds 1…5 bytes (more are ignored); the switch with
fall-through is rendered with the `carry` variable threaded exactly as in the Go code.  Returns
the symbols written (8 for a full quantum; 2, 4, 5, 7 for a tail of 1, 2, 3, 4 bytes). -/
def encQuantum (src : List UInt8) : List UInt8 :=
  let n := src.length
  let b (i : Nat) : UInt8 := src.getD i 0
  -- default:
  let d7 : List UInt8 := if n ≥ 5 then [b 4 &&& 0x1F] else []
  let c5 : UInt8 := if n ≥ 5 then b 4 >>> 5 else 0
  -- case 4:
  let d6 : List UInt8 := if n ≥ 4 then [c5 ||| ((b 3 <<< 3) &&& 0x1F)] else []
  let d5 : List UInt8 := if n ≥ 4 then [(b 3 >>> 2) &&& 0x1F] else []
  let c4 : UInt8 := if n ≥ 4 then b 3 >>> 7 else c5
  -- case 3:
  let d4 : List UInt8 := if n ≥ 3 then [c4 ||| ((b 2 <<< 1) &&& 0x1F)] else []
  let c3 : UInt8 := if n ≥ 3 then (b 2 >>> 4) &&& 0x1F else c4
  -- case 2:
  let d3 : List UInt8 := if n ≥ 2 then [c3 ||| ((b 1 <<< 4) &&& 0x1F)] else []
  let d2 : List UInt8 := if n ≥ 2 then [(b 1 >>> 1) &&& 0x1F] else []
  let c2 : UInt8 := if n ≥ 2 then (b 1 >>> 6) &&& 0x1F else c3
  -- case 1:
  let d1 : List UInt8 := [c2 ||| ((b 0 <<< 2) &&& 0x1F)]
  let d0 : List UInt8 := [b 0 >>> 3]
  d0 ++ d1 ++ d2 ++ d3 ++ d4 ++ d5 ++ d6 ++ d7

/-- `base32.Encode`: the symbols written to `dst`. -/
def b32Encode : List UInt8 → List UInt8
  | [] => []
  | b0 :: b1 :: b2 :: b3 :: b4 :: rest => encQuantum [b0, b1, b2, b3, b4] ++ b32Encode rest
  | tail => encQuantum tail

inductive B32Err | invalidLength | nonZeroPadding
deriving DecidableEq, Repr

/-- bytes produced by one quantum of `base32.Decode` from `n = src.length` symbols
(`n ∉ {1,3,6}`; 8 or more → 5 bytes, 7 → 4, 5 → 3, 4 → 2, 2 → 1). -/
def decQuantum (src : List UInt8) : List UInt8 :=
  let n := src.length
  let s (i : Nat) : UInt8 := src.getD i 0
  let o0 : List UInt8 := [(s 0 <<< 3) ||| (s 1 >>> 2)]
  let o1 : List UInt8 := if n ≥ 4 then [(s 1 <<< 6) ||| (s 2 <<< 1) ||| (s 3 >>> 4)] else []
  let o2 : List UInt8 := if n ≥ 5 then [(s 3 <<< 4) ||| (s 4 >>> 1)] else []
  let o3 : List UInt8 := if n ≥ 7 then [(s 4 <<< 7) ||| (s 5 <<< 2) ||| (s 6 >>> 3)] else []
  let o4 : List UInt8 := if n ≥ 8 then [(s 6 <<< 5) ||| s 7] else []
  o0 ++ o1 ++ o2 ++ o3 ++ o4

/-- the padding test of the last (short) quantum: offset of the offending symbol, if any. -/
def padCheck (src : List UInt8) : Option Nat :=
  let n := src.length
  let s (i : Nat) : UInt8 := src.getD i 0
  if n = 2 ∧ s 1 &&& 3 ≠ 0 then some 1
  else if n = 4 ∧ s 3 &&& 15 ≠ 0 then some 3
  else if n = 5 ∧ s 4 &&& 1 ≠ 0 then some 4
  else if n = 7 ∧ s 6 &&& 7 ≠ 0 then some 6
  else none

/-- `base32.Decode` from read offset `read`: the decoded bytes or `(error, offset)`. -/
def b32DecodeAux (read : Nat) : List UInt8 → Except (B32Err × Nat) (List UInt8)
  | [] => .ok []
  | s0 :: s1 :: s2 :: s3 :: s4 :: s5 :: s6 :: s7 :: rest =>
    match b32DecodeAux (read + 8) rest with
    | .ok bs => .ok (decQuantum [s0, s1, s2, s3, s4, s5, s6, s7] ++ bs)
    | .error e => .error e
  | tail =>
    if tail.length = 1 ∨ tail.length = 3 ∨ tail.length = 6 then .error (.invalidLength, read)
    else match padCheck tail with
      | some off => .error (.nonZeroPadding, read + off)
      | none => .ok (decQuantum tail)

def b32Decode (src : List UInt8) : Except (B32Err × Nat) (List UInt8) := b32DecodeAux 0 src

/-! ### charset (chars.go) -/

/-- "qpzry9x8gf2tvdw0s3jn54khce6mua7l" -/
def charset : List UInt8 :=
  [113,112,122,114,121,57,120,56,103,102,50,116,118,100,119,48,
   115,51,106,110,53,52,107,104,99,101,54,109,117,97,55,108]

/-- `encoding.decMap`: 0xFF everywhere except at the charset characters. -/
def decMap (c : UInt8) : UInt8 :=
  match charset.idxOf? c with
  | some i => UInt8.ofNat i
  | none => 0xFF

/-- `encoding.encode`. -/
def charsetEncode (syms : List UInt8) : Str := syms.map fun s => charset.getD s.toNat 0

/-- `encoding.decode`: the symbols, or the number of characters decoded before the bad one. -/
def charsetDecode : Str → Except Nat (List UInt8)
  | [] => .ok []
  | c :: cs =>
    if decMap c = 0xFF then .error 0
    else match charsetDecode cs with
      | .ok ds => .ok (decMap c :: ds)
      | .error n => .error (n + 1)

/-! ### checksum (checksum.go) -/

def gen : List Nat := [0x3b6a57b2, 0x26508e6d, 0x1ea119fa, 0x3d4233dd, 0x2a1462b3]

/-- the inner `for i := range gen` loop: XOR of the generators selected by the bits of `b`. -/
def genMix (b : Nat) : Nat :=
  (if (b >>> 0) &&& 1 ≠ 0 then gen.getD 0 0 else 0) ^^^
  (if (b >>> 1) &&& 1 ≠ 0 then gen.getD 1 0 else 0) ^^^
  (if (b >>> 2) &&& 1 ≠ 0 then gen.getD 2 0 else 0) ^^^
  (if (b >>> 3) &&& 1 ≠ 0 then gen.getD 3 0 else 0) ^^^
  (if (b >>> 4) &&& 1 ≠ 0 then gen.getD 4 0 else 0)

/-- one iteration of `bech32Polymod`. -/
def polymodStep (chk : Nat) (v : UInt8) : Nat :=
  let b := chk >>> 25
  (((chk &&& 0x1ffffff) <<< 5) ^^^ v.toNat) ^^^ genMix b

/-- `bech32Polymod`. -/
def polymod (values : List UInt8) : Nat := values.foldl polymodStep 1

/-- `bech32HrpExpand`. -/
def hrpExpand (hrp : Str) : List UInt8 :=
  hrp.map (fun (x : UInt8) => x >>> 5) ++ [0] ++ hrp.map (fun (x : UInt8) => x &&& 31)

/-- `bech32CreateChecksum`. -/
def createChecksum (hrp : Str) (blocks : List UInt8) : List UInt8 :=
  let pm := polymod (hrpExpand hrp ++ blocks ++ [0, 0, 0, 0, 0, 0]) ^^^ 1
  (List.range 6).map fun i => UInt8.ofNat ((pm >>> (5 * (5 - i))) &&& 31)

/-- `bech32VerifyChecksum`. -/
def verifyChecksum (hrp : Str) (data : List UInt8) : Bool :=
  polymod (hrpExpand hrp ++ data) == 1

/-! ### bech32.go -/

def maxStringLength : Nat := 90
def checksumLength : Nat := 6
def separator : UInt8 := 49

def isUpperAscii (c : UInt8) : Bool := decide (65 ≤ c.toNat) && decide (c.toNat ≤ 90)
def isLowerAscii (c : UInt8) : Bool := decide (97 ≤ c.toNat) && decide (c.toNat ≤ 122)
def toLowerAscii (c : UInt8) : UInt8 := if isUpperAscii c then c + 32 else c
def toUpperAscii (c : UInt8) : UInt8 := if isLowerAscii c then c - 32 else c
def lower (s : Str) : Str := s.map toLowerAscii
def upper (s : Str) : Str := s.map toUpperAscii

/-- `isValidHRPChar` on a byte (a byte ≥ 0x80 starts a rune > 126 or an invalid one). -/
def isValidHRPChar (c : UInt8) : Bool := decide (33 ≤ c.toNat) && decide (c.toNat ≤ 126)

/-- `firstUpper`: index of the first character changed by lower-casing. -/
def firstUpper (s : Str) : Option Nat := s.findIdx? isUpperAscii
/-- `firstLower`: index of the first character changed by upper-casing. -/
def firstLower (s : Str) : Option Nat := s.findIdx? isLowerAscii

/-- `validateCase`: `some off` = mixed case reported at `off`. -/
def validateCase (s : Str) : Option Nat :=
  match firstUpper s, firstLower s with
  | some u, some l => if u < l then some l else if l < u then some u else none
  | _, _ => none

inductive ErrKind
  | invalidLength | missingSeparator | invalidSeparator | invalidCharacter | mixedCase
  | invalidChecksum | b32InvalidLength | b32NonZeroPadding
deriving DecidableEq, Repr

/-- error kind and, for a `SyntaxError`, its offset -/
abbrev Err := ErrKind × Option Nat

/-- `Encode`. -/
def encode (hrp : Str) (src : List UInt8) : Except Err Str :=
  let dataLen := encodedLen src.length
  if hrp.length + dataLen + checksumLength + 1 > maxStringLength then .error (.invalidLength, none)
  else if hrp.length < 1 then .error (.invalidLength, none)
  else if !hrp.all isValidHRPChar then .error (.invalidCharacter, none)
  else match validateCase hrp with
  | some off => .error (.mixedCase, some off)
  | none =>
    let hrpLower := lower hrp
    let data := b32Encode src
    let chars := charsetEncode (data ++ createChecksum hrpLower data)
    let res := hrp ++ [separator] ++ chars
    if hrp = hrpLower then .ok res else .ok (upper res)

/-- `strings.LastIndex(s, "1")`. -/
def lastIndexSep : Str → Option Nat
  | [] => none
  | c :: cs =>
    match lastIndexSep cs with
    | some i => some (i + 1)
    | none => if c = separator then some 0 else none

/-- `Decode` (with the F2 repair: bytes ≥ 0x80 in the data part are rejected up front). -/
def decode (s : Str) : Except Err (Str × List UInt8) :=
  if s.length > maxStringLength then .error (.invalidLength, some maxStringLength)
  else match lastIndexSep s with
  | none => .error (.missingSeparator, none)
  | some hrpLen =>
    if hrpLen < 1 ∨ hrpLen + checksumLength > s.length then .error (.invalidSeparator, some hrpLen)
    else match (s.take hrpLen).findIdx? (fun c => !isValidHRPChar c) with
    | some i => .error (.invalidCharacter, some i)
    | none =>
      match (s.drop (hrpLen + 1)).findIdx? (fun c => decide (c.toNat ≥ 128)) with
      | some i => .error (.invalidCharacter, some (hrpLen + 1 + i))
      | none =>
        match validateCase s with
        | some off => .error (.mixedCase, some off)
        | none =>
          let sl := lower s
          let hrp := sl.take hrpLen
          let chars := sl.drop (hrpLen + 1)
          match charsetDecode chars with
          | .error n => .error (.invalidCharacter, some (hrpLen + 1 + n))
          | .ok data =>
            if data.length < checksumLength ∨ !verifyChecksum hrp data then
              .error (.invalidChecksum, some (s.length - checksumLength))
            else
              let payload := data.take (data.length - checksumLength)
              match b32Decode payload with
              | .error (.invalidLength, off) => .error (.b32InvalidLength, some (hrpLen + 1 + off))
              | .error (.nonZeroPadding, off) => .error (.b32NonZeroPadding, some (hrpLen + 1 + off))
              | .ok dst => .ok (hrp, dst)

end Iota.Bech32
