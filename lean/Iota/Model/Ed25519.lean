/-
Model of pkg/ed25519/ed25519.go: `newKeyFromSeed`, `sign`, `Verify` (ZIP-215) and the Signer wrapper,
as the sequence of calls into the curve library and SHA-512 that the Go code performs.  The library
(`filippo.io/edwards25519`) and the hash are the fields of `EdLib`; theorems assume the group laws of
that interface, the driver instantiates it with the from-scratch curve of Iota/Model/Edwards.lean.
Core Lean only.
-/
import Iota.Model.Edwards
import Iota.Model.Hash.SHA2

namespace Iota.Ed25519
open Iota.Edwards (Bytes leNat leBytes L)

/-- what pkg/ed25519 and pkg/vrf use of the curve library and of crypto/sha512. -/
structure EdLib (G : Type) where
  add : G → G → G
  neg : G → G
  zero : G
  /-- `k·P` for a scalar given as a natural number (`ScalarMult`, `ScalarBaseMult`, `VarTime…`) -/
  smul : Nat → G → G
  base : G
  /-- `Point.SetBytes` (permissive: non-canonical encodings accepted) -/
  decode : Bytes → Option G
  /-- `Point.Bytes` -/
  encode : G → Bytes
  /-- `Point.Equal` -/
  eq : G → G → Bool
  sha512 : Bytes → Bytes

variable {G : Type}

/-- `SetUniformBytes`: 64 bytes little-endian reduced mod L. -/
def uniformScalar (b : Bytes) : Nat := leNat b % L

/-- `newKeyFromSeed`: the 64-byte private key `seed ‖ A` for a 32-byte seed (`none` = panic on bad length). -/
def newKeyFromSeed (lib : EdLib G) (seed : Bytes) : Option Bytes :=
  if seed.length ≠ 32 then none else
  let h := lib.sha512 seed
  let s := Edwards.clamp h
  some (seed ++ lib.encode (lib.smul s lib.base))

/-- `sign` (`none` = panic on bad private key length). -/
def sign (lib : EdLib G) (privateKey message : Bytes) : Option Bytes :=
  if privateKey.length ≠ 64 then none else
  let seed := privateKey.take 32
  let publicKey := privateKey.drop 32
  let h := lib.sha512 seed
  let s := Edwards.clamp h
  let pfx := h.drop 32
  let r := uniformScalar (lib.sha512 (pfx ++ message))
  let R := lib.encode (lib.smul r lib.base)
  let k := uniformScalar (lib.sha512 (R ++ publicKey ++ message))
  let S := (k * (s % L) + r) % L
  some (R ++ leBytes S 32)

/-- `PrivateKey.Sign(rand, message, opts)`: error iff `opts.HashFunc() ≠ 0`. -/
def signerSign (lib : EdLib G) (privateKey message : Bytes) (hashFunc : Nat) : Option (Except Unit Bytes) :=
  if hashFunc ≠ 0 then some (.error ()) else (sign lib privateKey message).map .ok

/-- `Verify(publicKey, message, sig)` (`none` = panic on bad public key length). -/
def verify (lib : EdLib G) (publicKey message sig : Bytes) : Option Bool :=
  if publicKey.length ≠ 32 then none else
  if sig.length ≠ 64 ∨ (sig.getD 63 0) &&& 224 ≠ 0 then some false else
  match lib.decode publicKey with
  | none => some false
  | some A =>
    let negA := lib.neg A
    let k := uniformScalar (lib.sha512 (sig.take 32 ++ publicKey ++ message))
    match lib.decode (sig.take 32) with
    | none => some false
    | some checkR =>
      -- SetCanonicalBytes: s must be below the group order
      let s := leNat (sig.drop 32)
      if s ≥ L then some false else
      -- R = [k](−A) + [s]B ; accept iff [8](R − checkR) = 0
      let R := lib.add (lib.smul k negA) (lib.smul s lib.base)
      let pt := lib.add R (lib.neg checkR)
      some (lib.eq (lib.smul 8 pt) lib.zero)

/-- the concrete library used by the driver. -/
def edLib : EdLib Edwards.Point :=
  { add := Edwards.add, neg := Edwards.neg, zero := Edwards.zero, smul := Edwards.smul, base := Edwards.base,
    decode := Edwards.decodePermissive, encode := Edwards.encode, eq := Edwards.eq, sha512 := Hash.sha512 }

end Iota.Ed25519
