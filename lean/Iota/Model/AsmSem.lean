/-
Small-step semantics of the Go-assembler subset of Iota/Model/Asm.lean (the instructions occurring
in pkg/curl/transform_amd64.s).  Part of the trusted base of C20; core Lean only, executable.

Machine model
* A register holds `undef` (never written), a 64-bit word, or a *tagged pointer*: one of the four
  argument buffers plus a byte offset.  Initially every register is `undef`.
* Memory is exactly the four 729-word buffers.  Every memory operand is bounds- and
  alignment-checked against the buffer its base pointer is tagged with; anything else is a `fault`.
  Hence "the run ends in `done`" includes "every access stayed inside the four buffers".
* Arithmetic and logic on anything but words is a `fault` (no pointer arithmetic other than the
  address computation of a memory operand).
* Flags: only what the routine needs.  `CMPQ r, $imm` records the signed comparison (consumed by
  `JL`), `DECQ r` records whether the result is zero (consumed by `JNZ`); every other flag-writing
  instruction (`XORQ ANDQ ORQ ADDQ SUBQ`) leaves the flags `undef`, and a conditional jump on flags it
  cannot interpret is a `fault`.  `MOVQ`, `NOTQ`, `XCHGQ` do not touch the flags (as on amd64).
* A jump sets the program counter to the position of the `label` pseudo-instruction, which itself
  executes as a no-op.  Unknown operand shapes, a missing label, and running past the end are `fault`s.
-/
import Iota.Model.AsmProgram
import Iota.Model.Curl

namespace Iota.Asm
open Iota.Curl (W Plane)

/-- the four buffers the routine is given. -/
inductive Buf | lto | hto | lfrom | hfrom
deriving DecidableEq, Repr

inductive Val
  | undef
  | word (w : W)
  | ptr (b : Buf) (off : Int)

structure Mem where
  lto : Plane
  hto : Plane
  lfrom : Plane
  hfrom : Plane

def Mem.get (m : Mem) : Buf → Plane
  | .lto => m.lto | .hto => m.hto | .lfrom => m.lfrom | .hfrom => m.hfrom

def Mem.set (m : Mem) (b : Buf) (p : Plane) : Mem :=
  match b with
  | .lto => { m with lto := p } | .hto => { m with hto := p }
  | .lfrom => { m with lfrom := p } | .hfrom => { m with hfrom := p }

/-! register file: one slot per register -/

def Reg.idx : Reg → Fin 16
  | .AX => 0 | .CX => 1 | .DX => 2 | .BX => 3 | .SI => 4 | .DI => 5 | .R8 => 6 | .R9 => 7
  | .R10 => 8 | .R11 => 9 | .R12 => 10 | .R13 => 11 | .R14 => 12 | .R15 => 13 | .BP => 14 | .SP => 15

abbrev Regs := Vector Val 16
def Regs.get (R : Regs) (r : Reg) : Val := R[r.idx]
def Regs.set (R : Regs) (r : Reg) (v : Val) : Regs := Vector.set R r.idx v

inductive Flags
  | undef
  /-- after `CMPQ a, b`: `lt` = (`a < b`, signed) -/
  | cmp (lt : Bool)
  /-- after `DECQ`: `zero` = (result = 0) -/
  | dec (zero : Bool)

structure Machine where
  pc : Nat
  regs : Regs
  flags : Flags
  mem : Mem

inductive Outcome
  | done (mem : Mem)
  | fault
  | outOfFuel

inductive Step
  | next (m : Machine)
  | halt (mem : Mem)
  | fault

def Machine.setReg (m : Machine) (r : Reg) (v : Val) : Machine := { m with regs := m.regs.set r v }
def Machine.setFlags (m : Machine) (f : Flags) : Machine := { m with flags := f }
/-- fall through to the next instruction. -/
def Machine.next (m : Machine) : Step := .next { m with pc := m.pc + 1 }

/-- the pointer argument at `off(FP)`. -/
def argBuf : Nat → Option Buf
  | 0 => some .lto | 8 => some .hto | 16 => some .lfrom | 24 => some .hfrom | _ => none

/-- the scaled index of a memory operand; the index register is read as a signed 64-bit integer. -/
def indexVal (R : Regs) (scale : Nat) : Option Reg → Option Int
  | none => some 0
  | some r => match R.get r with
    | .word w => some (w.toInt * scale)
    | _ => none

/-- Effective address of `disp(base)(index*scale)`: the base must be a tagged pointer, and the
byte offset into *that* buffer must be 8-aligned and inside `[0, 8·729)`.  Result: buffer, word index. -/
def resolve (R : Regs) (disp : Int) (base : Reg) (index : Option Reg) (scale : Nat) :
    Option (Buf × Fin 729) :=
  match R.get base, indexVal R scale index with
  | .ptr b off, some i =>
    let e := off + i + disp
    if h : 0 ≤ e ∧ e < 8 * 729 ∧ e % 8 = 0 then some (b, ⟨(e / 8).toNat, by omega⟩) else none
  | _, _ => none

/-- value of a source operand. -/
def readOp (m : Machine) : Operand → Option Val
  | .imm v => some (.word (BitVec.ofInt 64 v))
  | .reg r => some (m.regs.get r)
  | .arg off => (argBuf off).map fun b => .ptr b 0
  | .mem d b i s => (resolve m.regs d b i s).map fun (buf, j) => .word (m.mem.get buf)[j]

/-- store to a destination operand; memory holds words only. -/
def writeOp (m : Machine) (v : Val) : Operand → Option Machine
  | .reg r => some (m.setReg r v)
  | .mem d b i s =>
    match v, resolve m.regs d b i s with
    | .word w, some (buf, j) => some { m with mem := m.mem.set buf ((m.mem.get buf).set j w) }
    | _, _ => none
  | _ => none

def isMem : Operand → Bool
  | .mem .. => true
  | _ => false

/-- `MOVQ src, dst` (not memory to memory). -/
def execMov (m : Machine) (src dst : Operand) : Step :=
  if isMem src && isMem dst then .fault else
  match readOp m src with
  | some v => match writeOp m v dst with
    | some m' => m'.next
    | none => .fault
  | none => .fault

/-- `dst := f dst a` on a word register; flags become uninterpretable. -/
def execAlu (f : W → W → W) (m : Machine) (a : Val) (dst : Reg) : Step :=
  match a, m.regs.get dst with
  | .word a, .word b => ((m.setReg dst (.word (f b a))).setFlags .undef).next
  | _, _ => .fault

/-- position of `label id` in the program. -/
def findLabel (prog : List Instr) (id : Nat) : Option Nat :=
  let i := prog.findIdx (· == .label id)
  if i < prog.length then some i else none

def jump (prog : List Instr) (m : Machine) (id : Nat) : Step :=
  match findLabel prog id with
  | some pc => .next { m with pc := pc }
  | none => .fault

def exec (prog : List Instr) (m : Machine) : Instr → Step
  | .label _ => m.next
  | .movq src dst => execMov m src dst
  | .xorq (.reg s) (.reg d) => execAlu (· ^^^ ·) m (m.regs.get s) d
  | .andq (.reg s) (.reg d) => execAlu (· &&& ·) m (m.regs.get s) d
  | .orq (.reg s) (.reg d) => execAlu (· ||| ·) m (m.regs.get s) d
  | .addq (.imm v) (.reg d) => execAlu (· + ·) m (.word (BitVec.ofInt 64 v)) d
  | .subq (.imm v) (.reg d) => execAlu (· - ·) m (.word (BitVec.ofInt 64 v)) d
  | .notq (.reg d) =>
    match m.regs.get d with
    | .word b => (m.setReg d (.word (~~~b))).next
    | _ => .fault
  | .decq (.reg d) =>
    match m.regs.get d with
    | .word b => ((m.setReg d (.word (b - 1))).setFlags (.dec (b - 1 == 0))).next
    | _ => .fault
  | .cmpq (.reg a) (.imm v) =>
    match m.regs.get a with
    | .word x => (m.setFlags (.cmp (decide (x.toInt < v)))).next
    | _ => .fault
  | .xchgq (.reg a) (.reg b) => ((m.setReg a (m.regs.get b)).setReg b (m.regs.get a)).next
  | .jl id =>
    match m.flags with
    | .cmp lt => if lt then jump prog m id else m.next
    | _ => .fault
  | .jnz id =>
    match m.flags with
    | .dec zero => if zero then m.next else jump prog m id
    | _ => .fault
  | .ret => .halt m.mem
  | _ => .fault

def step (prog : List Instr) (m : Machine) : Step :=
  match prog[m.pc]? with
  | some i => exec prog m i
  | none => .fault

def run (prog : List Instr) : Nat → Machine → Outcome
  | 0, _ => .outOfFuel
  | fuel + 1, m =>
    match step prog m with
    | .next m' => run prog fuel m'
    | .halt mem => .done mem
    | .fault => .fault

/-- the machine at entry of the routine: nothing but the four pointer arguments (reachable through
`.arg`) and the contents of the buffers they point to. -/
def initial (mem : Mem) : Machine :=
  { pc := 0, regs := Vector.replicate 16 .undef, flags := .undef, mem := mem }

/-- run `Iota.Asm.program` (pkg/curl/transform_amd64.s) on the four buffers. -/
def runProgram (lto hto lfrom hfrom : Plane) (fuel : Nat) : Outcome :=
  run program fuel (initial { lto := lto, hto := hto, lfrom := lfrom, hfrom := hfrom })

end Iota.Asm
