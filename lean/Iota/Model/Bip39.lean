/-
Model of pkg/bip39 (bip39.go, utils.go): EntropyToMnemonic / MnemonicToEntropy with `math/big`
integers as `Nat` (SetBytes, Lsh, Or, And, Rsh, Bytes), the hash `H` (SHA-256 in the code; must
return 32 bytes) and the word list `W` (2048 distinct words) as parameters.  Core Lean only.
-/
import Iota.Model.Common

namespace Iota.Bip39

abbrev Bytes := List UInt8
abbrev Word := List UInt8

inductive Err | invalidEntropySize | invalidMnemonic | invalidChecksum
deriving DecidableEq, Repr

def entropyMultiple : Nat := 32
def entropyMinBits : Nat := 128
def entropyMaxBits : Nat := 512
def indexBits : Nat := 11

/-- `new(big.Int).SetBytes(b)`: big-endian value. -/
def setBytes (b : Bytes) : Nat := b.foldl (fun acc x => acc * 256 + x.toNat) 0

/-- `big.Int.Bytes()`: minimal big-endian bytes (empty for 0). `fuel` bounds the byte count. -/
def natBytesAux : Nat → Nat → Bytes
  | 0, _ => []
  | fuel + 1, n => if n = 0 then [] else natBytesAux fuel (n / 256) ++ [UInt8.ofNat (n % 256)]

def natBytes (n : Nat) : Bytes := natBytesAux 80 n

/-- `padBytes(b, size)` as repaired (finding F1): zeros are *prepended* to the minimal big-endian bytes. -/
def padBytes (b : Bytes) (size : Nat) : Bytes := List.replicate (size - b.length) 0 ++ b

def entropyBitsToWordCount (n : Nat) : Nat := 3 * n / 32
def wordCountToEntropyBits (n : Nat) : Nat := 32 * n / 3

/-- `computeChecksum`: the first `numBits` bits of the 256-bit hash. -/
def computeChecksum (H : Bytes → Bytes) (bytes : Bytes) (numBits : Nat) : Nat :=
  setBytes (H bytes) >>> (256 - numBits)

/-- the loop of `EntropyToMnemonic`: `k` word indices taken from the low end of `big`, 11 bits at a
time, filled in from the last word to the first. -/
def splitIndices : Nat → Nat → List Nat
  | 0, _ => []
  | k + 1, big => splitIndices k (big >>> 11) ++ [big &&& 2047]

/-- `EntropyToMnemonic`. -/
def entropyToMnemonic (H : Bytes → Bytes) (W : List Word) (entropy : Bytes) : Except Err (List Word) :=
  let ent := entropy.length * 8
  if ent % entropyMultiple ≠ 0 ∨ entropyMinBits > ent ∨ ent > entropyMaxBits then .error .invalidEntropySize
  else
    let bitsChecksum := ent / 32
    let checksum := computeChecksum H entropy bitsChecksum
    let big := (setBytes entropy <<< bitsChecksum) ||| checksum
    .ok ((splitIndices (entropyBitsToWordCount ent) big).map fun i => W.getD i [])

/-- the decoder loop of `MnemonicToEntropy`: `decoder = decoder<<11 | index(word)`. -/
def joinIndices (W : List Word) (acc : Nat) : List Word → Nat
  | [] => acc
  | w :: ws => joinIndices W ((acc <<< 11) ||| (W.idxOf w)) ws

/-- `MnemonicToEntropy`. -/
def mnemonicToEntropy (H : Bytes → Bytes) (W : List Word) (mnemonic : List Word) : Except Err Bytes :=
  let ms := mnemonic.length
  if ms % 3 ≠ 0 ∨ entropyBitsToWordCount entropyMinBits > ms ∨ ms > entropyBitsToWordCount entropyMaxBits then
    .error .invalidMnemonic
  else if !mnemonic.all (fun w => W.contains w) then .error .invalidMnemonic
  else
    let bitsEntropy := wordCountToEntropyBits ms
    let bitsChecksum := bitsEntropy / entropyMultiple
    let decoder := joinIndices W 0 mnemonic
    let checksum := decoder &&& ((1 <<< bitsChecksum) - 1)
    let entropy := padBytes (natBytes (decoder >>> bitsChecksum)) (bitsEntropy / 8)
    if checksum ≠ computeChecksum H entropy bitsChecksum then .error .invalidChecksum
    else .ok entropy

end Iota.Bip39
