/-
edwards25519 from scratch (RFC 8032 §5.1): field arithmetic mod 2^255 − 19 on `Nat`, extended
coordinates, point decoding (permissive as `filippo.io/edwards25519.Point.SetBytes`, and canonical
as RFC 8032 §5.1.3), encoding, scalar multiplication.  This is the executable *oracle* for the
external curve library in the correspondence run; in theorems the group is abstract.
Core Lean only.
-/
namespace Iota.Edwards

abbrev Bytes := List UInt8

def p : Nat := 2 ^ 255 - 19
/-- group order of the prime-order subgroup -/
def L : Nat := 2 ^ 252 + 27742317777372353535851937790883648493

def powMod (b e m : Nat) : Nat := Id.run do
  let mut result := 1
  let mut base := b % m
  let mut e := e
  for _ in [0:600] do
    if e = 0 then break
    if e % 2 = 1 then result := result * base % m
    base := base * base % m
    e := e / 2
  return result

def inv (x : Nat) : Nat := powMod x (p - 2) p
def fsub (a b : Nat) : Nat := (a + p - b % p) % p
def fneg (a : Nat) : Nat := (p - a % p) % p

/-- d = −121665/121666 -/
def d : Nat := fneg (121665 * inv 121666 % p)
/-- √−1 = 2^((p−1)/4) -/
def sqrtM1 : Nat := powMod 2 ((p - 1) / 4) p

/-- extended coordinates (X : Y : Z : T), x = X/Z, y = Y/Z, xy = T/Z -/
structure Point where
  X : Nat
  Y : Nat
  Z : Nat
  T : Nat
deriving Repr

def zero : Point := ⟨0, 1, 1, 0⟩

/-- RFC 8032 §5.1.4 unified addition (complete on this curve). -/
def add (a b : Point) : Point :=
  let A := fsub a.Y a.X * fsub b.Y b.X % p
  let B := (a.Y + a.X) * (b.Y + b.X) % p
  let C := a.T * (2 * d % p) % p * b.T % p
  let D := a.Z * 2 % p * b.Z % p
  let E := fsub B A
  let F := fsub D C
  let G := (D + C) % p
  let H := (B + A) % p
  ⟨E * F % p, G * H % p, F * G % p, E * H % p⟩

def neg (a : Point) : Point := ⟨fneg a.X, a.Y, a.Z, fneg a.T⟩

def smul (k : Nat) (a : Point) : Point := Id.run do
  let mut acc := zero
  let mut base := a
  let mut k := k
  for _ in [0:600] do
    if k = 0 then break
    if k % 2 = 1 then acc := add acc base
    base := add base base
    k := k / 2
  return acc

def eq (a b : Point) : Bool :=
  (a.X * b.Z % p == b.X * a.Z % p) && (a.Y * b.Z % p == b.Y * a.Z % p)

def leNat (b : Bytes) : Nat := b.foldr (fun x acc => x.toNat + 256 * acc) 0
def leBytes (n len : Nat) : Bytes := (List.range len).map fun i => UInt8.ofNat ((n >>> (8 * i)) % 256)

/-- square root of u/v if it exists: the even ("non-negative") root. -/
def sqrtRatio (u v : Nat) : Option Nat :=
  let v3 := v * v % p * v % p
  let v7 := v3 * v3 % p * v % p
  let x := u * v3 % p * powMod (u * v7 % p) ((p - 5) / 8) p % p
  let vxx := v * (x * x % p) % p
  let x' := if vxx == u % p then some x
            else if vxx == fneg u then some (x * sqrtM1 % p)
            else none
  x'.map fun r => if r % 2 = 1 then fneg r else r

/-- shared part of decoding: from the field element y and the sign bit. -/
def decodeWith (y : Nat) (sign : Bool) : Option Point :=
  let yy := y * y % p
  let u := fsub yy 1
  let v := (d * yy + 1) % p
  match sqrtRatio u v with
  | none => none
  | some x =>
    let x := if sign then fneg x else x
    some ⟨x, y, 1, x * y % p⟩

/-- `Point.SetBytes`: accepts y ≥ p (reduced) and x = 0 with the sign bit set. 32 bytes required. -/
def decodePermissive (b : Bytes) : Option Point :=
  if b.length ≠ 32 then none else
  let n := leNat b
  decodeWith ((n % 2 ^ 255) % p) (n / 2 ^ 255 = 1)

/-- RFC 8032 §5.1.3: y < p required, and x = 0 with the sign bit set is rejected. -/
def decodeCanonical (b : Bytes) : Option Point :=
  if b.length ≠ 32 then none else
  let n := leNat b
  let y := n % 2 ^ 255
  if y ≥ p then none else
  match decodeWith y false with
  | none => none
  | some q => if q.X = 0 ∧ n / 2 ^ 255 = 1 then none else decodeWith y (n / 2 ^ 255 = 1)

/-- `Point.Bytes`: canonical encoding. -/
def encode (a : Point) : Bytes :=
  let zi := inv a.Z
  let x := a.X * zi % p
  let y := a.Y * zi % p
  leBytes (y + (x % 2) * 2 ^ 255) 32

/-- base point: y = 4/5, x even. -/
def base : Point := (decodeWith (4 * inv 5 % p) false).getD zero

/-- `Scalar.SetBytesWithClamping` then reduction: the clamped integer. -/
def clamp (h : Bytes) : Nat :=
  let n := leNat (h.take 32)
  (n % 2 ^ 254) / 8 * 8 + 2 ^ 254

end Iota.Edwards
