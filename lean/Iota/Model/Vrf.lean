/-
Model of pkg/vrf (vrf.go, proof.go, canonical.go): ECVRF-EDWARDS25519-SHA512-TAI as the sequence
of library calls the Go code performs, over the same `EdLib` interface as pkg/ed25519.
Core Lean only.
-/
import Iota.Model.Ed25519

namespace Iota.Vrf
open Iota.Ed25519
open Iota.Edwards (Bytes leNat leBytes L)

variable {G : Type}

def suiteString : Bytes := [0x03]
def ptLen : Nat := 32
def cLen : Nat := 16
def qLen : Nat := 32
def proofSize : Nat := ptLen + cLen + qLen

/-- `isCanonicalY` as written (succeed-fast test on the 32 bytes). -/
def isCanonicalY (x : Bytes) : Bool :=
  if (x.getD 0 0).toNat < 237 then true
  else if ((List.range 30).map (· + 1)).any (fun i => x.getD i 0 != 255) then true
  else (x.getD 31 0 ||| 128) != 255

/-- the two encodings with canonical y but non-canonical sign bit: y = 1 / y = p−1 with sign set. -/
def nonCanonicalSignBytes : List Bytes :=
  [ 0x01 :: List.replicate 30 0x00 ++ [0x80],
    0xec :: List.replicate 30 0xff ++ [0xff] ]

/-- `newPointFromCanonicalBytes` (on 32 bytes). -/
def pointFromCanonicalBytes (lib : EdLib G) (x : Bytes) : Option G :=
  if !isCanonicalY x then none
  else if nonCanonicalSignBytes.contains x then none
  else lib.decode x

/-- `encodeToCurveTryAndIncrement`: first counter 0…255 whose hash decodes canonically to a point whose
cofactor multiple is not the identity; `none` = the panic after 256 failures. -/
def encodeToCurve (lib : EdLib G) (salt alpha : Bytes) : Option G :=
  (List.range 256).findSome? fun ctr =>
    let hashString := lib.sha512 (suiteString ++ [0x01] ++ salt ++ alpha ++ [UInt8.ofNat ctr] ++ [0x00])
    match pointFromCanonicalBytes lib (hashString.take ptLen) with
    | none => none
    | some H =>
      let H8 := lib.smul 8 H
      if lib.eq H8 lib.zero then none else some H8

/-- `challengeGeneration`: the first 16 bytes of the hash as a little-endian scalar. -/
def challenge (lib : EdLib G) (p1 p2 : Bytes) (p3 p4 p5 : G) : Nat :=
  let cString := lib.sha512 (suiteString ++ [0x02] ++ p1 ++ p2 ++ lib.encode p3 ++ lib.encode p4 ++ lib.encode p5 ++ [0x00])
  leNat (cString.take cLen)

structure Proof (G : Type) where
  gamma : G
  c : Nat
  s : Nat

/-- `Proof.Bytes`. -/
def Proof.bytes (lib : EdLib G) (pr : Proof G) : Bytes :=
  lib.encode pr.gamma ++ (leBytes pr.c 32).take cLen ++ leBytes pr.s 32

/-- `Proof.Hash` = ECVRF_proof_to_hash. -/
def Proof.hash (lib : EdLib G) (pr : Proof G) : Bytes :=
  lib.sha512 (suiteString ++ [0x03] ++ lib.encode (lib.smul 8 pr.gamma) ++ [0x00])

/-- `Proof.SetBytes` / `UnmarshalBinary`: 80 bytes, canonical point, canonical scalar. -/
def Proof.setBytes (lib : EdLib G) (x : Bytes) : Option (Proof G) :=
  if x.length ≠ proofSize then none else
  match pointFromCanonicalBytes lib (x.take ptLen) with
  | none => none
  | some gamma =>
    let c := leNat ((x.drop ptLen).take cLen)
    let s := leNat (x.drop (ptLen + cLen))
    if s ≥ L then none else some ⟨gamma, c, s⟩

/-- `Prove` (`none` = panic: bad key length, or no curve point found). -/
def prove (lib : EdLib G) (privateKey alpha : Bytes) : Option (Proof G) :=
  if privateKey.length ≠ 64 then none else
  let seed := privateKey.take 32
  let publicKey := privateKey.drop 32
  let hsk := lib.sha512 seed
  let x := Edwards.clamp hsk
  match encodeToCurve lib publicKey alpha with
  | none => none
  | some H =>
    let hString := lib.encode H
    let gamma := lib.smul x H
    let k := uniformScalar (lib.sha512 (hsk.drop 32 ++ hString))
    let c := challenge lib publicKey hString gamma (lib.smul k lib.base) (lib.smul k H)
    let s := (c * (x % L) + k) % L
    some ⟨gamma, c, s⟩

/-- `ProofToHash`. -/
def proofToHash (lib : EdLib G) (pi : Bytes) : Option Bytes :=
  (Proof.setBytes lib pi).map (Proof.hash lib)

/-- `validateKey`: Y has no small order. -/
def validateKey (lib : EdLib G) (Y : G) : Bool := !lib.eq (lib.smul 8 Y) lib.zero

/-- `Verify` (`none` = panic on bad key length / no curve point). Returns (valid, hash). -/
def verify (lib : EdLib G) (publicKey alpha pi : Bytes) : Option (Bool × Bytes) :=
  if publicKey.length ≠ 32 then none else
  match pointFromCanonicalBytes lib publicKey with
  | none => some (false, [])
  | some Y =>
    if !validateKey lib Y then some (false, []) else
    match Proof.setBytes lib pi with
    | none => some (false, [])
    | some D =>
      match encodeToCurve lib publicKey alpha with
      | none => none
      | some H =>
        -- U = s·B − c·Y ; V = s·H − c·Γ
        let U := lib.add (lib.smul D.c (lib.neg Y)) (lib.smul D.s lib.base)
        let V := lib.add (lib.smul D.s H) (lib.smul D.c (lib.neg D.gamma))
        let c' := challenge lib publicKey (lib.encode H) D.gamma U V
        if D.c ≠ c' then some (false, []) else some (true, Proof.hash lib D)

end Iota.Vrf
