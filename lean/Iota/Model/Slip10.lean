/-
Model of pkg/slip10 (slip10.go) with curves and keys as plain values (`Curve κ`), of
pkg/slip10/elliptic (curve.go, key.go) over an abstract point type, and of pkg/slip10/eddsa.
HMAC-SHA512 and HASH160 are parameters.  The two retry loops take fuel (Go loops until a valid key
appears); running out of fuel is the explicit outcome `.outOfFuel`.  Core Lean only.
-/
namespace Iota.Slip10

abbrev Bytes := List UInt8

def hardened : Nat := 2 ^ 31

inductive KeyErr
  | invalidKey            -- slip10.ErrInvalidKey: retry
  | other (code : Nat)    -- any other error: permanent
deriving DecidableEq, Repr

/-- a `slip10.Curve` together with the behaviour of its `slip10.Key`s. -/
structure Curve (κ : Type) where
  hmacKey : Bytes
  newPrivateKey : Bytes → Except KeyErr κ
  bytes : κ → Bytes
  isPrivate : κ → Bool
  pub : κ → κ
  shift : κ → Bytes → Except KeyErr κ
  /-- the optional `HardenedOnly()` marker (false when the key type does not implement it) -/
  hardenedOnly : κ → Bool

structure ExtKey (κ : Type) where
  chainCode : Bytes
  key : κ
  parent : Option κ

inductive Err
  | outOfFuel
  | hardenedChildPublicKey
  | notHardened
  | curve (code : Nat)
deriving DecidableEq, Repr

/-- `uint32Bytes`: big-endian. -/
def ser32 (i : Nat) : Bytes :=
  [UInt8.ofNat (i / 2 ^ 24 % 256), UInt8.ofNat (i / 2 ^ 16 % 256), UInt8.ofNat (i / 2 ^ 8 % 256), UInt8.ofNat (i % 256)]

section
variable {κ : Type} (hmac : Bytes → Bytes → Bytes) (c : Curve κ)

/-- the `step1` loop of `NewMasterKey`: I ← HMAC(curve key, S); retry with S ← I on ErrInvalidKey only. -/
def masterLoop : Nat → Bytes → Except Err (ExtKey κ)
  | 0, _ => .error .outOfFuel
  | fuel + 1, seed =>
    let inter := hmac c.hmacKey seed
    match c.newPrivateKey (inter.take 32) with
    | .ok k => .ok { chainCode := inter.drop 32, key := k, parent := none }
    | .error .invalidKey => masterLoop fuel inter
    | .error (.other e) => .error (.curve e)

def newMasterKey (fuel : Nat) (seed : Bytes) : Except Err (ExtKey κ) := masterLoop hmac c fuel seed

/-- the `step2` loop of `DeriveChild`: retry with I ← HMAC(chain, 0x01 ‖ I_R ‖ ser32(i)) on ErrInvalidKey only. -/
def childLoop (e : ExtKey κ) (index : Nat) : Nat → Bytes → Except Err (ExtKey κ)
  | 0, _ => .error .outOfFuel
  | fuel + 1, inter =>
    match c.shift e.key (inter.take 32) with
    | .ok k => .ok { chainCode := inter.drop 32, key := k, parent := some e.key }
    | .error .invalidKey => childLoop e index fuel (hmac e.chainCode (0x01 :: (inter.drop 32 ++ ser32 index)))
    | .error (.other x) => .error (.curve x)

/-- `ExtendedKey.DeriveChild`. -/
def deriveChild (fuel : Nat) (e : ExtKey κ) (index : Nat) : Except Err (ExtKey κ) :=
  if index ≥ hardened then
    if !c.isPrivate e.key then .error .hardenedChildPublicKey
    else childLoop hmac c e index fuel (hmac e.chainCode (0x00 :: (c.bytes e.key ++ ser32 index)))
  else
    if c.hardenedOnly e.key then .error .notHardened
    else childLoop hmac c e index fuel (hmac e.chainCode (c.bytes (c.pub e.key) ++ ser32 index))

def deriveFrom (fuel : Nat) : ExtKey κ → List Nat → Except Err (ExtKey κ)
  | e, [] => .ok e
  | e, i :: is =>
    match deriveChild hmac c fuel e i with
    | .ok e' => deriveFrom fuel e' is
    | .error x => .error x

/-- `DeriveKeyFromPath`. -/
def deriveKeyFromPath (fuel : Nat) (seed : Bytes) (path : List Nat) : Except Err (ExtKey κ) :=
  match newMasterKey hmac c fuel seed with
  | .ok m => deriveFrom hmac c fuel m path
  | .error x => .error x

/-- `ExtendedKey.Public`. -/
def ExtKey.public (e : ExtKey κ) : ExtKey κ := { e with key := c.pub e.key }

/-- `ExtendedKey.Fingerprint` with HASH160 = RIPEMD160 ∘ SHA256 as a parameter. -/
def fingerprint (hash160 : Bytes → Bytes) (e : ExtKey κ) : Bytes :=
  match e.parent with
  | none => [0, 0, 0, 0]
  | some p => (hash160 (c.bytes (c.pub p))).take 4
end

/-! ### pkg/slip10/elliptic: keys over a Weierstrass curve given by its operations -/

/-- what `elliptic.Curve` contributes: group order, base multiplication, addition, encoding. -/
structure WCurve (Pt : Type) where
  n : Nat
  /-- `ScalarBaseMult(k)` for a big-endian byte string -/
  baseMul : Bytes → Pt
  add : Pt → Pt → Pt
  /-- the result is (0, 0) -/
  isInfinity : Pt → Bool
  /-- `elliptic.MarshalCompressed` (33 bytes) -/
  compress : Pt → Bytes

inductive WKey (Pt : Type)
  | priv (k : Nat)
  | pub (p : Pt)

/-- `new(big.Int).SetBytes`. -/
def beNat (b : Bytes) : Nat := b.foldl (fun acc x => acc * 256 + x.toNat) 0

/-- minimal big-endian bytes, `big.Int.Bytes()`. -/
def natBytes : Nat → Nat → Bytes
  | 0, _ => []
  | fuel + 1, n => if n = 0 then [] else natBytes fuel (n / 256) ++ [UInt8.ofNat (n % 256)]

/-- `FillBytes` into 32 bytes (value < 2^256). -/
def fill32 (n : Nat) : Bytes := (List.range 32).map fun i => UInt8.ofNat (n / 256 ^ (31 - i) % 256)

def wCurve {Pt : Type} (w : WCurve Pt) (hmacKey : Bytes) : Curve (WKey Pt) where
  hmacKey := hmacKey
  newPrivateKey := fun buf =>
    let sc := beNat buf
    if sc = 0 ∨ sc ≥ w.n then .error .invalidKey else .ok (.priv sc)
  bytes := fun
    | .priv k => fill32 k
    | .pub p => w.compress p
  isPrivate := fun | .priv _ => true | .pub _ => false
  pub := fun
    | .priv k => .pub (w.baseMul (natBytes 40 k))
    | .pub p => .pub p
  shift := fun key buf =>
    match key with
    | .priv k =>
      let sc1 := beNat buf
      if sc1 ≥ w.n then .error .invalidKey
      else
        let sc := (sc1 + k) % w.n
        if sc = 0 then .error .invalidKey else .ok (.priv sc)
    | .pub p =>
      if beNat buf ≥ w.n then .error .invalidKey
      else
        let q := w.add p (w.baseMul buf)
        if w.isInfinity q then .error .invalidKey else .ok (.pub q)
  hardenedOnly := fun _ => false

/-! ### pkg/slip10/eddsa -/

inductive EdKey
  | seed (s : Bytes)
  | pub (a : Bytes)

/-- ed25519 curve: every 32-byte value is a key; `edPublic` maps a seed to the 32-byte public key. -/
def edCurve (edPublic : Bytes → Bytes) : Curve EdKey where
  hmacKey := [101, 100, 50, 53, 53, 49, 57, 32, 115, 101, 101, 100]   -- "ed25519 seed"
  newPrivateKey := fun buf => .ok (.seed buf)
  bytes := fun
    | .seed s => s
    | .pub a => List.replicate (33 - a.length) 0 ++ a
  isPrivate := fun | .seed _ => true | .pub _ => false
  pub := fun
    | .seed s => .pub (edPublic s)
    | .pub a => .pub a
  shift := fun key buf =>
    match key with
    | .seed _ => .ok (.seed buf)
    | .pub _ => .error (.other 1)     -- ErrNotHardened
  hardenedOnly := fun _ => true

end Iota.Slip10
