import Iota.Spec.Bip32Path

namespace Iota.Proofs.Bip32Path
open Iota.Bip32Path Iota.Spec.Bip32Path

/-! ### decimal value -/

theorem decValueAux_append (acc : Nat) (xs : Str) (d : UInt8) :
    decValueAux acc (xs ++ [d]) = decValueAux acc xs * 10 + digitVal d := by
  induction xs generalizing acc with
  | nil => simp [decValueAux]
  | cons x xs ih => simp [decValueAux, ih]

theorem decLE_append (xs : Str) (d : UInt8) :
    decLE (xs ++ [d]) = decLE xs + 10 ^ xs.length * digitVal d := by
  induction xs with
  | nil => simp [decLE]
  | cons x xs ih =>
    simp only [List.cons_append, decLE, ih, List.length_cons, Nat.pow_succ]
    rw [Nat.mul_add, Nat.add_assoc, Nat.mul_comm (10 ^ xs.length) 10, Nat.mul_assoc]

theorem decValueAux_eq (acc : Nat) (ds : Str) :
    decValueAux acc ds = acc * 10 ^ ds.length + decLE ds.reverse := by
  induction ds generalizing acc with
  | nil => simp [decValueAux, decLE]
  | cons d ds ih =>
    simp only [decValueAux, List.reverse_cons, decLE_append, List.length_reverse, List.length_cons, ih,
      Nat.pow_succ]
    rw [Nat.add_mul, Nat.mul_assoc, Nat.mul_comm 10 (10 ^ ds.length), Nat.mul_comm (digitVal d)]
    omega

theorem decValue_eq_decimal (ds : Str) : decValue ds = decimal ds := by
  unfold decValue decimal
  rw [decValueAux_eq]; simp

/-- leading zeros do not change the value. -/
theorem decValue_leading_zeros (k : Nat) (ds : Str) :
    decValue (List.replicate k 48 ++ ds) = decValue ds := by
  unfold decValue
  induction k with
  | zero => simp
  | succ k ih =>
    simp only [List.replicate_succ, List.cons_append, decValueAux]
    have : digitVal 48 = 0 := by unfold digitVal; decide
    rw [this]
    simpa using ih

/-! ### the decimal printer -/

theorem ofNat_toNat_small (n : Nat) (h : n < 256) : (UInt8.ofNat n).toNat = n := by
  simp [UInt8.toNat_ofNat']; omega

theorem digit_isDigit (n : Nat) (h : n < 10) : isDigit (UInt8.ofNat (48 + n)) = true := by
  unfold isDigit
  rw [ofNat_toNat_small _ (by omega)]
  simp; omega

theorem decDigitsAux_spec (fuel n : Nat) (h : n < 10 ^ fuel) (hf : 0 < fuel) :
    decDigitsAux fuel n ≠ [] ∧ (∀ d ∈ decDigitsAux fuel n, isDigit d = true) ∧
    decValueAux 0 (decDigitsAux fuel n) = n := by
  induction fuel generalizing n with
  | zero => omega
  | succ fuel ih =>
    unfold decDigitsAux
    split
    · rename_i h10
      refine ⟨by simp, ?_, ?_⟩
      · intro d hd
        simp only [List.mem_singleton] at hd
        rw [hd]; exact digit_isDigit n h10
      · simp only [decValueAux]
        unfold digitVal
        rw [ofNat_toNat_small _ (by omega)]; omega
    · rename_i h10
      have hfuel : 0 < fuel := by
        rcases Nat.eq_zero_or_pos fuel with h0 | h0
        · subst h0; simp at h; omega
        · exact h0
      have hdiv : n / 10 < 10 ^ fuel := by
        rw [Nat.pow_succ] at h
        omega
      obtain ⟨_, hd, hv⟩ := ih (n / 10) hdiv hfuel
      refine ⟨by simp, ?_, ?_⟩
      · intro d hmem
        rcases List.mem_append.mp hmem with h1 | h1
        · exact hd d h1
        · simp only [List.mem_singleton] at h1
          rw [h1]; exact digit_isDigit _ (by omega)
      · rw [decValueAux_append, hv]
        unfold digitVal
        rw [ofNat_toNat_small _ (by omega)]
        omega

theorem decDigits_spec (n : Nat) (h : n < 2 ^ 32) :
    decDigits n ≠ [] ∧ (∀ d ∈ decDigits n, isDigit d = true) ∧ decValue (decDigits n) = n := by
  have : n < 10 ^ 10 := by omega
  exact decDigitsAux_spec 10 n this (by omega)

/-! ### takeWhile / dropWhile on a component -/

theorem isDigit_slash : isDigit chSlash = false := by decide
theorem isDigit_H : isDigit chH = false := by decide
theorem isDigit_apos : isDigit chApos = false := by decide
theorem isDigit_m : isDigit chM = false := by decide

theorem takeWhile_digits_append (ds rest : Str) (hd : ∀ d ∈ ds, isDigit d = true)
    (hr : ∀ c, rest.head? = some c → isDigit c = false) :
    (ds ++ rest).takeWhile isDigit = ds ∧ (ds ++ rest).dropWhile isDigit = rest := by
  induction ds with
  | nil =>
    cases rest with
    | nil => simp
    | cons c cs =>
      have := hr c rfl
      simp [this]
  | cons d ds ih =>
    have h1 := hd d (by simp)
    have := ih (fun x hx => hd x (by simp [hx]))
    simp [h1, this.1, this.2]

/-! ### split / join -/

theorem split_ne_nil (s : Str) : split s ≠ [] := by simp [split]

theorem joinSlash_cons (x : Str) (xs : List Str) (h : xs ≠ []) :
    joinSlash (x :: xs) = x ++ chSlash :: joinSlash xs := by
  cases xs with
  | nil => exact absurd rfl h
  | cons y ys => rfl

theorem joinSlash_cons_cons (c : UInt8) (x : Str) (xs : List Str) :
    joinSlash ((c :: x) :: xs) = c :: joinSlash (x :: xs) := by
  cases xs with
  | nil => rfl
  | cons y ys => rfl

theorem joinSlash_split (s : Str) : joinSlash (split s) = s := by
  unfold split
  induction s with
  | nil => rfl
  | cons c cs ih =>
    simp only [splitAux]
    split
    · rename_i hc
      rw [joinSlash_cons _ _ (by simp), ih, hc]; rfl
    · rw [joinSlash_cons_cons, ih]

def NoSlash (x : Str) : Prop := ∀ c ∈ x, c ≠ chSlash

theorem splitAux_noSlash_append (x : Str) (hx : NoSlash x) (rest : Str) :
    splitAux (x ++ chSlash :: rest) = (x, (splitAux rest).1 :: (splitAux rest).2) := by
  induction x with
  | nil => simp [splitAux]
  | cons c cs ih =>
    have hc : c ≠ chSlash := hx c (by simp)
    have := ih (fun d hd => hx d (by simp [hd]))
    simp [splitAux, hc, this]

theorem splitAux_noSlash (x : Str) (hx : NoSlash x) : splitAux x = (x, []) := by
  induction x with
  | nil => simp [splitAux]
  | cons c cs ih =>
    have hc : c ≠ chSlash := hx c (by simp)
    have := ih (fun d hd => hx d (by simp [hd]))
    simp [splitAux, hc, this]

theorem split_joinSlash (xs : List Str) (hne : xs ≠ []) (hx : ∀ x ∈ xs, NoSlash x) :
    split (joinSlash xs) = xs := by
  induction xs with
  | nil => exact absurd rfl hne
  | cons x xs ih =>
    cases xs with
    | nil =>
      simp only [joinSlash, split]
      rw [splitAux_noSlash x (hx x (by simp))]
    | cons y ys =>
      simp only [joinSlash, split]
      rw [splitAux_noSlash_append x (hx x (by simp))]
      have := ih (by simp) (fun z hz => hx z (by simp [hz]))
      simp only [split] at this
      simp [this]

/-! ### components -/

theorem comp_noSlash (c : Comp) (h : c.WF) : NoSlash c.text := by
  intro x hx
  unfold Comp.text at hx
  rcases List.mem_append.mp hx with h1 | h1
  · intro hs
    have := h.2.1 x h1
    rw [hs, isDigit_slash] at this
    exact absurd this (by simp)
  · rcases h.2.2.2 with hm | hm | hm <;> rw [hm] at h1 <;> simp at h1
    · rw [h1]; decide
    · rw [h1]; decide

theorem parseKey_text (c : Comp) (h : c.WF) : parseKey c.text = some c.index := by
  obtain ⟨hne, hd, hv, hm⟩ := h
  unfold parseKey Comp.text Comp.index
  have hr : ∀ x, c.marker.toList.head? = some x → isDigit x = false := by
    intro x hx
    rcases hm with hm | hm | hm <;> rw [hm] at hx <;> simp at hx
    · rw [← hx]; exact isDigit_H
    · rw [← hx]; exact isDigit_apos
  obtain ⟨ht, hdw⟩ := takeWhile_digits_append c.digits c.marker.toList hd hr
  simp only [ht, hdw]
  have hne' : c.digits.isEmpty = false := by
    cases hc : c.digits with
    | nil => exact absurd hc hne
    | cons _ _ => rfl
  rw [← decValue_eq_decimal] at hv ⊢
  rcases hm with hm | hm | hm <;>
    simp [hm, hne', parseUint31, hv, hardened, chH, chApos]

theorem parseKey_some (k : Str) (v : Nat) (h : parseKey k = some v) :
    ∃ c : Comp, c.WF ∧ k = c.text ∧ v = c.index := by
  unfold parseKey at h
  have hk : k = k.takeWhile isDigit ++ k.dropWhile isDigit := (List.takeWhile_append_dropWhile).symm
  have hdig : ∀ d ∈ k.takeWhile isDigit, isDigit d = true := by
    intro d hd
    exact List.all_eq_true.mp (@List.all_takeWhile _ isDigit k) d hd
  simp only at h
  split at h
  · simp at h
  · rename_i hne
    have hne' : k.takeWhile isDigit ≠ [] := by
      intro h0; rw [h0] at hne; simp at hne
    split at h
    · rename_i hrest
      unfold parseUint31 at h
      split at h
      · rename_i hlt
        refine ⟨⟨k.takeWhile isDigit, none⟩, ⟨hne', hdig, ?_, Or.inl rfl⟩, ?_, ?_⟩
        · rw [← decValue_eq_decimal]; exact hlt
        · simp only [Comp.text]; rw [hrest] at hk; simpa using hk
        · simp only [Comp.index]; rw [← decValue_eq_decimal]; simpa using h.symm
      · simp at h
    · split at h
      · rename_i hrest
        unfold parseUint31 at h
        split at h
        · rename_i hlt
          rcases hrest with hrest | hrest
          · refine ⟨⟨k.takeWhile isDigit, some chH⟩, ⟨hne', hdig, ?_, Or.inr (Or.inl rfl)⟩, ?_, ?_⟩
            · rw [← decValue_eq_decimal]; exact hlt
            · simp only [Comp.text]; rw [hrest] at hk; simpa using hk
            · simp only [Comp.index]; rw [← decValue_eq_decimal]
              simp [hardened] at h; simp; omega
          · refine ⟨⟨k.takeWhile isDigit, some chApos⟩, ⟨hne', hdig, ?_, Or.inr (Or.inr rfl)⟩, ?_, ?_⟩
            · rw [← decValue_eq_decimal]; exact hlt
            · simp only [Comp.text]; rw [hrest] at hk; simpa using hk
            · simp only [Comp.index]; rw [← decValue_eq_decimal]
              simp [hardened] at h; simp; omega
        · simp at h
      · simp at h

theorem mapKeys_texts (cs : List Comp) (h : ∀ c ∈ cs, c.WF) :
    mapKeys (cs.map Comp.text) = some (cs.map Comp.index) := by
  induction cs with
  | nil => rfl
  | cons c cs ih =>
    simp only [List.map_cons, mapKeys, parseKey_text c (h c (by simp)),
      ih (fun x hx => h x (by simp [hx]))]

theorem mapKeys_some (ks : List Str) (p : List Nat) (h : mapKeys ks = some p) :
    ∃ cs : List Comp, (∀ c ∈ cs, c.WF) ∧ ks = cs.map Comp.text ∧ p = cs.map Comp.index := by
  induction ks generalizing p with
  | nil =>
    simp only [mapKeys, Option.some.injEq] at h
    exact ⟨[], by simp, rfl, h.symm⟩
  | cons k ks ih =>
    simp only [mapKeys] at h
    split at h
    · simp at h
    · rename_i v hv
      split at h
      · simp at h
      · rename_i vs hvs
        simp only [Option.some.injEq] at h
        obtain ⟨c, hc, hk, hvi⟩ := parseKey_some k v hv
        obtain ⟨cs, hcs, hks, hps⟩ := ih vs hvs
        refine ⟨c :: cs, ?_, ?_, ?_⟩
        · intro x hx
          rcases List.mem_cons.mp hx with rfl | hx
          · exact hc
          · exact hcs x hx
        · simp [hk, hks]
        · simp [← h, hvi, hps]

/-! ### the grammar theorem -/

theorem text_head_digit (c : Comp) (h : c.WF) : ∃ d rest, c.text = d :: rest ∧ isDigit d = true := by
  obtain ⟨hne, hd, _, _⟩ := h
  unfold Comp.text
  cases hc : c.digits with
  | nil => exact absurd hc hne
  | cons d ds => exact ⟨d, ds ++ c.marker.toList, rfl, hd d (by simp [hc])⟩

theorem joinSlash_head (cs : List Comp) (hne : cs ≠ []) (h : ∀ c ∈ cs, c.WF) :
    ∃ d rest, joinSlash (cs.map Comp.text) = d :: rest ∧ isDigit d = true := by
  cases cs with
  | nil => exact absurd rfl hne
  | cons c cs =>
    obtain ⟨d, rest, ht, hd⟩ := text_head_digit c (h c (by simp))
    cases cs with
    | nil => exact ⟨d, rest, by simp [joinSlash, ht], hd⟩
    | cons c' cs' =>
      exact ⟨d, rest ++ chSlash :: joinSlash ((c' :: cs').map Comp.text), by simp [joinSlash, ht], hd⟩

theorem parsePath_of_grammar (s : Str) (p : List Nat) (h : Grammar s p) : parsePath s = some p := by
  cases h with
  | empty => simp [parsePath]
  | m => simp [parsePath]
  | bare cs hne hwf =>
    obtain ⟨d, rest, hs, hd⟩ := joinSlash_head cs hne hwf
    have hdm : d ≠ chM := by intro h; rw [h, isDigit_m] at hd; simp at hd
    have hsplit := split_joinSlash (cs.map Comp.text) (by simpa using hne)
      (by intro x hx; obtain ⟨c, hc, rfl⟩ := List.mem_map.mp hx; exact comp_noSlash c (hwf c hc))
    unfold parsePath
    rw [hs] at hsplit ⊢
    have htrim : trimPrefixM (d :: rest) = d :: rest := by
      unfold trimPrefixM
      cases rest with
      | nil => simp
      | cons r rs => simp [hdm]
    simp only [htrim, hsplit]
    rw [if_neg (by simp [hdm])]
    exact mapKeys_texts cs hwf
  | rooted cs hne hwf =>
    obtain ⟨d, rest, hs, hd⟩ := joinSlash_head cs hne hwf
    have hsplit := split_joinSlash (cs.map Comp.text) (by simpa using hne)
      (by intro x hx; obtain ⟨c, hc, rfl⟩ := List.mem_map.mp hx; exact comp_noSlash c (hwf c hc))
    unfold parsePath
    have htrim : trimPrefixM (chM :: chSlash :: joinSlash (cs.map Comp.text)) = joinSlash (cs.map Comp.text) := by
      simp [trimPrefixM]
    rw [htrim, hsplit, if_neg (by simp)]
    exact mapKeys_texts cs hwf

theorem grammar_of_parsePath (s : Str) (p : List Nat) (h : parsePath s = some p) : Grammar s p := by
  unfold parsePath at h
  split at h
  · rename_i hs
    simp only [Option.some.injEq] at h
    rcases hs with hs | hs <;> rw [hs, ← h]
    · exact Grammar.empty
    · exact Grammar.m
  · obtain ⟨cs, hwf, hks, hps⟩ := mapKeys_some _ p h
    have hne : cs ≠ [] := by
      intro h0; rw [h0] at hks; exact split_ne_nil _ (by simpa using hks)
    have hjoin : trimPrefixM s = joinSlash (cs.map Comp.text) := by
      rw [← hks, joinSlash_split]
    rw [hps]
    unfold trimPrefixM at hjoin
    split at hjoin
    · rename_i htake
      have : s = chM :: chSlash :: s.drop 2 := by
        have := List.take_append_drop 2 s
        rw [htake] at this; exact this.symm
      rw [this, hjoin]
      exact Grammar.rooted cs hne hwf
    · rw [hjoin]
      exact Grammar.bare cs hne hwf

/-! ### round trip -/

theorem printKey_eq (idx : Nat) (h : idx < 2 ^ 32) :
    ∃ c : Comp, c.WF ∧ printKey idx = chSlash :: c.text ∧ c.index = idx := by
  have hlt : idx % hardened < 2 ^ 32 := by unfold hardened; omega
  obtain ⟨hne, hd, hv⟩ := decDigits_spec (idx % hardened) hlt
  by_cases hh : idx ≥ hardened
  · refine ⟨⟨decDigits (idx % hardened), some chApos⟩, ⟨hne, hd, ?_, Or.inr (Or.inr rfl)⟩, ?_, ?_⟩
    · rw [← decValue_eq_decimal, hv]; unfold hardened; omega
    · simp [printKey, Comp.text, hh]
    · simp only [Comp.index]; rw [← decValue_eq_decimal, hv]; unfold hardened at *; simp; omega
  · refine ⟨⟨decDigits (idx % hardened), none⟩, ⟨hne, hd, ?_, Or.inl rfl⟩, ?_, ?_⟩
    · rw [← decValue_eq_decimal, hv]; unfold hardened; omega
    · simp [printKey, Comp.text, hh]
    · simp only [Comp.index]; rw [← decValue_eq_decimal, hv]; unfold hardened at *; simp; omega

theorem flatMap_printKey (p : List Nat) (h : ∀ i ∈ p, i < 2 ^ 32) (hne : p ≠ []) :
    ∃ cs : List Comp, cs ≠ [] ∧ (∀ c ∈ cs, c.WF) ∧
      p.flatMap printKey = chSlash :: joinSlash (cs.map Comp.text) ∧ cs.map Comp.index = p := by
  induction p with
  | nil => exact absurd rfl hne
  | cons i p ih =>
    obtain ⟨c, hc, hpk, hci⟩ := printKey_eq i (h i (by simp))
    cases p with
    | nil =>
      exact ⟨[c], by simp, by simpa using hc, by simp [hpk, joinSlash], by simp [hci]⟩
    | cons j q =>
      obtain ⟨cs, hcs, hwf, hfm, hidx⟩ := ih (fun x hx => h x (by simp [hx])) (by simp)
      refine ⟨c :: cs, by simp, ?_, ?_, ?_⟩
      · intro x hx
        rcases List.mem_cons.mp hx with rfl | hx
        · exact hc
        · exact hwf x hx
      · cases cs with
        | nil => exact absurd rfl hcs
        | cons c' cs' =>
          rw [List.flatMap_cons, hfm, hpk]
          simp [joinSlash]
      · simp [hci, hidx]

theorem parse_print (p : List Nat) (h : ∀ i ∈ p, i < 2 ^ 32) : parsePath (printPath p) = some p := by
  unfold printPath
  cases hp : p with
  | nil => simp [parsePath]
  | cons i q =>
    obtain ⟨cs, hcs, hwf, hfm, hidx⟩ := flatMap_printKey p h (by rw [hp]; simp)
    rw [← hp, hfm, ← hidx]
    exact parsePath_of_grammar _ _ (Grammar.rooted cs hcs hwf)

end Iota.Proofs.Bip32Path

namespace Iota.Proofs.Bip32Path
open Iota.Bip32Path Iota.Spec.Bip32Path

/-- leading zeros of a component do not change what it parses to. -/
theorem parseKey_leading_zeros (k : Nat) (ds mk : Str) (hne : ds ≠ [])
    (hd : ∀ d ∈ ds, isDigit d = true) (hm : mk = [] ∨ mk = [chH] ∨ mk = [chApos]) :
    parseKey (List.replicate k 48 ++ ds ++ mk) = parseKey (ds ++ mk) := by
  have hr : ∀ x, mk.head? = some x → isDigit x = false := by
    intro x hx
    rcases hm with hm | hm | hm <;> rw [hm] at hx <;> simp at hx
    · rw [← hx]; exact isDigit_H
    · rw [← hx]; exact isDigit_apos
  have hz : ∀ d ∈ List.replicate k 48 ++ ds, isDigit d = true := by
    intro d hmem
    rcases List.mem_append.mp hmem with h1 | h1
    · rw [(List.mem_replicate.mp h1).2]; decide
    · exact hd d h1
  obtain ⟨t1, d1⟩ := takeWhile_digits_append (List.replicate k 48 ++ ds) mk hz hr
  obtain ⟨t2, d2⟩ := takeWhile_digits_append ds mk hd hr
  unfold parseKey
  simp only [t1, d1, t2, d2, parseUint31, decValue_leading_zeros]
  have e1 : (List.replicate k 48 ++ ds).isEmpty = false := by
    cases ds with
    | nil => exact absurd rfl hne
    | cons _ _ => simp
  have e2 : ds.isEmpty = false := by
    cases ds with
    | nil => exact absurd rfl hne
    | cons _ _ => rfl
  simp [e1, e2]

end Iota.Proofs.Bip32Path
