import Iota.Model.Slip10

namespace Iota.Proofs.Slip10
open Iota.Slip10

variable {κ : Type} (hmac : Bytes → Bytes → Bytes) (c : Curve κ)

/-! ### the master-key loop is SLIP-0010's "first valid I in the sequence I₀ = HMAC(key, S), Iₙ₊₁ = HMAC(key, Iₙ)" -/

/-- the sequence of candidates. -/
def masterSeq (seed : Bytes) : Nat → Bytes
  | 0 => hmac c.hmacKey seed
  | n + 1 => hmac c.hmacKey (masterSeq seed n)

theorem masterSeq_shift (seed : Bytes) (n : Nat) :
    masterSeq hmac c (hmac c.hmacKey seed) n = masterSeq hmac c seed (n + 1) := by
  induction n with
  | zero => rfl
  | succ n ih => simp only [masterSeq, ih]

/-- `NewMasterKey` returns key `k` with chain code `cc` iff some candidate Iₙ (n < fuel) yields `k`, its right half
is `cc`, and every earlier candidate was rejected with ErrInvalidKey. -/
theorem masterLoop_ok_iff (fuel : Nat) (seed : Bytes) (e : ExtKey κ) :
    masterLoop hmac c fuel seed = .ok e ↔
      ∃ n, n < fuel ∧ (∀ m, m < n → c.newPrivateKey ((masterSeq hmac c seed m).take 32) = .error .invalidKey) ∧
        c.newPrivateKey ((masterSeq hmac c seed n).take 32) = .ok e.key ∧
        e.chainCode = (masterSeq hmac c seed n).drop 32 ∧ e.parent = none := by
  induction fuel generalizing seed with
  | zero => simp [masterLoop]
  | succ fuel ih =>
    simp only [masterLoop]
    cases hk : c.newPrivateKey ((hmac c.hmacKey seed).take 32) with
    | ok k =>
      simp only []
      constructor
      · intro h
        simp only [Except.ok.injEq] at h
        subst h
        exact ⟨0, by omega, by intro m hm; omega, by simpa [masterSeq] using hk, rfl, rfl⟩
      · rintro ⟨n, _, hprev, hok, hcc, hp⟩
        cases n with
        | zero =>
          simp only [masterSeq] at hok hcc
          rw [hk] at hok
          simp only [Except.ok.injEq] at hok
          cases e; simp_all
        | succ n =>
          have := hprev 0 (by omega)
          simp only [masterSeq] at this
          rw [hk] at this; simp at this
    | error err =>
      cases err with
      | invalidKey =>
        simp only []
        rw [ih]
        constructor
        · rintro ⟨n, hn, hprev, hok, hcc, hp⟩
          refine ⟨n + 1, by omega, ?_, ?_, ?_, hp⟩
          · intro m hm
            cases m with
            | zero => simpa [masterSeq] using hk
            | succ m => rw [← masterSeq_shift]; exact hprev m (by omega)
          · rw [← masterSeq_shift]; exact hok
          · rw [← masterSeq_shift]; exact hcc
        · rintro ⟨n, hn, hprev, hok, hcc, hp⟩
          cases n with
          | zero =>
            simp only [masterSeq] at hok
            rw [hk] at hok; simp at hok
          | succ n =>
            refine ⟨n, by omega, ?_, ?_, ?_, hp⟩
            · intro m hm; rw [masterSeq_shift]; exact hprev (m + 1) (by omega)
            · rw [masterSeq_shift]; exact hok
            · rw [masterSeq_shift]; exact hcc
      | other x =>
        simp only []
        constructor
        · intro h; simp at h
        · rintro ⟨n, _, hprev, hok, _, _⟩
          cases n with
          | zero => simp only [masterSeq] at hok; rw [hk] at hok; simp at hok
          | succ n =>
            have := hprev 0 (by omega)
            simp only [masterSeq] at this
            rw [hk] at this; simp at this

/-- a curve error other than ErrInvalidKey is returned to the caller (not retried) — master key. -/
theorem masterLoop_permanent (fuel : Nat) (seed : Bytes) (x : Nat)
    (h : c.newPrivateKey ((hmac c.hmacKey seed).take 32) = .error (.other x)) :
    masterLoop hmac c (fuel + 1) seed = .error (.curve x) := by
  simp only [masterLoop, h]

/-- … and child derivation. -/
theorem childLoop_permanent (e : ExtKey κ) (index fuel : Nat) (inter : Bytes) (x : Nat)
    (h : c.shift e.key (inter.take 32) = .error (.other x)) :
    childLoop hmac c e index (fuel + 1) inter = .error (.curve x) := by
  simp only [childLoop, h]

/-- the retry of child derivation uses I ← HMAC(chain, 0x01 ‖ I_R ‖ ser32(i)) and happens on ErrInvalidKey only. -/
theorem childLoop_retry (e : ExtKey κ) (index fuel : Nat) (inter : Bytes)
    (h : c.shift e.key (inter.take 32) = .error .invalidKey) :
    childLoop hmac c e index (fuel + 1) inter =
      childLoop hmac c e index fuel (hmac e.chainCode (0x01 :: (inter.drop 32 ++ ser32 index))) := by
  simp only [childLoop, h]

theorem childLoop_accept (e : ExtKey κ) (index fuel : Nat) (inter : Bytes) (k : κ)
    (h : c.shift e.key (inter.take 32) = .ok k) :
    childLoop hmac c e index (fuel + 1) inter =
      .ok { chainCode := inter.drop 32, key := k, parent := some e.key } := by
  simp only [childLoop, h]

/-- CKD inputs: hardened uses 0x00 ‖ ser256(k) ‖ ser32(i), normal uses serP(point(k)) ‖ ser32(i). -/
theorem deriveChild_hardened (fuel : Nat) (e : ExtKey κ) (i : Nat) (hi : hardened ≤ i) (hp : c.isPrivate e.key = true) :
    deriveChild hmac c fuel e i =
      childLoop hmac c e i fuel (hmac e.chainCode (0x00 :: (c.bytes e.key ++ ser32 i))) := by
  simp [deriveChild, hi, hp]

theorem deriveChild_normal (fuel : Nat) (e : ExtKey κ) (i : Nat) (hi : i < hardened) (hh : c.hardenedOnly e.key = false) :
    deriveChild hmac c fuel e i =
      childLoop hmac c e i fuel (hmac e.chainCode (c.bytes (c.pub e.key) ++ ser32 i)) := by
  have : ¬ (i ≥ hardened) := by omega
  simp [deriveChild, this, hh]

/-- derivations SLIP-0010 does not define fail with an error. -/
theorem hardened_child_of_public (fuel : Nat) (e : ExtKey κ) (i : Nat) (hi : hardened ≤ i) (hp : c.isPrivate e.key = false) :
    deriveChild hmac c fuel e i = .error .hardenedChildPublicKey := by
  simp [deriveChild, hi, hp]

theorem non_hardened_on_hardened_only (fuel : Nat) (e : ExtKey κ) (i : Nat) (hi : i < hardened) (hh : c.hardenedOnly e.key = true) :
    deriveChild hmac c fuel e i = .error .notHardened := by
  have : ¬ (i ≥ hardened) := by omega
  simp [deriveChild, this, hh]

/-- deriving along `p` then `i` equals deriving along `p` followed by `i`. -/
theorem deriveFrom_append (fuel : Nat) (e : ExtKey κ) (p q : List Nat) :
    deriveFrom hmac c fuel e (p ++ q) =
      match deriveFrom hmac c fuel e p with
      | .ok e' => deriveFrom hmac c fuel e' q
      | .error x => .error x := by
  induction p generalizing e with
  | nil => simp [deriveFrom]
  | cons i p ih =>
    simp only [List.cons_append, deriveFrom]
    cases deriveChild hmac c fuel e i with
    | ok e' => exact ih e'
    | error x => rfl

theorem derive_path_snoc (fuel : Nat) (seed : Bytes) (p : List Nat) (i : Nat) :
    deriveKeyFromPath hmac c fuel seed (p ++ [i]) =
      match deriveKeyFromPath hmac c fuel seed p with
      | .ok e => deriveChild hmac c fuel e i
      | .error x => .error x := by
  unfold deriveKeyFromPath
  cases newMasterKey hmac c fuel seed with
  | error x => rfl
  | ok m =>
    simp only []
    rw [deriveFrom_append]
    cases deriveFrom hmac c fuel m p with
    | error x => rfl
    | ok e =>
      simp only [deriveFrom]
      cases deriveChild hmac c fuel e i <;> rfl

/-- the fingerprint is the first 4 bytes of HASH160 of the parent's public key, zero for a master key. -/
theorem fingerprint_master (hash160 : Bytes → Bytes) (e : ExtKey κ) (h : e.parent = none) :
    fingerprint c hash160 e = [0, 0, 0, 0] := by
  simp [fingerprint, h]

theorem fingerprint_child (hash160 : Bytes → Bytes) (e : ExtKey κ) (p : κ) (h : e.parent = some p) :
    fingerprint c hash160 e = (hash160 (c.bytes (c.pub p))).take 4 := by
  simp [fingerprint, h]

/-- ed25519 keys are hardened-only; Weierstrass keys are not. -/
theorem ed_hardened_only (edPublic : Bytes → Bytes) (k : EdKey) : (edCurve edPublic).hardenedOnly k = true := rfl

end Iota.Proofs.Slip10
