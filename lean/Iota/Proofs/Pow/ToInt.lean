/-
P1 / P2 of the PoW model: the constants, and `toInt` as the little-endian base-3 value plus one,
its range, and the absence of `uint64` overflow in the 40-trit chunk loop.  Core Lean only.
-/
import Iota.Model.Pow

namespace Iota.Proofs.Pow
open Iota.Pow

/-! ### P1 constants -/

theorem maxHash_eq : maxHash = 3 ^ 243 := by decide +kernel

theorem uint64Radix_eq : uint64Radix = 3 ^ 40 := by decide +kernel

theorem three_pow_40_lt : 3 ^ 40 < 2 ^ 64 := by decide +kernel

theorem uint64Radix_lt : uint64Radix < 2 ^ 64 := by decide +kernel

/-! ### P2 `toInt` -/

/-- a balanced trit -/
def ValidTrit (t : Int) : Prop := t = -1 ∨ t = 0 ∨ t = 1

/-- little-endian base-3 value of a trit list, with trit `-1` read as digit `2`. -/
def digitsVal (ts : List Int) : Nat := ts.foldr (fun t acc => tritToUint t + 3 * acc) 0

@[simp] theorem digitsVal_nil : digitsVal [] = 0 := rfl
@[simp] theorem digitsVal_cons (t : Int) (ts : List Int) :
    digitsVal (t :: ts) = tritToUint t + 3 * digitsVal ts := rfl

theorem tritToUint_le {t : Int} (ht : ValidTrit t) : tritToUint t ≤ 2 := by
  rcases ht with rfl | rfl | rfl <;> decide

theorem tritToUint_eq_zero {t : Int} (ht : ValidTrit t) : tritToUint t = 0 ↔ t = 0 := by
  rcases ht with rfl | rfl | rfl <;> decide

/-- the chunk loop computes the base-3 value of the chunk -/
theorem chunkValue_eq (chunk : List Int) : chunkValue chunk = digitsVal chunk := by
  unfold chunkValue digitsVal
  rw [List.foldl_reverse]
  induction chunk with
  | nil => rfl
  | cons t ts ih => simp only [List.foldr_cons, ih]; omega

theorem digitsVal_append (a b : List Int) :
    digitsVal (a ++ b) = digitsVal a + 3 ^ a.length * digitsVal b := by
  induction a with
  | nil => simp
  | cons t ts ih =>
    simp only [List.cons_append, digitsVal_cons, ih, List.length_cons, Nat.pow_succ]
    rw [Nat.mul_add, Nat.mul_comm _ 3, Nat.mul_assoc]; omega

/-- split off the low `n` digits; holds for every `n` (for `n > length` the high part is empty). -/
theorem digitsVal_split (n : Nat) (ts : List Int) :
    digitsVal ts = digitsVal (ts.take n) + 3 ^ n * digitsVal (ts.drop n) := by
  induction n generalizing ts with
  | zero => simp
  | succ n ih =>
    cases ts with
    | nil => simp
    | cons t ts =>
      simp only [List.take_succ_cons, List.drop_succ_cons, digitsVal_cons]
      rw [ih ts, Nat.pow_succ, Nat.mul_add, Nat.mul_comm _ 3, Nat.mul_assoc]; omega

theorem digitsVal_lt (ts : List Int) (h : ∀ t ∈ ts, ValidTrit t) : digitsVal ts < 3 ^ ts.length := by
  induction ts with
  | nil => simp
  | cons t ts ih =>
    have h1 := tritToUint_le (h t (by simp))
    have h2 := ih (fun x hx => h x (by simp [hx]))
    simp only [digitsVal_cons, List.length_cons, Nat.pow_succ]
    omega

theorem digitsVal_eq_zero (ts : List Int) (h : ∀ t ∈ ts, ValidTrit t) :
    digitsVal ts = 0 ↔ ∀ t ∈ ts, t = 0 := by
  induction ts with
  | nil => simp
  | cons t ts ih =>
    have h1 := tritToUint_eq_zero (h t (by simp))
    have h2 := ih (fun x hx => h x (by simp [hx]))
    simp only [digitsVal_cons, List.mem_cons, forall_eq_or_imp]
    rw [← h1, ← h2]; omega

/-- Horner form of `toInt` with the chunks as base-3 values. -/
theorem toInt_horner (trits : List Int) :
    toInt trits =
      ((((((tritToUint (trits.getD 242 0) * 9 + tritToUint (trits.getD 241 0) * 3
              + tritToUint (trits.getD 240 0)) * uint64Radix
            + digitsVal ((trits.drop 200).take 40)) * uint64Radix
          + digitsVal ((trits.drop 160).take 40)) * uint64Radix
        + digitsVal ((trits.drop 120).take 40)) * uint64Radix
      + digitsVal ((trits.drop 80).take 40)) * uint64Radix
    + digitsVal ((trits.drop 40).take 40)) * uint64Radix
  + (digitsVal (trits.take 40) + 1) := by
  have hr : (List.range 6).reverse = [5, 4, 3, 2, 1, 0] := rfl
  unfold toInt
  simp only [hr, List.foldl_cons, List.foldl_nil, chunkValue_eq]
  simp

theorem drop240 (trits : List Int) (hlen : trits.length = 243) :
    trits.drop 240 = [trits.getD 240 0, trits.getD 241 0, trits.getD 242 0] := by
  apply List.ext_getElem
  · simp [hlen]
  · intro i h1 h2
    simp only [List.length_cons, List.length_nil] at h2
    have : i = 0 ∨ i = 1 ∨ i = 2 := by omega
    rcases this with rfl | rfl | rfl <;> simp [List.getD_eq_getElem?_getD, hlen]

/-- **P2** `toInt` is the little-endian base-3 value plus one (only the length matters here). -/
theorem toInt_eq (trits : List Int) (hlen : trits.length = 243) :
    toInt trits = digitsVal trits + 1 := by
  rw [toInt_horner, uint64Radix_eq]
  have split : ∀ ts : List Int, digitsVal ts = 3 ^ 40 * digitsVal (ts.drop 40) + digitsVal (ts.take 40) := by
    intro ts; rw [Nat.add_comm]; exact digitsVal_split 40 ts
  have e6 : digitsVal (trits.drop 240) = tritToUint (trits.getD 242 0) * 9
      + tritToUint (trits.getD 241 0) * 3 + tritToUint (trits.getD 240 0) := by
    rw [drop240 trits hlen]; simp only [digitsVal_cons, digitsVal_nil]; omega
  rw [split trits, split (trits.drop 40), List.drop_drop, split (trits.drop 80), List.drop_drop,
    split (trits.drop 120), List.drop_drop, split (trits.drop 160), List.drop_drop,
    split (trits.drop 200), List.drop_drop, e6]
  generalize (3 : Nat) ^ 40 = R
  simp only [Nat.mul_comm _ R, Nat.add_assoc]

theorem toInt_pos (trits : List Int) (hlen : trits.length = 243) : 1 ≤ toInt trits := by
  rw [toInt_eq trits hlen]; omega

theorem toInt_le (trits : List Int) (hlen : trits.length = 243) (hv : ∀ t ∈ trits, ValidTrit t) :
    toInt trits ≤ 3 ^ 243 := by
  rw [toInt_eq trits hlen]
  have := digitsVal_lt trits hv
  rw [hlen] at this
  omega

/-- **P2 no overflow**: the largest `uint64` produced while processing a chunk of at most 40 balanced
trits (including the `v++` of chunk 0) is at most `3^40 < 2^64`. -/
theorem chunkMax_le (chunk : List Int) (hlen : chunk.length ≤ 40) (hv : ∀ t ∈ chunk, ValidTrit t) :
    chunkMax chunk ≤ 3 ^ 40 ∧ 3 ^ 40 < 2 ^ 64 := by
  refine ⟨?_, three_pow_40_lt⟩
  unfold chunkMax
  rw [chunkValue_eq]
  have h1 := digitsVal_lt chunk hv
  have h2 : 3 ^ chunk.length ≤ 3 ^ 40 := Nat.pow_le_pow_right (by decide) hlen
  omega

/-- every intermediate value of the chunk loop (the value after the trits `j … len-1` have been
consumed, i.e. the value of the suffix `chunk.drop j`) also stays below `3^40`. -/
theorem chunk_intermediate_lt (chunk : List Int) (hlen : chunk.length ≤ 40)
    (hv : ∀ t ∈ chunk, ValidTrit t) (j : Nat) : chunkValue (chunk.drop j) + 1 ≤ 3 ^ 40 :=
  (chunkMax_le (chunk.drop j) (by simp; omega) (fun t ht => hv t (List.mem_of_mem_drop ht))).1

/-- the chunk loop run in wrapping `uint64` arithmetic -/
def chunkValueU64 (chunk : List Int) : Nat :=
  chunk.reverse.foldl (fun v t => (v * 3 + tritToUint t) % 2 ^ 64) 0

/-- Go's wrapping `uint64` chunk loop agrees with the exact one on chunks of ≤ 40 balanced trits, and the
final `v++` does not wrap either. -/
theorem chunkValueU64_eq (chunk : List Int) (hlen : chunk.length ≤ 40) (hv : ∀ t ∈ chunk, ValidTrit t) :
    chunkValueU64 chunk = chunkValue chunk ∧ (chunkValue chunk + 1) % 2 ^ 64 = chunkValue chunk + 1 := by
  have hlt := three_pow_40_lt
  constructor
  · unfold chunkValueU64 chunkValue
    rw [List.foldl_reverse, List.foldl_reverse]
    induction chunk with
    | nil => rfl
    | cons t ts ih =>
      have hb := (chunkMax_le (t :: ts) hlen hv).1
      unfold chunkMax chunkValue at hb
      rw [List.foldl_reverse] at hb
      simp only [List.foldr_cons] at hb ⊢
      rw [ih (by simp at hlen; omega) (fun x hx => hv x (by simp [hx]))]
      exact Nat.mod_eq_of_lt (by omega)
  · have := (chunkMax_le chunk hlen hv).1
    unfold chunkMax at this
    exact Nat.mod_eq_of_lt (by omega)

/-- the chunks `toInt` actually processes -/
theorem toInt_chunks_no_overflow (trits : List Int) (hv : ∀ t ∈ trits, ValidTrit t) (i : Nat) :
    chunkMax ((trits.drop (i * 40)).take 40) ≤ 3 ^ 40 ∧ 3 ^ 40 < 2 ^ 64 :=
  chunkMax_le _ (by simp; omega)
    (fun t ht => hv t (List.mem_of_mem_drop (List.mem_of_mem_take ht)))

end Iota.Proofs.Pow
