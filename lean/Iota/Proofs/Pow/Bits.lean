/-
Bit-plane lemmas for the lane tests: `firstZeroBit`, `lenNot`, `orDiff`, lane trits, and the link
between "the top k trits of a lane are zero" and the integer value of the lane.
-/
import Iota.Proofs.Pow.ToInt

namespace Iota.Proofs.Pow
open Iota.Pow

/-! ### firstZeroBit / lenNot -/

theorem allOnes_getLsbD (j : Nat) (hj : j < 64) : allOnes.getLsbD j = true := by
  unfold allOnes; rw [BitVec.getLsbD_allOnes]; exact decide_eq_true hj

theorem firstZeroBit_cases (w : W) :
    (firstZeroBit w = 64 ∧ ∀ j, j < 64 → w.getLsbD j = true) ∨
    (firstZeroBit w < 64 ∧ w.getLsbD (firstZeroBit w) = false ∧
      ∀ j, j < firstZeroBit w → w.getLsbD j = true) := by
  unfold firstZeroBit
  cases hf : (List.range 64).find? fun i => !w.getLsbD i with
  | none =>
    left
    rw [List.find?_range_eq_none] at hf
    exact ⟨rfl, fun j hj => by simpa using hf j hj⟩
  | some i =>
    right
    rw [List.find?_range_eq_some] at hf
    obtain ⟨h1, h2, h3⟩ := hf
    simp only [Option.getD_some]
    exact ⟨List.mem_range.mp h2, by simpa using h1, fun j hj => by simpa using h3 j hj⟩

theorem firstZeroBit_le (w : W) : firstZeroBit w ≤ 64 := by
  rcases firstZeroBit_cases w with h | h <;> omega

theorem eq_allOnes_iff (w : W) : w = allOnes ↔ ∀ j, j < 64 → w.getLsbD j = true := by
  constructor
  · rintro rfl j hj; exact allOnes_getLsbD j hj
  · intro h
    apply BitVec.eq_of_getLsbD_eq
    intro i hi
    rw [h i hi, allOnes_getLsbD i hi]

theorem firstZeroBit_lt_iff (w : W) : firstZeroBit w < 64 ↔ w ≠ allOnes := by
  rw [Ne, eq_allOnes_iff]
  rcases firstZeroBit_cases w with ⟨h1, h2⟩ | ⟨h1, h2, h3⟩
  · constructor
    · omega
    · intro h; exact absurd h2 h
  · constructor
    · intro _ h
      rw [h _ h1] at h2; cases h2
    · intro _; exact h1

theorem firstZeroBit_bit (w : W) (h : firstZeroBit w < 64) : w.getLsbD (firstZeroBit w) = false := by
  rcases firstZeroBit_cases w with h' | h'
  · omega
  · exact h'.2.1

theorem firstZeroBit_min (w : W) (j : Nat) (hj : j < firstZeroBit w) : w.getLsbD j = true := by
  rcases firstZeroBit_cases w with h' | h'
  · exact h'.2 j (by omega)
  · exact h'.2.2 j hj

theorem firstZeroBit_le_of_bit (w : W) (j : Nat) (hb : w.getLsbD j = false) :
    firstZeroBit w ≤ j := by
  apply Nat.le_of_not_lt
  intro h
  rw [firstZeroBit_min w j h] at hb
  cases hb

theorem lt_lenNot_of_bit (w : W) (j : Nat) (hj : j < 64) (hb : w.getLsbD j = false) :
    j < lenNot w := by
  unfold lenNot
  cases hf : (List.range 64).reverse.find? fun i => !w.getLsbD i with
  | none =>
    rw [List.find?_eq_none] at hf
    have := hf j (by simp [hj])
    simp [hb] at this
  | some i =>
    simp only [Option.map_some, Option.getD_some]
    rw [List.find?_eq_some_iff_append] at hf
    obtain ⟨h1, as, bs, h2, h3⟩ := hf
    -- `j` occurs in `range 64 |>.reverse = as ++ i :: bs`; it is not in `as`, and `bs` is below `i`
    have hmem : j ∈ as ++ i :: bs := by rw [← h2]; simp [hj]
    have hsorted : (as ++ i :: bs).Pairwise (· > ·) := by
      rw [← h2]; decide
    rw [List.mem_append, List.mem_cons] at hmem
    rcases hmem with hm | rfl | hm
    · have := h3 j hm
      simp [hb] at this
    · omega
    · have := (List.pairwise_append.mp hsorted).2.1
      have := (List.pairwise_cons.mp this).1 j hm
      omega

/-! ### orDiff -/

/-- the difference word of trit position `i`: bit `j` is set iff trit `i` of lane `j` is non-zero. -/
def diffWord (l h : Planes) (i : Nat) : W := l.toArray.getD i 0 ^^^ h.toArray.getD i 0

theorem foldl_or_getLsbD (f : Nat → W) (start n j : Nat) :
    ((List.range n).foldl (fun v i => if start ≤ i then v ||| f i else v) 0).getLsbD j = true ↔
      ∃ i, start ≤ i ∧ i < n ∧ (f i).getLsbD j = true := by
  induction n with
  | zero => simp
  | succ n ih =>
    rw [List.range_succ, List.foldl_append]
    simp only [List.foldl_cons, List.foldl_nil]
    split
    · rename_i hs
      rw [BitVec.getLsbD_or, Bool.or_eq_true, ih]
      constructor
      · rintro (⟨i, h1, h2, h3⟩ | h)
        · exact ⟨i, h1, by omega, h3⟩
        · exact ⟨n, hs, by omega, h⟩
      · rintro ⟨i, h1, h2, h3⟩
        by_cases hi : i = n
        · subst hi; exact Or.inr h3
        · exact Or.inl ⟨i, h1, by omega, h3⟩
    · rename_i hs
      rw [ih]
      constructor
      · rintro ⟨i, h1, h2, h3⟩; exact ⟨i, h1, by omega, h3⟩
      · rintro ⟨i, h1, h2, h3⟩; exact ⟨i, h1, by omega, h3⟩

theorem orDiff_getLsbD (l h : Planes) (start j : Nat) :
    (orDiff l h start).getLsbD j = true ↔
      ∃ i, start ≤ i ∧ i < 243 ∧ (diffWord l h i).getLsbD j = true :=
  foldl_or_getLsbD (diffWord l h) start 243 j

theorem orDiff_getLsbD_false (l h : Planes) (start j : Nat) :
    (orDiff l h start).getLsbD j = false ↔
      ∀ i, start ≤ i → i < 243 → (diffWord l h i).getLsbD j = false := by
  rw [← Bool.not_eq_true, orDiff_getLsbD]
  simp only [not_exists, not_and, Bool.not_eq_true]

/-! ### lane trits -/

theorem laneTrit_valid (l h : Planes) (idx i : Nat) : ValidTrit (laneTrit l h idx i) := by
  unfold laneTrit ValidTrit
  cases (h.toArray.getD i 0).getLsbD idx <;> cases (l.toArray.getD i 0).getLsbD idx <;> simp

/-- bit `idx` of the difference word is 0 iff the trit is zero (also for the invalid (1,1)/(0,0) pairs). -/
theorem laneTrit_eq_zero (l h : Planes) (idx i : Nat) :
    laneTrit l h idx i = 0 ↔ (diffWord l h i).getLsbD idx = false := by
  unfold laneTrit diffWord
  rw [BitVec.getLsbD_xor]
  cases (h.toArray.getD i 0).getLsbD idx <;> cases (l.toArray.getD i 0).getLsbD idx <;> simp

theorem laneTrits_length (l h : Planes) (idx : Nat) : (laneTrits l h idx).length = 243 := by
  simp [laneTrits]

theorem laneTrits_valid (l h : Planes) (idx : Nat) : ∀ t ∈ laneTrits l h idx, ValidTrit t := by
  intro t ht
  simp only [laneTrits, List.mem_map] at ht
  obtain ⟨i, -, rfl⟩ := ht
  exact laneTrit_valid l h idx i

theorem laneTrits_getElem (l h : Planes) (idx i : Nat) (hi : i < (laneTrits l h idx).length) :
    (laneTrits l h idx)[i] = laneTrit l h idx i := by
  simp [laneTrits]

/-- the trits of lane `idx` at positions `a … 242` are all zero -/
def TopZero (l h : Planes) (idx a : Nat) : Prop := ∀ i, a ≤ i → i < 243 → laneTrit l h idx i = 0

theorem orDiff_bit_false_iff (l h : Planes) (a idx : Nat) :
    (orDiff l h a).getLsbD idx = false ↔ TopZero l h idx a := by
  rw [orDiff_getLsbD_false]
  unfold TopZero
  simp only [laneTrit_eq_zero]

theorem stateToInt_eq (l h : Planes) (idx : Nat) :
    stateToInt l h idx = digitsVal (laneTrits l h idx) + 1 :=
  toInt_eq _ (laneTrits_length l h idx)

theorem stateToInt_pos (l h : Planes) (idx : Nat) : 1 ≤ stateToInt l h idx := by
  rw [stateToInt_eq]; omega

theorem stateToInt_le (l h : Planes) (idx : Nat) : stateToInt l h idx ≤ 3 ^ 243 :=
  toInt_le _ (laneTrits_length l h idx) (laneTrits_valid l h idx)

theorem mem_drop_laneTrits (l h : Planes) (idx a : Nat) (t : Int) :
    t ∈ (laneTrits l h idx).drop a ↔ ∃ i, a ≤ i ∧ i < 243 ∧ laneTrit l h idx i = t := by
  rw [List.mem_iff_getElem]
  constructor
  · rintro ⟨k, hk, rfl⟩
    simp only [List.length_drop, laneTrits_length] at hk
    refine ⟨a + k, by omega, by omega, ?_⟩
    rw [List.getElem_drop, laneTrits_getElem]
  · rintro ⟨i, h1, h2, rfl⟩
    refine ⟨i - a, by simp [laneTrits_length]; omega, ?_⟩
    rw [List.getElem_drop, laneTrits_getElem]
    congr 1; omega

/-- **key arithmetic fact**: the trits `a … 242` of a lane are zero iff its integer is at most `3^a`. -/
theorem topZero_iff (l h : Planes) (idx a : Nat) :
    TopZero l h idx a ↔ stateToInt l h idx ≤ 3 ^ a := by
  rw [stateToInt_eq, digitsVal_split a (laneTrits l h idx)]
  have hv := laneTrits_valid l h idx
  have hlow := digitsVal_lt ((laneTrits l h idx).take a)
    (fun t ht => hv t (List.mem_of_mem_take ht))
  have hlow' : digitsVal ((laneTrits l h idx).take a) < 3 ^ a :=
    Nat.lt_of_lt_of_le hlow (Nat.pow_le_pow_right (by decide) (by simp; omega))
  have hz := digitsVal_eq_zero ((laneTrits l h idx).drop a)
    (fun t ht => hv t (List.mem_of_mem_drop ht))
  have htz : TopZero l h idx a ↔ ∀ t ∈ (laneTrits l h idx).drop a, t = 0 := by
    unfold TopZero
    constructor
    · intro H t ht
      obtain ⟨i, h1, h2, rfl⟩ := (mem_drop_laneTrits l h idx a t).mp ht
      exact H i h1 h2
    · intro H i h1 h2
      exact H _ ((mem_drop_laneTrits l h idx a _).mpr ⟨i, h1, h2, rfl⟩)
  rw [htz, ← hz]
  generalize digitsVal ((laneTrits l h idx).drop a) = hi at *
  generalize digitsVal ((laneTrits l h idx).take a) = lo at *
  generalize 3 ^ a = P at *
  constructor
  · rintro rfl; omega
  · intro H
    cases hi with
    | zero => rfl
    | succ n => rw [Nat.mul_succ] at H; omega

end Iota.Proofs.Pow
