/-
P7: the sequential (single-worker) mining loop returns the first block whose lane test succeeds;
combined with P5 for the v2 lane test.
-/
import Iota.Proofs.Pow.V2

namespace Iota.Proofs.Pow
open Iota.Pow

/-- **P7** -/
theorem mineSeq_some (check : Planes → Planes → Nat) (planes : Nat → Planes × Planes)
    (fuel k b i : Nat) (hm : mineSeq check planes fuel k = some (b, i)) :
    k ≤ b ∧ b < k + fuel ∧ check (planes b).1 (planes b).2 = i ∧ i < 64 ∧
      ∀ b', k ≤ b' → b' < b → 64 ≤ check (planes b').1 (planes b').2 := by
  induction fuel generalizing k with
  | zero => simp [mineSeq] at hm
  | succ fuel ih =>
    rw [mineSeq] at hm
    split at hm
    · rename_i hlt
      simp only [Option.some.injEq, Prod.mk.injEq] at hm
      obtain ⟨rfl, rfl⟩ := hm
      exact ⟨Nat.le_refl _, by omega, rfl, hlt, fun b' h1 h2 => by omega⟩
    · rename_i hge
      obtain ⟨h1, h2, h3, h4, h5⟩ := ih (k + 1) hm
      refine ⟨by omega, by omega, h3, h4, ?_⟩
      intro b' hb1 hb2
      by_cases hb : b' = k
      · subst hb; omega
      · exact h5 b' (by omega) hb2

/-- if the loop gives up, every block it looked at was rejected -/
theorem mineSeq_none (check : Planes → Planes → Nat) (planes : Nat → Planes × Planes)
    (fuel k : Nat) (hm : mineSeq check planes fuel k = none) :
    ∀ b', k ≤ b' → b' < k + fuel → 64 ≤ check (planes b').1 (planes b').2 := by
  induction fuel generalizing k with
  | zero => intro b' h1 h2; omega
  | succ fuel ih =>
    rw [mineSeq] at hm
    split at hm
    · cases hm
    · rename_i hge
      intro b' hb1 hb2
      by_cases hb : b' = k
      · subst hb; omega
      · exact ih (k + 1) hm b' (by omega) (by omega)

/-- **P7 + P5**: single-worker v2 mining with `lx = len * t` (`8 ≤ lx < 2^64`, `1 ≤ len`): the returned lane's
score meets the target `t`, its difficulty is at least `lx`, and no earlier block (from the start block `k`)
contains a lane whose difficulty strictly exceeds `lx`. -/
theorem mineSeq_v2 (planes : Nat → Planes × Planes) (lx len t : Nat) (h8 : 8 ≤ lx) (hlx : lx < 2 ^ 64)
    (hlen : 1 ≤ len) (hlt : lx = len * t) (fuel k b i : Nat)
    (hm : mineSeq (fun l h => checkV2 l h (sufficientTrailingZeros lx) (targetHash lx)) planes fuel k
      = some (b, i)) :
    k ≤ b ∧ i < 64 ∧
    t ≤ score (laneTrits (planes b).1 (planes b).2 i) len ∧
    lx ≤ maxHash / stateToInt (planes b).1 (planes b).2 i ∧
    ∀ b', k ≤ b' → b' < b → ∀ j, j < 64 →
      maxHash / stateToInt (planes b').1 (planes b').2 j ≤ lx := by
  obtain ⟨h1, -, h3, h4, h5⟩ := mineSeq_some _ planes fuel k b i hm
  replace h3 : checkV2 (planes b).1 (planes b).2 (sufficientTrailingZeros lx) (targetHash lx) = i := h3
  subst h3
  refine ⟨h1, h4, checkV2_score _ _ lx h8 hlx len t hlen hlt h4, checkV2_sound _ _ lx h8 hlx h4, ?_⟩
  intro b' hb1 hb2 j hj
  apply Nat.le_of_not_lt
  intro hgt
  have := checkV2_no_passover (planes b').1 (planes b').2 lx h8 hlx ⟨j, hj, hgt⟩
  have := h5 b' hb1 hb2
  omega

end Iota.Proofs.Pow
