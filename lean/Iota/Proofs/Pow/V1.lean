/-
P6: the v1 lane test `checkV1` is exact with respect to trailing zero trits, and the conditional
soundness of v1 mining for an abstract monotone score.
-/
import Iota.Proofs.Pow.Bits

namespace Iota.Proofs.Pow
open Iota.Pow

theorem le_length_takeWhile_iff {α : Type} (p : α → Bool) (l : List α) (n : Nat) (hn : n ≤ l.length) :
    n ≤ (l.takeWhile p).length ↔ ∀ k (hk : k < l.length), k < n → p l[k] = true := by
  induction l generalizing n with
  | nil =>
    simp only [List.length_nil, Nat.le_zero_eq] at hn
    subst hn
    simp
  | cons a l ih =>
    cases n with
    | zero => simp
    | succ n =>
      simp only [List.length_cons, Nat.add_le_add_iff_right] at hn
      rw [List.takeWhile_cons]
      by_cases ha : p a = true
      · rw [if_pos ha]
        simp only [List.length_cons, Nat.add_le_add_iff_right]
        rw [ih n hn]
        constructor
        · intro H k hk hkn
          cases k with
          | zero => exact ha
          | succ k => exact H k (by simpa using hk) (by omega)
        · intro H k hk hkn
          exact H (k + 1) (by simpa using hk) (by omega)
      · rw [if_neg ha]
        simp only [List.length_nil, Nat.le_zero_eq, Nat.add_one_ne_zero, false_iff]
        intro H
        exact ha (H 0 (by simp) (by omega))

/-- at least `n` trailing zeros iff the top `n` entries are zero -/
theorem le_trailingZeros_iff (ts : List Int) (n : Nat) (hn : n ≤ ts.length) :
    n ≤ trailingZeros ts ↔ ∀ k (hk : k < ts.length), ts.length - n ≤ k → ts[k] = 0 := by
  unfold trailingZeros
  rw [le_length_takeWhile_iff _ _ _ (by simpa using hn)]
  constructor
  · intro H k hk hkn
    have := H (ts.length - 1 - k) (by simp; omega) (by omega)
    rw [List.getElem_reverse] at this
    have e : ts.length - 1 - (ts.length - 1 - k) = k := by omega
    simp only [e] at this
    simpa using this
  · intro H k hk hkn
    rw [List.getElem_reverse]
    simp only [List.length_reverse] at hk
    simpa using H (ts.length - 1 - k) (by omega) (by omega)

theorem trailingZeros_le_length (ts : List Int) : trailingZeros ts ≤ ts.length := by
  unfold trailingZeros
  have := (List.takeWhile_sublist (fun x : Int => x == 0) (l := ts.reverse)).length_le
  simpa using this

/-- a lane has at least `n` trailing zero trits iff its trits `243-n … 242` are zero -/
theorem le_trailingZeros_lane_iff (l h : Planes) (idx n : Nat) (hn : n ≤ 243) :
    n ≤ trailingZeros (laneTrits l h idx) ↔ TopZero l h idx (243 - n) := by
  rw [le_trailingZeros_iff _ _ (by rw [laneTrits_length]; exact hn)]
  unfold TopZero
  simp only [laneTrits_length]
  constructor
  · intro H i h1 h2
    have := H i h2 h1
    rwa [laneTrits_getElem] at this
  · intro H k hk h1
    rw [laneTrits_getElem]; exact H k h1 hk

/-- **P6 exactness**: an index `< 64` is the first lane with at least `n` trailing zero trits;
`64` means that no lane has. -/
theorem checkV1_spec (l h : Planes) (n : Nat) (hn : n ≤ 243) :
    checkV1 l h n ≤ 64 ∧
    (checkV1 l h n < 64 →
      n ≤ trailingZeros (laneTrits l h (checkV1 l h n)) ∧
      ∀ j, j < checkV1 l h n → ¬ n ≤ trailingZeros (laneTrits l h j)) ∧
    (checkV1 l h n = 64 → ∀ j, j < 64 → ¬ n ≤ trailingZeros (laneTrits l h j)) := by
  unfold checkV1
  refine ⟨firstZeroBit_le _, ?_, ?_⟩
  · intro hi
    refine ⟨?_, ?_⟩
    · rw [le_trailingZeros_lane_iff l h _ n hn, ← orDiff_bit_false_iff]
      exact firstZeroBit_bit _ hi
    · intro j hj
      rw [le_trailingZeros_lane_iff l h _ n hn, ← orDiff_bit_false_iff, firstZeroBit_min _ j hj]
      decide
  · intro hi j hj
    rw [le_trailingZeros_lane_iff l h _ n hn, ← orDiff_bit_false_iff,
      firstZeroBit_min _ j (by omega)]
    decide

/-- `checkV1` accepts iff some lane has at least `n` trailing zeros -/
theorem checkV1_lt_iff (l h : Planes) (n : Nat) (hn : n ≤ 243) :
    checkV1 l h n < 64 ↔ ∃ j, j < 64 ∧ n ≤ trailingZeros (laneTrits l h j) := by
  have ⟨h1, h2, h3⟩ := checkV1_spec l h n hn
  constructor
  · intro hi; exact ⟨_, hi, (h2 hi).1⟩
  · rintro ⟨j, hj, hz⟩
    apply Nat.lt_of_le_of_ne h1
    intro h64
    exact h3 h64 j hj hz

/-- **P6 conditional soundness of v1 mining.**  `F` is the score type (Go `float64`) with a transitive
order, `sc z` the (monotone) score of a hash with `z` trailing zeros, `req` the trailing-zero count the
repaired Go code searches for (the least `z ≤ 243` with `target ≤ sc z`).  A lane accepted by
`checkV1 l h req` has a score meeting the target. -/
theorem checkV1_mine_sound {F : Type} [LE F] (le_trans : ∀ a b c : F, a ≤ b → b ≤ c → a ≤ c)
    (sc : Nat → F) (mono : ∀ a b, a ≤ b → sc a ≤ sc b) (target : F) (req : Nat) (hreq : req ≤ 243)
    (hsat : target ≤ sc req) (l h : Planes) (hi : checkV1 l h req < 64) :
    target ≤ sc (trailingZeros (laneTrits l h (checkV1 l h req))) :=
  le_trans _ _ _ hsat (mono _ _ ((checkV1_spec l h req hreq).2.1 hi).1)

/-- with `req` the *least* such count the test is also complete: it accepts a lane iff some lane of the
block has a score meeting the target (`le_total` is only used to compare `target` with `sc z`). -/
theorem checkV1_mine_exact {F : Type} [LE F] (le_trans : ∀ a b c : F, a ≤ b → b ≤ c → a ≤ c)
    (sc : Nat → F) (mono : ∀ a b, a ≤ b → sc a ≤ sc b) (target : F) (req : Nat) (hreq : req ≤ 243)
    (hsat : target ≤ sc req) (hleast : ∀ z, z < req → ¬ target ≤ sc z) (l h : Planes) :
    checkV1 l h req < 64 ↔ ∃ j, j < 64 ∧ target ≤ sc (trailingZeros (laneTrits l h j)) := by
  rw [checkV1_lt_iff l h req hreq]
  constructor
  · rintro ⟨j, hj, hz⟩
    exact ⟨j, hj, le_trans _ _ _ hsat (mono _ _ hz)⟩
  · rintro ⟨j, hj, hz⟩
    refine ⟨j, hj, Nat.le_of_not_lt fun hlt => hleast _ hlt hz⟩

end Iota.Proofs.Pow
