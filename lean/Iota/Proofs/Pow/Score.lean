/-
P3 / P4 of the PoW model: the closed form of `score`, and `sufficientTrailingZeros lx` as the least
`s` with `3^s ≥ lx` (together with the `uint64` no-overflow fact for its loop variable).
-/
import Iota.Proofs.Pow.ToInt

namespace Iota.Proofs.Pow
open Iota.Pow

/-! ### P4 `sufficientTrailingZeros` -/

theorem two_pow_64_le : 2 ^ 64 ≤ 3 ^ 41 := by decide +kernel

/-- loop invariant: entering the loop at `s` with `v = 3^s`, `s + fuel = 41` and all smaller powers
below `lx`, the result `r` is the least exponent with `3^r ≥ lx`, or 41 if none ≤ 40 exists. -/
theorem sufficientLoop_spec (lx fuel s : Nat) (hs : s + fuel = 41)
    (hbelow : ∀ s', s' < s → 3 ^ s' < lx) :
    let r := sufficientLoop lx fuel s (3 ^ s)
    s ≤ r ∧ r ≤ 41 ∧ (∀ s', s' < r → 3 ^ s' < lx) ∧ (r ≤ 40 → lx ≤ 3 ^ r) := by
  induction fuel generalizing s with
  | zero =>
    have : s = 41 := by omega
    subst this
    simp only [sufficientLoop]
    exact ⟨Nat.le_refl _, Nat.le_refl _, hbelow, fun h => absurd h (by decide)⟩
  | succ fuel ih =>
    rw [sufficientLoop]
    by_cases hc : 3 ^ s ≥ lx
    · rw [if_pos hc]
      exact ⟨Nat.le_refl _, by omega, hbelow, fun _ => hc⟩
    · rw [if_neg hc]
      have hb' : ∀ s', s' < s + 1 → 3 ^ s' < lx := by
        intro s' hs'
        by_cases h : s' = s
        · subst h; omega
        · exact hbelow s' (by omega)
      have := ih (s + 1) (by omega) hb'
      rw [Nat.pow_succ] at this
      exact ⟨by have := this.1; omega, this.2⟩

/-- **P4** -/
theorem sufficientTrailingZeros_spec (lx : Nat) (hlx : lx < 2 ^ 64) :
    let s := sufficientTrailingZeros lx
    lx ≤ 3 ^ s ∧ (∀ s', s' < s → 3 ^ s' < lx) ∧ s ≤ 41 := by
  have h := sufficientLoop_spec lx 41 0 (by omega) (fun s' hs' => absurd hs' (Nat.not_lt_zero _))
  simp only [Nat.pow_zero] at h
  obtain ⟨-, h41, hleast, hge⟩ := h
  refine ⟨?_, hleast, h41⟩
  show lx ≤ 3 ^ sufficientLoop lx 41 0 1
  by_cases h40 : sufficientLoop lx 41 0 1 ≤ 40
  · exact hge h40
  · have : sufficientLoop lx 41 0 1 = 41 := by omega
    rw [this]
    have := two_pow_64_le
    omega

theorem sufficientTrailingZeros_ge (lx : Nat) (hlx : lx < 2 ^ 64) :
    lx ≤ 3 ^ sufficientTrailingZeros lx := (sufficientTrailingZeros_spec lx hlx).1

theorem sufficientTrailingZeros_least (lx : Nat) (hlx : lx < 2 ^ 64) (s' : Nat)
    (h : s' < sufficientTrailingZeros lx) : 3 ^ s' < lx := (sufficientTrailingZeros_spec lx hlx).2.1 s' h

theorem sufficientTrailingZeros_le (lx : Nat) (hlx : lx < 2 ^ 64) :
    sufficientTrailingZeros lx ≤ 41 := (sufficientTrailingZeros_spec lx hlx).2.2

/-- callers have `lx = (len+8)·target ≥ 8`, hence `s ≥ 2` (in fact `lx ≥ 4` suffices). -/
theorem sufficientTrailingZeros_ge_two (lx : Nat) (h8 : 8 ≤ lx) : 2 ≤ sufficientTrailingZeros lx := by
  unfold sufficientTrailingZeros
  rw [sufficientLoop, if_neg (by omega), sufficientLoop, if_neg (by omega)]
  have := (sufficientLoop_spec lx 39 2 (by omega) (by
    intro s' hs'
    have : s' = 0 ∨ s' = 1 := by omega
    rcases this with rfl | rfl <;> simp <;> omega)).1
  simpa using this

/-- the loop with Go's wrapping `uint64` multiplication `v *= 3`. -/
def sufficientLoopU64 (lx : Nat) : Nat → Nat → Nat → Nat
  | 0, _, _ => 41
  | fuel + 1, s, v => if v ≥ lx then s else sufficientLoopU64 lx fuel (s + 1) ((v * 3) % 2 ^ 64)

/-- **P4 no overflow**: whenever the loop variable is compared (`s ≤ 40`) it equals `3^s ≤ 3^40 < 2^64`. -/
theorem sufficient_compared_lt (s : Nat) (hs : s ≤ 40) : 3 ^ s ≤ 3 ^ 40 ∧ 3 ^ 40 < 2 ^ 64 :=
  ⟨Nat.pow_le_pow_right (by decide) hs, three_pow_40_lt⟩

/-- consequently the wrapping loop computes the same result: the only product that wraps (`3^41`, after the
last comparison at `s = 40`) is never looked at. -/
theorem sufficientLoopU64_eq (lx fuel s : Nat) (hs : s + fuel = 41) :
    sufficientLoopU64 lx fuel s (3 ^ s) = sufficientLoop lx fuel s (3 ^ s) := by
  induction fuel generalizing s with
  | zero => rfl
  | succ fuel ih =>
    rw [sufficientLoopU64, sufficientLoop]
    by_cases hc : 3 ^ s ≥ lx
    · rw [if_pos hc, if_pos hc]
    · rw [if_neg hc, if_neg hc]
      cases fuel with
      | zero => rfl
      | succ fuel =>
        have h1 : 3 ^ (s + 1) ≤ 3 ^ 40 := Nat.pow_le_pow_right (by decide) (by omega)
        have h2 := three_pow_40_lt
        have : (3 ^ s * 3) % 2 ^ 64 = 3 ^ (s + 1) := by
          rw [← Nat.pow_succ]; exact Nat.mod_eq_of_lt (by omega)
        rw [this, ← Nat.pow_succ]
        exact ih (s + 1) (by omega)

theorem sufficientTrailingZerosU64_eq (lx : Nat) :
    sufficientLoopU64 lx 41 0 1 = sufficientTrailingZeros lx :=
  sufficientLoopU64_eq lx 41 0 rfl

/-! ### P3 `score` -/

/-- **P3** (`msgLen ≥ 1` in Go, where `len(msg) ≥ 8`; the identity also holds for `msgLen = 0` with `x/0 = 0`). -/
theorem score_eq (trits : List Int) (msgLen : Nat) :
    score trits msgLen = min (maxHash / toInt trits / msgLen) (2 ^ 64 - 1) := by
  unfold score difficulty
  generalize maxHash / toInt trits = d
  have hle : d / msgLen ≤ d := Nat.div_le_self _ _
  simp only []
  split
  · omega
  · split <;> omega

theorem score_eq' (trits : List Int) (msgLen : Nat) (_h : 1 ≤ msgLen) :
    score trits msgLen = min (maxHash / toInt trits / msgLen) (2 ^ 64 - 1) := score_eq trits msgLen

end Iota.Proofs.Pow
