/-
P5: the v2 lane test `checkV2` is sound and never passes over a block containing a lane whose
difficulty strictly exceeds `lx`.
-/
import Iota.Proofs.Pow.Bits
import Iota.Proofs.Pow.Score

namespace Iota.Proofs.Pow
open Iota.Pow

/-! ### arithmetic -/

/-- (b) `s` trailing zeros ⇒ difficulty ≥ 3^s -/
theorem div_ge_of_le_pow (x s : Nat) (hs : s ≤ 243) (hpos : 1 ≤ x) (hx : x ≤ 3 ^ (243 - s)) :
    3 ^ s ≤ 3 ^ 243 / x := by
  rw [Nat.le_div_iff_mul_le (by omega)]
  have : 3 ^ 243 = 3 ^ s * 3 ^ (243 - s) := by rw [← Nat.pow_add]; congr 1; omega
  rw [this]
  exact Nat.mul_le_mul_left _ hx

/-- (c) at most the target hash ⇒ difficulty ≥ lx + 1 -/
theorem div_ge_of_le_target (M x lx : Nat) (hpos : 1 ≤ x) (hx : x ≤ M / (lx + 1)) :
    lx + 1 ≤ M / x := by
  rw [Nat.le_div_iff_mul_le (by omega)]
  rw [Nat.le_div_iff_mul_le (by omega)] at hx
  rw [Nat.mul_comm]; exact hx

/-- (d) difficulty > lx ⇒ at most the target hash -/
theorem le_target_of_div_gt (M x lx : Nat) (hpos : 1 ≤ x) (hx : lx < M / x) : x ≤ M / (lx + 1) := by
  rw [Nat.le_div_iff_mul_le (by omega)]
  have : lx + 1 ≤ M / x := hx
  rw [Nat.le_div_iff_mul_le (by omega)] at this
  rw [Nat.mul_comm]; exact this

/-- (d) difficulty > lx > 3^r ⇒ the hash integer is below `3^(243-r)` -/
theorem lt_pow_of_div_gt (x lx r : Nat) (hr : r ≤ 243) (hpos : 1 ≤ x) (hlx : 3 ^ r < lx)
    (hx : lx < 3 ^ 243 / x) : x < 3 ^ (243 - r) := by
  have h1 : lx + 1 ≤ 3 ^ 243 / x := hx
  rw [Nat.le_div_iff_mul_le (by omega)] at h1
  have h2 : x * 3 ^ r < (lx + 1) * x := by
    rw [Nat.mul_comm]
    exact Nat.mul_lt_mul_of_lt_of_le (by omega) (Nat.le_refl _) (by omega)
  have h3 : 3 ^ 243 = 3 ^ (243 - r) * 3 ^ r := by rw [← Nat.pow_add]; congr 1; omega
  have h4 : x * 3 ^ r < 3 ^ (243 - r) * 3 ^ r := by rw [← h3]; omega
  exact Nat.lt_of_mul_lt_mul_right h4

/-! ### the two words of `checkV2` -/

theorem topZero_succ (l h : Planes) (idx a : Nat) (ha : a < 243) :
    TopZero l h idx a ↔ TopZero l h idx (a + 1) ∧ laneTrit l h idx a = 0 := by
  unfold TopZero
  constructor
  · intro H
    exact ⟨fun i h1 h2 => H i (by omega) h2, H a (Nat.le_refl _) ha⟩
  · rintro ⟨H1, H2⟩ i h1 h2
    by_cases hi : i = a
    · subst hi; exact H2
    · exact H1 i (by omega) h2

/-- bit `idx` of `w` is 0 iff lane `idx` has `s` trailing zero trits -/
theorem w_bit_false_iff (l h : Planes) (s idx : Nat) (hs1 : 1 ≤ s) (hs : s ≤ 243) :
    (orDiff l h (243 - (s - 1)) ||| (l.toArray.getD (243 - s) 0 ^^^ h.toArray.getD (243 - s) 0)).getLsbD idx
      = false ↔ TopZero l h idx (243 - s) := by
  rw [topZero_succ l h idx (243 - s) (by omega), BitVec.getLsbD_or, Bool.or_eq_false_iff,
    orDiff_bit_false_iff, laneTrit_eq_zero]
  have : 243 - (s - 1) = 243 - s + 1 := by omega
  rw [this]; rfl

/-! ### P5 -/

/-- **P5 range** -/
theorem checkV2_le (l h : Planes) (s T : Nat) : checkV2 l h s T ≤ 64 := by
  unfold checkV2
  simp only []
  split
  · exact Nat.le_refl _
  · split
    · exact firstZeroBit_le _
    · cases hf : (List.range 64).find? _ with
      | none => exact Nat.le_refl _
      | some i =>
        have := List.mem_of_find?_eq_some hf
        rw [List.mem_range] at this
        simp only [Option.getD_some]; omega

/-- soundness in terms of `s` and `T` only: an accepted lane either has `s` trailing zeros or its integer is
at most `T`. -/
theorem checkV2_accept (l h : Planes) (s T : Nat) (hs1 : 1 ≤ s) (hs : s ≤ 243)
    (hi : checkV2 l h s T < 64) :
    stateToInt l h (checkV2 l h s T) ≤ 3 ^ (243 - s) ∨ stateToInt l h (checkV2 l h s T) ≤ T := by
  unfold checkV2 at hi ⊢
  simp only [] at hi ⊢
  split at hi
  · omega
  · rw [if_neg ‹_›]
    split at hi
    · rename_i hw
      rw [if_pos hw]
      left
      rw [← topZero_iff, ← w_bit_false_iff l h s _ hs1 hs]
      exact firstZeroBit_bit _ hi
    · rename_i hw
      rw [if_neg hw]
      right
      cases hf : (List.range 64).find? _ with
      | none => rw [hf] at hi; simp at hi
      | some i =>
        have := List.find?_some hf
        simp only [Bool.and_eq_true, decide_eq_true_eq] at this
        simp only [Option.getD_some]
        exact this.2

/-- completeness in terms of `s` and `T` only: a lane with `s - 1` trailing zeros and integer at most `T`
forces acceptance of some lane. -/
theorem checkV2_complete (l h : Planes) (s T : Nat) (j : Nat) (hj : j < 64)
    (hz : TopZero l h j (243 - (s - 1))) (hT : stateToInt l h j ≤ T) : checkV2 l h s T < 64 := by
  have hbit : (orDiff l h (243 - (s - 1))).getLsbD j = false := (orDiff_bit_false_iff l h _ j).mpr hz
  unfold checkV2
  simp only []
  split
  · rename_i hv
    rw [hv, allOnes_getLsbD j hj] at hbit; cases hbit
  · split
    · rename_i hw
      exact (firstZeroBit_lt_iff _).mpr hw
    · cases hf : (List.range 64).find? _ with
      | none =>
        rw [List.find?_range_eq_none] at hf
        have := hf j hj
        simp only [Bool.not_eq_true', Bool.and_eq_false_iff, decide_eq_false_iff_not,
          Bool.not_eq_false'] at this
        have h1 := firstZeroBit_le_of_bit _ j hbit
        have h2 := lt_lenNot_of_bit _ j hj hbit
        rw [hbit] at this
        rcases this with ((h | h) | h) | h
        · omega
        · omega
        · cases h
        · omega
      | some i =>
        have := List.mem_of_find?_eq_some hf
        rw [List.mem_range] at this
        simpa using this

section main
variable (l h : Planes) (lx : Nat) (h8 : 8 ≤ lx) (hlx : lx < 2 ^ 64)
include h8 hlx

/-- **P5 soundness**: an accepted lane has difficulty at least `lx`. -/
theorem checkV2_sound
    (hi : checkV2 l h (sufficientTrailingZeros lx) (targetHash lx) < 64) :
    lx ≤ maxHash / stateToInt l h (checkV2 l h (sufficientTrailingZeros lx) (targetHash lx)) := by
  have hs2 := sufficientTrailingZeros_ge_two lx h8
  have hs41 := sufficientTrailingZeros_le lx hlx
  have hge := sufficientTrailingZeros_ge lx hlx
  generalize sufficientTrailingZeros lx = s at *
  have hpos := stateToInt_pos l h (checkV2 l h s (targetHash lx))
  rcases checkV2_accept l h s (targetHash lx) (by omega) (by omega) hi with hc | hc
  · rw [maxHash_eq]
    exact Nat.le_trans hge (div_ge_of_le_pow _ s (by omega) hpos hc)
  · unfold targetHash at hc
    have := div_ge_of_le_target maxHash _ lx hpos hc
    omega

/-- **P5 no pass-over**: if some lane has difficulty strictly above `lx`, a lane is accepted. -/
theorem checkV2_no_passover
    (hex : ∃ j, j < 64 ∧ maxHash / stateToInt l h j > lx) :
    checkV2 l h (sufficientTrailingZeros lx) (targetHash lx) < 64 := by
  obtain ⟨j, hj, hd⟩ := hex
  have hs2 := sufficientTrailingZeros_ge_two lx h8
  have hs41 := sufficientTrailingZeros_le lx hlx
  have hleast := sufficientTrailingZeros_least lx hlx (sufficientTrailingZeros lx - 1) (by omega)
  generalize sufficientTrailingZeros lx = s at *
  have hpos := stateToInt_pos l h j
  apply checkV2_complete l h s (targetHash lx) j hj
  · rw [topZero_iff]
    rw [maxHash_eq] at hd
    exact Nat.le_of_lt (lt_pow_of_div_gt _ lx (s - 1) (by omega) hpos hleast hd)
  · exact le_target_of_div_gt maxHash _ lx hpos hd

/-- **P5 score**: an accepted lane scores at least `t` for a message of length `len`, when
`lx = len * t`. -/
theorem checkV2_score (len t : Nat) (hlen : 1 ≤ len) (hlt : lx = len * t)
    (hi : checkV2 l h (sufficientTrailingZeros lx) (targetHash lx) < 64) :
    t ≤ score (laneTrits l h (checkV2 l h (sufficientTrailingZeros lx) (targetHash lx))) len := by
  have hsound := checkV2_sound l h lx h8 hlx hi
  rw [score_eq]
  unfold stateToInt at hsound
  generalize maxHash / toInt _ = d at *
  have h1 : t ≤ d / len := by
    rw [Nat.le_div_iff_mul_le (by omega), Nat.mul_comm]; omega
  have h2 : t ≤ lx := by
    rw [hlt]; exact Nat.le_mul_of_pos_left t (by omega)
  omega

end main

/-- **P5** collected. -/
theorem checkV2_spec (l h : Planes) (lx : Nat) (h8 : 8 ≤ lx) (hlx : lx < 2 ^ 64) :
    let s := sufficientTrailingZeros lx
    let T := targetHash lx
    let i := checkV2 l h s T
    i ≤ 64 ∧
    (i < 64 → maxHash / stateToInt l h i ≥ lx) ∧
    ((∃ j, j < 64 ∧ maxHash / stateToInt l h j > lx) → i < 64) ∧
    (∀ len t, 1 ≤ len → lx = len * t → i < 64 → score (laneTrits l h i) len ≥ t) :=
  ⟨checkV2_le l h _ _, checkV2_sound l h lx h8 hlx, checkV2_no_passover l h lx h8 hlx,
    fun len t h1 h2 h3 => checkV2_score l h lx h8 hlx len t h1 h2 h3⟩

/-- lane integers are always in `[1, 3^243]` -/
theorem stateToInt_range (l h : Planes) (j : Nat) : 1 ≤ stateToInt l h j ∧ stateToInt l h j ≤ 3 ^ 243 :=
  ⟨stateToInt_pos l h j, stateToInt_le l h j⟩

end Iota.Proofs.Pow
