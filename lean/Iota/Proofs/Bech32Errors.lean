/-
Lift of the BCH certificate (`Iota.Proofs.BCH.bch_detects`) to `Decode`: a valid Bech32 string
with 1…4 substituted characters is rejected.
-/
import Iota.Proofs.BCH
import Iota.Proofs.Bech32

namespace Iota.Proofs.Bech32Errors
open Iota.Bech32 Iota.Proofs Iota.Proofs.Bech32 Iota.Proofs.BCH

/-- pointwise relation between two lists of equal length (`Forall2` of Batteries). -/
inductive Forall2 (R : UInt8 → UInt8 → Prop) : List UInt8 → List UInt8 → Prop
  | nil : Forall2 R [] []
  | cons {x y : UInt8} {xs ys : List UInt8} : R x y → Forall2 R xs ys → Forall2 R (x :: xs) (y :: ys)

/-! ### substitutions -/

def isDigitAscii (c : UInt8) : Bool := decide (48 ≤ c.toNat) && decide (c.toNat ≤ 57)

/-- letter for letter of the same case, or digit for digit. -/
def sameKind (c c' : UInt8) : Prop :=
  (isLowerAscii c = true ∧ isLowerAscii c' = true) ∨ (isUpperAscii c = true ∧ isUpperAscii c' = true) ∨
  (isDigitAscii c = true ∧ isDigitAscii c' = true)

/-- the 5-bit symbol a data character stands for (0xFF if it is not a charset character in either case). -/
def symOf (c : UInt8) : UInt8 := decMap (toLowerAscii c)

/-- admissible change of one human-readable-part character. -/
def HrpSub (c c' : UInt8) : Prop := c = c' ∨ sameKind c c'

/-- admissible change of one data character: another charset character (either case) of a different symbol value. -/
def DataSub (c c' : UInt8) : Prop := c = c' ∨ (symOf c' ≠ 0xFF ∧ symOf c' ≠ symOf c)

/-! ### per-character facts -/

def hi (c : UInt8) : UInt8 := toLowerAscii c >>> 5
def lo (c : UInt8) : UInt8 := toLowerAscii c &&& 31

def kindCheck (c : UInt8) : Bool :=
  (!isLowerAscii c || ((hi c == 3) && ((lo c).toNat + 96 == c.toNat))) &&
  (!isUpperAscii c || ((hi c == 3) && ((lo c).toNat + 64 == c.toNat))) &&
  (!isDigitAscii c || ((hi c == 1) && ((lo c).toNat + 32 == c.toNat))) &&
  decide ((hi c).toNat < 32) && decide ((lo c).toNat < 32)

theorem kindCheck_all (c : UInt8) : kindCheck c = true :=
  forall_byte (P := fun c => kindCheck c = true) (by decide +kernel) c

theorem hi_lo_lt (c : UInt8) : (hi c).toNat < 32 ∧ (lo c).toNat < 32 := by
  have := kindCheck_all c
  simp only [kindCheck, Bool.and_eq_true, decide_eq_true_eq] at this
  exact ⟨this.1.2, this.2⟩

theorem sameKind_hi_lo {c c' : UInt8} (h : sameKind c c') : hi c = hi c' ∧ (lo c = lo c' ↔ c = c') := by
  have k := kindCheck_all c
  have k' := kindCheck_all c'
  simp only [kindCheck, Bool.and_eq_true, Bool.or_eq_true, Bool.not_eq_true', beq_iff_eq, decide_eq_true_eq] at k k'
  obtain ⟨⟨⟨⟨kl, ku⟩, kd⟩, _⟩, _⟩ := k
  obtain ⟨⟨⟨⟨kl', ku'⟩, kd'⟩, _⟩, _⟩ := k'
  have inj : ∀ {a b : UInt8}, a.toNat = b.toNat → a = b := fun h => UInt8.toNat_inj.mp h
  rcases h with ⟨h1, h2⟩ | ⟨h1, h2⟩ | ⟨h1, h2⟩
  · rcases kl with kl | kl
    · rw [h1] at kl; simp at kl
    rcases kl' with kl' | kl'
    · rw [h2] at kl'; simp at kl'
    refine ⟨by rw [kl.1, kl'.1], ⟨fun h => inj (by rw [← kl.2, ← kl'.2, h]), fun h => by rw [h]⟩⟩
  · rcases ku with ku | ku
    · rw [h1] at ku; simp at ku
    rcases ku' with ku' | ku'
    · rw [h2] at ku'; simp at ku'
    refine ⟨by rw [ku.1, ku'.1], ⟨fun h => inj (by rw [← ku.2, ← ku'.2, h]), fun h => by rw [h]⟩⟩
  · rcases kd with kd | kd
    · rw [h1] at kd; simp at kd
    rcases kd' with kd' | kd'
    · rw [h2] at kd'; simp at kd'
    refine ⟨by rw [kd.1, kd'.1], ⟨fun h => inj (by rw [← kd.2, ← kd'.2, h]), fun h => by rw [h]⟩⟩

theorem symOf_sep : symOf separator = 0xFF := by decide

/-! ### hamming distance bookkeeping -/

theorem hamming_append (a a' b b' : List UInt8) (h : a.length = a'.length) :
    hamming (a ++ b) (a' ++ b') = hamming a a' + hamming b b' := by
  induction a generalizing a' with
  | nil =>
    cases a' with
    | nil => simp [hamming]
    | cons _ _ => simp at h
  | cons x xs ih =>
    cases a' with
    | nil => simp at h
    | cons y ys =>
      simp only [List.cons_append, hamming, List.length_cons] at h ⊢
      rw [ih ys (by omega)]; omega

theorem hamming_self (a : List UInt8) : hamming a a = 0 := by
  induction a with
  | nil => rfl
  | cons x xs ih => simp [hamming, ih]

theorem hamming_map_eq {R : UInt8 → UInt8 → Prop} (f : UInt8 → UInt8) {a a' : List UInt8}
    (h : Forall2 R a a') (hf : ∀ x y, R x y → (f x = f y ↔ x = y)) :
    hamming (a.map f) (a'.map f) = hamming a a' := by
  induction h with
  | nil => rfl
  | @cons x y xs ys hxy _ ih =>
    simp only [List.map_cons, hamming, ih]
    have := hf x y hxy
    by_cases hxy' : x = y
    · simp [hxy', this.mpr hxy']
    · have : f x ≠ f y := fun h => hxy' (this.mp h)
      simp [hxy', this]

theorem map_eq_of_forall2 {R : UInt8 → UInt8 → Prop} (f : UInt8 → UInt8) {a a' : List UInt8}
    (h : Forall2 R a a') (hf : ∀ x y, R x y → f x = f y) : a.map f = a'.map f := by
  induction h with
  | nil => rfl
  | cons hxy _ ih => simp [hf _ _ hxy, ih]

theorem forall2_length {R : UInt8 → UInt8 → Prop} {a a' : List UInt8} (h : Forall2 R a a') :
    a.length = a'.length := by
  induction h with
  | nil => rfl
  | cons _ _ ih => simp [ih]

theorem diffWithin_common_prefix (p b b' : List UInt8) (w : Nat) (hb : b.length ≤ w) :
    DiffWithinLast w (p ++ b) (p ++ b') := by
  intro i hi hne
  by_cases hip : i < p.length
  · rw [List.getElem?_append_left hip, List.getElem?_append_left hip] at hne
    exact absurd rfl hne
  · rw [List.length_append]; omega

/-! ### the symbol vector of a string -/

def symsOf (d : Str) : List UInt8 := d.map symOf

theorem hrpExpand_lower (h : Str) : hrpExpand (lower h) = h.map hi ++ [0] ++ h.map lo := by
  simp [hrpExpand, lower, List.map_map, Function.comp_def]
  rfl

theorem symsOf_of_decode (d : Str) (syms : List UInt8) (h : charsetDecode (lower d) = .ok syms) :
    syms = symsOf d ∧ ∀ x ∈ syms, x.toNat < 32 := by
  obtain ⟨h1, h2⟩ := charsetDecode_ok _ _ h
  refine ⟨?_, h2⟩
  have : (lower d).map decMap = syms := by
    rw [h1]
    simp only [charsetEncode, List.map_map]
    conv => rhs; rw [← List.map_id syms]
    apply List.map_congr_left
    intro s hs
    exact (charset_spec s (h2 s hs)).1
  rw [← this]; simp [symsOf, symOf, lower, List.map_map, Function.comp_def]

/-- everything `Decode` establishes about the checksum, in symbol-vector form. -/
theorem polymod_of_decode (h d : Str) (hsep : separator ∉ d) (hrp : Str) (data : List UInt8)
    (hd : decode (h ++ [separator] ++ d) = .ok (hrp, data)) :
    polymod (h.map hi ++ [0] ++ h.map lo ++ symsOf d) = 1 ∧ (∀ x ∈ symsOf d, x.toNat < 32) ∧
    h.length + d.length ≤ 89 := by
  obtain ⟨n, syms, g, _⟩ := (decode_ok_iff_guards _ _ _).mp hd
  have hn : n = h.length := by
    have := lastIndexSep_of_split h d hsep
    rw [g.g2] at this; exact Option.some.inj this
  subst hn
  have htake : (h ++ [separator] ++ d).take h.length = h := by simp
  have hdrop : (h ++ [separator] ++ d).drop (h.length + 1) = d := by simp
  have g7 := g.g7
  rw [lower_drop, hdrop] at g7
  obtain ⟨hs, hlt⟩ := symsOf_of_decode d syms g7
  have g8 := g.g8.2
  unfold verifyChecksum at g8
  rw [lower_take, htake, hrpExpand_lower, hs] at g8
  refine ⟨by simpa using g8, hs ▸ hlt, ?_⟩
  have := g.g1
  simp only [List.length_append, List.length_cons, List.length_nil, maxStringLength] at this
  omega

/-- C16: a valid Bech32 string with one to four characters changed — data characters by charset
characters of a different value, prefix characters by characters of the same kind — is rejected. -/
theorem decode_rejects (h d h' d' : Str) (hrp : Str) (data : List UInt8)
    (hsep : separator ∉ d)
    (hok : decode (h ++ [separator] ++ d) = .ok (hrp, data))
    (hh : Forall2 HrpSub h h') (hd : Forall2 DataSub d d')
    (h1 : 1 ≤ hamming h h' + hamming d d') (h4 : hamming h h' + hamming d d' ≤ 4) :
    ∃ e, decode (h' ++ [separator] ++ d') = .error e := by
  cases hres : decode (h' ++ [separator] ++ d') with
  | error e => exact ⟨e, rfl⟩
  | ok r =>
    exfalso
    obtain ⟨hrp', data'⟩ := r
    have hsep' : separator ∉ d' := by
      intro hmem
      have : ∀ {a a' : List UInt8}, Forall2 DataSub a a' → separator ∉ a → separator ∉ a' := by
        intro a a' hf
        induction hf with
        | nil => intro _ h; simp at h
        | @cons x y xs ys hxy _ ih =>
          intro hn hm
          simp only [List.mem_cons, not_or] at hn
          rcases List.mem_cons.mp hm with rfl | hm
          · rcases hxy with rfl | ⟨h1, _⟩
            · exact hn.1 rfl
            · exact h1 symOf_sep
          · exact ih hn.2 hm
      exact this hd hsep hmem
    obtain ⟨p1, lt1, len1⟩ := polymod_of_decode h d hsep hrp data hok
    obtain ⟨p2, lt2, _⟩ := polymod_of_decode h' d' hsep' hrp' data' hres
    have hlh := forall2_length hh
    have hld := forall2_length hd
    have hhi : h.map hi = h'.map hi := map_eq_of_forall2 hi hh (by
      intro x y hxy
      rcases hxy with rfl | hk
      · rfl
      · exact (sameKind_hi_lo hk).1)
    have hlo : hamming (h.map lo) (h'.map lo) = hamming h h' := hamming_map_eq lo hh (by
      intro x y hxy
      rcases hxy with rfl | hk
      · simp
      · exact (sameKind_hi_lo hk).2)
    have hsy : hamming (symsOf d) (symsOf d') = hamming d d' := hamming_map_eq symOf hd (by
      intro x y hxy
      rcases hxy with rfl | ⟨_, hne⟩
      · simp
      · constructor
        · intro he; exact absurd he.symm hne
        · intro he; rw [he])
    rw [← hhi] at p2
    -- v = P ++ B, v' = P ++ B' with P the unchanged part
    have e1 : h.map hi ++ [0] ++ h.map lo ++ symsOf d = (h.map hi ++ [0]) ++ (h.map lo ++ symsOf d) := by
      simp
    have e2 : h.map hi ++ [0] ++ h'.map lo ++ symsOf d' = (h.map hi ++ [0]) ++ (h'.map lo ++ symsOf d') := by
      simp
    rw [e1] at p1
    rw [e2] at p2
    have hham : hamming ((h.map hi ++ [0]) ++ (h.map lo ++ symsOf d))
        ((h.map hi ++ [0]) ++ (h'.map lo ++ symsOf d')) = hamming h h' + hamming d d' := by
      rw [hamming_append _ _ _ _ rfl, hamming_self, hamming_append _ _ _ _ (by simp [hlh]), hlo, hsy]
      omega
    have hlt : ∀ x ∈ (h.map hi ++ [0]) ++ (h.map lo ++ symsOf d), x.toNat < 32 := by
      intro x hx
      simp only [List.mem_append, List.mem_map, List.mem_cons, List.not_mem_nil, or_false] at hx
      rcases hx with (⟨c, _, rfl⟩ | rfl) | ⟨c, _, rfl⟩ | hx
      · exact (hi_lo_lt c).1
      · decide
      · exact (hi_lo_lt c).2
      · exact lt1 x hx
    have hlt' : ∀ x ∈ (h.map hi ++ [0]) ++ (h'.map lo ++ symsOf d'), x.toNat < 32 := by
      intro x hx
      simp only [List.mem_append, List.mem_map, List.mem_cons, List.not_mem_nil, or_false] at hx
      rcases hx with (⟨c, _, rfl⟩ | rfl) | ⟨c, _, rfl⟩ | hx
      · exact (hi_lo_lt c).1
      · decide
      · exact (hi_lo_lt c).2
      · exact lt2 x hx
    have hwin := diffWithin_common_prefix (h.map hi ++ [0]) (h.map lo ++ symsOf d) (h'.map lo ++ symsOf d') 89
      (by simp [symsOf]; omega)
    exact bch_detects _ _ (by simp [symsOf, hlh, hld]) hlt hlt' (by rw [hham]; exact h1) (by rw [hham]; exact h4)
      hwin p1 p2

end Iota.Proofs.Bech32Errors
