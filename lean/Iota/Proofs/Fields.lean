/-
`strings.Fields` on byte strings (`Iota.Mnemonic.fields`): tokenisation, canonical form, and the
parse ∘ print ∘ parse = parse law for mnemonics.  Core Lean only.
-/
import Iota.Model.Mnemonic

namespace Iota.Proofs.Fields
open Iota.Mnemonic Iota.Bip39

/-! ### Statement vocabulary -/

/-- the next byte (if any) is not a UTF-8 continuation byte -/
def Tail (t : Bytes) : Prop := ∀ c, t.head? = some c → ¬ (0x80 ≤ c.toNat ∧ c.toNat ≤ 0xBF)

/-- no white-space encoding starts anywhere inside `w`, whatever admissible bytes follow it -/
def SpaceFree (w : Bytes) : Prop := ∀ i, i < w.length → ∀ t, Tail t → spaceLen (w.drop i ++ t) = 0

/-- a non-empty concatenation of white-space encodings -/
inductive SpaceRun : Bytes → Prop
  | one (s : Bytes) : 0 < spaceLen s → s.length = spaceLen s → SpaceRun s
  | cons (s r : Bytes) : 0 < spaceLen s → s.length = spaceLen s → SpaceRun r → SpaceRun (s ++ r)

/-! ### The white-space encodings -/

/-- UTF-8 continuation byte -/
def Cont (c : UInt8) : Prop := 0x80 ≤ c.toNat ∧ c.toNat ≤ 0xBF

/-- the exact UTF-8 encodings of the `unicode.IsSpace` code points -/
inductive Enc : Bytes → Prop
  | ascii (a : UInt8) : (a = 0x09 ∨ a = 0x0A ∨ a = 0x0B ∨ a = 0x0C ∨ a = 0x0D ∨ a = 0x20) → Enc [a]
  | c2 (b : UInt8) : (b = 0x85 ∨ b = 0xA0) → Enc [0xC2, b]
  | e1 : Enc [0xE1, 0x9A, 0x80]
  | e2a (c : UInt8) :
      ((0x80 ≤ c.toNat ∧ c.toNat ≤ 0x8A) ∨ c = 0xA8 ∨ c = 0xA9 ∨ c = 0xAF) → Enc [0xE2, 0x80, c]
  | e2b : Enc [0xE2, 0x81, 0x9F]
  | e3 : Enc [0xE3, 0x80, 0x80]

theorem enc_of_spaceLen (s : Bytes) (n : Nat) (hn : spaceLen s = n) (h : 0 < n) :
    ∃ p rest, s = p ++ rest ∧ Enc p ∧ p.length = n := by
  unfold spaceLen at hn
  split at hn
  case h_10 c tl =>
    split at hn
    · next hc => exact ⟨[0xE2, 0x80, c], tl, rfl, .e2a c hc, hn⟩
    · omega
  case h_13 => omega
  all_goals
    rename_i tl
    subst hn
    first
    | exact ⟨[_], tl, rfl, .ascii _ (by simp), rfl⟩
    | exact ⟨[_, _], tl, rfl, .c2 _ (by simp), rfl⟩
    | exact ⟨_, tl, rfl, .e1, rfl⟩
    | exact ⟨_, tl, rfl, .e2b, rfl⟩
    | exact ⟨_, tl, rfl, .e3, rfl⟩

theorem spaceLen_enc {p : Bytes} (hp : Enc p) (rest : Bytes) : spaceLen (p ++ rest) = p.length := by
  cases hp with
  | ascii a h => rcases h with rfl | rfl | rfl | rfl | rfl | rfl <;> rfl
  | c2 b h => rcases h with rfl | rfl <;> rfl
  | e1 => rfl
  | e2a c h => simp [spaceLen, h]
  | e2b => rfl
  | e3 => rfl

/-- an encoding is a non-continuation byte followed by continuation bytes only -/
theorem enc_shape {p : Bytes} (hp : Enc p) : ∃ a q, p = a :: q ∧ ¬ Cont a ∧ ∀ c ∈ q, Cont c := by
  cases hp with
  | ascii a h =>
    refine ⟨a, [], rfl, ?_, by simp⟩
    rcases h with rfl | rfl | rfl | rfl | rfl | rfl <;> simp [Cont]
  | c2 b h =>
    refine ⟨_, _, rfl, by simp [Cont], ?_⟩
    rcases h with rfl | rfl <;> simp [Cont]
  | e1 => exact ⟨_, _, rfl, by simp [Cont], by simp [Cont]⟩
  | e2a c h =>
    refine ⟨_, _, rfl, by simp [Cont], ?_⟩
    intro x hx
    simp only [List.mem_cons, List.not_mem_nil, or_false] at hx
    rcases hx with rfl | rfl
    · simp [Cont]
    · rcases h with h | rfl | rfl | rfl
      · exact ⟨h.1, by have := h.2; omega⟩
      all_goals simp [Cont]
  | e2b => exact ⟨_, _, rfl, by simp [Cont], by simp [Cont]⟩
  | e3 => exact ⟨_, _, rfl, by simp [Cont], by simp [Cont]⟩

theorem spaceLen_le_length (s : Bytes) : spaceLen s ≤ s.length := by
  by_cases h : 0 < spaceLen s
  · obtain ⟨p, rest, rfl, _, hl⟩ := enc_of_spaceLen s _ rfl h
    rw [← hl]; simp
  · omega

/-- once an encoding is recognised, later bytes are irrelevant -/
theorem spaceLen_append_of_pos {s : Bytes} (h : 0 < spaceLen s) (t : Bytes) :
    spaceLen (s ++ t) = spaceLen s := by
  obtain ⟨p, rest, rfl, hp, hl⟩ := enc_of_spaceLen s _ rfl h
  rw [List.append_assoc, spaceLen_enc hp, hl]

theorem tail_of_spaceLen_pos {s : Bytes} (h : 0 < spaceLen s) : Tail s := by
  obtain ⟨p, rest, rfl, hp, _⟩ := enc_of_spaceLen s _ rfl h
  obtain ⟨a, q, rfl, ha, _⟩ := enc_shape hp
  intro c hc
  simp at hc
  subst hc
  exact ha

theorem tail_nil : Tail [] := by intro c hc; simp at hc

theorem tail_space (t : Bytes) : Tail (0x20 :: t) := by
  intro c hc
  simp at hc
  subst hc
  simp

theorem tail_append_of_ne_nil {s : Bytes} (hs : Tail s) (hne : s ≠ []) (t : Bytes) : Tail (s ++ t) := by
  cases s with
  | nil => exact absurd rfl hne
  | cons a s => intro c hc; exact hs c (by simpa using hc)

/-- bytes after a non-empty `u` that do not start with a continuation byte cannot complete a pattern -/
theorem spaceLen_append_tail {u t : Bytes} (hu : u ≠ []) (ht : Tail t) :
    spaceLen (u ++ t) = spaceLen u := by
  by_cases h : 0 < spaceLen u
  · exact spaceLen_append_of_pos h t
  · have h0 : spaceLen u = 0 := by omega
    rw [h0]
    by_cases h' : 0 < spaceLen (u ++ t)
    · exfalso
      obtain ⟨p, rest, heq, hp, _⟩ := enc_of_spaceLen (u ++ t) _ rfl h'
      rcases List.append_eq_append_iff.mp heq with ⟨a', hpa, hta⟩ | ⟨c', huc, hrc⟩
      · -- p = u ++ a', t = a' ++ rest
        obtain ⟨a, q, hpq, _, hq⟩ := enc_shape hp
        cases a' with
        | nil =>
          have := spaceLen_enc hp []
          simp [hpa, h0] at this
          exact hu (List.length_eq_zero_iff.mp this.symm)
        | cons x a' =>
          cases u with
          | nil => exact hu rfl
          | cons y u =>
            rw [hpa] at hpq
            simp only [List.cons_append, List.cons.injEq] at hpq
            have hx : Cont x := hq x (by rw [← hpq.2]; simp)
            exact ht x (by simp [hta]) hx
      · -- u = p ++ c'
        have := spaceLen_enc hp c'
        rw [← huc, h0] at this
        have hne : p ≠ [] := by
          obtain ⟨a, q, hpq, _, _⟩ := enc_shape hp
          simp [hpq]
        exact hne (List.length_eq_zero_iff.mp this.symm)
    · omega

/-! ### Tokens -/

/-- `none` = one white-space code point, `some c` = an ordinary byte -/
def tokens : Bytes → List (Option UInt8)
  | [] => []
  | c :: cs =>
    if spaceLen (c :: cs) = 0 then some c :: tokens cs
    else none :: tokens ((c :: cs).drop (spaceLen (c :: cs)))
termination_by s => s.length
decreasing_by
  · simp
  · simp only [List.length_drop, List.length_cons]; omega

theorem tokens_nil : tokens [] = [] := by rw [tokens]

theorem tokens_cons_zero {c : UInt8} {cs : Bytes} (h : spaceLen (c :: cs) = 0) :
    tokens (c :: cs) = some c :: tokens cs := by
  rw [tokens, if_pos h]

theorem tokens_cons_pos {c : UInt8} {cs : Bytes} (h : spaceLen (c :: cs) ≠ 0) :
    tokens (c :: cs) = none :: tokens ((c :: cs).drop (spaceLen (c :: cs))) := by
  rw [tokens, if_neg h]

/-- split a token list at `none`, dropping empty groups; `cur` is the group being collected (reversed) -/
def groupsAux : List (Option UInt8) → Bytes → List Bytes
  | [], cur => if cur.isEmpty then [] else [cur.reverse]
  | some c :: ts, cur => groupsAux ts (c :: cur)
  | none :: ts, cur => if cur.isEmpty then groupsAux ts [] else cur.reverse :: groupsAux ts []

theorem fieldsAux_eq (fuel : Nat) : ∀ (s cur : Bytes), s.length ≤ fuel →
    fieldsAux fuel s cur = groupsAux (tokens s) cur := by
  induction fuel with
  | zero =>
    intro s cur h
    have : s = [] := List.length_eq_zero_iff.mp (by omega)
    subst this
    simp [fieldsAux, tokens_nil, groupsAux]
  | succ fuel ih =>
    intro s cur h
    cases s with
    | nil => simp [fieldsAux, tokens_nil, groupsAux]
    | cons c cs =>
      simp only [fieldsAux]
      by_cases hn : spaceLen (c :: cs) = 0
      · rw [if_pos hn, tokens_cons_zero hn, groupsAux]
        exact ih _ _ (by simpa using h)
      · rw [if_neg hn, tokens_cons_pos hn, groupsAux]
        rw [ih _ [] (by simp only [List.length_drop]; simp only [List.length_cons] at h ⊢; omega)]

theorem fields_eq (s : Bytes) : fields s = groupsAux (tokens s) [] :=
  fieldsAux_eq _ _ _ (by omega)

/-! ### Group lemmas -/

theorem groupsAux_map_some (w : Bytes) (ts : List (Option UInt8)) (cur : Bytes) :
    groupsAux (w.map some ++ ts) cur = groupsAux ts (w.reverse ++ cur) := by
  induction w generalizing cur with
  | nil => simp
  | cons c w ih => simp [groupsAux, ih]

theorem groupsAux_append_none (x y : List (Option UInt8)) (cur : Bytes) :
    groupsAux (x ++ none :: y) cur = groupsAux x cur ++ groupsAux y [] := by
  induction x generalizing cur with
  | nil => cases cur <;> simp [groupsAux]
  | cons a x ih =>
    cases a with
    | some c => simp [groupsAux, ih]
    | none => cases cur <;> simp [groupsAux, ih]

theorem groupsAux_replicate_none (k : Nat) (y : List (Option UInt8)) :
    groupsAux (List.replicate k none ++ y) [] = groupsAux y [] := by
  induction k with
  | zero => simp
  | succ k ih => simp [List.replicate_succ, groupsAux, ih]

theorem groupsAux_word {w : Bytes} (hw : w ≠ []) : groupsAux (w.map some) [] = [w] := by
  have := groupsAux_map_some w [] []
  simp only [List.append_nil] at this
  rw [this, groupsAux]
  simp [hw]

/-! ### Token lemmas -/

theorem tokens_append_tail (n : Nat) : ∀ (a t : Bytes), a.length ≤ n → Tail t →
    tokens (a ++ t) = tokens a ++ tokens t := by
  induction n with
  | zero =>
    intro a t h _
    have : a = [] := List.length_eq_zero_iff.mp (by omega)
    subst this; simp [tokens_nil]
  | succ n ih =>
    intro a t h ht
    cases a with
    | nil => simp [tokens_nil]
    | cons c cs =>
      have hsl : spaceLen (c :: cs ++ t) = spaceLen (c :: cs) :=
        spaceLen_append_tail (by simp) ht
      by_cases hn : spaceLen (c :: cs) = 0
      · have hn' : spaceLen (c :: (cs ++ t)) = 0 := by simpa [hn] using hsl
        rw [List.cons_append, tokens_cons_zero hn', tokens_cons_zero hn,
          ih cs t (by simpa using h) ht]
        rfl
      · have hn' : spaceLen (c :: (cs ++ t)) ≠ 0 := by
          rw [← List.cons_append, hsl]; exact hn
        rw [List.cons_append, tokens_cons_pos hn', tokens_cons_pos hn, ← List.cons_append, hsl,
          List.drop_append_of_le_length (spaceLen_le_length _),
          ih _ t (by simp only [List.length_drop]; simp only [List.length_cons] at h ⊢; omega) ht]
        rfl

theorem tokens_append {a t : Bytes} (ht : Tail t) : tokens (a ++ t) = tokens a ++ tokens t :=
  tokens_append_tail _ a t (Nat.le_refl _) ht

theorem spaceFree_tail {c : UInt8} {w : Bytes} (h : SpaceFree (c :: w)) : SpaceFree w := by
  intro i hi t ht
  have := h (i + 1) (by simpa using hi) t ht
  simpa using this

theorem tokens_spaceFree {w : Bytes} (h : SpaceFree w) : tokens w = w.map some := by
  induction w with
  | nil => simp [tokens_nil]
  | cons c w ih =>
    have h0 : spaceLen (c :: w) = 0 := by
      have := h 0 (by simp) [] tail_nil
      simpa using this
    rw [tokens_cons_zero h0, ih (spaceFree_tail h)]
    rfl

/-- a single encoding is one separator token -/
theorem tokens_enc_append {s : Bytes} (hpos : 0 < spaceLen s) (hlen : s.length = spaceLen s)
    (t : Bytes) : tokens (s ++ t) = none :: tokens t := by
  cases s with
  | nil => simp [spaceLen] at hpos
  | cons c cs =>
    have hsl := spaceLen_append_of_pos hpos t
    have hn' : spaceLen (c :: (cs ++ t)) ≠ 0 := by
      rw [← List.cons_append, hsl]; omega
    rw [List.cons_append, tokens_cons_pos hn', ← List.cons_append, hsl, ← hlen]
    simp

theorem tail_spaceRun {r : Bytes} (hr : SpaceRun r) : Tail r := by
  cases hr with
  | one s hpos _ => exact tail_of_spaceLen_pos hpos
  | cons s r hpos _ _ =>
    refine tail_append_of_ne_nil (tail_of_spaceLen_pos hpos) ?_ _
    intro h; subst h; simp [spaceLen] at hpos

theorem spaceRun_ne_nil {r : Bytes} (hr : SpaceRun r) : r ≠ [] := by
  cases hr with
  | one s hpos _ => intro h; subst h; simp [spaceLen] at hpos
  | cons s r hpos _ _ =>
    intro h
    have : s = [] := (List.append_eq_nil_iff.mp h).1
    subst this; simp [spaceLen] at hpos

theorem tokens_spaceRun {r : Bytes} (hr : SpaceRun r) :
    ∃ k, ∀ t, tokens (r ++ t) = List.replicate (k + 1) none ++ tokens t := by
  induction hr with
  | one s hpos hlen => exact ⟨0, fun t => by simp [tokens_enc_append hpos hlen]⟩
  | cons s r hpos hlen _ ih =>
    obtain ⟨k, hk⟩ := ih
    refine ⟨k + 1, fun t => ?_⟩
    rw [List.append_assoc, tokens_enc_append hpos hlen, hk, List.replicate_succ (n := k + 1)]
    rfl

/-- the fields of `a ++ r ++ b` for a white-space run `r` are those of `a` followed by those of `b` -/
theorem fields_append_run (a b r : Bytes) (hr : SpaceRun r) :
    fields (a ++ r ++ b) = fields a ++ fields b := by
  obtain ⟨k, hk⟩ := tokens_spaceRun hr
  rw [fields_eq, fields_eq, fields_eq, List.append_assoc,
    tokens_append (tail_append_of_ne_nil (tail_spaceRun hr) (spaceRun_ne_nil hr) b), hk,
    List.replicate_succ, List.cons_append, groupsAux_append_none, groupsAux_replicate_none]

/-! ### Main theorems -/

theorem tokens_space (t : Bytes) : tokens (0x20 :: t) = none :: tokens t :=
  tokens_enc_append (s := [0x20]) (by decide) (by decide) t

theorem fields_join (ws : List Bytes) (h : ∀ w ∈ ws, w ≠ [] ∧ SpaceFree w) :
    fields (join ws) = ws := by
  match ws, h with
  | [], _ => simp [join, fields_eq, tokens_nil, groupsAux]
  | [w], h =>
    have hw := h w (by simp)
    rw [join, fields_eq, tokens_spaceFree hw.2, groupsAux_word hw.1]
  | w :: w' :: ws, h =>
    have hw := h w (by simp)
    have ih := fields_join (w' :: ws) (fun x hx => h x (by simp [hx]))
    rw [fields_eq] at ih
    have hj : join (w :: w' :: ws) = w ++ 0x20 :: join (w' :: ws) := rfl
    rw [hj, fields_eq, tokens_append (tail_space _), tokens_spaceFree hw.2, tokens_space,
      groupsAux_append_none, groupsAux_word hw.1, ih]
    rfl

/-- invariant for `fields_spaceFree`: no encoding starts inside the word collected so far -/
theorem groupsAux_spaceFree (n : Nat) : ∀ (s cur : Bytes), s.length ≤ n →
    (∀ i, i < cur.length → spaceLen (cur.reverse.drop i ++ s) = 0) →
    ∀ w ∈ groupsAux (tokens s) cur, w ≠ [] ∧ SpaceFree w := by
  -- closing a word: what follows is empty or starts with an encoding
  have close : ∀ (s cur : Bytes), Tail s → cur ≠ [] →
      (∀ i, i < cur.length → spaceLen (cur.reverse.drop i ++ s) = 0) →
      cur.reverse ≠ [] ∧ SpaceFree cur.reverse := by
    intro s cur hs hne inv
    refine ⟨by simpa using hne, ?_⟩
    intro i hi t ht
    have hne' : cur.reverse.drop i ≠ [] := by
      intro h
      have := congrArg List.length h
      simp only [List.length_drop, List.length_nil] at this
      omega
    rw [spaceLen_append_tail hne' ht, ← spaceLen_append_tail hne' hs]
    exact inv i (by simpa using hi)
  induction n with
  | zero =>
    intro s cur h inv w hw
    have : s = [] := List.length_eq_zero_iff.mp (by omega)
    subst this
    rw [tokens_nil, groupsAux] at hw
    cases cur with
    | nil => simp at hw
    | cons c cur =>
      simp only [List.isEmpty_cons, Bool.false_eq_true, if_false, List.mem_singleton] at hw
      subst hw
      exact close [] _ tail_nil (by simp) inv
  | succ n ih =>
    intro s cur h inv w hw
    cases s with
    | nil =>
      rw [tokens_nil, groupsAux] at hw
      cases cur with
      | nil => simp at hw
      | cons c cur =>
        simp only [List.isEmpty_cons, Bool.false_eq_true, if_false, List.mem_singleton] at hw
        subst hw
        exact close [] _ tail_nil (by simp) inv
    | cons c cs =>
      by_cases hn : spaceLen (c :: cs) = 0
      · rw [tokens_cons_zero hn, groupsAux] at hw
        refine ih cs (c :: cur) (by simpa using h) ?_ w hw
        intro i hi
        simp only [List.length_cons] at hi
        by_cases hic : i < cur.length
        · have := inv i hic
          rw [List.reverse_cons, List.drop_append_of_le_length (by simp; omega), List.append_assoc]
          exact this
        · have hie : i = cur.length := by omega
          subst hie
          rw [List.reverse_cons, List.drop_append_of_le_length (by simp),
            List.drop_eq_nil_of_le (by simp)]
          simpa using hn
      · rw [tokens_cons_pos hn, groupsAux] at hw
        have hrec : ∀ w ∈ groupsAux (tokens (List.drop (spaceLen (c :: cs)) (c :: cs))) [],
            w ≠ [] ∧ SpaceFree w :=
          ih _ [] (by simp only [List.length_drop]; simp only [List.length_cons] at h ⊢; omega)
            (by intro i hi; simp at hi)
        cases cur with
        | nil => exact hrec w (by simpa using hw)
        | cons d cur =>
          simp only [List.isEmpty_cons, Bool.false_eq_true, if_false, List.mem_cons] at hw
          rcases hw with rfl | hw
          · exact close (c :: cs) _ (tail_of_spaceLen_pos (by omega)) (by simp) inv
          · exact hrec w hw

theorem fields_spaceFree (s : Bytes) : ∀ w ∈ fields s, w ≠ [] ∧ SpaceFree w := by
  rw [fields_eq]
  exact groupsAux_spaceFree _ s [] (Nat.le_refl _) (by intro i hi; simp at hi)

theorem fields_idempotent (s : Bytes) : fields (join (fields s)) = fields s :=
  fields_join _ (fields_spaceFree s)

/-- insensitive to the kind and amount of white space between (or around) words -/
theorem fields_run_irrelevant (a b r r' : Bytes) (hr : SpaceRun r) (hr' : SpaceRun r') :
    fields (a ++ r ++ b) = fields (a ++ r' ++ b) := by
  rw [fields_append_run a b r hr, fields_append_run a b r' hr']

theorem fields_nil : fields [] = [] := by simp [fields_eq, tokens_nil, groupsAux]

/-- leading and trailing white space is irrelevant -/
theorem fields_trim (a r : Bytes) (hr : SpaceRun r) :
    fields (r ++ a) = fields a ∧ fields (a ++ r) = fields a := by
  constructor
  · have := fields_append_run [] a r hr
    simpa [fields_nil] using this
  · have := fields_append_run a [] r hr
    simpa [fields_nil] using this

/-- parse ∘ print ∘ parse = parse, for any normalisation map `nfkd` that leaves the printed form of its own
output's fields unchanged (NFKD is idempotent and the printed form only contains NFKD text and U+0020) -/
theorem parse_print_parse (nfkd : Bytes → Bytes)
    (hfix : ∀ s, nfkd (join (fields (nfkd s))) = join (fields (nfkd s))) (s : Bytes) :
    parseMnemonic nfkd (join (parseMnemonic nfkd s)) = parseMnemonic nfkd s := by
  unfold parseMnemonic
  rw [hfix, fields_idempotent]

end Iota.Proofs.Fields
