/-
C20 — the amd64 routine `transform` of pkg/curl/transform_amd64.s (`Iota.Asm.program`), run under
the small-step semantics of Iota/Model/AsmSem.lean on ARBITRARY contents of the four buffers:

* terminates with `RET` after exactly 664 935 steps, without a fault — every memory access the
  routine performs is inside the 729-word buffer its base pointer refers to and 8-aligned, no
  register is used before it is written, no arithmetic is applied to a pointer;
* leaves 81 closed-form rounds (`roundsW 81`) of the from-planes in the to-buffers and 80 rounds in
  the from-buffers.

`roundsW` is the word-level closed form of Iota/Spec/CurlW.lean.
-/
import Iota.Proofs.AsmCurl.Loops

namespace Iota.Proofs.AsmCurl
open Iota.Asm Iota.Curl Iota.Spec.CurlW

theorem roundsW_succ (n : Nat) (lh : Plane × Plane) : roundsW (n + 1) lh = roundW (roundsW n lh) := by
  induction n generalizing lh with
  | zero => rfl
  | succ n ih => rw [roundsW, ih (roundW lh)]; rfl

/-- pointer assignment at entry: AX = lto, CX = hto, DX = lfrom, BX = hfrom. -/
def cfg0 : Cfg := ⟨.lto, .hto, .lfrom, .hfrom⟩

theorem cfg0_ok : cfg0.Ok := by
  constructor <;> decide

/-- pointer assignment after `r` rounds (one `XCHGQ` pair per round). -/
def cfgOf : Nat → Cfg
  | 0 => cfg0
  | r + 1 => (cfgOf r).swap

theorem cfgOf_ok : ∀ r, (cfgOf r).Ok
  | 0 => cfg0_ok
  | r + 1 => (cfgOf_ok r).swap

theorem cfgOf_81 : cfgOf 81 = ⟨.lfrom, .hfrom, .lto, .hto⟩ := rfl

/-- steps executed when `r` rounds are complete. -/
def stepsAfter (r : Nat) : Nat := 5 + 8209 * r

/-- the outer loop: state after `r ≤ 81` rounds. -/
theorem rounds_loop (M0 : Mem) (r : Nat) (hr : r ≤ 81) :
    ∃ R F M, exN (stepsAfter r) (initial M0) = some ⟨if r < 81 then 5 else 69, R, F, M⟩ ∧
      Ptrs (cfgOf r) R ∧ R.get .SI = .word (BitVec.ofNat 64 (81 - r)) ∧
      M.get (cfgOf r).fL = (roundsW r (M0.lfrom, M0.hfrom)).1 ∧
      M.get (cfgOf r).fH = (roundsW r (M0.lfrom, M0.hfrom)).2 ∧
      (0 < r → M.get (cfgOf r).tL = (roundsW (r - 1) (M0.lfrom, M0.hfrom)).1 ∧
               M.get (cfgOf r).tH = (roundsW (r - 1) (M0.lfrom, M0.hfrom)).2) := by
  induction r with
  | zero =>
    obtain ⟨R, hex, a1, a2, a3, a4, a5⟩ := prologue M0
    exact ⟨R, .undef, M0, hex, ⟨a1, a2, a3, a4⟩, a5, rfl, rfl, fun h => absurd h (by omega)⟩
  | succ r ih =>
    obtain ⟨R, F, M, hex, hp, hSI, hfl, hfh, _⟩ := ih (by omega)
    rw [if_pos (by omega)] at hex
    obtain ⟨R', F', M', hex', hp', hSI', b1, b2, b3, b4⟩ :=
      round_step (cfgOf r) (cfgOf_ok r) (81 - r) (by omega) (by omega) R F M hp hSI
    have hpc : (if 81 - r = 1 then 69 else 5) = (if r + 1 < 81 then 5 else 69) := by
      by_cases h : r + 1 < 81
      · rw [if_neg (by omega), if_pos h]
      · rw [if_pos (by omega), if_neg h]
    rw [hpc] at hex'
    refine ⟨R', F', M', ?_, hp', ?_, ?_, ?_, fun _ => ⟨?_, ?_⟩⟩
    · rw [show stepsAfter (r + 1) = stepsAfter r + 8209 by simp only [stepsAfter]; omega]
      exact exN_trans hex hex'
    · rw [hSI', show 81 - r - 1 = 81 - (r + 1) by omega]
    · show M'.get (cfgOf r).tL = _
      rw [b3, hfl, hfh, roundsW_succ]
    · show M'.get (cfgOf r).tH = _
      rw [b4, hfl, hfh, roundsW_succ]
    · show M'.get (cfgOf r).fL = _
      rw [b1, hfl]; rfl
    · show M'.get (cfgOf r).fH = _
      rw [b2, hfh]; rfl

/-- fuel the routine needs: 5 + 81·(15 + 182·45 + 4) + 1 steps. -/
def fuelNeeded : Nat := 664935

/-- **C20.**  On any contents of the four buffers the routine returns (no fault: every access was
bounds-checked by the semantics), the to-buffers hold 81 rounds and the from-buffers 80 rounds. -/
theorem asm_transform_fuel (lto hto lfrom hfrom : Plane) :
    runProgram lto hto lfrom hfrom fuelNeeded = .done
      { lto := (roundsW 81 (lfrom, hfrom)).1, hto := (roundsW 81 (lfrom, hfrom)).2,
        lfrom := (roundsW 80 (lfrom, hfrom)).1, hfrom := (roundsW 80 (lfrom, hfrom)).2 } := by
  obtain ⟨R, F, M, hex, _, _, hfl, hfh, hto'⟩ :=
    rounds_loop { lto := lto, hto := hto, lfrom := lfrom, hfrom := hfrom } 81 (Nat.le_refl _)
  obtain ⟨htl, hth⟩ := hto' (by omega)
  rw [if_neg (by omega)] at hex
  rw [cfgOf_81] at hfl hfh htl hth
  have hrun := run_of_exN hex 1
  rw [ret_step] at hrun
  have hM : M = ⟨(roundsW 81 (lfrom, hfrom)).1, (roundsW 81 (lfrom, hfrom)).2,
      (roundsW 80 (lfrom, hfrom)).1, (roundsW 80 (lfrom, hfrom)).2⟩ := by
    apply Mem.ext_get
    intro b
    cases b
    · exact hfl
    · exact hfh
    · exact htl
    · exact hth
  rw [← hM]
  exact hrun

theorem asm_transform (lto hto lfrom hfrom : Plane) :
    ∃ fuel, runProgram lto hto lfrom hfrom fuel = .done
      { lto := (roundsW 81 (lfrom, hfrom)).1, hto := (roundsW 81 (lfrom, hfrom)).2,
        lfrom := (roundsW 80 (lfrom, hfrom)).1, hfrom := (roundsW 80 (lfrom, hfrom)).2 } :=
  ⟨fuelNeeded, asm_transform_fuel lto hto lfrom hfrom⟩

/-! ### fuel monotonicity -/

theorem run_done_mono (prog : List Instr) (n k : Nat) (m : Machine) (mem : Mem)
    (h : run prog n m = .done mem) : run prog (n + k) m = .done mem := by
  induction n generalizing m with
  | zero => simp [run] at h
  | succ n ih =>
    rw [show n + 1 + k = (n + k) + 1 by omega, run_succ]
    rw [run_succ] at h
    cases hs : step prog m with
    | next m' => rw [hs] at h; exact ih m' h
    | halt mem' => rw [hs] at h; exact h
    | fault => rw [hs] at h; exact h

/-- any fuel ≥ 664 935 gives the same answer. -/
theorem asm_transform_ge (lto hto lfrom hfrom : Plane) (fuel : Nat) (h : fuelNeeded ≤ fuel) :
    runProgram lto hto lfrom hfrom fuel = .done
      { lto := (roundsW 81 (lfrom, hfrom)).1, hto := (roundsW 81 (lfrom, hfrom)).2,
        lfrom := (roundsW 80 (lfrom, hfrom)).1, hfrom := (roundsW 80 (lfrom, hfrom)).2 } := by
  obtain ⟨k, rfl⟩ := Nat.exists_eq_add_of_le h
  exact run_done_mono _ _ _ _ _ (asm_transform_fuel lto hto lfrom hfrom)

/-- with less fuel the routine has not returned yet (the step count is exact). -/
theorem asm_transform_lt (lto hto lfrom hfrom : Plane) (fuel : Nat) (h : fuel < fuelNeeded) :
    runProgram lto hto lfrom hfrom fuel = .outOfFuel := by
  obtain ⟨R, F, M, hex, _⟩ :=
    rounds_loop { lto := lto, hto := hto, lfrom := lfrom, hfrom := hfrom } 81 (Nat.le_refl _)
  exact run_outOfFuel_of_exN hex (by simp only [stepsAfter]; simp only [fuelNeeded] at h; omega)

end Iota.Proofs.AsmCurl
