import Iota.Proofs.BCH.Finite
/-!
C16: the Bech32 checksum detects every error pattern of weight 1…4 confined to a window of 89
symbols.

`polymod` is affine over GF(2), so `polymod v' = polymod v ^^^ L e` with `e = v ⊕ v'` and `L` the
syndrome map (`Algebra`).  Leading zeros of `e` do not contribute, trailing zeros are removed by
the injective shift `XN`, and the lowest nonzero symbol `a < 32` only touches the low five bits of
the syndrome.  What remains is: no XOR of at most three shifted nonzero symbols at distinct
distances `1…88` has all its upper 25 bits zero — a finite statement checked by kernel evaluation
(`Cert`, `Finite`).
-/
namespace Iota.Proofs.BCH
open Iota.Bech32

/-- number of positions where two equal-length lists differ -/
def hamming : List UInt8 → List UInt8 → Nat
  | a :: as, b :: bs => (if a = b then 0 else 1) + hamming as bs
  | _, _ => 0

/-- every position where the lists differ is among the last `w` positions -/
def DiffWithinLast (w : Nat) (v v' : List UInt8) : Prop :=
  ∀ i, i < v.length → v[i]? ≠ v'[i]? → v.length ≤ i + w

/-! ### weight of a word -/

/-- number of nonzero symbols -/
def wt (r : List UInt8) : Nat := r.countP (· != 0)

theorem wt_cons_zero (r : List UInt8) : wt (0 :: r) = wt r := by
  simp [wt]

theorem wt_cons_ne (a : UInt8) (r : List UInt8) (h : a ≠ 0) : wt (a :: r) = wt r + 1 := by
  simp [wt, h]

theorem wt_zeros_append (k : Nat) (r : List UInt8) : wt (List.replicate k 0 ++ r) = wt r := by
  simp [wt, List.countP_append, List.countP_replicate]

theorem allzero_of_wt (r : List UInt8) (h : wt r = 0) : ∀ x ∈ r, x = 0 := by
  intro x hx
  have := List.countP_eq_zero.mp h x hx
  simpa using this

theorem wt_of_allzero (r : List UInt8) (h : ∀ x ∈ r, x = 0) : wt r = 0 := by
  apply List.countP_eq_zero.mpr
  intro x hx
  simp [h x hx]

/-- a word of positive weight: zeros, then a nonzero symbol, then a word of weight one less. -/
theorem shape (r : List UInt8) (h : 0 < wt r) :
    ∃ k b r', r = List.replicate k 0 ++ b :: r' ∧ b ≠ 0 ∧ wt r = wt r' + 1 := by
  induction r with
  | nil => simp [wt] at h
  | cons a r ih =>
    by_cases ha : a = 0
    · subst ha
      rw [wt_cons_zero] at h ⊢
      obtain ⟨k, b, r', hr, hb, hw⟩ := ih h
      exact ⟨k + 1, b, r', by rw [hr, List.replicate_succ, List.cons_append], hb, hw⟩
    · exact ⟨0, a, r, rfl, ha, wt_cons_ne a r ha⟩

theorem toNat_pos {b : UInt8} (h : b ≠ 0) : 1 ≤ b.toNat := by
  have : b.toNat ≠ 0 := fun h0 => h (UInt8.toNat_inj.mp h0)
  omega

/-! ### the syndrome of a sparse word -/

theorem XN_Lr_shape (s k : Nat) (b : UInt8) (r' : List UInt8) :
    Xn s (XN (Lr (List.replicate k 0 ++ b :: r'))) =
      Xn (s + k + 1) (XN (Lr r')) ^^^ Xn (s + k + 1) b.toNat := by
  have hb : b.toNat < 2 ^ 30 := by have := b.toNat_lt; omega
  rw [Lr_zeros_append, Lr_cons, show XN (Xn k (XN (Lr r') ^^^ b.toNat)) =
    Xn (k + 1) (XN (Lr r') ^^^ b.toNat) from rfl, ← Xn_add, Nat.add_assoc,
    Xn_xor _ _ _ (XN_lt _) hb]

theorem XN_Lr_zero (s : Nat) (r : List UInt8) (h : wt r = 0) : Xn s (XN (Lr r)) = 0 := by
  rw [Lr_allzero r (allzero_of_wt r h), XN_zero, Xn_zero]

/-- a word of weight at most three on distances `1…88` whose syndrome fits in the low five bits is
zero. -/
theorem W (r : List UInt8) (hlen : r.length ≤ 88) (hr : ∀ x ∈ r, x.toNat < 32) (hw : wt r ≤ 3)
    (h : XN (Lr r) >>> 5 = 0) : Lr r = 0 := by
  by_cases h0 : wt r = 0
  · exact Lr_allzero r (allzero_of_wt r h0)
  exfalso
  obtain ⟨k1, b, r2, rfl, hb, hw1⟩ := shape r (by omega)
  have hb32 := hr b (by simp)
  have hb1 := toNat_pos hb
  have e1 : XN (Lr (List.replicate k1 0 ++ b :: r2)) =
      Xn (0 + k1 + 1) (XN (Lr r2)) ^^^ Xn (0 + k1 + 1) b.toNat := XN_Lr_shape 0 k1 b r2
  simp only [List.length_append, List.length_replicate, List.length_cons] at hlen
  by_cases h2 : wt r2 = 0
  · rw [e1, XN_Lr_zero _ r2 h2, Nat.zero_xor] at h
    exact K1 _ (by omega) (by omega) _ hb1 hb32 h
  obtain ⟨k2, c, r3, rfl, hc, hw2⟩ := shape r2 (by omega)
  have hc32 := hr c (by simp)
  have hc1 := toNat_pos hc
  have e2 := XN_Lr_shape (0 + k1 + 1) k2 c r3
  simp only [List.length_append, List.length_replicate, List.length_cons] at hlen
  by_cases h3 : wt r3 = 0
  · rw [e1, e2, XN_Lr_zero _ r3 h3, Nat.zero_xor, Nat.xor_comm] at h
    exact K2 _ _ (by omega) (by omega) (by omega) _ _ hb1 hb32 hc1 hc32 h
  obtain ⟨k3, d, r4, rfl, hd, hw3⟩ := shape r3 (by omega)
  have hd32 := hr d (by simp)
  have hd1 := toNat_pos hd
  have e3 := XN_Lr_shape (0 + k1 + 1 + k2 + 1) k3 d r4
  simp only [List.length_append, List.length_replicate, List.length_cons] at hlen
  have h4 : wt r4 = 0 := by omega
  rw [e1, e2, e3, XN_Lr_zero _ r4 h4, Nat.zero_xor, Nat.xor_comm,
    Nat.xor_comm (Xn _ d.toNat)] at h
  exact K3 _ _ _ (by omega) (by omega) (by omega) (by omega) _ _ _ hb1 hb32 hc1 hc32 hd1 hd32 h

/-- a word of weight 1…4 on distances `0…88` has a nonzero syndrome. -/
theorem Lr_ne_zero (r : List UInt8) (hlen : r.length ≤ 89) (hr : ∀ x ∈ r, x.toNat < 32)
    (h1 : 1 ≤ wt r) (h4 : wt r ≤ 4) : Lr r ≠ 0 := by
  intro h
  obtain ⟨k, a, r1, rfl, ha, hw⟩ := shape r (by omega)
  rw [Lr_zeros_append] at h
  have h := Xn_inj0 k _ (Lr_lt _) h
  rw [Lr_cons] at h
  have h := eq_of_xor_eq_zero h
  have ha32 := hr a (by simp)
  simp only [List.length_append, List.length_replicate, List.length_cons] at hlen
  have hz : Lr r1 = 0 := by
    refine W r1 (by omega) (fun x hx => hr x (by simp [hx])) (by omega) ?_
    rw [h, Nat.shiftRight_eq_div_pow]; omega
  rw [hz, XN_zero] at h
  exact ha (UInt8.toNat_inj.mp h.symm)

/-! ### from the two words to the error word -/

theorem hamming_eq_wt (v v' : List UInt8) : hamming v v' = wt (List.zipWith (· ^^^ ·) v v') := by
  induction v generalizing v' with
  | nil => cases v' <;> simp [hamming, wt]
  | cons a v ih =>
    cases v' with
    | nil => simp [hamming, wt]
    | cons b v' =>
      rw [hamming, ih v', List.zipWith_cons_cons]
      by_cases hab : a = b
      · subst hab; rw [UInt8.xor_self, wt_cons_zero]; simp
      · rw [wt_cons_ne _ _ (fun h => hab (UInt8.xor_eq_zero_iff.mp h))]; simp [hab]; omega

theorem zipWith_xor_lt (v v' : List UInt8) (hv : ∀ x ∈ v, x.toNat < 32)
    (hv' : ∀ x ∈ v', x.toNat < 32) : ∀ x ∈ List.zipWith (· ^^^ ·) v v', x.toNat < 32 := by
  induction v generalizing v' with
  | nil => intro x hx; simp at hx
  | cons a v ih =>
    cases v' with
    | nil => intro x hx; simp at hx
    | cons b v' =>
      intro x hx
      rw [List.zipWith_cons_cons, List.mem_cons] at hx
      rcases hx with rfl | hx
      · rw [UInt8.toNat_xor]
        exact @Nat.xor_lt_two_pow _ _ 5 (hv a (by simp)) (hv' b (by simp))
      · exact ih v' (fun x hx => hv x (by simp [hx])) (fun x hx => hv' x (by simp [hx])) x hx

theorem bch_detects (v v' : List UInt8) (hlen : v.length = v'.length)
    (hv : ∀ x ∈ v, x.toNat < 32) (hv' : ∀ x ∈ v', x.toNat < 32)
    (h1 : 1 ≤ hamming v v') (h4 : hamming v v' ≤ 4)
    (hwin : DiffWithinLast 89 v v')
    (hp : polymod v = 1) : polymod v' ≠ 1 := by
  intro hp'
  have hx := polymod_xor v v' hlen
  rw [hp, hp'] at hx
  -- the syndrome of the error word vanishes
  have hL : Lr (List.zipWith (· ^^^ ·) v v').reverse = 0 := by
    have := xor_cancel 1 (Lr (List.zipWith (· ^^^ ·) v v').reverse)
    rw [← hx] at this
    exact this.symm
  generalize he : List.zipWith (· ^^^ ·) v v' = e at hL
  have helen : e.length = v.length := by rw [← he]; simp [hlen]
  have hwt : wt e = hamming v v' := by rw [hamming_eq_wt, he]
  have he32 : ∀ x ∈ e, x.toNat < 32 := by rw [← he]; exact zipWith_xor_lt v v' hv hv'
  -- symbols more than 89 from the end are zero
  have hzero : ∀ x ∈ e.reverse.drop 89, x = 0 := by
    intro x hx
    rw [List.drop_reverse, List.mem_reverse, List.mem_take_iff_getElem] at hx
    obtain ⟨i, hi, rfl⟩ := hx
    have hi' : i < v.length := by omega
    have hi'' : i < v'.length := by omega
    have heq : v[i]? = v'[i]? := by
      refine Classical.byContradiction fun hne => ?_
      have := hwin i hi' hne
      omega
    rw [List.getElem?_eq_getElem hi', List.getElem?_eq_getElem hi''] at heq
    have heq := Option.some.inj heq
    subst he
    rw [List.getElem_zipWith, heq, UInt8.xor_self]
  have hsplit := List.take_append_drop 89 e.reverse
  have hL' : Lr (e.reverse.take 89) = 0 := by
    rw [← hsplit, Lr_append_allzero _ _ hzero] at hL
    exact hL
  have hwt' : wt (e.reverse.take 89) = wt e := by
    have : wt e.reverse = wt e := List.countP_reverse
    rw [← this]
    conv => rhs; rw [← hsplit]
    unfold wt
    rw [List.countP_append]
    have := wt_of_allzero _ hzero
    unfold wt at this
    omega
  refine Lr_ne_zero (e.reverse.take 89) (by simp [List.length_take]; omega) ?_ (by omega) (by omega) hL'
  intro x hx
  exact he32 x (List.mem_reverse.mp (List.mem_of_mem_take hx))

end Iota.Proofs.BCH
