/-
The group hypothesis `LawfulW` of C08 (`Iota.Proofs.Slip10Shift`) discharged for secp256k1: the
curve operations of `secpW` run the model `Iota.Secp256k1` on the canonical coordinates of a point
(`ofPoint`), and they are the operations of Mathlib's group `Curve.Point`, which `G` generates with
order `N`.  Hence `shift_commutes` holds for the secp256k1 code with no assumption.
-/
import Iota.Proofs.Secp.Order
import Iota.Proofs.Slip10Shift

namespace Iota.Proofs.Secp
open Iota.Secp256k1 WeierstrassCurve.Affine
open Iota.Proofs.Primes (prime_N)

/-! ### canonical coordinates -/

/-- the pair the Go code uses for a point: `(0, 0)` for the identity, else the coordinates in `[0, P)` -/
noncomputable def ofPoint : Curve.Point → Int × Int
  | .zero => (0, 0)
  | .some x y _ => ((x.val : Int), (y.val : Int))

theorem ofPoint_zero : ofPoint (0 : Curve.Point) = (0, 0) := rfl

private theorem P_nonneg : (0 : Int) ≤ P := by decide

private theorem val_red (x : Fp) : 0 ≤ ((x.val : Nat) : Int) ∧ ((x.val : Nat) : Int) < P := by
  have : NeZero P.toNat := ⟨Nat.Prime.ne_zero Iota.Proofs.Primes.prime_P⟩
  refine ⟨Int.natCast_nonneg _, ?_⟩
  have h : (x.val : Int) < (P.toNat : Int) := Int.ofNat_lt.2 (ZMod.val_lt x)
  rwa [Int.toNat_of_nonneg P_nonneg] at h

private theorem val_cast (x : Fp) : (((x.val : Nat) : Int) : Fp) = x := by
  have : NeZero P.toNat := ⟨Nat.Prime.ne_zero Iota.Proofs.Primes.prime_P⟩
  rw [Int.cast_natCast, ZMod.natCast_zmod_val]

/-- `ofPoint` is a section of `toPoint` -/
theorem toPoint_ofPoint (Q : Curve.Point) : toPoint (ofPoint Q) = some Q := by
  cases Q with
  | zero => exact (toPoint_eq_some_iff 0 0 _).2 (Or.inl ⟨rfl, rfl, rfl⟩)
  | some x y h =>
    have key : ∀ (a b : Fp), a = x → b = y →
        ∃ h' : Curve.Nonsingular a b, Point.some x y h = Point.some a b h' := by
      rintro _ _ rfl rfl; exact ⟨h, rfl⟩
    exact (toPoint_eq_some_iff _ _ _).2
      (Or.inr ⟨val_red x, val_red y, key _ _ (val_cast x) (val_cast y)⟩)

theorem ofPoint_eq_zero_iff (Q : Curve.Point) : ofPoint Q = (0, 0) ↔ Q = 0 := by
  constructor
  · intro h
    have h1 := toPoint_ofPoint Q
    rw [h, (toPoint_eq_zero_iff 0 0).2 ⟨rfl, rfl⟩] at h1
    exact (Option.some.inj h1).symm
  · rintro rfl; rfl

/-- the two readings of a big-endian byte string agree -/
theorem beNat_eq (k : List UInt8) : beNat k = Iota.Slip10.beNat k := rfl

/-! ### the `WCurve` of secp256k1, running the model -/

/-- `elliptic.Curve` for secp256k1: `ScalarBaseMult` and `Add` are the model's, applied to canonical
coordinates; a failing (`none`) or unrepresentable result would be mapped to `0`, which never happens. -/
noncomputable def secpW : Iota.Slip10.WCurve Curve.Point where
  n := N.toNat
  baseMul := fun k => ((scalarBaseMult k).bind toPoint).getD 0
  add := fun a b =>
    ((Iota.Secp256k1.add (ofPoint a).1 (ofPoint a).2 (ofPoint b).1 (ofPoint b).2).bind toPoint).getD 0
  isInfinity := fun a => decide (ofPoint a = (0, 0))
  compress := fun _ => []

theorem secpW_n : secpW.n = N.toNat := rfl

/-- the model's `ScalarBaseMult` never fails and is scalar multiplication of `G` -/
theorem secpW_baseMul (k : List UInt8) : secpW.baseMul k = Iota.Slip10.beNat k • G Fp := by
  obtain ⟨x', y', h1, h2⟩ := scalarBaseMult_spec k
  show ((scalarBaseMult k).bind toPoint).getD 0 = _
  rw [h1, Option.bind_some, h2, Option.getD_some, beNat_eq]

/-- the model's `Add` never fails and is the group addition -/
theorem secpW_add (a b : Curve.Point) : secpW.add a b = a + b := by
  obtain ⟨x3, y3, h1, h2⟩ := add_spec (x1 := (ofPoint a).1) (y1 := (ofPoint a).2)
    (x2 := (ofPoint b).1) (y2 := (ofPoint b).2) (toPoint_ofPoint a) (toPoint_ofPoint b)
  show ((Iota.Secp256k1.add _ _ _ _).bind toPoint).getD 0 = _
  rw [h1, Option.bind_some, h2, Option.getD_some]

theorem secpW_lawful : Iota.Proofs.Slip10Shift.LawfulW secpW (G Fp) where
  add_eq := secpW_add
  baseMul_eq := secpW_baseMul
  inf_iff := fun a => by
    show decide (ofPoint a = (0, 0)) = true ↔ a = 0
    rw [decide_eq_true_iff, ofPoint_eq_zero_iff]
  order := addOrderOf_G
  n_pos := Nat.Prime.pos prime_N

theorem secpW_n_lt : secpW.n < 256 ^ 40 := by
  show N.toNat < 256 ^ 40
  decide +kernel

open Iota.Slip10 in
/-- **C08 for secp256k1, unconditionally**: for every private key `0 < k < N` and every shift `buf`,
shifting the private key and shifting its public key — both computed by the model of the Go
secp256k1 code — either both report ErrInvalidKey (exactly when the shift is `≥ N` or
`k + shift ≡ 0 (mod N)`) or both succeed, and then the public key of the shifted private key is the
shifted public key. -/
theorem shift_commutes_secp256k1 (hk : Bytes) (k : Nat) (hk0 : 0 < k) (hkn : k < N.toNat)
    (buf : Bytes) :
    let c := wCurve secpW hk
    (Iota.Slip10.beNat buf ≥ secpW.n ∨ (Iota.Slip10.beNat buf + k) % secpW.n = 0 →
      c.shift (.priv k) buf = .error .invalidKey ∧
        c.shift (c.pub (.priv k)) buf = .error .invalidKey) ∧
    (¬ (Iota.Slip10.beNat buf ≥ secpW.n ∨ (Iota.Slip10.beNat buf + k) % secpW.n = 0) →
      ∃ k' q, c.shift (.priv k) buf = .ok (.priv k') ∧
        c.shift (c.pub (.priv k)) buf = .ok (.pub q) ∧
        0 < k' ∧ k' < secpW.n ∧ c.pub (.priv k') = .pub q) :=
  Iota.Proofs.Slip10Shift.shift_commutes secpW (G Fp) secpW_lawful hk k hk0 hkn secpW_n_lt buf

end Iota.Proofs.Secp
