/-
The order of the secp256k1 base point: `N • G = 0` by running the model's `scalarBaseMult` on the
big-endian bytes of `N` in the kernel, `G ≠ 0`, and `N` prime, hence `addOrderOf G = N`.

The kernel evaluates call-by-name, so the model's double-and-add loop is evaluated through a twin
`loopK` that forces every loop-carried coordinate to a literal (`forceI`); the twin is proved equal
to the model's `scalarLoop`.  The final Jacobian `z` is `0`, so no modular inverse is needed.
-/
import Iota.Proofs.Secp
import Iota.Proofs.Primes
import Mathlib.GroupTheory.OrderOfElement

namespace Iota.Proofs.Secp
open Iota.Secp256k1 WeierstrassCurve.Affine
open Iota.Proofs.Primes (force force_eq prime_N)

/-! ### kernel-friendly twin of the scalar loop -/

/-- evaluate an `Int` to a literal constructor application before going on -/
@[inline] def forceI {α : Sort _} (x : Int) (k : Int → α) : α :=
  match x with
  | .ofNat n => force n fun n => k (.ofNat n)
  | .negSucc n => force n fun n => k (.negSucc n)

theorem forceI_eq {α : Sort _} (x : Int) (k : Int → α) : forceI x k = k x := by
  cases x <;> simp only [forceI, force_eq]

/-- evaluate the three components of a triple before going on -/
@[inline] def force3 {α : Sort _} (t : Int × Int × Int) (k : Int → Int → Int → α) : α :=
  forceI t.1 fun a => forceI t.2.1 fun b => forceI t.2.2 fun c => k a b c

theorem force3_eq {α : Sort _} (t : Int × Int × Int) (k : Int → Int → Int → α) :
    force3 t k = k t.1 t.2.1 t.2.2 := by
  simp only [force3, forceI_eq]

/-- `scalarLoop` with the accumulator forced after every Jacobian operation -/
def loopK (bx by_ bz : Int) : List Bool → Int → Int → Int → Int × Int × Int
  | [], x, y, z => (x, y, z)
  | bit :: bits, x, y, z =>
    force3 (doubleJacobian x y z) fun dx dy dz =>
    if bit then
      force3 (addJacobian bx by_ bz dx dy dz) fun ax ay az => loopK bx by_ bz bits ax ay az
    else loopK bx by_ bz bits dx dy dz

theorem loopK_eq (bx by_ bz : Int) : ∀ (bits : List Bool) (x y z : Int),
    loopK bx by_ bz bits x y z = scalarLoop bx by_ bz bits (x, y, z) := by
  intro bits
  induction bits with
  | nil => intro x y z; rfl
  | cons bit bits ih =>
    intro x y z
    rw [loopK, scalarLoop, force3_eq]
    cases bit with
    | false => simp only [Bool.false_eq_true, if_false]; exact ih _ _ _
    | true => simp only [if_true]; rw [force3_eq]; exact ih _ _ _

/-! ### `N • G = 0` -/

/-- the 32 big-endian bytes of `N` -/
def nBytes : List UInt8 :=
  [255, 255, 255, 255, 255, 255, 255, 255, 255, 255, 255, 255, 255, 255, 255, 254,
   186, 174, 220, 230, 175, 72, 160, 59, 191, 210, 94, 140, 208, 54, 65, 65]

theorem beNat_nBytes : beNat nBytes = N.toNat := by decide +kernel

/-- the double-and-add loop on the bits of `N`, from `G`, ends at the point at infinity (`z = 0`) -/
theorem loopK_nBytes : (loopK Gx Gy 1 (bitsOfBytes nBytes) 0 0 0).2.2 = 0 := by decide +kernel

theorem zForAffine_G : zForAffine Gx Gy = 1 := by decide +kernel

/-- `ScalarBaseMult(N)` is the identity `(0, 0)`, by evaluation. -/
theorem scalarBaseMult_nBytes : scalarBaseMult nBytes = some (0, 0) := by
  have h := loopK_nBytes
  rw [loopK_eq] at h
  unfold scalarBaseMult scalarMult
  simp only [zForAffine_G]
  unfold affineFromJacobian
  rw [if_pos h]

theorem N_smul_G : N.toNat • G Fp = 0 := by
  obtain ⟨x', y', h1, h2⟩ := scalarBaseMult_spec nBytes
  rw [scalarBaseMult_nBytes] at h1
  obtain ⟨rfl, rfl⟩ : (0 : Int) = x' ∧ (0 : Int) = y' := by
    have := Option.some.inj h1
    exact ⟨congrArg Prod.fst this, congrArg Prod.snd this⟩
  rw [(toPoint_eq_zero_iff 0 0).2 ⟨rfl, rfl⟩, beNat_nBytes] at h2
  exact (Option.some.inj h2).symm

theorem G_ne_zero : G Fp ≠ 0 := Point.some_ne_zero _

theorem addOrderOf_G : addOrderOf (G Fp) = N.toNat := by
  have hd : addOrderOf (G Fp) ∣ N.toNat := addOrderOf_dvd_of_nsmul_eq_zero N_smul_G
  rcases (Nat.dvd_prime prime_N).1 hd with h | h
  · exact absurd (AddMonoid.addOrderOf_eq_one_iff.1 h) G_ne_zero
  · exact h

end Iota.Proofs.Secp
