/-
The Jacobian-coordinate formulas of `Iota.Secp256k1` (add-2007-bl with its special cases, dbl-2009-l
for a = 0) written over an arbitrary commutative ring with decidable equality: the same `let`
structure as the `Int` model, without the reductions modulo `P`.
-/
import Mathlib.Algebra.Ring.Defs
import Mathlib.Tactic.Ring

namespace Iota.Proofs.Secp

variable {F : Type*} [CommRing F]

/-- `doubleJacobian` over a ring -/
def dblF (x y z : F) : F × F × F :=
  let a := x * x
  let b := y * y
  let c := b * b
  let d := ((x + b) * (x + b) - a - c) * 2
  let e := 3 * a
  let f := e * e
  let x3 := f - 2 * d
  let y3 := e * (d - x3) - 8 * c
  let z3 := 2 * (y * z)
  (x3, y3, z3)

/-- `addJacobian` over a ring -/
def addF [DecidableEq F] (x1 y1 z1 x2 y2 z2 : F) : F × F × F :=
  if z1 = 0 then (x2, y2, z2)
  else if z2 = 0 then (x1, y1, z1)
  else
    let z1z1 := z1 * z1
    let z2z2 := z2 * z2
    let u1 := x1 * z2z2
    let u2 := x2 * z1z1
    let h := u2 - u1
    let i := (h * 2) * (h * 2)
    let j := h * i
    let s1 := y1 * z2 * z2z2
    let s2 := y2 * z1 * z1z1
    let r1 := s2 - s1
    if h = 0 ∧ r1 = 0 then dblF x1 y1 z1
    else
      let r := r1 * 2
      let v := u1 * i
      let x3 := r * r - j - v - v
      let y3 := r * (v - x3) - (s1 * j) * 2
      let z3 := ((z1 + z2) * (z1 + z2) - z1z1 - z2z2) * h
      (x3, y3, z3)

/-- the general branch of `addF` -/
def addGen (x1 y1 z1 x2 y2 z2 : F) : F × F × F :=
  let z1z1 := z1 * z1
  let z2z2 := z2 * z2
  let u1 := x1 * z2z2
  let u2 := x2 * z1z1
  let h := u2 - u1
  let i := (h * 2) * (h * 2)
  let j := h * i
  let s1 := y1 * z2 * z2z2
  let s2 := y2 * z1 * z1z1
  let r1 := s2 - s1
  let r := r1 * 2
  let v := u1 * i
  let x3 := r * r - j - v - v
  let y3 := r * (v - x3) - (s1 * j) * 2
  let z3 := ((z1 + z2) * (z1 + z2) - z1z1 - z2z2) * h
  (x3, y3, z3)


section
variable [DecidableEq F]

theorem addF_zero_left (x1 y1 x2 y2 z2 : F) : addF x1 y1 0 x2 y2 z2 = (x2, y2, z2) := by
  simp [addF]

theorem addF_zero_right (x1 y1 z1 x2 y2 : F) (hz1 : z1 ≠ 0) :
    addF x1 y1 z1 x2 y2 0 = (x1, y1, z1) := by
  simp [addF, hz1]

theorem addF_double {x1 y1 z1 x2 y2 z2 : F} (hz1 : z1 ≠ 0) (hz2 : z2 ≠ 0)
    (hh : x2 * (z1 * z1) - x1 * (z2 * z2) = 0)
    (hr : y2 * z1 * (z1 * z1) - y1 * z2 * (z2 * z2) = 0) :
    addF x1 y1 z1 x2 y2 z2 = dblF x1 y1 z1 := by
  unfold addF
  rw [if_neg hz1, if_neg hz2]
  simp only [hh, hr, and_self, if_true]

theorem addF_general {x1 y1 z1 x2 y2 z2 : F} (hz1 : z1 ≠ 0) (hz2 : z2 ≠ 0)
    (hc : ¬(x2 * (z1 * z1) - x1 * (z2 * z2) = 0 ∧ y2 * z1 * (z1 * z1) - y1 * z2 * (z2 * z2) = 0)) :
    addF x1 y1 z1 x2 y2 z2 = addGen x1 y1 z1 x2 y2 z2 := by
  unfold addF addGen
  rw [if_neg hz1, if_neg hz2]
  simp only [hc, if_false]

end

end Iota.Proofs.Secp
