/-
S1: the ring-homomorphism layer.  `F` is any field of characteristic `P` (in the end `ZMod P`): the
`Int` computations of the model commute with the cast `Int → F`; every `% P` and conditional `+ P`
disappears, and the equality tests on reduced intermediates are equality tests in `F`.
-/
import Iota.Model.Secp256k1
import Iota.Proofs.Secp.ModInv
import Iota.Proofs.Secp.Formulas
import Mathlib.Algebra.CharP.Defs
import Mathlib.Algebra.Field.Basic
import Mathlib.Tactic.Ring
import Mathlib.Tactic.LinearCombination

namespace Iota.Proofs.Secp
open Iota.Secp256k1

/-- reduced residue: an integer in `[0, P)` -/
def Red (z : Int) : Prop := 0 ≤ z ∧ z < P

theorem P_pos : 0 < P := by decide
theorem P_lt : P < 2 ^ 511 := by
  have h1 : P < 2 ^ 256 := by decide
  have h2 : (2 : Int) ^ 256 ≤ 2 ^ 511 := pow_le_pow_right₀ (by decide) (by decide)
  omega
theorem P_toNat : (P.toNat : Int) = P := Int.toNat_of_nonneg (by decide)

theorem red_zero : Red 0 := ⟨le_refl _, P_pos⟩
theorem red_one : Red 1 := ⟨by decide, by decide⟩
theorem red_emod (a : Int) : Red (a % P) :=
  ⟨Int.emod_nonneg _ (ne_of_gt P_pos), Int.emod_lt_of_pos _ P_pos⟩

theorem red_condAdd {a : Int} (h1 : -P < a) (h2 : a < P) : Red (if a < 0 then a + P else a) := by
  unfold Red; split <;> omega

theorem red_zForAffine (x y : Int) : Red (zForAffine x y) := by
  unfold zForAffine; split
  · exact red_one
  · exact red_zero

section
variable {F : Type*} [Field F] [CharP F P.toNat]

theorem cast_eq_zero_iff (a : Int) : (a : F) = 0 ↔ P ∣ a := by
  rw [CharP.intCast_eq_zero_iff F P.toNat, P_toNat]

theorem cast_P : ((P : Int) : F) = 0 := (cast_eq_zero_iff P).2 (dvd_refl _)

theorem cast_emod (a : Int) : ((a % P : Int) : F) = a := by
  rw [Int.emod_def, Int.cast_sub, Int.cast_mul, cast_P, zero_mul, sub_zero]

theorem cast_condAdd (a : Int) : ((if a < 0 then a + P else a : Int) : F) = a := by
  split
  · rw [Int.cast_add, cast_P, add_zero]
  · rfl

theorem cast_eq_iff (a b : Int) : (a : F) = b ↔ a % P = b % P := by
  rw [← sub_eq_zero, ← Int.cast_sub, cast_eq_zero_iff, Int.emod_eq_emod_iff_emod_sub_eq_zero,
    Int.dvd_iff_emod_eq_zero]

/-- a reduced integer vanishes in `F` only if it is `0` -/
theorem red_cast_eq_zero {z : Int} (hz : Red z) : (z : F) = 0 ↔ z = 0 := by
  constructor
  · intro h
    have hd := (cast_eq_zero_iff (F := F) z).1 h
    exact Int.eq_zero_of_dvd_of_nonneg_of_lt hz.1 hz.2 hd
  · rintro rfl; exact Int.cast_zero

theorem red_cast_inj {a b : Int} (ha : Red a) (hb : Red b) : (a : F) = b ↔ a = b := by
  rw [cast_eq_iff, Int.emod_eq_of_lt ha.1 ha.2, Int.emod_eq_of_lt hb.1 hb.2]

/-- a field of characteristic `P` exists only if `P` is prime -/
theorem prime_P (F : Type*) [Field F] [CharP F P.toNat] : Nat.Prime P.toNat :=
  (CharP.char_is_prime_or_zero F P.toNat).resolve_right (by decide)

theorem two_ne_zero' : (2 : F) ≠ 0 := by
  have : ((2 : Int) : F) ≠ 0 := fun h => absurd ((cast_eq_zero_iff (F := F) 2).1 h) (by decide)
  simpa using this

theorem three_ne_zero' : (3 : F) ≠ 0 := by
  have : ((3 : Int) : F) ≠ 0 := fun h => absurd ((cast_eq_zero_iff (F := F) 3).1 h) (by decide)
  simpa using this

theorem seven_ne_zero' : (7 : F) ≠ 0 := by
  have : ((7 : Int) : F) ≠ 0 := fun h => absurd ((cast_eq_zero_iff (F := F) 7).1 h) (by decide)
  simpa using this

/-- componentwise cast of a Jacobian triple -/
def cast3 (t : Int × Int × Int) : F × F × F := ((t.1 : F), (t.2.1 : F), (t.2.2 : F))

/-! ### `isOnCurve` -/

/-- **S3/S1** `isOnCurve` is the curve equation in `F`, for all integers. -/
theorem isOnCurve_iff (x y : Int) : isOnCurve x y = true ↔ (y : F) ^ 2 = (x : F) ^ 3 + 7 := by
  unfold isOnCurve B
  simp only [beq_iff_eq]
  rw [← cast_eq_iff (F := F)]
  push_cast
  constructor
  · intro h; linear_combination -h
  · intro h; linear_combination -h

theorem not_isOnCurve_zero : isOnCurve 0 0 = false := by decide

/-! ### `doubleJacobian` -/

theorem red_doubleJacobian_z (x y z : Int) : Red (doubleJacobian x y z).2.2 := red_emod _

/-- **S1** `doubleJacobian` commutes with the cast, unconditionally. -/
theorem cast_doubleJacobian (x y z : Int) :
    (cast3 (doubleJacobian x y z) : F × F × F) = dblF (x : F) y z := by
  unfold doubleJacobian dblF cast3
  simp only [cast_emod, Int.cast_sub, Int.cast_mul, Int.cast_add, Int.cast_ofNat]

/-! ### `addJacobian` -/

theorem red_addJacobian_z {x1 y1 z1 x2 y2 z2 : Int} (h1 : Red z1) (h2 : Red z2) :
    Red (addJacobian x1 y1 z1 x2 y2 z2).2.2 := by
  unfold addJacobian
  split
  · exact h2
  · split
    · exact h1
    · extract_lets z1z1 z2z2 u1 u2 h0 h i j s1 s2 r0 r1
      split
      · exact red_doubleJacobian_z _ _ _
      · exact red_emod _

variable [DecidableEq F]

/-- **S1** `addJacobian` commutes with the cast when the `z` inputs are reduced (so that the tests
`z = 0` mean the same in `Int` and in `F`).  In particular the test `h = 0 ∧ r1 = 0` on the reduced
differences is the test `u2 = u1 ∧ s2 = s1` in `F`. -/
theorem cast_addJacobian {x1 y1 z1 x2 y2 z2 : Int} (h1 : Red z1) (h2 : Red z2) :
    (cast3 (addJacobian x1 y1 z1 x2 y2 z2) : F × F × F) = addF (x1 : F) y1 z1 x2 y2 z2 := by
  unfold addJacobian addF
  by_cases hz1 : z1 = 0
  · rw [if_pos hz1, if_pos ((red_cast_eq_zero h1).2 hz1)]; rfl
  rw [if_neg hz1, if_neg (mt (red_cast_eq_zero h1).1 hz1)]
  by_cases hz2 : z2 = 0
  · rw [if_pos hz2, if_pos ((red_cast_eq_zero h2).2 hz2)]; rfl
  rw [if_neg hz2, if_neg (mt (red_cast_eq_zero h2).1 hz2)]
  extract_lets z1z1 z2z2 u1 u2 h0 h i j s1 s2 r0 r1 r v x3 y3 z30 z31 z32 z33 z3
    z1z1' z2z2' u1' u2' h' i' j' s1' s2' r1' r' v' x3' y3' z3'
  have e_z1z1 : (z1z1 : F) = z1z1' := cast_emod _ |>.trans (Int.cast_mul _ _)
  have e_z2z2 : (z2z2 : F) = z2z2' := cast_emod _ |>.trans (Int.cast_mul _ _)
  have e_u1 : (u1 : F) = u1' := by
    simp only [u1, u1', cast_emod, Int.cast_mul, e_z2z2]
  have e_u2 : (u2 : F) = u2' := by
    simp only [u2, u2', cast_emod, Int.cast_mul, e_z1z1]
  have e_h : (h : F) = h' := by
    simp only [h, h0, h', cast_condAdd, Int.cast_sub, e_u1, e_u2]
  have e_s1 : (s1 : F) = s1' := by
    simp only [s1, s1', cast_emod, Int.cast_mul, e_z2z2]
  have e_s2 : (s2 : F) = s2' := by
    simp only [s2, s2', cast_emod, Int.cast_mul, e_z1z1]
  have e_r1 : (r1 : F) = r1' := by
    simp only [r1, r0, r1', cast_condAdd, Int.cast_sub, e_s1, e_s2]
  have red_u1 : Red u1 := red_emod _
  have red_u2 : Red u2 := red_emod _
  have red_s1 : Red s1 := red_emod _
  have red_s2 : Red s2 := red_emod _
  have red_h : Red h := red_condAdd (by have := red_u1.2; have := red_u2.1; omega)
    (by have := red_u1.1; have := red_u2.2; omega)
  have red_r1 : Red r1 := red_condAdd (by have := red_s1.2; have := red_s2.1; omega)
    (by have := red_s1.1; have := red_s2.2; omega)
  have hcond : (h = 0 ∧ r1 = 0) ↔ (h' = 0 ∧ r1' = 0) := by
    rw [← e_h, ← e_r1, red_cast_eq_zero red_h, red_cast_eq_zero red_r1]
  by_cases hc : h = 0 ∧ r1 = 0
  · rw [if_pos hc, if_pos (hcond.1 hc)]
    exact cast_doubleJacobian _ _ _
  rw [if_neg hc, if_neg (mt hcond.2 hc)]
  have e_i : (i : F) = i' := by simp only [i, i', Int.cast_mul, e_h, Int.cast_ofNat]
  have e_j : (j : F) = j' := by simp only [j, j', Int.cast_mul, e_h, e_i]
  have e_r : (r : F) = r' := by simp only [r, r', Int.cast_mul, e_r1, Int.cast_ofNat]
  have e_v : (v : F) = v' := by simp only [v, v', Int.cast_mul, e_u1, e_i]
  have e_x3 : (x3 : F) = x3' := by
    simp only [x3, x3', cast_emod, Int.cast_mul, Int.cast_sub, e_r, e_j, e_v]
  have e_y3 : (y3 : F) = y3' := by
    simp only [y3, y3', cast_emod, Int.cast_mul, Int.cast_sub, e_r, e_j, e_v, e_x3, e_s1,
      Int.cast_ofNat]
  have e_z3 : (z3 : F) = z3' := by
    simp only [z3, z33, z32, z31, z30, z3', cast_emod, cast_condAdd, Int.cast_mul, Int.cast_sub,
      Int.cast_add, e_h, e_z1z1, e_z2z2]
  simp only [cast3, e_x3, e_y3, e_z3]

/-- **S1**, the non-special case spelled out: for reduced nonzero `z1`, `z2` and `¬(u2 = u1 ∧ s2 = s1)`
in `F`, the cast of `addJacobian` is the plain add-2007-bl formula `addGen` over `F`. -/
theorem cast_addJacobian_general {x1 y1 z1 x2 y2 z2 : Int} (h1 : Red z1) (h2 : Red z2)
    (hz1 : z1 ≠ 0) (hz2 : z2 ≠ 0)
    (hc : ¬((x2 : F) * (z1 * z1) - x1 * (z2 * z2) = 0 ∧
      (y2 : F) * z1 * (z1 * z1) - y1 * z2 * (z2 * z2) = 0)) :
    (cast3 (addJacobian x1 y1 z1 x2 y2 z2) : F × F × F) = addGen (x1 : F) y1 z1 x2 y2 z2 := by
  rw [cast_addJacobian h1 h2]
  exact addF_general (mt (red_cast_eq_zero h1).1 hz1) (mt (red_cast_eq_zero h2).1 hz2) hc

omit [DecidableEq F] in
/-- the `Int`-level reading of the test in `addJacobian`, as asked in S1 -/
theorem addJacobian_test_iff (x1 z1 x2 z2 : Int) :
    let u1 := (x1 * ((z2 * z2) % P)) % P
    let u2 := (x2 * ((z1 * z1) % P)) % P
    let h0 := u2 - u1
    let h := if h0 < 0 then h0 + P else h0
    h = 0 ↔ (u2 : F) = u1 := by
  intro u1 u2 h0 h
  have red_u1 : Red u1 := red_emod _
  have red_u2 : Red u2 := red_emod _
  have red_h : Red h := red_condAdd (by have := red_u1.2; have := red_u2.1; omega)
    (by have := red_u1.1; have := red_u2.2; omega)
  rw [← red_cast_eq_zero (F := F) red_h]
  simp only [h, h0, cast_condAdd, Int.cast_sub, sub_eq_zero]

/-! ### `affineFromJacobian` -/

omit [DecidableEq F] in
/-- **S1** `affineFromJacobian`: never `none`; `z = 0 ↦ (0,0)`; otherwise reduced coordinates with
`x' = x / z²`, `y' = y / z³` in `F` (stated division-free). -/
theorem affineFromJacobian_spec (x y : Int) {z : Int} (hz : Red z) :
    (z = 0 → affineFromJacobian x y z = some (0, 0)) ∧
    (z ≠ 0 → ∃ x' y', affineFromJacobian x y z = some (x', y') ∧ Red x' ∧ Red y' ∧
        (x' : F) * (z : F) ^ 2 = x ∧ (y' : F) * (z : F) ^ 3 = y) := by
  constructor
  · intro h; unfold affineFromJacobian; rw [if_pos h]
  · intro h
    have hzP : z % P ≠ 0 := by rw [Int.emod_eq_of_lt hz.1 hz.2]; exact h
    obtain ⟨zi, hzi, _, _, hinv⟩ := modInverse_prime P_pos P_lt (prime_P F) hzP
    have hinvF : (zi : F) * z = 1 := by
      have : ((zi * z : Int) : F) = ((1 : Int) : F) := by
        rw [cast_eq_iff, hinv]; decide
      simpa using this
    unfold affineFromJacobian
    rw [if_neg h, hzi]
    refine ⟨_, _, rfl, red_emod _, red_emod _, ?_, ?_⟩
    · simp only [cast_emod, Int.cast_mul]
      linear_combination ((x : F) * (zi * z + 1)) * hinvF
    · simp only [cast_emod, Int.cast_mul]
      linear_combination ((y : F) * ((zi * z) ^ 2 + zi * z + 1)) * hinvF

end

end Iota.Proofs.Secp
