/-
S0: `Iota.Secp256k1.modInverse` (extended Euclid with 1024 fuel) is `big.Int.ModInverse` for every
modulus `0 < n < 2^511`: it returns the inverse in `[0, n)` exactly when `g` and `n` are coprime and
`none` exactly when they are not.
-/
import Iota.Model.Secp256k1
import Mathlib.Data.Int.GCD
import Mathlib.Data.Nat.Prime.Basic
import Mathlib.Tactic.Linarith
import Mathlib.Tactic.Ring

namespace Iota.Proofs.Secp
open Iota.Secp256k1

/-- one Euclid step at least halves the product of the two remainders -/
private theorem euclid_step_prod {r0 r1 : Int} (h1 : 0 < r1) (h01 : r1 < r0) :
    2 * (r1 * (r0 % r1)) < r0 * r1 := by
  have hm := Int.emod_add_mul_ediv r0 r1
  have hlt : r0 % r1 < r1 := Int.emod_lt_of_pos _ h1
  have hnn : 0 ≤ r0 % r1 := Int.emod_nonneg _ (ne_of_gt h1)
  have hq : 1 ≤ r0 / r1 := Int.le_ediv_of_mul_le h1 (by omega)
  have h2 : r1 ≤ r1 * (r0 / r1) := by nlinarith
  have h3 : 2 * (r0 % r1) < r0 := by omega
  nlinarith

/-- Invariant of `egcd`: the first component is the gcd, the second a Bezout coefficient of `a`
modulo `n`, provided the fuel covers `log₂ (r0·r1)`. -/
theorem egcd_spec (a n : Int) : ∀ (fuel : Nat) (r0 r1 s0 s1 : Int),
    0 ≤ r1 → r1 < r0 → r0 * r1 < 2 ^ fuel →
    n ∣ s0 * a - r0 → n ∣ s1 * a - r1 →
    (egcd fuel r0 r1 s0 s1).1 = (Int.gcd r0 r1 : Int) ∧
      n ∣ (egcd fuel r0 r1 s0 s1).2 * a - (egcd fuel r0 r1 s0 s1).1 := by
  intro fuel
  induction fuel with
  | zero =>
    intro r0 r1 s0 s1 h1 h01 hp d0 _
    have hr1 : r1 = 0 := by
      rcases Int.lt_or_eq_of_le h1 with h | h
      · have : 1 ≤ r0 * r1 := by nlinarith
        simp at hp; omega
      · exact h.symm
    subst hr1
    simp only [egcd]
    refine ⟨?_, d0⟩
    rw [Int.gcd_zero_right, Int.natAbs_of_nonneg (by omega)]
  | succ k ih =>
    intro r0 r1 s0 s1 h1 h01 hp d0 d1
    unfold egcd
    by_cases hr1 : r1 = 0
    · subst hr1
      simp only [if_true]
      refine ⟨?_, d0⟩
      rw [Int.gcd_zero_right, Int.natAbs_of_nonneg (by omega)]
    · simp only [if_neg hr1]
      have h1' : 0 < r1 := by omega
      have hlt : r0 % r1 < r1 := Int.emod_lt_of_pos _ h1'
      have hnn : 0 ≤ r0 % r1 := Int.emod_nonneg _ hr1
      have hprod := euclid_step_prod h1' h01
      have hp' : r1 * (r0 % r1) < 2 ^ k := by
        have : (2 : Int) ^ (k + 1) = 2 * 2 ^ k := by ring
        rw [this] at hp; omega
      have d2 : n ∣ (s0 - r0 / r1 * s1) * a - r0 % r1 := by
        have e : (s0 - r0 / r1 * s1) * a - r0 % r1
            = (s0 * a - r0) - (r0 / r1) * (s1 * a - r1) := by
          have hm := Int.emod_add_mul_ediv r0 r1
          have : r0 % r1 = r0 - r1 * (r0 / r1) := by omega
          rw [this]; ring
        rw [e]
        exact Int.dvd_sub d0 (Dvd.dvd.mul_left d1 _)
      obtain ⟨ih1, ih2⟩ := ih r1 (r0 % r1) s1 (s0 - r0 / r1 * s1) hnn hlt hp' d1 d2
      refine ⟨?_, ih2⟩
      rw [ih1, Int.gcd_comm r1, Int.gcd_emod, Int.gcd_comm]

/-- the value computed by `modInverse` before the `r.1 = 1` test -/
theorem egcd_modInverse {g n : Int} (hn : 0 < n) (hbound : n < 2 ^ 511) :
    (egcd 1024 (g % n) n 1 0).1 = (Int.gcd g n : Int) ∧
      n ∣ (egcd 1024 (g % n) n 1 0).2 * (g % n) - (egcd 1024 (g % n) n 1 0).1 := by
  have hnn : 0 ≤ g % n := Int.emod_nonneg _ (ne_of_gt hn)
  have hlt : g % n < n := Int.emod_lt_of_pos _ hn
  have hne : n ≠ 0 := ne_of_gt hn
  have step : egcd 1024 (g % n) n 1 0 = egcd 1023 n (g % n) 0 1 := by
    rw [show (1024 : Nat) = 1023 + 1 from rfl, egcd, if_neg hne,
      Int.emod_emod_of_dvd _ (dvd_refl n)]
    simp
  rw [step]
  have hp : n * (g % n) < 2 ^ 1023 := by
    have h1 : n * (g % n) ≤ n * n := Int.mul_le_mul_of_nonneg_left (le_of_lt hlt) (le_of_lt hn)
    have h2 : n * n < 2 ^ 511 * 2 ^ 511 := by
      have : n * n ≤ n * 2 ^ 511 := Int.mul_le_mul_of_nonneg_left (le_of_lt hbound) (le_of_lt hn)
      have : n * 2 ^ 511 < 2 ^ 511 * 2 ^ 511 := by
        apply Int.mul_lt_mul_of_pos_right hbound; positivity
      omega
    have h3 : (2 : Int) ^ 511 * 2 ^ 511 ≤ 2 ^ 1023 := by
      rw [← pow_add]; exact pow_le_pow_right₀ (by norm_num) (by norm_num)
    omega
  have := egcd_spec (g % n) n 1023 n (g % n) 0 1 hnn hlt hp (by simp) (by simp)
  refine ⟨?_, this.2⟩
  rw [this.1, Int.gcd_comm, Int.gcd_emod]

/-- **S0**, characterisation: for `0 < n < 2^511`, `modInverse g n` is `none` exactly when `g` and `n`
are not coprime, and otherwise the unique inverse of `g` in `[0, n)`. -/
theorem modInverse_eq_none_iff {g n : Int} (hn : 0 < n) (hbound : n < 2 ^ 511) :
    modInverse g n = none ↔ Int.gcd g n ≠ 1 := by
  have h := (egcd_modInverse (g := g) hn hbound).1
  unfold modInverse
  simp only [h]
  split
  · rename_i h1; simp; exact_mod_cast h1
  · rename_i h1; simp; exact_mod_cast h1

/-- **S0**: a coprime argument has an inverse, returned in `[0, n)`.  (`1 % n = 1` unless `n = 1`.) -/
theorem modInverse_of_coprime {g n : Int} (hn : 0 < n) (hbound : n < 2 ^ 511)
    (hg : Int.gcd g n = 1) :
    ∃ zi, modInverse g n = some zi ∧ 0 ≤ zi ∧ zi < n ∧ (zi * g) % n = 1 % n := by
  obtain ⟨h1, h2⟩ := egcd_modInverse (g := g) hn hbound
  have hne : n ≠ 0 := ne_of_gt hn
  refine ⟨(egcd 1024 (g % n) n 1 0).2 % n, ?_, Int.emod_nonneg _ hne, Int.emod_lt_of_pos _ hn, ?_⟩
  · unfold modInverse
    simp only [h1, hg]
    simp
  · rw [h1, hg] at h2
    generalize (egcd 1024 (g % n) n 1 0).2 = e at h2
    have key : (e % n) * g - 1 = (e * (g % n) - 1) + n * (e * (g / n) - (e / n) * g) := by
      rw [Int.emod_def, Int.emod_def]; ring
    refine Int.emod_eq_emod_iff_emod_sub_eq_zero.2 (Int.emod_eq_zero_of_dvd ?_)
    rw [key]
    exact Int.dvd_add (by simpa using h2) (Int.dvd_mul_right _ _)

/-- **S0** in the form asked for: hypothesis on `g % n`, modulus `> 1`. -/
theorem modInverse_spec {g n : Int} (hn : 1 < n) (hbound : n < 2 ^ 511)
    (hg : Int.gcd (g % n) n = 1) :
    ∃ zi, modInverse g n = some zi ∧ 0 ≤ zi ∧ zi < n ∧ (zi * g) % n = 1 := by
  rw [Int.gcd_emod] at hg
  obtain ⟨zi, h1, h2, h3, h4⟩ := modInverse_of_coprime (by omega) hbound hg
  exact ⟨zi, h1, h2, h3, by rw [h4]; exact Int.emod_eq_of_lt (by omega) hn⟩

/-- `modInverse` never returns a wrong value: whatever it returns is an inverse in `[0, n)`. -/
theorem modInverse_sound {g n zi : Int} (hn : 0 < n) (hbound : n < 2 ^ 511)
    (h : modInverse g n = some zi) : Int.gcd g n = 1 ∧ 0 ≤ zi ∧ zi < n ∧ (zi * g) % n = 1 % n := by
  have hc : Int.gcd g n = 1 := by
    by_contra hc
    rw [(modInverse_eq_none_iff hn hbound).2 hc] at h
    cases h
  obtain ⟨zi', h1, h2, h3, h4⟩ := modInverse_of_coprime hn hbound hc
  rw [h1] at h
  cases h
  exact ⟨hc, h2, h3, h4⟩

/-- a prime modulus: everything not divisible by `n` is invertible -/
theorem modInverse_prime {g n : Int} (hn : 0 < n) (hbound : n < 2 ^ 511)
    (hp : Nat.Prime n.toNat) (hg : g % n ≠ 0) :
    ∃ zi, modInverse g n = some zi ∧ 0 ≤ zi ∧ zi < n ∧ (zi * g) % n = 1 := by
  have h1 : 1 < n := by have := hp.one_lt; omega
  refine modInverse_spec h1 hbound ?_
  rw [Int.gcd_emod, Int.gcd_comm, Int.gcd]
  have hnat : n.natAbs = n.toNat := by omega
  rw [hnat]
  refine (Nat.Prime.coprime_iff_not_dvd hp).2 ?_
  intro hd
  apply hg
  apply Int.emod_eq_zero_of_dvd
  have : (n.toNat : Int) ∣ g := Int.natCast_dvd.2 hd
  rwa [Int.toNat_of_nonneg (le_of_lt hn)] at this

end Iota.Proofs.Secp
