/-
S3: the exported API (`add`, `double`, `scalarMult`, `scalarBaseMult`, `isOnCurve`) against Mathlib's
group `E(F)`, `E : y² = x³ + 7`, for every field `F` of characteristic `P` (instantiated with
`ZMod P` in `Iota.Proofs.Secp`).  Inputs: every representable pair, i.e. `(0,0)` (the identity) or an
on-curve pair with coordinates in `[0, P)`.
-/
import Iota.Proofs.Secp.Cast
import Iota.Proofs.Secp.Jacobian

namespace Iota.Proofs.Secp
open Iota.Secp256k1 WeierstrassCurve.Affine

/-! ### Scalars -/

/-- the value of a bit string, most significant bit first, continuing from `n` -/
def bitsVal (n : Nat) (bits : List Bool) : Nat :=
  bits.foldl (fun n b => if b then 2 * n + 1 else 2 * n) n

/-- the value of a big-endian byte string, continuing from `n` -/
def beNatFrom (n : Nat) (k : List UInt8) : Nat := k.foldl (fun n b => n * 256 + b.toNat) n

/-- the natural number denoted by a big-endian byte string (any length, leading zeros allowed) -/
def beNat (k : List UInt8) : Nat := beNatFrom 0 k

theorem beNat_nil : beNat [] = 0 := rfl
theorem beNat_append_singleton (k : List UInt8) (b : UInt8) :
    beNat (k ++ [b]) = beNat k * 256 + b.toNat := by
  simp [beNat, beNatFrom, List.foldl_append]

private theorem bits8_val : ∀ m, m < 256 → ∀ n,
    bitsVal n ((List.range 8).map fun i => decide ((m >>> (7 - i)) % 2 = 1)) = n * 256 + m := by
  intro m hm n
  have hr : List.range 8 = [0, 1, 2, 3, 4, 5, 6, 7] := by decide
  have step : ∀ (x n : Nat), (if decide (x % 2 = 1) = true then 2 * n + 1 else 2 * n)
      = 2 * n + x % 2 := by
    intro x n; by_cases h : x % 2 = 1 <;> simp [h] ; omega
  simp only [hr, bitsVal, List.map, List.foldl, step, Nat.shiftRight_eq_div_pow, Nat.reduceSub,
    Nat.reducePow]
  have key : 2 * (2 * (2 * (2 * (2 * (2 * (2 * (2 * n + m / 128 % 2) + m / 64 % 2) + m / 32 % 2)
      + m / 16 % 2) + m / 8 % 2) + m / 4 % 2) + m / 2 % 2) + m / 1 % 2 = n * 256 + m := by omega
  exact key

theorem bitsVal_bitsOfBytes (k : List UInt8) : ∀ n, bitsVal n (bitsOfBytes k) = beNatFrom n k := by
  induction k with
  | nil => intro n; rfl
  | cons b k ih =>
    intro n
    have : bitsOfBytes (b :: k)
        = ((List.range 8).map fun i => decide ((b.toNat >>> (7 - i)) % 2 = 1)) ++ bitsOfBytes k := by
      simp [bitsOfBytes]
    rw [this]
    unfold bitsVal
    rw [List.foldl_append]
    have h8 := bits8_val b.toNat (UInt8.toNat_lt b) n
    unfold bitsVal at h8
    rw [h8]
    exact ih _

/-! ### Points -/

section
variable {F : Type*} [Field F] [CharP F P.toNat]

/-- secp256k1 over `F` -/
abbrev E (F : Type*) [Field F] : WeierstrassCurve.Affine F := curve (7 : F)

omit [CharP F P.toNat] in
theorem E_equation_iff (x y : F) : (E F).Equation x y ↔ y ^ 2 = x ^ 3 + 7 := curve_equation_iff 7 x y

theorem E_nonsingular {x y : F} (h : (E F).Equation x y) : (E F).Nonsingular x y :=
  curve_nonsingular 7 two_ne_zero' three_ne_zero' seven_ne_zero' h

/-- **S3** `isOnCurve` decides the Weierstrass equation of `E` over `F`, for all integers. -/
theorem isOnCurve_iff_equation (x y : Int) :
    isOnCurve x y = true ↔ (E F).Equation (x : F) (y : F) := by
  rw [E_equation_iff, isOnCurve_iff (F := F)]

/-- `(x, y)` is an affine pair of the model representing the point `Q`: either `(0,0)` and `Q = 0`, or
reduced coordinates of the affine point `Q`. -/
def AffRep (x y : Int) (Q : (E F).Point) : Prop :=
  (x = 0 ∧ y = 0 ∧ Q = 0) ∨
  (Red x ∧ Red y ∧ ∃ h : (E F).Nonsingular (x : F) (y : F), Q = Point.some _ _ h)

/-- the inputs of the API: `(0,0)`, or on the curve with both coordinates in `[0, P)` -/
def Representable (x y : Int) : Prop :=
  (x = 0 ∧ y = 0) ∨ (Red x ∧ Red y ∧ isOnCurve x y = true)

open Classical in
/-- **S3** the point denoted by a pair of the model; `none` for pairs that are not representable -/
noncomputable def toPoint? (F : Type*) [Field F] [CharP F P.toNat] (xy : Int × Int) :
    Option (E F).Point :=
  if xy.1 = 0 ∧ xy.2 = 0 then some 0
  else if h : Red xy.1 ∧ Red xy.2 ∧ (E F).Equation (xy.1 : F) (xy.2 : F) then
    some (Point.some _ _ (E_nonsingular h.2.2))
  else none

theorem not_equation_zero : ¬ (E F).Equation ((0 : Int) : F) ((0 : Int) : F) := by
  rw [E_equation_iff]
  simp only [Int.cast_zero]
  intro h
  exact seven_ne_zero' (F := F) (by linear_combination -h)

theorem toPoint?_eq_some_iff (x y : Int) (Q : (E F).Point) :
    toPoint? F (x, y) = some Q ↔ AffRep x y Q := by
  unfold toPoint? AffRep
  by_cases h0 : x = 0 ∧ y = 0
  · obtain ⟨rfl, rfl⟩ := h0
    simp only [and_self, if_true, Option.some.injEq, true_and]
    constructor
    · intro h; exact Or.inl h.symm
    · rintro (h | ⟨_, _, h, _⟩)
      · exact h.symm
      · exact absurd h.1 not_equation_zero
  · rw [if_neg h0]
    constructor
    · intro h
      split at h
      · rename_i hc
        right
        exact ⟨hc.1, hc.2.1, E_nonsingular hc.2.2, (Option.some.inj h).symm⟩
      · cases h
    · rintro (⟨hx, hy, _⟩ | ⟨rx, ry, h, rfl⟩)
      · exact absurd ⟨hx, hy⟩ h0
      · rw [dif_pos ⟨rx, ry, h.1⟩]

theorem representable_iff (x y : Int) : Representable x y ↔ ∃ Q, toPoint? F (x, y) = some Q := by
  simp only [toPoint?_eq_some_iff]
  unfold Representable AffRep
  constructor
  · rintro (⟨rfl, rfl⟩ | ⟨rx, ry, h⟩)
    · exact ⟨0, Or.inl ⟨rfl, rfl, rfl⟩⟩
    · exact ⟨_, Or.inr ⟨rx, ry, E_nonsingular ((isOnCurve_iff_equation x y).1 h), rfl⟩⟩
  · rintro ⟨Q, (⟨rfl, rfl, _⟩ | ⟨rx, ry, h, _⟩)⟩
    · exact Or.inl ⟨rfl, rfl⟩
    · exact Or.inr ⟨rx, ry, (isOnCurve_iff_equation x y).2 h.1⟩

omit [CharP F P.toNat] in
/-- coordinates of representable pairs are in `[0, P)` -/
theorem AffRep.red {x y : Int} {Q : (E F).Point} (h : AffRep x y Q) : Red x ∧ Red y := by
  rcases h with ⟨rfl, rfl, _⟩ | ⟨rx, ry, _⟩
  · exact ⟨red_zero, red_zero⟩
  · exact ⟨rx, ry⟩

omit [CharP F P.toNat] in
/-- the identity is represented by `(0,0)` only -/
theorem AffRep.zero_iff {x y : Int} : AffRep x y (0 : (E F).Point) ↔ x = 0 ∧ y = 0 := by
  constructor
  · rintro (⟨hx, hy, _⟩ | ⟨_, _, h, he⟩)
    · exact ⟨hx, hy⟩
    · exact absurd he.symm (Point.some_ne_zero h)
  · rintro ⟨rfl, rfl⟩; exact Or.inl ⟨rfl, rfl, rfl⟩

/-- a point has at most one representing pair -/
theorem AffRep.inj {x y x' y' : Int} {Q : (E F).Point} (h : AffRep x y Q) (h' : AffRep x' y' Q) :
    x = x' ∧ y = y' := by
  rcases h with ⟨rfl, rfl, rfl⟩ | ⟨rx, ry, hn, rfl⟩
  · exact (AffRep.zero_iff.1 h').imp Eq.symm Eq.symm
  · rcases h' with ⟨_, _, he⟩ | ⟨rx', ry', hn', he⟩
    · exact absurd he (Point.some_ne_zero hn)
    · rw [Point.some.injEq] at he
      exact ⟨(red_cast_inj rx rx').1 he.1, (red_cast_inj ry ry').1 he.2⟩

/-- a pair represents at most one point -/
theorem AffRep.unique {x y : Int} {Q Q' : (E F).Point} (h : AffRep x y Q) (h' : AffRep x y Q') :
    Q = Q' := by
  have h1 := (toPoint?_eq_some_iff x y Q).2 h
  have h2 := (toPoint?_eq_some_iff x y Q').2 h'
  rw [h1] at h2
  exact Option.some.inj h2

/-! ### Affine ↔ Jacobian -/

theorem zForAffine_of_ne {x y : Int} (h : ¬(x = 0 ∧ y = 0)) : zForAffine x y = 1 := by
  unfold zForAffine
  rw [if_pos]
  by_contra hc
  exact h ⟨by_contra fun hx => hc (Or.inl hx), by_contra fun hy => hc (Or.inr hy)⟩

/-- an API input, lifted with `zForAffine`, is a Jacobian representative of its point -/
theorem rep_of_affRep {x y : Int} {Q : (E F).Point} (h : AffRep x y Q) :
    Rep (E F) (x : F) (y : F) ((zForAffine x y : Int) : F) Q := by
  rcases h with ⟨rfl, rfl, rfl⟩ | ⟨_, _, hn, rfl⟩
  · have : zForAffine 0 0 = 0 := by decide
    rw [this, Int.cast_zero]
    exact rep_zero _ _ _
  · have hne : ¬(x = 0 ∧ y = 0) := by
      rintro ⟨rfl, rfl⟩
      exact not_equation_zero hn.1
    rw [zForAffine_of_ne hne, Int.cast_one]
    exact rep_affine hn

/-- `affineFromJacobian` of a Jacobian representative with reduced `z` never fails and returns the
representing pair of the point. -/
theorem affine_of_rep {X Y Z : Int} (hZ : Red Z) {Q : (E F).Point}
    (h : Rep (E F) (X : F) (Y : F) (Z : F) Q) :
    ∃ x' y', affineFromJacobian X Y Z = some (x', y') ∧ AffRep x' y' Q := by
  obtain ⟨s0, s1⟩ := affineFromJacobian_spec (F := F) X Y hZ
  rcases h with ⟨hz, rfl⟩ | ⟨hz, x, y, hns, hX, hY, rfl⟩
  · exact ⟨0, 0, s0 ((red_cast_eq_zero hZ).1 hz), Or.inl ⟨rfl, rfl, rfl⟩⟩
  · have hz' : Z ≠ 0 := fun h => hz (by rw [h, Int.cast_zero])
    obtain ⟨x', y', he, rx, ry, ex, ey⟩ := s1 hz'
    have e1 : (x' : F) = x := mul_right_cancel₀ (pow_ne_zero 2 hz) (ex.trans hX)
    have e2 : (y' : F) = y := mul_right_cancel₀ (pow_ne_zero 3 hz) (ey.trans hY)
    subst e1 e2
    exact ⟨x', y', he, Or.inr ⟨rx, ry, hns, rfl⟩⟩

variable [DecidableEq F]

/-! ### `add`, `double` -/

theorem add_affRep {x1 y1 x2 y2 : Int} {Q1 Q2 : (E F).Point}
    (h1 : AffRep x1 y1 Q1) (h2 : AffRep x2 y2 Q2) :
    ∃ x3 y3, add x1 y1 x2 y2 = some (x3, y3) ∧ AffRep x3 y3 (Q1 + Q2) := by
  unfold add
  have hr := rep_add two_ne_zero' (rep_of_affRep h1) (rep_of_affRep h2)
  rw [← cast_addJacobian (red_zForAffine _ _) (red_zForAffine _ _)] at hr
  exact affine_of_rep (red_addJacobian_z (red_zForAffine _ _) (red_zForAffine _ _)) hr

theorem double_affRep {x y : Int} {Q : (E F).Point} (h : AffRep x y Q) :
    ∃ x3 y3, double x y = some (x3, y3) ∧ AffRep x3 y3 (Q + Q) := by
  unfold double
  have hr := rep_dbl two_ne_zero' (rep_of_affRep h)
  rw [← cast_doubleJacobian] at hr
  exact affine_of_rep (red_doubleJacobian_z _ _ _) hr

/-! ### `scalarMult` -/

/-- the loop invariant of `ScalarMult`: the accumulator is a representative of `n • B` -/
theorem scalarLoop_rep {bx by_ bz : Int} {B : (E F).Point} (hbz : Red bz)
    (hB : Rep (E F) (bx : F) (by_ : F) (bz : F) B) :
    ∀ (bits : List Bool) (acc : Int × Int × Int) (n : Nat),
      Red acc.2.2 → Rep3 (E F) (cast3 acc) (n • B) →
      Red (scalarLoop bx by_ bz bits acc).2.2 ∧
        Rep3 (E F) (cast3 (scalarLoop bx by_ bz bits acc)) (bitsVal n bits • B) := by
  intro bits
  induction bits with
  | nil => intro acc n hr hrep; exact ⟨hr, hrep⟩
  | cons bit bits ih =>
    rintro ⟨x, y, z⟩ n hr hrep
    rw [scalarLoop]
    have hd : Rep3 (E F) (cast3 (doubleJacobian x y z)) ((2 * n) • B) := by
      rw [cast_doubleJacobian, two_mul, add_nsmul]
      exact rep_dbl two_ne_zero' hrep
    have hdr : Red (doubleJacobian x y z).2.2 := red_doubleJacobian_z _ _ _
    cases bit with
    | false =>
      simp only [Bool.false_eq_true, if_false]
      have := ih (doubleJacobian x y z) (2 * n) hdr hd
      simpa [bitsVal] using this
    | true =>
      simp only [if_true]
      have ha : Rep3 (E F) (cast3 (addJacobian bx by_ bz (doubleJacobian x y z).1
          (doubleJacobian x y z).2.1 (doubleJacobian x y z).2.2)) ((2 * n + 1) • B) := by
        rw [cast_addJacobian hbz hdr, succ_nsmul, add_comm]
        exact rep_add two_ne_zero' hB hd
      have := ih _ (2 * n + 1) (red_addJacobian_z hbz hdr) ha
      simpa [bitsVal] using this

theorem scalarMult_affRep {x y : Int} {Q : (E F).Point} (h : AffRep x y Q) (k : List UInt8) :
    ∃ x' y', scalarMult x y k = some (x', y') ∧ AffRep x' y' (beNat k • Q) := by
  unfold scalarMult
  have h0 : Rep3 (E F) (cast3 ((0, 0, 0) : Int × Int × Int)) ((0 : Nat) • Q) := by
    rw [zero_nsmul]
    exact Or.inl ⟨Int.cast_zero, rfl⟩
  obtain ⟨hr, hrep⟩ := scalarLoop_rep (red_zForAffine x y) (rep_of_affRep h) (bitsOfBytes k)
    (0, 0, 0) 0 red_zero h0
  rw [bitsVal_bitsOfBytes] at hrep
  exact affine_of_rep hr hrep

/-! ### The statements in terms of `toPoint?` -/

/-- **S3, `add`**: for all representable inputs `add` never panics, its result is representable
(coordinates in `[0,P)`, on the curve or `(0,0)`), and denotes the group sum. -/
theorem add_correct {x1 y1 x2 y2 : Int} {Q1 Q2 : (E F).Point}
    (h1 : toPoint? F (x1, y1) = some Q1) (h2 : toPoint? F (x2, y2) = some Q2) :
    ∃ x3 y3, add x1 y1 x2 y2 = some (x3, y3) ∧ toPoint? F (x3, y3) = some (Q1 + Q2) := by
  simp only [toPoint?_eq_some_iff] at *
  exact add_affRep h1 h2

/-- **S3, `double`** -/
theorem double_correct {x y : Int} {Q : (E F).Point} (h : toPoint? F (x, y) = some Q) :
    ∃ x3 y3, double x y = some (x3, y3) ∧ toPoint? F (x3, y3) = some (Q + Q) := by
  simp only [toPoint?_eq_some_iff] at *
  exact double_affRep h

/-- **S3, `scalarMult`**: for every byte string `k` (any length, leading zeros, any value) and every
representable base point including `(0,0)`. -/
theorem scalarMult_correct {x y : Int} {Q : (E F).Point} (h : toPoint? F (x, y) = some Q)
    (k : List UInt8) :
    ∃ x' y', scalarMult x y k = some (x', y') ∧ toPoint? F (x', y') = some (beNat k • Q) := by
  simp only [toPoint?_eq_some_iff] at *
  exact scalarMult_affRep h k

theorem G_onCurve : isOnCurve Gx Gy = true := by decide

/-- the base point -/
noncomputable def G (F : Type*) [Field F] [CharP F P.toNat] : (E F).Point :=
  Point.some (Gx : F) (Gy : F) (E_nonsingular ((isOnCurve_iff_equation Gx Gy).1 G_onCurve))

omit [DecidableEq F] in
theorem toPoint?_G : toPoint? F (Gx, Gy) = some (G F) := by
  rw [toPoint?_eq_some_iff]
  exact Or.inr ⟨⟨by decide, by decide⟩, ⟨by decide, by decide⟩, _, rfl⟩

/-- **S3, `scalarBaseMult`** -/
theorem scalarBaseMult_correct (k : List UInt8) :
    ∃ x' y', scalarBaseMult k = some (x', y') ∧ toPoint? F (x', y') = some (beNat k • G F) :=
  scalarMult_correct toPoint?_G k

end

end Iota.Proofs.Secp
