/-
S2: correctness of the Jacobian formulas over an arbitrary field `F` with `2 ≠ 0`, for the curve
`y² = x³ + b`, against Mathlib's group law on `WeierstrassCurve.Affine.Point`.  A triple `(X, Y, Z)`
with `Z ≠ 0` represents the affine point `(X/Z², Y/Z³)`; `Z = 0` represents `0`.  All special cases
of `addF` (either input at infinity, `P = Q`, `P = -Q`) and of `dblF` (`y = 0`) are covered.
-/
import Iota.Proofs.Secp.Formulas
import Mathlib.AlgebraicGeometry.EllipticCurve.Affine.Point
import Mathlib.Tactic.Ring
import Mathlib.Tactic.LinearCombination

namespace Iota.Proofs.Secp
open WeierstrassCurve.Affine

variable {F : Type*} [Field F]

/-- the short Weierstrass curve `y² = x³ + b` -/
def curve (b : F) : WeierstrassCurve.Affine F := { a₁ := 0, a₂ := 0, a₃ := 0, a₄ := 0, a₆ := b }

section curve
variable (b : F)

@[simp] theorem curve_a₁ : (curve b).a₁ = 0 := rfl
@[simp] theorem curve_a₂ : (curve b).a₂ = 0 := rfl
@[simp] theorem curve_a₃ : (curve b).a₃ = 0 := rfl
@[simp] theorem curve_a₄ : (curve b).a₄ = 0 := rfl
@[simp] theorem curve_a₆ : (curve b).a₆ = b := rfl

theorem curve_equation_iff (x y : F) : (curve b).Equation x y ↔ y ^ 2 = x ^ 3 + b := by
  rw [equation_iff]; simp

theorem curve_negY (x y : F) : (curve b).negY x y = -y := by simp [negY]

theorem curve_addX (x1 x2 ℓ : F) : (curve b).addX x1 x2 ℓ = ℓ ^ 2 - x1 - x2 := by simp [addX]

theorem curve_addY (x1 x2 y1 ℓ : F) :
    (curve b).addY x1 x2 y1 ℓ = -(ℓ * (ℓ ^ 2 - x1 - x2 - x1) + y1) := by
  simp [addY, negAddY, negY, addX]

/-- on `y² = x³ + b` with `b ≠ 0` in characteristic `≠ 2, 3` every affine solution is nonsingular -/
theorem curve_nonsingular (h2 : (2 : F) ≠ 0) (h3 : (3 : F) ≠ 0) (hb : b ≠ 0) {x y : F}
    (h : (curve b).Equation x y) : (curve b).Nonsingular x y := by
  rw [nonsingular_iff]
  refine ⟨h, ?_⟩
  rw [curve_equation_iff] at h
  simp only [curve_a₁, curve_a₂, curve_a₃, curve_a₄, zero_mul, mul_zero, add_zero, sub_zero]
  by_cases hy : y = 0
  · left
    subst hy
    have hx : x ≠ 0 := by
      rintro rfl
      apply hb
      linear_combination -h
    exact (mul_ne_zero h3 (pow_ne_zero 2 hx)).symm
  · right
    intro h'
    have : 2 * y = 0 := by linear_combination h'
    rcases mul_eq_zero.1 this with h | h
    · exact h2 h
    · exact hy h

end curve

/-! ### Representation of points by Jacobian triples -/

/-- `(X, Y, Z)` represents the point `Q`: division-free form of `Q = (X/Z², Y/Z³)`, `Z = 0 ↦ 0`. -/
def Rep (W : WeierstrassCurve.Affine F) (X Y Z : F) (Q : W.Point) : Prop :=
  (Z = 0 ∧ Q = 0) ∨
  (Z ≠ 0 ∧ ∃ x y, ∃ h : W.Nonsingular x y, X = x * Z ^ 2 ∧ Y = y * Z ^ 3 ∧ Q = Point.some x y h)

/-- `Rep` on a triple -/
def Rep3 (W : WeierstrassCurve.Affine F) (T : F × F × F) (Q : W.Point) : Prop :=
  Rep W T.1 T.2.1 T.2.2 Q

theorem rep_zero (W : WeierstrassCurve.Affine F) (X Y : F) : Rep W X Y 0 0 := Or.inl ⟨rfl, rfl⟩

theorem rep_affine {W : WeierstrassCurve.Affine F} {x y : F} (h : W.Nonsingular x y) :
    Rep W x y 1 (Point.some x y h) :=
  Or.inr ⟨one_ne_zero, x, y, h, by ring, by ring, rfl⟩

/-- the division form of `Rep`, for reference -/
theorem rep_iff_div (W : WeierstrassCurve.Affine F) (X Y Z : F) (Q : W.Point) :
    Rep W X Y Z Q ↔ (Z = 0 ∧ Q = 0) ∨
      (Z ≠ 0 ∧ ∃ h : W.Nonsingular (X / Z ^ 2) (Y / Z ^ 3), Q = Point.some _ _ h) := by
  unfold Rep
  refine or_congr Iff.rfl (and_congr_right fun hZ => ?_)
  constructor
  · rintro ⟨x, y, h, rfl, rfl, rfl⟩
    have e1 : x * Z ^ 2 / Z ^ 2 = x := mul_div_cancel_right₀ _ (pow_ne_zero 2 hZ)
    have e2 : y * Z ^ 3 / Z ^ 3 = y := mul_div_cancel_right₀ _ (pow_ne_zero 3 hZ)
    exact ⟨by rw [e1, e2]; exact h, by simp only [e1, e2]⟩
  · rintro ⟨h, rfl⟩
    exact ⟨_, _, h, (div_mul_cancel₀ _ (pow_ne_zero 2 hZ)).symm,
      (div_mul_cancel₀ _ (pow_ne_zero 3 hZ)).symm, rfl⟩

/-! ### Pure algebra: the formulas against chord and tangent -/

/-- tangent: with `ℓ·2y = 3x²`, `dblF` of `(xZ², yZ³, Z)` is `(x₃Z₃², y₃Z₃³, Z₃)`, `Z₃ = 2yZ⁴`. -/
theorem dblF_alg (x y Z ℓ : F) (hℓ : ℓ * (2 * y) = 3 * x ^ 2) :
    (dblF (x * Z ^ 2) (y * Z ^ 3) Z).1
      = (ℓ ^ 2 - x - x) * (dblF (x * Z ^ 2) (y * Z ^ 3) Z).2.2 ^ 2 ∧
    (dblF (x * Z ^ 2) (y * Z ^ 3) Z).2.1
      = -(ℓ * (ℓ ^ 2 - x - x - x) + y) * (dblF (x * Z ^ 2) (y * Z ^ 3) Z).2.2 ^ 3 ∧
    (dblF (x * Z ^ 2) (y * Z ^ 3) Z).2.2 = 2 * y * Z ^ 4 := by
  simp only [dblF]
  refine ⟨?_, ?_, by ring⟩
  · linear_combination (-(Z ^ 8) * (3 * x ^ 2 + 2 * y * ℓ)) * hℓ
  · linear_combination (-(Z ^ 12) * (12 * x * y ^ 2 - (3 * x ^ 2) ^ 2 - (3 * x ^ 2) * (2 * y * ℓ)
      - (2 * y * ℓ) ^ 2)) * hℓ

/-- chord: with `ℓ·(x₁ - x₂) = y₁ - y₂`, `addGen` of the two triples is `(x₃Z₃², y₃Z₃³, Z₃)` with
`Z₃ = 2Z₁Z₂·(x₂ - x₁)Z₁²Z₂²`. -/
theorem addGen_alg (x1 y1 x2 y2 Z1 Z2 ℓ : F) (hℓ : ℓ * (x1 - x2) = y1 - y2) :
    (addGen (x1 * Z1 ^ 2) (y1 * Z1 ^ 3) Z1 (x2 * Z2 ^ 2) (y2 * Z2 ^ 3) Z2).1
      = (ℓ ^ 2 - x1 - x2)
        * (addGen (x1 * Z1 ^ 2) (y1 * Z1 ^ 3) Z1 (x2 * Z2 ^ 2) (y2 * Z2 ^ 3) Z2).2.2 ^ 2 ∧
    (addGen (x1 * Z1 ^ 2) (y1 * Z1 ^ 3) Z1 (x2 * Z2 ^ 2) (y2 * Z2 ^ 3) Z2).2.1
      = -(ℓ * (ℓ ^ 2 - x1 - x2 - x1) + y1)
        * (addGen (x1 * Z1 ^ 2) (y1 * Z1 ^ 3) Z1 (x2 * Z2 ^ 2) (y2 * Z2 ^ 3) Z2).2.2 ^ 3 ∧
    (addGen (x1 * Z1 ^ 2) (y1 * Z1 ^ 3) Z1 (x2 * Z2 ^ 2) (y2 * Z2 ^ 3) Z2).2.2
      = 2 * Z1 * Z2 * ((x2 - x1) * Z1 ^ 2 * Z2 ^ 2) := by
  obtain rfl : y1 = y2 + ℓ * (x1 - x2) := by linear_combination -hℓ
  simp only [addGen]
  refine ⟨by ring, by ring, by ring⟩

variable [DecidableEq F]

/-! ### The representation theorems -/

variable {b : F}

/-- **S2, doubling**: `dblF` of a representative of `Q` represents `Q + Q`; when `y = 0` the result
has `Z₃ = 0`, which is correct because then `2·(x, 0) = 0`. -/
theorem rep_dbl (h2 : (2 : F) ≠ 0) {X Y Z : F} {Q : (curve b).Point} (hQ : Rep (curve b) X Y Z Q) :
    Rep3 (curve b) (dblF X Y Z) (Q + Q) := by
  rcases hQ with ⟨rfl, rfl⟩ | ⟨hZ, x, y, h, rfl, rfl, rfl⟩
  · left; exact ⟨by simp [dblF], by simp⟩
  · by_cases hy : y = 0
    · left
      subst hy
      refine ⟨by simp [dblF], ?_⟩
      exact Point.add_self_of_Y_eq (by rw [curve_negY]; simp)
    · have hy' : y ≠ (curve b).negY x y := by
        rw [curve_negY]
        intro h'
        have : 2 * y = 0 := by linear_combination h'
        rcases mul_eq_zero.1 this with h | h
        · exact h2 h
        · exact hy h
      have hℓ : (curve b).slope x x y y * (2 * y) = 3 * x ^ 2 := by
        rw [slope_of_Y_ne rfl hy', curve_negY]
        simp only [curve_a₁, curve_a₂, curve_a₄, zero_mul, mul_zero, add_zero, sub_zero,
          sub_neg_eq_add]
        rw [← two_mul, div_mul_cancel₀ _ (mul_ne_zero h2 hy)]
      obtain ⟨e1, e2, e3⟩ := dblF_alg x y Z _ hℓ
      right
      refine ⟨?_, _, _, _, ?_, ?_, Point.add_self_of_Y_ne hy'⟩
      · rw [e3]; exact mul_ne_zero (mul_ne_zero h2 hy) (pow_ne_zero 4 hZ)
      · rw [curve_addX]; exact e1
      · rw [curve_addY]; exact e2

/-- **S2, addition**: `addF` of representatives of `Q₁`, `Q₂` represents `Q₁ + Q₂`, in every case:
either input at infinity, `Q₁ = Q₂` (doubling branch), `Q₁ = -Q₂` (`Z₃ = 0`), and the general case. -/
theorem rep_add (h2 : (2 : F) ≠ 0) {X1 Y1 Z1 X2 Y2 Z2 : F} {Q1 Q2 : (curve b).Point}
    (hQ1 : Rep (curve b) X1 Y1 Z1 Q1) (hQ2 : Rep (curve b) X2 Y2 Z2 Q2) :
    Rep3 (curve b) (addF X1 Y1 Z1 X2 Y2 Z2) (Q1 + Q2) := by
  rcases hQ1 with ⟨rfl, rfl⟩ | ⟨hZ1, x1, y1, h1, rfl, rfl, rfl⟩
  · rw [addF_zero_left, zero_add]; exact hQ2
  rcases hQ2 with ⟨rfl, rfl⟩ | ⟨hZ2, x2, y2, h2', rfl, rfl, rfl⟩
  · rw [addF_zero_right _ _ _ _ _ hZ1, add_zero]
    exact Or.inr ⟨hZ1, x1, y1, h1, rfl, rfl, rfl⟩
  have eH : x2 * Z2 ^ 2 * (Z1 * Z1) - x1 * Z1 ^ 2 * (Z2 * Z2) = (x2 - x1) * (Z1 ^ 2 * Z2 ^ 2) := by
    ring
  have eR : y2 * Z2 ^ 3 * Z1 * (Z1 * Z1) - y1 * Z1 ^ 3 * Z2 * (Z2 * Z2)
      = (y2 - y1) * (Z1 ^ 3 * Z2 ^ 3) := by ring
  have hZZ2 : Z1 ^ 2 * Z2 ^ 2 ≠ 0 := mul_ne_zero (pow_ne_zero 2 hZ1) (pow_ne_zero 2 hZ2)
  have hZZ3 : Z1 ^ 3 * Z2 ^ 3 ≠ 0 := mul_ne_zero (pow_ne_zero 3 hZ1) (pow_ne_zero 3 hZ2)
  by_cases hx : x1 = x2
  · subst hx
    by_cases hy : y1 = y2
    · subst hy
      rw [addF_double hZ1 hZ2 (by rw [eH]; simp) (by rw [eR]; simp)]
      exact rep_dbl h2 (Or.inr ⟨hZ1, x1, y1, h1, rfl, rfl, rfl⟩)
    · have hneg : y1 = (curve b).negY x1 y2 := (Y_eq_of_X_eq h1.1 h2'.1 rfl).resolve_left hy
      have hc : ¬(x1 * Z2 ^ 2 * (Z1 * Z1) - x1 * Z1 ^ 2 * (Z2 * Z2) = 0 ∧
          y2 * Z2 ^ 3 * Z1 * (Z1 * Z1) - y1 * Z1 ^ 3 * Z2 * (Z2 * Z2) = 0) := by
        rintro ⟨-, hr⟩
        rw [eR] at hr
        rcases mul_eq_zero.1 hr with h | h
        · exact hy (sub_eq_zero.1 h).symm
        · exact hZZ3 h
      rw [addF_general hZ1 hZ2 hc]
      left
      refine ⟨?_, Point.add_of_Y_eq rfl hneg⟩
      simp only [addGen]; ring
  · have hc : ¬(x2 * Z2 ^ 2 * (Z1 * Z1) - x1 * Z1 ^ 2 * (Z2 * Z2) = 0 ∧
        y2 * Z2 ^ 3 * Z1 * (Z1 * Z1) - y1 * Z1 ^ 3 * Z2 * (Z2 * Z2) = 0) := by
      rintro ⟨hh, -⟩
      rw [eH] at hh
      rcases mul_eq_zero.1 hh with h | h
      · exact hx (sub_eq_zero.1 h).symm
      · exact hZZ2 h
    rw [addF_general hZ1 hZ2 hc]
    have hℓ : (curve b).slope x1 x2 y1 y2 * (x1 - x2) = y1 - y2 := by
      rw [slope_of_X_ne hx, div_mul_cancel₀ _ (sub_ne_zero.2 hx)]
    obtain ⟨e1, e2, e3⟩ := addGen_alg x1 y1 x2 y2 Z1 Z2 _ hℓ
    right
    refine ⟨?_, _, _, _, ?_, ?_, Point.add_of_X_ne hx⟩
    · rw [e3]
      exact mul_ne_zero (mul_ne_zero (mul_ne_zero h2 hZ1) hZ2)
        (mul_ne_zero (mul_ne_zero (sub_ne_zero.2 (Ne.symm hx)) (pow_ne_zero 2 hZ1))
          (pow_ne_zero 2 hZ2))
    · rw [curve_addX]; exact e1
    · rw [curve_addY]; exact e2

end Iota.Proofs.Secp
