/- `base32.Encode` is BIP-173's 8→5 regrouping with zero padding (`Spec.Bip173.to5`). -/
import Iota.Proofs.Base32
import Iota.Spec.Bip173

namespace Iota.Proofs.Base32
open Iota.Bech32 Iota.Spec.Bip173

theorem digits_split (a : Nat) : ∀ (b A R : Nat), R < 32 ^ b →
    digits32 (a + b) (A * 32 ^ b + R) = digits32 a A ++ digits32 b R := by
  intro b
  induction b with
  | zero => intro A R hR; simp at hR; subst hR; simp [digits32]
  | succ b ih =>
    intro A R hR
    have e1 : (A * 32 ^ (b + 1) + R) / 32 = A * 32 ^ b + R / 32 := by
      rw [Nat.pow_succ, ← Nat.mul_assoc]; omega
    have e2 : (A * 32 ^ (b + 1) + R) % 32 = R % 32 := by
      rw [Nat.pow_succ, ← Nat.mul_assoc]; omega
    have hR' : R / 32 < 32 ^ b := by rw [Nat.pow_succ] at hR; omega
    rw [← Nat.add_assoc]
    simp only [digits32, e1, e2, ih A (R / 32) hR', List.append_assoc]

theorem valBE_foldl (acc : Nat) (bs : List UInt8) :
    List.foldl (fun acc (b : UInt8) => acc * 256 + b.toNat) acc bs = acc * 256 ^ bs.length + valBE bs := by
  induction bs generalizing acc with
  | nil => simp [valBE]
  | cons b bs ih =>
    simp only [List.foldl_cons, List.length_cons, valBE]
    rw [ih, ih (0 * 256 + b.toNat), Nat.pow_succ]
    simp [Nat.add_mul, Nat.mul_assoc, Nat.mul_comm 256]
    omega

theorem valBE_append (bs cs : List UInt8) : valBE (bs ++ cs) = valBE bs * 256 ^ cs.length + valBE cs := by
  unfold valBE
  rw [List.foldl_append, valBE_foldl]
  rfl

theorem valBE_lt (bs : List UInt8) : valBE bs < 256 ^ bs.length := by
  induction bs using List.reverseRecOn' with
  | nil => simp [valBE]
  | snoc bs b ih =>
    rw [valBE_append]
    simp only [List.length_append, List.length_cons, List.length_nil, Nat.pow_succ, Nat.pow_zero]
    have : valBE [b] = b.toNat := by simp [valBE]
    have := b.toNat_lt
    omega
where
  List.reverseRecOn' {α} {motive : List α → Prop} (l : List α) (nil : motive [])
      (snoc : ∀ l a, motive l → motive (l ++ [a])) : motive l := by
    have : ∀ r : List α, motive r.reverse := by
      intro r
      induction r with
      | nil => exact nil
      | cons a r ih => rw [List.reverse_cons]; exact snoc _ _ ih
    have h := this l.reverse
    rwa [List.reverse_reverse] at h

theorem ofNat_toNat (n : Nat) (h : n < 256) : (UInt8.ofNat n).toNat = n := by
  simp [UInt8.toNat_ofNat']; omega

theorem valBE_5 (b0 b1 b2 b3 b4 : UInt8) : valBE [b0, b1, b2, b3, b4] =
    (((b0.toNat * 256 + b1.toNat) * 256 + b2.toNat) * 256 + b3.toNat) * 256 + b4.toNat := by
  simp [valBE]

theorem block_spec (b0 b1 b2 b3 b4 : UInt8) :
    digits32 8 (valBE [b0, b1, b2, b3, b4]) = encQuantum [b0, b1, b2, b3, b4] := by
  rw [encQuantum_5, valBE_5]
  have h0 := b0.toNat_lt; have h1 := b1.toNat_lt; have h2 := b2.toNat_lt
  have h3 := b3.toNat_lt; have h4 := b4.toNat_lt
  simp only [digits32, List.nil_append, List.cons_append, List.cons.injEq, and_true]
  refine ⟨?_, ?_, ?_, ?_, ?_, ?_, ?_, ?_⟩ <;> apply u8_eq <;> rw [ofNat_toNat _ (by omega)]
  · rw [e0_nat]; omega
  · rw [e1_nat]; omega
  · rw [e2_nat]; omega
  · rw [e3_nat]; omega
  · rw [e4_nat]; omega
  · rw [e5_nat]; omega
  · rw [e6_nat]; omega
  · rw [e7_nat]; omega

theorem pow256 (m : Nat) : 256 ^ m = 2 ^ (8 * m) := by
  rw [Nat.pow_mul]
theorem pow32 (k : Nat) : 32 ^ k = 2 ^ (5 * k) := by
  rw [Nat.pow_mul]

/-- (S1) `base32.Encode` = BIP-173 `convertbits(8→5, pad)`, for every byte string. -/
theorem b32Encode_eq_to5 (bs : List UInt8) : b32Encode bs = to5 bs := by
  fun_induction b32Encode bs with
  | case1 => simp [to5, symCount, digits32]
  | case2 b0 b1 b2 b3 b4 rest ih =>
    rw [ih, ← block_spec]
    unfold to5
    have hlen : (b0 :: b1 :: b2 :: b3 :: b4 :: rest).length = 5 + rest.length := by simp; omega
    have hk : symCount (5 + rest.length) = 8 + symCount rest.length := by unfold symCount; omega
    have hle : 8 * rest.length ≤ 5 * symCount rest.length := by unfold symCount; omega
    have hpad : 5 * (8 + symCount rest.length) - 8 * (5 + rest.length)
        = 5 * symCount rest.length - 8 * rest.length := by omega
    have hval : valBE (b0 :: b1 :: b2 :: b3 :: b4 :: rest) =
        valBE [b0, b1, b2, b3, b4] * 256 ^ rest.length + valBE rest :=
      valBE_append [b0, b1, b2, b3, b4] rest
    rw [hlen, hk, hpad, hval, Nat.add_mul, Nat.mul_assoc]
    have hpow : 256 ^ rest.length * 2 ^ (5 * symCount rest.length - 8 * rest.length)
        = 32 ^ symCount rest.length := by
      rw [pow256, pow32, ← Nat.pow_add]; congr 1; omega
    rw [hpow]
    symm
    apply digits_split
    rw [← hpow]
    exact Nat.mul_lt_mul_of_lt_of_le (valBE_lt rest) (Nat.le_refl _) (Nat.pow_pos (by omega))
  | case3 tail hne h5 =>
    match tail, hne, h5 with
    | [], hne, _ => exact absurd rfl hne
    | [b0], _, _ =>
      rw [encQuantum_1]
      have h0 := b0.toNat_lt
      simp only [to5, symCount, valBE, List.length_cons, List.length_nil, List.foldl_cons, List.foldl_nil,
        digits32, List.nil_append, List.cons_append, List.cons.injEq, and_true]
      refine ⟨?_, ?_⟩ <;> apply u8_eq <;> rw [ofNat_toNat _ (by omega)]
      · rw [e0_nat]; omega
      · rw [e1_nat, zero_toNat]; omega
    | [b0, b1], _, _ =>
      rw [encQuantum_2]
      have h0 := b0.toNat_lt; have h1 := b1.toNat_lt
      simp only [to5, symCount, valBE, List.length_cons, List.length_nil, List.foldl_cons, List.foldl_nil,
        digits32, List.nil_append, List.cons_append, List.cons.injEq, and_true]
      refine ⟨?_, ?_, ?_, ?_⟩ <;> apply u8_eq <;> rw [ofNat_toNat _ (by omega)]
      · rw [e0_nat]; omega
      · rw [e1_nat]; omega
      · rw [e2_nat]; omega
      · rw [e3_nat, zero_toNat]; omega
    | [b0, b1, b2], _, _ =>
      rw [encQuantum_3]
      have h0 := b0.toNat_lt; have h1 := b1.toNat_lt; have h2 := b2.toNat_lt
      simp only [to5, symCount, valBE, List.length_cons, List.length_nil, List.foldl_cons, List.foldl_nil,
        digits32, List.nil_append, List.cons_append, List.cons.injEq, and_true]
      refine ⟨?_, ?_, ?_, ?_, ?_⟩ <;> apply u8_eq <;> rw [ofNat_toNat _ (by omega)]
      · rw [e0_nat]; omega
      · rw [e1_nat]; omega
      · rw [e2_nat]; omega
      · rw [e3_nat]; omega
      · rw [e4_nat, zero_toNat]; omega
    | [b0, b1, b2, b3], _, _ =>
      rw [encQuantum_4]
      have h0 := b0.toNat_lt; have h1 := b1.toNat_lt; have h2 := b2.toNat_lt; have h3 := b3.toNat_lt
      simp only [to5, symCount, valBE, List.length_cons, List.length_nil, List.foldl_cons, List.foldl_nil,
        digits32, List.nil_append, List.cons_append, List.cons.injEq, and_true]
      refine ⟨?_, ?_, ?_, ?_, ?_, ?_, ?_⟩ <;> apply u8_eq <;> rw [ofNat_toNat _ (by omega)]
      · rw [e0_nat]; omega
      · rw [e1_nat]; omega
      · rw [e2_nat]; omega
      · rw [e3_nat]; omega
      · rw [e4_nat]; omega
      · rw [e5_nat]; omega
      · rw [e6_nat, zero_toNat]; omega
    | b0 :: b1 :: b2 :: b3 :: b4 :: rest, _, h5 => exact absurd rfl (h5 b0 b1 b2 b3 b4 rest)

end Iota.Proofs.Base32
