/-
C17: `pkg/slip10/btccurve/secp256k1.go` (model `Iota.Secp256k1`) computes in the group of
secp256k1.  The one assumption is that `P` is prime, as `[Fact (Nat.Prime P.toNat)]`; `Fp = ZMod P`,
`E : y² = x³ + 7` over `Fp`, and `E.Point` is Mathlib's `WeierstrassCurve.Affine.Point` with its
`AddCommGroup` structure.

* S0 `modInverse` – `Iota/Proofs/Secp/ModInv.lean`
* S1 cast layer  – `Iota/Proofs/Secp/Cast.lean` (any field of characteristic `P`)
* S2 Jacobian formulas vs. the group law – `Iota/Proofs/Secp/Jacobian.lean` (any field, `2 ≠ 0`)
* S3 the API – `Iota/Proofs/Secp/Api.lean` (any field of characteristic `P`); restated here for `Fp`.
-/
import Iota.Proofs.Secp.ModInv
import Iota.Proofs.Secp.Formulas
import Iota.Proofs.Secp.Cast
import Iota.Proofs.Secp.Jacobian
import Iota.Proofs.Secp.Api
import Mathlib.Algebra.Field.ZMod
import Mathlib.Data.ZMod.Basic

namespace Iota.Proofs.Secp
open Iota.Secp256k1 WeierstrassCurve.Affine

/-- the prime field of secp256k1 -/
abbrev Fp : Type := ZMod P.toNat

variable [Fact (Nat.Prime P.toNat)]

/-- secp256k1 over `Fp` -/
noncomputable abbrev Curve : WeierstrassCurve.Affine Fp := E Fp

/-- the point denoted by a pair of the model (`none` when not representable) -/
noncomputable abbrev toPoint (xy : Int × Int) : Option Curve.Point := toPoint? Fp xy

/-- `toPoint` spelled out: `(0,0) ↦ 0`; reduced on-curve `(x,y) ↦ Point.some x y`; else `none`. -/
theorem toPoint_eq_some_iff (x y : Int) (Q : Curve.Point) :
    toPoint (x, y) = some Q ↔
      (x = 0 ∧ y = 0 ∧ Q = 0) ∨
      ((0 ≤ x ∧ x < P) ∧ (0 ≤ y ∧ y < P) ∧
        ∃ h : Curve.Nonsingular (x : Fp) (y : Fp), Q = Point.some _ _ h) :=
  toPoint?_eq_some_iff x y Q

/-- the domain of `toPoint`: `(0,0)` or on the curve with coordinates in `[0, P)` -/
theorem toPoint_isSome_iff (x y : Int) :
    (∃ Q, toPoint (x, y) = some Q) ↔
      (x = 0 ∧ y = 0) ∨ ((0 ≤ x ∧ x < P) ∧ (0 ≤ y ∧ y < P) ∧ isOnCurve x y = true) :=
  (representable_iff (F := Fp) x y).symm

/-- the identity is returned as `(0,0)` and only so -/
theorem toPoint_eq_zero_iff (x y : Int) : toPoint (x, y) = some 0 ↔ x = 0 ∧ y = 0 := by
  rw [toPoint, toPoint?_eq_some_iff]; exact AffRep.zero_iff

/-- `toPoint` is injective on its domain: results of the API are determined by the group element -/
theorem toPoint_inj {x y x' y' : Int} {Q : Curve.Point} (h : toPoint (x, y) = some Q)
    (h' : toPoint (x', y') = some Q) : x = x' ∧ y = y' := by
  rw [toPoint, toPoint?_eq_some_iff] at h h'; exact AffRep.inj h h'

/-- **S3 `isOnCurve`** for all integers: the equation `y² = x³ + 7` in `Fp`; hence for
`0 ≤ x, y < P` exactly the affine solutions. -/
theorem isOnCurve_correct (x y : Int) : isOnCurve x y = true ↔ (y : Fp) ^ 2 = (x : Fp) ^ 3 + 7 :=
  isOnCurve_iff x y

theorem isOnCurve_iff_mem (x y : Int) : isOnCurve x y = true ↔ Curve.Equation (x : Fp) (y : Fp) :=
  isOnCurve_iff_equation x y

omit [Fact (Nat.Prime P.toNat)] in
theorem isOnCurve_zero : isOnCurve 0 0 = false := not_isOnCurve_zero

/-- **S3 `add`** -/
theorem add_spec {x1 y1 x2 y2 : Int} {Q1 Q2 : Curve.Point}
    (h1 : toPoint (x1, y1) = some Q1) (h2 : toPoint (x2, y2) = some Q2) :
    ∃ x3 y3, add x1 y1 x2 y2 = some (x3, y3) ∧ toPoint (x3, y3) = some (Q1 + Q2) :=
  add_correct h1 h2

/-- **S3 `double`** -/
theorem double_spec {x y : Int} {Q : Curve.Point} (h : toPoint (x, y) = some Q) :
    ∃ x3 y3, double x y = some (x3, y3) ∧ toPoint (x3, y3) = some (Q + Q) :=
  double_correct h

/-- **S3 `scalarMult`**: every byte string, every representable base point (including `(0,0)`). -/
theorem scalarMult_spec {x y : Int} {Q : Curve.Point} (h : toPoint (x, y) = some Q)
    (k : List UInt8) :
    ∃ x' y', scalarMult x y k = some (x', y') ∧ toPoint (x', y') = some (beNat k • Q) :=
  scalarMult_correct h k

/-- **S3 `scalarBaseMult`** -/
theorem scalarBaseMult_spec (k : List UInt8) :
    ∃ x' y', scalarBaseMult k = some (x', y') ∧ toPoint (x', y') = some (beNat k • G Fp) :=
  scalarBaseMult_correct k

theorem toPoint_G : toPoint (Gx, Gy) = some (G Fp) := toPoint?_G

/-- outputs have coordinates in `[0, P)` -/
theorem toPoint_range {x y : Int} {Q : Curve.Point} (h : toPoint (x, y) = some Q) :
    (0 ≤ x ∧ x < P) ∧ (0 ≤ y ∧ y < P) := by
  rw [toPoint, toPoint?_eq_some_iff] at h; exact h.red

end Iota.Proofs.Secp

