/-
The committed official BIP-39 lists have 2048 pairwise distinct words each.
Distinctness is checked inside the kernel on injective numeric keys, bucketed by residue so that the
quadratic comparison stays small.
-/
import Iota.Spec.Bip39Words

namespace Iota.Proofs.WordLists
open Iota.Spec.Bip39Words

def key (w : List UInt8) : Nat := w.foldl (fun acc b => acc * 257 + (b.toNat + 1)) 0

theorem key_snoc (w : List UInt8) (b : UInt8) : key (w ++ [b]) = key w * 257 + (b.toNat + 1) := by
  simp [key, List.foldl_append]

theorem revInd {α} {motive : List α → Prop} (l : List α) (nil : motive [])
    (snoc : ∀ l a, motive l → motive (l ++ [a])) : motive l := by
  have : ∀ r : List α, motive r.reverse := by
    intro r
    induction r with
    | nil => exact nil
    | cons a r ih => rw [List.reverse_cons]; exact snoc _ _ ih
  have h := this l.reverse
  rwa [List.reverse_reverse] at h

theorem key_inj (a : List UInt8) : ∀ b, key a = key b → a = b := by
  induction a using revInd with
  | nil =>
    intro b
    induction b using revInd with
    | nil => intro _; rfl
    | snoc ys y _ => intro h; rw [key_snoc] at h; simp [key] at h
  | snoc xs x ih =>
    intro b
    induction b using revInd with
    | nil => intro h; rw [key_snoc] at h; simp [key] at h
    | snoc ys y _ =>
      intro h
      rw [key_snoc, key_snoc] at h
      have hx := x.toNat_lt; have hy := y.toNat_lt
      have h1 : x.toNat = y.toNat := by omega
      have h2 : key xs = key ys := by omega
      rw [ih ys h2, UInt8.toNat_inj.mp h1]

def notIn (x : Nat) : List Nat → Bool
  | [] => true
  | y :: ys => if x == y then false else notIn x ys

def allDistinct : List Nat → Bool
  | [] => true
  | x :: xs => notIn x xs && allDistinct xs

theorem notIn_iff (x : Nat) (l : List Nat) : notIn x l = true ↔ x ∉ l := by
  induction l with
  | nil => simp [notIn]
  | cons y ys ih =>
    simp only [notIn, List.mem_cons, not_or]
    by_cases h : x = y
    · simp [h]
    · simp [h, ih]

def bucketsDistinct (B : Nat) (ks : List Nat) : Bool :=
  (List.range B).all fun r => allDistinct (ks.filter fun k => k % B == r)

theorem nodup_of_filters (B : Nat) (hB : 0 < B) (ks : List Nat)
    (h : ∀ r, r < B → allDistinct (ks.filter fun k => k % B == r) = true) : ks.Nodup := by
  induction ks with
  | nil => exact List.nodup_nil
  | cons x xs ih =>
    rw [List.nodup_cons]
    constructor
    · intro hmem
      have hr := h (x % B) (Nat.mod_lt _ hB)
      have hx : (x % B == x % B) = true := by simp
      simp only [List.filter_cons, hx, if_true] at hr
      simp only [allDistinct, Bool.and_eq_true] at hr
      have := (notIn_iff x _).mp hr.1
      exact this (List.mem_filter.mpr ⟨hmem, hx⟩)
    · apply ih
      intro r hr
      have := h r hr
      by_cases hx : (x % B == r) = true
      · simp only [List.filter_cons, hx, if_true] at this
        simp only [allDistinct, Bool.and_eq_true] at this
        exact this.2
      · simp only [List.filter_cons, hx] at this
        exact this

theorem nodup_of_buckets (B : Nat) (hB : 0 < B) (ws : List (List UInt8))
    (h : bucketsDistinct B (ws.map key) = true) : ws.Nodup := by
  have hk : (ws.map key).Nodup := by
    apply nodup_of_filters B hB
    intro r hr
    unfold bucketsDistinct at h
    rw [List.all_eq_true] at h
    exact h r (List.mem_range.mpr hr)
  exact List.Pairwise.of_map key (fun a b h hab => h (congrArg key hab)) hk

theorem english_length : english.length = 2048 := by decide +kernel
theorem japanese_length : japanese.length = 2048 := by decide +kernel
theorem english_nodup : english.Nodup := nodup_of_buckets 32 (by omega) english (by decide +kernel)
theorem japanese_nodup : japanese.Nodup := nodup_of_buckets 32 (by omega) japanese (by decide +kernel)

end Iota.Proofs.WordLists
