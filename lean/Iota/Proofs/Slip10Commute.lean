/-
C08 at the level of the API: for an extended private key on a Weierstrass curve and a non-hardened index,
`DeriveChild` followed by `Public` and `Public` followed by `DeriveChild` return the same thing — the same
error after the same number of retries, or the same key, chain code and fingerprint.

One field differs by construction and is not observable: Go's `ExtendedKey.Public` copies the unexported
`parent` as it is (the parent's PRIVATE key), while `DeriveChild` on the public parent remembers the parent's
PUBLIC key.  `parent` is read by `Fingerprint` only, and only through `parent.Public().Bytes()`, so the
statement is made with `parent` made public on the left (`pubView`), and separately on everything
observable (`observe`: key, key bytes, chain code, fingerprint).
-/
import Iota.Proofs.Slip10
import Iota.Proofs.Slip10Shift
import Iota.Proofs.Slip10Spec
import Iota.Proofs.Secp.Slip10Instance

namespace Iota.Proofs.Slip10Commute
open Iota.Slip10 Iota.Proofs.Slip10Shift

/-- `ExtendedKey.Public` with the remembered parent key made public as well. -/
def pubView {κ : Type} (c : Curve κ) (e : ExtKey κ) : ExtKey κ :=
  { chainCode := e.chainCode, key := c.pub e.key, parent := e.parent.map c.pub }

/-- everything the API shows of an extended key: `Key`, `Key.Bytes()`, `ChainCode`, `Fingerprint()`. -/
def observe {κ : Type} (c : Curve κ) (hash160 : Bytes → Bytes) (e : ExtKey κ) : κ × Bytes × Bytes × Bytes :=
  (e.key, c.bytes e.key, e.chainCode, fingerprint c hash160 e)

/-- `pubView` and `ExtendedKey.Public` show the same, when `Public` of a public key is itself. -/
theorem observe_pubView {κ : Type} (c : Curve κ) (hpp : ∀ k, c.pub (c.pub k) = c.pub k)
    (hash160 : Bytes → Bytes) (e : ExtKey κ) :
    observe c hash160 (pubView c e) = observe c hash160 (ExtKey.public c e) := by
  cases e with
  | mk cc key parent =>
    cases parent with
    | none => rfl
    | some p => simp [observe, pubView, ExtKey.public, fingerprint, hpp]

theorem wCurve_pub_pub {Pt : Type} (w : WCurve Pt) (hk : Bytes) (k : WKey Pt) :
    (wCurve w hk).pub ((wCurve w hk).pub k) = (wCurve w hk).pub k := by
  cases k <;> rfl

section
variable {Pt : Type} [AddCommGroup Pt] (hmac : Bytes → Bytes → Bytes)

/-- the two `step2` loops run in lock-step from the same candidate: both reject it (and continue with the same
next candidate), or both accept it with matching keys. -/
theorem childLoop_public_commutes (w : WCurve Pt) (g : Pt) (hw : LawfulW w g) (hk : Bytes) (cpar : Bytes)
    (k : Nat) (hk0 : 0 < k) (hkn : k < w.n) (hn : w.n < 256 ^ 40) (par par' : Option (WKey Pt)) (i fuel : Nat)
    (I : Bytes) :
    (childLoop hmac (wCurve w hk) { chainCode := cpar, key := .priv k, parent := par } i fuel I).map
        (pubView (wCurve w hk)) =
      childLoop hmac (wCurve w hk)
        { chainCode := cpar, key := (wCurve w hk).pub (.priv k), parent := par' } i fuel I := by
  induction fuel generalizing I with
  | zero => rfl
  | succ fuel ih =>
    have hs := shift_commutes w g hw hk k hk0 hkn hn (I.take 32)
    simp only at hs
    by_cases hv : beNat (I.take 32) ≥ w.n ∨ (beNat (I.take 32) + k) % w.n = 0
    · obtain ⟨h1, h2⟩ := hs.1 hv
      simp only [childLoop, h1, h2]
      exact ih _
    · obtain ⟨k', q, h1, h2, _, _, h5⟩ := hs.2 hv
      simp only [childLoop, h1, h2]
      show Except.ok (pubView (wCurve w hk) _) = _
      simp only [pubView, h5, Option.map_some]

/-- **C08, API level**: for an extended private key `e` with key `0 < k < n` and a non-hardened index `i`,
and for every fuel, `DeriveChild(i)` then `Public` equals `Public` then `DeriveChild(i)` as `Except` values:
the same error (in particular `.outOfFuel` for the same fuel, i.e. the same number of retries), or the same
key and chain code, with the parent's public key remembered. -/
theorem deriveChild_public_commutes (w : WCurve Pt) (g : Pt) (hw : LawfulW w g) (hk : Bytes)
    (e : ExtKey (WKey Pt)) (k : Nat) (hek : e.key = .priv k) (hk0 : 0 < k) (hkn : k < w.n)
    (hn : w.n < 256 ^ 40) (i : Nat) (hi : i < hardened) (fuel : Nat) :
    (deriveChild hmac (wCurve w hk) fuel e i).map (pubView (wCurve w hk)) =
      deriveChild hmac (wCurve w hk) fuel (ExtKey.public (wCurve w hk) e) i := by
  cases e with
  | mk cc key parent =>
    simp only at hek
    subst hek
    rw [Iota.Proofs.Slip10.deriveChild_normal hmac _ fuel _ i hi rfl,
      Iota.Proofs.Slip10.deriveChild_normal hmac _ fuel _ i hi rfl]
    exact childLoop_public_commutes hmac w g hw hk cc k hk0 hkn hn parent parent i fuel _

/-- … hence everything observable agrees: key, key bytes (`serP`), chain code and fingerprint of
`Public(DeriveChild(e, i))` and of `DeriveChild(Public(e), i)`; and the errors. -/
theorem deriveChild_public_commutes_observable (w : WCurve Pt) (g : Pt) (hw : LawfulW w g) (hk : Bytes)
    (hash160 : Bytes → Bytes) (e : ExtKey (WKey Pt)) (k : Nat) (hek : e.key = .priv k) (hk0 : 0 < k)
    (hkn : k < w.n) (hn : w.n < 256 ^ 40) (i : Nat) (hi : i < hardened) (fuel : Nat) :
    (deriveChild hmac (wCurve w hk) fuel e i).map
        (fun a => observe (wCurve w hk) hash160 (ExtKey.public (wCurve w hk) a)) =
      (deriveChild hmac (wCurve w hk) fuel (ExtKey.public (wCurve w hk) e) i).map
        (observe (wCurve w hk) hash160) := by
  rw [← deriveChild_public_commutes hmac w g hw hk e k hek hk0 hkn hn i hi fuel]
  cases deriveChild hmac (wCurve w hk) fuel e i with
  | error x => rfl
  | ok a =>
    show Except.ok _ = Except.ok _
    rw [observe_pubView _ (wCurve_pub_pub w hk)]

/-- the same error on both sides. -/
theorem deriveChild_public_error_iff (w : WCurve Pt) (g : Pt) (hw : LawfulW w g) (hk : Bytes)
    (e : ExtKey (WKey Pt)) (k : Nat) (hek : e.key = .priv k) (hk0 : 0 < k) (hkn : k < w.n)
    (hn : w.n < 256 ^ 40) (i : Nat) (hi : i < hardened) (fuel : Nat) (x : Err) :
    deriveChild hmac (wCurve w hk) fuel e i = .error x ↔
      deriveChild hmac (wCurve w hk) fuel (ExtKey.public (wCurve w hk) e) i = .error x := by
  rw [← deriveChild_public_commutes hmac w g hw hk e k hek hk0 hkn hn i hi fuel]
  cases deriveChild hmac (wCurve w hk) fuel e i with
  | error y => exact Iff.rfl
  | ok a => exact ⟨fun h => (by cases h), fun h => (by cases h)⟩

/-- both succeed together, with the same key, chain code, key bytes and fingerprint. -/
theorem deriveChild_public_ok (w : WCurve Pt) (g : Pt) (hw : LawfulW w g) (hk : Bytes)
    (hash160 : Bytes → Bytes) (e : ExtKey (WKey Pt)) (k : Nat) (hek : e.key = .priv k) (hk0 : 0 < k)
    (hkn : k < w.n) (hn : w.n < 256 ^ 40) (i : Nat) (hi : i < hardened) (fuel : Nat) (a : ExtKey (WKey Pt))
    (ha : deriveChild hmac (wCurve w hk) fuel e i = .ok a) :
    ∃ b, deriveChild hmac (wCurve w hk) fuel (ExtKey.public (wCurve w hk) e) i = .ok b ∧
      b.key = (ExtKey.public (wCurve w hk) a).key ∧
      b.chainCode = (ExtKey.public (wCurve w hk) a).chainCode ∧
      (wCurve w hk).bytes b.key = (wCurve w hk).bytes (ExtKey.public (wCurve w hk) a).key ∧
      fingerprint (wCurve w hk) hash160 b =
        fingerprint (wCurve w hk) hash160 (ExtKey.public (wCurve w hk) a) := by
  have h := deriveChild_public_commutes hmac w g hw hk e k hek hk0 hkn hn i hi fuel
  rw [ha] at h
  refine ⟨pubView (wCurve w hk) a, h.symm, rfl, rfl, rfl, ?_⟩
  have := observe_pubView (wCurve w hk) (wCurve_pub_pub w hk) hash160 a
  exact congrArg (fun t => t.2.2.2) this

end

/-! ### secp256k1 with its real `serP`, no group hypothesis -/

open Iota.Proofs.Secp Iota.Secp256k1 in
/-- `elliptic.MarshalCompressed` on a coordinate pair: `byte(y.Bit(0)) | 2`, then `x.FillBytes` into 32 bytes.
(Go 1.23: `panicIfNotOnCurve` lets `(0, 0)` — the point at infinity — pass, so that pair is encoded like any
other: `0x02` followed by 32 zero bytes.) -/
def sec1 (xy : Int × Int) : Bytes := (if xy.2 % 2 = 1 then 3 else 2) :: fill32 xy.1.toNat

open Iota.Proofs.Secp in
/-- `secpW` with `compress` = SEC1 compressed encoding of the canonical coordinates. -/
noncomputable def secpW' : WCurve Curve.Point :=
  { secpW with compress := fun p => sec1 (ofPoint p) }

open Iota.Proofs.Secp in
theorem secpW'_lawful : LawfulW secpW' (G Fp) where
  add_eq := secpW_lawful.add_eq
  baseMul_eq := secpW_lawful.baseMul_eq
  inf_iff := secpW_lawful.inf_iff
  order := secpW_lawful.order
  n_pos := secpW_lawful.n_pos

theorem sec1_length (xy : Int × Int) : (sec1 xy).length = 33 := by
  simp [sec1, fill32]

open Iota.Proofs.Secp in
theorem secpW'_compress_length (p : Curve.Point) : (secpW'.compress p).length = 33 := sec1_length _

open Iota.Proofs.Secp in
/-- the encoding of a finite point: parity byte, then the big-endian x coordinate. -/
theorem secpW'_compress_some (x y : Fp) (h : Curve.Nonsingular x y) :
    secpW'.compress (.some x y h) =
      (if (y.val : Int) % 2 = 1 then 3 else 2) :: fill32 x.val := rfl

open Iota.Proofs.Secp in
/-- … which is SLIP-0010's `serP` of the coordinates. -/
theorem secpW'_compress_eq_spec (x y : Fp) (h : Curve.Nonsingular x y) :
    secpW'.compress (.some x y h) = Spec.Slip10.serPxy x.val y.val := by
  rw [secpW'_compress_some, Spec.Slip10.serPxy, Slip10Spec.ser256_eq]
  congr 1
  by_cases hy : y.val % 2 = 0
  · have : ¬ ((y.val : Int) % 2 = 1) := by omega
    simp only [hy, this, if_true, if_false]
  · have : (y.val : Int) % 2 = 1 := by omega
    simp only [hy, this, if_true, if_false]

open Iota.Proofs.Secp in
/-- what `PublicKey.Bytes` would give for the point at infinity `(0, 0)`. -/
theorem secpW'_compress_zero : secpW'.compress 0 = 2 :: List.replicate 32 0 := by
  show sec1 (ofPoint 0) = _
  rw [ofPoint_zero]
  decide

open Iota.Proofs.Secp Iota.Secp256k1 in
/-- **C08 for secp256k1, API level, no assumption on the group**: the curve operations run the model of
pkg/slip10/elliptic/internal/btccurve, key bytes are SEC1-compressed. -/
theorem deriveChild_public_commutes_secp256k1 (hmac : Bytes → Bytes → Bytes) (hk : Bytes)
    (e : ExtKey (WKey Curve.Point)) (k : Nat) (hek : e.key = .priv k) (hk0 : 0 < k) (hkn : k < N.toNat)
    (i : Nat) (hi : i < hardened) (fuel : Nat) :
    (deriveChild hmac (wCurve secpW' hk) fuel e i).map (pubView (wCurve secpW' hk)) =
      deriveChild hmac (wCurve secpW' hk) fuel (ExtKey.public (wCurve secpW' hk) e) i :=
  deriveChild_public_commutes hmac secpW' (G Fp) secpW'_lawful hk e k hek hk0 hkn secpW_n_lt i hi fuel

open Iota.Proofs.Secp Iota.Secp256k1 in
theorem deriveChild_public_commutes_observable_secp256k1 (hmac : Bytes → Bytes → Bytes) (hk : Bytes)
    (hash160 : Bytes → Bytes) (e : ExtKey (WKey Curve.Point)) (k : Nat) (hek : e.key = .priv k)
    (hk0 : 0 < k) (hkn : k < N.toNat) (i : Nat) (hi : i < hardened) (fuel : Nat) :
    (deriveChild hmac (wCurve secpW' hk) fuel e i).map
        (fun a => observe (wCurve secpW' hk) hash160 (ExtKey.public (wCurve secpW' hk) a)) =
      (deriveChild hmac (wCurve secpW' hk) fuel (ExtKey.public (wCurve secpW' hk) e) i).map
        (observe (wCurve secpW' hk) hash160) :=
  deriveChild_public_commutes_observable hmac secpW' (G Fp) secpW'_lawful hk hash160 e k hek hk0 hkn
    secpW_n_lt i hi fuel

end Iota.Proofs.Slip10Commute
