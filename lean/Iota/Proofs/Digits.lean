/- Positional numerals: `n` digits of `x` in base `b`, most significant first. -/
namespace Iota.Proofs.Digits

def digs (b : Nat) : Nat → Nat → List Nat
  | 0, _ => []
  | n + 1, x => digs b n (x / b) ++ [x % b]

def undigs (b : Nat) (ds : List Nat) : Nat := ds.foldl (fun acc d => acc * b + d) 0

theorem digs_length (b n x : Nat) : (digs b n x).length = n := by
  induction n generalizing x with
  | zero => rfl
  | succ n ih => simp [digs, ih]

theorem digs_lt (b : Nat) (hb : 0 < b) (n x : Nat) : ∀ d ∈ digs b n x, d < b := by
  induction n generalizing x with
  | zero => intro d hd; simp [digs] at hd
  | succ n ih =>
    intro d hd
    simp only [digs, List.mem_append, List.mem_singleton] at hd
    rcases hd with hd | rfl
    · exact ih _ d hd
    · exact Nat.mod_lt _ hb

theorem foldl_acc (b acc : Nat) (ds : List Nat) :
    ds.foldl (fun acc d => acc * b + d) acc = acc * b ^ ds.length + undigs b ds := by
  induction ds generalizing acc with
  | nil => simp [undigs]
  | cons d ds ih =>
    simp only [List.foldl_cons, List.length_cons, undigs]
    rw [ih, ih (0 * b + d), Nat.pow_succ]
    simp only [Nat.zero_mul, Nat.zero_add, Nat.add_mul, Nat.mul_assoc, Nat.mul_comm b]
    omega

theorem undigs_append (b : Nat) (xs ys : List Nat) :
    undigs b (xs ++ ys) = undigs b xs * b ^ ys.length + undigs b ys := by
  unfold undigs
  rw [List.foldl_append, foldl_acc]
  rfl

theorem undigs_snoc (b : Nat) (xs : List Nat) (d : Nat) : undigs b (xs ++ [d]) = undigs b xs * b + d := by
  rw [undigs_append]; simp [undigs]

theorem undigs_digs (b n x : Nat) (hb : 0 < b) (hx : x < b ^ n) : undigs b (digs b n x) = x := by
  induction n generalizing x with
  | zero => simp at hx; subst hx; rfl
  | succ n ih =>
    simp only [digs]
    rw [undigs_snoc, ih (x / b)]
    · have := Nat.div_add_mod x b
      rw [Nat.mul_comm] at this; exact this
    · rw [Nat.pow_succ] at hx
      exact Nat.div_lt_of_lt_mul (by rw [Nat.mul_comm]; exact hx)

theorem undigs_lt (b : Nat) (ds : List Nat) (h : ∀ d ∈ ds, d < b) : undigs b ds < b ^ ds.length := by
  induction ds using List.reverseRec' with
  | nil => simp [undigs]
  | snoc xs d ih =>
    rw [undigs_snoc]
    have hd := h d (by simp)
    have := ih (fun x hx => h x (by simp [hx]))
    simp only [List.length_append, List.length_cons, List.length_nil, Nat.pow_succ]
    calc undigs b xs * b + d < undigs b xs * b + b := by omega
      _ = (undigs b xs + 1) * b := by rw [Nat.add_mul]; simp
      _ ≤ b ^ xs.length * b := Nat.mul_le_mul_right _ this
where
  List.reverseRec' {α} {motive : List α → Prop} (l : List α) (nil : motive [])
      (snoc : ∀ l a, motive l → motive (l ++ [a])) : motive l := by
    have : ∀ r : List α, motive r.reverse := by
      intro r
      induction r with
      | nil => exact nil
      | cons a r ih => rw [List.reverse_cons]; exact snoc _ _ ih
    have h := this l.reverse
    rwa [List.reverse_reverse] at h

theorem digs_undigs_snoc (b n : Nat) (hb : 0 < b) (xs : List Nat) (d : Nat) (hd : d < b) :
    digs b (n + 1) (undigs b (xs ++ [d])) = digs b n (undigs b xs) ++ [d] := by
  simp only [digs]
  rw [undigs_snoc]
  have h1 : (undigs b xs * b + d) / b = undigs b xs := by
    rw [Nat.mul_comm, Nat.mul_add_div hb, Nat.div_eq_of_lt hd]; simp
  have h2 : (undigs b xs * b + d) % b = d := by
    rw [Nat.mul_comm, Nat.mul_add_mod, Nat.mod_eq_of_lt hd]
  rw [h1, h2]

theorem digs_undigs (b : Nat) (hb : 0 < b) (ds : List Nat) (h : ∀ d ∈ ds, d < b) :
    digs b ds.length (undigs b ds) = ds := by
  induction ds using undigs_lt.List.reverseRec' with
  | nil => rfl
  | snoc xs d ih =>
    have hd := h d (by simp)
    have : (xs ++ [d]).length = xs.length + 1 := by simp
    rw [this, digs_undigs_snoc b _ hb xs d hd, ih (fun x hx => h x (by simp [hx]))]

/-- two digit strings of the same length with the same value are equal. -/
theorem undigs_inj (b : Nat) (hb : 0 < b) (xs ys : List Nat) (hl : xs.length = ys.length)
    (hx : ∀ d ∈ xs, d < b) (hy : ∀ d ∈ ys, d < b) (h : undigs b xs = undigs b ys) : xs = ys := by
  rw [← digs_undigs b hb xs hx, ← digs_undigs b hb ys hy, hl, h]

end Iota.Proofs.Digits
