/-
model = spec for SLIP-0010: the loops of `Iota.Model.Slip10` (pkg/slip10/slip10.go) and the keys of
pkg/slip10/elliptic and pkg/slip10/eddsa compute what `Iota.Spec.Slip10` prescribes.
-/
import Iota.Model.Slip10
import Iota.Spec.Slip10
import Iota.Proofs.Slip10
import Iota.Proofs.Slip10Shift

namespace Iota.Proofs.Slip10Spec
open Iota.Slip10
open Iota.Spec.Slip10 (parse256 serBE ser256 IL IR IsFirst masterI childI EC validMaster validPrivChild
  validPubChild dataPriv dataPub MasterAt CKDprivAt CKDpubAt XPriv fingerprintOf DerivesWithin PathKeyWithin
  edMaster edCKDpriv edSerP edCurveKey edFingerprintOf edDerive edPathKey)

/-! ### the serialisation functions of the spec are the model's -/

theorem foldl_eq_parse256 (b : Bytes) (acc : Nat) :
    b.foldl (fun acc x => acc * 256 + x.toNat) acc = acc * 256 ^ b.length + parse256 b := by
  induction b generalizing acc with
  | nil => simp [parse256]
  | cons x xs ih =>
    simp only [List.foldl_cons, ih, parse256, List.length_cons, Nat.pow_succ]
    rw [Nat.add_mul, Nat.mul_assoc, Nat.add_assoc, Nat.mul_comm 256]

/-- `parse256` is `new(big.Int).SetBytes`. -/
theorem parse256_eq_beNat (b : Bytes) : parse256 b = beNat b := by
  simp [beNat, foldl_eq_parse256]

/-- `ser32` is `uint32Bytes`. -/
theorem ser32_eq (i : Nat) : Spec.Slip10.ser32 i = ser32 i := by
  have h1 : i / 256 / 256 / 256 % 256 = i / 2 ^ 24 % 256 := by omega
  have h2 : i / 256 / 256 % 256 = i / 2 ^ 16 % 256 := by omega
  have h3 : i / 256 % 256 = i / 2 ^ 8 % 256 := by omega
  simp only [Spec.Slip10.ser32, serBE, ser32, List.nil_append, List.cons_append, h1, h2, h3]

theorem serBE_eq_map (len p : Nat) :
    serBE len p = (List.range len).map fun i => UInt8.ofNat (p / 256 ^ (len - 1 - i) % 256) := by
  induction len generalizing p with
  | zero => rfl
  | succ len ih =>
    rw [serBE, ih, List.range_succ, List.map_append]
    congr 1
    · apply List.map_congr_left
      intro i hi
      have hi : i < len := List.mem_range.1 hi
      rw [Nat.div_div_eq_div_mul, ← Nat.pow_succ']
      have : (len - 1 - i).succ = len + 1 - 1 - i := by omega
      rw [this]
    · simp

/-- `ser256` is `FillBytes` into 32 bytes. -/
theorem ser256_eq (p : Nat) : ser256 p = fill32 p := by
  rw [ser256, serBE_eq_map]; rfl

/-- `parse256 ∘ serBE len` is reduction mod `256^len`: `ser256` loses nothing below 2²⁵⁶, `ser32` nothing below 2³². -/
theorem parse256_serBE (len p : Nat) : parse256 (serBE len p) = p % 256 ^ len := by
  induction len generalizing p with
  | zero => simp [serBE, parse256, Nat.mod_one]
  | succ len ih =>
    rw [serBE, parse256_eq_beNat, Iota.Proofs.Slip10Shift.beNat_snoc, ← parse256_eq_beNat, ih,
      Nat.pow_succ', Nat.mod_mul]
    have : (UInt8.ofNat (p % 256)).toNat = p % 256 := by simp [UInt8.toNat_ofNat']
    rw [this]; omega

theorem parse256_ser256 (p : Nat) (h : p < 2 ^ 256) : parse256 (ser256 p) = p := by
  rw [ser256, parse256_serBE, Nat.mod_eq_of_lt]
  calc p < 2 ^ 256 := h
    _ = 256 ^ 32 := by decide

theorem length_serBE (len p : Nat) : (serBE len p).length = len := by
  induction len generalizing p with
  | zero => rfl
  | succ len ih => simp [serBE, ih]

/-! ### the two `goto` loops are one retry scheme -/

section retry
variable {β : Type} (next : Bytes → Bytes) (attempt : Bytes → Except KeyErr β)

/-- try the candidate; on ErrInvalidKey move to the next candidate; any other error is final. -/
def retry : Nat → Bytes → Except Err β
  | 0, _ => .error .outOfFuel
  | fuel + 1, I =>
    match attempt I with
    | .ok b => .ok b
    | .error .invalidKey => retry fuel (next I)
    | .error (.other x) => .error (.curve x)

/-- the `j`-th candidate. -/
def iter (I0 : Bytes) : Nat → Bytes
  | 0 => I0
  | j + 1 => next (iter I0 j)

theorem iter_shift (I0 : Bytes) (j : Nat) : iter next (next I0) j = iter next I0 (j + 1) := by
  induction j with
  | zero => rfl
  | succ j ih => simp only [iter, ih]

/-- rejected candidates are skipped, each costing one unit of fuel. -/
theorem retry_skip (I0 : Bytes) (j f : Nat)
    (h : ∀ m, m < j → attempt (iter next I0 m) = .error .invalidKey) :
    retry next attempt (j + f) I0 = retry next attempt f (iter next I0 j) := by
  induction j generalizing I0 with
  | zero => simp [iter]
  | succ j ih =>
    have h0 : attempt I0 = .error .invalidKey := h 0 (by omega)
    rw [show j + 1 + f = (j + f) + 1 by omega, retry, h0]
    simp only []
    rw [ih (next I0) (fun m hm => by rw [iter_shift]; exact h (m + 1) (by omega)), iter_shift]

/-- exactly one of: accepted at the first non-rejected candidate `j < fuel`; permanent error there;
or all `fuel` candidates rejected. -/
theorem retry_cases (fuel : Nat) (I0 : Bytes) :
    (∃ j, j < fuel ∧ (∀ m, m < j → attempt (iter next I0 m) = .error .invalidKey) ∧
      ((∃ b, attempt (iter next I0 j) = .ok b ∧ retry next attempt fuel I0 = .ok b) ∨
       (∃ x, attempt (iter next I0 j) = .error (.other x) ∧
          retry next attempt fuel I0 = .error (.curve x)))) ∨
    ((∀ j, j < fuel → attempt (iter next I0 j) = .error .invalidKey) ∧
      retry next attempt fuel I0 = .error .outOfFuel) := by
  induction fuel generalizing I0 with
  | zero => exact Or.inr ⟨fun j hj => absurd hj (by omega), rfl⟩
  | succ fuel ih =>
    cases h0 : attempt I0 with
    | ok b =>
      exact Or.inl ⟨0, by omega, fun m hm => absurd hm (by omega), Or.inl ⟨b, h0, by simp only [retry, h0]⟩⟩
    | error err =>
      cases err with
      | other x =>
        exact Or.inl ⟨0, by omega, fun m hm => absurd hm (by omega), Or.inr ⟨x, h0, by simp only [retry, h0]⟩⟩
      | invalidKey =>
        have hr : retry next attempt (fuel + 1) I0 = retry next attempt fuel (next I0) := by
          simp only [retry, h0]
        have hprev : ∀ j, (∀ m, m < j → attempt (iter next (next I0) m) = .error .invalidKey) →
            ∀ m, m < j + 1 → attempt (iter next I0 m) = .error .invalidKey := by
          intro j hj m hm
          cases m with
          | zero => exact h0
          | succ m => rw [← iter_shift]; exact hj m (by omega)
        rcases ih (next I0) with ⟨j, hj, hp, hres⟩ | ⟨hall, hres⟩
        · refine Or.inl ⟨j + 1, by omega, hprev j hp, ?_⟩
          rw [hr, ← iter_shift]; exact hres
        · exact Or.inr ⟨hprev fuel hall, by rw [hr]; exact hres⟩

theorem retry_ok_iff (fuel : Nat) (I0 : Bytes) (b : β) :
    retry next attempt fuel I0 = .ok b ↔
      ∃ j, j < fuel ∧ (∀ m, m < j → attempt (iter next I0 m) = .error .invalidKey) ∧
        attempt (iter next I0 j) = .ok b := by
  constructor
  · intro h
    rcases retry_cases next attempt fuel I0 with ⟨j, hj, hp, ⟨b', hb, hr⟩ | ⟨x, _, hr⟩⟩ | ⟨_, hr⟩
    · rw [h] at hr; cases hr; exact ⟨j, hj, hp, hb⟩
    · rw [h] at hr; cases hr
    · rw [h] at hr; cases hr
  · rintro ⟨j, hj, hp, hb⟩
    obtain ⟨f, rfl⟩ : ∃ f, fuel = j + (f + 1) := ⟨fuel - j - 1, by omega⟩
    rw [retry_skip next attempt I0 j (f + 1) hp]
    simp only [retry, hb]

theorem retry_curve_iff (fuel : Nat) (I0 : Bytes) (x : Nat) :
    retry next attempt fuel I0 = .error (.curve x) ↔
      ∃ j, j < fuel ∧ (∀ m, m < j → attempt (iter next I0 m) = .error .invalidKey) ∧
        attempt (iter next I0 j) = .error (.other x) := by
  constructor
  · intro h
    rcases retry_cases next attempt fuel I0 with ⟨j, hj, hp, ⟨b', hb, hr⟩ | ⟨x', hx, hr⟩⟩ | ⟨_, hr⟩
    · rw [h] at hr; cases hr
    · rw [h] at hr; cases hr; exact ⟨j, hj, hp, hx⟩
    · rw [h] at hr; cases hr
  · rintro ⟨j, hj, hp, hb⟩
    obtain ⟨f, rfl⟩ : ∃ f, fuel = j + (f + 1) := ⟨fuel - j - 1, by omega⟩
    rw [retry_skip next attempt I0 j (f + 1) hp]
    simp only [retry, hb]

theorem retry_outOfFuel_iff (fuel : Nat) (I0 : Bytes) :
    retry next attempt fuel I0 = .error .outOfFuel ↔
      ∀ j, j < fuel → attempt (iter next I0 j) = .error .invalidKey := by
  constructor
  · intro h
    rcases retry_cases next attempt fuel I0 with ⟨j, hj, hp, ⟨b', hb, hr⟩ | ⟨x', hx, hr⟩⟩ | ⟨hall, _⟩
    · rw [h] at hr; cases hr
    · rw [h] at hr; cases hr
    · exact hall
  · intro hall
    have := retry_skip next attempt I0 fuel 0 hall
    simpa [retry] using this

/-- the loops produce no other error. -/
theorem retry_error (fuel : Nat) (I0 : Bytes) (x : Err) (h : retry next attempt fuel I0 = .error x) :
    x = .outOfFuel ∨ ∃ n, x = .curve n := by
  rcases retry_cases next attempt fuel I0 with ⟨j, hj, hp, ⟨b', hb, hr⟩ | ⟨x', hx, hr⟩⟩ | ⟨_, hr⟩
  · rw [h] at hr; cases hr
  · rw [h] at hr; cases hr; exact Or.inr ⟨x', rfl⟩
  · rw [h] at hr; cases hr; exact Or.inl rfl

end retry

theorem isFirst_unique (valid : Bytes → Prop) (seq : Nat → Bytes) (j j' : Nat)
    (h : IsFirst valid seq j) (h' : IsFirst valid seq j') : j = j' := by
  rcases Nat.lt_trichotomy j j' with hlt | heq | hgt
  · exact absurd h.1 (h'.2 j hlt)
  · exact heq
  · exact absurd h'.1 (h.2 j' hgt)

/-! ### (1) both loops return the first valid candidate of the SLIP-0010 sequence, for every `Curve` -/

section loops
variable {κ : Type} (hmac : Bytes → Bytes → Bytes) (c : Curve κ)

def masterAttempt (I : Bytes) : Except KeyErr (ExtKey κ) :=
  match c.newPrivateKey (I.take 32) with
  | .ok k => .ok { chainCode := I.drop 32, key := k, parent := none }
  | .error x => .error x

theorem masterLoop_eq_retry (fuel : Nat) (S : Bytes) :
    masterLoop hmac c fuel S = retry (hmac c.hmacKey) (masterAttempt c) fuel (hmac c.hmacKey S) := by
  induction fuel generalizing S with
  | zero => rfl
  | succ fuel ih =>
    simp only [masterLoop, retry, masterAttempt]
    cases h : c.newPrivateKey ((hmac c.hmacKey S).take 32) with
    | ok k => rfl
    | error x => cases x with
      | invalidKey => exact ih _
      | other x => rfl

theorem iter_master (S : Bytes) (j : Nat) :
    iter (hmac c.hmacKey) (hmac c.hmacKey S) j = masterI hmac c.hmacKey S j := by
  induction j with
  | zero => rfl
  | succ j ih => simp only [iter, masterI, ih]

theorem masterAttempt_error (I : Bytes) (x : KeyErr) :
    masterAttempt c I = .error x ↔ c.newPrivateKey (IL I) = .error x := by
  unfold masterAttempt IL
  cases c.newPrivateKey (List.take 32 I) <;> simp

theorem masterAttempt_ok (I : Bytes) (e : ExtKey κ) :
    masterAttempt c I = .ok e ↔
      c.newPrivateKey (IL I) = .ok e.key ∧ e.chainCode = IR I ∧ e.parent = none := by
  unfold masterAttempt IL IR
  cases c.newPrivateKey (List.take 32 I) with
  | error x => simp
  | ok k =>
    cases e
    simp only [Except.ok.injEq, ExtKey.mk.injEq]
    constructor
    · rintro ⟨rfl, rfl, rfl⟩; exact ⟨rfl, rfl, rfl⟩
    · rintro ⟨rfl, rfl, rfl⟩; exact ⟨rfl, rfl, rfl⟩

/-- **master key, success**: `NewMasterKey` returns `e` iff some candidate `I_j`, `j < fuel`, of the SLIP-0010
sequence is accepted with key `e.key`, `e.chainCode = I_R(I_j)`, and all earlier candidates were rejected
with ErrInvalidKey. -/
theorem masterLoop_ok_iff (fuel : Nat) (S : Bytes) (e : ExtKey κ) :
    masterLoop hmac c fuel S = .ok e ↔
      ∃ j, j < fuel ∧
        (∀ m, m < j → c.newPrivateKey (IL (masterI hmac c.hmacKey S m)) = .error .invalidKey) ∧
        c.newPrivateKey (IL (masterI hmac c.hmacKey S j)) = .ok e.key ∧
        e.chainCode = IR (masterI hmac c.hmacKey S j) ∧ e.parent = none := by
  rw [masterLoop_eq_retry, retry_ok_iff]
  simp only [iter_master, masterAttempt_error, masterAttempt_ok]

/-- **master key, permanent error**: a curve error `x` is returned iff it is the verdict on some candidate
`I_j`, `j < fuel`, all of whose predecessors were rejected with ErrInvalidKey. -/
theorem masterLoop_curve_iff (fuel : Nat) (S : Bytes) (x : Nat) :
    masterLoop hmac c fuel S = .error (.curve x) ↔
      ∃ j, j < fuel ∧
        (∀ m, m < j → c.newPrivateKey (IL (masterI hmac c.hmacKey S m)) = .error .invalidKey) ∧
        c.newPrivateKey (IL (masterI hmac c.hmacKey S j)) = .error (.other x) := by
  rw [masterLoop_eq_retry, retry_curve_iff]
  simp only [iter_master, masterAttempt_error]

/-- **master key, no result within `fuel` candidates** iff all of them are rejected with ErrInvalidKey
(the Go loop then keeps going). -/
theorem masterLoop_outOfFuel_iff (fuel : Nat) (S : Bytes) :
    masterLoop hmac c fuel S = .error .outOfFuel ↔
      ∀ j, j < fuel → c.newPrivateKey (IL (masterI hmac c.hmacKey S j)) = .error .invalidKey := by
  rw [masterLoop_eq_retry, retry_outOfFuel_iff]
  simp only [iter_master, masterAttempt_error]

theorem masterLoop_error (fuel : Nat) (S : Bytes) (x : Err) (h : masterLoop hmac c fuel S = .error x) :
    x = .outOfFuel ∨ ∃ n, x = .curve n := by
  rw [masterLoop_eq_retry] at h; exact retry_error _ _ _ _ _ h

def childAttempt (e : ExtKey κ) (I : Bytes) : Except KeyErr (ExtKey κ) :=
  match c.shift e.key (I.take 32) with
  | .ok k => .ok { chainCode := I.drop 32, key := k, parent := some e.key }
  | .error x => .error x

def childNext (cpar : Bytes) (i : Nat) (I : Bytes) : Bytes := hmac cpar (0x01 :: (I.drop 32 ++ ser32 i))

theorem childLoop_eq_retry (e : ExtKey κ) (i fuel : Nat) (I0 : Bytes) :
    childLoop hmac c e i fuel I0 = retry (childNext hmac e.chainCode i) (childAttempt c e) fuel I0 := by
  induction fuel generalizing I0 with
  | zero => rfl
  | succ fuel ih =>
    simp only [childLoop, retry, childAttempt]
    cases h : c.shift e.key (I0.take 32) with
    | ok k => rfl
    | error x => cases x with
      | invalidKey => exact ih _
      | other x => rfl

theorem iter_child (cpar data : Bytes) (i j : Nat) :
    iter (childNext hmac cpar i) (hmac cpar data) j = childI hmac cpar data i j := by
  induction j with
  | zero => rfl
  | succ j ih => simp only [iter, childI, ih, childNext, IR, ser32_eq]

theorem childAttempt_error (e : ExtKey κ) (I : Bytes) (x : KeyErr) :
    childAttempt c e I = .error x ↔ c.shift e.key (IL I) = .error x := by
  unfold childAttempt IL
  cases c.shift e.key (List.take 32 I) <;> simp

theorem childAttempt_ok (e : ExtKey κ) (I : Bytes) (e' : ExtKey κ) :
    childAttempt c e I = .ok e' ↔
      c.shift e.key (IL I) = .ok e'.key ∧ e'.chainCode = IR I ∧ e'.parent = some e.key := by
  unfold childAttempt IL IR
  cases c.shift e.key (List.take 32 I) with
  | error x => simp
  | ok k =>
    cases e'
    simp only [Except.ok.injEq, ExtKey.mk.injEq]
    constructor
    · rintro ⟨rfl, rfl, rfl⟩; exact ⟨rfl, rfl, rfl⟩
    · rintro ⟨rfl, rfl, rfl⟩; exact ⟨rfl, rfl, rfl⟩

/-- **child key, success**: started on `I₀ = HMAC(c_par, data)`, the `step2` loop of `DeriveChild` returns `e'`
iff some candidate `I_j`, `j < fuel`, of the SLIP-0010 child sequence is accepted by `Shift` with key `e'.key`,
`e'.chainCode = I_R(I_j)`, the parent is remembered, and all earlier candidates were rejected with
ErrInvalidKey. -/
theorem childLoop_ok_iff (e : ExtKey κ) (i fuel : Nat) (data : Bytes) (e' : ExtKey κ) :
    childLoop hmac c e i fuel (hmac e.chainCode data) = .ok e' ↔
      ∃ j, j < fuel ∧
        (∀ m, m < j → c.shift e.key (IL (childI hmac e.chainCode data i m)) = .error .invalidKey) ∧
        c.shift e.key (IL (childI hmac e.chainCode data i j)) = .ok e'.key ∧
        e'.chainCode = IR (childI hmac e.chainCode data i j) ∧ e'.parent = some e.key := by
  rw [childLoop_eq_retry, retry_ok_iff]
  simp only [iter_child, childAttempt_error, childAttempt_ok]

/-- **child key, permanent error**: a curve error `x` is returned iff it is `Shift`'s verdict on some candidate
`I_j`, `j < fuel`, all of whose predecessors were rejected with ErrInvalidKey. -/
theorem childLoop_curve_iff (e : ExtKey κ) (i fuel : Nat) (data : Bytes) (x : Nat) :
    childLoop hmac c e i fuel (hmac e.chainCode data) = .error (.curve x) ↔
      ∃ j, j < fuel ∧
        (∀ m, m < j → c.shift e.key (IL (childI hmac e.chainCode data i m)) = .error .invalidKey) ∧
        c.shift e.key (IL (childI hmac e.chainCode data i j)) = .error (.other x) := by
  rw [childLoop_eq_retry, retry_curve_iff]
  simp only [iter_child, childAttempt_error]

/-- **child key, no result within `fuel` candidates** iff all of them are rejected with ErrInvalidKey. -/
theorem childLoop_outOfFuel_iff (e : ExtKey κ) (i fuel : Nat) (data : Bytes) :
    childLoop hmac c e i fuel (hmac e.chainCode data) = .error .outOfFuel ↔
      ∀ j, j < fuel → c.shift e.key (IL (childI hmac e.chainCode data i j)) = .error .invalidKey := by
  rw [childLoop_eq_retry, retry_outOfFuel_iff]
  simp only [iter_child, childAttempt_error]

theorem childLoop_error (e : ExtKey κ) (i fuel : Nat) (I0 : Bytes) (x : Err)
    (h : childLoop hmac c e i fuel I0 = .error x) : x = .outOfFuel ∨ ∃ n, x = .curve n := by
  rw [childLoop_eq_retry] at h; exact retry_error _ _ _ _ _ h

end loops

/-! ### (2) the keys of pkg/slip10/elliptic: validity and serialisation are SLIP-0010's -/

/-- from "valid and accepted with `a`, or invalid and rejected with ErrInvalidKey": the three verdicts. -/
theorem verdict_iffs {α : Type} {P : Prop} {r : Except KeyErr α} {a : α}
    (h : (P ∧ r = .ok a) ∨ (¬ P ∧ r = .error .invalidKey)) :
    (r = .error .invalidKey ↔ ¬ P) ∧ (∀ b, r = .ok b ↔ P ∧ b = a) ∧ (∀ x, r ≠ .error (.other x)) := by
  rcases h with ⟨hp, hr⟩ | ⟨hp, hr⟩
  · subst hr
    refine ⟨⟨fun h => ?_, fun h => absurd hp h⟩, fun b => ⟨fun h => ?_, fun h => ?_⟩, fun x h => ?_⟩
    · cases h
    · cases h; exact ⟨hp, rfl⟩
    · rw [h.2]
    · cases h
  · subst hr
    refine ⟨⟨fun _ => hp, fun _ => rfl⟩, fun b => ⟨fun h => ?_, fun h => absurd h.1 hp⟩, fun x h => ?_⟩
    · cases h
    · cases h

section weier
variable {Pt : Type} [AddCommGroup Pt] (hmac : Bytes → Bytes → Bytes)

open Iota.Proofs.Slip10Shift in
/-- the SLIP-0010 curve data of a `WCurve`: order `w.n`, `point(p) = p • g`, the group addition, `serP = w.compress`. -/
def ecOf (w : WCurve Pt) (g : Pt) (hk : Bytes) : EC Pt where
  curveKey := hk
  n := w.n
  point := fun p => p • g
  add := fun a b => a + b
  inf := 0
  serP := w.compress

variable (w : WCurve Pt) (g : Pt) (hk : Bytes)

/-- `Curve.NewPrivateKey` accepts exactly `parse256(I_L) ∈ [1, n-1]`, with that number as key. -/
theorem w_newPrivateKey (I : Bytes) :
    (validMaster (ecOf w g hk) I ∧
        (wCurve w hk).newPrivateKey (IL I) = .ok (.priv (parse256 (IL I)))) ∨
    (¬ validMaster (ecOf w g hk) I ∧ (wCurve w hk).newPrivateKey (IL I) = .error .invalidKey) := by
  simp only [validMaster, ecOf, wCurve, parse256_eq_beNat]
  by_cases h : beNat (IL I) = 0 ∨ beNat (IL I) ≥ w.n
  · right; refine ⟨by omega, by simp only [h, if_true]⟩
  · left; refine ⟨by omega, by simp only [h, if_false]⟩

/-- `PrivateKey.Shift` accepts exactly `parse256(I_L) < n` with `parse256(I_L) + k_par ≢ 0 (mod n)`, and the
new key is that sum mod `n`. -/
theorem w_shift_priv (kpar : Nat) (I : Bytes) :
    (validPrivChild (ecOf w g hk) kpar I ∧
        (wCurve w hk).shift (.priv kpar) (IL I) = .ok (.priv ((parse256 (IL I) + kpar) % w.n))) ∨
    (¬ validPrivChild (ecOf w g hk) kpar I ∧
        (wCurve w hk).shift (.priv kpar) (IL I) = .error .invalidKey) := by
  simp only [validPrivChild, ecOf, wCurve, parse256_eq_beNat]
  by_cases h1 : beNat (IL I) ≥ w.n
  · right; exact ⟨by omega, by simp only [h1, if_true]⟩
  · by_cases h2 : (beNat (IL I) + kpar) % w.n = 0
    · right; exact ⟨by omega, by simp only [h1, if_false, h2, if_true]⟩
    · left; exact ⟨⟨by omega, h2⟩, by simp only [h1, if_false, h2]⟩

open Iota.Proofs.Slip10Shift in
/-- `PublicKey.Shift` accepts exactly `parse256(I_L) < n` with `point(parse256(I_L)) + K_par ≠ ∞`, and the new
key is that point. -/
theorem w_shift_pub (hw : LawfulW w g) (Kpar : Pt) (I : Bytes) :
    (validPubChild (ecOf w g hk) Kpar I ∧
        (wCurve w hk).shift (.pub Kpar) (IL I) = .ok (.pub (parse256 (IL I) • g + Kpar))) ∨
    (¬ validPubChild (ecOf w g hk) Kpar I ∧
        (wCurve w hk).shift (.pub Kpar) (IL I) = .error .invalidKey) := by
  have hsum : w.add Kpar (w.baseMul (IL I)) = beNat (IL I) • g + Kpar := by
    rw [hw.add_eq, hw.baseMul_eq, add_comm]
  simp only [validPubChild, ecOf, wCurve, parse256_eq_beNat, hsum]
  by_cases h1 : beNat (IL I) ≥ w.n
  · right; exact ⟨fun h => by omega, by simp only [h1, if_true]⟩
  · cases h2 : w.isInfinity (beNat (IL I) • g + Kpar) with
    | true =>
      right
      exact ⟨fun h => h.2 ((hw.inf_iff _).1 h2), by simp only [h1, if_false, if_true]⟩
    | false =>
      left
      refine ⟨⟨by omega, fun h => ?_⟩, by simp [h1]⟩
      rw [(hw.inf_iff _).2 h] at h2; cases h2

omit [AddCommGroup Pt] in
/-- private key bytes are `ser256(k)`. -/
theorem w_bytes_priv (k : Nat) : (wCurve w hk).bytes (.priv k) = ser256 k := (ser256_eq k).symm

/-- public key bytes are `serP(K)` = `elliptic.MarshalCompressed`. -/
theorem w_bytes_pub (K : Pt) : (wCurve w hk).bytes (.pub K) = (ecOf w g hk).serP K := rfl

open Iota.Proofs.Slip10Shift in
/-- `PrivateKey.Public` is `point(k)`. -/
theorem w_pub_priv (hw : LawfulW w g) (k : Nat) (hkb : k < 256 ^ 40) :
    (wCurve w hk).pub (.priv k) = .pub ((ecOf w g hk).point k) := pub_priv w g hw hk k hkb

/-! #### `NewMasterKey` on secp256k1 / P-256 is SLIP-0010's master key generation -/

/-- `NewMasterKey` returns `e` iff `e` is the SLIP-0010 master key `(k, c)` of `S`, found at a candidate `j < fuel`. -/
theorem newMasterKey_w_ok_iff (fuel : Nat) (S : Bytes) (e : ExtKey (WKey Pt)) :
    newMasterKey hmac (wCurve w hk) fuel S = .ok e ↔
      ∃ j k c, j < fuel ∧ MasterAt hmac (ecOf w g hk) S j k c ∧
        e = { chainCode := c, key := .priv k, parent := none } := by
  unfold newMasterKey
  rw [masterLoop_ok_iff]
  have hv := fun I => verdict_iffs (w_newPrivateKey w g hk I)
  show (∃ j, j < fuel ∧
    (∀ m, m < j → (wCurve w hk).newPrivateKey (IL (masterI hmac hk S m)) = .error .invalidKey) ∧
    (wCurve w hk).newPrivateKey (IL (masterI hmac hk S j)) = .ok e.key ∧
    e.chainCode = IR (masterI hmac hk S j) ∧ e.parent = none) ↔ _
  simp only [(hv _).1, (hv _).2.1, MasterAt, IsFirst]
  show _ ↔ ∃ j k c, j < fuel ∧ ((validMaster (ecOf w g hk) (masterI hmac hk S j) ∧
    ∀ m, m < j → ¬ validMaster (ecOf w g hk) (masterI hmac hk S m)) ∧
    k = parse256 (IL (masterI hmac hk S j)) ∧ c = IR (masterI hmac hk S j)) ∧ _
  constructor
  · rintro ⟨j, hj, hp, ⟨hval, hkey⟩, hcc, hpar⟩
    refine ⟨j, _, _, hj, ⟨⟨hval, hp⟩, rfl, rfl⟩, ?_⟩
    cases e; simp only at hkey hcc hpar; subst hkey hcc hpar; rfl
  · rintro ⟨j, k, c, hj, ⟨⟨hval, hp⟩, rfl, rfl⟩, rfl⟩
    exact ⟨j, hj, hp, ⟨hval, rfl⟩, rfl, rfl⟩

/-- … and reports no result within `fuel` candidates iff none of them is valid; there is no other outcome. -/
theorem newMasterKey_w_outOfFuel_iff (fuel : Nat) (S : Bytes) :
    newMasterKey hmac (wCurve w hk) fuel S = .error .outOfFuel ↔
      ∀ j, j < fuel → ¬ validMaster (ecOf w g hk) (masterI hmac hk S j) := by
  unfold newMasterKey
  rw [masterLoop_outOfFuel_iff]
  have hv := fun I => verdict_iffs (w_newPrivateKey w g hk I)
  show (∀ j, j < fuel →
    (wCurve w hk).newPrivateKey (IL (masterI hmac hk S j)) = .error .invalidKey) ↔ _
  simp only [(hv _).1]

theorem newMasterKey_w_error (fuel : Nat) (S : Bytes) (x : Err)
    (h : newMasterKey hmac (wCurve w hk) fuel S = .error x) : x = .outOfFuel := by
  rcases masterLoop_error hmac (wCurve w hk) fuel S x h with rfl | ⟨n, rfl⟩
  · rfl
  · obtain ⟨j, _, _, hj⟩ := (masterLoop_curve_iff hmac (wCurve w hk) fuel S n).1 h
    exact absurd hj ((verdict_iffs (w_newPrivateKey w (0 : Pt) hk _)).2.2 n)

/-! #### `DeriveChild` on secp256k1 / P-256 is CKDpriv on private and CKDpub on public parents -/

open Iota.Proofs.Slip10Shift in
/-- the first candidate of a private parent: HMAC over `0x00 ‖ ser256(k_par) ‖ ser32(i)` (hardened) or
`serP(point(k_par)) ‖ ser32(i)`. -/
theorem deriveChild_priv_start (hw : LawfulW w g) (fuel : Nat) (cpar : Bytes) (kpar : Nat)
    (par : Option (WKey Pt)) (i : Nat) (hkb : kpar < 256 ^ 40) :
    deriveChild hmac (wCurve w hk) fuel { chainCode := cpar, key := .priv kpar, parent := par } i =
      childLoop hmac (wCurve w hk) { chainCode := cpar, key := .priv kpar, parent := par } i fuel
        (hmac cpar (dataPriv (ecOf w g hk) kpar i)) := by
  unfold deriveChild dataPriv
  by_cases hi : hardened ≤ i
  · have hi' : Spec.Slip10.hardened ≤ i := hi
    simp only [ge_iff_le, hi, hi', if_true]
    rw [ser256_eq, ser32_eq]
    rfl
  · have hi' : ¬ Spec.Slip10.hardened ≤ i := hi
    simp only [ge_iff_le, hi, hi', if_false]
    rw [ser32_eq, w_pub_priv w g hk hw kpar hkb]
    rfl

open Iota.Proofs.Slip10Shift in
/-- **CKDpriv**: `DeriveChild` on an extended private key returns `e'` iff `e'` is SLIP-0010's
`CKDpriv((k_par, c_par), i) = (k, c)`, found at a candidate `j < fuel`, with the parent remembered. -/
theorem deriveChild_priv_ok_iff (hw : LawfulW w g) (fuel : Nat) (cpar : Bytes) (kpar : Nat)
    (par : Option (WKey Pt)) (i : Nat) (hkb : kpar < 256 ^ 40) (e' : ExtKey (WKey Pt)) :
    deriveChild hmac (wCurve w hk) fuel { chainCode := cpar, key := .priv kpar, parent := par } i = .ok e' ↔
      ∃ j k c, j < fuel ∧ CKDprivAt hmac (ecOf w g hk) kpar cpar i j k c ∧
        e' = { chainCode := c, key := .priv k, parent := some (.priv kpar) } := by
  rw [deriveChild_priv_start hmac w g hk hw fuel cpar kpar par i hkb, childLoop_ok_iff]
  have hv := fun I => verdict_iffs (w_shift_priv w g hk kpar I)
  simp only [(hv _).1, (hv _).2.1, CKDprivAt, IsFirst]
  constructor
  · rintro ⟨j, hj, hp, ⟨hval, hkey⟩, hcc, hpar⟩
    refine ⟨j, _, _, hj, ⟨⟨hval, hp⟩, rfl, rfl⟩, ?_⟩
    cases e'; simp only at hkey hcc hpar; subst hkey hcc hpar; rfl
  · rintro ⟨j, k, c, hj, ⟨⟨hval, hp⟩, rfl, rfl⟩, rfl⟩
    exact ⟨j, hj, hp, ⟨hval, rfl⟩, rfl, rfl⟩

open Iota.Proofs.Slip10Shift in
theorem deriveChild_priv_outOfFuel_iff (hw : LawfulW w g) (fuel : Nat) (cpar : Bytes) (kpar : Nat)
    (par : Option (WKey Pt)) (i : Nat) (hkb : kpar < 256 ^ 40) :
    deriveChild hmac (wCurve w hk) fuel { chainCode := cpar, key := .priv kpar, parent := par } i =
        .error .outOfFuel ↔
      ∀ j, j < fuel → ¬ validPrivChild (ecOf w g hk) kpar
        (childI hmac cpar (dataPriv (ecOf w g hk) kpar i) i j) := by
  rw [deriveChild_priv_start hmac w g hk hw fuel cpar kpar par i hkb, childLoop_outOfFuel_iff]
  have hv := fun I => verdict_iffs (w_shift_priv w g hk kpar I)
  simp only [(hv _).1]

open Iota.Proofs.Slip10Shift in
/-- … and there is no other outcome. -/
theorem deriveChild_priv_error (hw : LawfulW w g) (fuel : Nat) (cpar : Bytes) (kpar : Nat)
    (par : Option (WKey Pt)) (i : Nat) (hkb : kpar < 256 ^ 40) (x : Err)
    (h : deriveChild hmac (wCurve w hk) fuel { chainCode := cpar, key := .priv kpar, parent := par } i =
      .error x) : x = .outOfFuel := by
  rw [deriveChild_priv_start hmac w g hk hw fuel cpar kpar par i hkb] at h
  rcases childLoop_error hmac (wCurve w hk) _ i fuel _ x h with rfl | ⟨n, rfl⟩
  · rfl
  · obtain ⟨j, _, _, hj⟩ := (childLoop_curve_iff hmac (wCurve w hk) _ i fuel _ n).1 h
    exact absurd hj ((verdict_iffs (w_shift_priv w g hk kpar _)).2.2 n)

/-- the first candidate of a public parent, `i < 2³¹`: HMAC over `serP(K_par) ‖ ser32(i)`. -/
theorem deriveChild_pub_start (fuel : Nat) (cpar : Bytes) (Kpar : Pt)
    (par : Option (WKey Pt)) (i : Nat) (hi : i < hardened) :
    deriveChild hmac (wCurve w hk) fuel { chainCode := cpar, key := .pub Kpar, parent := par } i =
      childLoop hmac (wCurve w hk) { chainCode := cpar, key := .pub Kpar, parent := par } i fuel
        (hmac cpar (dataPub (ecOf w g hk) Kpar i)) := by
  unfold deriveChild dataPub
  have hi' : ¬ hardened ≤ i := by omega
  simp only [ge_iff_le, hi', if_false]
  rw [ser32_eq]
  rfl

open Iota.Proofs.Slip10Shift in
/-- **CKDpub**: `DeriveChild` on an extended public key and `i < 2³¹` returns `e'` iff `e'` is SLIP-0010's
`CKDpub((K_par, c_par), i) = (K, c)`, found at a candidate `j < fuel`, with the parent remembered. -/
theorem deriveChild_pub_ok_iff (hw : LawfulW w g) (fuel : Nat) (cpar : Bytes) (Kpar : Pt)
    (par : Option (WKey Pt)) (i : Nat) (hi : i < hardened) (e' : ExtKey (WKey Pt)) :
    deriveChild hmac (wCurve w hk) fuel { chainCode := cpar, key := .pub Kpar, parent := par } i = .ok e' ↔
      ∃ j K c, j < fuel ∧ CKDpubAt hmac (ecOf w g hk) Kpar cpar i j K c ∧
        e' = { chainCode := c, key := .pub K, parent := some (.pub Kpar) } := by
  rw [deriveChild_pub_start hmac w g hk fuel cpar Kpar par i hi, childLoop_ok_iff]
  have hv := fun I => verdict_iffs (w_shift_pub w g hk hw Kpar I)
  have hi' : i < Spec.Slip10.hardened := hi
  simp only [(hv _).1, (hv _).2.1, CKDpubAt, IsFirst, hi', true_and]
  constructor
  · rintro ⟨j, hj, hp, ⟨hval, hkey⟩, hcc, hpar⟩
    refine ⟨j, _, _, hj, ⟨⟨hval, hp⟩, rfl, rfl⟩, ?_⟩
    cases e'; simp only at hkey hcc hpar; subst hkey hcc hpar; rfl
  · rintro ⟨j, K, c, hj, ⟨⟨hval, hp⟩, rfl, rfl⟩, rfl⟩
    exact ⟨j, hj, hp, ⟨hval, rfl⟩, rfl, rfl⟩

open Iota.Proofs.Slip10Shift in
theorem deriveChild_pub_outOfFuel_iff (hw : LawfulW w g) (fuel : Nat) (cpar : Bytes) (Kpar : Pt)
    (par : Option (WKey Pt)) (i : Nat) (hi : i < hardened) :
    deriveChild hmac (wCurve w hk) fuel { chainCode := cpar, key := .pub Kpar, parent := par } i =
        .error .outOfFuel ↔
      ∀ j, j < fuel → ¬ validPubChild (ecOf w g hk) Kpar
        (childI hmac cpar (dataPub (ecOf w g hk) Kpar i) i j) := by
  rw [deriveChild_pub_start hmac w g hk fuel cpar Kpar par i hi, childLoop_outOfFuel_iff]
  have hv := fun I => verdict_iffs (w_shift_pub w g hk hw Kpar I)
  simp only [(hv _).1]

omit [AddCommGroup Pt] in
/-- CKDpub is not defined for hardened indices: `DeriveChild` fails. -/
theorem deriveChild_pub_hardened (fuel : Nat) (cpar : Bytes) (Kpar : Pt)
    (par : Option (WKey Pt)) (i : Nat) (hi : hardened ≤ i) :
    deriveChild hmac (wCurve w hk) fuel { chainCode := cpar, key := .pub Kpar, parent := par } i =
      .error .hardenedChildPublicKey :=
  Iota.Proofs.Slip10.hardened_child_of_public hmac _ fuel _ i hi rfl

/-! ### (3) `DeriveKeyFromPath` on secp256k1 / P-256 is the master key followed by CKDpriv along the path -/

/-- the model's extended key `e` shows SLIP-0010's extended private key `x`: private key, chain code, fingerprint. -/
def Repr (hash160 : Bytes → Bytes) (e : ExtKey (WKey Pt)) (x : XPriv) : Prop :=
  e.key = .priv x.k ∧ e.chainCode = x.c ∧ fingerprint (wCurve w hk) hash160 e = x.fingerprint

omit [AddCommGroup Pt] in
theorem Repr.unique {hash160 : Bytes → Bytes} {e : ExtKey (WKey Pt)} {x y : XPriv}
    (hx : Repr w hk hash160 e x) (hy : Repr w hk hash160 e y) : x = y := by
  obtain ⟨h1, h2, h3⟩ := hx
  obtain ⟨h1', h2', h3'⟩ := hy
  cases x; cases y
  simp only at h1 h2 h3 h1' h2' h3'
  rw [h1] at h1'; cases h1'
  subst h2 h3 h2' h3'; rfl

open Iota.Proofs.Slip10Shift in
/-- what `Bytes()` and `Public().Bytes()` of a represented key are: `ser256(k)` and `serP(point(k))`. -/
theorem Repr.bytes (hw : LawfulW w g) {hash160 : Bytes → Bytes} {e : ExtKey (WKey Pt)} {x : XPriv}
    (hx : Repr w hk hash160 e x) (hkb : x.k < 256 ^ 40) :
    (wCurve w hk).bytes e.key = ser256 x.k ∧
      (wCurve w hk).bytes ((wCurve w hk).pub e.key) = (ecOf w g hk).serP ((ecOf w g hk).point x.k) := by
  rw [hx.1, w_pub_priv w g hk hw x.k hkb]
  exact ⟨w_bytes_priv w hk x.k, rfl⟩

open Iota.Proofs.Slip10Shift in
theorem deriveFrom_w_iff (hw : LawfulW w g) (hn : w.n < 256 ^ 40) (hash160 : Bytes → Bytes) (fuel : Nat)
    (path : List Nat) : ∀ (e : ExtKey (WKey Pt)) (x : XPriv), Repr w hk hash160 e x → x.k < w.n → ∀ z,
      (∃ e', deriveFrom hmac (wCurve w hk) fuel e path = .ok e' ∧ Repr w hk hash160 e' z) ↔
        DerivesWithin hmac (ecOf w g hk) hash160 fuel x path z := by
  induction path with
  | nil =>
    intro e x hx _ z
    simp only [deriveFrom]
    constructor
    · rintro ⟨e', he, hz⟩
      cases he
      rw [Repr.unique w hk hz hx]
      exact DerivesWithin.nil x
    · intro h
      cases h
      exact ⟨e, rfl, hx⟩
  | cons i is ih =>
    intro e x hx hxn z
    have hkb : x.k < 256 ^ 40 := Nat.lt_trans hxn hn
    have he : e = { chainCode := x.c, key := .priv x.k, parent := e.parent } := by
      obtain ⟨h1, h2, _⟩ := hx
      cases e; simp only at h1 h2; subst h1 h2; rfl
    have hstep := deriveChild_priv_ok_iff hmac w g hk hw fuel x.c x.k e.parent i hkb
    rw [← he] at hstep
    -- the child of `e` at `(k, c)` is represented by `(k, c, fingerprint of point(x.k))`
    have hrepr : ∀ k c, Repr w hk hash160
        { chainCode := c, key := .priv k, parent := some (.priv x.k) }
        ⟨k, c, fingerprintOf (ecOf w g hk) hash160 ((ecOf w g hk).point x.k)⟩ := by
      intro k c
      refine ⟨rfl, rfl, ?_⟩
      simp only [fingerprint, fingerprintOf]
      rw [w_pub_priv w g hk hw x.k hkb]
      rfl
    simp only [deriveFrom]
    constructor
    · rintro ⟨e', he', hz⟩
      cases hc : deriveChild hmac (wCurve w hk) fuel e i with
      | error err => rw [hc] at he'; cases he'
      | ok e1 =>
        rw [hc] at he'
        obtain ⟨j, k, c, hj, hckd, rfl⟩ := (hstep e1).1 hc
        have hkn : k < w.n := by
          rw [hckd.2.1]; exact Nat.mod_lt _ hw.n_pos
        exact DerivesWithin.cons x i j k c is z hj hckd
          ((ih _ _ (hrepr k c) hkn z).1 ⟨e', he', hz⟩)
    · intro h
      cases h with
      | cons _ _ j k c _ _ hj hckd hrest =>
        have hkn : k < w.n := by
          rw [hckd.2.1]; exact Nat.mod_lt _ hw.n_pos
        have hc := (hstep _).2 ⟨j, k, c, hj, hckd, rfl⟩
        obtain ⟨e', he', hz⟩ := (ih _ _ (hrepr k c) hkn z).2 hrest
        exact ⟨e', by rw [hc]; exact he', hz⟩

open Iota.Proofs.Slip10Shift in
/-- **`DeriveKeyFromPath` = SLIP-0010 along the path**: with `fuel` candidates allowed per step, the model returns
an extended key showing private key `z.k`, chain code `z.c` and fingerprint `z.fingerprint` iff `z` is what
SLIP-0010 prescribes for seed `S` and `path` — master key, then CKDpriv at every index — every step finding its
key within `fuel` candidates. -/
theorem deriveKeyFromPath_w_iff (hw : LawfulW w g) (hn : w.n < 256 ^ 40) (hash160 : Bytes → Bytes) (fuel : Nat)
    (S : Bytes) (path : List Nat) (z : XPriv) :
    (∃ e, deriveKeyFromPath hmac (wCurve w hk) fuel S path = .ok e ∧ Repr w hk hash160 e z) ↔
      PathKeyWithin hmac (ecOf w g hk) hash160 fuel S path z := by
  unfold deriveKeyFromPath PathKeyWithin
  have hm := newMasterKey_w_ok_iff hmac w g hk fuel S
  have hrepr : ∀ k c, Repr w hk hash160 { chainCode := c, key := .priv k, parent := none } ⟨k, c, [0, 0, 0, 0]⟩ :=
    fun k c => ⟨rfl, rfl, rfl⟩
  constructor
  · rintro ⟨e, he, hz⟩
    cases hc : newMasterKey hmac (wCurve w hk) fuel S with
    | error err => rw [hc] at he; cases he
    | ok m =>
      rw [hc] at he
      obtain ⟨j, k, c, hj, hmas, rfl⟩ := (hm m).1 hc
      have hkn : k < w.n := by rw [hmas.2.1]; exact hmas.1.1.2
      exact ⟨j, k, c, hj, hmas,
        (deriveFrom_w_iff hmac w g hk hw hn hash160 fuel path _ _ (hrepr k c) hkn z).1 ⟨e, he, hz⟩⟩
  · rintro ⟨j, k, c, hj, hmas, hd⟩
    have hkn : k < w.n := by rw [hmas.2.1]; exact hmas.1.1.2
    have hc := (hm _).2 ⟨j, k, c, hj, hmas, rfl⟩
    obtain ⟨e, he, hz⟩ := (deriveFrom_w_iff hmac w g hk hw hn hash160 fuel path _ _ (hrepr k c) hkn z).2 hd
    exact ⟨e, by rw [hc]; exact he, hz⟩

end weier

/-- path concatenation, over the spec: `x →(p ++ q) z` iff `x →p y →q z` for some `y`. -/
theorem derivesWithin_append {Pt : Type} (hmac : Bytes → Bytes → Bytes) (E : EC Pt) (hash160 : Bytes → Bytes)
    (bound : Nat) (p q : List Nat) (x z : XPriv) :
    DerivesWithin hmac E hash160 bound x (p ++ q) z ↔
      ∃ y, DerivesWithin hmac E hash160 bound x p y ∧ DerivesWithin hmac E hash160 bound y q z := by
  induction p generalizing x with
  | nil =>
    simp only [List.nil_append]
    constructor
    · intro h; exact ⟨x, DerivesWithin.nil x, h⟩
    · rintro ⟨y, hxy, hyz⟩; cases hxy; exact hyz
  | cons i p ih =>
    simp only [List.cons_append]
    constructor
    · intro h
      cases h with
      | cons _ _ j k c _ _ hj hckd hrest =>
        obtain ⟨y, h1, h2⟩ := (ih _).1 hrest
        exact ⟨y, DerivesWithin.cons x i j k c p y hj hckd h1, h2⟩
    · rintro ⟨y, hxy, hyz⟩
      cases hxy with
      | cons _ _ j k c _ _ hj hckd hrest =>
        exact DerivesWithin.cons x i j k c (p ++ q) z hj hckd ((ih _).2 ⟨y, hrest, hyz⟩)

/-! ### ed25519 -/

section ed
variable (hmac : Bytes → Bytes → Bytes) (edPublic : Bytes → Bytes)

theorem ed_hmacKey : (edCurve edPublic).hmacKey = edCurveKey := rfl

/-- every candidate is a key: no retry, no error. -/
theorem ed_newPrivateKey (buf : Bytes) : (edCurve edPublic).newPrivateKey buf = .ok (.seed buf) := rfl
theorem ed_shift_seed (s buf : Bytes) : (edCurve edPublic).shift (.seed s) buf = .ok (.seed buf) := rfl

/-- private key bytes are the 32-byte seed; public key bytes are `0x00 ‖ A`. -/
theorem ed_bytes_seed (s : Bytes) : (edCurve edPublic).bytes (.seed s) = s := rfl
theorem ed_bytes_pub (a : Bytes) (h : a.length = 32) : (edCurve edPublic).bytes (.pub a) = edSerP a := by
  show List.replicate (33 - a.length) 0 ++ a = 0 :: a
  rw [h]; rfl

/-- master key: `k = I_L`, `c = I_R` of `I = HMAC("ed25519 seed", S)`, at the first attempt. -/
theorem ed_newMasterKey (fuel : Nat) (S : Bytes) :
    newMasterKey hmac (edCurve edPublic) (fuel + 1) S =
      .ok { chainCode := (edMaster hmac S).2, key := .seed (edMaster hmac S).1, parent := none } := rfl

/-- hardened CKDpriv: `k = I_L`, `c = I_R` of `I = HMAC(c_par, 0x00 ‖ k_par ‖ ser32(i))`, at the first attempt. -/
theorem ed_deriveChild_hardened (fuel : Nat) (cpar kpar : Bytes) (par : Option EdKey) (i : Nat)
    (hi : hardened ≤ i) :
    deriveChild hmac (edCurve edPublic) (fuel + 1) { chainCode := cpar, key := .seed kpar, parent := par } i =
      .ok { chainCode := (edCKDpriv hmac kpar cpar i).2, key := .seed (edCKDpriv hmac kpar cpar i).1,
            parent := some (.seed kpar) } := by
  rw [Iota.Proofs.Slip10.deriveChild_hardened hmac _ (fuel + 1) _ i hi rfl]
  simp only [childLoop, edCKDpriv, IL, IR, ← ser32_eq]
  rfl

/-- non-hardened derivation is rejected on private and public ed25519 keys; hardened on public keys too. -/
theorem ed_deriveChild_not_hardened (fuel : Nat) (e : ExtKey EdKey) (i : Nat) (hi : i < hardened) :
    deriveChild hmac (edCurve edPublic) fuel e i = .error .notHardened :=
  Iota.Proofs.Slip10.non_hardened_on_hardened_only hmac _ fuel e i hi rfl

theorem ed_deriveChild_pub_hardened (fuel : Nat) (cpar a : Bytes) (par : Option EdKey) (i : Nat)
    (hi : hardened ≤ i) :
    deriveChild hmac (edCurve edPublic) fuel { chainCode := cpar, key := .pub a, parent := par } i =
      .error .hardenedChildPublicKey :=
  Iota.Proofs.Slip10.hardened_child_of_public hmac _ fuel _ i hi rfl

theorem ed_deriveFrom (hpub : ∀ s, (edPublic s).length = 32) (hash160 : Bytes → Bytes) (fuel : Nat)
    (path : List Nat) : ∀ (e : ExtKey EdKey) (s : Bytes), e.key = .seed s →
    match edDerive hmac edPublic hash160 (s, e.chainCode, fingerprint (edCurve edPublic) hash160 e) path with
    | some (k, c, fp) => ∃ e', deriveFrom hmac (edCurve edPublic) (fuel + 1) e path = .ok e' ∧
        e'.key = .seed k ∧ e'.chainCode = c ∧ fingerprint (edCurve edPublic) hash160 e' = fp
    | none => deriveFrom hmac (edCurve edPublic) (fuel + 1) e path = .error .notHardened := by
  induction path with
  | nil => intro e s hs; exact ⟨e, rfl, hs, rfl, rfl⟩
  | cons i is ih =>
    intro e s hs
    have he : e = { chainCode := e.chainCode, key := .seed s, parent := e.parent } := by
      cases e; simp only at hs; subst hs; rfl
    simp only [edDerive, deriveFrom]
    by_cases hi : hardened ≤ i
    · have hi' : Spec.Slip10.hardened ≤ i := hi
      simp only [hi', if_true]
      have hc := ed_deriveChild_hardened hmac edPublic fuel e.chainCode s e.parent i hi
      rw [← he] at hc
      rw [hc]
      have hfp : fingerprint (edCurve edPublic) hash160
          { chainCode := (edCKDpriv hmac s e.chainCode i).2, key := EdKey.seed (edCKDpriv hmac s e.chainCode i).1,
            parent := some (EdKey.seed s) } = edFingerprintOf edPublic hash160 s := by
        simp only [fingerprint, edFingerprintOf]
        rw [← ed_bytes_pub edPublic _ (hpub s)]
        rfl
      have := ih ⟨(edCKDpriv hmac s e.chainCode i).2, EdKey.seed (edCKDpriv hmac s e.chainCode i).1,
        some (EdKey.seed s)⟩ (edCKDpriv hmac s e.chainCode i).1 rfl
      rw [hfp] at this
      exact this
    · have hi' : ¬ Spec.Slip10.hardened ≤ i := hi
      simp only [hi', if_false]
      rw [ed_deriveChild_not_hardened hmac edPublic (fuel + 1) e i (by omega)]

/-- **`DeriveKeyFromPath` on ed25519**: when every index is hardened the model returns the key, chain code and
fingerprint SLIP-0010 prescribes (`edPathKey`); otherwise SLIP-0010 defines nothing and the model fails with
ErrNotHardened. -/
theorem ed_deriveKeyFromPath (hpub : ∀ s, (edPublic s).length = 32) (hash160 : Bytes → Bytes) (fuel : Nat)
    (S : Bytes) (path : List Nat) :
    match edPathKey hmac edPublic hash160 S path with
    | some (k, c, fp) => ∃ e, deriveKeyFromPath hmac (edCurve edPublic) (fuel + 1) S path = .ok e ∧
        e.key = .seed k ∧ e.chainCode = c ∧ fingerprint (edCurve edPublic) hash160 e = fp
    | none => deriveKeyFromPath hmac (edCurve edPublic) (fuel + 1) S path = .error .notHardened := by
  unfold deriveKeyFromPath edPathKey
  rw [ed_newMasterKey]
  exact ed_deriveFrom hmac edPublic hpub hash160 fuel path
    ⟨(edMaster hmac S).2, .seed (edMaster hmac S).1, none⟩ (edMaster hmac S).1 rfl

/-- `edPathKey` is defined exactly on all-hardened paths. -/
theorem edDerive_isSome_iff (hash160 : Bytes → Bytes) (path : List Nat) (x : Bytes × Bytes × Bytes) :
    (edDerive hmac edPublic hash160 x path).isSome ↔ ∀ i, i ∈ path → Spec.Slip10.hardened ≤ i := by
  induction path generalizing x with
  | nil => simp [edDerive]
  | cons i is ih =>
    simp only [edDerive]
    by_cases hi : Spec.Slip10.hardened ≤ i
    · simp only [hi, if_true, ih, List.mem_cons, forall_eq_or_imp, true_and]
    · simp only [hi, if_false, List.mem_cons, forall_eq_or_imp, false_and]; simp

end ed

end Iota.Proofs.Slip10Spec
