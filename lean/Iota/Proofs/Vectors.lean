/-
Known-answer tests for the executable oracles, proved as theorems by kernel evaluation
(`decide +kernel`, no `native_decide`): the oracles' agreement with the published standard vectors is
machine-checked, not only observed at run time against the Go libraries.

  Vectors/Hash.lean    SHA-256, SHA-512 (FIPS 180-4), BLAKE2b (RFC 7693), RIPEMD-160
  Vectors/Mac.lean     HMAC-SHA512 (RFC 4231 cases 1, 2, 6), PBKDF2-HMAC-SHA512 (1 and 2 iterations)
  Vectors/Ed.lean      Ed25519 (RFC 8032 §7.1 TEST 1, 2), ECVRF-EDWARDS25519-SHA512-TAI (RFC 9381 Example 16)
  Vectors/Slip10.lean  secp256k1 / P-256 generator multiples, SLIP-0010 test vector 1 (secp256k1, ed25519; m, m/0H)
  Vectors/Bip39.lean   BIP-39 entropy ↔ mnemonic (Trezor vectors)
  Vectors/Curl.lean    Curl-P-81 (entries 1, 2 of /repo/pkg/curl/testdata/curlp81.json), through a proved bit-sliced evaluator

Core Lean only.  Each file records the source of its vectors; every expected value was recomputed with
Go (standard library, golang.org/x/crypto v0.2.0, or the repository's own packages).
-/
import Iota.Proofs.Vectors.Hash
import Iota.Proofs.Vectors.Mac
import Iota.Proofs.Vectors.Ed
import Iota.Proofs.Vectors.Slip10
import Iota.Proofs.Vectors.Bip39
import Iota.Proofs.Vectors.Curl
