/-
T3, histories: any sequence of `Absorb` / `Squeeze` / `Reset` calls on the batched sponge that
respects the documented preconditions produces, lane by lane, exactly the outputs of the
single-lane specification sponge run on that lane's inputs alone.
-/
import Iota.Proofs.Curl.Sponge

namespace Iota.Proofs.Curl
open Iota.Curl Iota.Spec.CurlP Iota.Spec.CurlW

/-- an API call. -/
inductive Op
  | absorb (src : List (List Int)) (n : Nat)
  | squeeze (lanes n : Nat)
  | reset

/-- what the caller observes from one call. -/
inductive Ev
  | out (o : List (List Int))   -- successful `Squeeze`: the trits written to `dst`
  | err (e : Err)               -- a returned error (state untouched)
  | panic                       -- a run-time panic; nothing after it is observed
deriving DecidableEq

/-- run a history on the batched implementation model.  Successful `Absorb`/`Reset` are silent;
returned errors leave the state untouched; a panic ends the run. -/
def run : Curl → List Op → List Ev
  | _, [] => []
  | _, .reset :: ops => run Curl.init ops
  | c, .absorb src n :: ops =>
    match c.absorb src n with
    | .ok c' _ => run c' ops
    | .err e => .err e :: run c ops
    | .panic => [.panic]
  | c, .squeeze lanes n :: ops =>
    match c.squeeze lanes n with
    | .ok c' o => .out o :: run c' ops
    | .err e => .err e :: run c ops
    | .panic => [.panic]

/-- the same history on 64 independent specification sponges (`sp j` is lane `j`). -/
def specRun : (Nat → Spec.CurlP.Sponge) → List Op → List Ev
  | _, [] => []
  | _, .reset :: ops => specRun (fun _ => Spec.CurlP.Sponge.init) ops
  | sp, .absorb src n :: ops =>
    if src.length < 1 ∨ src.length > 64 then .err .invalidBatchSize :: specRun sp ops
    else if n % 243 ≠ 0 then .err .invalidTritsLength :: specRun sp ops
    else specRun (fun j => (sp j).absorb (src.getD j []) (n / 243)) ops
  | sp, .squeeze lanes n :: ops =>
    if lanes < 1 ∨ lanes > 64 then .err .invalidBatchSize :: specRun sp ops
    else if n % 243 ≠ 0 then .err .invalidSqueezeLength :: specRun sp ops
    else .out ((List.range lanes).map fun j => ((sp j).squeeze (n / 243)).2) ::
      specRun (fun j => ((sp j).squeeze (n / 243)).1) ops

/-- the documented preconditions along a history; `sq` says whether the sponge is squeezing.
A call that returns an error has no precondition.  An accepted `Absorb` needs an absorbing sponge
(no absorb after squeeze without reset) and every lane at least `n` trits long. -/
def WF : Bool → List Op → Prop
  | _, [] => True
  | _, .reset :: ops => WF false ops
  | sq, .absorb src n :: ops =>
    if src.length < 1 ∨ src.length > 64 ∨ n % 243 ≠ 0 then WF sq ops
    else sq = false ∧ (∀ lane ∈ src, n ≤ lane.length) ∧ WF sq ops
  | sq, .squeeze lanes n :: ops =>
    if lanes < 1 ∨ lanes > 64 ∨ n % 243 ≠ 0 then WF sq ops
    else WF (sq || decide (n / 243 ≠ 0)) ops

/-- **T3, histories.** From related states, a well-formed history produces the same observations
on the batched model and on the 64 specification sponges (in particular it never panics). -/
theorem run_eq_specRun (ops : List Op) :
    ∀ (c : Curl) (sp : Nat → Spec.CurlP.Sponge) (sq : Bool), Sim c sp →
      (sq = true ↔ c.direction = .squeezing) → WF sq ops → run c ops = specRun sp ops := by
  induction ops with
  | nil => intro c sp sq _ _ _; rfl
  | cons op ops ih =>
    intro c sp sq hs hsq hwf
    cases op with
    | reset =>
      simp only [run, specRun]
      exact ih Curl.init _ false sim_init (by simp [Curl.init]) hwf
    | absorb src n =>
      simp only [run, specRun]
      by_cases hb : src.length < 1 ∨ src.length > 64
      · have hwf' : WF sq ops := by
          have : src.length < 1 ∨ src.length > 64 ∨ n % 243 ≠ 0 := by omega
          simpa only [WF, this, if_true] using hwf
        rw [absorb_err_batch c src n hb, if_pos hb]
        simp only
        rw [ih c sp sq hs hsq hwf']
      · rw [if_neg hb]
        by_cases hn : n % 243 ≠ 0
        · have hwf' : WF sq ops := by
            have : src.length < 1 ∨ src.length > 64 ∨ n % 243 ≠ 0 := by omega
            simpa only [WF, this, if_true] using hwf
          rw [absorb_err_length c src n (by omega) (by omega) hn, if_pos hn]
          simp only
          rw [ih c sp sq hs hsq hwf']
        · rw [if_neg hn]
          have hn' : n % 243 = 0 := by omega
          have hw : sq = false ∧ (∀ lane ∈ src, n ≤ lane.length) ∧ WF sq ops := by
            have : ¬ (src.length < 1 ∨ src.length > 64 ∨ n % 243 ≠ 0) := by omega
            simpa only [WF, this, if_false] using hwf
          obtain ⟨hsq0, hlanes, hwf'⟩ := hw
          have hdir : c.direction = .absorbing := by
            cases hd : c.direction with
            | absorbing => rfl
            | squeezing => rw [hsq.mpr hd] at hsq0; exact absurd hsq0 (by simp)
          obtain ⟨c', hc', hd', hs'⟩ :=
            absorb_sim c sp hs src n hdir (by omega) (by omega) hn' hlanes
          rw [hc']
          simp only
          exact ih c' _ sq hs' (by rw [hsq, hd', hdir]) hwf'
    | squeeze lanes n =>
      simp only [run, specRun]
      by_cases hb : lanes < 1 ∨ lanes > 64
      · have hwf' : WF sq ops := by
          have : lanes < 1 ∨ lanes > 64 ∨ n % 243 ≠ 0 := by omega
          simpa only [WF, this, if_true] using hwf
        rw [squeeze_err_batch c lanes n hb, if_pos hb]
        simp only
        rw [ih c sp sq hs hsq hwf']
      · rw [if_neg hb]
        by_cases hn : n % 243 ≠ 0
        · have hwf' : WF sq ops := by
            have : lanes < 1 ∨ lanes > 64 ∨ n % 243 ≠ 0 := by omega
            simpa only [WF, this, if_true] using hwf
          rw [squeeze_err_length c lanes n (by omega) (by omega) hn, if_pos hn]
          simp only
          rw [ih c sp sq hs hsq hwf']
        · rw [if_neg hn]
          have hn' : n % 243 = 0 := by omega
          have hwf' : WF (sq || decide (n / 243 ≠ 0)) ops := by
            have : ¬ (lanes < 1 ∨ lanes > 64 ∨ n % 243 ≠ 0) := by omega
            simpa only [WF, this, if_false] using hwf
          obtain ⟨c', out, hc', hout, hd', hs'⟩ :=
            squeeze_sim c sp hs lanes n (by omega) (by omega) hn'
          rw [hc']
          simp only [squeeze_fst_if] at hs' ⊢
          rw [hout]
          congr 1
          refine ih c' _ _ hs' ?_ hwf'
          rw [hd']
          by_cases hk : n / 243 = 0
          · simp [hk, hsq]
          · simp [hk]

/-- a well-formed history from a fresh sponge: the observations are those of the specification. -/
theorem run_init_eq (ops : List Op) (hwf : WF false ops) :
    run Curl.init ops = specRun (fun _ => Spec.CurlP.Sponge.init) ops :=
  run_eq_specRun ops Curl.init _ false sim_init (by simp [Curl.init]) hwf

/-- the specification run never panics … -/
theorem specRun_no_panic (ops : List Op) : ∀ sp, Ev.panic ∉ specRun sp ops := by
  induction ops with
  | nil => intro sp; simp [specRun]
  | cons op ops ih =>
    intro sp
    cases op with
    | reset => simpa only [specRun] using ih _
    | absorb src n =>
      simp only [specRun]
      split
      · simpa using ih sp
      · split
        · simpa using ih sp
        · exact ih _
    | squeeze lanes n =>
      simp only [specRun]
      split
      · simpa using ih sp
      · split
        · simpa using ih sp
        · simpa using ih _

/-- … hence neither does a well-formed history on the implementation model. -/
theorem run_no_panic (ops : List Op) (hwf : WF false ops) : Ev.panic ∉ run Curl.init ops := by
  rw [run_init_eq ops hwf]; exact specRun_no_panic ops _

/-! ### one lane alone -/

/-- what lane `j` sees of a call: its own input (if any), the number of blocks, and whether the
squeeze output of this lane is delivered (`j < len(dst)`).  Calls that return an error are `skip`. -/
inductive LaneOp
  | absorb (input : List Int) (blocks : Nat)
  | squeeze (blocks : Nat) (visible : Bool)
  | reset
  | skip

def proj (j : Nat) : Op → LaneOp
  | .absorb src n =>
    if src.length < 1 ∨ src.length > 64 ∨ n % 243 ≠ 0 then .skip
    else .absorb (src.getD j []) (n / 243)
  | .squeeze lanes n =>
    if lanes < 1 ∨ lanes > 64 ∨ n % 243 ≠ 0 then .skip
    else .squeeze (n / 243) (decide (j < lanes))
  | .reset => .reset

/-- the single-lane specification sponge run on one lane's view of the history. -/
def laneRun : Spec.CurlP.Sponge → List LaneOp → List (List Int)
  | _, [] => []
  | s, .absorb input k :: ops => laneRun (s.absorb input k) ops
  | s, .squeeze k visible :: ops =>
    if visible then (s.squeeze k).2 :: laneRun (s.squeeze k).1 ops else laneRun (s.squeeze k).1 ops
  | _, .reset :: ops => laneRun Spec.CurlP.Sponge.init ops
  | s, .skip :: ops => laneRun s ops

/-- the outputs delivered to lane `j` in a list of observations. -/
def laneOuts (j : Nat) : List Ev → List (List Int)
  | [] => []
  | .out o :: es => if j < o.length then o.getD j [] :: laneOuts j es else laneOuts j es
  | _ :: es => laneOuts j es

theorem specRun_lane (j : Nat) (ops : List Op) :
    ∀ sp, laneOuts j (specRun sp ops) = laneRun (sp j) (ops.map (proj j)) := by
  induction ops with
  | nil => intro sp; rfl
  | cons op ops ih =>
    intro sp
    cases op with
    | reset => simp only [specRun, List.map_cons, proj, laneRun]; exact ih _
    | absorb src n =>
      simp only [specRun, List.map_cons, proj]
      by_cases hb : src.length < 1 ∨ src.length > 64
      · have : src.length < 1 ∨ src.length > 64 ∨ n % 243 ≠ 0 := by omega
        rw [if_pos hb, if_pos this]; simp only [laneOuts, laneRun]; exact ih _
      · rw [if_neg hb]
        by_cases hn : n % 243 ≠ 0
        · have : src.length < 1 ∨ src.length > 64 ∨ n % 243 ≠ 0 := by omega
          rw [if_pos hn, if_pos this]; simp only [laneOuts, laneRun]; exact ih _
        · have : ¬ (src.length < 1 ∨ src.length > 64 ∨ n % 243 ≠ 0) := by omega
          rw [if_neg hn, if_neg this]; simp only [laneRun]; exact ih _
    | squeeze lanes n =>
      simp only [specRun, List.map_cons, proj]
      by_cases hb : lanes < 1 ∨ lanes > 64
      · have : lanes < 1 ∨ lanes > 64 ∨ n % 243 ≠ 0 := by omega
        rw [if_pos hb, if_pos this]; simp only [laneOuts, laneRun]; exact ih _
      · rw [if_neg hb]
        by_cases hn : n % 243 ≠ 0
        · have : lanes < 1 ∨ lanes > 64 ∨ n % 243 ≠ 0 := by omega
          rw [if_pos hn, if_pos this]; simp only [laneOuts, laneRun]; exact ih _
        · have : ¬ (lanes < 1 ∨ lanes > 64 ∨ n % 243 ≠ 0) := by omega
          rw [if_neg hn, if_neg this]
          simp only [laneOuts, laneRun, List.length_map, List.length_range]
          by_cases hj : j < lanes
          · simp only [hj, if_true, decide_true]
            rw [ih]
            congr 1
            simp [List.getD_eq_getElem?_getD, List.getElem?_map, List.getElem?_range hj]
          · simp only [hj, if_false, decide_false, Bool.false_eq_true]
            rw [ih]

/-- **T3, lane by lane.** For every well-formed history, the squeeze outputs delivered to lane `j`
are those of the single-lane specification sponge run on lane `j`'s inputs alone. -/
theorem run_lane (ops : List Op) (hwf : WF false ops) (j : Nat) :
    laneOuts j (run Curl.init ops) = laneRun Spec.CurlP.Sponge.init (ops.map (proj j)) := by
  rw [run_init_eq ops hwf, specRun_lane]

/-- **Lane independence.** Two well-formed histories that agree on lane `j`'s view (same call
shapes, same lane-`j` inputs; the other lanes' inputs arbitrary) deliver the same lane-`j` outputs. -/
theorem lane_independence (ops ops' : List Op) (hwf : WF false ops) (hwf' : WF false ops') (j : Nat)
    (hagree : ops.map (proj j) = ops'.map (proj j)) :
    laneOuts j (run Curl.init ops) = laneOuts j (run Curl.init ops') := by
  rw [run_lane ops hwf, run_lane ops' hwf', hagree]

/-- in particular: changing the *other* lanes' inputs of an `Absorb` (same batch size, same trit
count, same lane `j`) does not change lane `j`'s view. -/
theorem proj_absorb_congr (j : Nat) (src src' : List (List Int)) (n : Nat)
    (hlen : src.length = src'.length) (hj : src.getD j [] = src'.getD j []) :
    proj j (.absorb src n) = proj j (.absorb src' n) := by
  simp only [proj, hlen, hj]

end Iota.Proofs.Curl
