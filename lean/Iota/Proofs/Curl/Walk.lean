/-
The index walk of the inner loop of `transformGeneric`: one iteration of `loopBody`, the whole
`innerLoop`, and one round `roundGo` is the word-level closed form `roundW`; no access is out of range.
-/
import Iota.Spec.CurlW

namespace Iota.Proofs.Curl
open Iota.Curl Iota.Spec.CurlP Iota.Spec.CurlW

/-! ### index arithmetic -/

theorem idx_lt (i : Nat) : idx i < 729 := by unfold idx; omega

theorem idx_succ (i : Nat) : idx (i + 1) = if idx i < 365 then idx i + 364 else idx i - 365 := by
  unfold idx; split <;> omega

theorem idx_zero : idx 0 = 0 := rfl
theorem idx_one : idx 1 = 364 := rfl

/-- the walk: at the start of iteration `k` (index `i = 1 + 4k`), `t = 364 - 2k`. -/
theorem idx_walk (k t : Nat) (ht : t + 2 * k = 364) :
    idx (1 + 4 * k) = t ∧ idx (1 + 4 * k + 1) = t + 364 ∧
    (k < 182 → idx (1 + 4 * k + 2) = t - 1 ∧ idx (1 + 4 * k + 3) = t + 363 ∧
      idx (1 + 4 * k + 4) = t - 2) := by
  unfold idx; omega

/-- positions alternate between the low half `[0,365)` and the high half `[365,729)`. -/
theorem idx_odd (i : Nat) (h : i % 2 = 1) (hi : i < 729) : idx i = 364 - i / 2 := by
  unfold idx
  rw [show 364 * i = 729 * (i / 2) + (364 - i / 2) by omega, Nat.mul_add_mod]
  exact Nat.mod_eq_of_lt (by omega)

theorem idx_even (i : Nat) (h : i % 2 = 0) (h0 : 0 < i) (hi : i < 729) : idx i = 729 - i / 2 := by
  unfold idx
  rw [show 364 * i = 729 * (i / 2 - 1) + (729 - i / 2) by omega, Nat.mul_add_mod]
  exact Nat.mod_eq_of_lt (by omega)

theorem idx_odd_low (i : Nat) (h : i % 2 = 1) (hi : i < 729) : idx i < 365 := by
  rw [idx_odd i h hi]; omega

theorem idx_even_high (i : Nat) (h : i % 2 = 0) (h0 : 0 < i) (hi : i < 729) : 365 ≤ idx i := by
  rw [idx_even i h h0 hi]; omega

/-! ### reads and writes -/

theorem rd_eq (v : Plane) {i : Nat} (h : i < 729) : rd v i = some (rdW v i) := by
  simp [rd, rdW, h]

theorem wr_eq (v : Plane) {i : Nat} (x : W) (h : i < 729) : wr v i x = some (v.set i x) := by
  simp [wr, h]

theorem rdW_eq (v : Plane) {i : Nat} (h : i < 729) : rdW v i = v[i] := by
  simp [rdW, h]

/-- entry `i` of the closed form. -/
theorem roundW_fst (lh : Plane × Plane) {i : Nat} (h : i < 729) :
    (roundW lh).1[i] = (sBox (rdW lh.1 (idx i)) (rdW lh.2 (idx i))
      (rdW lh.1 (idx (i + 1))) (rdW lh.2 (idx (i + 1)))).1 := by
  simp [roundW]

theorem roundW_snd (lh : Plane × Plane) {i : Nat} (h : i < 729) :
    (roundW lh).2[i] = (sBox (rdW lh.1 (idx i)) (rdW lh.2 (idx i))
      (rdW lh.1 (idx (i + 1))) (rdW lh.2 (idx (i + 1)))).2 := by
  simp [roundW]

/-! ### the loop invariant -/

/-- state of the inner loop before iteration `k`: `t = 364 - 2k = idx (1+4k)`, `b = from[t]`, and the
first `1 + 4k` entries of the to-buffers already hold the closed form. -/
structure Inv (lfrom hfrom : Plane) (k : Nat) (s : LoopSt) : Prop where
  t : s.t + 2 * k = 364
  bL : s.bL = rdW lfrom s.t
  bH : s.bH = rdW hfrom s.t
  lto : ∀ j (h : j < 729), j < 1 + 4 * k → s.lto[j] = (roundW (lfrom, hfrom)).1[j]
  hto : ∀ j (h : j < 729), j < 1 + 4 * k → s.hto[j] = (roundW (lfrom, hfrom)).2[j]

theorem loopBody_spec (lfrom hfrom : Plane) (k : Nat) (hk : k < 182) (s : LoopSt)
    (inv : Inv lfrom hfrom k s) :
    ∃ s', loopBody lfrom hfrom (1 + 4 * k) s = some s' ∧ Inv lfrom hfrom (k + 1) s' := by
  obtain ⟨t, bL, bH, lto, hto⟩ := s
  obtain ⟨ht, hbL, hbH, hl, hh⟩ := inv
  simp only at ht hbL hbH hl hh
  obtain ⟨e0, e1, e234⟩ := idx_walk k t ht
  obtain ⟨e2, e3, e4⟩ := e234 hk
  have r1 : t + 364 < 729 := by omega
  have r2 : t - 1 < 729 := by omega
  have r3 : t + 363 < 729 := by omega
  have r4 : t - 2 < 729 := by omega
  have n1 : ¬ t + 364 < 365 := by omega
  have n2 : ¬ t + 363 < 365 := by omega
  have t2 : t + 364 - 365 = t - 1 := by clear e2 e4 e234 r2 r4; omega
  have t3 : t - 1 + 364 = t + 363 := by clear e2 e4 e234 r2 r4 t2; omega
  have t4 : t + 363 - 365 = t - 2 := by clear e2 e4 e234 r2 r4 t2 t3; omega
  have w0 : 1 + 4 * k + 0 < 729 := by omega
  have w1 : 1 + 4 * k + 1 < 729 := by omega
  have w2 : 1 + 4 * k + 2 < 729 := by omega
  have w3 : 1 + 4 * k + 3 < 729 := by omega
  refine Exists.intro ?w (And.intro ?h1 ?h2)
  case h1 =>
    simp only [loopBody, t2, t3, t4, rd_eq _ r1, rd_eq _ r2, rd_eq _ r3, rd_eq _ r4, wr_eq _ _ w0, wr_eq _ _ w1,
      wr_eq _ _ w2, wr_eq _ _ w3, n1, n2, if_false, Option.bind_eq_bind, Option.bind_some,
      Option.pure_def]
    rfl
  case h2 =>
    refine ⟨by simp only; omega, rfl, rfl, ?_, ?_⟩
    · intro j hj hlt
      simp only [Vector.getElem_set, Nat.add_zero]
      by_cases c3 : 1 + 4 * k + 3 = j
      · subst c3
        rw [if_pos rfl, roundW_fst _ w3]
        simp only [e3, show 1 + 4 * k + 3 + 1 = 1 + 4 * k + 4 from rfl, e4]
      rw [if_neg c3]
      by_cases c2 : 1 + 4 * k + 2 = j
      · subst c2
        rw [if_pos rfl, roundW_fst _ w2]
        simp only [e2, show 1 + 4 * k + 2 + 1 = 1 + 4 * k + 3 from rfl, e3]
      rw [if_neg c2]
      by_cases c1 : 1 + 4 * k + 1 = j
      · subst c1
        rw [if_pos rfl, roundW_fst _ w1]
        simp only [e1, show 1 + 4 * k + 1 + 1 = 1 + 4 * k + 2 from rfl, e2]
      rw [if_neg c1]
      by_cases c0 : 1 + 4 * k = j
      · subst c0
        rw [if_pos rfl, roundW_fst _ (by omega)]
        simp only [e0, e1, hbL, hbH]
      rw [if_neg c0]
      exact hl j hj (by omega)
    · intro j hj hlt
      simp only [Vector.getElem_set, Nat.add_zero]
      by_cases c3 : 1 + 4 * k + 3 = j
      · subst c3
        rw [if_pos rfl, roundW_snd _ w3]
        simp only [e3, show 1 + 4 * k + 3 + 1 = 1 + 4 * k + 4 from rfl, e4]
      rw [if_neg c3]
      by_cases c2 : 1 + 4 * k + 2 = j
      · subst c2
        rw [if_pos rfl, roundW_snd _ w2]
        simp only [e2, show 1 + 4 * k + 2 + 1 = 1 + 4 * k + 3 from rfl, e3]
      rw [if_neg c2]
      by_cases c1 : 1 + 4 * k + 1 = j
      · subst c1
        rw [if_pos rfl, roundW_snd _ w1]
        simp only [e1, show 1 + 4 * k + 1 + 1 = 1 + 4 * k + 2 from rfl, e2]
      rw [if_neg c1]
      by_cases c0 : 1 + 4 * k = j
      · subst c0
        rw [if_pos rfl, roundW_snd _ (by omega)]
        simp only [e0, e1, hbL, hbH]
      rw [if_neg c0]
      exact hh j hj (by omega)

theorem innerLoop_spec (lfrom hfrom : Plane) (n : Nat) :
    ∀ (k i : Nat) (s : LoopSt), i = 1 + 4 * k → k + n = 182 → Inv lfrom hfrom k s →
      ∃ s', innerLoop lfrom hfrom n i s = some s' ∧ Inv lfrom hfrom 182 s' := by
  induction n with
  | zero =>
    intro k i s hi hk inv
    obtain rfl : k = 182 := by omega
    exact ⟨s, rfl, inv⟩
  | succ n ih =>
    intro k i s hi hk inv
    subst hi
    obtain ⟨s1, h1, inv1⟩ := loopBody_spec lfrom hfrom k (by omega) s inv
    obtain ⟨s2, h2, inv2⟩ := ih (k + 1) (1 + 4 * k + 4) s1 (by omega) (by omega) inv1
    refine ⟨s2, ?_, inv2⟩
    rw [innerLoop, h1]
    simp only [Option.bind_eq_bind, Option.bind_some]
    exact h2

/-- one round of the Go loop is the closed form, whatever the to-buffers held; in particular none of
its reads or writes is out of range. -/
theorem roundGo_eq (lto hto lfrom hfrom : Plane) :
    roundGo lto hto lfrom hfrom = some (roundW (lfrom, hfrom)) := by
  have inv0 : Inv lfrom hfrom 0
      { t := 364, bL := rdW lfrom 364, bH := rdW hfrom 364,
        lto := lto.set 0 (sBox (rdW lfrom 0) (rdW hfrom 0) (rdW lfrom 364) (rdW hfrom 364)).1,
        hto := hto.set 0 (sBox (rdW lfrom 0) (rdW hfrom 0) (rdW lfrom 364) (rdW hfrom 364)).2 } := by
    refine ⟨rfl, rfl, rfl, ?_, ?_⟩
    · intro j hj hlt
      obtain rfl : j = 0 := by omega
      rw [roundW_fst _ hj]; simp [idx_zero, idx_one]
    · intro j hj hlt
      obtain rfl : j = 0 := by omega
      rw [roundW_snd _ hj]; simp [idx_zero, idx_one]
  obtain ⟨s', hs', inv⟩ := innerLoop_spec lfrom hfrom 182 0 1 _ rfl rfl inv0
  have h0 : (0 : Nat) < 729 := by omega
  have h364 : (364 : Nat) < 729 := by omega
  simp only [roundGo, rd_eq _ h0, rd_eq _ h364, wr_eq _ _ h0, Option.bind_eq_bind, Option.bind_some,
    Option.pure_def]
  rw [hs']
  simp only [Option.bind_some]
  refine congrArg some (Prod.ext ?_ ?_)
  · exact Vector.ext fun j hj => inv.lto j hj (by omega)
  · exact Vector.ext fun j hj => inv.hto j hj (by omega)

end Iota.Proofs.Curl
