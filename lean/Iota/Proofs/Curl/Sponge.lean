/-
T3: the batched sponge (`Absorb`, `Squeeze`, `Reset`) simulates 64 independent single-lane Curl-P
sponges.
-/
import Iota.Proofs.Curl.Lanes

namespace Iota.Proofs.Curl
open Iota.Curl Iota.Spec.CurlP Iota.Spec.CurlW

/-- the batched state `c` represents the 64 sponges `sp 0 … sp 63`. -/
def Sim (c : Curl) (sp : Nat → Spec.CurlP.Sponge) : Prop :=
  ValidEnc c.l c.h ∧
    (∀ j, j < 64 → laneState c.l c.h j = (sp j).state ∧
      ((sp j).squeezing = true ↔ c.direction = .squeezing))

/-! ### helpers on lane states -/

theorem laneState_eq_ofFn (l h : Plane) (j : Nat) (g : Nat → Int)
    (hg : ∀ i, i < 729 → tritOf (lanePair l h j i) = g i) :
    laneState l h j = Array.ofFn (n := 729) fun i => g i.val :=
  congrArg (Array.ofFn (n := 729)) (funext fun i => hg i.val i.isLt)

theorem zeroState_eq : zeroState = Array.ofFn (n := 729) fun _ => (0 : Int) := by
  apply Array.ext
  · simp [zeroState]
  · intro i h1 h2; simp [zeroState]

theorem rdW_onesPlane {i : Nat} (h : i < 729) : rdW onesPlane i = allOnes := by
  rw [rdW_eq _ h]; simp [onesPlane]

theorem allOnes_getLsbD {j : Nat} (hj : j < 64) : allOnes.getLsbD j = true := by
  unfold allOnes; rw [BitVec.getLsbD_allOnes]; simp only [hj, decide_true]

theorem lanePair_ones {j i : Nat} (hj : j < 64) (hi : i < 729) :
    lanePair onesPlane onesPlane j i = (true, true) := by
  simp only [lanePair, rdW_onesPlane hi, allOnes_getLsbD hj]

theorem laneState_ones {j : Nat} (hj : j < 64) : laneState onesPlane onesPlane j = zeroState := by
  rw [zeroState_eq]
  refine laneState_eq_ofFn _ _ _ (fun _ => 0) ?_
  intro i hi
  rw [lanePair_ones hj hi]; rfl

/-- **T3, init.** -/
theorem sim_init : Sim Curl.init (fun _ => Spec.CurlP.Sponge.init) := by
  refine ⟨?_, ?_⟩
  · rw [validEnc_iff]
    intro i hi j hj
    show validPair (lanePair onesPlane onesPlane j i)
    rw [lanePair_ones hj hi]; exact Or.inl rfl
  · intro j hj
    refine ⟨?_, ?_⟩
    · exact laneState_ones hj
    · simp [Spec.CurlP.Sponge.init, Curl.init]

/-! ### one absorbed block -/

theorem bool2int_getLsbD (b : Bool) {j : Nat} (hj : j < 64) : (bool2int b).getLsbD j = b := by
  cases b
  · simp [bool2int]
  · simp only [bool2int, if_true, allOnes_getLsbD hj]

theorem mask_getLsbD (k : Nat) {j : Nat} (hj : j < 64) :
    (~~~((1 : W) <<< k)).getLsbD j = !decide (j = k) := by
  rw [BitVec.getLsbD_not, BitVec.getLsbD_shiftLeft]
  simp only [hj, decide_true, Bool.true_and]
  by_cases h : j = k
  · subst h; simp
  · by_cases h2 : j < k
    · simp [h, h2]
    · have : j - k ≠ 0 := by omega
      simp [h, h2, this]

theorem rdW_ofFn (g : Fin 729 → W) {i : Nat} (h : i < 729) :
    rdW (Vector.ofFn g) i = g ⟨i, h⟩ := by
  rw [rdW_eq _ h]; simp

/-- what `c.in(src, k)` does to the bit pairs of lane `j`. -/
theorem inLane_lanePair (l h : Plane) (src : List Int) (k : Nat) {j i : Nat} (hj : j < 64)
    (hi : i < 729) :
    lanePair (inLane l h src k).1 (inLane l h src k).2 j i =
      if i < 243 ∧ j = k then
        ((lanePair l h j i).1 && decide (src.getD i 0 ≤ 0), (lanePair l h j i).2 && decide (src.getD i 0 ≥ 0))
      else lanePair l h j i := by
  unfold lanePair inLane
  simp only [rdW_ofFn _ hi, rdW_eq _ hi, Fin.getElem_fin]
  by_cases h243 : i < 243
  · simp only [h243, if_true, true_and, BitVec.getLsbD_and, BitVec.getLsbD_or, bool2int_getLsbD _ hj,
      mask_getLsbD k hj]
    by_cases hjk : j = k
    · simp [hjk]
    · simp [hjk]
  · simp only [h243, if_false, false_and]

theorem resetRate_lanePair (l h : Plane) {j i : Nat} (hj : j < 64) (hi : i < 729) :
    lanePair (resetRate l) (resetRate h) j i = if i < 243 then (true, true) else lanePair l h j i := by
  unfold lanePair resetRate
  simp only [rdW_ofFn _ hi, rdW_eq _ hi, Fin.getElem_fin]
  by_cases h243 : i < 243
  · simp only [h243, if_true, allOnes_getLsbD hj]
  · simp only [h243, if_false]

/-- the planes after `in` has been called for lanes `0 … n-1`. -/
def absorbedPlanes (src : List (List Int)) (off : Nat) (n : Nat) (lh : Plane × Plane) : Plane × Plane :=
  (List.range n).foldl
    (fun (acc : Plane × Plane) j => inLane acc.1 acc.2 ((src.getD j []).drop off) j) lh

theorem absorbedPlanes_lanePair (src : List (List Int)) (off : Nat) (n : Nat) (lh : Plane × Plane)
    {j i : Nat} (hj : j < 64) (hi : i < 729) :
    lanePair (absorbedPlanes src off n lh).1 (absorbedPlanes src off n lh).2 j i =
      if i < 243 ∧ j < n then
        ((lanePair lh.1 lh.2 j i).1 && decide (((src.getD j []).drop off).getD i 0 ≤ 0),
         (lanePair lh.1 lh.2 j i).2 && decide (((src.getD j []).drop off).getD i 0 ≥ 0))
      else lanePair lh.1 lh.2 j i := by
  induction n with
  | zero => simp [absorbedPlanes]
  | succ n ih =>
    have step : absorbedPlanes src off (n + 1) lh =
        inLane (absorbedPlanes src off n lh).1 (absorbedPlanes src off n lh).2
          ((src.getD n []).drop off) n := by
      simp only [absorbedPlanes, List.range_succ, List.foldl_append, List.foldl_cons, List.foldl_nil]
    rw [step, inLane_lanePair _ _ _ _ hj hi, ih]
    by_cases h243 : i < 243
    · by_cases hjn : j = n
      · subst hjn
        simp [h243]
      · by_cases hlt : j < n
        · have : j < n + 1 := by omega
          simp [h243, hjn, hlt, this]
        · have : ¬ j < n + 1 := by omega
          simp [h243, hjn, hlt, this]
    · simp [h243]

theorem tritOf_sign (x : Int) : tritOf (decide (x ≤ 0), decide (x ≥ 0)) = normTrit x := by
  unfold tritOf normTrit
  by_cases h1 : x > 0
  · have : ¬ x ≤ 0 := by omega
    have : x ≥ 0 := by omega
    simp [*]
  · by_cases h2 : x < 0
    · have : x ≤ 0 := by omega
      have : ¬ x ≥ 0 := by omega
      simp [*]
    · have : x ≤ 0 := by omega
      have : x ≥ 0 := by omega
      simp [*]

theorem validPair_sign (x : Int) : validPair (decide (x ≤ 0), decide (x ≥ 0)) := by
  unfold validPair
  by_cases h : x ≤ 0
  · left; simp [h]
  · right; have : x ≥ 0 := by omega
    simp [this]

/-- the bit pairs of lane `j` after the rate has been reset and all `src.length` lanes written. -/
theorem block_lanePair (src : List (List Int)) (off : Nat) (l h : Plane) {j i : Nat} (hj : j < 64)
    (hi : i < 729) :
    lanePair (absorbedPlanes src off src.length (resetRate l, resetRate h)).1
        (absorbedPlanes src off src.length (resetRate l, resetRate h)).2 j i =
      if i < 243 then
        (decide (((src.getD j []).drop off).getD i 0 ≤ 0), decide (((src.getD j []).drop off).getD i 0 ≥ 0))
      else lanePair l h j i := by
  rw [absorbedPlanes_lanePair _ _ _ _ hj hi, resetRate_lanePair _ _ hj hi]
  by_cases h243 : i < 243
  · by_cases hlt : j < src.length
    · simp [h243, hlt]
    · simp [h243, hlt]
  · simp [h243]

/-! ### absorb -/

theorem absorbBlock_state (s : Spec.CurlP.Sponge) (block : List Int) :
    (s.absorbBlock block).state = Spec.CurlP.transform (Array.ofFn (n := 729) fun i =>
      if i.val < 243 then normTrit (block.getD i.val 0) else s.state.getD i.val 0) := by
  simp only [Spec.CurlP.Sponge.absorbBlock]

theorem absorbBlock_squeezing (s : Spec.CurlP.Sponge) (block : List Int) :
    (s.absorbBlock block).squeezing = s.squeezing := by
  unfold Spec.CurlP.Sponge.absorbBlock; rfl

theorem absorb_succ (s : Spec.CurlP.Sponge) (input : List Int) (n : Nat) :
    s.absorb input (n + 1) = (s.absorbBlock input).absorb (input.drop 243) n := by
  conv => lhs; unfold Spec.CurlP.Sponge.absorb

theorem absorbBlocks_succ (src : List (List Int)) (n off : Nat) (c : Curl) :
    absorbBlocks src (n + 1) off c =
      (Curl.transform { c with
          l := (absorbedPlanes src off src.length (resetRate c.l, resetRate c.h)).1,
          h := (absorbedPlanes src off src.length (resetRate c.l, resetRate c.h)).2 }).bind
        fun c' => absorbBlocks src n (off + 243) c' := rfl

theorem absorbBlocks_sim (src : List (List Int)) (n : Nat) :
    ∀ (off : Nat) (c : Curl) (sp : Nat → Spec.CurlP.Sponge), Sim c sp →
      ∃ c', absorbBlocks src n off c = some c' ∧ c'.direction = c.direction ∧
        Sim c' (fun j => (sp j).absorb ((src.getD j []).drop off) n) := by
  induction n with
  | zero => intro off c sp hs; exact ⟨c, rfl, rfl, hs⟩
  | succ n ih =>
    intro off c sp hs
    obtain ⟨hv, hl⟩ := hs
    -- the state after the block has been written
    obtain ⟨lh, hlh⟩ : ∃ lh, lh = absorbedPlanes src off src.length (resetRate c.l, resetRate c.h) :=
      ⟨_, rfl⟩
    have hblock := @block_lanePair src off c.l c.h
    rw [← hlh] at hblock
    have hvalid : ValidEnc lh.1 lh.2 := by
      rw [validEnc_iff]
      intro i hi j hj
      rw [hblock hj hi]
      split
      · exact validPair_sign _
      · exact hv i hi j hj
    have hstate : ∀ j, j < 64 → laneState lh.1 lh.2 j =
        Array.ofFn (n := 729) fun i =>
          if i.val < 243 then normTrit (((src.getD j []).drop off).getD i.val 0)
          else (sp j).state.getD i.val 0 := by
      intro j hj
      refine laneState_eq_ofFn lh.1 lh.2 j
        (fun i => if i < 243 then normTrit (((src.getD j []).drop off).getD i 0)
          else (sp j).state.getD i 0) ?_
      intro i hi
      rw [hblock hj hi]
      split
      · exact tritOf_sign _
      · rw [← (hl j hj).1, laneState_getD _ _ _ _ hi]; rfl
    obtain ⟨c1, hc1, hd1, hv1, hl1⟩ :=
      transform_lanes { c with l := lh.1, h := lh.2 } hvalid
    have hs1 : Sim c1 (fun j => (sp j).absorbBlock ((src.getD j []).drop off)) := by
      refine ⟨hv1, fun j hj => ⟨?_, ?_⟩⟩
      · rw [hl1 j hj]
        rw [absorbBlock_state, ← hstate j hj]
      · rw [hd1, absorbBlock_squeezing]; exact (hl j hj).2
    obtain ⟨c2, hc2, hd2, hs2⟩ := ih (off + 243) c1 _ hs1
    refine ⟨c2, ?_, ?_, ?_⟩
    · rw [absorbBlocks_succ, ← hlh, hc1]; exact hc2
    · rw [hd2, hd1]
    · have : (fun j => (sp j).absorb ((src.getD j []).drop off) (n + 1)) =
          fun j => ((sp j).absorbBlock ((src.getD j []).drop off)).absorb
            ((src.getD j []).drop (off + 243)) n := by
        funext j
        rw [absorb_succ, List.drop_drop]
      rw [this]; exact hs2

/-- **T3, absorb.** -/
theorem absorb_sim (c : Curl) (sp : Nat → Spec.CurlP.Sponge) (hs : Sim c sp)
    (src : List (List Int)) (n : Nat) (hdir : c.direction = .absorbing)
    (hlen1 : 1 ≤ src.length) (hlen64 : src.length ≤ 64) (hn : n % 243 = 0)
    (hlanes : ∀ lane ∈ src, n ≤ lane.length) :
    ∃ c', c.absorb src n = .ok c' () ∧ c'.direction = .absorbing ∧
      Sim c' (fun j => (sp j).absorb (src.getD j []) (n / 243)) := by
  obtain ⟨c', hc', hd', hs'⟩ := absorbBlocks_sim src (n / 243) 0 c sp hs
  refine ⟨c', ?_, by rw [hd', hdir], by simpa using hs'⟩
  have h1 : ¬ (src.length < 1 ∨ src.length > 64) := by omega
  have h2 : ¬ (n ≠ 0 ∧ (src.any fun lane => decide (lane.length < n)) = true) := by
    rintro ⟨_, h⟩
    rw [List.any_eq_true] at h
    obtain ⟨lane, hm, hlt⟩ := h
    have := hlanes lane hm
    simp at hlt; omega
  simp only [Curl.absorb, h1, if_false, hn, ne_eq, not_true_eq_false, hdir, h2, hc']

/-! ### returned errors and panics of `Absorb` -/

theorem absorb_err_batch (c : Curl) (src : List (List Int)) (n : Nat)
    (h : src.length < 1 ∨ src.length > 64) : c.absorb src n = .err .invalidBatchSize := by
  simp only [Curl.absorb, h, if_true]

theorem absorb_err_length (c : Curl) (src : List (List Int)) (n : Nat)
    (h1 : 1 ≤ src.length) (h64 : src.length ≤ 64) (hn : n % 243 ≠ 0) :
    c.absorb src n = .err .invalidTritsLength := by
  have h : ¬ (src.length < 1 ∨ src.length > 64) := by omega
  simp only [Curl.absorb, h, if_false, hn, ne_eq, not_false_eq_true, if_true]

theorem absorb_panic_squeezing (c : Curl) (src : List (List Int)) (n : Nat)
    (h1 : 1 ≤ src.length) (h64 : src.length ≤ 64) (hn : n % 243 = 0)
    (hdir : c.direction = .squeezing) : c.absorb src n = .panic := by
  have h : ¬ (src.length < 1 ∨ src.length > 64) := by omega
  simp only [Curl.absorb, h, if_false, hn, ne_eq, not_true_eq_false, hdir, reduceCtorEq,
    not_false_eq_true, if_true]

/-! ### squeeze -/

theorem squeeze_succ_fst (s : Spec.CurlP.Sponge) (n : Nat) :
    (s.squeeze (n + 1)).1 = (s.squeezeBlock.1.squeeze n).1 := rfl

theorem squeeze_succ_snd (s : Spec.CurlP.Sponge) (n : Nat) :
    (s.squeeze (n + 1)).2 = s.squeezeBlock.2 ++ (s.squeezeBlock.1.squeeze n).2 := rfl

theorem squeezeBlocks_succ (lanes n : Nat) (c : Curl) (acc : List (List Int)) :
    squeezeBlocks lanes (n + 1) c acc =
      (if c.direction = .squeezing then Curl.transform c else some c).bind fun c1 =>
        squeezeBlocks lanes n { c1 with direction := .squeezing }
          ((List.range lanes).map fun j =>
            acc.getD j [] ++ outLane { c1 with direction := .squeezing } j) := by
  rw [squeezeBlocks]; split <;> rfl

theorem squeezeBlocks_sim (lanes : Nat) (hl64 : lanes ≤ 64) (n : Nat) :
    ∀ (c : Curl) (acc : List (List Int)) (sp : Nat → Spec.CurlP.Sponge), Sim c sp →
      acc.length = lanes →
      ∃ c', squeezeBlocks lanes n c acc =
          some (c', (List.range lanes).map fun j => acc.getD j [] ++ ((sp j).squeeze n).2) ∧
        (c'.direction = if n = 0 then c.direction else .squeezing) ∧
        Sim c' (fun j => ((sp j).squeeze n).1) := by
  induction n with
  | zero =>
    intro c acc sp hs hacc
    refine ⟨c, ?_, rfl, hs⟩
    rw [squeezeBlocks]
    congr 2
    apply List.ext_getElem?
    intro i
    by_cases hi : i < lanes
    · simp [List.getElem?_map, List.getElem?_range hi, Spec.CurlP.Sponge.squeeze,
        List.getD_eq_getElem?_getD, List.getElem?_eq_getElem (hacc ▸ hi)]
    · rw [List.getElem?_eq_none (by omega), List.getElem?_eq_none (by simp; omega)]
  | succ n ih =>
    intro c acc sp hs hacc
    obtain ⟨hv, hl⟩ := hs
    -- the optional transform
    have h1 : ∃ c1, (if c.direction = .squeezing then Curl.transform c else some c) = some c1 ∧
        Sim { c1 with direction := .squeezing } (fun j => (sp j).squeezeBlock.1) := by
      by_cases hd : c.direction = .squeezing
      · obtain ⟨c1, hc1, hd1, hv1, hl1⟩ := transform_lanes c hv
        refine ⟨c1, by rw [if_pos hd]; exact hc1, hv1, fun j hj => ⟨?_, by simp [Spec.CurlP.Sponge.squeezeBlock]⟩⟩
        have : (sp j).squeezing = true := (hl j hj).2.mpr hd
        show laneState c1.l c1.h j = _
        rw [hl1 j hj, (hl j hj).1]
        simp [Spec.CurlP.Sponge.squeezeBlock, this]
      · refine ⟨c, by rw [if_neg hd], hv, fun j hj => ⟨?_, by simp [Spec.CurlP.Sponge.squeezeBlock]⟩⟩
        have : ¬ (sp j).squeezing = true := fun h => hd ((hl j hj).2.mp h)
        show laneState c.l c.h j = _
        rw [(hl j hj).1]
        simp [Spec.CurlP.Sponge.squeezeBlock, this]
    obtain ⟨c1, hc1, hs1⟩ := h1
    let c2 : Curl := { c1 with direction := .squeezing }
    have hout : ∀ j, j < 64 → outLane c2 j = (sp j).squeezeBlock.2 := by
      intro j hj
      have hst := (hs1.2 j hj).1
      have e : (sp j).squeezeBlock.2 =
          (List.range 243).map fun i => (sp j).squeezeBlock.1.state.getD i 0 := rfl
      rw [e]
      unfold outLane
      apply List.map_congr_left
      intro i hi
      have hi' : i < 729 := by have := List.mem_range.mp hi; omega
      have := laneState_getD c2.l c2.h j i hi'
      rw [hst] at this
      exact this.symm ▸ rfl
    let acc' := (List.range lanes).map fun j => acc.getD j [] ++ outLane c2 j
    have hacc' : acc'.length = lanes := by simp [acc']
    obtain ⟨c3, hc3, hd3, hs3⟩ := ih c2 acc' _ hs1 hacc'
    refine ⟨c3, ?_, ?_, hs3⟩
    · rw [squeezeBlocks_succ, hc1]
      show squeezeBlocks lanes n c2 acc' = _
      rw [hc3]
      congr 2
      apply List.map_congr_left
      intro j hj
      have hj' : j < lanes := List.mem_range.mp hj
      have e1 : acc'.getD j [] = acc.getD j [] ++ outLane c2 j := by
        simp [acc', List.getD_eq_getElem?_getD, List.getElem?_map, List.getElem?_range hj']
      rw [e1, hout j (by omega), squeeze_succ_snd, List.append_assoc]
    · rw [hd3]; simp only [Nat.succ_ne_zero, if_false]
      split <;> rfl

theorem squeeze_zero_fst (s : Spec.CurlP.Sponge) : (s.squeeze 0).1 = s := rfl

theorem squeeze_fst_if (s : Spec.CurlP.Sponge) (k : Nat) :
    (if k = 0 then s else (s.squeeze k).1) = (s.squeeze k).1 := by
  split
  · next h => subst h; rfl
  · rfl

/-- **T3, squeeze.** -/
theorem squeeze_sim (c : Curl) (sp : Nat → Spec.CurlP.Sponge) (hs : Sim c sp)
    (lanes n : Nat) (h1 : 1 ≤ lanes) (h64 : lanes ≤ 64) (hn : n % 243 = 0) :
    ∃ c' out, c.squeeze lanes n = .ok c' out ∧
      out = (List.range lanes).map (fun j => ((sp j).squeeze (n / 243)).2) ∧
      (c'.direction = if n / 243 = 0 then c.direction else .squeezing) ∧
      Sim c' (fun j => if n / 243 = 0 then sp j else ((sp j).squeeze (n / 243)).1) := by
  obtain ⟨c', hc', hd', hs'⟩ :=
    squeezeBlocks_sim lanes h64 (n / 243) c (List.replicate lanes []) sp hs (by simp)
  have hout : ((List.range lanes).map fun j =>
        (List.replicate lanes ([] : List Int)).getD j [] ++ ((sp j).squeeze (n / 243)).2) =
      (List.range lanes).map fun j => ((sp j).squeeze (n / 243)).2 := by
    apply List.map_congr_left
    intro j hj
    have hj' : j < lanes := List.mem_range.mp hj
    simp [List.getD_eq_getElem?_getD, hj']
  rw [hout] at hc'
  refine ⟨c', _, ?_, rfl, hd', ?_⟩
  · have h : ¬ (lanes < 1 ∨ lanes > 64) := by omega
    simp only [Curl.squeeze, h, if_false, hn, ne_eq, not_true_eq_false, hc']
  · simp only [squeeze_fst_if]; exact hs'

/-! ### returned errors of `Squeeze` -/

theorem squeeze_err_batch (c : Curl) (lanes n : Nat) (h : lanes < 1 ∨ lanes > 64) :
    c.squeeze lanes n = .err .invalidBatchSize := by
  simp only [Curl.squeeze, h, if_true]

theorem squeeze_err_length (c : Curl) (lanes n : Nat) (h1 : 1 ≤ lanes) (h64 : lanes ≤ 64)
    (hn : n % 243 ≠ 0) : c.squeeze lanes n = .err .invalidSqueezeLength := by
  have h : ¬ (lanes < 1 ∨ lanes > 64) := by omega
  simp only [Curl.squeeze, h, if_false, hn, ne_eq, not_false_eq_true, if_true]

/-- `Squeeze` never panics (for any state, valid encoding or not). -/
theorem squeeze_no_panic (c : Curl) (lanes n : Nat) : c.squeeze lanes n ≠ .panic := by
  have hb : ∀ k c acc, squeezeBlocks lanes k c acc ≠ none := by
    intro k
    induction k with
    | zero => intro c acc; simp [squeezeBlocks]
    | succ k ih =>
      intro c acc
      rw [squeezeBlocks_succ]
      split
      · rw [Curl.transform_eq]; exact ih _ _
      · exact ih _ _
  unfold Curl.squeeze
  split
  · simp
  · split
    · simp
    · split
      · simp
      · next h => exact absurd h (hb _ _ _)

/-- `Absorb` panics only on a direction violation or a too-short lane (never inside the permutation). -/
theorem absorb_panic_iff (c : Curl) (src : List (List Int)) (n : Nat) :
    c.absorb src n = .panic ↔
      (1 ≤ src.length ∧ src.length ≤ 64 ∧ n % 243 = 0 ∧
        (c.direction ≠ .absorbing ∨ (n ≠ 0 ∧ ∃ lane ∈ src, lane.length < n))) := by
  have hb : ∀ k off c, absorbBlocks src k off c ≠ none := by
    intro k
    induction k with
    | zero => intro off c; simp [absorbBlocks]
    | succ k ih =>
      intro off c
      rw [absorbBlocks_succ, Curl.transform_eq]; exact ih _ _
  unfold Curl.absorb
  split
  · next h => simp; omega
  · next h =>
    split
    · next h2 => simp; omega
    · next h2 =>
      split
      · next h3 => simp [h3]; omega
      · next h3 =>
        split
        · next h4 =>
          simp only [true_iff]
          refine ⟨by omega, by omega, by omega, Or.inr ⟨h4.1, ?_⟩⟩
          have := h4.2
          rw [List.any_eq_true] at this
          obtain ⟨lane, hm, hlt⟩ := this
          exact ⟨lane, hm, by simpa using hlt⟩
        · next h4 =>
          split
          · simp only [reduceCtorEq, false_iff]
            rintro ⟨_, _, _, hor⟩
            rcases hor with hd | ⟨hn0, lane, hm, hlt⟩
            · exact h3 hd
            · exact h4 ⟨hn0, List.any_eq_true.mpr ⟨lane, hm, by simpa using hlt⟩⟩
          · next hnone => exact absurd hnone (hb _ _ _)

end Iota.Proofs.Curl
