/-
T2: lane by lane, the bit-sliced s-box is the Curl-P truth table.  First for arbitrary words (the
bit-pair function `fPair`), then for valid encodings against `Spec.CurlP`.
-/
import Iota.Proofs.Curl.Transform

namespace Iota.Proofs.Curl
open Iota.Curl Iota.Spec.CurlP Iota.Spec.CurlW

/-! ### definitions -/

def laneTrit (l h : Plane) (j i : Nat) : Int :=
  (if (h.toArray.getD i 0).getLsbD j then 1 else 0) - (if (l.toArray.getD i 0).getLsbD j then 1 else 0)

def laneState (l h : Plane) (j : Nat) : Spec.CurlP.State :=
  Array.ofFn (n := 729) fun i => laneTrit l h j i.val

def ValidEnc (l h : Plane) : Prop :=
  ∀ i, i < 729 → ∀ j, j < 64 →
    (l.toArray.getD i 0).getLsbD j = true ∨ (h.toArray.getD i 0).getLsbD j = true

/-- the s-box on one lane's `(l, h)` bit pairs. -/
def fPair (a b : Bool × Bool) : Bool × Bool :=
  let tmp := a.1 && (a.2 ^^ b.1)
  (!tmp, (a.1 ^^ b.2) || tmp)

/-- the `(l, h)` bits of lane `j` at position `i`. -/
def lanePair (l h : Plane) (j i : Nat) : Bool × Bool :=
  ((rdW l i).getLsbD j, (rdW h i).getLsbD j)

/-- the trit a bit pair encodes (`(0,0)` reads as 0). -/
def tritOf (p : Bool × Bool) : Int := (if p.2 then 1 else 0) - (if p.1 then 1 else 0)

def validPair (p : Bool × Bool) : Prop := p.1 = true ∨ p.2 = true

instance (p : Bool × Bool) : Decidable (validPair p) := by unfold validPair; infer_instance

/-- one round on a lane of bit pairs. -/
def pairRound (s : Nat → Bool × Bool) : Nat → Bool × Bool :=
  fun i => fPair (s (idx i)) (s (idx (i + 1)))

def pairRounds : Nat → (Nat → Bool × Bool) → Nat → Bool × Bool
  | 0, s => s
  | n + 1, s => pairRounds n (pairRound s)

/-! ### arbitrary words -/

theorem sBox_lane (aL aH bL bH : W) (j : Nat) (hj : j < 64) :
    ((sBox aL aH bL bH).1.getLsbD j, (sBox aL aH bL bH).2.getLsbD j) =
      fPair (aL.getLsbD j, aH.getLsbD j) (bL.getLsbD j, bH.getLsbD j) := by
  simp [sBox, fPair, hj]

theorem rdW_roundW_fst (lh : Plane × Plane) {i : Nat} (h : i < 729) :
    rdW (roundW lh).1 i = (sBox (rdW lh.1 (idx i)) (rdW lh.2 (idx i))
      (rdW lh.1 (idx (i + 1))) (rdW lh.2 (idx (i + 1)))).1 := by
  rw [rdW_eq _ h, roundW_fst _ h]

theorem rdW_roundW_snd (lh : Plane × Plane) {i : Nat} (h : i < 729) :
    rdW (roundW lh).2 i = (sBox (rdW lh.1 (idx i)) (rdW lh.2 (idx i))
      (rdW lh.1 (idx (i + 1))) (rdW lh.2 (idx (i + 1)))).2 := by
  rw [rdW_eq _ h, roundW_snd _ h]

/-- **T2, all states.** Lane `j` of one word-level round is the `fPair` round of lane `j`'s bit
pairs, for arbitrary planes (no validity assumption). -/
theorem roundW_lanePair (l h : Plane) (j : Nat) (hj : j < 64) (i : Nat) (hi : i < 729) :
    lanePair (roundW (l, h)).1 (roundW (l, h)).2 j i = pairRound (lanePair l h j) i := by
  unfold lanePair pairRound
  rw [rdW_roundW_fst _ hi, rdW_roundW_snd _ hi]
  exact sBox_lane _ _ _ _ j hj

theorem rdW_of_ge (p : Plane) {i : Nat} (h : 729 ≤ i) : rdW p i = 0 := by
  simp only [rdW, Array.getD, Vector.size_toArray]
  rw [dif_neg (by omega)]

theorem lanePair_of_ge (l h : Plane) (j : Nat) {i : Nat} (hi : 729 ≤ i) :
    lanePair l h j i = (false, false) := by
  simp [lanePair, rdW_of_ge _ hi]

/-- lanes of `roundsW n`, arbitrary planes. -/
theorem roundsW_lanePair (n : Nat) (l h : Plane) (j : Nat) (hj : j < 64) (i : Nat) (hi : i < 729) :
    lanePair (roundsW n (l, h)).1 (roundsW n (l, h)).2 j i = pairRounds n (lanePair l h j) i := by
  induction n generalizing l h i with
  | zero => rfl
  | succ n ih =>
    rw [roundsW_succ, pairRounds]
    have key : ∀ n (s s' : Nat → Bool × Bool), (∀ i, i < 729 → s i = s' i) →
        ∀ i, pairRounds n s i = pairRounds n s' i ∨ n = 0 := by
      intro n
      induction n with
      | zero => intro _ _ _ _; exact Or.inr rfl
      | succ n ihn =>
        intro s s' hs i
        left
        have h1 : ∀ i, pairRound s i = pairRound s' i := by
          intro i; unfold pairRound; rw [hs _ (idx_lt _), hs _ (idx_lt _)]
        rw [pairRounds, pairRounds, show pairRound s = pairRound s' from funext h1]
    have := ih (roundW (l, h)).1 (roundW (l, h)).2 i hi
    rw [show ((roundW (l, h)).1, (roundW (l, h)).2) = roundW (l, h) from rfl] at this
    rw [this]
    rcases key n _ _ (fun i hi => roundW_lanePair l h j hj i hi) i with h | h
    · exact h
    · subst h; exact roundW_lanePair l h j hj i hi

/-! ### valid pairs: `fPair` is the truth table -/

theorem fPair_valid (a b : Bool × Bool) (ha : validPair a) (hb : validPair b) :
    validPair (fPair a b) ∧ tritOf (fPair a b) = f (tritOf a) (tritOf b) := by
  have key : ∀ a1 a2 b1 b2 : Bool, validPair (a1, a2) → validPair (b1, b2) →
      validPair (fPair (a1, a2) (b1, b2)) ∧
        tritOf (fPair (a1, a2) (b1, b2)) = f (tritOf (a1, a2)) (tritOf (b1, b2)) := by decide
  exact key a.1 a.2 b.1 b.2 ha hb

/-- `fPair` never produces the invalid pair `(0,0)`, whatever its arguments. -/
theorem fPair_valid_left (a b : Bool × Bool) : validPair (fPair a b) := by
  have key : ∀ a1 a2 b1 b2 : Bool, validPair (fPair (a1, a2) (b1, b2)) := by decide
  exact key a.1 a.2 b.1 b.2

/-! ### lanes as trit states -/

theorem laneTrit_eq (l h : Plane) (j i : Nat) : laneTrit l h j i = tritOf (lanePair l h j i) := rfl

theorem validEnc_iff (l h : Plane) :
    ValidEnc l h ↔ ∀ i, i < 729 → ∀ j, j < 64 → validPair (lanePair l h j i) := Iff.rfl

theorem laneState_getD (l h : Plane) (j i : Nat) (hi : i < 729) :
    (laneState l h j).getD i 0 = laneTrit l h j i := by
  simp [laneState, Array.getD, hi]

theorem laneState_size (l h : Plane) (j : Nat) : (laneState l h j).size = 729 := by
  simp [laneState]

/-- validity is preserved by a round (indeed produced by it). -/
theorem roundW_valid (l h : Plane) : ValidEnc (roundW (l, h)).1 (roundW (l, h)).2 := by
  rw [validEnc_iff]
  intro i hi j hj
  rw [roundW_lanePair l h j hj i hi]
  exact fPair_valid_left _ _

/-- **T2, one round.** -/
theorem roundW_lanes (l h : Plane) (hv : ValidEnc l h) (j : Nat) (hj : j < 64) :
    laneState (roundW (l, h)).1 (roundW (l, h)).2 j = Spec.CurlP.round (laneState l h j) := by
  unfold Spec.CurlP.round
  rw [laneState]
  refine congrArg (Array.ofFn (n := 729)) (funext fun i => ?_)
  rw [laneState_getD _ _ _ _ (idx_lt _), laneState_getD _ _ _ _ (idx_lt _), laneTrit_eq, laneTrit_eq,
    laneTrit_eq, roundW_lanePair l h j hj i.val i.isLt]
  exact (fPair_valid (lanePair l h j (idx i.val)) (lanePair l h j (idx (i.val + 1)))
    (hv _ (idx_lt _) j hj) (hv _ (idx_lt _) j hj)).2

theorem roundsW_valid (n : Nat) (l h : Plane) (hv : ValidEnc l h) :
    ValidEnc (roundsW n (l, h)).1 (roundsW n (l, h)).2 := by
  induction n generalizing l h with
  | zero => exact hv
  | succ n ih => rw [roundsW_succ]; exact ih _ _ (roundW_valid l h)

/-- **T2, `n` rounds.** -/
theorem roundsW_lanes (n : Nat) (l h : Plane) (hv : ValidEnc l h) (j : Nat) (hj : j < 64) :
    laneState (roundsW n (l, h)).1 (roundsW n (l, h)).2 j = Spec.CurlP.rounds n (laneState l h j) := by
  induction n generalizing l h with
  | zero => rfl
  | succ n ih =>
    rw [roundsW_succ, Spec.CurlP.rounds, ← roundW_lanes l h hv j hj]
    exact ih _ _ (roundW_valid l h)

/-- **T2, the permutation.** -/
theorem transform_lanes (c : Curl) (hv : ValidEnc c.l c.h) :
    ∃ c', c.transform = some c' ∧ c'.direction = c.direction ∧ ValidEnc c'.l c'.h ∧
      ∀ j, j < 64 → laneState c'.l c'.h j = Spec.CurlP.transform (laneState c.l c.h j) :=
  ⟨_, Curl.transform_eq c, rfl, roundsW_valid 81 c.l c.h hv,
    fun j hj => roundsW_lanes 81 c.l c.h hv j hj⟩

/-- the permutation on arbitrary planes, lane by lane (no validity assumption). -/
theorem transform_lanePair (c : Curl) :
    ∃ c', c.transform = some c' ∧ c'.direction = c.direction ∧
      ∀ j, j < 64 → ∀ i, i < 729 → lanePair c'.l c'.h j i = pairRounds 81 (lanePair c.l c.h j) i :=
  ⟨_, Curl.transform_eq c, rfl, fun j hj i hi => roundsW_lanePair 81 c.l c.h j hj i hi⟩

end Iota.Proofs.Curl
