/-
T1: `transformGeneric` (81 rounds of the Go loop with the buffer swap) is the closed form
`roundsW 81`, with round 80 left in the from-buffers; it never panics.
-/
import Iota.Proofs.Curl.Walk

namespace Iota.Proofs.Curl
open Iota.Curl Iota.Spec.CurlP Iota.Spec.CurlW

theorem roundsW_succ (n : Nat) (lh : Plane × Plane) : roundsW (n + 1) lh = roundsW n (roundW lh) := rfl

theorem roundsW_succ' (n : Nat) (lh : Plane × Plane) : roundsW (n + 1) lh = roundW (roundsW n lh) := by
  induction n generalizing lh with
  | zero => rfl
  | succ n ih => rw [roundsW_succ, ih, ← roundsW_succ]

theorem roundsGo_one (b : Bufs) :
    roundsGo 1 false b = some { b with lto := (roundW (b.lfrom, b.hfrom)).1, hto := (roundW (b.lfrom, b.hfrom)).2 } := by
  simp only [roundsGo, roundGo_eq, Bool.false_eq_true, if_false, Option.bind_eq_bind, Option.bind_some]

/-- two rounds: the first fills the caller's to-buffers, the second the caller's from-buffers. -/
theorem roundsGo_two (n : Nat) (b : Bufs) :
    roundsGo (n + 2) false b = roundsGo n false
      { lto := (roundW (b.lfrom, b.hfrom)).1, hto := (roundW (b.lfrom, b.hfrom)).2,
        lfrom := (roundW (roundW (b.lfrom, b.hfrom))).1, hfrom := (roundW (roundW (b.lfrom, b.hfrom))).2 } := by
  simp only [roundsGo, roundGo_eq, Bool.false_eq_true, if_false, if_true, Option.bind_eq_bind,
    Option.bind_some]

/-- an odd number of rounds ends in the caller's to-buffers. -/
theorem roundsGo_odd (m : Nat) (b : Bufs) :
    roundsGo (2 * m + 1) false b = some
      { lto := (roundsW (2 * m + 1) (b.lfrom, b.hfrom)).1, hto := (roundsW (2 * m + 1) (b.lfrom, b.hfrom)).2,
        lfrom := (roundsW (2 * m) (b.lfrom, b.hfrom)).1, hfrom := (roundsW (2 * m) (b.lfrom, b.hfrom)).2 } := by
  induction m generalizing b with
  | zero => rw [roundsGo_one]; rfl
  | succ m ih =>
    rw [show 2 * (m + 1) + 1 = (2 * m + 1) + 2 by omega, roundsGo_two, ih]
    rfl

/-- **T1.** -/
theorem transformGeneric_eq (b : Bufs) :
    transformGeneric b = some
      { lto := (roundsW 81 (b.lfrom, b.hfrom)).1, hto := (roundsW 81 (b.lfrom, b.hfrom)).2,
        lfrom := (roundsW 80 (b.lfrom, b.hfrom)).1, hfrom := (roundsW 80 (b.lfrom, b.hfrom)).2 } :=
  roundsGo_odd 40 b

/-- `c.transform()` never panics and is 81 closed-form rounds of the state. -/
theorem Curl.transform_eq (c : Curl) :
    c.transform = some { c with l := (roundsW 81 (c.l, c.h)).1, h := (roundsW 81 (c.l, c.h)).2 } := by
  simp only [Curl.transform, transformGeneric_eq, Option.bind_eq_bind, Option.bind_some, Option.pure_def]

end Iota.Proofs.Curl
