/-
Proof of work (pkg/pow v1, pkg/pow/v2): proofs about `Iota.Model.Pow`.
  ToInt   P1 constants; P2 `toInt` = little-endian base-3 value + 1, range, no uint64 overflow in the chunk loop
  Score   P3 closed form of `score`; P4 `sufficientTrailingZeros` = least s with 3^s ≥ lx, no overflow
  Bits    `firstZeroBit`, `lenNot`, `orDiff`, lane trits; top trits zero ⇔ lane integer ≤ 3^a
  V2      P5 `checkV2`: range, soundness, no pass-over, score
  V1      P6 `checkV1` exact w.r.t. trailing zeros; conditional soundness of v1 mining
  Mine    P7 `mineSeq` returns the first accepted block; combination with P5
This file collects the headline statements.
-/
import Iota.Proofs.Pow.ToInt
import Iota.Proofs.Pow.Score
import Iota.Proofs.Pow.Bits
import Iota.Proofs.Pow.V2
import Iota.Proofs.Pow.V1
import Iota.Proofs.Pow.Mine

namespace Iota.Proofs.Pow
open Iota.Pow

/-- **P1** -/
theorem P1_constants : maxHash = 3 ^ 243 ∧ uint64Radix = 3 ^ 40 := ⟨maxHash_eq, uint64Radix_eq⟩

/-- **P2** -/
theorem P2_toInt (trits : List Int) (hlen : trits.length = 243)
    (hv : ∀ t ∈ trits, t = -1 ∨ t = 0 ∨ t = 1) :
    toInt trits = digitsVal trits + 1 ∧ 1 ≤ toInt trits ∧ toInt trits ≤ 3 ^ 243 ∧
    (∀ i, chunkValue ((trits.drop (i * 40)).take 40) + 1 ≤ 3 ^ 40) ∧ 3 ^ 40 < 2 ^ 64 :=
  ⟨toInt_eq trits hlen, toInt_pos trits hlen, toInt_le trits hlen hv,
    fun i => (toInt_chunks_no_overflow trits hv i).1, three_pow_40_lt⟩

/-- **P3** -/
theorem P3_score (trits : List Int) (msgLen : Nat) (_h : 1 ≤ msgLen) :
    score trits msgLen = min (maxHash / toInt trits / msgLen) (2 ^ 64 - 1) := score_eq trits msgLen

/-- **P4** -/
theorem P4_sufficientTrailingZeros (lx : Nat) (_h1 : 1 ≤ lx) (hlx : lx < 2 ^ 64) :
    let s := sufficientTrailingZeros lx
    3 ^ s ≥ lx ∧ (∀ s', s' < s → 3 ^ s' < lx) ∧ s ≤ 41 ∧ (lx ≥ 8 → s ≥ 2) ∧
    (∀ s', s' ≤ 40 → 3 ^ s' ≤ 3 ^ 40) ∧ 3 ^ 40 < 2 ^ 64 ∧
    sufficientLoopU64 lx 41 0 1 = s :=
  ⟨sufficientTrailingZeros_ge lx hlx, sufficientTrailingZeros_least lx hlx,
    sufficientTrailingZeros_le lx hlx, sufficientTrailingZeros_ge_two lx,
    fun s' h => (sufficient_compared_lt s' h).1, three_pow_40_lt, sufficientTrailingZerosU64_eq lx⟩

/-- **P5** -/
theorem P5_checkV2 (l h : Planes) (lx : Nat) (h8 : 8 ≤ lx) (hlx : lx < 2 ^ 64) :
    let hLane := stateToInt l h
    let s := sufficientTrailingZeros lx
    let T := targetHash lx
    let i := checkV2 l h s T
    (∀ j, 1 ≤ hLane j ∧ hLane j ≤ 3 ^ 243) ∧
    i ≤ 64 ∧
    (i < 64 → maxHash / hLane i ≥ lx) ∧
    ((∃ j, j < 64 ∧ maxHash / hLane j > lx) → i < 64) ∧
    (∀ len t, 1 ≤ len → lx = len * t → i < 64 → score (laneTrits l h i) len ≥ t) :=
  ⟨stateToInt_range l h, checkV2_spec l h lx h8 hlx⟩

/-- **P6** exactness -/
theorem P6_checkV1 (l h : Planes) (n i : Nat) (hn : n ≤ 243) (hc : checkV1 l h n = i) :
    i ≤ 64 ∧
    (i < 64 → trailingZeros (laneTrits l h i) ≥ n ∧
      ∀ j, j < i → ¬ trailingZeros (laneTrits l h j) ≥ n) ∧
    (i = 64 → ∀ j, j < 64 → ¬ trailingZeros (laneTrits l h j) ≥ n) := by
  subst hc; exact checkV1_spec l h n hn

/-- **P6 + P7**: single-worker v1 mining with the least sufficient trailing-zero count `req`: the returned
lane's score meets the target and no earlier block contains a lane whose score does. -/
theorem mineSeq_v1 {F : Type} [LE F] (le_trans : ∀ a b c : F, a ≤ b → b ≤ c → a ≤ c)
    (sc : Nat → F) (mono : ∀ a b, a ≤ b → sc a ≤ sc b) (target : F) (req : Nat) (hreq : req ≤ 243)
    (hsat : target ≤ sc req) (hleast : ∀ z, z < req → ¬ target ≤ sc z)
    (planes : Nat → Planes × Planes) (fuel k b i : Nat)
    (hm : mineSeq (fun l h => checkV1 l h req) planes fuel k = some (b, i)) :
    k ≤ b ∧ i < 64 ∧
    target ≤ sc (trailingZeros (laneTrits (planes b).1 (planes b).2 i)) ∧
    ∀ b', k ≤ b' → b' < b → ∀ j, j < 64 →
      ¬ target ≤ sc (trailingZeros (laneTrits (planes b').1 (planes b').2 j)) := by
  obtain ⟨h1, -, h3, h4, h5⟩ := mineSeq_some _ planes fuel k b i hm
  replace h3 : checkV1 (planes b).1 (planes b).2 req = i := h3
  subst h3
  refine ⟨h1, h4, checkV1_mine_sound le_trans sc mono target req hreq hsat _ _ h4, ?_⟩
  intro b' hb1 hb2 j hj hz
  have := (checkV1_mine_exact le_trans sc mono target req hreq hsat hleast
    (planes b').1 (planes b').2).mpr ⟨j, hj, hz⟩
  have := h5 b' hb1 hb2
  omega

end Iota.Proofs.Pow
