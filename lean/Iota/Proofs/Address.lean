import Iota.Model.Address
import Iota.Proofs.Bech32
import Iota.Proofs.B1T6

namespace Iota.Proofs.Address
open Iota.Address Iota.Bech32 Iota.Spec.Bip173 Iota.Proofs.Bech32

theorem hrp_facts : ∀ p, p < 4 →
    (hrpStrings.getD p []).length ≤ 4 ∧ hrpStrings.getD p [] ≠ [] ∧
    (∀ c ∈ hrpStrings.getD p [], 33 ≤ c.toNat ∧ c.toNat ≤ 126) ∧
    (∀ c ∈ hrpStrings.getD p [], isUpperAscii c = false) ∧
    parsePrefix (hrpStrings.getD p []) = some p := by decide +kernel

theorem parsePrefix_some (hrp : Str) (p : Nat) (h : parsePrefix hrp = some p) :
    p < 4 ∧ hrpStrings.getD p [] = hrp := by
  unfold parsePrefix at h
  have h1 := List.idxOf?_eq_some_iff.mp h
  obtain ⟨hlt, hget, _⟩ := h1
  refine ⟨by simpa [hrpStrings] using hlt, ?_⟩
  rw [List.getD_eq_getElem?_getD, List.getElem?_eq_getElem hlt]
  simpa using hget

theorem symCount_mono {a b : Nat} (h : a ≤ b) : symCount a ≤ symCount b := by
  unfold symCount; omega

theorem encPre_addr (p : Nat) (hp : p < 4) (a : Addr) (hl : a.hash.length = a.kind.hashLen) :
    EncPre (hrpStrings.getD p []) a.bytes := by
  obtain ⟨h1, h2, h3, h4, _⟩ := hrp_facts p hp
  refine ⟨?_, h2, h3, ?_⟩
  · have : a.bytes.length ≤ 33 := by
      simp only [Addr.bytes, List.length_cons, hl]
      cases a.kind <;> simp [Kind.hashLen]
    have := symCount_mono this
    have e : symCount 33 = 53 := by decide
    omega
  · rintro ⟨⟨c, hc, hu⟩, _⟩
    rw [h4 c hc] at hu; simp at hu

/-- C19: `ParseBech32 ∘ Bech32 = id` for every prefix and every address of the three kinds. -/
theorem parse_bech32 (p : Nat) (hp : p < 4) (a : Addr) (hl : a.hash.length = a.kind.hashLen) :
    ∃ s, bech32 p a = .ok s ∧ parseBech32 s = .ok (p, a) := by
  have hpre := encPre_addr p hp a hl
  obtain ⟨_, _, _, h4, h5⟩ := hrp_facts p hp
  refine ⟨encSpec (hrpStrings.getD p []) a.bytes, (encode_ok_iff _ _ _).mpr ⟨hpre, rfl⟩, ?_⟩
  have hdec := decode_encode _ _ _ ((encode_ok_iff _ _ _).mpr ⟨hpre, rfl⟩)
  have hlow : lower (hrpStrings.getD p []) = hrpStrings.getD p [] := (lower_eq_self_iff _).mpr h4
  unfold parseBech32
  rw [hdec, hlow]
  simp only [h5, Addr.bytes]
  obtain ⟨k, hash⟩ := a
  cases k <;> simp_all [Kind.version, Kind.hashLen]

/-- C19: what an accepted string must look like. -/
theorem parse_ok (s : Str) (p : Nat) (a : Addr) (h : parseBech32 s = .ok (p, a)) :
    p < 4 ∧ Valid s (hrpStrings.getD p []) a.bytes ∧ a.hash.length = a.kind.hashLen ∧
    bech32 p a = .ok (lower s) := by
  unfold parseBech32 at h
  split at h
  · simp at h
  · rename_i hrp addrData hdec
    split at h
    · simp at h
    · rename_i pfx hpfx
      obtain ⟨hlt, hget⟩ := parsePrefix_some hrp pfx hpfx
      split at h
      · simp at h
      · rename_i version rest
        have key : ∀ (k : Kind), version = k.version → rest.length = k.hashLen →
            (Except.ok (pfx, (⟨k, rest⟩ : Addr)) : Except ParseErr (Nat × Addr)) = .ok (p, a) →
            p < 4 ∧ Valid s (hrpStrings.getD p []) a.bytes ∧ a.hash.length = a.kind.hashLen ∧
              bech32 p a = .ok (lower s) := by
          intro k hv hlen heq
          simp only [Except.ok.injEq, Prod.mk.injEq] at heq
          obtain ⟨rfl, rfl⟩ := heq
          have hb : (⟨k, rest⟩ : Addr).bytes = version :: rest := by simp [Addr.bytes, hv]
          refine ⟨hlt, ?_, hlen, ?_⟩
          · rw [hget, hb]; exact (decode_ok_iff_valid _ _ _).mp hdec
          · unfold bech32; rw [hget, hb]; exact reencode _ _ _ hdec
        split at h
        · rename_i hv
          split at h
          · simp at h
          · rename_i hlen
            exact key .ed25519 hv (by simpa [Kind.hashLen] using hlen) h
        · split at h
          · rename_i hv
            split at h
            · simp at h
            · rename_i hlen
              exact key .alias hv (by simpa [Kind.hashLen] using hlen) h
          · split at h
            · rename_i hv
              split at h
              · simp at h
              · rename_i hlen
                exact key .nft hv (by simpa [Kind.hashLen] using hlen) h
            · simp at h

end Iota.Proofs.Address

namespace Iota.Proofs.Migration
open Iota.Migration Iota.B1T6 Iota.Proofs.B1T6

theorem encodeToTrytes_append (a b : Bytes) : encodeToTrytes (a ++ b) = encodeToTrytes a ++ encodeToTrytes b := by
  simp [encodeToTrytes]

theorem encodeToTrytes_length (a : Bytes) : (encodeToTrytes a).length = 2 * a.length := by
  induction a with
  | nil => rfl
  | cons b bs ih =>
    obtain ⟨c1, c2, he, _⟩ := encodeByteTrytes_shape b
    rw [encodeToTrytes_cons, he]; simp [ih]; omega

theorem encodeToTrytes_chars (a : Bytes) : ∀ c ∈ encodeToTrytes a, isTryteChar c = true := by
  induction a with
  | nil => intro c hc; simp [encodeToTrytes] at hc
  | cons b bs ih =>
    obtain ⟨c1, c2, he, h1, h2, _⟩ := encodeByteTrytes_shape b
    rw [encodeToTrytes_cons, he]
    intro c hc
    simp only [List.cons_append, List.nil_append, List.mem_cons] at hc
    rcases hc with rfl | rfl | hc
    · exact h1
    · exact h2
    · exact ih c hc

theorem pfx_sfx_chars : (∀ c ∈ pfx, isTryteChar c = true) ∧ (∀ c ∈ sfx, isTryteChar c = true) := by
  decide

/-- C19: the migration form of every 32-byte address decodes to that address. -/
theorem decode_encode (H : Bytes → Bytes) (hH : ∀ x, 4 ≤ (H x).length) (a : Bytes) (ha : a.length = 32) :
    Migration.decode H (Migration.encode H a) = .ok a := by
  have hcs : ((H a).take checksumSize).length = 4 := by
    rw [List.length_take]; unfold checksumSize; have := hH a; omega
  have henc : (encodeToTrytes (a ++ (H a).take checksumSize)).length = 72 := by
    rw [encodeToTrytes_length, List.length_append, ha, hcs]
  have hea : (encodeToTrytes a).length = 64 := by rw [encodeToTrytes_length, ha]
  unfold Migration.decode Migration.encode
  have hguard : isTrytesOfExactLength
      (pfx ++ encodeToTrytes (a ++ (H a).take checksumSize) ++ sfx) hashTrytesSize = true := by
    unfold isTrytesOfExactLength hashTrytesSize
    simp only [List.length_append, henc, Bool.and_eq_true, List.all_eq_true]
    refine ⟨⟨by decide, by decide⟩, ?_⟩
    intro c hc
    rcases List.mem_append.mp hc with hc | hc
    · rcases List.mem_append.mp hc with hc | hc
      · exact pfx_sfx_chars.1 c hc
      · exact encodeToTrytes_chars _ c hc
    · exact pfx_sfx_chars.2 c hc
  rw [hguard]
  simp only [Bool.not_true, Bool.false_eq_true, if_false]
  have htake : (pfx ++ encodeToTrytes (a ++ (H a).take checksumSize) ++ sfx).take pfx.length = pfx := by
    rw [List.append_assoc]; simp
  rw [if_neg (by rw [htake]; simp)]
  have hdrop : (pfx ++ encodeToTrytes (a ++ (H a).take checksumSize) ++ sfx).drop pfx.length =
      encodeToTrytes (a ++ (H a).take checksumSize) ++ sfx := by
    rw [List.append_assoc]; simp
  simp only [hdrop]
  have hl1 : (encodeToTrytes (a ++ (H a).take checksumSize) ++ sfx).length - sfx.length = 72 := by
    simp [henc, sfx]
  rw [hl1]
  have hd2 : (encodeToTrytes (a ++ (H a).take checksumSize) ++ sfx).drop 72 = sfx := by
    rw [← henc]; simp
  have ht2 : (encodeToTrytes (a ++ (H a).take checksumSize) ++ sfx).take 72 =
      encodeToTrytes (a ++ (H a).take checksumSize) := by
    rw [← henc]; simp
  rw [if_neg (by rw [hd2]; simp), ht2, encodeToTrytes_append]
  have e64 : 6 * addressSize / 3 = (encodeToTrytes a).length := by rw [hea]; decide
  rw [e64]
  simp only [List.take_left', List.drop_left', decodeTrytes_encode]
  rw [if_neg (by rw [hcs]; simp [checksumSize])]

/-- C19: the migration decoder accepts only what the encoder produces. -/
theorem encode_of_decode (H : Bytes → Bytes) (t a : Bytes) (h : Migration.decode H t = .ok a) :
    t = Migration.encode H a ∧ a.length = 32 := by
  unfold Migration.decode at h
  split at h
  · simp at h
  · rename_i hg
    simp only [Bool.not_eq_true', Bool.not_eq_false] at hg
    unfold isTrytesOfExactLength hashTrytesSize at hg
    simp only [Bool.and_eq_true, beq_iff_eq, List.all_eq_true] at hg
    obtain ⟨⟨hlen, _⟩, hchars⟩ := hg
    split at h
    · simp at h
    · rename_i hp
      simp only [ne_eq, Classical.not_not] at hp
      simp only at h
      split at h
      · simp at h
      · rename_i hs
        simp only [ne_eq, Classical.not_not] at hs
        have hpl : pfx.length = 8 := rfl
        have hsl : sfx.length = 1 := rfl
        have hl1 : (t.drop pfx.length).length = 73 := by rw [List.length_drop, hlen, hpl]
        rw [hl1, hsl] at hs h
        simp only [show 73 - 1 = 72 from rfl, show 6 * addressSize / 3 = 64 from rfl] at hs h
        have hc2 : ∀ c ∈ (t.drop pfx.length).take 72, isTryteChar c = true :=
          fun c hc => hchars c (List.mem_of_mem_drop (List.mem_of_mem_take hc))
        split at h
        · simp at h
        · rename_i addrBytes hab
          split at h
          · simp at h
          · rename_i csBytes hcb
            split at h
            · simp at h
            · rename_i hcs
              simp only [ne_eq, Classical.not_not] at hcs
              simp only [Except.ok.injEq] at h
              subst h
              have e1 := (decodeTrytes_ok_iff _ (fun c hc => hc2 c (List.mem_of_mem_take hc)) _).mp hab
              have e2 := (decodeTrytes_ok_iff _ (fun c hc => hc2 c (List.mem_of_mem_drop hc)) _).mp hcb
              have l1 : (((t.drop pfx.length).take 72).take 64).length = 64 := by
                simp [List.length_take, hl1]
              have l2 : (((t.drop pfx.length).take 72).drop 64).length = 8 := by
                simp [List.length_take, List.length_drop, hl1]
              have la : addrBytes.length = 32 := by
                have := congrArg List.length e1
                rw [l1, encodeToTrytes_length] at this; omega
              have lc : csBytes.length = 4 := by
                have := congrArg List.length e2
                rw [l2, encodeToTrytes_length] at this; omega
              refine ⟨?_, la⟩
              unfold Migration.encode
              rw [encodeToTrytes_append, checksumSize, ← lc, ← hcs, ← e1, ← e2, List.take_append_drop,
                ← hs, List.append_assoc, List.take_append_drop]
              conv => lhs; rw [← List.take_append_drop pfx.length t, hp]

end Iota.Proofs.Migration
