import Iota.Model.B1T6
import Iota.Spec.Ternary

namespace Iota.Proofs
open Iota.B1T6 Iota.Spec

/-- lift a check over `n < 256` to all bytes. -/
theorem forall_byte {P : UInt8 → Prop} (h : ∀ n, n < 256 → P (UInt8.ofNat n)) (b : UInt8) : P b := by
  have := h b.toNat b.toNat_lt
  simpa using this

namespace B1T6

def trit3 : Fin 3 → Int
  | 0 => -1 | 1 => 0 | 2 => 1

theorem validTrit_cases {t : Int} (h : ValidTrit t) : ∃ i : Fin 3, t = trit3 i := by
  rcases h with h | h | h
  · exact ⟨0, h⟩
  · exact ⟨1, h⟩
  · exact ⟨2, h⟩

def allGroups : List (List Int) :=
  let d : List Int := [-1, 0, 1]
  d.flatMap fun a => d.flatMap fun b => d.flatMap fun c =>
  d.flatMap fun e => d.flatMap fun f => d.map fun g => [a,b,c,e,f,g]

/-! ### per-byte facts (finite: 256 cases) -/

def byteCheck (b : UInt8) : Bool :=
  match encodeByte b with
  | [t0,t1,t2,t3,t4,t5] =>
    decide (ValidTrit t0) && decide (ValidTrit t1) && decide (ValidTrit t2) &&
    decide (ValidTrit t3) && decide (ValidTrit t4) && decide (ValidTrit t5) &&
    (balValue [t0,t1,t2,t3,t4,t5] == int8OfByte b) &&
    (decodeGroup (tritsToTryteValue t0 t1 t2) (tritsToTryteValue t3 t4 t5) == some b) &&
    (tritsToTrytes [t0,t1,t2,t3,t4,t5] == encodeByteTrytes b) &&
    (match encodeByteTrytes b with
     | [c1, c2] => isTryteChar c1 && isTryteChar c2 && decodeGroup (tryteValue c1) (tryteValue c2) == some b
     | _ => false)
  | _ => false

theorem byteCheck_all (b : UInt8) : byteCheck b = true :=
  forall_byte (P := fun b => byteCheck b = true) (by decide +kernel) b

theorem encodeByte_shape (b : UInt8) : ∃ t0 t1 t2 t3 t4 t5,
    encodeByte b = [t0,t1,t2,t3,t4,t5] ∧ ValidTrits [t0,t1,t2,t3,t4,t5] ∧
    balValue [t0,t1,t2,t3,t4,t5] = int8OfByte b ∧
    decodeGroup (tritsToTryteValue t0 t1 t2) (tritsToTryteValue t3 t4 t5) = some b ∧
    tritsToTrytes [t0,t1,t2,t3,t4,t5] = encodeByteTrytes b := by
  have h := byteCheck_all b
  unfold byteCheck at h
  split at h
  · rename_i t0 t1 t2 t3 t4 t5 he
    simp only [Bool.and_eq_true, decide_eq_true_eq, beq_iff_eq] at h
    obtain ⟨⟨⟨⟨⟨⟨⟨⟨⟨h0, h1⟩, h2⟩, h3⟩, h4⟩, h5⟩, hv⟩, hd⟩, ht⟩, _⟩ := h
    refine ⟨t0,t1,t2,t3,t4,t5, he, ?_, hv, hd, ht⟩
    intro t ht
    simp only [List.mem_cons, List.not_mem_nil, or_false] at ht
    rcases ht with rfl|rfl|rfl|rfl|rfl|rfl <;> assumption
  · simp at h

theorem encodeByteTrytes_shape (b : UInt8) : ∃ c1 c2,
    encodeByteTrytes b = [c1, c2] ∧ isTryteChar c1 = true ∧ isTryteChar c2 = true ∧
    decodeGroup (tryteValue c1) (tryteValue c2) = some b := by
  have h := byteCheck_all b
  unfold byteCheck at h
  split at h
  · simp only [Bool.and_eq_true] at h
    have h2 := h.2
    split at h2
    · rename_i c1 c2 he
      simp only [Bool.and_eq_true, beq_iff_eq] at h2
      exact ⟨c1, c2, he, h2.1.1, h2.1.2, h2.2⟩
    · simp at h2
  · simp at h

theorem encodeByte_spec (b : UInt8) :
    (encodeByte b).length = 6 ∧ ValidTrits (encodeByte b) ∧
    balValue (encodeByte b) = int8OfByte b := by
  obtain ⟨t0,t1,t2,t3,t4,t5, he, hv, hb, _, _⟩ := encodeByte_shape b
  rw [he]; exact ⟨rfl, hv, hb⟩

/-! ### per-group facts (finite: 729 and 27² cases) -/

def groupCheck (t0 t1 t2 t3 t4 t5 : Int) : Bool :=
  match decodeGroup (tritsToTryteValue t0 t1 t2) (tritsToTryteValue t3 t4 t5) with
  | some b => encodeByte b == [t0,t1,t2,t3,t4,t5]
  | none => true

theorem groupCheck_all : ∀ i0 i1 i2 i3 i4 i5 : Fin 3,
    groupCheck (trit3 i0) (trit3 i1) (trit3 i2) (trit3 i3) (trit3 i4) (trit3 i5) = true := by
  decide +kernel

theorem group_sound {t0 t1 t2 t3 t4 t5 : Int} (hv : ValidTrits [t0,t1,t2,t3,t4,t5]) {b : UInt8}
    (h : decodeGroup (tritsToTryteValue t0 t1 t2) (tritsToTryteValue t3 t4 t5) = some b) :
    encodeByte b = [t0,t1,t2,t3,t4,t5] := by
  obtain ⟨i0, rfl⟩ := validTrit_cases (hv t0 (by simp))
  obtain ⟨i1, rfl⟩ := validTrit_cases (hv t1 (by simp))
  obtain ⟨i2, rfl⟩ := validTrit_cases (hv t2 (by simp))
  obtain ⟨i3, rfl⟩ := validTrit_cases (hv t3 (by simp))
  obtain ⟨i4, rfl⟩ := validTrit_cases (hv t4 (by simp))
  obtain ⟨i5, rfl⟩ := validTrit_cases (hv t5 (by simp))
  have := groupCheck_all i0 i1 i2 i3 i4 i5
  unfold groupCheck at this
  rw [h] at this
  simpa using this

def tryteChars : List UInt8 := [57,65,66,67,68,69,70,71,72,73,74,75,76,77,78,79,80,81,82,83,84,85,86,87,88,89,90]

def tryteGroupCheck (c1 c2 : UInt8) : Bool :=
  match decodeGroup (tryteValue c1) (tryteValue c2) with
  | some b => encodeByteTrytes b == [c1, c2]
  | none => true

theorem tryteGroupCheck_all : ∀ c1 ∈ tryteChars, ∀ c2 ∈ tryteChars, tryteGroupCheck c1 c2 = true := by
  decide +kernel

theorem isTryteChar_mem {c : UInt8} (h : isTryteChar c = true) : c ∈ tryteChars := by
  revert h
  exact forall_byte (P := fun c => isTryteChar c = true → c ∈ tryteChars) (by decide +kernel) c

theorem tryteGroup_sound {c1 c2 : UInt8} (h1 : isTryteChar c1 = true) (h2 : isTryteChar c2 = true)
    {b : UInt8} (h : decodeGroup (tryteValue c1) (tryteValue c2) = some b) :
    encodeByteTrytes b = [c1, c2] := by
  have := tryteGroupCheck_all c1 (isTryteChar_mem h1) c2 (isTryteChar_mem h2)
  unfold tryteGroupCheck at this
  rw [h] at this
  simpa using this

/-! ### uniqueness of balanced ternary -/

theorem balValue_inj : ∀ (xs ys : List Int), xs.length = ys.length →
    ValidTrits xs → ValidTrits ys → balValue xs = balValue ys → xs = ys
  | [], [], _, _, _, _ => rfl
  | [], _ :: _, hl, _, _, _ => by simp at hl
  | _ :: _, [], hl, _, _, _ => by simp at hl
  | x :: xs, y :: ys, hl, hx, hy, h => by
    have hx0 : ValidTrit x := hx x (by simp)
    have hy0 : ValidTrit y := hy y (by simp)
    simp only [balValue] at h
    have hxy : x = y := by
      unfold ValidTrit at hx0 hy0
      omega
    subst hxy
    have ht : balValue xs = balValue ys := by omega
    have := balValue_inj xs ys (by simpa using hl)
      (fun t ht => hx t (List.mem_cons_of_mem _ ht)) (fun t ht => hy t (List.mem_cons_of_mem _ ht)) ht
    rw [this]

/-! ### lifting to strings -/

theorem encode_cons (b : UInt8) (bs : List UInt8) : encode (b :: bs) = encodeByte b ++ encode bs := by
  simp [encode]

theorem encodeToTrytes_cons (b : UInt8) (bs : List UInt8) :
    encodeToTrytes (b :: bs) = encodeByteTrytes b ++ encodeToTrytes bs := by
  simp [encodeToTrytes]

theorem encode_length (bs : List UInt8) : (encode bs).length = 6 * bs.length := by
  induction bs with
  | nil => rfl
  | cons b bs ih =>
    rw [encode_cons, List.length_append, ih, (encodeByte_spec b).1, List.length_cons]; omega

theorem encode_valid (bs : List UInt8) : ValidTrits (encode bs) := by
  induction bs with
  | nil => intro t ht; simp [encode] at ht
  | cons b bs ih =>
    rw [encode_cons]
    intro t ht
    rcases List.mem_append.mp ht with h | h
    · exact (encodeByte_spec b).2.1 t h
    · exact ih t h

theorem decode_encodeByte_append (b : UInt8) (rest : List Int) :
    decode (encodeByte b ++ rest) = (b :: (decode rest).1, (decode rest).2) := by
  obtain ⟨t0,t1,t2,t3,t4,t5, he, _, _, hd, _⟩ := encodeByte_shape b
  rw [he]
  simp only [List.cons_append, List.nil_append, decode, hd]

theorem decode_encode_append (bs : List UInt8) (rest : List Int) :
    decode (encode bs ++ rest) = (bs ++ (decode rest).1, (decode rest).2) := by
  induction bs with
  | nil => simp [encode]
  | cons b bs ih =>
    rw [encode_cons, List.append_assoc, decode_encodeByte_append, ih]
    simp

theorem decode_encode (bs : List UInt8) : decode (encode bs) = (bs, none) := by
  have := decode_encode_append bs []
  simpa [decode] using this

theorem trytes_of_encode (bs : List UInt8) : tritsToTrytes (encode bs) = encodeToTrytes bs := by
  induction bs with
  | nil => rfl
  | cons b bs ih =>
    obtain ⟨t0,t1,t2,t3,t4,t5, he, _, _, _, ht⟩ := encodeByte_shape b
    rw [encode_cons, encodeToTrytes_cons, he, ← ht]
    simp only [List.cons_append, List.nil_append, tritsToTrytes, ih]

theorem decodeTrytesAux_cons2 (c1 c2 : UInt8) (rest : List UInt8) :
    decodeTrytesAux (c1 :: c2 :: rest) =
      match decodeGroup (tryteValue c1) (tryteValue c2) with
      | none => ([], some .invalidTrits)
      | some b => (b :: (decodeTrytesAux rest).1, (decodeTrytesAux rest).2) := by
  cases hd : decodeGroup (tryteValue c1) (tryteValue c2) <;>
    simp [decodeTrytesAux, decodeValues, hd]

theorem decodeTrytesAux_nil : decodeTrytesAux [] = ([], none) := by
  simp [decodeTrytesAux, decodeValues]

theorem decodeTrytesAux_one (c : UInt8) : decodeTrytesAux [c] = ([], some .invalidLength) := by
  simp [decodeTrytesAux, decodeValues]

theorem decodeTrytesAux_encode_append (bs : List UInt8) (rest : List UInt8) :
    decodeTrytesAux (encodeToTrytes bs ++ rest) =
      (bs ++ (decodeTrytesAux rest).1, (decodeTrytesAux rest).2) := by
  induction bs with
  | nil => simp [encodeToTrytes]
  | cons b bs ih =>
    obtain ⟨c1, c2, he, _, _, hd⟩ := encodeByteTrytes_shape b
    rw [encodeToTrytes_cons, he]
    simp only [List.cons_append, List.nil_append, decodeTrytesAux_cons2, hd, ih]

theorem decodeTrytes_encode (bs : List UInt8) : decodeTrytes (encodeToTrytes bs) = .ok bs := by
  have := decodeTrytesAux_encode_append bs []
  simp only [List.append_nil, decodeTrytesAux_nil] at this
  simp [decodeTrytes, this]

theorem decode_ok_imp (ts : List Int) : ValidTrits ts → ∀ bs, decode ts = (bs, none) → ts = encode bs := by
  fun_induction decode ts with
  | case1 t0 t1 t2 t3 t4 t5 rest hd =>
    intro _ bs h; simp at h
  | case2 t0 t1 t2 t3 t4 t5 rest b hd r ih =>
    intro hv bs h
    simp only [Prod.mk.injEq] at h
    have hv6 : ValidTrits [t0,t1,t2,t3,t4,t5] := by
      intro t ht
      apply hv
      simp only [List.mem_cons, List.not_mem_nil, or_false] at ht
      simp only [List.mem_cons]
      rcases ht with h|h|h|h|h|h <;> simp [h]
    have hvr : ValidTrits rest := by
      intro t ht
      apply hv
      simp [ht]
    have hg := group_sound hv6 hd
    have hr := ih hvr r.1 (Prod.ext rfl h.2)
    rw [← h.1, encode_cons, hg, ← hr]
    rfl
  | case3 =>
    intro _ bs h
    simp only [Prod.mk.injEq] at h
    rw [← h.1]; simp [encode]
  | case4 ts h1 h2 =>
    intro _ bs h; simp at h

theorem decode_ok_iff (ts : List Int) (hv : ValidTrits ts) (bs : List UInt8) :
    decode ts = (bs, none) ↔ ts = encode bs :=
  ⟨decode_ok_imp ts hv bs, fun h => h ▸ decode_encode bs⟩

theorem decodeTrytesAux_ok_imp : ∀ (n : Nat) (cs : List UInt8), cs.length ≤ n →
    (∀ c ∈ cs, isTryteChar c = true) →
    ∀ bs, decodeTrytesAux cs = (bs, none) → cs = encodeToTrytes bs
  | _, [], _, _, bs, h => by
    rw [decodeTrytesAux_nil] at h
    simp only [Prod.mk.injEq] at h
    rw [← h.1]; simp [encodeToTrytes]
  | _, [c], _, _, _, h => by rw [decodeTrytesAux_one] at h; simp at h
  | 0, _ :: _ :: _, hn, _, _, _ => by simp at hn
  | n + 1, c1 :: c2 :: rest, hn, hv, bs, h => by
    rw [decodeTrytesAux_cons2] at h
    split at h
    · simp at h
    · rename_i b hd
      simp only [Prod.mk.injEq] at h
      have hg := tryteGroup_sound (hv c1 (by simp)) (hv c2 (by simp)) hd
      have hr := decodeTrytesAux_ok_imp n rest (by simp at hn; omega)
        (fun c hc => hv c (by simp [hc])) (decodeTrytesAux rest).1 (Prod.ext rfl h.2)
      rw [← h.1, encodeToTrytes_cons, hg, ← hr]
      rfl

theorem decodeTrytes_ok_iff (cs : List UInt8) (hv : ∀ c ∈ cs, isTryteChar c = true)
    (bs : List UInt8) : decodeTrytes cs = .ok bs ↔ cs = encodeToTrytes bs := by
  constructor
  · intro h
    unfold decodeTrytes at h
    split at h
    · rename_i bs' he
      have : bs' = bs := by simpa using h
      subst this
      exact decodeTrytesAux_ok_imp cs.length cs (Nat.le_refl _) hv _ he
    · simp at h
  · intro h; rw [h]; exact decodeTrytes_encode bs

theorem decode_invalid_group (pre : List UInt8) (g rest : List Int)
    (hg : g.length = 6) (hgv : ValidTrits g) (hbad : ∀ b, g ≠ encodeByte b) :
    decode (encode pre ++ g ++ rest) = (pre, some .invalidTrits) := by
  rw [List.append_assoc, decode_encode_append]
  match g, hg with
  | [t0,t1,t2,t3,t4,t5], _ =>
    simp only [List.cons_append, List.nil_append, decode]
    split
    · simp
    · rename_i b hd
      exact absurd (group_sound hgv hd).symm (hbad b)

theorem decode_invalid_length (pre : List UInt8) (r : List Int)
    (h0 : 0 < r.length) (h6 : r.length < 6) :
    decode (encode pre ++ r) = (pre, some .invalidLength) := by
  rw [decode_encode_append]
  match r, h0, h6 with
  | [_], _, _ => simp [decode]
  | [_,_], _, _ => simp [decode]
  | [_,_,_], _, _ => simp [decode]
  | [_,_,_,_], _, _ => simp [decode]
  | [_,_,_,_,_], _, _ => simp [decode]
  | _ :: _ :: _ :: _ :: _ :: _ :: _, _, h6 => simp at h6; omega

end B1T6
end Iota.Proofs
