/-
Known-answer tests for the Curl-P-81 specification (Iota/Spec/CurlP.lean), kernel-checked.

Evaluating the specification directly is out of reach of the kernel: one `round` builds a 729-element
array with `Array.ofFn` and reads it through list walks (measured: ≈ 30 s and 2.7 GB per round, 81 rounds
per permutation).  Instead this file proves, for ALL states, that the permutation of the specification
equals a bit-sliced evaluation on two 729-bit natural numbers (planes for +1 and −1), on which a round
is a handful of GMP-accelerated `Nat` operations:

  with  u_k(j) = state_k(m_k·j mod 729),  m_k = (−2)^k mod 729  (364⁻¹ ≡ −2),
  new[i] = f(old[364·i], old[364·(i+1)])  becomes  u_{k+1}(j) = f(u_k(j), u_k(j + t_k)),  t_k = 364^{k+1},

i.e. the s-box applied to the planes and their rotation by `t_k` (`transform_planes`).  The vectors are then
closed by `decide +kernel` on the planes (whole file ≈ 6 s).

Vectors: entries 1 and 2 of /repo/pkg/curl/testdata/curlp81.json (81 trytes in, 81 trytes out, one block);
the tryte ↔ trit conversion is the one of Iota/Model/B1T6.lean (`tryteValue`, `tryteTrits`, `tritsToTrytes`).
Only one-block messages are covered by `hash_one_block`.  Core Lean only.
-/
import Iota.Spec.CurlP
import Iota.Model.B1T6

namespace Iota.Proofs.Vectors.CurlFast
open Iota.Spec.CurlP

/-! ### the specification, pointwise -/

theorem round_size (s : State) : (round s).size = 729 := by
  unfold round; exact Array.size_ofFn

theorem round_getD (s : State) {i : Nat} (h : i < 729) :
    (round s).getD i 0 = f (s.getD (idx i) 0) (s.getD (idx (i + 1)) 0) := by
  have hs : i < (round s).size := by rw [round_size]; exact h
  rw [show (round s).getD i 0 = (round s)[i] from dif_pos hs]
  simp only [round, Array.getElem_ofFn]

/-! ### index arithmetic: `u_k(j) = state_k(m_k · j mod 729)` turns a round into a rotation -/

theorem idx_mul {a m : Nat} (h : 364 * a % 729 = m % 729) (j : Nat) :
    idx (a * j % 729) = m * j % 729 := by
  unfold idx
  rw [Nat.mul_mod_mod, ← Nat.mul_assoc, ← Nat.mod_mul_mod, h, Nat.mod_mul_mod]

theorem idx_mul_succ {a m t : Nat} (h : 364 * a % 729 = m % 729) (ht : m * t % 729 = 364) (j : Nat) :
    idx (a * j % 729 + 1) = m * ((j + t) % 729) % 729 := by
  have h1 := idx_mul h j
  unfold idx at *
  rw [Nat.mul_mod_mod m, Nat.mul_add m]
  generalize m * j = X at *
  generalize m * t = Y at *
  generalize a * j % 729 = i at *
  omega

/-! ### two bit planes as natural numbers -/

def mask : Nat := 2 ^ 729 - 1

theorem mask_testBit (i : Nat) : mask.testBit i = decide (i < 729) := by
  unfold mask; exact Nat.testBit_two_pow_sub_one 729 i

/-- the trit at position `j`: plane `P` marks +1, plane `N` marks −1 (`P` wins). -/
def trit (P N : Nat) (j : Nat) : Int := if P.testBit j then 1 else if N.testBit j then -1 else 0

/-- cyclic rotation of the low 729 bits: bit `j` of the result is bit `(j + t) mod 729` of `x`. -/
def rot (x t : Nat) : Nat := ((x &&& mask) >>> t) ||| ((x <<< (729 - t)) &&& mask)

theorem rot_testBit (x : Nat) {t j : Nat} (ht : t < 729) (hj : j < 729) :
    (rot x t).testBit j = x.testBit ((j + t) % 729) := by
  unfold rot
  rw [Nat.testBit_or, Nat.testBit_shiftRight, Nat.testBit_and, Nat.testBit_and, Nat.testBit_shiftLeft,
    mask_testBit, mask_testBit]
  by_cases hc : j + t < 729
  · have h1 : (j + t) % 729 = t + j := by omega
    have h2 : ¬ (j ≥ 729 - t) := by omega
    have h3 : t + j < 729 := by omega
    simp [h1, h2, h3]
  · have h1 : (j + t) % 729 = j - (729 - t) := by omega
    have h2 : j ≥ 729 - t := by omega
    have h3 : ¬ (t + j < 729) := by omega
    simp [h1, h2, h3, hj]

/-- one round on the planes of `u`, where the second argument of the s-box sits `t` places further. -/
def fastRound (t P N : Nat) : Nat × Nat :=
  let P' := rot P t
  let N' := rot N t
  let na := N &&& (P ^^^ mask)
  let za := (P ||| N) ^^^ mask
  let nb := N' &&& (P' ^^^ mask)
  let zb := (P' ||| N') ^^^ mask
  ((na &&& (P' ^^^ mask)) ||| (za &&& P'), (P &&& nb) ||| (za &&& zb) ||| (na &&& P'))

theorem f_bits (a b c d : Bool) :
    (if ((b && (a ^^ true)) && (c ^^ true) || ((a || b) ^^ true) && c) = true then (1 : Int)
      else if ((a && (d && (c ^^ true))) || (((a || b) ^^ true) && ((c || d) ^^ true)) || ((b && (a ^^ true)) && c)) = true
        then -1 else 0) =
    f (if a = true then 1 else if b = true then -1 else 0) (if c = true then 1 else if d = true then -1 else 0) := by
  cases a <;> cases b <;> cases c <;> cases d <;> decide

theorem fastRound_trit (P N : Nat) {t j : Nat} (ht : t < 729) (hj : j < 729) :
    trit (fastRound t P N).1 (fastRound t P N).2 j = f (trit P N j) (trit P N ((j + t) % 729)) := by
  unfold trit fastRound
  simp only [Nat.testBit_or, Nat.testBit_and, Nat.testBit_xor, mask_testBit, rot_testBit _ ht hj, hj, decide_true]
  exact f_bits _ _ _ _

/-! ### the multipliers and rotation distances of the 81 rounds -/

/-- `m_k = (−2)^k mod 729` (364⁻¹ = −2). -/
def ms : Nat → Nat
  | 0 => 1
  | k + 1 => ms k * 727 % 729

/-- `t_k = 364^(k+1) mod 729`, so that `m_k · t_k = 364`. -/
def ts : Nat → Nat
  | 0 => 364
  | k + 1 => ts k * 364 % 729

theorem ms_ts : ∀ k < 81, 364 * ms (k + 1) % 729 = ms k % 729 ∧ ms k * ts k % 729 = 364 ∧ ts k < 729 := by
  decide +kernel

/-- forces the evaluation of a natural number before it is passed on (the kernel is lazy). -/
@[inline] def force {α : Type} (x : Nat) (k : Nat → α) : α :=
  match x with
  | 0 => k 0
  | n + 1 => k (n + 1)

theorem force_eq {α : Type} (x : Nat) (k : Nat → α) : force x k = k x := by
  cases x <;> rfl

/-- rounds `k, k+1, …, k+n−1` on the planes. -/
def fastFrom : Nat → Nat → Nat → Nat → Nat × Nat
  | _, 0, P, N => (P, N)
  | k, n + 1, P, N =>
    force (fastRound (ts k) P N).1 fun P' => force (fastRound (ts k) P N).2 fun N' => fastFrom (k + 1) n P' N'

theorem fastFrom_succ (k n P N : Nat) :
    fastFrom k (n + 1) P N = fastFrom (k + 1) n (fastRound (ts k) P N).1 (fastRound (ts k) P N).2 := by
  rw [fastFrom, force_eq, force_eq]

/-- the planes `P`, `N` describe the state `s` read through the multiplier `m_k`. -/
def Inv (k : Nat) (s : State) (P N : Nat) : Prop :=
  ∀ j < 729, s.getD (ms k * j % 729) 0 = trit P N j

theorem inv_round {k : Nat} (hk : k < 81) {s : State} {P N : Nat} (h : Inv k s P N) :
    Inv (k + 1) (round s) (fastRound (ts k) P N).1 (fastRound (ts k) P N).2 := by
  obtain ⟨h1, h2, h3⟩ := ms_ts k hk
  intro j hj
  rw [round_getD _ (Nat.mod_lt _ (by decide)), idx_mul h1, idx_mul_succ h1 h2, fastRound_trit _ _ h3 hj,
    h j hj, h _ (Nat.mod_lt _ (by decide))]

theorem inv_rounds (n : Nat) : ∀ (k : Nat), k + n ≤ 81 → ∀ (s : State) (P N : Nat), Inv k s P N →
    Inv (k + n) (rounds n s) (fastFrom k n P N).1 (fastFrom k n P N).2 := by
  induction n with
  | zero => intro k _ s P N h; exact h
  | succ n ih =>
    intro k hk s P N h
    rw [fastFrom_succ]
    have := ih (k + 1) (by omega) (round s) _ _ (inv_round (by omega) h)
    rw [show k + (n + 1) = k + 1 + n by omega]
    exact this

/-- the whole permutation: `transform s` read through `m_81` is `fastFrom 0 81` of the planes of `s`. -/
theorem transform_planes (s : State) (P N : Nat) (h : ∀ j < 729, s.getD j 0 = trit P N j) :
    ∀ j < 729, (transform s).getD (ms 81 * j % 729) 0 = trit (fastFrom 0 81 P N).1 (fastFrom 0 81 P N).2 j := by
  have h0 : Inv 0 s P N := by
    intro j hj
    rw [show ms 0 = 1 from rfl, Nat.one_mul, Nat.mod_eq_of_lt hj]
    exact h j hj
  exact inv_rounds 81 0 (by decide) s P N h0


/-! ### one-block hashes -/

theorem zeroState_getD (i : Nat) : zeroState.getD i 0 = 0 := by
  unfold zeroState Array.getD
  split
  · exact Array.getElem_replicate _
  · rfl

/-- the state after overwriting the rate part of the initial state with `block`. -/
def loaded (block : List Int) : State :=
  Array.ofFn (n := 729) fun i => if i.val < 243 then normTrit (block.getD i.val 0) else Sponge.init.state.getD i.val 0

theorem loaded_getD (block : List Int) {j : Nat} (hj : j < 729) :
    (loaded block).getD j 0 = if j < 243 then normTrit (block.getD j 0) else 0 := by
  have hs : j < (loaded block).size := by unfold loaded; rw [Array.size_ofFn]; exact hj
  rw [show (loaded block).getD j 0 = (loaded block)[j] from dif_pos hs]
  simp only [loaded, Array.getElem_ofFn]
  split
  · rfl
  · exact zeroState_getD j

theorem absorb_one (s : Sponge) (input : List Int) : s.absorb input 1 = s.absorbBlock input := rfl

theorem squeeze_one (s : Sponge) : (s.squeeze 1).2 = s.squeezeBlock.2 ++ [] := rfl

theorem hash_unfold (block : List Int) :
    ((Sponge.init.absorb block 1).squeeze 1).2 =
      (List.range 243).map (fun i => (transform (loaded block)).getD i 0) ++ [] := by
  rw [absorb_one, squeeze_one]
  simp only [Sponge.squeezeBlock, Sponge.absorbBlock, Sponge.init, loaded, Bool.false_eq_true, ↓reduceIte]

/-- `m_81⁻¹ mod 729`. -/
def minv : Nat := 244

theorem minv_spec : ∀ i < 729, ms 81 * (minv * i % 729) % 729 = i := by decide +kernel

/-- the 243 hash trits of a one-block message, from the planes of the loaded state. -/
theorem hash_one_block (block : List Int) (P N : Nat)
    (h : ∀ j < 729, (if j < 243 then normTrit (block.getD j 0) else 0) = trit P N j) :
    ((Sponge.init.absorb block 1).squeeze 1).2 =
      (List.range 243).map fun i => trit (fastFrom 0 81 P N).1 (fastFrom 0 81 P N).2 (minv * i % 729) := by
  rw [hash_unfold, List.append_nil]
  apply List.map_congr_left
  intro i hi
  have hi : i < 243 := List.mem_range.mp hi
  have key := transform_planes (loaded block) P N (fun j hj => by rw [loaded_getD _ hj]; exact h j hj)
    (minv * i % 729) (Nat.mod_lt _ (by decide))
  rw [minv_spec i (by omega)] at key
  exact key

end Iota.Proofs.Vectors.CurlFast

namespace Iota.Proofs.Vectors
open Iota.Spec.CurlP Iota.B1T6 CurlFast

def tritsOfTrytes (s : List UInt8) : List Int := s.flatMap fun c => tryteTrits (tryteValue c)

/-- Curl-P-81 of a tryte string whose length is a multiple of 81, as a tryte string. -/
def curlHashTrytes (s : List UInt8) : List UInt8 :=
  tritsToTrytes ((Sponge.init.absorb (tritsOfTrytes s) (s.length / 81)).squeeze 1).2

/-! ### vector 1: "QZELVPOZTGSBCMEIZWZBGFSRPQNSMBREV9QD9JINWPNHHVCIFFGMHUH99OLWPXUZ9AWKJVYEC9JDTKRZO" -/

def curlIn0 : List UInt8 := [81,90,69,76,86,80,79,90,84,71,83,66,67,77,69,73,90,87,90,66,71,70,83,82,80,81,78,83,77,66,82,69,86,57,81,68,57,74,73,78,87,80,78,72,72,86,67,73,70,70,71,77,72,85,72,57,57,79,76,87,80,88,85,90,57,65,87,75,74,86,89,69,67,57,74,68,84,75,82,90,79]
/-- planes of the trits of `curlIn0` (bit `j` of `curlP0`: trit `j` is +1; of `curlN0`: −1); checked in `curlP81_vector0`. -/
def curlP0 : Nat := 0x3274285dc08081180114f6489c80812860381720106540093a46a00bd00
def curlN0 : Nat := 0x630d0006a02c03166300610920213f3e001447089ee9122590c03153b40cd

/-- the 81 rounds on the planes. -/
theorem curl_planes0 : fastFrom 0 81 curlP0 curlN0 =
    (0x199c2d44d98ba810d0058013894040002200110409c5943102749a9187f8228d53464287e5808d400078b20c150c40808222917a1c13b38063a271d6881029a1d44e0220618895d60c1f140a98a04b35ac1d0100590b020a431e68,
     0x40018001226442cd2f407e8064902e4750802ac84022698c298b052c40029d420c09bd00187b62838481499328509157584c280022e448571c54882820e8464623b0e0d990730a0142002b21265290485220d2f324b44d35040190) := by decide +kernel

/-- /repo/pkg/curl/testdata/curlp81.json entry 1:
"QZELVPOZTGSBCMEIZWZBGFSRPQNSMBREV9QD9JINWPNHHVCIFFGMHUH99OLWPXUZ9AWKJVYEC9JDTKRZO" ↦
"9MMGDFTUNMXVFRWTMVYWHKIUMJRWZPYVYDYHNATZWSLWPUSULDZVSJJXQPKXENXJFLTSEEMBJIWZLLXBX" -/
theorem curlP81_vector0 : curlHashTrytes curlIn0 =
    [57,77,77,71,68,70,84,85,78,77,88,86,70,82,87,84,77,86,89,87,72,75,73,85,77,74,82,87,90,80,89,86,89,68,89,72,78,65,84,90,87,83,76,87,80,85,83,85,76,68,90,86,83,74,74,88,81,80,75,88,69,78,88,74,70,76,84,83,69,69,77,66,74,73,87,90,76,76,88,66,88] := by
  unfold curlHashTrytes
  rw [show curlIn0.length / 81 = 1 by decide,
    hash_one_block (tritsOfTrytes curlIn0) curlP0 curlN0 (by decide +kernel), curl_planes0]
  decide +kernel

/-! ### vector 2: "ZYMHMWWBGGZYFLBGVBIUIRBWBIZOJEVOBUSIVUEIHI9S9EHIVZPZWGHG9THDDPBNIXDLCPYIAVQELZEFD" -/

def curlIn1 : List UInt8 := [90,89,77,72,77,87,87,66,71,71,90,89,70,76,66,71,86,66,73,85,73,82,66,87,66,73,90,79,74,69,86,79,66,85,83,73,86,85,69,73,72,73,57,83,57,69,72,73,86,90,80,90,87,71,72,71,57,84,72,68,68,80,66,78,73,88,68,76,67,80,89,73,65,86,81,69,76,90,69,70,68]
/-- planes of the trits of `curlIn1` (bit `j` of `curlP1`: trit `j` is +1; of `curlN1`: −1); checked in `curlP81_vector1`. -/
def curlP1 : Nat := 0x390681984acc408b710b280439202249138520e5022084513ab422d4079c8
def curlN1 : Nat := 0x4c87600b0010e7006845338c0588010e4121d18c4166080c4424522d8211

/-- the 81 rounds on the planes. -/
theorem curl_planes1 : fastFrom 0 81 curlP1 curlN1 =
    (0x11d8a020320514ff09280060846816ac3140942105842002043f1944a2099b4e554380ca402d4a6bac80134a2e830400041f72a50a511821c212978409200810e05010c00b2422680028105918024a828c2058e39548e3af680808a,
     0x8204a8009faeb00a252f01123042013ca340a84f06ad1f0bac0a23005c6401188102b100102049053436cb1900c618c3a000c128022864a3148283ac29d10061c04661b9083c985ee8463a042ac247c110ba7144a871c5000a2371) := by decide +kernel

/-- /repo/pkg/curl/testdata/curlp81.json entry 2:
"ZYMHMWWBGGZYFLBGVBIUIRBWBIZOJEVOBUSIVUEIHI9S9EHIVZPZWGHG9THDDPBNIXDLCPYIAVQELZEFD" ↦
"KMNWODCXRXYVGKSTRTAOV9SQDHIVKACSHGQQINUNVFITWFHOCEWEZDVVUBDVJJLTESKTOUAXBSBICGL9K" -/
theorem curlP81_vector1 : curlHashTrytes curlIn1 =
    [75,77,78,87,79,68,67,88,82,88,89,86,71,75,83,84,82,84,65,79,86,57,83,81,68,72,73,86,75,65,67,83,72,71,81,81,73,78,85,78,86,70,73,84,87,70,72,79,67,69,87,69,90,68,86,86,85,66,68,86,74,74,76,84,69,83,75,84,79,85,65,88,66,83,66,73,67,71,76,57,75] := by
  unfold curlHashTrytes
  rw [show curlIn1.length / 81 = 1 by decide,
    hash_one_block (tritsOfTrytes curlIn1) curlP1 curlN1 (by decide +kernel), curl_planes1]
  decide +kernel

end Iota.Proofs.Vectors
