/- charset and checksum lemmas for the Bech32 model. -/
import Iota.Model.Bech32
import Iota.Proofs.B1T6

namespace Iota.Proofs.Bech32
open Iota.Bech32 Iota.Proofs

/-! ### charset -/

def charCheck (c : UInt8) : Bool :=
  if decMap c = 0xFF then true
  else decide ((decMap c).toNat < 32) && (charset.getD (decMap c).toNat 0 == c)

theorem charCheck_all (c : UInt8) : charCheck c = true :=
  forall_byte (P := fun c => charCheck c = true) (by decide +kernel) c

theorem decMap_spec {c : UInt8} (h : decMap c ≠ 0xFF) :
    (decMap c).toNat < 32 ∧ charset.getD (decMap c).toNat 0 = c := by
  have := charCheck_all c
  unfold charCheck at this
  rw [if_neg h] at this
  simpa using this

def symCheck (n : Nat) : Bool :=
  let c := charset.getD n 0
  (decMap c == UInt8.ofNat n) && decide (c.toNat < 128) && (c != 49) &&
  !(decide (65 ≤ c.toNat) && decide (c.toNat ≤ 90))

theorem symCheck_all : ∀ n, n < 32 → symCheck n = true := by decide +kernel

theorem charset_spec (s : UInt8) (h : s.toNat < 32) :
    decMap (charset.getD s.toNat 0) = s ∧ (charset.getD s.toNat 0).toNat < 128 ∧
    charset.getD s.toNat 0 ≠ 49 ∧ isUpperAscii (charset.getD s.toNat 0) = false := by
  have := symCheck_all s.toNat h
  unfold symCheck at this
  simp only [Bool.and_eq_true, beq_iff_eq, decide_eq_true_eq, bne_iff_ne, ne_eq, Bool.not_eq_true',
    Bool.and_eq_false_iff, decide_eq_false_iff_not] at this
  obtain ⟨⟨⟨h1, h2⟩, h3⟩, h4⟩ := this
  refine ⟨?_, h2, h3, ?_⟩
  · rw [h1]; exact UInt8.toNat_inj.mp (by simp [UInt8.toNat_ofNat'])
  · unfold isUpperAscii
    rcases h4 with h4 | h4
    · simp only [Bool.and_eq_false_iff, decide_eq_false_iff_not]; exact Or.inl h4
    · simp only [Bool.and_eq_false_iff, decide_eq_false_iff_not]; exact Or.inr h4

theorem charsetDecode_encode (syms : List UInt8) (h : ∀ s ∈ syms, s.toNat < 32) :
    charsetDecode (charsetEncode syms) = .ok syms := by
  induction syms with
  | nil => rfl
  | cons s syms ih =>
    have hs := charset_spec s (h s (by simp))
    have hne : decMap (charset.getD s.toNat 0) ≠ 0xFF := by
      rw [hs.1]; intro h0
      have := h s (by simp); rw [h0] at this; simp at this
    simp only [charsetEncode, List.map_cons, charsetDecode, hne, if_false]
    have := ih (fun x hx => h x (by simp [hx]))
    simp only [charsetEncode] at this
    rw [this, hs.1]

theorem charsetDecode_ok (chars : Str) : ∀ syms, charsetDecode chars = .ok syms →
    chars = charsetEncode syms ∧ ∀ s ∈ syms, s.toNat < 32 := by
  induction chars with
  | nil =>
    intro syms h
    simp only [charsetDecode, Except.ok.injEq] at h
    subst h; exact ⟨rfl, by simp⟩
  | cons c cs ih =>
    intro syms h
    simp only [charsetDecode] at h
    split at h
    · simp at h
    · rename_i hne
      split at h
      · rename_i ds hds
        simp only [Except.ok.injEq] at h
        obtain ⟨hcs, hlt⟩ := ih ds hds
        obtain ⟨h32, hget⟩ := decMap_spec hne
        subst h
        refine ⟨?_, ?_⟩
        · simp only [charsetEncode, List.map_cons, hget]
          rw [hcs]; rfl
        · intro s hs
          rcases List.mem_cons.mp hs with rfl | hs
          · exact h32
          · exact hlt s hs
      · simp at h

theorem charsetDecode_err (chars : Str) : ∀ n, charsetDecode chars = .error n → n < chars.length := by
  induction chars with
  | nil => intro n h; simp [charsetDecode] at h
  | cons c cs ih =>
    intro n h
    simp only [charsetDecode] at h
    split at h
    · simp only [Except.error.injEq] at h; subst h; simp
    · split at h
      · simp at h
      · rename_i m hm
        simp only [Except.error.injEq] at h
        have := ih m hm
        subst h; simp; omega

/-! ### polymod -/

theorem xor_add (a b i : Nat) (hb : b < 2 ^ i) : (a * 2 ^ i) ^^^ b = a * 2 ^ i + b := by
  have hd : ((a * 2 ^ i) ^^^ b) / 2 ^ i = a := by
    rw [Nat.xor_div_two_pow, Nat.mul_div_cancel _ (Nat.pow_pos (by omega)), Nat.div_eq_of_lt hb]
    simp
  have hm : ((a * 2 ^ i) ^^^ b) % 2 ^ i = b := by
    rw [Nat.xor_mod_two_pow, Nat.mul_mod_left, Nat.mod_eq_of_lt hb]
    simp
  have := Nat.div_add_mod ((a * 2 ^ i) ^^^ b) (2 ^ i)
  rw [hd, hm] at this
  rw [← this, Nat.mul_comm]

theorem genMix_lt (b : Nat) : genMix b < 2 ^ 30 := by
  unfold genMix
  repeat' apply Nat.xor_lt_two_pow
  all_goals (split <;> simp [gen])

theorem step_lt (chk : Nat) (v : UInt8) : polymodStep chk v < 2 ^ 30 := by
  unfold polymodStep
  apply Nat.xor_lt_two_pow
  · apply Nat.xor_lt_two_pow
    · have : chk &&& 0x1ffffff < 2 ^ 25 := by
        have : chk &&& (2 ^ 25 - 1) = chk % 2 ^ 25 := Nat.and_two_pow_sub_one_eq_mod chk 25
        have h2 : chk &&& 0x1ffffff = chk % 2 ^ 25 := this
        rw [h2]; exact Nat.mod_lt _ (by omega)
      rw [Nat.shiftLeft_eq]
      omega
    · have := v.toNat_lt; omega
  · exact genMix_lt _

theorem foldl_step_lt (vs : List UInt8) (s : Nat) (hs : s < 2 ^ 30) :
    vs.foldl polymodStep s < 2 ^ 30 := by
  induction vs generalizing s with
  | nil => simpa
  | cons v vs ih => exact ih _ (step_lt s v)

theorem polymod_lt (vs : List UInt8) : polymod vs < 2 ^ 30 := foldl_step_lt vs 1 (by omega)

/-- a perturbation below bit 25 passes through one step as a shift by 5. -/
theorem step_xor_low (chk d : Nat) (v : UInt8) (hd : d < 2 ^ 25) :
    polymodStep (chk ^^^ d) v = polymodStep chk v ^^^ (d <<< 5) := by
  unfold polymodStep
  have h1 : (chk ^^^ d) >>> 25 = chk >>> 25 := by
    rw [Nat.shiftRight_xor_distrib, Nat.shiftRight_eq_div_pow d, Nat.div_eq_of_lt hd]; simp
  have h2 : (chk ^^^ d) &&& 0x1ffffff = (chk &&& 0x1ffffff) ^^^ d := by
    rw [Nat.and_xor_distrib_right]
    have : d &&& 0x1ffffff = d := @Nat.and_two_pow_sub_one_of_lt_two_pow 25 d hd
    rw [this]
  simp only [h1, h2, Nat.shiftLeft_xor_distrib]
  simp only [Nat.xor_assoc]
  congr 1
  rw [Nat.xor_comm (d <<< 5), Nat.xor_assoc]

/-- the value symbol enters a step by XOR. -/
theorem step_value (chk : Nat) (v : UInt8) : polymodStep chk v = polymodStep chk 0 ^^^ v.toNat := by
  unfold polymodStep
  simp only [show (0 : UInt8).toNat = 0 from rfl, Nat.xor_zero]
  rw [Nat.xor_assoc, Nat.xor_comm v.toNat, ← Nat.xor_assoc]

/-- big-endian base-32 value of a symbol list. -/
def pack : List UInt8 → Nat := List.foldl (fun acc (c : UInt8) => acc * 32 + c.toNat) 0

theorem pack_foldl_lt (cs : List UInt8) (h : ∀ c ∈ cs, c.toNat < 32) (acc : Nat) :
    List.foldl (fun acc (c : UInt8) => acc * 32 + c.toNat) acc cs < (acc + 1) * 32 ^ cs.length := by
  induction cs generalizing acc with
  | nil => simp
  | cons c cs ih =>
    have hc := h c (by simp)
    have := ih (fun x hx => h x (by simp [hx])) (acc * 32 + c.toNat)
    simp only [List.foldl_cons, List.length_cons, Nat.pow_succ]
    calc _ < (acc * 32 + c.toNat + 1) * 32 ^ cs.length := this
      _ ≤ ((acc + 1) * 32) * 32 ^ cs.length := Nat.mul_le_mul_right _ (by omega)
      _ = (acc + 1) * (32 ^ cs.length * 32) := by rw [Nat.mul_assoc, Nat.mul_comm 32]

/-- feeding `cs` (symbols < 32, at most 5 of them… generally: as long as the perturbation stays
below bit 25 before each step) after state `S` equals feeding zeros and XOR-ing the packed value. -/
theorem foldl_step_pack (cs : List UInt8) (h : ∀ c ∈ cs, c.toNat < 32) (hlen : cs.length ≤ 6)
    (S d : Nat) (hd : d < 32 ^ (6 - cs.length)) (hd25 : cs ≠ [] → d < 2 ^ 25) :
    cs.foldl polymodStep (S ^^^ d) =
      (List.replicate cs.length (0 : UInt8)).foldl polymodStep S ^^^
        List.foldl (fun acc (c : UInt8) => acc * 32 + c.toNat) d cs := by
  induction cs generalizing S d with
  | nil => simp
  | cons c cs ih =>
    have hc := h c (by simp)
    have hd' : d < 2 ^ 25 := hd25 (by simp)
    simp only [List.foldl_cons, List.length_cons, List.replicate_succ]
    rw [step_xor_low S d c hd', step_value S c, Nat.xor_assoc]
    have hshift : (c.toNat ^^^ d <<< 5) = d * 32 + c.toNat := by
      rw [Nat.xor_comm, Nat.shiftLeft_eq]
      exact xor_add d c.toNat 5 (by omega)
    rw [hshift]
    have hlen' : cs.length ≤ 5 := by simp at hlen; omega
    have hdn : d * 32 + c.toNat < 32 ^ (6 - cs.length) := by
      have e : 6 - cs.length = (6 - (cs.length + 1)) + 1 := by omega
      rw [e, Nat.pow_succ]
      simp only [List.length_cons] at hd
      omega
    apply ih (fun x hx => h x (by simp [hx])) (by omega) _ _ hdn
    intro hne
    have : 1 ≤ cs.length := by
      cases cs with
      | nil => exact absurd rfl hne
      | cons _ _ => simp
    have e : 32 ^ (6 - cs.length) ≤ 32 ^ 5 := Nat.pow_le_pow_right (by omega) (by omega)
    omega

theorem polymod_append_checksum (v cs : List UInt8) (hcs : ∀ c ∈ cs, c.toNat < 32) (hlen : cs.length = 6) :
    polymod (v ++ cs) = polymod (v ++ [0, 0, 0, 0, 0, 0]) ^^^ pack cs := by
  unfold polymod
  rw [List.foldl_append, List.foldl_append]
  have := foldl_step_pack cs hcs (by omega) (v.foldl polymodStep 1) 0 (by rw [hlen]; simp) (by intro; omega)
  rw [Nat.xor_zero, hlen] at this
  rw [this]; rfl

end Iota.Proofs.Bech32

namespace Iota.Proofs.Bech32
open Iota.Bech32 Iota.Proofs

theorem ofNat_toNat (n : Nat) (h : n < 256) : (UInt8.ofNat n).toNat = n := by
  simp [UInt8.toNat_ofNat']; omega

/-- the six 5-bit fields of a 30-bit value, most significant first. -/
def fields (pm : Nat) : List UInt8 :=
  [UInt8.ofNat ((pm / 2 ^ 25) % 32), UInt8.ofNat ((pm / 2 ^ 20) % 32), UInt8.ofNat ((pm / 2 ^ 15) % 32),
   UInt8.ofNat ((pm / 2 ^ 10) % 32), UInt8.ofNat ((pm / 2 ^ 5) % 32), UInt8.ofNat (pm % 32)]

theorem and31 (x : Nat) : x &&& 31 = x % 32 := Nat.and_two_pow_sub_one_eq_mod x 5

theorem createChecksum_eq (hrp : Str) (blocks : List UInt8) :
    createChecksum hrp blocks = fields (polymod (hrpExpand hrp ++ blocks ++ [0, 0, 0, 0, 0, 0]) ^^^ 1) := by
  simp [createChecksum, fields, List.range, List.range.loop, and31, Nat.shiftRight_eq_div_pow]

theorem fields_spec (pm : Nat) (h : pm < 2 ^ 30) :
    (fields pm).length = 6 ∧ (∀ c ∈ fields pm, c.toNat < 32) ∧ pack (fields pm) = pm := by
  refine ⟨rfl, ?_, ?_⟩
  · intro c hc
    simp only [fields, List.mem_cons, List.not_mem_nil, or_false] at hc
    rcases hc with rfl | rfl | rfl | rfl | rfl | rfl <;> (rw [ofNat_toNat _ (by omega)]; omega)
  · simp only [pack, fields, List.foldl_cons, List.foldl_nil]
    repeat rw [ofNat_toNat _ (by omega)]
    omega

theorem fields_unique (cs : List UInt8) (hlen : cs.length = 6) (hlt : ∀ c ∈ cs, c.toNat < 32) :
    cs = fields (pack cs) := by
  match cs, hlen with
  | [c0, c1, c2, c3, c4, c5], _ =>
    have h0 := hlt c0 (by simp); have h1 := hlt c1 (by simp); have h2 := hlt c2 (by simp)
    have h3 := hlt c3 (by simp); have h4 := hlt c4 (by simp); have h5 := hlt c5 (by simp)
    simp only [pack, fields, List.foldl_cons, List.foldl_nil, List.cons.injEq, and_true]
    refine ⟨?_, ?_, ?_, ?_, ?_, ?_⟩ <;> apply UInt8.toNat_inj.mp <;> rw [ofNat_toNat _ (by omega)] <;> omega

/-- `bech32CreateChecksum` makes `bech32VerifyChecksum` succeed. -/
theorem verify_create (hrp : Str) (data : List UInt8) :
    verifyChecksum hrp (data ++ createChecksum hrp data) = true := by
  have hP := polymod_lt (hrpExpand hrp ++ data ++ [0, 0, 0, 0, 0, 0])
  have hpm : polymod (hrpExpand hrp ++ data ++ [0, 0, 0, 0, 0, 0]) ^^^ 1 < 2 ^ 30 :=
    Nat.xor_lt_two_pow hP (by omega)
  obtain ⟨hl, hlt, hpack⟩ := fields_spec _ hpm
  unfold verifyChecksum
  rw [createChecksum_eq, ← List.append_assoc, polymod_append_checksum _ _ hlt hl, hpack,
    ← Nat.xor_assoc, Nat.xor_self, Nat.zero_xor]
  rfl

/-- a six-symbol tail that verifies is the created checksum. -/
theorem checksum_unique (hrp : Str) (data cs : List UInt8) (hlen : cs.length = 6)
    (hlt : ∀ c ∈ cs, c.toNat < 32) (hv : verifyChecksum hrp (data ++ cs) = true) :
    cs = createChecksum hrp data := by
  unfold verifyChecksum at hv
  rw [← List.append_assoc, polymod_append_checksum _ _ hlt hlen] at hv
  simp only [beq_iff_eq] at hv
  have : pack cs = polymod (hrpExpand hrp ++ data ++ [0, 0, 0, 0, 0, 0]) ^^^ 1 := by
    have h2 := congrArg (fun x => polymod (hrpExpand hrp ++ data ++ [0, 0, 0, 0, 0, 0]) ^^^ x) hv
    simp only [← Nat.xor_assoc, Nat.xor_self, Nat.zero_xor] at h2
    exact h2
  rw [createChecksum_eq, ← this]
  exact fields_unique cs hlen hlt

theorem createChecksum_spec (hrp : Str) (data : List UInt8) :
    (createChecksum hrp data).length = 6 ∧ ∀ c ∈ createChecksum hrp data, c.toNat < 32 := by
  have hP := polymod_lt (hrpExpand hrp ++ data ++ [0, 0, 0, 0, 0, 0])
  have hpm : polymod (hrpExpand hrp ++ data ++ [0, 0, 0, 0, 0, 0]) ^^^ 1 < 2 ^ 30 :=
    Nat.xor_lt_two_pow hP (by omega)
  rw [createChecksum_eq]
  exact ⟨(fields_spec _ hpm).1, (fields_spec _ hpm).2.1⟩

end Iota.Proofs.Bech32
