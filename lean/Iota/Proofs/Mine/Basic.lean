/-
Mine (C13): auxiliary definitions and list lemmas for the proofs about `Iota.Model.Mine`.
Classifiers of program counters, counting over the worker list under `List.set`, and basic facts
about `run` / `Reachable`.  Core Lean only.
-/
import Iota.Model.Mine

namespace Iota.Proofs.Mine
open Iota.Mine

/-! ### classifiers -/

/-- spawned and its deferred `wg.Done()` has not run yet -/
def isActive : WPc → Bool
  | .loop | .batch | .found _ | .send _ | .exiting _ => true
  | _ => false

/-- the worker's send on `results` has completed -/
def isSent : WPc → Bool
  | .exiting true | .exited true => true
  | _ => false

/-- the worker has stored the flag itself (`send`) or is past its send -/
def isSendOrSent : WPc → Bool
  | .send _ | .exiting true | .exited true => true
  | _ => false

/-- the worker left its loop because it read `done = 1` -/
def isExitF : WPc → Bool
  | .exiting false | .exited false => true
  | _ => false

/-- number of workers main has spawned -/
def nspawned (W : Nat) : MPc → Nat
  | .start => 0
  | .spawn k => k
  | _ => W

/-- main is past `wg.Wait()` -/
def pastWait : MPc → Bool
  | .closeResults | .closeClosing | .recv | .returned _ => true
  | _ => false

/-- `close(results)` has been executed -/
def rClosedAt : MPc → Bool
  | .closeClosing | .recv | .returned _ => true
  | _ => false

/-- `close(closing)` has been executed -/
def cClosedAt : MPc → Bool
  | .recv | .returned _ => true
  | _ => false

/-- number of values main has taken out of `results` -/
def recvd : MPc → Nat
  | .returned (some _) => 1
  | _ => 0

/-! ### list lemmas -/

theorem getD_set (ws : List WPc) (i j : Nat) (b d : WPc) :
    (ws.set i b).getD j d = if i = j ∧ i < ws.length then b else ws.getD j d := by
  simp only [List.getD_eq_getElem?_getD, List.getElem?_set]
  by_cases h : i = j
  · subst h
    by_cases h2 : i < ws.length
    · simp [h2]
    · simp [h2]
  · simp [h]

theorem getD_set_self (ws : List WPc) (i : Nat) (b d : WPc) (h : i < ws.length) :
    (ws.set i b).getD i d = b := by
  rw [getD_set]; simp [h]

theorem getD_set_ne (ws : List WPc) (i j : Nat) (b d : WPc) (h : i ≠ j) :
    (ws.set i b).getD j d = ws.getD j d := by
  rw [getD_set]; simp [h]

theorem getD_mem (ws : List WPc) (i : Nat) (d : WPc) (h : i < ws.length) : ws.getD i d ∈ ws := by
  rw [List.getD_eq_getElem?_getD, List.getElem?_eq_getElem h]
  exact List.getElem_mem h

theorem mem_getD (ws : List WPc) (w d : WPc) (h : w ∈ ws) : ∃ i, i < ws.length ∧ ws.getD i d = w := by
  obtain ⟨i, hi, e⟩ := List.mem_iff_getElem.mp h
  refine ⟨i, hi, ?_⟩
  rw [List.getD_eq_getElem?_getD, List.getElem?_eq_getElem hi]
  exact e

/-- setting position `i` from pc `a` to pc `b` changes a count by `p b - p a`. -/
theorem countP_set' (p : WPc → Bool) (ws : List WPc) (i : Nat) (a b : WPc)
    (h : i < ws.length) (ha : ws.getD i .idle = a) :
    (ws.set i b).countP p + (p a).toNat = ws.countP p + (p b).toNat := by
  induction ws generalizing i with
  | nil => simp at h
  | cons w ws ih =>
    cases i with
    | zero =>
      simp at ha
      subst ha
      simp only [List.set_cons_zero, List.countP_cons]
      cases p w <;> cases p b <;> simp <;> omega
    | succ i =>
      simp at ha h
      have := ih i h ha
      simp only [List.set_cons_succ, List.countP_cons]
      omega

/-- `countP_set'` for the four counts the invariant uses. -/
theorem counts_set (ws : List WPc) (i : Nat) (a b : WPc) (h : i < ws.length)
    (ha : ws.getD i .idle = a) :
    ((ws.set i b).countP isActive + (isActive a).toNat = ws.countP isActive + (isActive b).toNat) ∧
    ((ws.set i b).countP isSent + (isSent a).toNat = ws.countP isSent + (isSent b).toNat) ∧
    ((ws.set i b).countP isSendOrSent + (isSendOrSent a).toNat
      = ws.countP isSendOrSent + (isSendOrSent b).toNat) ∧
    ((ws.set i b).countP isExitF + (isExitF a).toNat = ws.countP isExitF + (isExitF b).toNat) :=
  ⟨countP_set' _ ws i a b h ha, countP_set' _ ws i a b h ha, countP_set' _ ws i a b h ha,
    countP_set' _ ws i a b h ha⟩

theorem getD_default (ws : List WPc) (i : Nat) (d d' : WPc) (h : i < ws.length) :
    ws.getD i d = ws.getD i d' := by
  simp [List.getD_eq_getElem?_getD, List.getElem?_eq_getElem h]

/-- the same for a weighted sum. -/
theorem sum_map_set (f : WPc → Nat) (ws : List WPc) (i : Nat) (a b : WPc)
    (h : i < ws.length) (ha : ws.getD i .idle = a) :
    ((ws.set i b).map f).sum + f a = (ws.map f).sum + f b := by
  induction ws generalizing i with
  | nil => simp at h
  | cons w ws ih =>
    cases i with
    | zero =>
      simp at ha
      subst ha
      simp only [List.set_cons_zero, List.map_cons, List.sum_cons]
      omega
    | succ i =>
      simp at ha h
      have := ih i h ha
      simp only [List.set_cons_succ, List.map_cons, List.sum_cons]
      omega

theorem sum_map_le (f : WPc → Nat) (c : Nat) (hf : ∀ w, f w ≤ c) (ws : List WPc) :
    (ws.map f).sum ≤ c * ws.length := by
  induction ws with
  | nil => simp
  | cons w ws ih =>
    have := hf w
    simp only [List.map_cons, List.sum_cons, List.length_cons, Nat.mul_succ]
    omega

/-- a positive count has a witness position. -/
theorem exists_of_countP_pos (p : WPc → Bool) (ws : List WPc) (h : 0 < ws.countP p) :
    ∃ i, i < ws.length ∧ p (ws.getD i .idle) = true := by
  obtain ⟨w, hw, hp⟩ := List.countP_pos_iff.mp h
  obtain ⟨i, hi, e⟩ := mem_getD ws w .idle hw
  exact ⟨i, hi, by rw [e]; exact hp⟩

theorem countP_pos_of_getD (p : WPc → Bool) (ws : List WPc) (i : Nat) (h : i < ws.length)
    (hp : p (ws.getD i .idle) = true) : 0 < ws.countP p :=
  List.countP_pos_iff.mpr ⟨_, getD_mem ws i .idle h, hp⟩

/-- a position not satisfying `p` keeps the count below the length. -/
theorem countP_lt_length (p : WPc → Bool) (ws : List WPc) (i : Nat) (h : i < ws.length)
    (hp : p (ws.getD i .idle) = false) : ws.countP p < ws.length := by
  have h1 := countP_set' p ws i _ .idle h rfl
  have h2 : (ws.set i .idle).countP p ≤ (ws.set i .idle).length := List.countP_le_length
  have h3 := countP_set' (fun w => !p w) ws i _ .idle h rfl
  have h4 : ws.countP p + ws.countP (fun w => !p w) = ws.length := by
    clear h1 h2 h3 hp h
    induction ws with
    | nil => simp
    | cons w ws ih =>
      simp only [List.countP_cons, List.length_cons]
      cases p w <;> simp <;> omega
  have h5 : 0 < ws.countP (fun w => !p w) :=
    List.countP_pos_iff.mpr ⟨_, getD_mem ws i .idle h, by rw [hp]; rfl⟩
  omega

/-! ### runs -/

theorem run_append (W : Nat) (s : State) (l1 l2 : List Label) :
    run W s (l1 ++ l2) = (run W s l1).bind (fun s' => run W s' l2) := by
  induction l1 generalizing s with
  | nil => simp [run]
  | cons l ls ih =>
    simp only [List.cons_append, run]
    cases step W s l with
    | none => simp
    | some s' => simpa using ih s'

theorem reachable_init (W : Nat) : Reachable W (init W) := ⟨[], rfl⟩

theorem reachable_step {W : Nat} {s s' : State} {l : Label} (h : Reachable W s)
    (hs : step W s l = some s') : Reachable W s' := by
  obtain ⟨ls, hls⟩ := h
  refine ⟨ls ++ [l], ?_⟩
  rw [run_append, hls]
  simp [run, hs]

/-- induction principle for reachable states. -/
theorem reachable_induction {W : Nat} {P : State → Prop} (h0 : P (Iota.Mine.init W))
    (hstep : ∀ s l s', Reachable W s → P s → step W s l = some s' → P s')
    {s : State} (h : Reachable W s) : P s := by
  obtain ⟨ls, hls⟩ := h
  suffices H : ∀ (ls : List Label) (s0 : State), Reachable W s0 → P s0 → ∀ s, run W s0 ls = some s → P s from
    H ls _ (reachable_init W) h0 s hls
  intro ls
  induction ls with
  | nil => intro s0 _ p0 s h; simp [run] at h; subst h; exact p0
  | cons l ls ih =>
    intro s0 r0 p0 s h
    simp only [run] at h
    cases hs : step W s0 l with
    | none => simp [hs] at h
    | some s1 =>
      simp only [hs] at h
      exact ih s1 (reachable_step r0 hs) (hstep s0 l s1 r0 p0 hs) s h

end Iota.Proofs.Mine
