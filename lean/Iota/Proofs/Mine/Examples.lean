/-
Mine (C13) M7: sanity of the model — explicit runs for `W = 2` (and the reason for `1 ≤ W`).
-/
import Iota.Proofs.Mine.Basic

namespace Iota.Proofs.Mine
open Iota.Mine Iota.Mine.Label

/-- main's four steps up to `wg.Wait()` for `W = 2`. -/
def spawnAll : List Label := [main, main, main, main]

/-- main's four steps from `wg.Wait()` to the return. -/
def finish : List Label := [main, main, main, main]

/-- worker 0 finds 42, worker 1 sees the flag; `Mine` returns `(42, nil)`; the watcher is left in
`select` with `closing` closed. -/
def runFound : List Label :=
  spawnAll ++ [worker 0 none, worker 0 (some 42), worker 0 none, worker 0 none, worker 0 none,
    worker 1 none, worker 1 none] ++ finish

example : run 2 (init 2) runFound =
    some { done := true, results := [], resultsClosed := true, closingClosed := true, ctx := false,
           wg := 0, main := .returned (some 42), watcher := .select,
           workers := [.exited true, .exited false], founds := [42] } := by decide

example : (run 2 (init 2) runFound).map (·.main) = some (.returned (some 42)) := by decide

/-- the context is cancelled while both workers hash; the watcher stores the flag; both workers
finish their batch without a nonce and leave; `Mine` returns `ErrCancelled`. -/
def runCancelled : List Label :=
  spawnAll ++ [worker 0 none, worker 1 none, cancel, watcherCtx, watcherStore,
    worker 0 none, worker 1 none, worker 0 none, worker 1 none, worker 0 none, worker 1 none] ++ finish

example : run 2 (init 2) runCancelled =
    some { done := true, results := [], resultsClosed := true, closingClosed := true, ctx := true,
           wg := 0, main := .returned none, watcher := .exited,
           workers := [.exited false, .exited false], founds := [] } := by decide

example : (run 2 (init 2) runCancelled).map (·.main) = some (.returned none) := by decide

/-- both workers find in the same round: both are in `send` at the same time … -/
def runBothFindPrefix : List Label :=
  spawnAll ++ [worker 0 none, worker 1 none, worker 0 (some 7), worker 1 (some 9),
    worker 0 none, worker 1 none]

example : run 2 (init 2) runBothFindPrefix =
    some { done := true, results := [], resultsClosed := false, closingClosed := false, ctx := false,
           wg := 2, main := .wait, watcher := .select,
           workers := [.send 7, .send 9], founds := [9, 7] } := by decide

/-- … and both sends succeed (the channel has capacity 2). -/
def runBothSent : List Label := runBothFindPrefix ++ [worker 1 none, worker 0 none]

example : run 2 (init 2) runBothSent =
    some { done := true, results := [9, 7], resultsClosed := false, closingClosed := false,
           ctx := false, wg := 2, main := .wait, watcher := .select,
           workers := [.exiting true, .exiting true], founds := [9, 7] } := by decide

/-- the whole call: main returns the first value sent, the other stays in the closed channel. -/
def runBothFind : List Label := runBothSent ++ [worker 0 none, worker 1 none] ++ finish

example : run 2 (init 2) runBothFind =
    some { done := true, results := [7], resultsClosed := true, closingClosed := true, ctx := false,
           wg := 0, main := .returned (some 9), watcher := .select,
           workers := [.exited true, .exited true], founds := [9, 7] } := by decide

/-- blocked steps are `none`: main cannot pass `wg.Wait()` while a worker runs, an unspawned
worker cannot step, `cancel` happens at most once. -/
example : run 2 (init 2) (spawnAll ++ [main]) = none := by decide
example : run 2 (init 2) [main, worker 0 none] = none := by decide
example : run 2 (init 2) [cancel, cancel] = none := by decide

/-- why M2 needs `1 ≤ W`: with no workers `Mine` returns `ErrCancelled` without cancellation
(the Go code rejects `numWorkers < 1` before this point). -/
example : (run 0 (init 0) [main, main, main, main, main, main]).map (fun s => (s.main, s.ctx)) =
    some (.returned none, false) := by decide

end Iota.Proofs.Mine
