/-
Mine (C13) M0: the inductive invariant `Inv W s` of the `Mine` transition system.
-/
import Iota.Proofs.Mine.Basic

namespace Iota.Proofs.Mine
open Iota.Mine

/-- **M0** the inductive invariant. -/
structure Inv (W : Nat) (s : State) : Prop where
  /-- the worker table has `W` entries -/
  len : s.workers.length = W
  /-- main never spawns more than `W` workers -/
  nsp_le : nspawned W s.main ≤ W
  /-- exactly the workers below `nspawned` have been spawned -/
  idle_iff : ∀ i, i < W → (s.workers.getD i .idle = .idle ↔ nspawned W s.main ≤ i)
  /-- the WaitGroup counts the spawned workers that have not run `wg.Done()` -/
  wg_eq : s.wg = s.workers.countP isActive
  /-- `results` holds one value per completed send, minus the one main has received -/
  res_len : s.results.length + recvd s.main = s.workers.countP isSent
  /-- main gets past `wg.Wait()` only with a zero counter, and the counter stays zero -/
  past_wg : pastWait s.main = true → s.wg = 0
  /-- `results` is closed exactly when main is past `close(results)` -/
  rclosed : s.resultsClosed = rClosedAt s.main
  /-- `closing` is closed exactly when main is past `close(closing)` -/
  cclosed : s.closingClosed = cClosedAt s.main
  /-- the flag is set only by the watcher after cancellation, or by a finder -/
  done_src : s.done = true → s.ctx = true ∨ 0 < s.workers.countP isSendOrSent
  /-- a worker leaves its loop without a nonce only if it read the flag as set -/
  exitF_done : 0 < s.workers.countP isExitF → s.done = true
  /-- the watcher is started by main's first step -/
  watcher_idle : s.watcher = .idle ↔ s.main = .start
  /-- the watcher takes the ctx arm only after cancellation -/
  store_ctx : s.watcher = .store → s.ctx = true
  /-- the watcher exits via its store (flag set) or via `<-closing` -/
  watcher_exited : s.watcher = .exited → s.done = true ∨ s.closingClosed = true
  /-- everything in `results` was found by a worker -/
  res_founds : ∀ n, n ∈ s.results → n ∈ s.founds
  /-- the returned nonce was found by a worker -/
  ret_founds : ∀ n, s.main = .returned (some n) → n ∈ s.founds
  /-- a nonce a worker is about to publish was found by a worker -/
  wk_founds : ∀ w, w ∈ s.workers → ∀ n, (w = .found n ∨ w = .send n) → n ∈ s.founds
  /-- `ErrCancelled` only after cancellation -/
  ret_none : s.main = .returned none → s.ctx = true

theorem Inv_init (W : Nat) : Inv W (init W) := by
  refine ⟨?_, ?_, ?_, ?_, ?_, ?_, ?_, ?_, ?_, ?_, ?_, ?_, ?_, ?_, ?_, ?_, ?_⟩ <;>
    simp [init, nspawned, recvd, pastWait, rClosedAt, cClosedAt, List.countP_replicate,
      isActive, isSent, isSendOrSent, isExitF, List.getD_eq_getElem?_getD, List.getElem?_replicate]
  · intro i hi; simp [hi]

/-- once main is past `wg.Wait()` every worker has exited. -/
theorem Inv.all_exited {W : Nat} {s : State} (hI : Inv W s) (hp : pastWait s.main = true)
    (i : Nat) (hi : i < W) : ∃ b, s.workers.getD i .idle = .exited b := by
  have h0 := hI.past_wg hp
  have h1 := hI.wg_eq
  have hidle := hI.idle_iff i hi
  have hns : nspawned W s.main = W := by
    cases hm : s.main <;> simp [hm, pastWait, nspawned] at hp ⊢
  have hact : isActive (s.workers.getD i .idle) = false := by
    cases hb : isActive (s.workers.getD i .idle) with
    | false => rfl
    | true =>
      have := countP_pos_of_getD isActive s.workers i (by rw [hI.len]; exact hi) hb
      omega
  cases hw : s.workers.getD i .idle with
  | idle => rw [hw] at hidle; simp at hidle; omega
  | exited b => exact ⟨b, rfl⟩
  | _ => rw [hw] at hact; simp [isActive] at hact


/-! ### preservation, label by label -/

theorem Inv_step_cancel {W : Nat} {s s' : State} (hI : Inv W s) (h : step W s .cancel = some s') :
    Inv W s' := by
  simp only [step] at h
  split at h
  · cases h
  · cases h
    exact { hI with
      done_src := fun _ => Or.inl rfl
      store_ctx := fun _ => rfl
      ret_none := fun _ => rfl }

theorem Inv_step_watcherCtx {W : Nat} {s s' : State} (hI : Inv W s)
    (h : step W s .watcherCtx = some s') : Inv W s' := by
  simp only [step] at h
  split at h
  · rename_i hc
    cases h
    exact { hI with
      watcher_idle := by
        have := hI.watcher_idle
        simp [hc.1] at this ⊢
        exact this
      store_ctx := fun _ => hc.2
      watcher_exited := by simp }
  · cases h

theorem Inv_step_watcherClosing {W : Nat} {s s' : State} (hI : Inv W s)
    (h : step W s .watcherClosing = some s') : Inv W s' := by
  simp only [step] at h
  split at h
  · rename_i hc
    cases h
    exact { hI with
      watcher_idle := by
        have := hI.watcher_idle
        simp [hc.1] at this ⊢
        exact this
      store_ctx := by simp
      watcher_exited := fun _ => Or.inr hc.2 }
  · cases h

theorem Inv_step_watcherStore {W : Nat} {s s' : State} (hI : Inv W s)
    (h : step W s .watcherStore = some s') : Inv W s' := by
  simp only [step] at h
  split at h
  · rename_i hc
    cases h
    exact { hI with
      watcher_idle := by
        have := hI.watcher_idle
        simp [hc] at this ⊢
        exact this
      store_ctx := by simp
      watcher_exited := fun _ => Or.inl rfl
      done_src := fun _ => Or.inl (hI.store_ctx hc)
      exitF_done := fun _ => rfl }
  · cases h


theorem Inv_step_main {W : Nat} (hW : 1 ≤ W) {s s' : State} (hI : Inv W s)
    (h : step W s .main = some s') : Inv W s' := by
  simp only [step] at h
  split at h
  · -- start
    rename_i hm
    split at h
    · rename_i hw
      cases h
      have h1 := hI.idle_iff; have h2 := hI.res_len; have h3 := hI.rclosed; have h4 := hI.cclosed
      simp only [hm, nspawned, recvd, rClosedAt, cClosedAt] at h1 h2 h3 h4
      exact { hI with
        nsp_le := Nat.zero_le _
        idle_iff := h1
        res_len := h2
        past_wg := by simp [pastWait]
        rclosed := h3
        cclosed := h4
        watcher_idle := by simp
        store_ctx := by simp
        watcher_exited := by simp
        ret_founds := by simp
        ret_none := by simp }
    · cases h
  · -- spawn k
    rename_i k hm
    have h1 := hI.idle_iff; have h2 := hI.res_len; have h3 := hI.rclosed; have h4 := hI.cclosed
    have h5 := hI.nsp_le; have h6 := hI.watcher_idle
    simp only [hm, nspawned, recvd, rClosedAt, cClosedAt] at h1 h2 h3 h4 h5 h6
    split at h
    · rename_i hk
      split at h
      · rename_i hw
        cases h
        have hk' : k < s.workers.length := by rw [hI.len]; exact hk
        rw [getD_default s.workers k _ .idle hk'] at hw
        obtain ⟨cA, cS, cQ, cF⟩ := counts_set s.workers k _ .loop hk' hw
        simp only [isActive, isSent, isSendOrSent, isExitF, Bool.toNat_true, Bool.toNat_false,
          Nat.add_zero] at cA cS cQ cF
        have h7 := hI.wg_eq
        exact { hI with
          len := by simp [setWorker, hI.len]
          nsp_le := hk
          idle_iff := by
            intro j hj
            show (s.workers.set k .loop).getD j .idle = .idle ↔ k + 1 ≤ j
            rw [getD_set]
            by_cases e : k = j
            · subst e; simp [hk']
            · have := h1 j hj
              simp only [e, false_and, if_false, this]
              omega
          wg_eq := by show s.wg + 1 = (s.workers.set k .loop).countP isActive; omega
          res_len := by
            show s.results.length + 0 = (s.workers.set k .loop).countP isSent
            omega
          past_wg := by simp [pastWait]
          rclosed := h3
          cclosed := h4
          done_src := by
            intro hd
            show s.ctx = true ∨ 0 < (s.workers.set k .loop).countP isSendOrSent
            rw [cQ]; exact hI.done_src hd
          exitF_done := by
            intro hd
            refine hI.exitF_done ?_
            rw [← cF]; exact hd
          watcher_idle := by simpa [setWorker] using h6
          ret_founds := by simp
          ret_none := by simp
          wk_founds := by
            intro w hw' n hn
            rcases List.mem_or_eq_of_mem_set hw' with hm' | rfl
            · exact hI.wk_founds w hm' n hn
            · simp at hn }
      · cases h
    · rename_i hk
      cases h
      have hk' : k = W := by omega
      subst hk'
      exact { hI with
        nsp_le := Nat.le_refl _
        idle_iff := h1
        res_len := h2
        past_wg := by simp [pastWait]
        rclosed := h3
        cclosed := h4
        watcher_idle := by simpa using h6
        ret_founds := by simp
        ret_none := by simp }
  · -- wait
    rename_i hm
    have h1 := hI.idle_iff; have h2 := hI.res_len; have h3 := hI.rclosed; have h4 := hI.cclosed
    have h5 := hI.nsp_le; have h6 := hI.watcher_idle
    simp only [hm, nspawned, recvd, rClosedAt, cClosedAt] at h1 h2 h3 h4 h5 h6
    split at h
    · rename_i hwg
      cases h
      exact { hI with
        nsp_le := Nat.le_refl _
        idle_iff := h1
        res_len := h2
        past_wg := fun _ => hwg
        rclosed := h3
        cclosed := h4
        watcher_idle := by simpa using h6
        ret_founds := by simp
        ret_none := by simp }
    · cases h
  · -- closeResults
    rename_i hm
    have h1 := hI.idle_iff; have h2 := hI.res_len; have h3 := hI.rclosed; have h4 := hI.cclosed
    have h5 := hI.nsp_le; have h6 := hI.watcher_idle; have h7 := hI.past_wg
    simp only [hm, nspawned, recvd, rClosedAt, cClosedAt, pastWait] at h1 h2 h3 h4 h5 h6 h7
    cases h
    exact { hI with
      nsp_le := Nat.le_refl _
      idle_iff := h1
      res_len := h2
      past_wg := fun _ => h7 trivial
      rclosed := rfl
      cclosed := h4
      watcher_idle := by simpa using h6
      ret_founds := by simp
      ret_none := by simp }
  · -- closeClosing
    rename_i hm
    have h1 := hI.idle_iff; have h2 := hI.res_len; have h3 := hI.rclosed; have h4 := hI.cclosed
    have h5 := hI.nsp_le; have h6 := hI.watcher_idle; have h7 := hI.past_wg
    simp only [hm, nspawned, recvd, rClosedAt, cClosedAt, pastWait] at h1 h2 h3 h4 h5 h6 h7
    cases h
    exact { hI with
      nsp_le := Nat.le_refl _
      idle_iff := h1
      res_len := h2
      past_wg := fun _ => h7 trivial
      rclosed := h3
      cclosed := rfl
      watcher_idle := by simpa using h6
      watcher_exited := fun _ => Or.inr rfl
      ret_founds := by simp
      ret_none := by simp }
  · -- recv
    rename_i hm
    have h1 := hI.idle_iff; have h2 := hI.res_len; have h3 := hI.rclosed; have h4 := hI.cclosed
    have h5 := hI.nsp_le; have h6 := hI.watcher_idle; have h7 := hI.past_wg
    simp only [hm, nspawned, recvd, rClosedAt, cClosedAt, pastWait] at h1 h2 h3 h4 h5 h6 h7
    split at h
    · rename_i n rest hr
      cases h
      have h8 := hI.res_founds
      rw [hr] at h2 h8
      exact { hI with
        nsp_le := Nat.le_refl _
        idle_iff := h1
        res_len := by
          show rest.length + 1 = s.workers.countP isSent
          simpa using h2
        past_wg := fun _ => h7 trivial
        rclosed := h3
        cclosed := h4
        watcher_idle := by simpa using h6
        res_founds := fun m hm' => h8 m (List.mem_cons_of_mem _ hm')
        ret_founds := by
          intro m hm'
          simp at hm'
          subst hm'
          exact h8 n (List.mem_cons_self ..)
        ret_none := by simp }
    · rename_i hr
      split at h
      · cases h
        have hctx : s.ctx = true := by
          have hp : pastWait s.main = true := by rw [hm]; rfl
          obtain ⟨b, hb⟩ := hI.all_exited hp 0 hW
          have h0 : 0 < s.workers.length := by rw [hI.len]; exact hW
          rw [hr] at h2
          have hS : s.workers.countP isSent = 0 := by simpa using h2.symm
          have hA : s.workers.countP isActive = 0 := by
            rw [← hI.wg_eq]; exact h7 trivial
          cases b with
          | true =>
            have := countP_pos_of_getD isSent s.workers 0 h0 (by rw [hb]; rfl)
            omega
          | false =>
            have hF := countP_pos_of_getD isExitF s.workers 0 h0 (by rw [hb]; rfl)
            rcases hI.done_src (hI.exitF_done hF) with hc | hc
            · exact hc
            · obtain ⟨j, hj, hpj⟩ := exists_of_countP_pos _ _ hc
              rw [hI.len] at hj
              obtain ⟨b', hb'⟩ := hI.all_exited hp j hj
              rw [hb'] at hpj
              cases b' with
              | false => simp [isSendOrSent] at hpj
              | true =>
                have := countP_pos_of_getD isSent s.workers j (by rw [hI.len]; exact hj)
                  (by rw [hb']; rfl)
                omega
        exact { hI with
          nsp_le := Nat.le_refl _
          idle_iff := h1
          res_len := h2
          past_wg := fun _ => h7 trivial
          rclosed := h3
          cclosed := h4
          watcher_idle := by simpa using h6
          ret_founds := by simp
          ret_none := fun _ => hctx }
      · rename_i hc
        exact absurd h3 hc
  · -- returned
    cases h


/-- a generic update of one spawned, not yet exited worker. -/
theorem Inv_setWorker {W : Nat} {s : State} (hI : Inv W s) {i : Nat} (hi : i < W) {a b : WPc}
    (ha : s.workers.getD i .idle = a) (hact : isActive a = true) (hb : b ≠ .idle)
    (d : Bool) (rs : List Nat) (g : Nat) (fs : List Nat)
    (hg : g + 1 = s.wg + (isActive b).toNat)
    (hrs : rs.length + (isSent a).toNat = s.results.length + (isSent b).toNat)
    (hrf : ∀ n, n ∈ rs → n ∈ fs)
    (hfs : ∀ n, n ∈ s.founds → n ∈ fs)
    (hbf : ∀ n, (b = .found n ∨ b = .send n) → n ∈ fs)
    (hd : s.done = true → d = true)
    (hds : d = true → s.ctx = true ∨ s.done = true ∨ isSendOrSent b = true)
    (hmono : (isSendOrSent a).toNat ≤ (isSendOrSent b).toNat)
    (hbF : isExitF b = true → d = true)
    (haF : isExitF a = true → d = true) :
    Inv W { s with workers := s.workers.set i b, done := d, results := rs, wg := g, founds := fs } := by
  have hi' : i < s.workers.length := by rw [hI.len]; exact hi
  obtain ⟨cA, cS, cQ, cF⟩ := counts_set s.workers i a b hi' ha
  have hwg := hI.wg_eq
  have hpos : 0 < s.workers.countP isActive :=
    countP_pos_of_getD _ _ i hi' (by rw [ha]; exact hact)
  rw [hact] at cA
  simp only [Bool.toNat_true] at cA
  exact { hI with
    len := by simp [hI.len]
    idle_iff := by
      intro j hj
      show (s.workers.set i b).getD j .idle = .idle ↔ _
      rw [getD_set]
      by_cases e : i = j
      · subst e
        have := hI.idle_iff i hi
        rw [ha] at this
        simp only [hi', and_self, if_true]
        constructor
        · intro h; exact absurd h hb
        · intro h
          have := this.mpr h
          subst this
          simp [isActive] at hact
      · simp only [e, false_and, if_false]
        exact hI.idle_iff j hj
    wg_eq := by show g = (s.workers.set i b).countP isActive; omega
    res_len := by
      show rs.length + recvd s.main = (s.workers.set i b).countP isSent
      have := hI.res_len
      omega
    past_wg := by
      intro hp
      have := hI.past_wg hp
      omega
    done_src := by
      intro h
      show s.ctx = true ∨ 0 < (s.workers.set i b).countP isSendOrSent
      rcases hds h with h1 | h1 | h1
      · exact Or.inl h1
      · rcases hI.done_src h1 with h2 | h2
        · exact Or.inl h2
        · right; omega
      · right
        rw [h1] at cQ
        simp only [Bool.toNat_true] at cQ
        cases ha' : isSendOrSent a with
        | false => rw [ha'] at cQ; simp only [Bool.toNat_false] at cQ; omega
        | true =>
          have := countP_pos_of_getD isSendOrSent _ i hi' (by rw [ha]; exact ha')
          rw [ha'] at cQ; simp only [Bool.toNat_true] at cQ; omega
    exitF_done := by
      intro h
      show d = true
      have h' : 0 < (s.workers.set i b).countP isExitF := h
      cases hb' : isExitF b with
      | true => exact hbF hb'
      | false =>
        cases ha' : isExitF a with
        | true => exact haF ha'
        | false =>
          rw [hb', ha'] at cF
          simp only [Bool.toNat_false, Nat.add_zero] at cF
          exact hd (hI.exitF_done (by omega))
    watcher_exited := by
      intro h
      rcases hI.watcher_exited h with h1 | h1
      · exact Or.inl (hd h1)
      · exact Or.inr h1
    res_founds := hrf
    ret_founds := fun n h => hfs n (hI.ret_founds n h)
    wk_founds := by
      intro w hw n hn
      rcases List.mem_or_eq_of_mem_set hw with hm | rfl
      · exact hfs n (hI.wk_founds w hm n hn)
      · exact hbf n hn }


theorem Inv_step_worker {W : Nat} {s s' : State} (hI : Inv W s) (i : Nat) (o : Option Nat)
    (h : step W s (.worker i o) = some s') : Inv W s' := by
  simp only [step] at h
  split at h
  · rename_i hi
    split at h
    · cases h
    · -- loop
      rename_i hw
      cases h
      cases hd : s.done with
      | true =>
        have := Inv_setWorker hI hi hw rfl (b := .exiting false) (by simp) s.done s.results s.wg
          s.founds rfl rfl hI.res_founds (fun _ h => h) (by simp) id (fun h => Or.inr (Or.inl h))
          (by simp [isSendOrSent]) (fun _ => hd) (fun _ => hd)
        simpa [setWorker, hd] using this
      | false =>
        have := Inv_setWorker hI hi hw rfl (b := .batch) (by simp) s.done s.results s.wg
          s.founds rfl rfl hI.res_founds (fun _ h => h) (by simp) id (fun h => Or.inr (Or.inl h))
          (by simp [isSendOrSent]) (by simp [isExitF]) (by simp [isExitF])
        simpa [setWorker, hd] using this
    · -- batch
      rename_i hw
      split at h
      · cases h
        exact Inv_setWorker hI hi hw rfl (b := .loop) (by simp) s.done s.results s.wg
          s.founds rfl rfl hI.res_founds (fun _ h => h) (by simp) id (fun h => Or.inr (Or.inl h))
          (by simp [isSendOrSent]) (by simp [isExitF]) (by simp [isExitF])
      · rename_i n
        cases h
        exact Inv_setWorker hI hi hw rfl (b := .found n) (by simp) s.done s.results s.wg
          (n :: s.founds) rfl rfl (fun m h => List.mem_cons_of_mem _ (hI.res_founds m h))
          (fun _ h => List.mem_cons_of_mem _ h) (by simp) id (fun h => Or.inr (Or.inl h))
          (by simp [isSendOrSent]) (by simp [isExitF]) (by simp [isExitF])
    · -- found n
      rename_i n hw
      cases h
      have hn : n ∈ s.founds :=
        hI.wk_founds _ (getD_mem _ i .idle (by rw [hI.len]; exact hi)) n (Or.inl hw)
      exact Inv_setWorker hI hi hw rfl (b := .send n) (by simp) true s.results s.wg
        s.founds rfl rfl hI.res_founds (fun _ h => h) (by simp; exact hn) (fun _ => rfl)
        (fun _ => Or.inr (Or.inr rfl))
        (by simp [isSendOrSent]) (by simp [isExitF]) (by simp [isExitF])
    · -- send n
      rename_i n hw
      split at h
      · cases h
        have hn : n ∈ s.founds :=
          hI.wk_founds _ (getD_mem _ i .idle (by rw [hI.len]; exact hi)) n (Or.inr hw)
        exact Inv_setWorker hI hi hw rfl (b := .exiting true) (by simp) s.done (s.results ++ [n]) s.wg
          s.founds rfl (by simp [isSent])
          (by
            intro m hm
            rcases List.mem_append.mp hm with h1 | h1
            · exact hI.res_founds m h1
            · simp at h1; subst h1; exact hn)
          (fun _ h => h) (by simp) id (fun h => Or.inr (Or.inl h))
          (by simp [isSendOrSent]) (by simp [isExitF]) (by simp [isExitF])
      · cases h
    · -- exiting sent
      rename_i sent hw
      split at h
      · rename_i hwg
        cases h
        have hdn : sent = false → s.done = true := by
          intro e
          subst e
          exact hI.exitF_done (countP_pos_of_getD _ _ i (by rw [hI.len]; exact hi) (by rw [hw]; rfl))
        exact Inv_setWorker hI hi hw rfl (b := .exited sent) (by simp) s.done s.results (s.wg - 1)
          s.founds (by simp [isActive]; omega) (by cases sent <;> simp [isSent])
          hI.res_founds (fun _ h => h) (by simp) id (fun h => Or.inr (Or.inl h))
          (by cases sent <;> simp [isSendOrSent])
          (by cases sent <;> simp [isExitF]; exact hdn rfl)
          (by cases sent <;> simp [isExitF]; exact hdn rfl)
      · cases h
    · cases h
  · cases h

/-- **M0** the invariant is inductive. -/
theorem Inv_step {W : Nat} (hW : 1 ≤ W) {s s' : State} {l : Label} (hI : Inv W s)
    (h : step W s l = some s') : Inv W s' := by
  cases l with
  | main => exact Inv_step_main hW hI h
  | watcherCtx => exact Inv_step_watcherCtx hI h
  | watcherClosing => exact Inv_step_watcherClosing hI h
  | watcherStore => exact Inv_step_watcherStore hI h
  | worker i o => exact Inv_step_worker hI i o h
  | cancel => exact Inv_step_cancel hI h

/-- **M0** every reachable state satisfies the invariant. -/
theorem Inv_of_reachable {W : Nat} (hW : 1 ≤ W) {s : State} (h : Reachable W s) : Inv W s :=
  reachable_induction (P := Inv W) (Inv_init W) (fun _ _ _ _ hI hs => Inv_step hW hI hs) h

end Iota.Proofs.Mine
