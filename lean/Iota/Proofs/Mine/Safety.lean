/-
Mine (C13) M1–M5: consequences of the invariant for every reachable state of every `W ≥ 1`.
-/
import Iota.Proofs.Mine.Inv

namespace Iota.Proofs.Mine
open Iota.Mine

/-- M1 from the invariant. -/
theorem Inv.send_free {W : Nat} {s : State} (hI : Inv W s) {i n : Nat} (hi : i < W)
    (hw : s.workers.getD i .idle = .send n) : s.results.length < W ∧ s.resultsClosed = false := by
  have hi' : i < s.workers.length := by rw [hI.len]; exact hi
  constructor
  · have h1 := countP_lt_length isSent s.workers i hi' (by rw [hw]; rfl)
    have h2 := hI.res_len
    rw [hI.len] at h1
    omega
  · cases hc : s.resultsClosed with
    | false => rfl
    | true =>
      have h1 := hI.rclosed
      rw [hc] at h1
      have hp : pastWait s.main = true := by
        cases hm : s.main <;> simp [hm, rClosedAt, pastWait] at h1 ⊢
      obtain ⟨b, hb⟩ := hI.all_exited hp i hi
      rw [hw] at hb
      cases hb

/-- **M1** a finder never blocks: when a worker is about to send, `results` has a free slot and is
not closed. -/
theorem M1_send_never_blocks {W : Nat} (hW : 1 ≤ W) {s : State} (h : Reachable W s) {i n : Nat}
    (hi : i < W) (hw : s.workers.getD i .idle = .send n) :
    s.results.length < W ∧ s.resultsClosed = false :=
  (Inv_of_reachable hW h).send_free hi hw

/-- **M1** in terms of `step`: the send step is enabled. -/
theorem M1_send_enabled {W : Nat} (hW : 1 ≤ W) {s : State} (h : Reachable W s) {i n : Nat}
    (hi : i < W) (hw : s.workers.getD i .idle = .send n) (o : Option Nat) :
    ∃ s', step W s (.worker i o) = some s' := by
  obtain ⟨h1, h2⟩ := M1_send_never_blocks hW h hi hw
  simp only [step, hi, if_true, hw]
  simp [h1, h2]

/-- **M2** the cancellation error is returned only after cancellation. -/
theorem M2_cancelled_only_after_cancel {W : Nat} (hW : 1 ≤ W) {s : State} (h : Reachable W s)
    (hm : s.main = .returned none) : s.ctx = true :=
  (Inv_of_reachable hW h).ret_none hm

/-- **M3** a returned nonce was found by a worker. -/
theorem M3_returned_nonce_found {W : Nat} (hW : 1 ≤ W) {s : State} (h : Reachable W s) {n : Nat}
    (hm : s.main = .returned (some n)) : n ∈ s.founds :=
  (Inv_of_reachable hW h).ret_founds n hm

/-- `founds` grows only by batch outcomes. -/
theorem founds_step {W : Nat} {s s' : State} {l : Label} (h : step W s l = some s') :
    s'.founds = s.founds ∨
      ∃ i n, l = .worker i (some n) ∧ i < W ∧ s.workers.getD i .idle = .batch ∧
        s'.founds = n :: s.founds := by
  cases l with
  | worker i o =>
    simp only [step] at h
    split at h
    · rename_i hi
      split at h
      · cases h
      · cases h; exact Or.inl rfl
      · rename_i hw
        split at h
        · cases h; exact Or.inl rfl
        · rename_i n; cases h; exact Or.inr ⟨i, n, rfl, hi, hw, rfl⟩
      · cases h; exact Or.inl rfl
      · split at h
        · cases h; exact Or.inl rfl
        · cases h
      · split at h
        · cases h; exact Or.inl rfl
        · cases h
      · cases h
    · cases h
  | main =>
    simp only [step] at h
    repeat' split at h
    all_goals first | cases h; exact Or.inl rfl | cases h
  | _ =>
    simp only [step] at h
    split at h
    all_goals first | cases h; exact Or.inl rfl | cases h

theorem progress_of_isSome {W : Nat} {s : State} (l : Label) (hl : l ≠ .cancel)
    (h : (step W s l).isSome = true) : ∃ l s', l ≠ .cancel ∧ step W s l = some s' := by
  cases hs : step W s l with
  | none => rw [hs] at h; cases h
  | some s' => exact ⟨l, s', hl, hs⟩

/-- M4 from the invariant. -/
theorem Inv.progress {W : Nat} {s : State} (hI : Inv W s) (hr : ∀ r, s.main ≠ .returned r) :
    ∃ l s', l ≠ .cancel ∧ step W s l = some s' := by
  cases hm : s.main with
  | start =>
    refine progress_of_isSome .main (by simp) ?_
    simp only [step, hm]
    rw [if_pos (hI.watcher_idle.mpr hm)]; rfl
  | spawn k =>
    by_cases hk : k < W
    · have h1 := (hI.idle_iff k hk).mpr (by rw [hm]; exact Nat.le_refl _)
      rw [getD_default _ _ _ (.exited false) (by rw [hI.len]; exact hk)] at h1
      refine progress_of_isSome .main (by simp) ?_
      simp only [step, hm]
      rw [if_pos hk, if_pos h1]; rfl
    · refine progress_of_isSome .main (by simp) ?_
      simp only [step, hm]
      rw [if_neg hk]; rfl
  | wait =>
    by_cases hwg : s.wg = 0
    · refine progress_of_isSome .main (by simp) ?_
      simp only [step, hm]
      rw [if_pos hwg]; rfl
    · have hpos : 0 < s.workers.countP isActive := by rw [← hI.wg_eq]; omega
      obtain ⟨i, hi, hp⟩ := exists_of_countP_pos _ _ hpos
      rw [hI.len] at hi
      refine progress_of_isSome (.worker i none) (by simp) ?_
      cases hw : s.workers.getD i .idle with
      | idle => rw [hw] at hp; cases hp
      | exited b => rw [hw] at hp; cases hp
      | loop => simp only [step, if_pos hi, hw]; rfl
      | batch => simp only [step, if_pos hi, hw]; rfl
      | found n => simp only [step, if_pos hi, hw]; rfl
      | send n =>
        obtain ⟨h1, h2⟩ := hI.send_free hi hw
        simp only [step, if_pos hi, hw]
        rw [if_pos ⟨h1, by simp [h2]⟩]; rfl
      | exiting b =>
        simp only [step, if_pos hi, hw]
        rw [if_pos (by omega)]; rfl
  | closeResults =>
    refine progress_of_isSome .main (by simp) ?_
    simp only [step, hm]; rfl
  | closeClosing =>
    refine progress_of_isSome .main (by simp) ?_
    simp only [step, hm]; rfl
  | recv =>
    have hc : s.resultsClosed = true := by rw [hI.rclosed, hm]; rfl
    refine progress_of_isSome .main (by simp) ?_
    cases hres : s.results with
    | nil =>
      simp only [step, hm, hres]
      rw [if_pos hc]; rfl
    | cons n rest =>
      simp only [step, hm, hres]; rfl
  | returned r => exact absurd hm (hr r)

/-- **M4** no deadlock: until main has returned, some thread (not merely the environment's `cancel`)
can take a step. -/
theorem M4_no_deadlock {W : Nat} (hW : 1 ≤ W) {s : State} (h : Reachable W s)
    (hr : ∀ r, s.main ≠ .returned r) : ∃ l s', l ≠ .cancel ∧ step W s l = some s' :=
  (Inv_of_reachable hW h).progress hr

/-- **M5** nothing is left behind at return: all workers have exited, the WaitGroup is at zero,
`closing` is closed, and the watcher has exited or is one enabled step from exiting. -/
theorem M5_nothing_left_behind {W : Nat} (hW : 1 ≤ W) {s : State} (h : Reachable W s)
    {r : Option Nat} (hm : s.main = .returned r) :
    (∀ i, i < W → ∃ b, s.workers.getD i .idle = .exited b) ∧ s.wg = 0 ∧ s.closingClosed = true ∧
    (s.watcher = .exited ∨
      (s.watcher = .select ∧ ∃ s', step W s .watcherClosing = some s' ∧ s'.watcher = .exited) ∨
      (s.watcher = .store ∧ ∃ s', step W s .watcherStore = some s' ∧ s'.watcher = .exited)) := by
  have hI := Inv_of_reachable hW h
  have hp : pastWait s.main = true := by rw [hm]; rfl
  have hc : s.closingClosed = true := by rw [hI.cclosed, hm]; rfl
  refine ⟨hI.all_exited hp, hI.past_wg hp, hc, ?_⟩
  cases ht : s.watcher with
  | idle => rw [hI.watcher_idle.mp ht] at hm; cases hm
  | exited => exact Or.inl rfl
  | select =>
    refine Or.inr (Or.inl ⟨rfl, { s with watcher := .exited }, ?_, rfl⟩)
    simp only [step]
    rw [if_pos ⟨ht, hc⟩]
  | store =>
    refine Or.inr (Or.inr ⟨rfl, { s with watcher := .exited, done := true }, ?_, rfl⟩)
    simp only [step]
    rw [if_pos ht]

/-- **M5** in the weaker form of the task statement. -/
theorem M5_nothing_left_behind' {W : Nat} (hW : 1 ≤ W) {s : State} (h : Reachable W s)
    {r : Option Nat} (hm : s.main = .returned r) :
    (∀ i, i < W → ∃ b, s.workers.getD i .idle = .exited b) ∧ s.wg = 0 ∧ s.closingClosed = true ∧
    (s.watcher = .exited ∨ s.watcher = .select ∨ s.watcher = .store) := by
  obtain ⟨h1, h2, h3, h4⟩ := M5_nothing_left_behind hW h hm
  refine ⟨h1, h2, h3, ?_⟩
  rcases h4 with h4 | h4 | h4
  · exact Or.inl h4
  · exact Or.inr (Or.inl h4.1)
  · exact Or.inr (Or.inr h4.1)

end Iota.Proofs.Mine
