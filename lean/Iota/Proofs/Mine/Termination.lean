/-
Mine (C13) M6: bounded termination once the flag is set, and cancellation is honoured.
-/
import Iota.Proofs.Mine.Safety

namespace Iota.Proofs.Mine
open Iota.Mine

/-- remaining steps of a worker once the flag is set (`batch`: finish the batch, possibly find, store,
send, `wg.Done()`). -/
def wrank : WPc → Nat
  | .idle => 2
  | .loop => 2
  | .batch => 4
  | .found _ => 3
  | .send _ => 2
  | .exiting _ => 1
  | .exited _ => 0

/-- remaining steps of main. -/
def mrank (W : Nat) : MPc → Nat
  | .start => W + 6
  | .spawn k => (W - k) + 5
  | .wait => 4
  | .closeResults => 3
  | .closeClosing => 2
  | .recv => 1
  | .returned _ => 0

/-- remaining steps of the watcher. -/
def trank : TPc → Nat
  | .idle => 3
  | .select => 2
  | .store => 1
  | .exited => 0

/-- **M6** the termination measure: an upper bound on the number of thread steps still possible
once the flag is set. -/
def measure (W : Nat) (s : State) : Nat :=
  mrank W s.main + trank s.watcher + (s.workers.map wrank).sum

/-- the flag is set, or main is already past `wg.Wait()`. -/
def Draining (s : State) : Prop := s.done = true ∨ pastWait s.main = true

/-- every step of main or of the watcher decreases the measure, in every state. -/
theorem measure_step_main {W : Nat} {s s' : State} (h : step W s .main = some s') :
    measure W s' < measure W s := by
  simp only [step] at h
  split at h
  · rename_i hm
    split at h
    · rename_i hw; cases h; simp [measure, hm, hw, mrank, trank]
    · cases h
  · rename_i k hm
    split at h
    · rename_i hk
      split at h
      · rename_i hw
        cases h
        by_cases hk' : k < s.workers.length
        · rw [getD_default _ _ _ .idle hk'] at hw
          have := sum_map_set wrank s.workers k _ .loop hk' hw
          simp only [wrank] at this
          simp only [measure, hm, mrank, setWorker]
          omega
        · have e : s.workers.set k .loop = s.workers := List.set_eq_of_length_le (by omega)
          simp only [measure, hm, mrank, setWorker, e]
          omega
      · cases h
    · cases h; simp only [measure, hm, mrank]; omega
  · rename_i hm
    split at h
    · cases h; simp [measure, hm, mrank]
    · cases h
  · rename_i hm; cases h; simp [measure, hm, mrank]
  · rename_i hm; cases h; simp [measure, hm, mrank]
  · rename_i hm
    split at h
    · cases h; simp [measure, hm, mrank]
    · split at h
      · cases h; simp [measure, hm, mrank]
      · cases h
  · cases h

theorem measure_step_watcher {W : Nat} {s s' : State} {l : Label}
    (hl : l = .watcherCtx ∨ l = .watcherClosing ∨ l = .watcherStore) (h : step W s l = some s') :
    measure W s' < measure W s := by
  rcases hl with rfl | rfl | rfl <;> simp only [step] at h <;> split at h
  · rename_i hc; cases h; simp [measure, hc.1, trank]
  · cases h
  · rename_i hc; cases h; simp [measure, hc.1, trank]
  · cases h
  · rename_i hc; cases h; simp [measure, hc, trank]
  · cases h

/-- a worker step decreases the measure when the flag is set. -/
theorem measure_step_worker {W : Nat} {s s' : State} {i : Nat} {o : Option Nat}
    (hlen : s.workers.length = W) (hd : s.done = true) (h : step W s (.worker i o) = some s') :
    measure W s' < measure W s := by
  simp only [step] at h
  split at h
  · rename_i hi
    have hi' : i < s.workers.length := by rw [hlen]; exact hi
    split at h
    · cases h
    · rename_i hw
      cases h
      have := sum_map_set wrank s.workers i _ (.exiting false) hi' hw
      simp only [wrank] at this
      simp only [measure, setWorker, hd]
      omega
    · rename_i hw
      split at h
      · cases h
        have := sum_map_set wrank s.workers i _ .loop hi' hw
        simp only [wrank] at this
        simp only [measure, setWorker]
        omega
      · rename_i n
        cases h
        have := sum_map_set wrank s.workers i _ (.found n) hi' hw
        simp only [wrank] at this
        simp only [measure, setWorker]
        omega
    · rename_i n hw
      cases h
      have := sum_map_set wrank s.workers i _ (.send n) hi' hw
      simp only [wrank] at this
      simp only [measure, setWorker]
      omega
    · rename_i n hw
      split at h
      · cases h
        have := sum_map_set wrank s.workers i _ (.exiting true) hi' hw
        simp only [wrank] at this
        simp only [measure, setWorker]
        omega
      · cases h
    · rename_i b hw
      split at h
      · cases h
        have := sum_map_set wrank s.workers i _ (.exited b) hi' hw
        simp only [wrank] at this
        simp only [measure, setWorker]
        omega
      · cases h
    · cases h
  · cases h

/-- once every worker has exited no worker step is enabled. -/
theorem no_worker_step_of_exited {W : Nat} {s : State} {i : Nat} {o : Option Nat}
    (h : ∀ i, i < W → ∃ b, s.workers.getD i .idle = .exited b) : step W s (.worker i o) = none := by
  simp only [step]
  split
  · rename_i hi
    obtain ⟨b, hb⟩ := h i hi
    rw [hb]
  · rfl

/-- the measure decreases at every thread step of a draining state. -/
theorem Inv.measure_decreases {W : Nat} {s s' : State} {l : Label} (hI : Inv W s) (hd : Draining s)
    (hl : l ≠ .cancel) (h : step W s l = some s') : measure W s' < measure W s := by
  cases l with
  | cancel => exact absurd rfl hl
  | main => exact measure_step_main h
  | watcherCtx => exact measure_step_watcher (Or.inl rfl) h
  | watcherClosing => exact measure_step_watcher (Or.inr (Or.inl rfl)) h
  | watcherStore => exact measure_step_watcher (Or.inr (Or.inr rfl)) h
  | worker i o =>
    rcases hd with hd | hp
    · exact measure_step_worker hI.len hd h
    · rw [no_worker_step_of_exited (hI.all_exited hp)] at h; cases h

/-- **M6a** once the flag is set every thread step decreases the measure. -/
theorem M6a_decrease_done {W : Nat} (hW : 1 ≤ W) {s s' : State} {l : Label} (h : Reachable W s)
    (hd : s.done = true) (hl : l ≠ .cancel) (hs : step W s l = some s') :
    measure W s' < measure W s :=
  (Inv_of_reachable hW h).measure_decreases (Or.inl hd) hl hs

/-- **M6b** once main is past `wg.Wait()` every thread step decreases the measure. -/
theorem M6b_decrease_pastWait {W : Nat} (hW : 1 ≤ W) {s s' : State} {l : Label} (h : Reachable W s)
    (hm : s.main = .closeResults ∨ s.main = .closeClosing ∨ s.main = .recv) (hl : l ≠ .cancel)
    (hs : step W s l = some s') : measure W s' < measure W s := by
  refine (Inv_of_reachable hW h).measure_decreases (Or.inr ?_) hl hs
  rcases hm with hm | hm | hm <;> rw [hm] <;> rfl

theorem Inv.measure_le {W : Nat} {s : State} (hI : Inv W s) : measure W s ≤ 5 * W + 9 := by
  have h1 := sum_map_le wrank 4 (by intro w; cases w <;> simp [wrank]) s.workers
  rw [hI.len] at h1
  have h2 : mrank W s.main ≤ W + 6 := by
    cases hm : s.main <;> simp only [mrank] <;> omega
  have h3 : trank s.watcher ≤ 3 := by
    cases s.watcher <;> simp [trank]
  simp only [measure]
  omega

/-- **M6c** the measure is linear in `W`. -/
theorem M6c_measure_bound {W : Nat} (hW : 1 ≤ W) {s : State} (h : Reachable W s) :
    measure W s ≤ 5 * W + 9 :=
  (Inv_of_reachable hW h).measure_le

/-- the bound in the form of the task statement. -/
theorem M6c_measure_bound' {W : Nat} (hW : 1 ≤ W) {s : State} (h : Reachable W s) :
    measure W s ≤ 8 * W + 16 := by
  have := M6c_measure_bound hW h
  omega

/-- the flag is never reset, and main never goes back before `wg.Wait()`. -/
theorem done_mono {W : Nat} {s s' : State} {l : Label} (h : step W s l = some s')
    (hd : s.done = true) : s'.done = true := by
  cases l with
  | worker i o =>
    simp only [step] at h
    repeat' split at h
    all_goals first | (cases h; first | exact hd | rfl | (simp only [hd, if_true]; exact hd)) | cases h
  | main =>
    simp only [step] at h
    repeat' split at h
    all_goals first | (cases h; first | exact hd | rfl) | cases h
  | _ =>
    simp only [step] at h
    split at h
    all_goals first | (cases h; first | exact hd | rfl) | cases h

theorem pastWait_mono {W : Nat} {s s' : State} {l : Label} (h : step W s l = some s')
    (hp : pastWait s.main = true) : pastWait s'.main = true := by
  cases l with
  | worker i o =>
    simp only [step] at h
    repeat' split at h
    all_goals first | (cases h; first | exact hp | rfl) | cases h
  | main =>
    simp only [step] at h
    repeat' split at h
    all_goals first | (cases h; first | exact hp | rfl | simp_all [pastWait]) | cases h
  | _ =>
    simp only [step] at h
    split at h
    all_goals first | (cases h; first | exact hp | rfl) | cases h

theorem Draining.step {W : Nat} {s s' : State} {l : Label} (hd : Draining s)
    (h : Iota.Mine.step W s l = some s') : Draining s' :=
  hd.elim (fun hd => Or.inl (done_mono h hd)) (fun hp => Or.inr (pastWait_mono h hp))

/-- `cancel` does not change the measure. -/
theorem measure_cancel {W : Nat} {s s' : State} (h : step W s .cancel = some s') :
    measure W s' = measure W s := by
  simp only [step] at h
  split at h
  · cases h
  · cases h; rfl

/-- **M6e** a run that starts in a reachable draining state (flag set, or main past `wg.Wait()`)
contains at most `measure W s ≤ 5 * W + 9` thread steps. -/
theorem M6e_run_bound {W : Nat} (hW : 1 ≤ W) {s s' : State} (ls : List Label) (h : Reachable W s)
    (hd : Draining s) (hr : run W s ls = some s') :
    (ls.filter (fun l => l ≠ .cancel)).length + measure W s' ≤ measure W s := by
  induction ls generalizing s with
  | nil => simp [run] at hr; subst hr; simp
  | cons l ls ih =>
    simp only [run] at hr
    cases hs : step W s l with
    | none => simp [hs] at hr
    | some s1 =>
      simp only [hs] at hr
      have ih' := ih (reachable_step h hs) (hd.step hs) hr
      by_cases hl : l = .cancel
      · subst hl
        have := measure_cancel hs
        rw [List.filter_cons, if_neg (by simp)]
        omega
      · have := (Inv_of_reachable hW h).measure_decreases hd hl hs
        rw [List.filter_cons, if_pos (decide_eq_true hl), List.length_cons]
        omega

/-- **M6d** cancellation is honoured: in every reachable state in which the context is cancelled,
the flag is not yet set and main has not returned, the watcher's next step towards storing the
flag is enabled (and stays enabled, this holding in every such state, until it is taken), or main
has not started the watcher yet and its step that does so is enabled, or main is already at its
final receive with the watcher gone via `<-closing`. -/
theorem M6d_cancel_honoured {W : Nat} (hW : 1 ≤ W) {s : State} (h : Reachable W s)
    (hc : s.ctx = true) (hd : s.done = false) (hr : ∀ r, s.main ≠ .returned r) :
    (s.watcher = .select ∧ ∃ s', step W s .watcherCtx = some s' ∧ s'.watcher = .store) ∨
    (s.watcher = .store ∧ ∃ s', step W s .watcherStore = some s' ∧ s'.done = true) ∨
    (s.main = .start ∧ ∃ s', step W s .main = some s' ∧ s'.watcher = .select) ∨
    (s.main = .recv ∧ s.watcher = .exited ∧ s.closingClosed = true) := by
  have hI := Inv_of_reachable hW h
  cases ht : s.watcher with
  | idle =>
    refine Or.inr (Or.inr (Or.inl ⟨hI.watcher_idle.mp ht, { s with main := .spawn 0, watcher := .select }, ?_, rfl⟩))
    simp only [step, hI.watcher_idle.mp ht]
    rw [if_pos ht]
  | select =>
    refine Or.inl ⟨rfl, { s with watcher := .store }, ?_, rfl⟩
    simp only [step]
    rw [if_pos ⟨ht, hc⟩]
  | store =>
    refine Or.inr (Or.inl ⟨rfl, { s with watcher := .exited, done := true }, ?_, rfl⟩)
    simp only [step]
    rw [if_pos ht]
  | exited =>
    refine Or.inr (Or.inr (Or.inr ?_))
    rcases hI.watcher_exited ht with h1 | h1
    · rw [hd] at h1; cases h1
    · have h2 := hI.cclosed
      rw [h1] at h2
      cases hm : s.main with
      | recv => exact ⟨rfl, rfl, h1⟩
      | returned r => exact absurd hm (hr r)
      | _ => rw [hm] at h2; cases h2

/-- **M6d** in the shape of the task statement. -/
theorem M6d_cancel_honoured' {W : Nat} (hW : 1 ≤ W) {s : State} (h : Reachable W s)
    (hc : s.ctx = true) (hd : s.done = false) (hr : ∀ r, s.main ≠ .returned r) :
    (∃ s', step W s .watcherCtx = some s') ∨ (∃ s', step W s .watcherStore = some s') ∨
    s.main = .start ∨ (s.main = .recv ∧ s.watcher = .exited) := by
  rcases M6d_cancel_honoured hW h hc hd hr with h1 | h1 | h1 | h1
  · obtain ⟨_, s', h2, _⟩ := h1; exact Or.inl ⟨s', h2⟩
  · obtain ⟨_, s', h2, _⟩ := h1; exact Or.inr (Or.inl ⟨s', h2⟩)
  · exact Or.inr (Or.inr (Or.inl h1.1))
  · exact Or.inr (Or.inr (Or.inr ⟨h1.1, h1.2.1⟩))

end Iota.Proofs.Mine
