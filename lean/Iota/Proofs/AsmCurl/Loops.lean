/-
C20 — the two loops of `Iota.Asm.program`: the StateLoop invariant (182 iterations fill the
to-planes with one closed-form round of the from-planes) and one full round including the pointer swap.
-/
import Iota.Proofs.AsmCurl.Blocks

namespace Iota.Proofs.AsmCurl
open Iota.Asm Iota.Curl Iota.Spec.CurlW Iota.Spec.CurlP

/-- which physical buffer each pointer register refers to during a round:
AX ↦ `tL`, CX ↦ `tH`, DX ↦ `fL`, BX ↦ `fH`. -/
structure Cfg where
  tL : Buf
  tH : Buf
  fL : Buf
  fH : Buf

/-- the four buffers are pairwise distinct. -/
structure Cfg.Ok (c : Cfg) : Prop where
  h1 : c.fL ≠ c.tL
  h2 : c.fL ≠ c.tH
  h3 : c.fH ≠ c.tL
  h4 : c.fH ≠ c.tH
  h5 : c.tL ≠ c.tH
  h6 : c.fL ≠ c.fH

def Cfg.swap (c : Cfg) : Cfg := ⟨c.fL, c.fH, c.tL, c.tH⟩

theorem Cfg.Ok.swap {c : Cfg} (h : c.Ok) : c.swap.Ok :=
  ⟨h.h1.symm, h.h3.symm, h.h2.symm, h.h4.symm, h.h6, h.h5⟩

/-- the pointer registers hold the (offset 0) pointers of configuration `c`. -/
structure Ptrs (c : Cfg) (R : Regs) : Prop where
  ax : R.get .AX = .ptr c.tL 0
  cx : R.get .CX = .ptr c.tH 0
  dx : R.get .DX = .ptr c.fL 0
  bx : R.get .BX = .ptr c.fH 0

/-! ### entries of the closed-form round -/

theorem rdW_roundW_fst (FL FH : Plane) (j : Nat) (hj : j < 729) :
    rdW (roundW (FL, FH)).1 j = sL FL FH (idx j) (idx (j + 1)) := by
  rw [← getElem_eq_rdW _ j hj]
  simp only [roundW, Vector.getElem_ofFn, sL]

theorem rdW_roundW_snd (FL FH : Plane) (j : Nat) (hj : j < 729) :
    rdW (roundW (FL, FH)).2 j = sH FL FH (idx j) (idx (j + 1)) := by
  rw [← getElem_eq_rdW _ j hj]
  simp only [roundW, Vector.getElem_ofFn, sH]

/-! the walk over the from-planes: with `t = 364 − 2k`, positions `4k+1 … 4k+5` of the permutation
`idx i = 364·i mod 729` are `t, 364+t, t−1, 363+t, t−2`. -/

theorem idx_walk (k : Nat) (hk : k < 182) :
    idx (4 * k + 1) = 364 - 2 * k ∧ idx (4 * k + 2) = 364 + (364 - 2 * k) ∧
    idx (4 * k + 3) = 364 - 2 * k - 1 ∧ idx (4 * k + 4) = 363 + (364 - 2 * k) ∧
    idx (4 * k + 5) = 364 - 2 * k - 2 := by
  simp only [idx]
  omega

theorem idx_zero : idx 0 = 0 := rfl
theorem idx_one : idx 1 = 364 := rfl

/-! ### StateLoop -/

/-- state at the `StateLoop` label after `k` iterations. `FL, FH` are the from-planes, `sv` the
round counter (untouched by the loop). -/
structure InnerInv (c : Cfg) (FL FH : Plane) (sv : Val) (k : Nat) (R : Regs) (M : Mem) : Prop where
  ptrs : Ptrs c R
  si : R.get .SI = sv
  r11 : R.get .R11 = .word (BitVec.ofNat 64 (364 - 2 * k))
  r12 : R.get .R12 = .word (BitVec.ofNat 64 (4 * k + 1))
  r9 : R.get .R9 = .word (rdW FL (364 - 2 * k))
  r10 : R.get .R10 = .word (rdW FH (364 - 2 * k))
  fl : M.get c.fL = FL
  fh : M.get c.fH = FH
  tl : ∀ j, j < 4 * k + 1 → rdW (M.get c.tL) j = rdW (roundW (FL, FH)).1 j
  th : ∀ j, j < 4 * k + 1 → rdW (M.get c.tH) j = rdW (roundW (FL, FH)).2 j

/-- four consecutive writes, then a read. -/
theorem rdW_wrW4 (p : Plane) (i j : Nat) (v0 v1 v2 v3 : W) (hi : i + 3 < 729) :
    rdW (wrW (wrW (wrW (wrW p i v0) (i + 1) v1) (i + 2) v2) (i + 3) v3) j =
      if j = i + 3 then v3 else if j = i + 2 then v2 else if j = i + 1 then v1
      else if j = i then v0 else rdW p j := by
  rw [rdW_wrW _ _ _ _ (by omega), rdW_wrW _ _ _ _ (by omega), rdW_wrW _ _ _ _ (by omega),
    rdW_wrW _ _ _ _ (by omega)]
  by_cases h3 : j = i + 3
  · simp [h3]
  by_cases h2 : j = i + 2
  · simp [h2]
  by_cases h1 : j = i + 1
  · simp [h1]
  by_cases h0 : j = i
  · simp [h0]
  · simp [h3, h2, h1, h0, Ne.symm h3, Ne.symm h2, Ne.symm h1, Ne.symm h0]

/-- one StateLoop iteration (45 steps, including the label and the `JL`). -/
theorem inner_step (c : Cfg) (hc : c.Ok) (FL FH : Plane) (sv : Val) (k : Nat) (hk : k < 182)
    (R : Regs) (F : Flags) (M : Mem) (inv : InnerInv c FL FH sv k R M) :
    ∃ R' F' M', exN 45 ⟨20, R, F, M⟩ = some ⟨if k + 1 < 182 then 20 else 65, R', F', M'⟩ ∧
      InnerInv c FL FH sv (k + 1) R' M' := by
  obtain ⟨⟨hAX, hCX, hDX, hBX⟩, hSI, h11, h12, h9, h10, hfl, hfh, htl, hth⟩ := inv
  subst hfl hfh
  obtain ⟨R', M', lt, hex, hlt, a1, a2, a3, a4, a5, a6, a7, a8, a9, a10, a11, a12, a13⟩ :=
    body R F M c.tL c.tH c.fL c.fH (364 - 2 * k) (4 * k + 1)
      hc.h1 hc.h2 hc.h3 hc.h4 hc.h5 hc.h5.symm hAX hCX hDX hBX h11 h12
      h9 h10 (by omega) (by omega) (by omega)
  have hjl := jl_step R' M' lt
  have hpc : (if lt = true then 20 else 65) = (if k + 1 < 182 then 20 else 65) := by
    by_cases h : k + 1 < 182
    · have : lt = true := hlt.mpr (by omega)
      simp [this, h]
    · have : ¬ (lt = true) := fun hh => h (by have := hlt.mp hh; omega)
      simp [this, h]
  rw [hpc] at hjl
  refine ⟨R', .cmp lt, M', exN_trans hex hjl, ?_⟩
  obtain ⟨i1, i2, i3, i4, i5⟩ := idx_walk k hk
  refine ⟨⟨a1.trans hAX, a2.trans hCX, a3.trans hDX, a4.trans hBX⟩, a5.trans hSI, ?_, ?_, ?_, ?_,
    a10, a11, ?_, ?_⟩
  · rw [a6, show 364 - 2 * k - 2 = 364 - 2 * (k + 1) by omega]
  · rw [a7, show 4 * k + 1 + 4 = 4 * (k + 1) + 1 by omega]
  · rw [a8, show 364 - 2 * k - 2 = 364 - 2 * (k + 1) by omega]
  · rw [a9, show 364 - 2 * k - 2 = 364 - 2 * (k + 1) by omega]
  · intro j hj
    rw [a12, rdW_wrW4 _ _ _ _ _ _ _ (by omega), rdW_roundW_fst _ _ _ (by omega)]
    by_cases h3 : j = 4 * k + 1 + 3
    · rw [if_pos h3, h3, show 4 * k + 1 + 3 = 4 * k + 4 by omega, i4,
        show 4 * k + 4 + 1 = 4 * k + 5 by omega, i5]
    rw [if_neg h3]
    by_cases h2 : j = 4 * k + 1 + 2
    · rw [if_pos h2, h2, show 4 * k + 1 + 2 = 4 * k + 3 by omega, i3,
        show 4 * k + 3 + 1 = 4 * k + 4 by omega, i4]
    rw [if_neg h2]
    by_cases h1 : j = 4 * k + 1 + 1
    · rw [if_pos h1, h1, show 4 * k + 1 + 1 = 4 * k + 2 by omega, i2,
        show 4 * k + 2 + 1 = 4 * k + 3 by omega, i3]
    rw [if_neg h1]
    by_cases h0 : j = 4 * k + 1
    · rw [if_pos h0, h0, i1, show 4 * k + 1 + 1 = 4 * k + 2 by omega, i2]
    rw [if_neg h0, htl j (by omega), rdW_roundW_fst _ _ _ (by omega)]
  · intro j hj
    rw [a13, rdW_wrW4 _ _ _ _ _ _ _ (by omega), rdW_roundW_snd _ _ _ (by omega)]
    by_cases h3 : j = 4 * k + 1 + 3
    · rw [if_pos h3, h3, show 4 * k + 1 + 3 = 4 * k + 4 by omega, i4,
        show 4 * k + 4 + 1 = 4 * k + 5 by omega, i5]
    rw [if_neg h3]
    by_cases h2 : j = 4 * k + 1 + 2
    · rw [if_pos h2, h2, show 4 * k + 1 + 2 = 4 * k + 3 by omega, i3,
        show 4 * k + 3 + 1 = 4 * k + 4 by omega, i4]
    rw [if_neg h2]
    by_cases h1 : j = 4 * k + 1 + 1
    · rw [if_pos h1, h1, show 4 * k + 1 + 1 = 4 * k + 2 by omega, i2,
        show 4 * k + 2 + 1 = 4 * k + 3 by omega, i3]
    rw [if_neg h1]
    by_cases h0 : j = 4 * k + 1
    · rw [if_pos h0, h0, i1, show 4 * k + 1 + 1 = 4 * k + 2 by omega, i2]
    rw [if_neg h0, hth j (by omega), rdW_roundW_snd _ _ _ (by omega)]

/-- `k ≤ 182` StateLoop iterations. -/
theorem inner_loop (c : Cfg) (hc : c.Ok) (FL FH : Plane) (sv : Val) (k : Nat) (hk : k ≤ 182)
    (R : Regs) (F : Flags) (M : Mem) (inv : InnerInv c FL FH sv 0 R M) :
    ∃ R' F' M', exN (45 * k) ⟨20, R, F, M⟩ = some ⟨if k < 182 then 20 else 65, R', F', M'⟩ ∧
      InnerInv c FL FH sv k R' M' := by
  induction k with
  | zero => exact ⟨R, F, M, rfl, inv⟩
  | succ k ih =>
    obtain ⟨R1, F1, M1, h1, inv1⟩ := ih (by omega)
    rw [if_pos (by omega)] at h1
    obtain ⟨R2, F2, M2, h2, inv2⟩ := inner_step c hc FL FH sv k (by omega) R1 F1 M1 inv1
    refine ⟨R2, F2, M2, ?_, inv2⟩
    rw [show 45 * (k + 1) = 45 * k + 45 by omega]
    exact exN_trans h1 h2

/-! ### one round -/

/-- pc 5 → 5 (or 69 after the last round): one full round, `15 + 182·45 + 4 = 8209` steps.  The
to-buffers receive the closed-form round of the from-buffers, the from-buffers are unchanged, and the
pointer registers are swapped. -/
theorem round_step (c : Cfg) (hc : c.Ok) (s : Nat) (hs : 1 ≤ s) (hs' : s ≤ 81)
    (R : Regs) (F : Flags) (M : Mem) (hp : Ptrs c R)
    (hSI : R.get .SI = .word (BitVec.ofNat 64 s)) :
    ∃ R' F' M', exN 8209 ⟨5, R, F, M⟩ = some ⟨if s = 1 then 69 else 5, R', F', M'⟩ ∧
      Ptrs c.swap R' ∧ R'.get .SI = .word (BitVec.ofNat 64 (s - 1)) ∧
      M'.get c.fL = M.get c.fL ∧ M'.get c.fH = M.get c.fH ∧
      M'.get c.tL = (roundW (M.get c.fL, M.get c.fH)).1 ∧
      M'.get c.tH = (roundW (M.get c.fL, M.get c.fH)).2 := by
  obtain ⟨hAX, hCX, hDX, hBX⟩ := hp
  obtain ⟨R1, F1, M1, hex1, a1, a2, a3, a4, a5, a6, a7, a8, a9, a10, a11, a12, a13⟩ :=
    head R F M c.tL c.tH c.fL c.fH hc.h1 hc.h2 hc.h3 hc.h4 hc.h5 hc.h5.symm hAX hCX hDX hBX
  have inv0 : InnerInv c (M.get c.fL) (M.get c.fH) (.word (BitVec.ofNat 64 s)) 0 R1 M1 := by
    refine ⟨⟨a1.trans hAX, a2.trans hCX, a3.trans hDX, a4.trans hBX⟩, a5.trans hSI, a6, a7, a8, a9,
      a10, a11, ?_, ?_⟩
    · intro j hj
      have : j = 0 := by omega
      subst this
      rw [a12, rdW_wrW _ _ _ _ (by omega), if_pos rfl, rdW_roundW_fst _ _ _ (by omega)]
      rfl
    · intro j hj
      have : j = 0 := by omega
      subst this
      rw [a13, rdW_wrW _ _ _ _ (by omega), if_pos rfl, rdW_roundW_snd _ _ _ (by omega)]
      rfl
  obtain ⟨R2, F2, M2, hex2, inv2⟩ := inner_loop c hc _ _ _ 182 (Nat.le_refl _) R1 F1 M1 inv0
  rw [if_neg (by omega)] at hex2
  obtain ⟨⟨bAX, bCX, bDX, bBX⟩, bSI, -, -, -, -, bfl, bfh, btl, bth⟩ := inv2
  obtain ⟨R3, F3, hex3, c1, c2, c3, c4, c5⟩ := epilogue R2 F2 M2 s bSI hs hs'
  refine ⟨R3, F3, M2, ?_, ⟨c1.trans bDX, c3.trans bBX, c2.trans bAX, c4.trans bCX⟩, c5, bfl, bfh, ?_, ?_⟩
  · have := exN_trans (exN_trans hex1 hex2) hex3
    exact this
  · exact plane_ext fun j hj => btl j (by omega)
  · exact plane_ext fun j hj => bth j (by omega)

end Iota.Proofs.AsmCurl
