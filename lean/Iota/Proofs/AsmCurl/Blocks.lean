/-
C20 — symbolic execution of the straight-line blocks of `Iota.Asm.program`:
prologue (pc 0–4), round head with the first s-box (pc 5–19), one StateLoop iteration with four
s-boxes (pc 20–63), the `JL` (pc 64), the pointer swap and round counter (pc 65–68), `RET` (pc 69).
-/
import Iota.Proofs.AsmCurl.Basic

namespace Iota.Proofs.AsmCurl
open Iota.Asm Iota.Curl Iota.Spec.CurlW
set_option linter.unusedSimpArgs false

/-- the s-box output (low plane) for inputs at positions `a` and `b` of the from-planes. -/
def sL (FL FH : Plane) (a b : Nat) : W := (sBox (rdW FL a) (rdW FH a) (rdW FL b) (rdW FH b)).1
def sH (FL FH : Plane) (a b : Nat) : W := (sBox (rdW FL a) (rdW FH a) (rdW FL b) (rdW FH b)).2

theorem and_xor_comm (x y z : W) : (x ^^^ y) &&& z = z &&& (y ^^^ x) := by
  rw [BitVec.xor_comm, BitVec.and_comm]

/-- pc 20 → 64: one StateLoop iteration up to (excluding) the `JL`. -/
theorem body (R : Regs) (F : Flags) (M : Mem) (tL tH fL fH : Buf) (t i : Nat)
    (h1 : fL ≠ tL) (h2 : fL ≠ tH) (h3 : fH ≠ tL) (h4 : fH ≠ tH) (h5 : tL ≠ tH) (h6 : tH ≠ tL)
    (hAX : R.get .AX = .ptr tL 0) (hCX : R.get .CX = .ptr tH 0)
    (hDX : R.get .DX = .ptr fL 0) (hBX : R.get .BX = .ptr fH 0)
    (h11 : R.get .R11 = .word (BitVec.ofNat 64 t)) (h12 : R.get .R12 = .word (BitVec.ofNat 64 i))
    (h9 : R.get .R9 = .word (rdW (M.get fL) t)) (h10 : R.get .R10 = .word (rdW (M.get fH) t))
    (ht : 2 ≤ t) (ht' : t ≤ 364) (hi : i + 3 < 729) :
    ∃ R' M' lt, exN 44 ⟨20, R, F, M⟩ = some ⟨64, R', .cmp lt, M'⟩ ∧ (lt = true ↔ i + 4 < 729) ∧
      R'.get .AX = R.get .AX ∧ R'.get .CX = R.get .CX ∧ R'.get .DX = R.get .DX ∧
      R'.get .BX = R.get .BX ∧ R'.get .SI = R.get .SI ∧
      R'.get .R11 = .word (BitVec.ofNat 64 (t - 2)) ∧ R'.get .R12 = .word (BitVec.ofNat 64 (i + 4)) ∧
      R'.get .R9 = .word (rdW (M.get fL) (t - 2)) ∧ R'.get .R10 = .word (rdW (M.get fH) (t - 2)) ∧
      M'.get fL = M.get fL ∧ M'.get fH = M.get fH ∧
      M'.get tL = wrW (wrW (wrW (wrW (M.get tL) i (sL (M.get fL) (M.get fH) t (364 + t)))
        (i + 1) (sL (M.get fL) (M.get fH) (364 + t) (t - 1)))
        (i + 2) (sL (M.get fL) (M.get fH) (t - 1) (363 + t)))
        (i + 3) (sL (M.get fL) (M.get fH) (363 + t) (t - 2)) ∧
      M'.get tH = wrW (wrW (wrW (wrW (M.get tH) i (sH (M.get fL) (M.get fH) t (364 + t)))
        (i + 1) (sH (M.get fL) (M.get fH) (364 + t) (t - 1)))
        (i + 2) (sH (M.get fL) (M.get fH) (t - 1) (363 + t)))
        (i + 3) (sH (M.get fL) (M.get fH) (363 + t) (t - 2)) := by
  have e1 : (((t : Int) * ((8 : Nat) : Int) + 2912) / 8).toNat = 364 + t := by omega
  have e2 : (((t : Int) * ((8 : Nat) : Int) + -8) / 8).toNat = t - 1 := by omega
  have e3 : (((t : Int) * ((8 : Nat) : Int) + 2904) / 8).toNat = 363 + t := by omega
  have e4 : (((t : Int) * ((8 : Nat) : Int) + -16) / 8).toNat = t - 2 := by omega
  have e5 : (((i : Int) * ((8 : Nat) : Int)) / 8).toNat = i := by omega
  have e6 : (((i : Int) * ((8 : Nat) : Int) + 8) / 8).toNat = i + 1 := by omega
  have e7 : (((i : Int) * ((8 : Nat) : Int) + 16) / 8).toNat = i + 2 := by omega
  have e8 : (((i : Int) * ((8 : Nat) : Int) + 24) / 8).toNat = i + 3 := by omega
  have e9 : BitVec.ofNat 64 t - 2#64 = BitVec.ofNat 64 (t - 2) := ofNat_sub_lit t 2 ht (by omega)
  have e10 : BitVec.ofNat 64 i + 4#64 = BitVec.ofNat 64 (i + 4) := ofNat_add_lit i 4
  asm_exec [hAX, hCX, hDX, hBX, h11, h12, h9, h10, h1, h2, h3, h4, h5, h6, e1, e2, e3, e4, e5, e6, e7, e8, e9, e10]
  refine ⟨_, _, _, rfl, ?_⟩
  simp only [Regs.get_set, Mem.get_set, reduceCtorEq, ↓reduceIte, h1, h2, h3, h4, h5, h6, true_and,
    decide_eq_true_eq, sL, sH, sBox, and_xor_comm, hAX, hCX, hDX, hBX, and_true]
  omega

/-- pc 64: the `JL StateLoop`. -/
theorem jl_step (R : Regs) (M : Mem) (lt : Bool) :
    exN 1 ⟨64, R, .cmp lt, M⟩ = some ⟨if lt then 20 else 65, R, .cmp lt, M⟩ := by
  cases lt <;> asm_exec []

/-- pc 0 → 5: load the four pointer arguments and the round counter. -/
theorem prologue (M : Mem) :
    ∃ R, exN 5 (initial M) = some ⟨5, R, .undef, M⟩ ∧
      R.get .AX = .ptr .lto 0 ∧ R.get .CX = .ptr .hto 0 ∧
      R.get .DX = .ptr .lfrom 0 ∧ R.get .BX = .ptr .hfrom 0 ∧
      R.get .SI = .word (BitVec.ofNat 64 81) := by
  unfold initial
  asm_exec []
  refine ⟨_, rfl, ?_⟩
  simp only [Regs.get_set, reduceCtorEq, ↓reduceIte, and_self]

/-- pc 5 → 20: the first s-box of a round and the initialisation of the StateLoop counters. -/
theorem head (R : Regs) (F : Flags) (M : Mem) (tL tH fL fH : Buf)
    (h1 : fL ≠ tL) (h2 : fL ≠ tH) (h3 : fH ≠ tL) (h4 : fH ≠ tH) (h5 : tL ≠ tH) (h6 : tH ≠ tL)
    (hAX : R.get .AX = .ptr tL 0) (hCX : R.get .CX = .ptr tH 0)
    (hDX : R.get .DX = .ptr fL 0) (hBX : R.get .BX = .ptr fH 0) :
    ∃ R' F' M', exN 15 ⟨5, R, F, M⟩ = some ⟨20, R', F', M'⟩ ∧
      R'.get .AX = R.get .AX ∧ R'.get .CX = R.get .CX ∧ R'.get .DX = R.get .DX ∧
      R'.get .BX = R.get .BX ∧ R'.get .SI = R.get .SI ∧
      R'.get .R11 = .word (BitVec.ofNat 64 364) ∧ R'.get .R12 = .word (BitVec.ofNat 64 1) ∧
      R'.get .R9 = .word (rdW (M.get fL) 364) ∧ R'.get .R10 = .word (rdW (M.get fH) 364) ∧
      M'.get fL = M.get fL ∧ M'.get fH = M.get fH ∧
      M'.get tL = wrW (M.get tL) 0 (sL (M.get fL) (M.get fH) 0 364) ∧
      M'.get tH = wrW (M.get tH) 0 (sH (M.get fL) (M.get fH) 0 364) := by
  asm_exec [hAX, hCX, hDX, hBX, h1, h2, h3, h4, h5, h6]
  refine ⟨_, _, _, rfl, ?_⟩
  simp only [Regs.get_set, Mem.get_set, reduceCtorEq, ↓reduceIte, h1, h2, h3, h4, h5, h6, true_and,
    sL, sH, sBox, and_xor_comm, hAX, hCX, hDX, hBX, and_true]

/-- pc 65 → 5 or 69: swap the buffer pointers, decrement the round counter, loop or fall through. -/
theorem epilogue (R : Regs) (F : Flags) (M : Mem) (s : Nat)
    (hSI : R.get .SI = .word (BitVec.ofNat 64 s)) (hs : 1 ≤ s) (hs' : s ≤ 81) :
    ∃ R' F', exN 4 ⟨65, R, F, M⟩ = some ⟨if s = 1 then 69 else 5, R', F', M⟩ ∧
      R'.get .AX = R.get .DX ∧ R'.get .DX = R.get .AX ∧ R'.get .CX = R.get .BX ∧
      R'.get .BX = R.get .CX ∧ R'.get .SI = .word (BitVec.ofNat 64 (s - 1)) := by
  have e1 : BitVec.ofNat 64 s - 1 = BitVec.ofNat 64 (s - 1) := ofNat_sub_lit s 1 hs (by omega)
  have e2 : (BitVec.ofNat 64 (s - 1) == 0) = decide (s = 1) := by
    have := ofNat_eq_zero_iff (s - 1) (by omega)
    by_cases h : s = 1
    · subst h; rfl
    · have h' : ¬ (s - 1 = 0) := by omega
      have h'' : ¬ (BitVec.ofNat 64 (s - 1) = 0) := fun hh => h' (this.mp hh)
      simp only [h, decide_false, beq_eq_false_iff_ne, ne_eq]
      exact h''
  by_cases h : s = 1
  · subst h
    asm_exec [hSI, BitVec.reduceSub, BitVec.reduceBEq]
    refine ⟨_, _, rfl, ?_⟩
    simp only [Regs.get_set, reduceCtorEq, ↓reduceIte, true_and]
  · asm_exec [hSI, e1, e2, h, decide_false]
    refine ⟨_, _, rfl, ?_⟩
    simp only [Regs.get_set, reduceCtorEq, ↓reduceIte, and_self]

/-- pc 69: `RET`. -/
theorem ret_step (R : Regs) (F : Flags) (M : Mem) (f : Nat) :
    run program (f + 1) ⟨69, R, F, M⟩ = .done M := by
  rw [run_succ, step_mk, fetch69]; rfl

end Iota.Proofs.AsmCurl
