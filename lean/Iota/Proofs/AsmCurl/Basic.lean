/-
C20 — basic lemmas for symbolic execution of `Iota.Asm.program` under the semantics of
Iota/Model/AsmSem.lean: register-file and memory lookups, fuel splitting, instruction fetch,
word/index arithmetic.
-/
import Iota.Model.AsmSem
import Iota.Spec.CurlW

namespace Iota.Proofs.AsmCurl
open Iota.Asm Iota.Curl Iota.Spec.CurlW
set_option linter.unusedSimpArgs false

/-! ### register file and memory -/

theorem Regs.get_set (R : Regs) (r r' : Reg) (v : Val) :
    (R.set r v).get r' = if r' = r then v else R.get r' := by
  by_cases h : r' = r
  · subst h; simp [Regs.get, Regs.set]
  · have : r.idx.val ≠ r'.idx.val := by
      revert h; cases r <;> cases r' <;> decide
    simp [Regs.get, Regs.set, this, h]

theorem Mem.get_set (M : Mem) (b b' : Buf) (p : Plane) :
    (M.set b p).get b' = if b' = b then p else M.get b' := by
  cases b <;> cases b' <;> simp [Mem.get, Mem.set]

theorem Mem.ext_get {M M' : Mem} (h : ∀ b, M.get b = M'.get b) : M = M' := by
  cases M; cases M'
  have h1 := h .lto; have h2 := h .hto; have h3 := h .lfrom; have h4 := h .hfrom
  simp [Mem.get] at h1 h2 h3 h4
  simp [h1, h2, h3, h4]

/-! ### n steps without halting -/

def cont (k : Machine → Option Machine) : Step → Option Machine
  | .next m => k m
  | _ => none

/-- `n` steps of the program, none of which halts or faults. -/
def exN : Nat → Machine → Option Machine
  | 0, m => some m
  | n + 1, m => cont (exN n) (step program m)

theorem exN_zero (m : Machine) : exN 0 m = some m := rfl
theorem exN_succ (n : Nat) (m : Machine) : exN (n + 1) m = cont (exN n) (step program m) := rfl
theorem cont_next (k : Machine → Option Machine) (m : Machine) : cont k (.next m) = k m := rfl

theorem exN_add (a b : Nat) (m : Machine) : exN (a + b) m = (exN a m).bind (exN b) := by
  induction a generalizing m with
  | zero => simp [exN]
  | succ a ih =>
    rw [show a + 1 + b = (a + b) + 1 by omega, exN_succ, exN_succ]
    cases step program m <;> simp [cont, ih]

theorem exN_trans {a b : Nat} {m m' m'' : Machine} (h1 : exN a m = some m') (h2 : exN b m' = some m'') :
    exN (a + b) m = some m'' := by
  rw [exN_add, h1]; exact h2

theorem run_succ (prog : List Instr) (n : Nat) (m : Machine) : run prog (n + 1) m =
    match step prog m with
    | .next m' => run prog n m'
    | .halt mem => .done mem
    | .fault => .fault := rfl

theorem run_of_exN {n : Nat} {m m' : Machine} (h : exN n m = some m') (f : Nat) :
    run program (n + f) m = run program f m' := by
  induction n generalizing m with
  | zero => simp [exN] at h; simp [h]
  | succ n ih =>
    rw [show n + 1 + f = (n + f) + 1 by omega]
    rw [exN_succ] at h
    rw [run_succ]
    cases hs : step program m with
    | next m1 => rw [hs] at h; exact ih h
    | halt _ => rw [hs] at h; simp [cont] at h
    | fault => rw [hs] at h; simp [cont] at h

theorem run_outOfFuel_of_exN {n : Nat} {m m' : Machine} (h : exN n m = some m') {f : Nat} (hf : f ≤ n) :
    run program f m = .outOfFuel := by
  induction n generalizing m f with
  | zero => have : f = 0 := by omega
            subst this; rfl
  | succ n ih =>
    cases f with
    | zero => rfl
    | succ f =>
      rw [run_succ]
      rw [exN_succ] at h
      cases hs : step program m with
      | next m1 => rw [hs] at h; exact ih h (by omega)
      | halt _ => rw [hs] at h; simp [cont] at h
      | fault => rw [hs] at h; simp [cont] at h

/-! ### instruction fetch -/

def stepO (m : Machine) : Option Instr → Step
  | some i => exec program m i
  | none => .fault

theorem step_mk (pc : Nat) (R : Regs) (F : Flags) (M : Mem) :
    step program ⟨pc, R, F, M⟩ = stepO ⟨pc, R, F, M⟩ program[pc]? := by
  simp only [step, stepO]; cases program[pc]? <;> rfl
theorem stepO_some (m : Machine) (i : Instr) : stepO m (some i) = exec program m i := rfl

/-! `fetchN`: the instruction at program counter `N` (one `rfl` lemma per position, written out from
Iota/Model/AsmProgram.lean; a stale copy cannot compile). -/

theorem fetch0 : program[0]? = some (.movq (.arg 0) (.reg .AX)) := rfl
theorem fetch1 : program[1]? = some (.movq (.arg 8) (.reg .CX)) := rfl
theorem fetch2 : program[2]? = some (.movq (.arg 16) (.reg .DX)) := rfl
theorem fetch3 : program[3]? = some (.movq (.arg 24) (.reg .BX)) := rfl
theorem fetch4 : program[4]? = some (.movq (.imm 81) (.reg .SI)) := rfl
theorem fetch5 : program[5]? = some (.label 0) := rfl
theorem fetch6 : program[6]? = some (.movq (.mem 0 .DX none 1) (.reg .DI)) := rfl
theorem fetch7 : program[7]? = some (.movq (.mem 0 .BX none 1) (.reg .R8)) := rfl
theorem fetch8 : program[8]? = some (.movq (.mem 2912 .DX none 1) (.reg .R9)) := rfl
theorem fetch9 : program[9]? = some (.movq (.mem 2912 .BX none 1) (.reg .R10)) := rfl
theorem fetch10 : program[10]? = some (.movq (.reg .R9) (.reg .R11)) := rfl
theorem fetch11 : program[11]? = some (.xorq (.reg .R8) (.reg .R11)) := rfl
theorem fetch12 : program[12]? = some (.andq (.reg .DI) (.reg .R11)) := rfl
theorem fetch13 : program[13]? = some (.xorq (.reg .R10) (.reg .DI)) := rfl
theorem fetch14 : program[14]? = some (.orq (.reg .R11) (.reg .DI)) := rfl
theorem fetch15 : program[15]? = some (.notq (.reg .R11)) := rfl
theorem fetch16 : program[16]? = some (.movq (.reg .R11) (.mem 0 .AX none 1)) := rfl
theorem fetch17 : program[17]? = some (.movq (.reg .DI) (.mem 0 .CX none 1)) := rfl
theorem fetch18 : program[18]? = some (.movq (.imm 364) (.reg .R11)) := rfl
theorem fetch19 : program[19]? = some (.movq (.imm 1) (.reg .R12)) := rfl
theorem fetch20 : program[20]? = some (.label 1) := rfl
theorem fetch21 : program[21]? = some (.movq (.mem 2912 .DX (some .R11) 8) (.reg .DI)) := rfl
theorem fetch22 : program[22]? = some (.movq (.mem 2912 .BX (some .R11) 8) (.reg .R8)) := rfl
theorem fetch23 : program[23]? = some (.movq (.reg .DI) (.reg .R13)) := rfl
theorem fetch24 : program[24]? = some (.xorq (.reg .R10) (.reg .R13)) := rfl
theorem fetch25 : program[25]? = some (.andq (.reg .R9) (.reg .R13)) := rfl
theorem fetch26 : program[26]? = some (.xorq (.reg .R8) (.reg .R9)) := rfl
theorem fetch27 : program[27]? = some (.orq (.reg .R13) (.reg .R9)) := rfl
theorem fetch28 : program[28]? = some (.notq (.reg .R13)) := rfl
theorem fetch29 : program[29]? = some (.movq (.reg .R13) (.mem 0 .AX (some .R12) 8)) := rfl
theorem fetch30 : program[30]? = some (.movq (.reg .R9) (.mem 0 .CX (some .R12) 8)) := rfl
theorem fetch31 : program[31]? = some (.movq (.mem (-8) .DX (some .R11) 8) (.reg .R9)) := rfl
theorem fetch32 : program[32]? = some (.movq (.mem (-8) .BX (some .R11) 8) (.reg .R10)) := rfl
theorem fetch33 : program[33]? = some (.movq (.reg .R9) (.reg .R13)) := rfl
theorem fetch34 : program[34]? = some (.xorq (.reg .R8) (.reg .R13)) := rfl
theorem fetch35 : program[35]? = some (.andq (.reg .DI) (.reg .R13)) := rfl
theorem fetch36 : program[36]? = some (.xorq (.reg .R10) (.reg .DI)) := rfl
theorem fetch37 : program[37]? = some (.orq (.reg .R13) (.reg .DI)) := rfl
theorem fetch38 : program[38]? = some (.notq (.reg .R13)) := rfl
theorem fetch39 : program[39]? = some (.movq (.reg .R13) (.mem 8 .AX (some .R12) 8)) := rfl
theorem fetch40 : program[40]? = some (.movq (.reg .DI) (.mem 8 .CX (some .R12) 8)) := rfl
theorem fetch41 : program[41]? = some (.movq (.mem 2904 .DX (some .R11) 8) (.reg .DI)) := rfl
theorem fetch42 : program[42]? = some (.movq (.mem 2904 .BX (some .R11) 8) (.reg .R8)) := rfl
theorem fetch43 : program[43]? = some (.movq (.reg .DI) (.reg .R13)) := rfl
theorem fetch44 : program[44]? = some (.xorq (.reg .R10) (.reg .R13)) := rfl
theorem fetch45 : program[45]? = some (.andq (.reg .R9) (.reg .R13)) := rfl
theorem fetch46 : program[46]? = some (.xorq (.reg .R8) (.reg .R9)) := rfl
theorem fetch47 : program[47]? = some (.orq (.reg .R13) (.reg .R9)) := rfl
theorem fetch48 : program[48]? = some (.notq (.reg .R13)) := rfl
theorem fetch49 : program[49]? = some (.movq (.reg .R13) (.mem 16 .AX (some .R12) 8)) := rfl
theorem fetch50 : program[50]? = some (.movq (.reg .R9) (.mem 16 .CX (some .R12) 8)) := rfl
theorem fetch51 : program[51]? = some (.movq (.mem (-16) .DX (some .R11) 8) (.reg .R9)) := rfl
theorem fetch52 : program[52]? = some (.movq (.mem (-16) .BX (some .R11) 8) (.reg .R10)) := rfl
theorem fetch53 : program[53]? = some (.movq (.reg .R9) (.reg .R13)) := rfl
theorem fetch54 : program[54]? = some (.xorq (.reg .R8) (.reg .R13)) := rfl
theorem fetch55 : program[55]? = some (.andq (.reg .DI) (.reg .R13)) := rfl
theorem fetch56 : program[56]? = some (.xorq (.reg .R10) (.reg .DI)) := rfl
theorem fetch57 : program[57]? = some (.orq (.reg .R13) (.reg .DI)) := rfl
theorem fetch58 : program[58]? = some (.notq (.reg .R13)) := rfl
theorem fetch59 : program[59]? = some (.movq (.reg .R13) (.mem 24 .AX (some .R12) 8)) := rfl
theorem fetch60 : program[60]? = some (.movq (.reg .DI) (.mem 24 .CX (some .R12) 8)) := rfl
theorem fetch61 : program[61]? = some (.subq (.imm 2) (.reg .R11)) := rfl
theorem fetch62 : program[62]? = some (.addq (.imm 4) (.reg .R12)) := rfl
theorem fetch63 : program[63]? = some (.cmpq (.reg .R12) (.imm 729)) := rfl
theorem fetch64 : program[64]? = some (.jl 1) := rfl
theorem fetch65 : program[65]? = some (.xchgq (.reg .DX) (.reg .AX)) := rfl
theorem fetch66 : program[66]? = some (.xchgq (.reg .BX) (.reg .CX)) := rfl
theorem fetch67 : program[67]? = some (.decq (.reg .SI)) := rfl
theorem fetch68 : program[68]? = some (.jnz 0) := rfl
theorem fetch69 : program[69]? = some (.ret) := rfl

theorem findLabel0 : findLabel program 0 = some 5 := by decide
theorem findLabel1 : findLabel program 1 = some 20 := by decide

/-! ### memory operands

Proof-side view of a buffer: total read `rdW` (from the spec) and total write `wrW`; the bounds
checks of the semantics are discharged once, in `loadAt_chk` / `storeAt_chk`. -/

def wrW (p : Plane) (i : Nat) (x : W) : Plane := p.setIfInBounds i x

theorem getElem_eq_rdW (p : Plane) (j : Nat) (h : j < 729) : p[j] = rdW p j := by
  simp [rdW, h]

theorem set_eq_wrW (p : Plane) (j : Nat) (h : j < 729) (w : W) : p.set j w h = wrW p j w := by
  simp [wrW, Vector.setIfInBounds, Vector.set, Array.setIfInBounds, h]

theorem rdW_wrW (p : Plane) (i j : Nat) (x : W) (hi : i < 729) :
    rdW (wrW p i x) j = if i = j then x else rdW p j := by
  simp only [rdW, wrW]
  by_cases hj : j < 729
  · simp [hj, Array.getElem_setIfInBounds, hi]
  · have : i ≠ j := by omega
    simp [hj, this]

theorem plane_ext {p q : Plane} (h : ∀ j, j < 729 → rdW p j = rdW q j) : p = q := by
  apply Vector.ext
  intro j hj
  rw [getElem_eq_rdW, getElem_eq_rdW, h j hj]

/-- the bounds and alignment check of `resolve`. -/
def chk (b : Buf) (e : Int) : Option (Buf × Fin 729) :=
  if h : 0 ≤ e ∧ e < 8 * 729 ∧ e % 8 = 0 then some (b, ⟨(e / 8).toNat, by omega⟩) else none

def chkOpt : Val → Option Int → Int → Option (Buf × Fin 729)
  | .ptr b off, some i, disp => chk b (off + i + disp)
  | _, _, _ => none

theorem resolve_eq (R : Regs) (disp : Int) (base : Reg) (index : Option Reg) (scale : Nat) :
    resolve R disp base index scale = chkOpt (R.get base) (indexVal R scale index) disp := by
  unfold resolve chkOpt chk
  split <;> simp_all

theorem chkOpt_ptr (b : Buf) (off i disp : Int) :
    chkOpt (.ptr b off) (some i) disp = chk b (off + i + disp) := rfl

def loadAt (M : Mem) : Option (Buf × Fin 729) → Option Val
  | some (b, j) => some (.word (M.get b)[j])
  | none => none

def storeAt (m : Machine) (w : W) : Option (Buf × Fin 729) → Option Machine
  | some (b, j) => some { m with mem := m.mem.set b ((m.mem.get b).set j w) }
  | none => none

theorem readOp_mem (m : Machine) (d : Int) (b : Reg) (i : Option Reg) (s : Nat) :
    readOp m (.mem d b i s) = loadAt m.mem (resolve m.regs d b i s) := by
  simp only [readOp]; cases resolve m.regs d b i s <;> rfl

theorem writeOp_mem (m : Machine) (w : W) (d : Int) (b : Reg) (i : Option Reg) (s : Nat) :
    writeOp m (.word w) (.mem d b i s) = storeAt m w (resolve m.regs d b i s) := by
  simp only [writeOp]; cases resolve m.regs d b i s <;> rfl

theorem loadAt_chk (M : Mem) (b : Buf) (e : Int) (h1 : 0 ≤ e) (h2 : e < 5832) (h3 : e % 8 = 0) :
    loadAt M (chk b e) = some (.word (rdW (M.get b) (e / 8).toNat)) := by
  have h : 0 ≤ e ∧ e < 8 * 729 ∧ e % 8 = 0 := ⟨h1, by omega, h3⟩
  simp only [chk, h, and_self, dite_true, loadAt]
  rw [← getElem_eq_rdW]; rfl

theorem storeAt_chk (pc : Nat) (R : Regs) (F : Flags) (M : Mem) (w : W) (b : Buf) (e : Int)
    (h1 : 0 ≤ e) (h2 : e < 5832) (h3 : e % 8 = 0) :
    storeAt ⟨pc, R, F, M⟩ w (chk b e) = some ⟨pc, R, F, M.set b (wrW (M.get b) (e / 8).toNat w)⟩ := by
  have h : 0 ≤ e ∧ e < 8 * 729 ∧ e % 8 = 0 := ⟨h1, by omega, h3⟩
  simp only [chk, h, and_self, dite_true, storeAt]
  rw [← set_eq_wrW]

theorem readOp_imm (m : Machine) (v : Int) : readOp m (.imm v) = some (.word (BitVec.ofInt 64 v)) := rfl
theorem readOp_reg (m : Machine) (r : Reg) : readOp m (.reg r) = some (m.regs.get r) := rfl
theorem readOp_arg0 (m : Machine) : readOp m (.arg 0) = some (.ptr .lto 0) := rfl
theorem readOp_arg8 (m : Machine) : readOp m (.arg 8) = some (.ptr .hto 0) := rfl
theorem readOp_arg16 (m : Machine) : readOp m (.arg 16) = some (.ptr .lfrom 0) := rfl
theorem readOp_arg24 (m : Machine) : readOp m (.arg 24) = some (.ptr .hfrom 0) := rfl
theorem writeOp_reg (m : Machine) (v : Val) (r : Reg) : writeOp m v (.reg r) = some (m.setReg r v) := rfl

/-! ### words used as counters -/

theorem toInt_ofNat_small (n : Nat) (h : n < 2^63) : (BitVec.ofNat 64 n).toInt = n := by
  rw [BitVec.toInt_eq_toNat_cond]
  simp only [BitVec.toNat_ofNat]
  omega

theorem ofNat_sub_lit (n c : Nat) (h : c ≤ n) (hn : n < 2^64) :
    BitVec.ofNat 64 n - BitVec.ofNat 64 c = BitVec.ofNat 64 (n - c) := by
  apply BitVec.eq_of_toNat_eq
  simp only [BitVec.toNat_sub, BitVec.toNat_ofNat]
  omega

theorem ofNat_add_lit (n c : Nat) :
    BitVec.ofNat 64 n + BitVec.ofNat 64 c = BitVec.ofNat 64 (n + c) := by
  apply BitVec.eq_of_toNat_eq
  simp only [BitVec.toNat_add, BitVec.toNat_ofNat]
  omega

theorem ofNat_eq_zero_iff (n : Nat) (hn : n < 2^64) : BitVec.ofNat 64 n = 0 ↔ n = 0 := by
  constructor
  · intro h
    have := congrArg BitVec.toNat h
    rw [BitVec.toNat_ofNat] at this
    have h0 : (0 : BitVec 64).toNat = 0 := rfl
    omega
  · intro h; subst h; rfl

/-! ### the s-box as the routine computes it -/

theorem sBox_fst (aL aH bL bH : W) : ~~~((bL ^^^ aH) &&& aL) = (sBox aL aH bL bH).1 := by
  simp only [sBox]
  rw [BitVec.xor_comm bL aH, BitVec.and_comm]

theorem sBox_snd (aL aH bL bH : W) : (aL ^^^ bH) ||| ((bL ^^^ aH) &&& aL) = (sBox aL aH bL bH).2 := by
  simp only [sBox]
  rw [BitVec.xor_comm bL aH, BitVec.and_comm (aH ^^^ bL)]

/-! ### the symbolic-execution simp set -/

open Lean.Parser.Tactic in
/-- run the machine symbolically: unfold `exN` step by step on a machine given as an explicit record. -/
macro "asm_exec" "[" ts:simpLemma,* "]" : tactic => `(tactic|
  simp (disch := omega) only [exN_succ, exN_zero, step_mk, stepO_some, cont_next,
    fetch0, fetch1, fetch2, fetch3, fetch4, fetch5, fetch6, fetch7, fetch8, fetch9,
    fetch10, fetch11, fetch12, fetch13, fetch14, fetch15, fetch16, fetch17, fetch18, fetch19,
    fetch20, fetch21, fetch22, fetch23, fetch24, fetch25, fetch26, fetch27, fetch28, fetch29,
    fetch30, fetch31, fetch32, fetch33, fetch34, fetch35, fetch36, fetch37, fetch38, fetch39,
    fetch40, fetch41, fetch42, fetch43, fetch44, fetch45, fetch46, fetch47, fetch48, fetch49,
    fetch50, fetch51, fetch52, fetch53, fetch54, fetch55, fetch56, fetch57, fetch58, fetch59,
    fetch60, fetch61, fetch62, fetch63, fetch64, fetch65, fetch66, fetch67, fetch68, fetch69,
    exec, Machine.next, Machine.setReg, Machine.setFlags, execMov, execAlu, isMem, jump,
    findLabel0, findLabel1,
    readOp_mem, writeOp_mem, readOp_imm, readOp_reg, writeOp_reg,
    readOp_arg0, readOp_arg8, readOp_arg16, readOp_arg24,
    resolve_eq, indexVal, chkOpt_ptr, loadAt_chk, storeAt_chk,
    Regs.get_set, Mem.get_set, reduceCtorEq, toInt_ofNat_small,
    Bool.and_false, Bool.and_true, Bool.false_eq_true, ↓reduceIte,
    Int.zero_add, Int.add_zero, Int.reduceAdd, Int.reduceMul, Int.reduceDiv, Int.reduceMod,
    Int.reduceLT, Int.reduceLE, Int.reduceToNat, Nat.reduceAdd, BitVec.reduceOfInt, $ts,*])

end Iota.Proofs.AsmCurl
