/-
base32 regrouping (pkg/bech32/internal/base32): arithmetic form of every symbol / byte of a
quantum, and the round trips that follow.  Finite facts are decided byte-by-byte (256 cases),
everything else is `omega`.
-/
import Iota.Model.Bech32
import Iota.Proofs.B1T6

namespace Iota.Proofs.Base32
open Iota.Bech32 Iota.Proofs

/-! ### symbol / byte functions of a quantum -/

def e0 (b0 : UInt8) : UInt8 := b0 >>> 3
def e1 (b0 b1 : UInt8) : UInt8 := ((b1 >>> 6) &&& (31 : UInt8)) ||| ((b0 <<< 2) &&& (31 : UInt8))
def e2 (b1 : UInt8) : UInt8 := (b1 >>> 1) &&& (31 : UInt8)
def e3 (b1 b2 : UInt8) : UInt8 := ((b2 >>> 4) &&& (31 : UInt8)) ||| ((b1 <<< 4) &&& (31 : UInt8))
def e4 (b2 b3 : UInt8) : UInt8 := (b3 >>> 7) ||| ((b2 <<< 1) &&& (31 : UInt8))
def e5 (b3 : UInt8) : UInt8 := (b3 >>> 2) &&& (31 : UInt8)
def e6 (b3 b4 : UInt8) : UInt8 := (b4 >>> 5) ||| ((b3 <<< 3) &&& (31 : UInt8))
def e7 (b4 : UInt8) : UInt8 := b4 &&& (31 : UInt8)

def o0 (s0 s1 : UInt8) : UInt8 := (s0 <<< 3) ||| (s1 >>> 2)
def o1 (s1 s2 s3 : UInt8) : UInt8 := (s1 <<< 6) ||| (s2 <<< 1) ||| (s3 >>> 4)
def o2 (s3 s4 : UInt8) : UInt8 := (s3 <<< 4) ||| (s4 >>> 1)
def o3 (s4 s5 s6 : UInt8) : UInt8 := (s4 <<< 7) ||| (s5 <<< 2) ||| (s6 >>> 3)
def o4 (s6 s7 : UInt8) : UInt8 := (s6 <<< 5) ||| s7

theorem encQuantum_5 (b0 b1 b2 b3 b4 : UInt8) : encQuantum [b0, b1, b2, b3, b4] =
    [e0 b0, e1 b0 b1, e2 b1, e3 b1 b2, e4 b2 b3, e5 b3, e6 b3 b4, e7 b4] := by
  simp [encQuantum, e0, e1, e2, e3, e4, e5, e6, e7]

theorem encQuantum_1 (b0 : UInt8) : encQuantum [b0] = [e0 b0, e1 b0 0] := by
  simp [encQuantum, e0, e1]
theorem encQuantum_2 (b0 b1 : UInt8) : encQuantum [b0, b1] = [e0 b0, e1 b0 b1, e2 b1, e3 b1 0] := by
  simp [encQuantum, e0, e1, e2, e3]
theorem encQuantum_3 (b0 b1 b2 : UInt8) : encQuantum [b0, b1, b2] =
    [e0 b0, e1 b0 b1, e2 b1, e3 b1 b2, e4 b2 0] := by
  simp [encQuantum, e0, e1, e2, e3, e4]
theorem encQuantum_4 (b0 b1 b2 b3 : UInt8) : encQuantum [b0, b1, b2, b3] =
    [e0 b0, e1 b0 b1, e2 b1, e3 b1 b2, e4 b2 b3, e5 b3, e6 b3 0] := by
  simp [encQuantum, e0, e1, e2, e3, e4, e5, e6]

theorem decQuantum_8 (s0 s1 s2 s3 s4 s5 s6 s7 : UInt8) : decQuantum [s0, s1, s2, s3, s4, s5, s6, s7] =
    [o0 s0 s1, o1 s1 s2 s3, o2 s3 s4, o3 s4 s5 s6, o4 s6 s7] := by
  simp [decQuantum, o0, o1, o2, o3, o4]
theorem decQuantum_2 (s0 s1 : UInt8) : decQuantum [s0, s1] = [o0 s0 s1] := by
  simp [decQuantum, o0]
theorem decQuantum_4 (s0 s1 s2 s3 : UInt8) : decQuantum [s0, s1, s2, s3] = [o0 s0 s1, o1 s1 s2 s3] := by
  simp [decQuantum, o0, o1]
theorem decQuantum_5 (s0 s1 s2 s3 s4 : UInt8) : decQuantum [s0, s1, s2, s3, s4] =
    [o0 s0 s1, o1 s1 s2 s3, o2 s3 s4] := by
  simp [decQuantum, o0, o1, o2]
theorem decQuantum_7 (s0 s1 s2 s3 s4 s5 s6 : UInt8) : decQuantum [s0, s1, s2, s3, s4, s5, s6] =
    [o0 s0 s1, o1 s1 s2 s3, o2 s3 s4, o3 s4 s5 s6] := by
  simp [decQuantum, o0, o1, o2, o3]

/-! ### single-byte pieces in arithmetic form (256 cases each) -/

theorem p_shr3 (b : UInt8) : (b >>> 3).toNat = b.toNat / 8 :=
  forall_byte (P := fun b => (b >>> 3).toNat = b.toNat / 8) (by decide +kernel) b
theorem p_shl2m (b : UInt8) : ((b <<< 2) &&& (31 : UInt8)).toNat = (b.toNat % 8) * 4 :=
  forall_byte (P := fun b => ((b <<< 2) &&& (31 : UInt8)).toNat = (b.toNat % 8) * 4) (by decide +kernel) b
theorem p_shr6m (b : UInt8) : ((b >>> 6) &&& (31 : UInt8)).toNat = b.toNat / 64 :=
  forall_byte (P := fun b => ((b >>> 6) &&& (31 : UInt8)).toNat = b.toNat / 64) (by decide +kernel) b
theorem p_shr1m (b : UInt8) : ((b >>> 1) &&& (31 : UInt8)).toNat = (b.toNat / 2) % 32 :=
  forall_byte (P := fun b => ((b >>> 1) &&& (31 : UInt8)).toNat = (b.toNat / 2) % 32) (by decide +kernel) b
theorem p_shl4m (b : UInt8) : ((b <<< 4) &&& (31 : UInt8)).toNat = (b.toNat % 2) * 16 :=
  forall_byte (P := fun b => ((b <<< 4) &&& (31 : UInt8)).toNat = (b.toNat % 2) * 16) (by decide +kernel) b
theorem p_shr4m (b : UInt8) : ((b >>> 4) &&& (31 : UInt8)).toNat = b.toNat / 16 :=
  forall_byte (P := fun b => ((b >>> 4) &&& (31 : UInt8)).toNat = b.toNat / 16) (by decide +kernel) b
theorem p_shl1m (b : UInt8) : ((b <<< 1) &&& (31 : UInt8)).toNat = (b.toNat % 16) * 2 :=
  forall_byte (P := fun b => ((b <<< 1) &&& (31 : UInt8)).toNat = (b.toNat % 16) * 2) (by decide +kernel) b
theorem p_shr7 (b : UInt8) : (b >>> 7).toNat = b.toNat / 128 :=
  forall_byte (P := fun b => (b >>> 7).toNat = b.toNat / 128) (by decide +kernel) b
theorem p_shr2m (b : UInt8) : ((b >>> 2) &&& (31 : UInt8)).toNat = (b.toNat / 4) % 32 :=
  forall_byte (P := fun b => ((b >>> 2) &&& (31 : UInt8)).toNat = (b.toNat / 4) % 32) (by decide +kernel) b
theorem p_shl3m (b : UInt8) : ((b <<< 3) &&& (31 : UInt8)).toNat = (b.toNat % 4) * 8 :=
  forall_byte (P := fun b => ((b <<< 3) &&& (31 : UInt8)).toNat = (b.toNat % 4) * 8) (by decide +kernel) b
theorem p_shr5 (b : UInt8) : (b >>> 5).toNat = b.toNat / 32 :=
  forall_byte (P := fun b => (b >>> 5).toNat = b.toNat / 32) (by decide +kernel) b
theorem p_m31 (b : UInt8) : (b &&& (31 : UInt8)).toNat = b.toNat % 32 :=
  forall_byte (P := fun b => (b &&& (31 : UInt8)).toNat = b.toNat % 32) (by decide +kernel) b

theorem q_shl1 (b : UInt8) : (b <<< (1 : UInt8)).toNat = (b.toNat * 2 ^ 1) % 256 :=
  forall_byte (P := fun b => (b <<< (1 : UInt8)).toNat = (b.toNat * 2 ^ 1) % 256) (by decide +kernel) b
theorem q_shl2 (b : UInt8) : (b <<< (2 : UInt8)).toNat = (b.toNat * 2 ^ 2) % 256 :=
  forall_byte (P := fun b => (b <<< (2 : UInt8)).toNat = (b.toNat * 2 ^ 2) % 256) (by decide +kernel) b
theorem q_shl3 (b : UInt8) : (b <<< (3 : UInt8)).toNat = (b.toNat * 2 ^ 3) % 256 :=
  forall_byte (P := fun b => (b <<< (3 : UInt8)).toNat = (b.toNat * 2 ^ 3) % 256) (by decide +kernel) b
theorem q_shl4 (b : UInt8) : (b <<< (4 : UInt8)).toNat = (b.toNat * 2 ^ 4) % 256 :=
  forall_byte (P := fun b => (b <<< (4 : UInt8)).toNat = (b.toNat * 2 ^ 4) % 256) (by decide +kernel) b
theorem q_shl5 (b : UInt8) : (b <<< (5 : UInt8)).toNat = (b.toNat * 2 ^ 5) % 256 :=
  forall_byte (P := fun b => (b <<< (5 : UInt8)).toNat = (b.toNat * 2 ^ 5) % 256) (by decide +kernel) b
theorem q_shl6 (b : UInt8) : (b <<< (6 : UInt8)).toNat = (b.toNat * 2 ^ 6) % 256 :=
  forall_byte (P := fun b => (b <<< (6 : UInt8)).toNat = (b.toNat * 2 ^ 6) % 256) (by decide +kernel) b
theorem q_shl7 (b : UInt8) : (b <<< (7 : UInt8)).toNat = (b.toNat * 2 ^ 7) % 256 :=
  forall_byte (P := fun b => (b <<< (7 : UInt8)).toNat = (b.toNat * 2 ^ 7) % 256) (by decide +kernel) b
theorem q_shr1 (b : UInt8) : (b >>> (1 : UInt8)).toNat = b.toNat / 2 ^ 1 :=
  forall_byte (P := fun b => (b >>> (1 : UInt8)).toNat = b.toNat / 2 ^ 1) (by decide +kernel) b
theorem q_shr2 (b : UInt8) : (b >>> (2 : UInt8)).toNat = b.toNat / 2 ^ 2 :=
  forall_byte (P := fun b => (b >>> (2 : UInt8)).toNat = b.toNat / 2 ^ 2) (by decide +kernel) b
theorem q_shr3 (b : UInt8) : (b >>> (3 : UInt8)).toNat = b.toNat / 2 ^ 3 :=
  forall_byte (P := fun b => (b >>> (3 : UInt8)).toNat = b.toNat / 2 ^ 3) (by decide +kernel) b
theorem q_shr4 (b : UInt8) : (b >>> (4 : UInt8)).toNat = b.toNat / 2 ^ 4 :=
  forall_byte (P := fun b => (b >>> (4 : UInt8)).toNat = b.toNat / 2 ^ 4) (by decide +kernel) b

/-- OR of a multiple of `2^i` with a value below `2^i` is their sum. -/
theorem or_add (a b i : Nat) (hb : b < 2 ^ i) : (a * 2 ^ i) ||| b = a * 2 ^ i + b := by
  rw [← Nat.shiftLeft_eq, ← Nat.shiftLeft_add_eq_or_of_lt hb]

/-! ### arithmetic form of the symbols -/

theorem e0_nat (b0 : UInt8) : (e0 b0).toNat = b0.toNat / 8 := p_shr3 b0
theorem e1_nat (b0 b1 : UInt8) : (e1 b0 b1).toNat = (b0.toNat % 8) * 4 + b1.toNat / 64 := by
  unfold e1
  rw [UInt8.toNat_or, p_shr6m, p_shl2m, Nat.or_comm]
  have := b1.toNat_lt
  exact or_add (b0.toNat % 8) (b1.toNat / 64) 2 (by omega)
theorem e2_nat (b1 : UInt8) : (e2 b1).toNat = (b1.toNat / 2) % 32 := p_shr1m b1
theorem e3_nat (b1 b2 : UInt8) : (e3 b1 b2).toNat = (b1.toNat % 2) * 16 + b2.toNat / 16 := by
  unfold e3
  rw [UInt8.toNat_or, p_shr4m, p_shl4m, Nat.or_comm]
  have := b2.toNat_lt
  exact or_add (b1.toNat % 2) (b2.toNat / 16) 4 (by omega)
theorem e4_nat (b2 b3 : UInt8) : (e4 b2 b3).toNat = (b2.toNat % 16) * 2 + b3.toNat / 128 := by
  unfold e4
  rw [UInt8.toNat_or, p_shr7, p_shl1m, Nat.or_comm]
  have := b3.toNat_lt
  exact or_add (b2.toNat % 16) (b3.toNat / 128) 1 (by omega)
theorem e5_nat (b3 : UInt8) : (e5 b3).toNat = (b3.toNat / 4) % 32 := p_shr2m b3
theorem e6_nat (b3 b4 : UInt8) : (e6 b3 b4).toNat = (b3.toNat % 4) * 8 + b4.toNat / 32 := by
  unfold e6
  rw [UInt8.toNat_or, p_shr5, p_shl3m, Nat.or_comm]
  have := b4.toNat_lt
  exact or_add (b3.toNat % 4) (b4.toNat / 32) 3 (by omega)
theorem e7_nat (b4 : UInt8) : (e7 b4).toNat = b4.toNat % 32 := p_m31 b4

/-! ### arithmetic form of the decoded bytes (symbols < 32) -/

theorem o0_nat (s0 s1 : UInt8) (h0 : s0.toNat < 32) (h1 : s1.toNat < 32) :
    (o0 s0 s1).toNat = s0.toNat * 8 + s1.toNat / 4 := by
  unfold o0
  rw [UInt8.toNat_or, q_shl3, q_shr2]
  have : s0.toNat * 2 ^ 3 % 256 = s0.toNat * 2 ^ 3 := Nat.mod_eq_of_lt (by omega)
  rw [this]
  exact or_add s0.toNat (s1.toNat / 2 ^ 2) 3 (by omega)

theorem o1_nat (s1 s2 s3 : UInt8) (h1 : s1.toNat < 32) (h2 : s2.toNat < 32) (h3 : s3.toNat < 32) :
    (o1 s1 s2 s3).toNat = (s1.toNat % 4) * 64 + s2.toNat * 2 + s3.toNat / 16 := by
  unfold o1
  rw [UInt8.toNat_or, UInt8.toNat_or, q_shl6, q_shl1, q_shr4]
  have e1 : s1.toNat * 2 ^ 6 % 256 = (s1.toNat % 4) * 2 ^ 6 := by omega
  have e2 : s2.toNat * 2 ^ 1 % 256 = s2.toNat * 2 ^ 1 := Nat.mod_eq_of_lt (by omega)
  rw [e1, e2, or_add (s1.toNat % 4) (s2.toNat * 2 ^ 1) 6 (by omega)]
  have : (s1.toNat % 4) * 2 ^ 6 + s2.toNat * 2 ^ 1 = ((s1.toNat % 4) * 32 + s2.toNat) * 2 ^ 1 := by omega
  rw [this, or_add _ (s3.toNat / 2 ^ 4) 1 (by omega)]

theorem o2_nat (s3 s4 : UInt8) (h3 : s3.toNat < 32) (h4 : s4.toNat < 32) :
    (o2 s3 s4).toNat = (s3.toNat % 16) * 16 + s4.toNat / 2 := by
  unfold o2
  rw [UInt8.toNat_or, q_shl4, q_shr1]
  have e1 : s3.toNat * 2 ^ 4 % 256 = (s3.toNat % 16) * 2 ^ 4 := by omega
  rw [e1, or_add _ (s4.toNat / 2 ^ 1) 4 (by omega)]

theorem o3_nat (s4 s5 s6 : UInt8) (h4 : s4.toNat < 32) (h5 : s5.toNat < 32) (h6 : s6.toNat < 32) :
    (o3 s4 s5 s6).toNat = (s4.toNat % 2) * 128 + s5.toNat * 4 + s6.toNat / 8 := by
  unfold o3
  rw [UInt8.toNat_or, UInt8.toNat_or, q_shl7, q_shl2, q_shr3]
  have e1 : s4.toNat * 2 ^ 7 % 256 = (s4.toNat % 2) * 2 ^ 7 := by omega
  have e2 : s5.toNat * 2 ^ 2 % 256 = s5.toNat * 2 ^ 2 := Nat.mod_eq_of_lt (by omega)
  rw [e1, e2, or_add (s4.toNat % 2) (s5.toNat * 2 ^ 2) 7 (by omega)]
  have : (s4.toNat % 2) * 2 ^ 7 + s5.toNat * 2 ^ 2 = ((s4.toNat % 2) * 32 + s5.toNat) * 2 ^ 2 := by omega
  rw [this, or_add _ (s6.toNat / 2 ^ 3) 2 (by omega)]

theorem o4_nat (s6 s7 : UInt8) (h6 : s6.toNat < 32) (h7 : s7.toNat < 32) :
    (o4 s6 s7).toNat = (s6.toNat % 8) * 32 + s7.toNat := by
  unfold o4
  rw [UInt8.toNat_or, q_shl5]
  have e1 : s6.toNat * 2 ^ 5 % 256 = (s6.toNat % 8) * 2 ^ 5 := by omega
  rw [e1, or_add _ s7.toNat 5 (by omega)]

end Iota.Proofs.Base32

namespace Iota.Proofs.Base32
open Iota.Bech32 Iota.Proofs

theorem u8_eq {a b : UInt8} (h : a.toNat = b.toNat) : a = b := UInt8.toNat_inj.mp h

/-! ### symbols are below 32 -/
theorem e0_lt (b0 : UInt8) : (e0 b0).toNat < 32 := by rw [e0_nat]; have := b0.toNat_lt; omega
theorem e1_lt (b0 b1 : UInt8) : (e1 b0 b1).toNat < 32 := by
  rw [e1_nat]; have := b0.toNat_lt; have := b1.toNat_lt; omega
theorem e2_lt (b1 : UInt8) : (e2 b1).toNat < 32 := by rw [e2_nat]; omega
theorem e3_lt (b1 b2 : UInt8) : (e3 b1 b2).toNat < 32 := by
  rw [e3_nat]; have := b2.toNat_lt; omega
theorem e4_lt (b2 b3 : UInt8) : (e4 b2 b3).toNat < 32 := by
  rw [e4_nat]; have := b3.toNat_lt; omega
theorem e5_lt (b3 : UInt8) : (e5 b3).toNat < 32 := by rw [e5_nat]; omega
theorem e6_lt (b3 b4 : UInt8) : (e6 b3 b4).toNat < 32 := by
  rw [e6_nat]; have := b4.toNat_lt; omega
theorem e7_lt (b4 : UInt8) : (e7 b4).toNat < 32 := by rw [e7_nat]; omega

theorem zero_toNat : (0 : UInt8).toNat = 0 := rfl

/-! ### decode ∘ encode on quanta -/

theorem d0 (b0 b1 : UInt8) : o0 (e0 b0) (e1 b0 b1) = b0 := by
  apply u8_eq
  rw [o0_nat _ _ (e0_lt _) (e1_lt _ _), e0_nat, e1_nat]
  have := b0.toNat_lt; have := b1.toNat_lt; omega
theorem d1 (b0 b1 b2 : UInt8) : o1 (e1 b0 b1) (e2 b1) (e3 b1 b2) = b1 := by
  apply u8_eq
  rw [o1_nat _ _ _ (e1_lt _ _) (e2_lt _) (e3_lt _ _), e1_nat, e2_nat, e3_nat]
  have := b0.toNat_lt; have := b1.toNat_lt; have := b2.toNat_lt; omega
theorem d2 (b1 b2 b3 : UInt8) : o2 (e3 b1 b2) (e4 b2 b3) = b2 := by
  apply u8_eq
  rw [o2_nat _ _ (e3_lt _ _) (e4_lt _ _), e3_nat, e4_nat]
  have := b1.toNat_lt; have := b2.toNat_lt; have := b3.toNat_lt; omega
theorem d3 (b2 b3 b4 : UInt8) : o3 (e4 b2 b3) (e5 b3) (e6 b3 b4) = b3 := by
  apply u8_eq
  rw [o3_nat _ _ _ (e4_lt _ _) (e5_lt _) (e6_lt _ _), e4_nat, e5_nat, e6_nat]
  have := b2.toNat_lt; have := b3.toNat_lt; have := b4.toNat_lt; omega
theorem d4 (b3 b4 : UInt8) : o4 (e6 b3 b4) (e7 b4) = b4 := by
  apply u8_eq
  rw [o4_nat _ _ (e6_lt _ _) (e7_lt _), e6_nat, e7_nat]
  have := b3.toNat_lt; have := b4.toNat_lt; omega

/-! ### encode ∘ decode on quanta (symbols < 32) -/

section
variable (s0 s1 s2 s3 s4 s5 s6 s7 : UInt8)
variable (h0 : s0.toNat < 32) (h1 : s1.toNat < 32) (h2 : s2.toNat < 32) (h3 : s3.toNat < 32)
variable (h4 : s4.toNat < 32) (h5 : s5.toNat < 32) (h6 : s6.toNat < 32) (h7 : s7.toNat < 32)
include h0 h1 in
theorem c0 : e0 (o0 s0 s1) = s0 := by
  apply u8_eq; rw [e0_nat, o0_nat _ _ h0 h1]; omega
include h0 h1 h2 h3 in
theorem c1 : e1 (o0 s0 s1) (o1 s1 s2 s3) = s1 := by
  apply u8_eq; rw [e1_nat, o0_nat _ _ h0 h1, o1_nat _ _ _ h1 h2 h3]; omega
include h1 h2 h3 in
theorem c2 : e2 (o1 s1 s2 s3) = s2 := by
  apply u8_eq; rw [e2_nat, o1_nat _ _ _ h1 h2 h3]; omega
include h1 h2 h3 h4 in
theorem c3 : e3 (o1 s1 s2 s3) (o2 s3 s4) = s3 := by
  apply u8_eq; rw [e3_nat, o1_nat _ _ _ h1 h2 h3, o2_nat _ _ h3 h4]; omega
include h3 h4 h5 h6 in
theorem c4 : e4 (o2 s3 s4) (o3 s4 s5 s6) = s4 := by
  apply u8_eq; rw [e4_nat, o2_nat _ _ h3 h4, o3_nat _ _ _ h4 h5 h6]; omega
include h4 h5 h6 in
theorem c5 : e5 (o3 s4 s5 s6) = s5 := by
  apply u8_eq; rw [e5_nat, o3_nat _ _ _ h4 h5 h6]; omega
include h4 h5 h6 h7 in
theorem c6 : e6 (o3 s4 s5 s6) (o4 s6 s7) = s6 := by
  apply u8_eq; rw [e6_nat, o3_nat _ _ _ h4 h5 h6, o4_nat _ _ h6 h7]; omega
include h6 h7 in
theorem c7 : e7 (o4 s6 s7) = s7 := by
  apply u8_eq; rw [e7_nat, o4_nat _ _ h6 h7]; omega
end

end Iota.Proofs.Base32

namespace Iota.Proofs.Base32
open Iota.Bech32 Iota.Proofs

theorem m3 (x : UInt8) : (x &&& (3 : UInt8)).toNat = x.toNat % 4 :=
  forall_byte (P := fun x => (x &&& (3 : UInt8)).toNat = x.toNat % 4) (by decide +kernel) x
theorem m15 (x : UInt8) : (x &&& (15 : UInt8)).toNat = x.toNat % 16 :=
  forall_byte (P := fun x => (x &&& (15 : UInt8)).toNat = x.toNat % 16) (by decide +kernel) x
theorem m1 (x : UInt8) : (x &&& (1 : UInt8)).toNat = x.toNat % 2 :=
  forall_byte (P := fun x => (x &&& (1 : UInt8)).toNat = x.toNat % 2) (by decide +kernel) x
theorem m7 (x : UInt8) : (x &&& (7 : UInt8)).toNat = x.toNat % 8 :=
  forall_byte (P := fun x => (x &&& (7 : UInt8)).toNat = x.toNat % 8) (by decide +kernel) x

theorem and_eq_zero_iff {x m : UInt8} {k : Nat} (hm : ∀ y : UInt8, (y &&& m).toNat = y.toNat % k) :
    x &&& m = 0 ↔ x.toNat % k = 0 := by
  rw [← hm x]
  constructor
  · intro h; rw [h]; rfl
  · intro h; exact u8_eq (by rw [h]; rfl)

/-! ### padCheck on short quanta -/
theorem padCheck_2 (s0 s1 : UInt8) : padCheck [s0, s1] = if s1.toNat % 4 = 0 then none else some 1 := by
  have := and_eq_zero_iff (x := s1) m3
  simp only [padCheck, List.length_cons, List.length_nil]
  by_cases h : s1.toNat % 4 = 0
  · simp [h, this.mpr h]
  · have h' : ¬ (s1 &&& 3 = 0) := fun hh => h (this.mp hh)
    simp [h, h']
theorem padCheck_4 (s0 s1 s2 s3 : UInt8) :
    padCheck [s0, s1, s2, s3] = if s3.toNat % 16 = 0 then none else some 3 := by
  have := and_eq_zero_iff (x := s3) m15
  simp only [padCheck, List.length_cons, List.length_nil]
  by_cases h : s3.toNat % 16 = 0
  · simp [h, this.mpr h]
  · have h' : ¬ (s3 &&& 15 = 0) := fun hh => h (this.mp hh)
    simp [h, h']
theorem padCheck_5 (s0 s1 s2 s3 s4 : UInt8) :
    padCheck [s0, s1, s2, s3, s4] = if s4.toNat % 2 = 0 then none else some 4 := by
  have := and_eq_zero_iff (x := s4) m1
  simp only [padCheck, List.length_cons, List.length_nil]
  by_cases h : s4.toNat % 2 = 0
  · simp [h, this.mpr h]
  · have h' : ¬ (s4 &&& 1 = 0) := fun hh => h (this.mp hh)
    simp [h, h']
theorem padCheck_7 (s0 s1 s2 s3 s4 s5 s6 : UInt8) :
    padCheck [s0, s1, s2, s3, s4, s5, s6] = if s6.toNat % 8 = 0 then none else some 6 := by
  have := and_eq_zero_iff (x := s6) m7
  simp only [padCheck, List.length_cons, List.length_nil]
  by_cases h : s6.toNat % 8 = 0
  · simp [h, this.mpr h]
  · have h' : ¬ (s6 &&& 7 = 0) := fun hh => h (this.mp hh)
    simp [h, h']

/-! ### decode ∘ encode -/

theorem b32Encode_5 (b0 b1 b2 b3 b4 : UInt8) (rest : List UInt8) :
    b32Encode (b0 :: b1 :: b2 :: b3 :: b4 :: rest) = encQuantum [b0, b1, b2, b3, b4] ++ b32Encode rest := by
  rw [b32Encode]

theorem decodeAux_8 (read : Nat) (s0 s1 s2 s3 s4 s5 s6 s7 : UInt8) (rest : List UInt8) :
    b32DecodeAux read (s0 :: s1 :: s2 :: s3 :: s4 :: s5 :: s6 :: s7 :: rest) =
      match b32DecodeAux (read + 8) rest with
      | .ok bs => .ok (decQuantum [s0, s1, s2, s3, s4, s5, s6, s7] ++ bs)
      | .error e => .error e := by
  rw [b32DecodeAux]
  cases b32DecodeAux (read + 8) rest <;> rfl

theorem decode_encode_aux (bs : List UInt8) : ∀ read, b32DecodeAux read (b32Encode bs) = .ok bs := by
  fun_induction b32Encode bs with
  | case1 => intro read; simp [b32DecodeAux]
  | case2 b0 b1 b2 b3 b4 rest ih =>
    intro read
    rw [encQuantum_5]
    simp only [List.cons_append, List.nil_append]
    rw [decodeAux_8, ih, decQuantum_8, d0, d1, d2, d3, d4]
    rfl
  | case3 tail hne h5 =>
    intro read
    match tail, hne, h5 with
    | [], hne, _ => exact absurd rfl hne
    | [b0], _, _ =>
      rw [encQuantum_1]
      have hp : padCheck [e0 b0, e1 b0 0] = none := by
        rw [padCheck_2, e1_nat, zero_toNat]; simp
      simp only [b32DecodeAux, List.length_cons, List.length_nil, hp]
      simp [decQuantum_2, d0]
    | [b0, b1], _, _ =>
      rw [encQuantum_2]
      have hp : padCheck [e0 b0, e1 b0 b1, e2 b1, e3 b1 0] = none := by
        rw [padCheck_4, e3_nat, zero_toNat]; simp
      simp only [b32DecodeAux, List.length_cons, List.length_nil, hp]
      simp [decQuantum_4, d0, d1]
    | [b0, b1, b2], _, _ =>
      rw [encQuantum_3]
      have hp : padCheck [e0 b0, e1 b0 b1, e2 b1, e3 b1 b2, e4 b2 0] = none := by
        rw [padCheck_5, e4_nat, zero_toNat]; simp
      simp only [b32DecodeAux, List.length_cons, List.length_nil, hp]
      simp [decQuantum_5, d0, d1, d2]
    | [b0, b1, b2, b3], _, _ =>
      rw [encQuantum_4]
      have hp : padCheck [e0 b0, e1 b0 b1, e2 b1, e3 b1 b2, e4 b2 b3, e5 b3, e6 b3 0] = none := by
        rw [padCheck_7, e6_nat, zero_toNat]; simp
      simp only [b32DecodeAux, List.length_cons, List.length_nil, hp]
      simp [decQuantum_7, d0, d1, d2, d3]
    | b0 :: b1 :: b2 :: b3 :: b4 :: rest, _, h5 => exact absurd rfl (h5 b0 b1 b2 b3 b4 rest)

/-- (S2) `base32.Decode` inverts `base32.Encode`. -/
theorem b32_decode_encode (bs : List UInt8) : b32Decode (b32Encode bs) = .ok bs :=
  decode_encode_aux bs 0

end Iota.Proofs.Base32

namespace Iota.Proofs.Base32
open Iota.Bech32 Iota.Proofs

/-! ### every accepted symbol string is an encoding -/

theorem encode_of_decode_aux (syms : List UInt8) : ∀ (read : Nat) (bs : List UInt8),
    (∀ s ∈ syms, s.toNat < 32) → b32DecodeAux read syms = .ok bs → syms = b32Encode bs := by
  intro read
  fun_induction b32DecodeAux read syms with
  | case1 read =>
    intro bs _ h
    simp only [Except.ok.injEq] at h
    rw [← h]; simp [b32Encode]
  | case2 read s0 s1 s2 s3 s4 s5 s6 s7 rest bs' hrec ih =>
    intro bs hlt h
    simp only [Except.ok.injEq] at h
    have h0 := hlt s0 (by simp); have h1 := hlt s1 (by simp); have h2 := hlt s2 (by simp)
    have h3 := hlt s3 (by simp); have h4 := hlt s4 (by simp); have h5 := hlt s5 (by simp)
    have h6 := hlt s6 (by simp); have h7 := hlt s7 (by simp)
    have hr := ih bs' (fun s hs => hlt s (by simp [hs])) hrec
    rw [← h, decQuantum_8]
    simp only [List.cons_append, List.nil_append]
    rw [b32Encode_5, encQuantum_5, c0 s0 s1 h0 h1, c1 s0 s1 s2 s3 h0 h1 h2 h3, c2 s1 s2 s3 h1 h2 h3,
      c3 s1 s2 s3 s4 h1 h2 h3 h4, c4 s3 s4 s5 s6 h3 h4 h5 h6, c5 s4 s5 s6 h4 h5 h6,
      c6 s4 s5 s6 s7 h4 h5 h6 h7, c7 s6 s7 h6 h7, ← hr]
    rfl
  | case3 read s0 s1 s2 s3 s4 s5 s6 s7 rest e hrec ih =>
    intro bs _ h; simp at h
  | case4 read tail hne h8 hlen =>
    intro bs _ h; simp at h
  | case5 read tail hne h8 hlen off hpad =>
    intro bs _ h; simp at h
  | case6 read tail hne h8 hlen hpad =>
    intro bs hlt h
    simp only [Except.ok.injEq] at h
    match tail, hne, h8, hlen, hpad, hlt with
    | [], hne, _, _, _, _ => exact absurd rfl hne
    | [_], _, _, hlen, _, _ => simp at hlen
    | [s0, s1], _, _, _, hpad, hlt =>
      have h0 := hlt s0 (by simp); have h1 := hlt s1 (by simp)
      rw [padCheck_2] at hpad
      have hp : s1.toNat % 4 = 0 := by
        by_cases hh : s1.toNat % 4 = 0
        · exact hh
        · simp [hh] at hpad
      rw [← h, decQuantum_2]
      simp only [b32Encode]
      rw [encQuantum_1, c0 s0 s1 h0 h1]
      have : e1 (o0 s0 s1) 0 = s1 := by
        apply u8_eq; rw [e1_nat, o0_nat _ _ h0 h1, zero_toNat]; omega
      rw [this]
    | [_, _, _], _, _, hlen, _, _ => simp at hlen
    | [s0, s1, s2, s3], _, _, _, hpad, hlt =>
      have h0 := hlt s0 (by simp); have h1 := hlt s1 (by simp); have h2 := hlt s2 (by simp)
      have h3 := hlt s3 (by simp)
      rw [padCheck_4] at hpad
      have hp : s3.toNat % 16 = 0 := by
        by_cases hh : s3.toNat % 16 = 0
        · exact hh
        · simp [hh] at hpad
      rw [← h, decQuantum_4]
      simp only [b32Encode]
      rw [encQuantum_2, c0 s0 s1 h0 h1, c1 s0 s1 s2 s3 h0 h1 h2 h3, c2 s1 s2 s3 h1 h2 h3]
      have : e3 (o1 s1 s2 s3) 0 = s3 := by
        apply u8_eq; rw [e3_nat, o1_nat _ _ _ h1 h2 h3, zero_toNat]; omega
      rw [this]
    | [s0, s1, s2, s3, s4], _, _, _, hpad, hlt =>
      have h0 := hlt s0 (by simp); have h1 := hlt s1 (by simp); have h2 := hlt s2 (by simp)
      have h3 := hlt s3 (by simp); have h4 := hlt s4 (by simp)
      rw [padCheck_5] at hpad
      have hp : s4.toNat % 2 = 0 := by
        by_cases hh : s4.toNat % 2 = 0
        · exact hh
        · simp [hh] at hpad
      rw [← h, decQuantum_5]
      simp only [b32Encode]
      rw [encQuantum_3, c0 s0 s1 h0 h1, c1 s0 s1 s2 s3 h0 h1 h2 h3, c2 s1 s2 s3 h1 h2 h3,
        c3 s1 s2 s3 s4 h1 h2 h3 h4]
      have : e4 (o2 s3 s4) 0 = s4 := by
        apply u8_eq; rw [e4_nat, o2_nat _ _ h3 h4, zero_toNat]; omega
      rw [this]
    | [_, _, _, _, _, _], _, _, hlen, _, _ => simp at hlen
    | [s0, s1, s2, s3, s4, s5, s6], _, _, _, hpad, hlt =>
      have h0 := hlt s0 (by simp); have h1 := hlt s1 (by simp); have h2 := hlt s2 (by simp)
      have h3 := hlt s3 (by simp); have h4 := hlt s4 (by simp); have h5 := hlt s5 (by simp)
      have h6 := hlt s6 (by simp)
      rw [padCheck_7] at hpad
      have hp : s6.toNat % 8 = 0 := by
        by_cases hh : s6.toNat % 8 = 0
        · exact hh
        · simp [hh] at hpad
      rw [← h, decQuantum_7]
      simp only [b32Encode]
      rw [encQuantum_4, c0 s0 s1 h0 h1, c1 s0 s1 s2 s3 h0 h1 h2 h3, c2 s1 s2 s3 h1 h2 h3,
        c3 s1 s2 s3 s4 h1 h2 h3 h4, c4 s3 s4 s5 s6 h3 h4 h5 h6, c5 s4 s5 s6 h4 h5 h6]
      have : e6 (o3 s4 s5 s6) 0 = s6 := by
        apply u8_eq; rw [e6_nat, o3_nat _ _ _ h4 h5 h6, zero_toNat]; omega
      rw [this]
    | s0 :: s1 :: s2 :: s3 :: s4 :: s5 :: s6 :: s7 :: rest, _, h8, _, _, _ =>
      exact absurd rfl (h8 s0 s1 s2 s3 s4 s5 s6 s7 rest)

/-- (S3) `base32.Decode` accepts a symbol string only if it is the encoding of its result. -/
theorem b32_encode_of_decode (syms bs : List UInt8) (hlt : ∀ s ∈ syms, s.toNat < 32)
    (h : b32Decode syms = .ok bs) : syms = b32Encode bs :=
  encode_of_decode_aux syms 0 bs hlt h

theorem b32_decode_ok_iff (syms bs : List UInt8) (hlt : ∀ s ∈ syms, s.toNat < 32) :
    b32Decode syms = .ok bs ↔ syms = b32Encode bs :=
  ⟨b32_encode_of_decode syms bs hlt, fun h => h ▸ b32_decode_encode bs⟩

end Iota.Proofs.Base32

namespace Iota.Proofs.Base32
open Iota.Bech32 Iota.Proofs

/-! ### shape of the encoding -/

theorem lt5 (b0 b1 b2 b3 b4 : UInt8) : ∀ s ∈ encQuantum [b0, b1, b2, b3, b4], s.toNat < 32 := by
  intro s hs
  rw [encQuantum_5] at hs
  simp only [List.mem_cons, List.not_mem_nil, or_false] at hs
  rcases hs with rfl | rfl | rfl | rfl | rfl | rfl | rfl | rfl
  · exact e0_lt _
  · exact e1_lt _ _
  · exact e2_lt _
  · exact e3_lt _ _
  · exact e4_lt _ _
  · exact e5_lt _
  · exact e6_lt _ _
  · exact e7_lt _

theorem b32Encode_lt (bs : List UInt8) : ∀ s ∈ b32Encode bs, s.toNat < 32 := by
  fun_induction b32Encode bs with
  | case1 => intro s hs; simp at hs
  | case2 b0 b1 b2 b3 b4 rest ih =>
    intro s hs
    rcases List.mem_append.mp hs with h | h
    · exact lt5 _ _ _ _ _ s h
    · exact ih s h
  | case3 tail hne h5 =>
    intro s hs
    match tail, hne, h5, hs with
    | [], hne, _, _ => exact absurd rfl hne
    | [b0], _, _, hs =>
      rw [encQuantum_1] at hs
      simp only [List.mem_cons, List.not_mem_nil, or_false] at hs
      rcases hs with rfl | rfl
      · exact e0_lt _
      · exact e1_lt _ _
    | [b0, b1], _, _, hs =>
      rw [encQuantum_2] at hs
      simp only [List.mem_cons, List.not_mem_nil, or_false] at hs
      rcases hs with rfl | rfl | rfl | rfl
      · exact e0_lt _
      · exact e1_lt _ _
      · exact e2_lt _
      · exact e3_lt _ _
    | [b0, b1, b2], _, _, hs =>
      rw [encQuantum_3] at hs
      simp only [List.mem_cons, List.not_mem_nil, or_false] at hs
      rcases hs with rfl | rfl | rfl | rfl | rfl
      · exact e0_lt _
      · exact e1_lt _ _
      · exact e2_lt _
      · exact e3_lt _ _
      · exact e4_lt _ _
    | [b0, b1, b2, b3], _, _, hs =>
      rw [encQuantum_4] at hs
      simp only [List.mem_cons, List.not_mem_nil, or_false] at hs
      rcases hs with rfl | rfl | rfl | rfl | rfl | rfl | rfl
      · exact e0_lt _
      · exact e1_lt _ _
      · exact e2_lt _
      · exact e3_lt _ _
      · exact e4_lt _ _
      · exact e5_lt _
      · exact e6_lt _ _
    | b0 :: b1 :: b2 :: b3 :: b4 :: rest, _, h5, _ => exact absurd rfl (h5 b0 b1 b2 b3 b4 rest)

theorem b32Encode_length (bs : List UInt8) : (b32Encode bs).length = encodedLen bs.length := by
  fun_induction b32Encode bs with
  | case1 => rfl
  | case2 b0 b1 b2 b3 b4 rest ih =>
    rw [List.length_append, ih, encQuantum_5]
    simp [encodedLen]; omega
  | case3 tail hne h5 =>
    match tail, hne, h5 with
    | [], hne, _ => exact absurd rfl hne
    | [b0], _, _ => rw [encQuantum_1]; simp [encodedLen]
    | [b0, b1], _, _ => rw [encQuantum_2]; simp [encodedLen]
    | [b0, b1, b2], _, _ => rw [encQuantum_3]; simp [encodedLen]
    | [b0, b1, b2, b3], _, _ => rw [encQuantum_4]; simp [encodedLen]
    | b0 :: b1 :: b2 :: b3 :: b4 :: rest, _, h5 => exact absurd rfl (h5 b0 b1 b2 b3 b4 rest)

end Iota.Proofs.Base32
