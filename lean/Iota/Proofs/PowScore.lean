/-
From the bit-plane core of the PoW proofs to `Score(data ‖ nonce)`.
Model: `Iota/Model/PowScore.lean` (nonce encoding, the hashed block, the single-lane Curl-P-81 hash,
the worker loop over batches of 64 consecutive nonces).  The lane tests and the sequential scan are those of
`Iota/Proofs/Pow` (P5 `checkV2`, P6 `checkV1`, P7 `mineSeq`); here they are tied to the hash of each NONCE.

  S1  `sliceOf_faithful`       the one hypothesis about iota.go's `curl/bct`, `BctFaithful slice`, is satisfied
                               by the plain bit-slicing (so it is an assumption about the library, not a
                               logical one); `curlHash_isHash`, `powBlock_isHash`: hashes / blocks are 243
                               balanced trits; `bctOfSlice_faithful`: the block form follows from the slice form
  S2  `worker_v2`              every nonce a v2 worker returns (ANY start nonce, hence every worker of `Mine`)
                               scores ≥ t; no earlier batch holds a nonce of difficulty > len·t
      `worker_v2_first`        start nonce 0 (the single worker): in terms of the nonce value itself
      `mine_v2_score`          … as `ScoreV2 H data n ≥ t`, and `ScoreMsgV2 H (data ‖ nonce LE) ≥ t`
  S3  `worker_v1`              a v1 worker returns the FIRST nonce in scan order with ≥ z trailing zeros
      `worker_v1_score`        … hence `target ≤ sc (trailingZeros …)` for a monotone score, and (z least) no
                               earlier nonce meets the target; `mine_v1_score`: as `ScoreV1` / `ScoreMsgV1`
  S4  `worker_none_v1/v2`      a worker that gives up rejected every nonce it scanned (v2: none of difficulty > len·t)
  `…B` variants                the same with the library as a map from input blocks to planes (`workerB`)
  S5  `hashTrits_zero`         a closed hash value (Curl-P-81 of the zero block is zero: constant states have
                               period 3 under `round`), `worker_v1_instance`, `worker_v2_instance`: with any
                               faithful sponge the workers do return nonces (non-vacuity of `worker … = some n`)

`Mine` (both packages) returns a nonce only if some worker returned it: that is `Iota.Props.C13.outcome`
(every schedule of the concurrency model); worker `i` of `W` runs with `start = i · ⌊(2^64−1)/W⌋`, so the
theorems here, stated for an arbitrary `start`, cover every worker.
Core Lean only.
-/
import Iota.Model.PowScore
import Iota.Proofs.Pow
import Iota.Proofs.B1T6

namespace Iota.Proofs.PowScore
open Iota.Pow Iota.PowScore Iota.Proofs.Pow Iota.Spec.CurlP

/-! ## S1 — hashes, blocks, and the bit-slicing hypothesis -/

/-! ### the nonce bytes -/

theorem nonceBytes_length (n : Nat) : (nonceBytes n).length = 8 := by simp [nonceBytes]

/-- only `n mod 2^64` matters (the nonce is a `uint64`). -/
theorem nonceBytes_mod (n : Nat) : nonceBytes (n % 2 ^ 64) = nonceBytes n := by
  unfold nonceBytes; rw [Nat.mod_mod]

/-- `binary.LittleEndian.Uint64` inverts `PutUint64`. -/
theorem leUint64_nonceBytes (n : Nat) : leUint64 (nonceBytes n) = n % 2 ^ 64 := by
  have hm : n % 2 ^ 64 < 2 ^ 64 := Nat.mod_lt _ (by decide)
  unfold nonceBytes leUint64
  generalize n % 2 ^ 64 = m at hm
  simp only [List.range, List.range.loop, List.map_cons, List.map_nil, List.foldr_cons, List.foldr_nil,
    UInt8.toNat_ofNat', Nat.reducePow] at hm ⊢
  omega

theorem powBlock_mod (digest : List UInt8) (n : Nat) : powBlock digest (n % 2 ^ 64) = powBlock digest n := by
  unfold powBlock; rw [nonceBytes_mod]

theorem hashTrits_mod (digest : List UInt8) (n : Nat) : hashTrits digest (n % 2 ^ 64) = hashTrits digest n := by
  unfold hashTrits; rw [powBlock_mod]

/-- the block is `6·len(digest)` digest trits, 48 nonce trits, and zero padding: 243 balanced trits
(192 + 48 + 3 for a 32-byte digest). -/
theorem powBlock_isHash (digest : List UInt8) (n : Nat) (hd : digest.length ≤ 32) : IsHash (powBlock digest n) := by
  unfold powBlock IsHash
  have hl : (Iota.B1T6.encode digest ++ Iota.B1T6.encode (nonceBytes n)).length = 6 * digest.length + 48 := by
    rw [List.length_append, B1T6.encode_length, B1T6.encode_length, nonceBytes_length]
  refine ⟨?_, ?_⟩
  · simp only [List.length_append, List.length_replicate] at hl ⊢; omega
  · intro t ht
    simp only [List.mem_append, List.mem_replicate] at ht
    rcases ht with (ht | ht) | ⟨-, rfl⟩
    · exact B1T6.encode_valid _ t ht
    · exact B1T6.encode_valid _ t ht
    · exact Or.inr (Or.inl rfl)

/-- the layout of the block for a 32-byte digest: `[0,192)` digest, `[192,240)` nonce, `[240,243)` zero. -/
theorem powBlock_layout (digest : List UInt8) (n : Nat) (hd : digest.length = 32) :
    powBlock digest n = Iota.B1T6.encode digest ++ Iota.B1T6.encode (nonceBytes n) ++ [0, 0, 0] ∧
    (Iota.B1T6.encode digest).length = 192 ∧ (Iota.B1T6.encode (nonceBytes n)).length = 48 := by
  have h1 : (Iota.B1T6.encode digest).length = 192 := by rw [B1T6.encode_length, hd]
  have h2 : (Iota.B1T6.encode (nonceBytes n)).length = 48 := by rw [B1T6.encode_length, nonceBytes_length]
  refine ⟨?_, h1, h2⟩
  unfold powBlock
  simp only [List.length_append, h1, h2]
  rfl

/-! ### the single-lane hash -/

theorem absorb_one (s : Sponge) (block : List Int) : s.absorb block 1 = s.absorbBlock block := by
  unfold Sponge.absorb Sponge.absorb; rfl

theorem squeeze_one (s : Sponge) : (s.squeeze 1).2 = s.squeezeBlock.2 := by
  unfold Sponge.squeeze Sponge.squeeze; simp

theorem curlHash_eq_block (block : List Int) :
    curlHash block = (Sponge.init.absorbBlock block).squeezeBlock.2 := by
  unfold curlHash; rw [absorb_one, squeeze_one]

theorem init_state_getD (i : Nat) : Sponge.init.state.getD i 0 = 0 := by
  unfold Sponge.init zeroState
  simp [Array.getD]

/-- the hash is the first 243 trits of the 81-round permutation of (block ‖ 486 zeros). -/
theorem curlHash_eq (block : List Int) :
    curlHash block = (List.range 243).map fun i =>
      (transform (Array.ofFn (n := 729) fun i =>
        if i.val < 243 then normTrit (block.getD i.val 0) else 0)).getD i 0 := by
  rw [curlHash_eq_block]
  unfold Sponge.squeezeBlock Sponge.absorbBlock
  simp only [init_state_getD]
  have : Sponge.init.squeezing = false := rfl
  simp only [this, Bool.false_eq_true, if_false]

/-- a balanced trit -/
def VT (t : Int) : Prop := t = -1 ∨ t = 0 ∨ t = 1

theorem f_valid {a b : Int} (ha : VT a) (hb : VT b) : VT (f a b) := by
  unfold VT at *; rcases ha with rfl | rfl | rfl <;> rcases hb with rfl | rfl | rfl <;> decide

theorem normTrit_VT (t : Int) : VT (normTrit t) := by
  unfold normTrit VT; split
  · simp
  · split <;> simp

theorem normTrit_valid {t : Int} (h : VT t) : normTrit t = t := by
  rcases h with rfl | rfl | rfl <;> decide

def ValidState (s : State) : Prop := ∀ i, VT (s.getD i 0)

/-- stated for a general size: with the literal 729 the kernel evaluates the array. -/
theorem ofFn_getD_gen {n : Nat} (g : Fin n → Int) (i : Nat) :
    (Array.ofFn g).getD i 0 = if h : i < n then g ⟨i, h⟩ else 0 := by
  simp [Array.getD]

theorem ofFn729_getD (g : Fin 729 → Int) (i : Nat) :
    (Array.ofFn g).getD i 0 = if h : i < 729 then g ⟨i, h⟩ else 0 := ofFn_getD_gen g i

theorem round_valid (s : State) (hs : ValidState s) : ValidState (round s) := by
  intro i
  unfold round
  rw [ofFn729_getD]
  split
  · exact f_valid (hs _) (hs _)
  · exact Or.inr (Or.inl rfl)

theorem rounds_valid (n : Nat) (s : State) (hs : ValidState s) : ValidState (rounds n s) := by
  induction n generalizing s with
  | zero => exact hs
  | succ n ih => exact ih _ (round_valid s hs)

theorem transform_valid (s : State) (hs : ValidState s) : ValidState (transform s) := by
  unfold transform; exact rounds_valid 81 s hs

/-- every Curl-P-81 hash (of any block) is 243 balanced trits. -/
theorem curlHash_isHash (block : List Int) : IsHash (curlHash block) := by
  rw [curlHash_eq]
  refine ⟨by simp, ?_⟩
  intro t ht
  rw [List.mem_map] at ht
  obtain ⟨i, -, rfl⟩ := ht
  apply transform_valid
  intro j
  rw [ofFn729_getD]
  split
  · split
    · exact normTrit_VT _
    · exact Or.inr (Or.inl rfl)
  · exact Or.inr (Or.inl rfl)

theorem hashTrits_isHash (digest : List UInt8) (n : Nat) : IsHash (hashTrits digest n) := curlHash_isHash _

/-! ### the bit-slicing -/

theorem wordOfBits_getLsbD (p : Nat → Bool) (j : Nat) (hj : j < 64) : (wordOfBits p).getLsbD j = p j := by
  unfold wordOfBits
  rw [BitVec.getLsbD_setWidth, BitVec.getLsbD_ofBoolListLE]
  simp [hj]

theorem vector_ofFn_getD_gen {n : Nat} (g : Fin n → W) (k : Nat) (hk : k < n) :
    (Vector.ofFn g).toArray.getD k 0 = g ⟨k, hk⟩ := by
  simp [Array.getD, hk]

theorem ofFn243_getD (g : Fin 243 → W) (k : Nat) (hk : k < 243) :
    (Vector.ofFn g).toArray.getD k 0 = g ⟨k, hk⟩ := vector_ofFn_getD_gen g k hk

/-- decoding lane `j` of `sliceOf f` gives the (sign-normalised) trits of `f j`. -/
theorem laneTrit_sliceOf (f : Fin 64 → List Int) (j : Fin 64) (k : Nat) (hk : k < 243) :
    laneTrit (sliceOf f).1 (sliceOf f).2 j.val k = normTrit ((f j).getD k 0) := by
  unfold laneTrit sliceOf
  simp only [ofFn243_getD _ k hk, wordOfBits_getLsbD _ _ j.isLt, j.isLt, dite_true, Fin.eta]
  generalize (f j).getD k 0 = x
  unfold normTrit
  simp only [decide_eq_true_eq]
  split <;> split <;> (try split) <;> (try split) <;> omega

/-- **S1**: the hypothesis `BctFaithful` is satisfiable — the plain bit-slicing satisfies it. -/
theorem sliceOf_faithful : BctFaithful sliceOf := by
  intro f hf i
  obtain ⟨hlen, hv⟩ := hf i
  apply List.ext_getElem
  · rw [laneTrits_length, hlen]
  · intro k h1 h2
    rw [laneTrits_length] at h1
    rw [laneTrits_getElem, laneTrit_sliceOf f i k h1, List.getD_eq_getElem?_getD, List.getElem?_eq_getElem h2]
    exact normTrit_valid (hv _ (List.getElem_mem h2))

/-- the slice form of the hypothesis gives the block form (for the sponge "hash each lane, then slice"). -/
theorem bctOfSlice_faithful (slice : (Fin 64 → List Int) → Planes × Planes) (hs : BctFaithful slice) :
    BctBlocksFaithful (bctOfSlice slice) := by
  intro blocks _ i
  exact hs (fun i => curlHash (blocks i)) (fun i => curlHash_isHash _) i

/-- the block form is satisfiable, too. -/
theorem bctOfSlice_sliceOf_faithful : BctBlocksFaithful (bctOfSlice sliceOf) :=
  bctOfSlice_faithful _ sliceOf_faithful

theorem worker_eq_workerB (slice : (Fin 64 → List Int) → Planes × Planes) (test : Planes → Planes → Nat)
    (digest : List UInt8) (start fuel : Nat) :
    worker slice test digest start fuel = workerB (bctOfSlice slice) test digest start fuel := rfl

/-! ## the scan -/

/-- the worker loop is `mineSeq` (P7) followed by the map (batch, lane) ↦ nonce. -/
theorem scan_eq_mineSeq (planes : Nat → Planes × Planes) (test : Planes → Planes → Nat) (start fuel b : Nat) :
    scan planes test start fuel b = (mineSeq test planes fuel b).map fun p => laneNonce start p.1 p.2 := by
  induction fuel generalizing b with
  | zero => rfl
  | succ fuel ih =>
    rw [scan, mineSeq]
    split
    · rfl
    · exact ih (b + 1)

/-- `planes` are tied to `hash`: lane `i` of batch `b` decodes to the hash of the nonce `start + 64·b + i`. -/
def Tied (planes : Nat → Planes × Planes) (hash : Nat → List Int) (start : Nat) : Prop :=
  ∀ b i, i < 64 → laneTrits (planes b).1 (planes b).2 i = hash (laneNonce start b i)

theorem tied_of_slice (slice : (Fin 64 → List Int) → Planes × Planes) (hs : BctFaithful slice)
    (digest : List UInt8) (start : Nat) :
    Tied (batchPlanes slice digest start) (hashTrits digest) start := by
  intro b i hi
  exact hs (fun i => hashTrits digest (laneNonce start b i.val)) (fun _ => hashTrits_isHash _ _) ⟨i, hi⟩

theorem tied_of_bct (bct : (Fin 64 → List Int) → Planes × Planes) (hb : BctBlocksFaithful bct)
    (digest : List UInt8) (hd : digest.length ≤ 32) (start : Nat) :
    Tied (fun b => bct fun i => powBlock digest (laneNonce start b i.val)) (hashTrits digest) start := by
  intro b i hi
  exact hb (fun i => powBlock digest (laneNonce start b i.val)) (fun _ => powBlock_isHash _ _ hd) ⟨i, hi⟩

theorem laneNonce_eq (start b i : Nat) : laneNonce start b i = (start + (64 * b + i)) % 2 ^ 64 := by
  unfold laneNonce; rw [Nat.add_assoc]

theorem laneNonce_divmod (start k : Nat) : laneNonce start (k / 64) (k % 64) = (start + k) % 2 ^ 64 := by
  rw [laneNonce_eq]; congr 2; omega

theorem scan_some (planes : Nat → Planes × Planes) (test : Planes → Planes → Nat) (start fuel n : Nat)
    (hs : scan planes test start fuel 0 = some n) :
    ∃ b i, b < fuel ∧ i < 64 ∧ n = laneNonce start b i ∧ test (planes b).1 (planes b).2 = i ∧
      ∀ b', b' < b → 64 ≤ test (planes b').1 (planes b').2 := by
  rw [scan_eq_mineSeq] at hs
  cases hm : mineSeq test planes fuel 0 with
  | none => rw [hm] at hs; cases hs
  | some p =>
    obtain ⟨b, i⟩ := p
    rw [hm] at hs
    simp only [Option.map_some, Option.some.injEq] at hs
    obtain ⟨-, h2, h3, h4, h5⟩ := mineSeq_some test planes fuel 0 b i hm
    exact ⟨b, i, by omega, h4, hs.symm, h3, fun b' hb => h5 b' (Nat.zero_le _) hb⟩

theorem scan_none (planes : Nat → Planes × Planes) (test : Planes → Planes → Nat) (start fuel : Nat)
    (hs : scan planes test start fuel 0 = none) :
    ∀ b', b' < fuel → 64 ≤ test (planes b').1 (planes b').2 := by
  rw [scan_eq_mineSeq] at hs
  cases hm : mineSeq test planes fuel 0 with
  | some p => rw [hm] at hs; cases hs
  | none =>
    intro b' hb
    exact mineSeq_none test planes fuel 0 hm b' (Nat.zero_le _) (by omega)

/-! ## S2 — v2 -/

/-- the v2 lane test for `lx = len·t` -/
abbrev testV2 (lx : Nat) : Planes → Planes → Nat :=
  fun l h => checkV2 l h (sufficientTrailingZeros lx) (targetHash lx)

/-- the v1 lane test for `z` trailing zeros -/
abbrev testV1 (z : Nat) : Planes → Planes → Nat := fun l h => checkV1 l h z

/-- P5 + P7 through the tie: the returned nonce is `start + k` (mod 2^64) for some offset `k` scanned; its
hash scores ≥ t and has difficulty ≥ lx; every offset in an earlier batch has difficulty ≤ lx. -/
theorem scan_v2 (planes : Nat → Planes × Planes) (hash : Nat → List Int) (start : Nat)
    (htied : Tied planes hash start) (lx len t : Nat) (h8 : 8 ≤ lx) (hlx : lx < 2 ^ 64)
    (hlen : 1 ≤ len) (hlt : lx = len * t) (fuel n : Nat)
    (hs : scan planes (testV2 lx) start fuel 0 = some n) :
    ∃ k, k < 64 * fuel ∧ n = (start + k) % 2 ^ 64 ∧
      t ≤ score (hash n) len ∧ lx ≤ difficulty (hash n) ∧
      ∀ k', k' / 64 < k / 64 → difficulty (hash ((start + k') % 2 ^ 64)) ≤ lx := by
  obtain ⟨b, i, hb, hi, hn, htest, hearlier⟩ := scan_some _ _ _ _ _ hs
  replace htest : checkV2 (planes b).1 (planes b).2 (sufficientTrailingZeros lx) (targetHash lx) = i := htest
  have hi' : checkV2 (planes b).1 (planes b).2 (sufficientTrailingZeros lx) (targetHash lx) < 64 := by omega
  have hsc := checkV2_score (planes b).1 (planes b).2 lx h8 hlx len t hlen hlt hi'
  have hso := checkV2_sound (planes b).1 (planes b).2 lx h8 hlx hi'
  rw [htest] at hsc hso
  unfold stateToInt at hso
  rw [htied b i hi, ← hn] at hsc hso
  refine ⟨64 * b + i, by omega, by rw [hn, laneNonce_eq], hsc, hso, ?_⟩
  intro k' hk'
  have hb' : k' / 64 < b := by omega
  apply Nat.le_of_not_lt
  intro hgt
  have hj : k' % 64 < 64 := Nat.mod_lt _ (by decide)
  have := checkV2_no_passover (planes (k' / 64)).1 (planes (k' / 64)).2 lx h8 hlx
    ⟨k' % 64, hj, by
      show lx < maxHash / toInt (laneTrits _ _ _)
      rw [htied _ _ hj, laneNonce_divmod]; exact hgt⟩
  have h64 : 64 ≤ checkV2 (planes (k' / 64)).1 (planes (k' / 64)).2 (sufficientTrailingZeros lx) (targetHash lx) :=
    hearlier (k' / 64) hb'
  omega

theorem scan_none_v2 (planes : Nat → Planes × Planes) (hash : Nat → List Int) (start : Nat)
    (htied : Tied planes hash start) (lx : Nat) (h8 : 8 ≤ lx) (hlx : lx < 2 ^ 64) (fuel : Nat)
    (hs : scan planes (testV2 lx) start fuel 0 = none) :
    ∀ k, k < 64 * fuel → difficulty (hash ((start + k) % 2 ^ 64)) ≤ lx := by
  intro k hk
  apply Nat.le_of_not_lt
  intro hgt
  have hj : k % 64 < 64 := Nat.mod_lt _ (by decide)
  have := checkV2_no_passover (planes (k / 64)).1 (planes (k / 64)).2 lx h8 hlx
    ⟨k % 64, hj, by
      show lx < maxHash / toInt (laneTrits _ _ _)
      rw [htied _ _ hj, laneNonce_divmod]; exact hgt⟩
  have h64 : 64 ≤ checkV2 (planes (k / 64)).1 (planes (k / 64)).2 (sufficientTrailingZeros lx) (targetHash lx) :=
    scan_none _ _ _ _ hs (k / 64) (by omega)
  omega

/-- **S2 (v2 worker, any start nonce).**  Under the one hypothesis on the batched sponge: if the worker
started at `start` returns `n`, then `n = start + k mod 2^64` for an offset `k` it scanned, the Curl-P-81 hash
of digest ‖ n has `score ≥ t` for message length `len` (soundness) and difficulty ≥ `lx = len·t`, and no nonce
`start + k'` in an earlier batch of 64 has difficulty strictly above `lx` (no pass-over). -/
theorem worker_v2 (slice : (Fin 64 → List Int) → Planes × Planes) (hslice : BctFaithful slice)
    (digest : List UInt8) (start fuel lx len t n : Nat) (h8 : 8 ≤ lx) (hlx : lx < 2 ^ 64)
    (hlen : 1 ≤ len) (hlt : lx = len * t)
    (hw : worker slice (testV2 lx) digest start fuel = some n) :
    ∃ k, k < 64 * fuel ∧ n = (start + k) % 2 ^ 64 ∧
      t ≤ score (hashTrits digest n) len ∧ lx ≤ difficulty (hashTrits digest n) ∧
      ∀ k', k' / 64 < k / 64 → difficulty (hashTrits digest ((start + k') % 2 ^ 64)) ≤ lx :=
  scan_v2 _ _ start (tied_of_slice slice hslice digest start) lx len t h8 hlx hlen hlt fuel n hw

/-- the same with the library as a map from the 64 input blocks to planes (digest of at most 32 bytes). -/
theorem workerB_v2 (bct : (Fin 64 → List Int) → Planes × Planes) (hbct : BctBlocksFaithful bct)
    (digest : List UInt8) (hd : digest.length ≤ 32) (start fuel lx len t n : Nat) (h8 : 8 ≤ lx) (hlx : lx < 2 ^ 64)
    (hlen : 1 ≤ len) (hlt : lx = len * t)
    (hw : workerB bct (testV2 lx) digest start fuel = some n) :
    ∃ k, k < 64 * fuel ∧ n = (start + k) % 2 ^ 64 ∧
      t ≤ score (hashTrits digest n) len ∧ lx ≤ difficulty (hashTrits digest n) ∧
      ∀ k', k' / 64 < k / 64 → difficulty (hashTrits digest ((start + k') % 2 ^ 64)) ≤ lx :=
  scan_v2 _ _ start (tied_of_bct bct hbct digest hd start) lx len t h8 hlx hlen hlt fuel n hw

/-- **S2, single worker** (`start = 0`; `fuel ≤ 2^58` batches: the scan does not wrap around): in terms of
nonce values — the returned `n` scores ≥ t, and every nonce `m` in an earlier 64-block (`m/64 < n/64`) has
difficulty ≤ len·t, i.e. none whose difficulty strictly exceeds len·t was passed over. -/
theorem worker_v2_first (slice : (Fin 64 → List Int) → Planes × Planes) (hslice : BctFaithful slice)
    (digest : List UInt8) (fuel lx len t n : Nat) (hfuel : fuel ≤ 2 ^ 58) (h8 : 8 ≤ lx) (hlx : lx < 2 ^ 64)
    (hlen : 1 ≤ len) (hlt : lx = len * t)
    (hw : worker slice (testV2 lx) digest 0 fuel = some n) :
    n < 64 * fuel ∧ t ≤ score (hashTrits digest n) len ∧
      ∀ m, m / 64 < n / 64 → difficulty (hashTrits digest m) ≤ lx := by
  obtain ⟨k, hk, hn, hsc, -, hno⟩ := worker_v2 slice hslice digest 0 fuel lx len t n h8 hlx hlen hlt hw
  have hk64 : k < 2 ^ 64 := by omega
  rw [Nat.zero_add, Nat.mod_eq_of_lt hk64] at hn
  subst hn
  refine ⟨hk, hsc, ?_⟩
  intro m hm
  have := hno m hm
  rwa [Nat.zero_add, Nat.mod_eq_of_lt (by omega)] at this

/-- a v2 worker that gives up has seen no nonce of difficulty > len·t. -/
theorem worker_none_v2 (slice : (Fin 64 → List Int) → Planes × Planes) (hslice : BctFaithful slice)
    (digest : List UInt8) (start fuel lx : Nat) (h8 : 8 ≤ lx) (hlx : lx < 2 ^ 64)
    (hw : worker slice (testV2 lx) digest start fuel = none) :
    ∀ k, k < 64 * fuel → difficulty (hashTrits digest ((start + k) % 2 ^ 64)) ≤ lx :=
  scan_none_v2 _ _ start (tied_of_slice slice hslice digest start) lx h8 hlx fuel hw

/-- `Score(data ‖ nonce)` on the byte string is `ScoreV2 H data nonce`. -/
theorem ScoreMsgV2_append (H : List UInt8 → List UInt8) (data : List UInt8) (n : Nat) :
    ScoreMsgV2 H (data ++ nonceBytes n) = ScoreV2 H data n := by
  unfold ScoreMsgV2 ScoreV2
  have hl : (data ++ nonceBytes n).length - 8 = data.length := by
    rw [List.length_append, nonceBytes_length]; omega
  simp only [hl, List.take_left', List.drop_left', leUint64_nonceBytes, hashTrits_mod]
  rw [List.length_append, nonceBytes_length]

/-- **S2 at the level of `Score`** (v2): `Mine(data, t)` with `t ≥ 1` and `(len(data)+8)·t < 2^64` runs its
workers with `sufficientTrailingZeros`/`targetHash` of `lx = (len(data)+8)·t` on the digest `H data`; a nonce
any of them returns satisfies `Score(data ‖ nonce) ≥ t`. -/
theorem mine_v2_score (slice : (Fin 64 → List Int) → Planes × Planes) (hslice : BctFaithful slice)
    (H : List UInt8 → List UInt8) (data : List UInt8) (t start fuel n : Nat)
    (ht : 1 ≤ t) (hlx : (data.length + 8) * t < 2 ^ 64)
    (hw : worker slice (testV2 ((data.length + 8) * t)) (H data) start fuel = some n) :
    t ≤ ScoreV2 H data n ∧ t ≤ ScoreMsgV2 H (data ++ nonceBytes n) := by
  have h8 : 8 ≤ (data.length + 8) * t :=
    Nat.le_trans (Nat.le_add_left 8 _) (Nat.le_mul_of_pos_right _ ht)
  obtain ⟨k, -, -, hsc, -⟩ := worker_v2 slice hslice (H data) start fuel _ (data.length + 8) t n h8 hlx
    (by omega) rfl hw
  rw [ScoreMsgV2_append]
  exact ⟨hsc, hsc⟩

/-! ## S3 — v1 -/

/-- P6 + P7 through the tie: the returned nonce is the first in scan order with ≥ z trailing zeros. -/
theorem scan_v1 (planes : Nat → Planes × Planes) (hash : Nat → List Int) (start : Nat)
    (htied : Tied planes hash start) (z : Nat) (hz : z ≤ 243) (fuel n : Nat)
    (hs : scan planes (testV1 z) start fuel 0 = some n) :
    ∃ k, k < 64 * fuel ∧ n = (start + k) % 2 ^ 64 ∧ z ≤ trailingZeros (hash n) ∧
      ∀ k', k' < k → ¬ z ≤ trailingZeros (hash ((start + k') % 2 ^ 64)) := by
  obtain ⟨b, i, hb, hi, hn, htest, hearlier⟩ := scan_some _ _ _ _ _ hs
  replace htest : checkV1 (planes b).1 (planes b).2 z = i := htest
  obtain ⟨-, hacc, -⟩ := P6_checkV1 (planes b).1 (planes b).2 z i hz htest
  obtain ⟨hge, hfirst⟩ := hacc hi
  rw [htied b i hi, ← hn] at hge
  refine ⟨64 * b + i, by omega, by rw [hn, laneNonce_eq], hge, ?_⟩
  intro k' hk'
  have hj : k' % 64 < 64 := Nat.mod_lt _ (by decide)
  rw [← laneNonce_divmod, ← htied _ _ hj]
  rcases Nat.lt_or_ge (k' / 64) b with hlt | hge'
  · have h64 := hearlier (k' / 64) hlt
    obtain ⟨hle, -, hrej⟩ := P6_checkV1 (planes (k' / 64)).1 (planes (k' / 64)).2 z _ hz rfl
    exact hrej (by change checkV1 _ _ z ≤ 64 at hle; change 64 ≤ checkV1 _ _ z at h64; omega) _ hj
  · have hbk : k' / 64 = b := by omega
    rw [hbk]
    exact hfirst _ (by omega)

theorem scan_none_v1 (planes : Nat → Planes × Planes) (hash : Nat → List Int) (start : Nat)
    (htied : Tied planes hash start) (z : Nat) (hz : z ≤ 243) (fuel : Nat)
    (hs : scan planes (testV1 z) start fuel 0 = none) :
    ∀ k, k < 64 * fuel → ¬ z ≤ trailingZeros (hash ((start + k) % 2 ^ 64)) := by
  intro k hk
  have hj : k % 64 < 64 := Nat.mod_lt _ (by decide)
  rw [← laneNonce_divmod, ← htied _ _ hj]
  have h64 := scan_none _ _ _ _ hs (k / 64) (by omega)
  obtain ⟨hle, -, hrej⟩ := P6_checkV1 (planes (k / 64)).1 (planes (k / 64)).2 z _ hz rfl
  exact hrej (by change checkV1 _ _ z ≤ 64 at hle; change 64 ≤ checkV1 _ _ z at h64; omega) _ hj

/-- **S3 (v1 worker, any start nonce).**  If the worker started at `start` with `targetZeros = z ≤ 243`
returns `n`, then `n = start + k mod 2^64`, the Curl-P-81 hash of digest ‖ n has at least `z` trailing zero
trits, and `n` is the FIRST such nonce in scan order `start, start+1, …` (exactness). -/
theorem worker_v1 (slice : (Fin 64 → List Int) → Planes × Planes) (hslice : BctFaithful slice)
    (digest : List UInt8) (start fuel z n : Nat) (hz : z ≤ 243)
    (hw : worker slice (testV1 z) digest start fuel = some n) :
    ∃ k, k < 64 * fuel ∧ n = (start + k) % 2 ^ 64 ∧ z ≤ trailingZeros (hashTrits digest n) ∧
      ∀ k', k' < k → ¬ z ≤ trailingZeros (hashTrits digest ((start + k') % 2 ^ 64)) :=
  scan_v1 _ _ start (tied_of_slice slice hslice digest start) z hz fuel n hw

theorem workerB_v1 (bct : (Fin 64 → List Int) → Planes × Planes) (hbct : BctBlocksFaithful bct)
    (digest : List UInt8) (hd : digest.length ≤ 32) (start fuel z n : Nat) (hz : z ≤ 243)
    (hw : workerB bct (testV1 z) digest start fuel = some n) :
    ∃ k, k < 64 * fuel ∧ n = (start + k) % 2 ^ 64 ∧ z ≤ trailingZeros (hashTrits digest n) ∧
      ∀ k', k' < k → ¬ z ≤ trailingZeros (hashTrits digest ((start + k') % 2 ^ 64)) :=
  scan_v1 _ _ start (tied_of_bct bct hbct digest hd start) z hz fuel n hw

/-- a v1 worker that gives up has seen no nonce with ≥ z trailing zeros. -/
theorem worker_none_v1 (slice : (Fin 64 → List Int) → Planes × Planes) (hslice : BctFaithful slice)
    (digest : List UInt8) (start fuel z : Nat) (hz : z ≤ 243)
    (hw : worker slice (testV1 z) digest start fuel = none) :
    ∀ k, k < 64 * fuel → ¬ z ≤ trailingZeros (hashTrits digest ((start + k) % 2 ^ 64)) :=
  scan_none_v1 _ _ start (tied_of_slice slice hslice digest start) z hz fuel hw

/-- **S3 with the abstract monotone score of C11** (`sc z` = the float `3^z / len`): when `target ≤ sc z`
the returned nonce's score meets the target; when moreover `z` is the least such count (what `Mine` computes,
with the expression of `Score`), no earlier nonce in scan order meets the target. -/
theorem worker_v1_score {F : Type} [LE F] (le_trans : ∀ a b c : F, a ≤ b → b ≤ c → a ≤ c)
    (sc : Nat → F) (mono : ∀ a b, a ≤ b → sc a ≤ sc b) (target : F) (z : Nat) (hz : z ≤ 243)
    (hsat : target ≤ sc z)
    (slice : (Fin 64 → List Int) → Planes × Planes) (hslice : BctFaithful slice)
    (digest : List UInt8) (start fuel n : Nat)
    (hw : worker slice (testV1 z) digest start fuel = some n) :
    ∃ k, k < 64 * fuel ∧ n = (start + k) % 2 ^ 64 ∧
      target ≤ sc (trailingZeros (hashTrits digest n)) ∧
      ((∀ z', z' < z → ¬ target ≤ sc z') →
        ∀ k', k' < k → ¬ target ≤ sc (trailingZeros (hashTrits digest ((start + k') % 2 ^ 64)))) := by
  obtain ⟨k, hk, hn, hge, hfirst⟩ := worker_v1 slice hslice digest start fuel z n hz hw
  refine ⟨k, hk, hn, le_trans _ _ _ hsat (mono _ _ hge), ?_⟩
  intro hleast k' hk' hmeet
  exact hfirst k' hk' (Nat.le_of_not_lt fun hlt => hleast _ hlt hmeet)

/-- `Score(data ‖ nonce)` on the byte string is `ScoreV1 sc H data nonce`. -/
theorem ScoreMsgV1_append {F : Type} (sc : Nat → Nat → F) (H : List UInt8 → List UInt8) (data : List UInt8)
    (n : Nat) : ScoreMsgV1 sc H (data ++ nonceBytes n) = ScoreV1 sc H data n := by
  unfold ScoreMsgV1 ScoreV1
  have hl : (data ++ nonceBytes n).length - 8 = data.length := by
    rw [List.length_append, nonceBytes_length]; omega
  simp only [hl, List.take_left', List.drop_left', leUint64_nonceBytes, hashTrits_mod]
  rw [List.length_append, nonceBytes_length]

/-- **S3 at the level of `Score`** (v1): `sc len z` is the float `math.Pow(3, z) / float64(len)`, assumed
monotone in `z`; `Mine(data, target)` searches for `z` trailing zeros with `target ≤ sc (len(data)+8) z`
(and `z ≤ 243`) on the digest `H data`; a nonce any worker returns satisfies `Score(data ‖ nonce) ≥ target`. -/
theorem mine_v1_score {F : Type} [LE F] (le_trans : ∀ a b c : F, a ≤ b → b ≤ c → a ≤ c)
    (sc : Nat → Nat → F) (mono : ∀ len a b, a ≤ b → sc len a ≤ sc len b)
    (slice : (Fin 64 → List Int) → Planes × Planes) (hslice : BctFaithful slice)
    (H : List UInt8 → List UInt8) (data : List UInt8) (target : F) (z start fuel n : Nat) (hz : z ≤ 243)
    (hsat : target ≤ sc (data.length + 8) z)
    (hw : worker slice (testV1 z) (H data) start fuel = some n) :
    target ≤ ScoreV1 sc H data n ∧ target ≤ ScoreMsgV1 sc H (data ++ nonceBytes n) := by
  obtain ⟨k, -, -, hsc, -⟩ := worker_v1_score le_trans (sc (data.length + 8)) (mono _) target z hz hsat
    slice hslice (H data) start fuel n hw
  rw [ScoreMsgV1_append]
  exact ⟨hsc, hsc⟩

/-! ## a concrete hash: Curl-P-81 of the zero block is zero

`f 0 0 = -1`, `f (-1) (-1) = 1`, `f 1 1 = 0`: a constant state has period 3 under `round`, and 81 = 3·27.  The
block of the all-zero 32-byte digest with nonce 0 is all zero (b1t6 maps byte 0 to six zero trits).  This gives
closed instances of every definition above without evaluating 81 rounds in the kernel. -/

/-- the constant state -/
def constState (c : Int) : State := Array.ofFn (n := 729) fun _ => c

theorem idx_lt (i : Nat) : idx i < 729 := by unfold idx; omega

theorem ofFn_congr {n : Nat} (g g' : Fin n → Int) (h : ∀ i, g i = g' i) : Array.ofFn g = Array.ofFn g' := by
  have : g = g' := funext h
  subst this; rfl

theorem round_const (c : Int) : round (constState c) = constState (f c c) := by
  unfold round constState
  apply ofFn_congr
  intro i
  rw [ofFn729_getD, ofFn729_getD, dif_pos (idx_lt _), dif_pos (idx_lt _)]

theorem rounds_three_zero (k : Nat) : rounds (3 * k) (constState 0) = constState 0 := by
  induction k with
  | zero => rfl
  | succ k ih =>
    have e : 3 * (k + 1) = 3 * k + 1 + 1 + 1 := by omega
    rw [e, rounds, rounds, rounds, round_const, round_const, round_const]
    have : f (f (f 0 0) (f 0 0)) (f (f 0 0) (f 0 0)) = 0 := by decide
    rw [this]; exact ih

theorem transform_zero : transform (constState 0) = constState 0 := rounds_three_zero 27

theorem curlHash_zero : curlHash (List.replicate 243 0) = List.replicate 243 0 := by
  rw [curlHash_eq]
  have : (Array.ofFn (n := 729) fun i => if i.val < 243 then normTrit ((List.replicate 243 (0 : Int)).getD i.val 0) else 0)
      = constState 0 := by
    unfold constState
    apply ofFn_congr
    intro i
    split
    · rename_i h
      rw [List.getD_eq_getElem?_getD, List.getElem?_replicate, if_pos h]; rfl
    · rfl
  rw [this, transform_zero]
  apply List.ext_getElem
  · rw [List.length_map, List.length_range, List.length_replicate]
  · intro k h1 h2
    rw [List.length_map, List.length_range] at h1
    rw [List.getElem_map, List.getElem_range, List.getElem_replicate]
    unfold constState
    rw [ofFn729_getD, dif_pos (by omega)]

theorem powBlock_zero : powBlock (List.replicate 32 0) 0 = List.replicate 243 0 := by decide +kernel

theorem hashTrits_zero : hashTrits (List.replicate 32 0) 0 = List.replicate 243 0 := by
  unfold hashTrits; rw [powBlock_zero, curlHash_zero]


/-- the zero digest, used for the instances below -/
abbrev zeroDigest : List UInt8 := List.replicate 32 0

/-- with any faithful batched sponge, the v1 worker started at 0 on the zero digest, asked for 243 trailing
zeros, returns nonce 0 in its first batch (the hypotheses of `worker_v1` are satisfiable with `some`). -/
theorem worker_v1_instance (slice : (Fin 64 → List Int) → Planes × Planes) (hslice : BctFaithful slice) (fuel : Nat) :
    worker slice (testV1 243) zeroDigest 0 (fuel + 1) = some 0 := by
  have htied := tied_of_slice slice hslice zeroDigest 0
  have h0 : laneTrits (batchPlanes slice zeroDigest 0 0).1 (batchPlanes slice zeroDigest 0 0).2 0
      = List.replicate 243 0 := by
    rw [htied 0 0 (by decide)]; exact hashTrits_zero
  have htz : 243 ≤ trailingZeros (laneTrits (batchPlanes slice zeroDigest 0 0).1 (batchPlanes slice zeroDigest 0 0).2 0) := by
    rw [h0]; decide +kernel
  obtain ⟨-, hacc, -⟩ := checkV1_spec (batchPlanes slice zeroDigest 0 0).1 (batchPlanes slice zeroDigest 0 0).2 243
    (Nat.le_refl _)
  have hlt := (checkV1_lt_iff (batchPlanes slice zeroDigest 0 0).1 (batchPlanes slice zeroDigest 0 0).2 243
    (Nat.le_refl _)).mpr ⟨0, by decide, htz⟩
  have hi0 : checkV1 (batchPlanes slice zeroDigest 0 0).1 (batchPlanes slice zeroDigest 0 0).2 243 = 0 := by
    rcases Nat.eq_zero_or_pos (checkV1 (batchPlanes slice zeroDigest 0 0).1 (batchPlanes slice zeroDigest 0 0).2 243)
      with h | h
    · exact h
    · exact absurd htz ((hacc hlt).2 0 h)
  unfold worker
  rw [scan]
  simp only [hi0]
  rfl

/-- … and the v2 worker returns some nonce in its first batch, for every admissible `lx`. -/
theorem worker_v2_instance (slice : (Fin 64 → List Int) → Planes × Planes) (hslice : BctFaithful slice)
    (lx : Nat) (h8 : 8 ≤ lx) (hlx : lx < 2 ^ 64) (fuel : Nat) :
    ∃ n, worker slice (testV2 lx) zeroDigest 0 (fuel + 1) = some n := by
  have htied := tied_of_slice slice hslice zeroDigest 0
  have h0 : laneTrits (batchPlanes slice zeroDigest 0 0).1 (batchPlanes slice zeroDigest 0 0).2 0
      = List.replicate 243 0 := by
    rw [htied 0 0 (by decide)]; exact hashTrits_zero
  have hd : maxHash / stateToInt (batchPlanes slice zeroDigest 0 0).1 (batchPlanes slice zeroDigest 0 0).2 0 > lx := by
    unfold stateToInt
    rw [h0]
    have : maxHash / toInt (List.replicate 243 0) ≥ 2 ^ 64 := by decide +kernel
    omega
  have hlt := checkV2_no_passover (batchPlanes slice zeroDigest 0 0).1 (batchPlanes slice zeroDigest 0 0).2 lx h8 hlx
    ⟨0, by decide, hd⟩
  unfold worker
  rw [scan]
  simp only [hlt, if_true]
  exact ⟨_, rfl⟩

/-! ## non-vacuity -/

-- the hypothesis has a model
example : BctFaithful sliceOf := sliceOf_faithful
example : BctBlocksFaithful (bctOfSlice sliceOf) := bctOfSlice_sliceOf_faithful

-- the nonce bytes are little-endian, the block has 192 + 48 + 3 = 243 trits for a 32-byte digest
example : nonceBytes 0x0102030405060708 = [8, 7, 6, 5, 4, 3, 2, 1] := by decide +kernel
example : nonceBytes (2 ^ 64 + 5) = [5, 0, 0, 0, 0, 0, 0, 0] ∧ leUint64 [5, 0, 0, 0, 0, 0, 0, 1] = 2 ^ 56 + 5 := by
  decide +kernel
example : (powBlock (List.replicate 32 7) 12345).length = 243 ∧
    (Iota.B1T6.encode (List.replicate 32 (7 : UInt8))).length = 192 ∧
    (Iota.B1T6.encode (nonceBytes 12345)).length = 48 ∧
    (powBlock (List.replicate 32 7) 12345).drop 240 = [0, 0, 0] := by decide +kernel
-- lane nonces wrap around like `uint64`
example : laneNonce (2 ^ 64 - 3) 0 5 = 2 ∧ laneNonce 100 2 63 = 291 := by decide +kernel
-- slicing: lane 3 carries the trits [1, 0, -1, …]
example : (((sliceOf fun i => if i.val = 3 then [1, 0, -1] else []).1.toArray.getD 0 0).getLsbD 3,
           ((sliceOf fun i => if i.val = 3 then [1, 0, -1] else []).2.toArray.getD 0 0).getLsbD 3,
           ((sliceOf fun i => if i.val = 3 then [1, 0, -1] else []).1.toArray.getD 2 0).getLsbD 3,
           ((sliceOf fun i => if i.val = 3 then [1, 0, -1] else []).2.toArray.getD 2 0).getLsbD 3)
    = (false, true, true, false) := by decide +kernel
-- a closed hash value: Curl-P-81 of the zero block, its trailing zeros, difficulty and (saturated) score
example : hashTrits zeroDigest 0 = List.replicate 243 0 := hashTrits_zero
example : trailingZeros (hashTrits zeroDigest 0) = 243 ∧ difficulty (hashTrits zeroDigest 0) = 3 ^ 243 ∧
    ScoreV2 (fun _ => zeroDigest) [1, 2, 3] 0 = 2 ^ 64 - 1 := by
  unfold ScoreV2; rw [hashTrits_zero]; decide +kernel
-- the workers return nonces (so the hypotheses `worker … = some n` of S2/S3 are satisfiable)
example : worker sliceOf (testV1 243) zeroDigest 0 1 = some 0 := worker_v1_instance _ sliceOf_faithful 0
example : ∃ n, worker sliceOf (testV2 8) zeroDigest 0 1 = some n :=
  worker_v2_instance _ sliceOf_faithful 8 (by decide) (by decide) 0

end Iota.Proofs.PowScore
