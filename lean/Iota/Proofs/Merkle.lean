import Iota.Spec.Merkle

namespace Iota.Proofs.Merkle
open Iota.Merkle Iota.Spec.Merkle

/-! ### the split point -/

theorem lpo2_eq (n : Nat) (h2 : 2 ≤ n) (h63 : n ≤ 2 ^ 63) :
    largestPowerOfTwo n = 2 ^ (n - 1).log2 := by
  unfold largestPowerOfTwo bitsLen
  have hne : n - 1 ≠ 0 := by omega
  have hlog : (n - 1).log2 < 63 := (Nat.log2_lt hne).mpr (by omega)
  simp only [hne, if_false, Nat.add_sub_cancel, Nat.shiftLeft_eq, Nat.one_mul]
  have : (n - 1).log2 &&& 63 = (n - 1).log2 := by
    have := @Nat.and_two_pow_sub_one_of_lt_two_pow 6 (n - 1).log2 (by omega)
    simpa using this
  rw [this]

theorem lpo2_spec (n : Nat) (h2 : 2 ≤ n) (h63 : n ≤ 2 ^ 63) :
    ∃ e, largestPowerOfTwo n = 2 ^ e ∧ largestPowerOfTwo n < n ∧ n ≤ 2 * largestPowerOfTwo n := by
  refine ⟨(n - 1).log2, lpo2_eq n h2 h63, ?_, ?_⟩
  · rw [lpo2_eq n h2 h63]
    have := Nat.log2_self_le (n := n - 1) (by omega); omega
  · rw [lpo2_eq n h2 h63]
    have := @Nat.lt_log2_self (n - 1)
    rw [Nat.pow_succ] at this; omega

/-- the power of two `k` with `k < n ≤ 2k` is unique. -/
theorem pow2_split_unique (n a b : Nat) (ha : 2 ^ a < n) (ha' : n ≤ 2 * 2 ^ a)
    (hb : 2 ^ b < n) (hb' : n ≤ 2 * 2 ^ b) : a = b := by
  rcases Nat.lt_trichotomy a b with h | h | h
  · have : 2 ^ (a + 1) ≤ 2 ^ b := Nat.pow_le_pow_right (by omega) h
    rw [Nat.pow_succ] at this; omega
  · exact h
  · have : 2 ^ (b + 1) ≤ 2 ^ a := Nat.pow_le_pow_right (by omega) h
    rw [Nat.pow_succ] at this; omega

/-! ### unfolding lemmas for `hash` -/

variable {ε : Type}

theorem hash_nil (H : Bytes → Bytes) : hash (ε := ε) H [] = .ok (H []) := by
  rw [Iota.Merkle.hash]; simp

theorem hash_single (H : Bytes → Bytes) (x : Except ε Bytes) :
    hash H [x] = match x with | .ok b => .ok (hashLeaf H b) | .error e => .error e := by
  rw [Iota.Merkle.hash]; cases x <;> simp

theorem hash_split (H : Bytes → Bytes) (data : List (Except ε Bytes)) (h : 2 ≤ data.length) :
    hash H data =
      match hash H (data.take (largestPowerOfTwo data.length)) with
      | .error e => .error e
      | .ok l =>
        match hash H (data.drop (largestPowerOfTwo data.length)) with
        | .error e => .error e
        | .ok r => .ok (hashNode H l r) := by
  rw [Iota.Merkle.hash]
  have h0 : ¬ data.length = 0 := by omega
  have h1 : ¬ data.length = 1 := by omega
  simp only [h0, h1, dite_false]
  cases Iota.Merkle.hash H (data.take (largestPowerOfTwo data.length)) with
  | error e => rfl
  | ok l => cases Iota.Merkle.hash H (data.drop (largestPowerOfTwo data.length)) <;> rfl

/-! ### Hash = MTH -/

theorem isMTH_functional (H : Bytes → Bytes) (D : List Bytes) (h h' : Bytes)
    (a : IsMTH H D h) (b : IsMTH H D h') : h = h' := by
  induction a generalizing h' with
  | empty => cases b with
    | empty => rfl
    | node D k e l r h2 => simp at h2
  | leaf d => cases b with
    | leaf => rfl
    | node D k e l r h2 => simp at h2
  | node D k e l r h2 hk hlt hle _ _ ihl ihr =>
    cases b with
    | empty => simp at h2
    | leaf d => simp at h2
    | node D k' e' l' r' h2' hk' hlt' hle' ml mr =>
      have : e = e' := pow2_split_unique D.length e e' (hk ▸ hlt) (hk ▸ hle) (hk' ▸ hlt') (hk' ▸ hle')
      subst this
      have hkk : k = k' := by rw [hk, hk']
      subst hkk
      rw [ihl l' ml, ihr r' mr]

theorem hash_ok_mth (H : Bytes → Bytes) : ∀ (n : Nat) (D : List Bytes), D.length = n → n ≤ 2 ^ 63 →
    ∃ h, hash (ε := ε) H (D.map .ok) = .ok h ∧ IsMTH H D h := by
  intro n
  induction n using Nat.strongRecOn with
  | _ n ih =>
    intro D hn h63
    by_cases h0 : n = 0
    · have : D = [] := List.length_eq_zero_iff.mp (by omega)
      subst this
      exact ⟨H [], hash_nil H, IsMTH.empty⟩
    by_cases h1 : n = 1
    · obtain ⟨d, rfl⟩ := List.length_eq_one_iff.mp (by omega : D.length = 1)
      exact ⟨H (0 :: d), by rw [List.map_singleton, hash_single]; rfl, IsMTH.leaf d⟩
    have h2 : 2 ≤ D.length := by omega
    have hlen : (D.map (Except.ok (ε := ε))).length = n := by simpa using hn
    obtain ⟨e, hke, hklt, hkle⟩ := lpo2_spec n (by omega) h63
    have hpos := (lpo2_pos_lt n (by omega)).1
    obtain ⟨l, hl, ml⟩ := ih (largestPowerOfTwo n) hklt (D.take (largestPowerOfTwo n))
      (by rw [List.length_take]; omega) (by omega)
    obtain ⟨r, hr, mr⟩ := ih (n - largestPowerOfTwo n) (by omega) (D.drop (largestPowerOfTwo n))
      (by rw [List.length_drop]; omega) (by omega)
    refine ⟨H (1 :: (l ++ r)), ?_, ?_⟩
    · rw [hash_split H _ (by omega), hlen, ← List.map_take, ← List.map_drop, hl, hr]
      rfl
    · exact IsMTH.node _ (largestPowerOfTwo n) e l r h2 hke (by omega) (by omega) ml mr

theorem hash_eq_mth (H : Bytes → Bytes) (D : List Bytes) (h63 : D.length ≤ 2 ^ 63) (h : Bytes) :
    hash (ε := ε) H (D.map .ok) = .ok h ↔ IsMTH H D h := by
  obtain ⟨h0, hh, hm⟩ := hash_ok_mth (ε := ε) H D.length D rfl h63
  constructor
  · intro hx
    rw [hh] at hx
    cases hx; exact hm
  · intro hx
    rw [hh, isMTH_functional H D h0 h hm hx]

/-! ### errors -/

theorem firstError_append (xs ys : List (Except ε Bytes)) :
    firstError (xs ++ ys) = (firstError xs).or (firstError ys) := by
  induction xs with
  | nil => simp [firstError]
  | cons x xs ih => cases x <;> simp [firstError, ih]

theorem firstError_none_iff (xs : List (Except ε Bytes)) :
    firstError xs = none ↔ ∃ D : List Bytes, xs = D.map .ok := by
  induction xs with
  | nil => exact ⟨fun _ => ⟨[], rfl⟩, fun _ => rfl⟩
  | cons x xs ih =>
    cases x with
    | error e => simp only [firstError]; constructor
                 · intro h; cases h
                 · rintro ⟨D, hD⟩; cases D <;> simp at hD
    | ok b =>
      simp only [firstError, ih]
      constructor
      · rintro ⟨D, rfl⟩; exact ⟨b :: D, rfl⟩
      · rintro ⟨D, hD⟩
        cases D with
        | nil => simp at hD
        | cons d D => simp at hD; exact ⟨D, hD.2⟩

theorem hash_ok_of_no_error (H : Bytes → Bytes) : ∀ (n : Nat) (data : List (Except ε Bytes)),
    data.length = n → firstError data = none → ∃ h, hash H data = .ok h := by
  intro n
  induction n using Nat.strongRecOn with
  | _ n ih =>
    intro data hn he
    by_cases h0 : n = 0
    · have : data = [] := List.length_eq_zero_iff.mp (by omega)
      subst this
      exact ⟨_, hash_nil H⟩
    by_cases h1 : n = 1
    · obtain ⟨x, rfl⟩ := List.length_eq_one_iff.mp (by omega : data.length = 1)
      cases x with
      | error e => simp [firstError] at he
      | ok b => exact ⟨_, by rw [hash_single]⟩
    have h2 : 2 ≤ data.length := by omega
    have hklt := lpo2_pos_lt data.length h2
    have hsplit := firstError_append (data.take (largestPowerOfTwo data.length))
      (data.drop (largestPowerOfTwo data.length))
    rw [List.take_append_drop, he] at hsplit
    have hl : firstError (data.take (largestPowerOfTwo data.length)) = none := by
      cases h : firstError (data.take (largestPowerOfTwo data.length)) with
      | none => rfl
      | some e => rw [h] at hsplit; simp at hsplit
    have hr : firstError (data.drop (largestPowerOfTwo data.length)) = none := by
      rw [hl] at hsplit; simpa using hsplit.symm
    obtain ⟨l, hl'⟩ := ih _ (by rw [List.length_take]; omega) _ rfl hl
    obtain ⟨r, hr'⟩ := ih (data.drop (largestPowerOfTwo data.length)).length
      (by rw [List.length_drop]; omega) _ rfl hr
    exact ⟨hashNode H l r, by rw [hash_split H _ h2, hl', hr']⟩

theorem hash_error (H : Bytes → Bytes) : ∀ (n : Nat) (data : List (Except ε Bytes)), data.length = n →
    ∀ e, firstError data = some e → hash H data = .error e := by
  intro n
  induction n using Nat.strongRecOn with
  | _ n ih =>
    intro data hn e he
    by_cases h0 : n = 0
    · have : data = [] := List.length_eq_zero_iff.mp (by omega)
      subst this
      simp [firstError] at he
    by_cases h1 : n = 1
    · obtain ⟨x, rfl⟩ := List.length_eq_one_iff.mp (by omega : data.length = 1)
      rw [hash_single]
      cases x with
      | ok b => simp [firstError] at he
      | error e' => simp [firstError] at he; rw [he]
    have h2 : 2 ≤ data.length := by omega
    have hklt := lpo2_pos_lt data.length h2
    rw [hash_split H _ h2]
    have hsplit := firstError_append (data.take (largestPowerOfTwo data.length))
      (data.drop (largestPowerOfTwo data.length))
    rw [List.take_append_drop, he] at hsplit
    cases hl : firstError (data.take (largestPowerOfTwo data.length)) with
    | some e' =>
      rw [hl] at hsplit
      simp at hsplit
      rw [ih _ (by rw [List.length_take]; omega) _ rfl e' hl, hsplit]
    | none =>
      rw [hl] at hsplit
      simp at hsplit
      obtain ⟨l, hl'⟩ := hash_ok_of_no_error H _ _ rfl hl
      have hr := ih (data.drop (largestPowerOfTwo data.length)).length
        (by rw [List.length_drop]; omega) _ rfl e hsplit.symm
      rw [hl', hr]

end Iota.Proofs.Merkle
