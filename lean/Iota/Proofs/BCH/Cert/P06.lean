import Iota.Proofs.BCH.Data
/-! Certificate chunk (generated): outer rows `19 ≤ i < 22`. -/
namespace Iota.Proofs.BCH

theorem pairs_ok_06 : checkPairs tbl mask1 mask2 tree 19 3 = true := by decide +kernel

end Iota.Proofs.BCH
