import Iota.Proofs.BCH.Data
/-! Certificate chunk (generated): outer rows `0 ≤ i < 3`. -/
namespace Iota.Proofs.BCH

theorem pairs_ok_00 : checkPairs tbl mask1 mask2 tree 0 3 = true := by decide +kernel

end Iota.Proofs.BCH
