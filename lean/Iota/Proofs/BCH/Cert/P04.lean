import Iota.Proofs.BCH.Data
/-! Certificate chunk (generated): outer rows `12 ≤ i < 15`. -/
namespace Iota.Proofs.BCH

theorem pairs_ok_04 : checkPairs tbl mask1 mask2 tree 12 3 = true := by decide +kernel

end Iota.Proofs.BCH
