import Iota.Proofs.BCH.Data
/-! Certificate chunk (generated): outer rows `30 ≤ i < 34`. -/
namespace Iota.Proofs.BCH

theorem pairs_ok_09 : checkPairs tbl mask1 mask2 tree 30 4 = true := by decide +kernel

end Iota.Proofs.BCH
