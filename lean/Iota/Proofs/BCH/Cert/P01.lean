import Iota.Proofs.BCH.Data
/-! Certificate chunk (generated): outer rows `3 ≤ i < 6`. -/
namespace Iota.Proofs.BCH

theorem pairs_ok_01 : checkPairs tbl mask1 mask2 tree 3 3 = true := by decide +kernel

end Iota.Proofs.BCH
