import Iota.Proofs.BCH.Data
/-! Certificate chunk (generated): outer rows `39 ≤ i < 44`. -/
namespace Iota.Proofs.BCH

theorem pairs_ok_11 : checkPairs tbl mask1 mask2 tree 39 5 = true := by decide +kernel

end Iota.Proofs.BCH
