import Iota.Proofs.BCH.Data
/-! Certificate chunk (generated): outer rows `9 ≤ i < 12`. -/
namespace Iota.Proofs.BCH

theorem pairs_ok_03 : checkPairs tbl mask1 mask2 tree 9 3 = true := by decide +kernel

end Iota.Proofs.BCH
