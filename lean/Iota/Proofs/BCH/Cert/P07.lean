import Iota.Proofs.BCH.Data
/-! Certificate chunk (generated): outer rows `22 ≤ i < 26`. -/
namespace Iota.Proofs.BCH

theorem pairs_ok_07 : checkPairs tbl mask1 mask2 tree 22 4 = true := by decide +kernel

end Iota.Proofs.BCH
