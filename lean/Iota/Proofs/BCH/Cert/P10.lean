import Iota.Proofs.BCH.Data
/-! Certificate chunk (generated): outer rows `34 ≤ i < 39`. -/
namespace Iota.Proofs.BCH

theorem pairs_ok_10 : checkPairs tbl mask1 mask2 tree 34 5 = true := by decide +kernel

end Iota.Proofs.BCH
