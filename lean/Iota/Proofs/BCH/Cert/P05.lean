import Iota.Proofs.BCH.Data
/-! Certificate chunk (generated): outer rows `15 ≤ i < 19`. -/
namespace Iota.Proofs.BCH

theorem pairs_ok_05 : checkPairs tbl mask1 mask2 tree 15 4 = true := by decide +kernel

end Iota.Proofs.BCH
