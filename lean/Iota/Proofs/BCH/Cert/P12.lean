import Iota.Proofs.BCH.Data
/-! Certificate chunk (generated): outer rows `44 ≤ i < 50`. -/
namespace Iota.Proofs.BCH

theorem pairs_ok_12 : checkPairs tbl mask1 mask2 tree 44 6 = true := by decide +kernel

end Iota.Proofs.BCH
