import Iota.Proofs.BCH.Data
/-! Certificate chunk (generated): outer rows `26 ≤ i < 30`. -/
namespace Iota.Proofs.BCH

theorem pairs_ok_08 : checkPairs tbl mask1 mask2 tree 26 4 = true := by decide +kernel

end Iota.Proofs.BCH
