import Iota.Proofs.BCH.Data
/-! Certificate chunk (generated): outer rows `66 ≤ i < 87`. -/
namespace Iota.Proofs.BCH

theorem pairs_ok_15 : checkPairs tbl mask1 mask2 tree 66 21 = true := by decide +kernel

end Iota.Proofs.BCH
