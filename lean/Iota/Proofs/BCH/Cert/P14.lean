import Iota.Proofs.BCH.Data
/-! Certificate chunk (generated): outer rows `57 ≤ i < 66`. -/
namespace Iota.Proofs.BCH

theorem pairs_ok_14 : checkPairs tbl mask1 mask2 tree 57 9 = true := by decide +kernel

end Iota.Proofs.BCH
