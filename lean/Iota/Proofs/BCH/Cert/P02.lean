import Iota.Proofs.BCH.Data
/-! Certificate chunk (generated): outer rows `6 ≤ i < 9`. -/
namespace Iota.Proofs.BCH

theorem pairs_ok_02 : checkPairs tbl mask1 mask2 tree 6 3 = true := by decide +kernel

end Iota.Proofs.BCH
