import Iota.Proofs.BCH.Data
/-! Certificate chunk (generated): outer rows `50 ≤ i < 57`. -/
namespace Iota.Proofs.BCH

theorem pairs_ok_13 : checkPairs tbl mask1 mask2 tree 50 7 = true := by decide +kernel

end Iota.Proofs.BCH
