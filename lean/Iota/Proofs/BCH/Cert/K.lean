import Iota.Proofs.BCH.Data
/-! Certificate: the generated table and tree are what they claim to be. -/
namespace Iota.Proofs.BCH

theorem tbl_ok : tbl = expectedTbl 88 := by decide +kernel

theorem keys_ok : checkKeys tbl mask1 mask2 tree = true := by decide +kernel

theorem lookup_zero : lookup tree 0 = 0 := by decide +kernel

end Iota.Proofs.BCH
