import Iota.Proofs.BCH.Lift
import Iota.Proofs.BCH.Cert.K
import Iota.Proofs.BCH.Cert.P00
import Iota.Proofs.BCH.Cert.P01
import Iota.Proofs.BCH.Cert.P02
import Iota.Proofs.BCH.Cert.P03
import Iota.Proofs.BCH.Cert.P04
import Iota.Proofs.BCH.Cert.P05
import Iota.Proofs.BCH.Cert.P06
import Iota.Proofs.BCH.Cert.P07
import Iota.Proofs.BCH.Cert.P08
import Iota.Proofs.BCH.Cert.P09
import Iota.Proofs.BCH.Cert.P10
import Iota.Proofs.BCH.Cert.P11
import Iota.Proofs.BCH.Cert.P12
import Iota.Proofs.BCH.Cert.P13
import Iota.Proofs.BCH.Cert.P14
import Iota.Proofs.BCH.Cert.P15
/-! The assembled finite certificate. -/
namespace Iota.Proofs.BCH

theorem pairs_ok (i j : Nat) (hij : i < j) (hj : j < 88) (x : Nat) (hx : x ∈ tbl.getD i [])
    (y : Nat) (hy : y ∈ tbl.getD j []) : miss mask1 mask2 tree ((x ^^^ y) >>> 5) = true := by
  if h0 : i < 3 then
    exact checkPairs_spec pairs_ok_00 i (by omega) (by omega) j hij hj x hx y hy
  else
  if h1 : i < 6 then
    exact checkPairs_spec pairs_ok_01 i (by omega) (by omega) j hij hj x hx y hy
  else
  if h2 : i < 9 then
    exact checkPairs_spec pairs_ok_02 i (by omega) (by omega) j hij hj x hx y hy
  else
  if h3 : i < 12 then
    exact checkPairs_spec pairs_ok_03 i (by omega) (by omega) j hij hj x hx y hy
  else
  if h4 : i < 15 then
    exact checkPairs_spec pairs_ok_04 i (by omega) (by omega) j hij hj x hx y hy
  else
  if h5 : i < 19 then
    exact checkPairs_spec pairs_ok_05 i (by omega) (by omega) j hij hj x hx y hy
  else
  if h6 : i < 22 then
    exact checkPairs_spec pairs_ok_06 i (by omega) (by omega) j hij hj x hx y hy
  else
  if h7 : i < 26 then
    exact checkPairs_spec pairs_ok_07 i (by omega) (by omega) j hij hj x hx y hy
  else
  if h8 : i < 30 then
    exact checkPairs_spec pairs_ok_08 i (by omega) (by omega) j hij hj x hx y hy
  else
  if h9 : i < 34 then
    exact checkPairs_spec pairs_ok_09 i (by omega) (by omega) j hij hj x hx y hy
  else
  if h10 : i < 39 then
    exact checkPairs_spec pairs_ok_10 i (by omega) (by omega) j hij hj x hx y hy
  else
  if h11 : i < 44 then
    exact checkPairs_spec pairs_ok_11 i (by omega) (by omega) j hij hj x hx y hy
  else
  if h12 : i < 50 then
    exact checkPairs_spec pairs_ok_12 i (by omega) (by omega) j hij hj x hx y hy
  else
  if h13 : i < 57 then
    exact checkPairs_spec pairs_ok_13 i (by omega) (by omega) j hij hj x hx y hy
  else
  if h14 : i < 66 then
    exact checkPairs_spec pairs_ok_14 i (by omega) (by omega) j hij hj x hx y hy
  else
  if h15 : i < 87 then
    exact checkPairs_spec pairs_ok_15 i (by omega) (by omega) j hij hj x hx y hy
  else
  omega

end Iota.Proofs.BCH
