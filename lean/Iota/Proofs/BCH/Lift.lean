import Iota.Proofs.BCH.Defs
/-! Meaning of the check functions of `Defs`. -/
namespace Iota.Proofs.BCH

theorem checkKeys_spec {T : List (List Nat)} {m1 m2 : Nat} {t : Tr}
    (h : checkKeys T m1 m2 t = true) (m : Nat) (hm1 : 1 ≤ m) (hm2 : m ≤ 88) (b : Nat)
    (hb1 : 1 ≤ b) (hb2 : b ≤ 31) :
    hit m1 m2 t ((T.getD (m - 1) []).getD (b - 1) 0 >>> 5) (32 * m + b) = true := by
  simp only [checkKeys, List.all_eq_true, List.mem_range'_1, forceL_eq, force_eq] at h
  exact h m ⟨hm1, by omega⟩ b ⟨hb1, by omega⟩

theorem checkPairs_spec {T : List (List Nat)} {m1 m2 : Nat} {t : Tr} {a n : Nat}
    (h : checkPairs T m1 m2 t a n = true) (i : Nat) (hi1 : a ≤ i) (hi2 : i < a + n) (j : Nat)
    (hij : i < j) (hj : j < 88) (x : Nat) (hx : x ∈ T.getD i []) (y : Nat)
    (hy : y ∈ T.getD j []) : miss m1 m2 t ((x ^^^ y) >>> 5) = true := by
  simp only [checkPairs, List.all_eq_true, List.mem_range'_1, forceL_eq, allR_eq] at h
  exact h i ⟨hi1, hi2⟩ j ⟨by omega, by omega⟩ x hx y hy

theorem expectedTbl_row (i : Nat) (hi : i < 88) :
    (expectedTbl 88).getD i [] = (List.range' 1 31).map fun b => Xn (i + 1) b := by
  simp [expectedTbl, List.getD_eq_getElem?_getD, hi,
    XnK_eq, Nat.add_comm]

theorem expectedTbl_mem (i : Nat) (hi : i < 88) (b : Nat) (hb1 : 1 ≤ b) (hb2 : b ≤ 31) :
    Xn (i + 1) b ∈ (expectedTbl 88).getD i [] := by
  rw [expectedTbl_row i hi]
  exact List.mem_map.mpr ⟨b, List.mem_range'_1.mpr ⟨hb1, by omega⟩, rfl⟩

theorem expectedTbl_entry (m : Nat) (hm1 : 1 ≤ m) (hm2 : m ≤ 88) (b : Nat) (hb1 : 1 ≤ b)
    (hb2 : b ≤ 31) : ((expectedTbl 88).getD (m - 1) []).getD (b - 1) 0 = Xn m b := by
  rw [expectedTbl_row (m - 1) (by omega)]
  have hm : m - 1 + 1 = m := by omega
  have hb : b - 1 < 31 := by omega
  have hb' : 1 + (b - 1) = b := by omega
  simp [List.getD_eq_getElem?_getD, hm, hb, hb']

end Iota.Proofs.BCH
