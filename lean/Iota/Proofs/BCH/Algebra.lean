import Iota.Proofs.BCH.Defs
/-!
GF(2)-linear algebra of `polymodStep`: additivity, bounds, injectivity of the shift, and the
reduction of `polymod v'` to the syndrome of the error word.
-/
namespace Iota.Proofs.BCH
open Iota.Bech32

theorem xor_cancel (a b : Nat) : a ^^^ (a ^^^ b) = b := by
  rw [← Nat.xor_assoc, Nat.xor_self, Nat.zero_xor]

theorem eq_of_xor_eq_zero {a b : Nat} (h : a ^^^ b = 0) : a = b := by
  have := xor_cancel a b
  rw [h, Nat.xor_zero] at this
  exact this

theorem genMix_xor : ∀ p < 32, ∀ q < 32, genMix (p ^^^ q) = genMix p ^^^ genMix q := by
  decide +kernel

theorem genMix_low : ∀ p < 32, genMix p % 32 = 0 → p = 0 := by decide +kernel

theorem genMix_zero : genMix 0 = 0 := by decide

theorem genMix_lt (b : Nat) : genMix b < 2 ^ 30 := by
  unfold genMix
  have h : ∀ (c : Prop) [Decidable c] (i : Nat), i < 5 → (if c then gen.getD i 0 else 0) < 2 ^ 30 := by
    intro c _ i hi
    split
    · have : ∀ i < 5, gen.getD i 0 < 2 ^ 30 := by decide
      exact this i hi
    · exact Nat.two_pow_pos 30
  exact Nat.xor_lt_two_pow (Nat.xor_lt_two_pow (Nat.xor_lt_two_pow (Nat.xor_lt_two_pow
    (h _ 0 (by decide)) (h _ 1 (by decide))) (h _ 2 (by decide))) (h _ 3 (by decide)))
    (h _ 4 (by decide))

theorem XN_def (c : Nat) : XN c = (c % 2 ^ 25) * 32 ^^^ genMix (c / 2 ^ 25) := by
  unfold XN
  have : (0x1ffffff : Nat) = 2 ^ 25 - 1 := by decide
  rw [this, Nat.and_two_pow_sub_one_eq_mod, Nat.shiftLeft_eq, Nat.shiftRight_eq_div_pow]

theorem XN_lt (c : Nat) : XN c < 2 ^ 30 := by
  rw [XN_def]
  refine Nat.xor_lt_two_pow ?_ (genMix_lt _)
  have := Nat.mod_lt c (Nat.two_pow_pos 25)
  omega

theorem XN_zero : XN 0 = 0 := by decide

theorem XN_xor (a b : Nat) (ha : a < 2 ^ 30) (hb : b < 2 ^ 30) :
    XN (a ^^^ b) = XN a ^^^ XN b := by
  unfold XN
  have h1 : a >>> 25 < 32 := by rw [Nat.shiftRight_eq_div_pow]; omega
  have h2 : b >>> 25 < 32 := by rw [Nat.shiftRight_eq_div_pow]; omega
  rw [Nat.shiftRight_xor_distrib, genMix_xor _ h1 _ h2, Nat.and_xor_distrib_right,
    Nat.shiftLeft_xor_distrib]
  ac_rfl

theorem XN_inj0 (c : Nat) (hc : c < 2 ^ 30) (h : XN c = 0) : c = 0 := by
  rw [XN_def] at h
  have h := eq_of_xor_eq_zero h
  have hp : c / 2 ^ 25 < 32 := by omega
  have h0 : c / 2 ^ 25 = 0 := genMix_low _ hp (by omega)
  rw [h0, genMix_zero] at h
  omega

theorem polymodStep_eq (c : Nat) (v : UInt8) : polymodStep c v = XN c ^^^ v.toNat := by
  unfold polymodStep XN
  ac_rfl

theorem polymodStep_lt (c : Nat) (v : UInt8) : polymodStep c v < 2 ^ 30 := by
  rw [polymodStep_eq]
  refine Nat.xor_lt_two_pow (XN_lt c) ?_
  have := v.toNat_lt
  omega

theorem polymodStep_xor (a b : Nat) (x y : UInt8) (ha : a < 2 ^ 30) (hb : b < 2 ^ 30) :
    polymodStep (a ^^^ b) (x ^^^ y) = polymodStep a x ^^^ polymodStep b y := by
  rw [polymodStep_eq, polymodStep_eq, polymodStep_eq, XN_xor a b ha hb, UInt8.toNat_xor]
  ac_rfl

/-! ### iterated shift -/

theorem Xn_lt (k c : Nat) (hc : c < 2 ^ 30) : Xn k c < 2 ^ 30 := by
  cases k with
  | zero => exact hc
  | succ k => exact XN_lt _

theorem Xn_zero (k : Nat) : Xn k 0 = 0 := by
  induction k with
  | zero => rfl
  | succ k ih => rw [Xn, ih, XN_zero]

theorem Xn_xor (k a b : Nat) (ha : a < 2 ^ 30) (hb : b < 2 ^ 30) :
    Xn k (a ^^^ b) = Xn k a ^^^ Xn k b := by
  induction k with
  | zero => rfl
  | succ k ih => rw [Xn, ih, XN_xor _ _ (Xn_lt k a ha) (Xn_lt k b hb)]; rfl

theorem Xn_inj0 (k c : Nat) (hc : c < 2 ^ 30) (h : Xn k c = 0) : c = 0 := by
  induction k with
  | zero => exact h
  | succ k ih => exact ih (XN_inj0 _ (Xn_lt k c hc) h)

theorem Xn_add (k l c : Nat) : Xn (k + l) c = Xn k (Xn l c) := by
  induction k with
  | zero => rw [Nat.zero_add]; rfl
  | succ k ih => rw [Nat.succ_add, Xn, ih]; rfl

/-! ### the syndrome of a reversed word -/

/-- syndrome of the word whose symbols are listed last-first. -/
def Lr (r : List UInt8) : Nat := r.foldr (fun v acc => polymodStep acc v) 0

theorem Lr_nil : Lr [] = 0 := rfl

theorem Lr_cons (a : UInt8) (r : List UInt8) : Lr (a :: r) = XN (Lr r) ^^^ a.toNat := by
  show polymodStep (Lr r) a = _
  rw [polymodStep_eq]

theorem Lr_lt (r : List UInt8) : Lr r < 2 ^ 30 := by
  cases r with
  | nil => exact Nat.two_pow_pos 30
  | cons a r => exact polymodStep_lt _ _

theorem Lr_zeros_append (k : Nat) (r : List UInt8) :
    Lr (List.replicate k 0 ++ r) = Xn k (Lr r) := by
  induction k with
  | zero => rfl
  | succ k ih =>
    rw [List.replicate_succ, List.cons_append, Lr_cons, ih]
    show XN (Xn k (Lr r)) ^^^ 0 = _
    rw [Nat.xor_zero]; rfl

theorem Lr_allzero (r : List UInt8) (h : ∀ x ∈ r, x = 0) : Lr r = 0 := by
  induction r with
  | nil => rfl
  | cons a r ih =>
    rw [Lr_cons, ih (fun x hx => h x (List.mem_cons_of_mem _ hx)), h a List.mem_cons_self, XN_zero]
    rfl

theorem Lr_append_allzero (r z : List UInt8) (hz : ∀ x ∈ z, x = 0) : Lr (r ++ z) = Lr r := by
  induction r with
  | nil => exact Lr_allzero z hz
  | cons a r ih => rw [List.cons_append, Lr_cons, Lr_cons, ih]

/-! ### `polymod` is affine -/

theorem foldl_polymodStep_lt (v : List UInt8) (a : Nat) (ha : a < 2 ^ 30) :
    v.foldl polymodStep a < 2 ^ 30 := by
  induction v generalizing a with
  | nil => exact ha
  | cons x v ih => exact ih _ (polymodStep_lt _ _)

theorem foldl_xor (v e : List UInt8) (hlen : v.length = e.length) (a b : Nat)
    (ha : a < 2 ^ 30) (hb : b < 2 ^ 30) :
    (List.zipWith (· ^^^ ·) v e).foldl polymodStep (a ^^^ b) =
      v.foldl polymodStep a ^^^ e.foldl polymodStep b := by
  induction v generalizing e a b with
  | nil =>
    cases e with
    | nil => rfl
    | cons y e => simp at hlen
  | cons x v ih =>
    cases e with
    | nil => simp at hlen
    | cons y e =>
      simp only [List.zipWith_cons_cons, List.foldl_cons]
      rw [polymodStep_xor a b x y ha hb]
      exact ih e (by simpa using hlen) _ _ (polymodStep_lt _ _) (polymodStep_lt _ _)

theorem uint8_xor_cancel (x y : UInt8) : x ^^^ (x ^^^ y) = y := by
  apply UInt8.toNat_inj.mp
  rw [UInt8.toNat_xor, UInt8.toNat_xor, xor_cancel]

theorem zipWith_xor_cancel (v v' : List UInt8) (hlen : v.length = v'.length) :
    List.zipWith (· ^^^ ·) v (List.zipWith (· ^^^ ·) v v') = v' := by
  induction v generalizing v' with
  | nil =>
    cases v' with
    | nil => rfl
    | cons y e => simp at hlen
  | cons x v ih =>
    cases v' with
    | nil => simp at hlen
    | cons y v' =>
      simp only [List.zipWith_cons_cons, uint8_xor_cancel]
      rw [ih v' (by simpa using hlen)]

theorem foldl_eq_Lr (e : List UInt8) : e.foldl polymodStep 0 = Lr e.reverse := by
  unfold Lr
  rw [List.foldr_reverse]

/-- the checksum of the corrupted word is the checksum of the original XOR the syndrome of the
error word. -/
theorem polymod_xor (v v' : List UInt8) (hlen : v.length = v'.length) :
    polymod v' = polymod v ^^^ Lr (List.zipWith (· ^^^ ·) v v').reverse := by
  have h := foldl_xor v (List.zipWith (· ^^^ ·) v v') (by simp [hlen]) 1 0 (by decide) (by decide)
  rw [zipWith_xor_cancel v v' hlen, foldl_eq_Lr] at h
  exact h

end Iota.Proofs.BCH
