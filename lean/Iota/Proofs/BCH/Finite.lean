import Iota.Proofs.BCH.Cert
import Iota.Proofs.BCH.Algebra
/-!
The finite core, read off the certificate: no XOR of one, two or three shifted nonzero symbols at
distinct distances `1..88` has all of its upper 25 bits zero.
-/
namespace Iota.Proofs.BCH

theorem key_hit (m : Nat) (hm1 : 1 ≤ m) (hm2 : m ≤ 88) (b : Nat) (hb1 : 1 ≤ b) (hb2 : b < 32) :
    hit mask1 mask2 tree (Xn m b >>> 5) (32 * m + b) = true := by
  have h := checkKeys_spec keys_ok m hm1 hm2 b hb1 (by omega)
  rw [tbl_ok, expectedTbl_entry m hm1 hm2 b hb1 (by omega)] at h
  exact h

theorem key_lookup (m : Nat) (hm1 : 1 ≤ m) (hm2 : m ≤ 88) (b : Nat) (hb1 : 1 ≤ b) (hb2 : b < 32) :
    lookup tree (Xn m b >>> 5) = 32 * m + b := by
  have h := key_hit m hm1 hm2 b hb1 hb2
  simp only [hit, Bool.and_eq_true] at h
  exact Nat.eq_of_beq_eq_true h.2

theorem K1 (m : Nat) (hm1 : 1 ≤ m) (hm2 : m ≤ 88) (b : Nat) (hb1 : 1 ≤ b) (hb2 : b < 32) :
    Xn m b >>> 5 ≠ 0 := by
  intro h
  have := key_lookup m hm1 hm2 b hb1 hb2
  rw [h, lookup_zero] at this
  omega

theorem K2 (m i : Nat) (hm1 : 1 ≤ m) (hmi : m < i) (hi : i ≤ 88) (b c : Nat) (hb1 : 1 ≤ b)
    (hb2 : b < 32) (hc1 : 1 ≤ c) (hc2 : c < 32) : (Xn m b ^^^ Xn i c) >>> 5 ≠ 0 := by
  intro h
  rw [Nat.shiftRight_xor_distrib] at h
  have h := eq_of_xor_eq_zero h
  have e1 := key_lookup m hm1 (by omega) b hb1 hb2
  have e2 := key_lookup i (by omega) hi c hc1 hc2
  rw [h, e2] at e1
  omega

theorem K3 (m i j : Nat) (hm1 : 1 ≤ m) (hmi : m < i) (hij : i < j) (hj : j ≤ 88) (b c d : Nat)
    (hb1 : 1 ≤ b) (hb2 : b < 32) (hc1 : 1 ≤ c) (hc2 : c < 32) (hd1 : 1 ≤ d) (hd2 : d < 32) :
    (Xn m b ^^^ (Xn i c ^^^ Xn j d)) >>> 5 ≠ 0 := by
  intro h
  rw [Nat.shiftRight_xor_distrib] at h
  have h := eq_of_xor_eq_zero h
  have e1 := miss_of_hit (by omega) (key_hit m hm1 (by omega) b hb1 hb2)
  have hx : Xn (i - 1 + 1) c ∈ tbl.getD (i - 1) [] := by
    rw [tbl_ok]; exact expectedTbl_mem (i - 1) (by omega) c hc1 (by omega)
  have hy : Xn (j - 1 + 1) d ∈ tbl.getD (j - 1) [] := by
    rw [tbl_ok]; exact expectedTbl_mem (j - 1) (by omega) d hd1 (by omega)
  have e2 := pairs_ok (i - 1) (j - 1) (by omega) (by omega) _ hx _ hy
  rw [show i - 1 + 1 = i by omega, show j - 1 + 1 = j by omega, ← h, e1] at e2
  exact Bool.noConfusion e2

end Iota.Proofs.BCH
