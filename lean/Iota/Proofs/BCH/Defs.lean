import Iota.Model.Bech32
/-!
Definitions for the finite certificate behind `bch_detects`: the Nat-level step map `XN`,
a search tree with payloads, and the kernel-evaluable check functions.
-/
namespace Iota.Proofs.BCH
open Iota.Bech32

/-- `polymodStep · 0` on `Nat`. -/
def XN (c : Nat) : Nat := ((c &&& 0x1ffffff) <<< 5) ^^^ genMix (c >>> 25)

/-- `XN` iterated. -/
def Xn : Nat → Nat → Nat
  | 0, c => c
  | k + 1, c => XN (Xn k c)

/-- force a `Nat` to a literal before continuing (keeps kernel evaluation linear). -/
@[inline] def force {α : Sort _} (x : Nat) (k : Nat → α) : α :=
  match x with
  | 0 => k 0
  | n + 1 => k (n + 1)

theorem force_eq {α : Sort _} (x : Nat) (k : Nat → α) : force x k = k x := by
  cases x <;> rfl

/-- `Xn`, kernel-friendly. -/
def XnK : Nat → Nat → Nat
  | 0, c => c
  | k + 1, c => force (XnK k c) XN

theorem XnK_eq (k c : Nat) : XnK k c = Xn k c := by
  induction k with
  | zero => rfl
  | succ k ih => simp [XnK, Xn, force_eq, ih]

/-- the table `m ↦ b ↦ Xn m b` for `m = 1..rows`, `b = 1..31`. -/
def expectedTbl (rows : Nat) : List (List Nat) :=
  (List.range' 1 rows).map fun m => (List.range' 1 31).map fun b => XnK m b

/-- search tree with payloads -/
inductive Tr
  | leaf
  | node (l : Tr) (k v : Nat) (r : Tr)

/-- payload stored under key `x`, `0` if absent. -/
def lookup : Tr → Nat → Nat
  | .leaf, _ => 0
  | .node l k v r, x =>
    bif Nat.blt x k then lookup l x else bif Nat.blt k x then lookup r x else v

/-- force a list to weak head normal form. -/
@[inline] def forceL {α : Sort _} {β : Type _} (l : List β) (k : List β → α) : α :=
  match l with
  | [] => k []
  | a :: as => k (a :: as)

theorem forceL_eq {α : Sort _} {β : Type _} (l : List β) (k : List β → α) : forceL l k = k l := by
  cases l <;> rfl

/-- `List.all` through the recursor (cheaper for the kernel than the compiled structural
recursion). -/
noncomputable def allR (l : List Nat) (p : Nat → Bool) : Bool :=
  List.rec true (fun h _ ih => cond (p h) ih false) l

theorem allR_eq (l : List Nat) (p : Nat → Bool) : allR l p = l.all p := by
  induction l with
  | nil => rfl
  | cons a l ih =>
    show cond (p a) (allR l p) false = _
    rw [ih]; cases h : p a <;> simp [h]

/-- bit `i` of the bit set `m` is clear -/
def clearAt (m i : Nat) : Bool := Nat.beq (Nat.land (Nat.shiftRight m i) 1) 0

/-- `key` is certainly not stored: one of the two bit-set filters is clear at its hash, or the
tree has no entry. -/
def miss (m1 m2 : Nat) (t : Tr) (key : Nat) : Bool :=
  cond (clearAt m1 (Nat.mod key 32749)) true
    (cond (clearAt m2 (Nat.mod key 32719)) true
      (force key fun k => Nat.beq (lookup t k) 0))

/-- `key` is stored with payload `v` and passes both filters. -/
def hit (m1 m2 : Nat) (t : Tr) (key v : Nat) : Bool :=
  !clearAt m1 (Nat.mod key 32749) && !clearAt m2 (Nat.mod key 32719) && Nat.beq (lookup t key) v

theorem miss_of_hit {m1 m2 t key v} (hv : v ≠ 0) (h : hit m1 m2 t key v = true) :
    miss m1 m2 t key = false := by
  simp only [hit, Bool.and_eq_true, Bool.not_eq_eq_eq_not, Bool.not_true] at h
  obtain ⟨⟨h1, h2⟩, h3⟩ := h
  have h3 := Nat.eq_of_beq_eq_true h3
  simp only [miss, h1, h2, cond_false, force_eq, h3]
  cases v with
  | zero => exact absurd rfl hv
  | succ v => rfl

/-- every key of the table is stored in the tree with payload `32 * m + b`. -/
def checkKeys (T : List (List Nat)) (m1 m2 : Nat) (t : Tr) : Bool :=
  (List.range' 1 88).all fun m =>
    forceL (T.getD (m - 1) []) fun row =>
      (List.range' 1 31).all fun b =>
        force (row.getD (b - 1) 0 >>> 5) fun key => hit m1 m2 t key (32 * m + b)

/-- no XOR of two table entries from rows `i < j`, `a ≤ i < a + n`, has its key in the tree. -/
noncomputable def checkPairs (T : List (List Nat)) (m1 m2 : Nat) (t : Tr) (a n : Nat) : Bool :=
  (List.range' a n).all fun i =>
    forceL (T.getD i []) fun ri =>
      (List.range' (i + 1) (87 - i)).all fun j =>
        forceL (T.getD j []) fun rj =>
          allR ri fun x => allR rj fun y => miss m1 m2 t (Nat.shiftRight (Nat.xor x y) 5)

end Iota.Proofs.BCH
