/-
Generator for `Iota/Proofs/BCH/Data.lean` (table, bit-set filters, search tree).  Not imported by
anything; run from the lake root with `lake env lean --run Iota/Proofs/BCH/GenData.lean`.
Nothing here is trusted: `Cert/K.lean` re-checks the generated data by kernel evaluation.
-/
import Iota.Proofs.BCH.Defs
open Iota.Proofs.BCH Iota.Bech32

partial def build (a : Array (Nat × Nat)) (lo hi : Nat) : String :=
  if lo ≥ hi then "L" else
    let mid := (lo + hi) / 2
    let (k, v) := a[mid]!
    s!"(N {build a lo mid} {k} {v} {build a (mid+1) hi})"

def main : IO Unit := do
  let tbl := expectedTbl 88
  let mut s := "import Iota.Proofs.BCH.Defs\nnamespace Iota.Proofs.BCH\nset_option maxRecDepth 100000\n\n/-- `tbl[m-1][b-1] = Xn m b`, generated. -/\ndef tbl : List (List Nat) := [\n"
  let rows := tbl.map fun r => "  [" ++ ", ".intercalate (r.map toString) ++ "]"
  s := s ++ ",\n".intercalate rows ++ "]\n\n"
  let mut keys : Array (Nat × Nat) := #[]
  for m in [1:89] do
    for b in [1:32] do
      keys := keys.push ((tbl.getD (m-1) []).getD (b-1) 0 >>> 5, 32*m+b)
  let sorted := keys.qsort (fun x y => x.1 < y.1)
  -- sanity: strictly increasing
  for i in [1:sorted.size] do
    if sorted[i-1]!.1 ≥ sorted[i]!.1 then IO.eprintln s!"DUP at {i}"
  let mut m1 : Nat := 0
  let mut m2 : Nat := 0
  for (k, _) in sorted do
    m1 := m1 ||| (1 <<< (k % 32749))
    m2 := m2 ||| (1 <<< (k % 32719))
  s := s ++ s!"/-- bit set of the keys' residues mod 32749, generated. -/\ndef mask1 : Nat := {m1}\n\n/-- bit set of the keys' residues mod 32719, generated. -/\ndef mask2 : Nat := {m2}\n\n"
  s := s ++ "local notation \"L\" => Tr.leaf\nlocal notation \"N\" => Tr.node\n\n/-- balanced search tree over the keys `Xn m b >>> 5` with payload `32 m + b`, generated. -/\ndef tree : Tr :=\n  " ++ build sorted 0 sorted.size ++ "\n\nend Iota.Proofs.BCH\n"
  IO.FS.writeFile "Iota/Proofs/BCH/Data.lean" s
