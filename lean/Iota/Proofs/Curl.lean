/-
C06 Curl-P-81 (batched, bit-sliced): proofs.
  Walk       one round of the Go loop = closed form `roundW`, no out-of-range access
  Transform  T1: `transformGeneric` = `roundsW 81` (round 80 left in the from-buffers)
  Lanes      T2: every lane of `roundW` is the truth-table round (valid encodings) / the `fPair`
             round (arbitrary words); `Curl.transform` vs `Spec.CurlP.transform`
  Sponge     T3: init / absorb / squeeze simulate 64 independent specification sponges; error cases
  History    T3: every well-formed history; lane independence
-/
import Iota.Proofs.Curl.Walk
import Iota.Proofs.Curl.Transform
import Iota.Proofs.Curl.Lanes
import Iota.Proofs.Curl.Sponge
import Iota.Proofs.Curl.History
