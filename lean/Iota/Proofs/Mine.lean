/-
Concurrency of `Mine` (pkg/pow/worker.go, pkg/pow/v2/worker.go): proofs about the transition system
`Iota.Model.Mine`, for every worker count `W ≥ 1` and every reachable state, i.e. every
interleaving of main, the watcher, the `W` workers and the environment's `cancel`, and every batch
outcome.
  Basic        classifiers of program counters, counting under `List.set`, `Reachable` induction
  Inv          M0 the inductive invariant `Inv W s`: `Inv_init`, `Inv_step`, `Inv_of_reachable`
  Safety       M1 a finder never blocks; M2 `ErrCancelled` only after cancellation; M3 a returned nonce
               was found by a worker; M4 no deadlock; M5 nothing left behind at return
  Termination  M6 `measure`, strict decrease once the flag is set or main is past `wg.Wait()`,
               linear bound, run-length bound, cancellation honoured
  Examples     M7 explicit runs for `W = 2`
This file collects the headline statements.
-/
import Iota.Proofs.Mine.Basic
import Iota.Proofs.Mine.Inv
import Iota.Proofs.Mine.Safety
import Iota.Proofs.Mine.Termination
import Iota.Proofs.Mine.Examples

namespace Iota.Proofs.Mine
open Iota.Mine

/-- **M0** -/
theorem M0_invariant {W : Nat} (hW : 1 ≤ W) :
    Inv W (init W) ∧ (∀ s l s', Inv W s → step W s l = some s' → Inv W s') ∧
    (∀ s, Reachable W s → Inv W s) :=
  ⟨Inv_init W, fun _ _ _ hI h => Inv_step hW hI h, fun _ h => Inv_of_reachable hW h⟩

/-- **M1** -/
theorem M1 {W : Nat} (hW : 1 ≤ W) {s : State} (h : Reachable W s) {i n : Nat} (hi : i < W)
    (hw : s.workers.getD i .idle = .send n) :
    (s.results.length < W ∧ s.resultsClosed = false) ∧ ∀ o, ∃ s', step W s (.worker i o) = some s' :=
  ⟨M1_send_never_blocks hW h hi hw, M1_send_enabled hW h hi hw⟩

/-- **M2** -/
theorem M2 {W : Nat} (hW : 1 ≤ W) {s : State} (h : Reachable W s) (hm : s.main = .returned none) :
    s.ctx = true := M2_cancelled_only_after_cancel hW h hm

/-- **M3** -/
theorem M3 {W : Nat} (hW : 1 ≤ W) {s : State} (h : Reachable W s) {n : Nat}
    (hm : s.main = .returned (some n)) : n ∈ s.founds := M3_returned_nonce_found hW h hm

/-- **M4** -/
theorem M4 {W : Nat} (hW : 1 ≤ W) {s : State} (h : Reachable W s) (hr : ∀ r, s.main ≠ .returned r) :
    ∃ l s', l ≠ .cancel ∧ step W s l = some s' := M4_no_deadlock hW h hr

/-- **M5** -/
theorem M5 {W : Nat} (hW : 1 ≤ W) {s : State} (h : Reachable W s) {r : Option Nat}
    (hm : s.main = .returned r) :
    (∀ i, i < W → ∃ b, s.workers.getD i .idle = .exited b) ∧ s.wg = 0 ∧ s.closingClosed = true ∧
    (s.watcher = .exited ∨
      (s.watcher = .select ∧ ∃ s', step W s .watcherClosing = some s' ∧ s'.watcher = .exited) ∨
      (s.watcher = .store ∧ ∃ s', step W s .watcherStore = some s' ∧ s'.watcher = .exited)) :=
  M5_nothing_left_behind hW h hm

/-- **M6** (a), (b), (c) and the resulting bound on the number of thread steps of any run from a
state with the flag set or main past `wg.Wait()`. -/
theorem M6_abc {W : Nat} (hW : 1 ≤ W) {s : State} (h : Reachable W s) :
    (s.done = true → ∀ l s', l ≠ .cancel → step W s l = some s' → measure W s' < measure W s) ∧
    (s.main = .closeResults ∨ s.main = .closeClosing ∨ s.main = .recv →
      ∀ l s', l ≠ .cancel → step W s l = some s' → measure W s' < measure W s) ∧
    measure W s ≤ 5 * W + 9 ∧
    (s.done = true ∨ pastWait s.main = true → ∀ ls s', run W s ls = some s' →
      (ls.filter (fun l => l ≠ .cancel)).length + measure W s' ≤ measure W s) :=
  ⟨fun hd _ _ hl hs => M6a_decrease_done hW h hd hl hs,
   fun hm _ _ hl hs => M6b_decrease_pastWait hW h hm hl hs,
   M6c_measure_bound hW h,
   fun hd ls _ hr => M6e_run_bound hW ls h hd hr⟩

/-- **M6** (d) -/
theorem M6_d {W : Nat} (hW : 1 ≤ W) {s : State} (h : Reachable W s)
    (hc : s.ctx = true) (hd : s.done = false) (hr : ∀ r, s.main ≠ .returned r) :
    (s.watcher = .select ∧ ∃ s', step W s .watcherCtx = some s' ∧ s'.watcher = .store) ∨
    (s.watcher = .store ∧ ∃ s', step W s .watcherStore = some s' ∧ s'.done = true) ∨
    (s.main = .start ∧ ∃ s', step W s .main = some s' ∧ s'.watcher = .select) ∨
    (s.main = .recv ∧ s.watcher = .exited ∧ s.closingClosed = true) :=
  M6d_cancel_honoured hW h hc hd hr

end Iota.Proofs.Mine
