/-
E1 (C01): `Ed25519.verify` accepts exactly the ZIP-215 set.
-/
import Iota.Proofs.Ed.Lawful

namespace Iota.Proofs.Ed
open Iota.Edwards (Bytes leNat leBytes L)
open Iota.Ed25519

variable {G : Type} [AddCommGroup G] {lib : EdLib G}

/-- the hash scalar `k = SHA-512(R ‖ A ‖ M) mod L` used by `verify` -/
def hramScalar (lib : EdLib G) (pk msg sig : Bytes) : ℕ :=
  uniformScalar (lib.sha512 (sig.take 32 ++ pk ++ msg))

/-- the unreduced hash integer `SHA-512(R ‖ A ‖ M)` -/
def hramInt (lib : EdLib G) (pk msg sig : Bytes) : ℕ :=
  leNat (lib.sha512 (sig.take 32 ++ pk ++ msg))

/-- the ZIP-215 batch-compatible verification equation `[8][S]B = [8]R + [8][k]A`. -/
def Zip215Eq (lib : EdLib G) (S k : ℕ) (A R : G) : Prop :=
  (8 : ℕ) • (S • lib.base) = (8 : ℕ) • R + (8 : ℕ) • (k • A)

/-- the ZIP-215 acceptance set: 64-byte signature, canonical `S`, both points decodable
(permissively), cofactored equation. -/
def Zip215 (lib : EdLib G) (pk msg sig : Bytes) : Prop :=
  sig.length = 64 ∧ leNat (sig.drop 32) < L ∧
    ∃ A R, lib.decode pk = some A ∧ lib.decode (sig.take 32) = some R ∧
      (8 : ℕ) • (leNat (sig.drop 32) • lib.base) =
        (8 : ℕ) • R + (8 : ℕ) • (uniformScalar (lib.sha512 (sig.take 32 ++ pk ++ msg)) • A)

/-! ### the pre-check on the top three bits of `S` -/

theorem uint8_and_224 (x : UInt8) (h : x.toNat < 32) : x &&& 224 = 0 := by
  apply UInt8.toNat_inj.mp
  rw [UInt8.toNat_and]
  have : ∀ n < 32, n &&& 224 = 0 := by decide
  exact this _ h

theorem uint8_and_224' (x : UInt8) (h : x &&& 224 = 0) : x.toNat < 32 := by
  have h' := congrArg UInt8.toNat h
  rw [UInt8.toNat_and] at h'
  have : ∀ n < 256, n &&& 224 = 0 → n < 32 := by decide +kernel
  exact this _ x.toNat_lt h'

/-- the last byte of a 64-byte signature is the top byte of `S`. -/
theorem leNat_drop32_ge (sig : Bytes) (hlen : sig.length = 64) :
    256 ^ 31 * (sig.getD 63 0).toNat ≤ leNat (sig.drop 32) := by
  have h1 : (sig.drop 32).length = 32 := by simp [hlen]
  rw [leNat_take_add_drop (sig.drop 32) 31 (by omega), List.drop_drop]
  have h2 : sig.drop (32 + 31) = [sig.getD 63 0] := by
    have h63 : 63 < sig.length := by omega
    rw [show 32 + 31 = 63 from rfl, List.drop_eq_getElem_cons h63, List.drop_eq_nil_of_le (by omega)]
    simp [List.getD_eq_getElem?_getD, h63]
  rw [h2, leNat_cons, leNat_nil]
  omega

/-- **pre-check**: `sig[63] & 224 ≠ 0` rejects nothing with canonical `S` (because `L < 2^253`). -/
theorem precheck_of_canonical (sig : Bytes) (hlen : sig.length = 64) (hS : leNat (sig.drop 32) < L) :
    (sig.getD 63 0) &&& 224 = 0 := by
  apply uint8_and_224
  have h1 := leNat_drop32_ge sig hlen
  have h2 := L_lt_253
  omega

/-- what the pre-check does reject: `S ≥ 2^253`. -/
theorem precheck_rejects (sig : Bytes) (hlen : sig.length = 64) (h : (sig.getD 63 0) &&& 224 ≠ 0) :
    2 ^ 253 ≤ leNat (sig.drop 32) := by
  have h1 := leNat_drop32_ge sig hlen
  have h3 : ¬ (sig.getD 63 0).toNat < 32 := fun hlt => h (uint8_and_224 _ hlt)
  omega

/-! ### the group equation -/

/-- the test `[8]([k](−A) + [S]B − R) = 0` performed by the code is the ZIP-215 equation. -/
theorem check_iff (S k : ℕ) (A R : G) :
    (8 : ℕ) • (k • (-A) + S • lib.base + -R) = 0 ↔ Zip215Eq lib S k A R := by
  unfold Zip215Eq
  constructor
  · intro h
    have : (8 : ℕ) • (S • lib.base) =
        (8 : ℕ) • (k • (-A) + S • lib.base + -R) + ((8 : ℕ) • R + (8 : ℕ) • (k • A)) := by
      simp only [smul_add, smul_neg]; abel
    rw [this, h, zero_add]
  · intro h
    have : (8 : ℕ) • (k • (-A) + S • lib.base + -R) =
        (8 : ℕ) • (S • lib.base) - ((8 : ℕ) • R + (8 : ℕ) • (k • A)) := by
      simp only [smul_add, smul_neg]; abel
    rw [this, h, sub_self]

/-- **E1** `verify` returns `some true` exactly on the ZIP-215 set. -/
theorem verify_eq_true_iff (h : Lawful lib) (pk msg sig : Bytes) (hpk : pk.length = 32) :
    verify lib pk msg sig = some true ↔ Zip215 lib pk msg sig := by
  unfold verify Zip215
  rw [if_neg (by simp [hpk])]
  by_cases hlen : sig.length = 64
  swap
  · rw [if_pos (Or.inl hlen)]; simp [hlen]
  by_cases hpre : (sig.getD 63 0) &&& 224 ≠ 0
  · rw [if_pos (Or.inr hpre)]
    have := precheck_rejects sig hlen hpre
    have := L_lt_253
    constructor
    · intro h; simp at h
    · rintro ⟨_, h2, _⟩; omega
  rw [if_neg (by rintro (h | h); exacts [h hlen, hpre h])]
  cases hA : lib.decode pk with
  | none => simp
  | some A =>
    cases hR : lib.decode (sig.take 32) with
    | none => simp
    | some R =>
      simp only
      by_cases hS : leNat (sig.drop 32) ≥ L
      · rw [if_pos hS]
        constructor
        · intro h; simp at h
        · rintro ⟨_, h2, _⟩; omega
      · rw [if_neg hS]
        simp only [Option.some.injEq, h.eq_zero_iff, h.smul_eq, h.add_eq, h.neg_eq]
        rw [check_iff]
        unfold Zip215Eq
        constructor
        · intro heq
          exact ⟨hlen, by omega, A, R, rfl, rfl, heq⟩
        · rintro ⟨_, _, A', R', hA', hR', heq⟩
          cases hA'; cases hR'; exact heq

omit [AddCommGroup G] in
/-- `verify` panics (`none`) exactly on a public key of the wrong length. -/
theorem verify_eq_none_iff (pk msg sig : Bytes) : verify lib pk msg sig = none ↔ pk.length ≠ 32 := by
  unfold verify
  by_cases hpk : pk.length = 32
  · rw [if_neg (by simp [hpk])]
    simp only [hpk, ne_eq, not_true_eq_false, iff_false]
    repeat' split
    all_goals simp
  · simp [hpk]

omit [AddCommGroup G] in
theorem verify_isSome (pk msg sig : Bytes) (hpk : pk.length = 32) :
    ∃ b, verify lib pk msg sig = some b := by
  cases hv : verify lib pk msg sig with
  | none => exact absurd hpk ((verify_eq_none_iff pk msg sig).mp hv)
  | some b => exact ⟨b, rfl⟩

/-- **E1** everything outside the ZIP-215 set is rejected (with `false`, not a panic). -/
theorem verify_eq_false_iff (h : Lawful lib) (pk msg sig : Bytes) (hpk : pk.length = 32) :
    verify lib pk msg sig = some false ↔ ¬ Zip215 lib pk msg sig := by
  rw [← verify_eq_true_iff h pk msg sig hpk]
  obtain ⟨b, hb⟩ := verify_isSome (lib := lib) pk msg sig hpk
  rw [hb]; cases b <;> simp

/-! ### malleability -/

/-- **malleability**: a signature whose second half encodes `S + j·L`, `j ≥ 1`, is rejected. -/
theorem verify_malleable_rejected (h : Lawful lib) (pk msg sig : Bytes) (hpk : pk.length = 32)
    (S j : ℕ) (hj : 1 ≤ j) (hS : leNat (sig.drop 32) = S + j * L) :
    verify lib pk msg sig = some false := by
  rw [verify_eq_false_iff h pk msg sig hpk]
  rintro ⟨_, h2, _⟩
  have : L ≤ j * L := Nat.le_mul_of_pos_left L hj
  omega

/-- so at most one of the signatures `(R, S + j·L)`, `j ≥ 0`, is accepted: the one with `j = 0`. -/
theorem accepted_S_unique (h : Lawful lib) (pk msg sig sig' : Bytes) (hpk : pk.length = 32)
    (h1 : verify lib pk msg sig = some true) (h2 : verify lib pk msg sig' = some true)
    (hmod : leNat (sig.drop 32) % L = leNat (sig'.drop 32) % L) :
    leNat (sig.drop 32) = leNat (sig'.drop 32) := by
  rw [verify_eq_true_iff h _ _ _ hpk] at h1 h2
  rwa [Nat.mod_eq_of_lt h1.2.1, Nat.mod_eq_of_lt h2.2.1] at hmod

/-! ### reduced versus unreduced hash -/

/-- **unreduced hash**: with cofactor 8 the equation may be stated with the 512-bit integer
`SHA-512(R ‖ A ‖ M)` instead of its reduction mod `L`. -/
theorem zip215Eq_unreduced (hc : Cofactor lib) (S n : ℕ) (A R : G) :
    Zip215Eq lib S (n % L) A R ↔ Zip215Eq lib S n A R := by
  unfold Zip215Eq; rw [hc.eight_mod_L]

theorem verify_eq_true_iff_unreduced (h : Lawful lib) (hc : Cofactor lib) (pk msg sig : Bytes)
    (hpk : pk.length = 32) :
    verify lib pk msg sig = some true ↔
      sig.length = 64 ∧ leNat (sig.drop 32) < L ∧
        ∃ A R, lib.decode pk = some A ∧ lib.decode (sig.take 32) = some R ∧
          (8 : ℕ) • (leNat (sig.drop 32) • lib.base) =
            (8 : ℕ) • R + (8 : ℕ) • (leNat (lib.sha512 (sig.take 32 ++ pk ++ msg)) • A) := by
  rw [verify_eq_true_iff h pk msg sig hpk]
  unfold Zip215 uniformScalar
  simp only [hc.eight_mod_L]

/-! ### torsion-insensitivity -/

/-- the equation sees `A` and `R` only through `8•A` and `8•R`. -/
theorem zip215Eq_iff_eight (S k : ℕ) (A R : G) :
    Zip215Eq lib S k A R ↔ (8 : ℕ) • (S • lib.base) = (8 : ℕ) • R + k • ((8 : ℕ) • A) := by
  unfold Zip215Eq; rw [smul_comm 8 k A]

theorem zip215Eq_congr (S k : ℕ) {A A' R R' : G} (hA : (8 : ℕ) • A = (8 : ℕ) • A')
    (hR : (8 : ℕ) • R = (8 : ℕ) • R') : Zip215Eq lib S k A R ↔ Zip215Eq lib S k A' R' := by
  rw [zip215Eq_iff_eight, zip215Eq_iff_eight, hA, hR]

/-- **torsion-insensitivity**: adding 8-torsion points to `A` and to `R` (same `k`) does not change
the equation. -/
theorem zip215Eq_add_torsion (S k : ℕ) (A R T T' : G) (hT : (8 : ℕ) • T = 0) (hT' : (8 : ℕ) • T' = 0) :
    Zip215Eq lib S k (A + T) (R + T') ↔ Zip215Eq lib S k A R :=
  zip215Eq_congr S k (by rw [smul_add, hT, add_zero]) (by rw [smul_add, hT', add_zero])

theorem zip215_iff_of_decode (pk msg sig : Bytes) (A : G) (hA : lib.decode pk = some A) :
    Zip215 lib pk msg sig ↔ sig.length = 64 ∧ leNat (sig.drop 32) < L ∧
      ∃ R, lib.decode (sig.take 32) = some R ∧
        Zip215Eq lib (leNat (sig.drop 32)) (hramScalar lib pk msg sig) A R := by
  unfold Zip215 Zip215Eq hramScalar
  rw [hA]
  simp only [Option.some.injEq, exists_and_left, exists_eq_left']

/-- at the level of `verify`: two keys decoding to `A` and `A + T` with `8•T = 0` get the same verdict
on `(msg, sig)` whenever the hash scalar is the same (it is computed from the key *bytes*). -/
theorem verify_torsion_key (h : Lawful lib) (pk pk' msg sig : Bytes) (hpk : pk.length = 32)
    (hpk' : pk'.length = 32) (A T : G) (hA : lib.decode pk = some A) (hA' : lib.decode pk' = some (A + T))
    (hT : (8 : ℕ) • T = 0) (hk : hramScalar lib pk msg sig = hramScalar lib pk' msg sig) :
    verify lib pk msg sig = some true ↔ verify lib pk' msg sig = some true := by
  rw [verify_eq_true_iff h _ _ _ hpk, verify_eq_true_iff h _ _ _ hpk',
    zip215_iff_of_decode pk msg sig A hA, zip215_iff_of_decode pk' msg sig _ hA', ← hk]
  have key : ∀ R, Zip215Eq lib (leNat (sig.drop 32)) (hramScalar lib pk msg sig) (A + T) R ↔
      Zip215Eq lib (leNat (sig.drop 32)) (hramScalar lib pk msg sig) A R := fun R =>
    zip215Eq_congr _ _ (by rw [smul_add, hT, add_zero]) rfl
  simp only [key]

/-- likewise for the `R` half of the signature: `R` and `R + T'` are interchangeable given the same
hash scalar. -/
theorem verify_torsion_R (h : Lawful lib) (pk msg sig sig' : Bytes) (hpk : pk.length = 32)
    (hlen : sig.length = 64) (hlen' : sig'.length = 64) (hSS : sig.drop 32 = sig'.drop 32)
    (R T' : G) (hR : lib.decode (sig.take 32) = some R) (hR' : lib.decode (sig'.take 32) = some (R + T'))
    (hT' : (8 : ℕ) • T' = 0) (hk : hramScalar lib pk msg sig = hramScalar lib pk msg sig') :
    verify lib pk msg sig = some true ↔ verify lib pk msg sig' = some true := by
  rw [verify_eq_true_iff h _ _ _ hpk, verify_eq_true_iff h _ _ _ hpk]
  cases hA : lib.decode pk with
  | none => simp [Zip215, hA]
  | some A =>
    rw [zip215_iff_of_decode pk msg sig A hA, zip215_iff_of_decode pk msg sig' A hA, ← hk, ← hSS, hR, hR']
    simp only [Option.some.injEq, exists_eq_left', hlen, hlen']
    rw [zip215Eq_congr (lib := lib) _ _ (A := A) (A' := A) (R := R + T') (R' := R) rfl
      (by rw [smul_add, hT', add_zero])]

/-! ### inclusion of the cofactorless (standard-library) check -/

/-- model of `crypto/ed25519.Verify`: decode the key, require canonical `S`, recompute
`R' = [S]B − [k]A` and compare *encodings* with `sig[:32]`. -/
def stdVerify (lib : EdLib G) (pk msg sig : Bytes) : Bool :=
  pk.length == 32 && sig.length == 64 &&
  match lib.decode pk with
  | none => false
  | some A =>
    let k := uniformScalar (lib.sha512 (sig.take 32 ++ pk ++ msg))
    let S := leNat (sig.drop 32)
    decide (S < L) &&
      lib.encode (lib.add (lib.smul k (lib.neg A)) (lib.smul S lib.base)) == sig.take 32

theorem stdVerify_iff (h : Lawful lib) (pk msg sig : Bytes) :
    stdVerify lib pk msg sig = true ↔
      pk.length = 32 ∧ sig.length = 64 ∧ leNat (sig.drop 32) < L ∧ ∃ A, lib.decode pk = some A ∧
        lib.encode (leNat (sig.drop 32) • lib.base - hramScalar lib pk msg sig • A) = sig.take 32 := by
  unfold stdVerify hramScalar
  cases hA : lib.decode pk with
  | none => simp
  | some A =>
    simp only [Bool.and_eq_true, beq_iff_eq, decide_eq_true_eq, h.smul_eq, h.add_eq, h.neg_eq,
      Option.some.injEq, exists_eq_left', and_assoc]
    rw [show ∀ (k S : ℕ), k • (-A) + S • lib.base = S • lib.base - k • A from fun k S => by
      rw [smul_neg]; abel]

/-- **inclusion**: whatever the cofactorless check accepts, `verify` accepts. -/
theorem verify_of_stdVerify (h : Lawful lib) (pk msg sig : Bytes) (hstd : stdVerify lib pk msg sig = true) :
    verify lib pk msg sig = some true := by
  obtain ⟨hpk, hlen, hS, A, hA, henc⟩ := (stdVerify_iff h pk msg sig).mp hstd
  rw [verify_eq_true_iff h pk msg sig hpk]
  refine ⟨hlen, hS, A, leNat (sig.drop 32) • lib.base - hramScalar lib pk msg sig • A, hA, ?_, ?_⟩
  · rw [← henc]; exact h.decode_encode _
  · unfold hramScalar; rw [← smul_add]; congr 1; abel

end Iota.Proofs.Ed
