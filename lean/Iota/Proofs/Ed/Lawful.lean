/-
The hypotheses on the external curve library (`filippo.io/edwards25519` + `crypto/sha512`), collected
in ONE structure `Lawful`, and the group algebra that follows from them.  Nothing about the curve is
proved here: the group law is an assumption, made visible in every theorem that uses it.

Additional hypotheses, stated as explicit arguments where needed:
  `Cofactor lib`         every point is killed by `8·L`
  `OrderExact lib`       the base point has order exactly `L`   (together with `Nat.Prime L`)
  `EncodeCanonical lib`  `Point.Bytes` produces canonical encodings
  `EncodeDecode lib`     a canonical 32-byte encoding is the `Point.Bytes` of what it decodes to
-/
import Mathlib.Algebra.Group.Basic
import Mathlib.Algebra.Module.Basic
import Mathlib.GroupTheory.OrderOfElement
import Mathlib.Tactic.Abel
import Iota.Proofs.Ed.Bytes

namespace Iota.Proofs.Ed
open Iota.Edwards (Bytes leNat leBytes L)
open Iota.Ed25519 (EdLib)

/-- the group laws of the curve library and the length contracts of its codecs. -/
structure Lawful {G : Type} [AddCommGroup G] (lib : EdLib G) : Prop where
  add_eq : ∀ a b, lib.add a b = a + b
  neg_eq : ∀ a, lib.neg a = -a
  zero_eq : lib.zero = 0
  smul_eq : ∀ (k : ℕ) a, lib.smul k a = k • a
  eq_iff : ∀ a b, lib.eq a b = true ↔ a = b
  order_base : (L : ℕ) • lib.base = 0
  decode_encode : ∀ a, lib.decode (lib.encode a) = some a
  encode_length : ∀ a, (lib.encode a).length = 32
  sha512_length : ∀ m, (lib.sha512 m).length = 64

/-- the whole group has exponent dividing `8·L` (cofactor 8). -/
def Cofactor {G : Type} [AddCommGroup G] (_lib : EdLib G) : Prop := ∀ a : G, (8 * L) • a = 0

/-- the base point has order exactly `L`. -/
def OrderExact {G : Type} [AddCommGroup G] (lib : EdLib G) : Prop := addOrderOf lib.base = L

/-- `Point.Bytes` is canonical in the sense of pkg/vrf/canonical.go. -/
def EncodeCanonical {G : Type} (lib : EdLib G) : Prop :=
  ∀ a, Vrf.isCanonicalY (lib.encode a) = true ∧ lib.encode a ∉ Vrf.nonCanonicalSignBytes

/-- canonical encodings are unique: a canonical 32-byte string is the encoding of its decoding. -/
def EncodeDecode {G : Type} (lib : EdLib G) : Prop :=
  ∀ b a, lib.decode b = some a → Vrf.isCanonicalY b = true → b ∉ Vrf.nonCanonicalSignBytes →
    b.length = 32 → lib.encode a = b

section
variable {G : Type} [AddCommGroup G] {lib : EdLib G}

theorem nsmul_mod_of_nsmul_eq_zero {a : G} {m : ℕ} (h : m • a = 0) (n : ℕ) : (n % m) • a = n • a := by
  conv_rhs => rw [← Nat.mod_add_div n m, add_smul, Nat.mul_comm, mul_smul, h, smul_zero, add_zero]

theorem Lawful.mod_L_base (h : Lawful lib) (n : ℕ) : (n % L) • lib.base = n • lib.base :=
  nsmul_mod_of_nsmul_eq_zero h.order_base n

/-- scalars acting on a multiple of the base point may be reduced mod `L`. -/
theorem Lawful.mod_L_smul_base (h : Lawful lib) (n m : ℕ) :
    (n % L) • (m • lib.base) = n • (m • lib.base) := by
  apply nsmul_mod_of_nsmul_eq_zero
  rw [smul_comm, h.order_base, smul_zero]

theorem Lawful.eq_zero_iff (h : Lawful lib) (a : G) : lib.eq a lib.zero = true ↔ a = 0 := by
  rw [h.eq_iff, h.zero_eq]

/-- with cofactor 8, eight times anything has order dividing `L`. -/
theorem Cofactor.L_smul_eight (hc : Cofactor lib) (a : G) : L • ((8 : ℕ) • a) = 0 := by
  rw [← mul_smul, Nat.mul_comm]; exact hc a

theorem Cofactor.mod_L_eight (hc : Cofactor lib) (n : ℕ) (a : G) :
    (n % L) • ((8 : ℕ) • a) = n • ((8 : ℕ) • a) :=
  nsmul_mod_of_nsmul_eq_zero (hc.L_smul_eight a) n

theorem Cofactor.eight_mod_L (hc : Cofactor lib) (n : ℕ) (a : G) :
    (8 : ℕ) • ((n % L) • a) = (8 : ℕ) • (n • a) := by
  rw [smul_comm, hc.mod_L_eight, smul_comm]

end

end Iota.Proofs.Ed
