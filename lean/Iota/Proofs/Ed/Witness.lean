/-
Non-vacuity of the hypotheses of Iota/Proofs/Ed/Lawful.lean: a concrete group and library satisfying
`Lawful`, `Cofactor`, `OrderExact`, `EncodeCanonical` and `EncodeDecode` simultaneously.

The witness is the cyclic group `ZMod L` with generator `1`, encoded as the 32-byte little-endian
representative below `L`.  It is NOT the curve: it only shows that the assumptions are jointly
satisfiable, so that the theorems stated under them are not vacuous.

Everything is first proved for `ZMod n` with `n` a variable (so that the elaborator never unfolds the
253-bit literal `L`) and then specialised to `n = L`.
-/
import Mathlib.Data.ZMod.Basic
import Iota.Proofs.Ed.Lawful
import Iota.Proofs.Ed.Canonical

namespace Iota.Proofs.Ed
open Iota.Edwards (Bytes leNat leBytes L)
open Iota.Ed25519 (EdLib)

/-! ### the cyclic group `ZMod n` as a curve library -/

/-- the cyclic group of order `n`, generator `1`, 32-byte little-endian encoding of the representative
below `n`; the hash is constant. -/
def zmodLib (n : ℕ) : EdLib (ZMod n) where
  add a b := a + b
  neg a := -a
  zero := 0
  smul k a := k • a
  base := 1
  decode b := if b.length = 32 ∧ leNat b < n then some ((leNat b : ℕ) : ZMod n) else none
  encode a := leBytes a.val 32
  eq a b := decide (a = b)
  sha512 _ := List.replicate 64 0

section
variable {n : ℕ}

theorem zmodLib_decode (b : Bytes) :
    (zmodLib n).decode b =
      if b.length = 32 ∧ leNat b < n then some ((leNat b : ℕ) : ZMod n) else none := rfl

theorem zmodLib_encode (a : ZMod n) : (zmodLib n).encode a = leBytes a.val 32 := rfl

theorem zmodLib_encode_length (a : ZMod n) : ((zmodLib n).encode a).length = 32 :=
  leBytes_length _ _

theorem pow_253_lt_256_32 : 2 ^ 253 < 256 ^ 32 := by decide +kernel
theorem pow_253_lt_255 : 2 ^ 253 < 2 ^ 255 := by decide +kernel
theorem pow_253_lt_p : 2 ^ 253 < Iota.Edwards.p := by rw [p_eq]; decide +kernel

theorem zmodLib_leNat_encode [NeZero n] (hn : n < 2 ^ 253) (a : ZMod n) :
    leNat ((zmodLib n).encode a) = a.val :=
  leNat_leBytes_of_lt _ _
    (Nat.lt_trans (Nat.lt_trans (ZMod.val_lt a) hn) pow_253_lt_256_32)

theorem zmod_nsmul_one : n • (1 : ZMod n) = 0 := by
  rw [nsmul_eq_mul, mul_one]; exact ZMod.natCast_self n

theorem zmod_mul_nsmul (k : ℕ) (a : ZMod n) : (k * n) • a = 0 := by
  rw [nsmul_eq_mul, Nat.cast_mul, ZMod.natCast_self, mul_zero, zero_mul]

theorem zmodLib_lawful [NeZero n] (hn : n < 2 ^ 253) (hL : n = L) : Lawful (zmodLib n) where
  add_eq _ _ := rfl
  neg_eq _ := rfl
  zero_eq := rfl
  smul_eq _ _ := rfl
  eq_iff a b := by simp [zmodLib]
  order_base := by rw [← hL]; exact zmod_nsmul_one
  decode_encode a := by
    have hval := zmodLib_leNat_encode hn a
    rw [zmodLib_decode, if_pos ⟨zmodLib_encode_length a, by rw [hval]; exact ZMod.val_lt a⟩, hval,
      ZMod.natCast_zmod_val]
  encode_length := zmodLib_encode_length
  sha512_length _ := List.length_replicate

theorem zmodLib_cofactor (hL : n = L) : Cofactor (zmodLib n) := by
  intro a
  rw [← hL]; exact zmod_mul_nsmul 8 a

theorem zmodLib_orderExact (hL : n = L) : OrderExact (zmodLib n) := by
  unfold OrderExact
  rw [← hL]; exact ZMod.addOrderOf_one n

theorem nonCanonicalSignBytes_leNat_ge :
    ∀ x ∈ Vrf.nonCanonicalSignBytes, 2 ^ 255 ≤ leNat x := by decide +kernel

theorem zmodLib_encodeCanonical [NeZero n] (hn : n < 2 ^ 253) : EncodeCanonical (zmodLib n) := by
  intro a
  have hval := zmodLib_leNat_encode hn a
  have h253 : a.val < 2 ^ 253 := Nat.lt_trans (ZMod.val_lt a) hn
  refine ⟨?_, ?_⟩
  · rw [isCanonicalY_iff _ (zmodLib_encode_length a), hval,
      Nat.mod_eq_of_lt (Nat.lt_trans h253 pow_253_lt_255)]
    exact Nat.lt_trans h253 pow_253_lt_p
  · intro hmem
    have hge := nonCanonicalSignBytes_leNat_ge _ hmem
    rw [hval] at hge
    exact Nat.lt_irrefl _ (Nat.lt_of_lt_of_le (Nat.lt_trans h253 pow_253_lt_255) hge)

theorem zmodLib_encodeDecode : EncodeDecode (zmodLib n) := by
  intro b a hdec _ _ hlen
  rw [zmodLib_decode] at hdec
  by_cases hc : b.length = 32 ∧ leNat b < n
  · rw [if_pos hc] at hdec
    have ha : a = ((leNat b : ℕ) : ZMod n) := (Option.some.inj hdec).symm
    rw [zmodLib_encode, ha, ZMod.val_natCast, Nat.mod_eq_of_lt hc.2]
    exact eq_leBytes_of_length b 32 hlen
  · rw [if_neg hc] at hdec
    exact absurd hdec (by simp)

end

/-! ### the witness: `n = L` -/

instance instNeZeroL : NeZero L := ⟨Nat.pos_iff_ne_zero.mp L_pos⟩

/-- the cyclic group of order `L`, generator `1`, canonical 32-byte little-endian encoding. -/
def witnessLib : EdLib (ZMod L) := zmodLib L

theorem witness_lawful : Lawful witnessLib := zmodLib_lawful L_lt_253 rfl

theorem witness_cofactor : Cofactor witnessLib := zmodLib_cofactor rfl

theorem witness_orderExact : OrderExact witnessLib := zmodLib_orderExact rfl

theorem witness_encodeCanonical : EncodeCanonical witnessLib := zmodLib_encodeCanonical L_lt_253

theorem witness_encodeDecode : EncodeDecode witnessLib := zmodLib_encodeDecode

/-- **non-vacuity**: the hypotheses `Lawful` and `Cofactor` are jointly satisfiable. -/
theorem lawful_witness :
    ∃ (G : Type) (_ : AddCommGroup G) (lib : Iota.Ed25519.EdLib G), Lawful lib ∧ Cofactor lib :=
  ⟨ZMod L, inferInstance, witnessLib, witness_lawful, witness_cofactor⟩

/-- **non-vacuity**: all five hypotheses on the curve library are jointly satisfiable. -/
theorem lawful_witness_full :
    ∃ (G : Type) (_ : AddCommGroup G) (lib : Iota.Ed25519.EdLib G),
      Lawful lib ∧ Cofactor lib ∧ OrderExact lib ∧ EncodeCanonical lib ∧ EncodeDecode lib :=
  ⟨ZMod L, inferInstance, witnessLib, witness_lawful, witness_cofactor, witness_orderExact,
    witness_encodeCanonical, witness_encodeDecode⟩

end Iota.Proofs.Ed
