/-
E3 (C18), part 1: `isCanonicalY` (pkg/vrf/canonical.go) decides `y < p` on the 255-bit `y` field of a
32-byte string.
-/
import Iota.Proofs.Ed.Bytes

namespace Iota.Proofs.Ed
open Iota.Edwards (Bytes leNat leBytes L)
open Iota.Vrf

theorem uint8_eq_255_iff (x : UInt8) : x = 255 ↔ x.toNat = 255 := by
  constructor
  · rintro rfl; rfl
  · intro h; exact UInt8.toNat_inj.mp (by simpa using h)

theorem uint8_or_128 (x : UInt8) : (x ||| 128) = 255 ↔ x.toNat % 128 = 127 := by
  rw [uint8_eq_255_iff, UInt8.toNat_or]
  have : ∀ n < 256, (n ||| 128 = 255 ↔ n % 128 = 127) := by decide +kernel
  exact this _ x.toNat_lt

/-- the middle test of `isCanonicalY` scans bytes 1…30. -/
theorem any_range_getD (b0 : UInt8) (mid tail : Bytes) :
    ((List.range mid.length).map (· + 1)).any (fun i => (b0 :: (mid ++ tail)).getD i 0 != 255) =
      mid.any (· != 255) := by
  rw [Bool.eq_iff_iff]
  simp only [List.any_map, List.any_eq_true, List.mem_range, Function.comp, bne_iff_ne, ne_eq]
  constructor
  · rintro ⟨i, hi, hne⟩
    refine ⟨mid[i], List.getElem_mem hi, ?_⟩
    simpa [List.getD_eq_getElem?_getD, List.getElem?_append_left hi, hi] using hne
  · rintro ⟨b, hb, hne⟩
    obtain ⟨i, hi, rfl⟩ := List.mem_iff_getElem.mp hb
    refine ⟨i, hi, ?_⟩
    simpa [List.getD_eq_getElem?_getD, List.getElem?_append_left hi, hi] using hne

theorem any_ne_255_iff (mid : Bytes) : mid.any (· != 255) = true ↔ leNat mid ≠ 256 ^ mid.length - 1 := by
  rw [ne_eq, leNat_eq_max_iff]
  simp only [List.any_eq_true, bne_iff_ne, ne_eq, not_forall]
  constructor
  · rintro ⟨b, hb, hne⟩; exact ⟨b, hb, hne⟩
  · rintro ⟨b, hb, hne⟩; exact ⟨b, hb, hne⟩

/-- every 32-byte string is `b0 :: (mid ++ [b31])` with 30 bytes in the middle. -/
theorem bytes32_split (x : Bytes) (hx : x.length = 32) :
    ∃ (b0 : UInt8) (mid : Bytes) (b31 : UInt8), mid.length = 30 ∧ x = b0 :: (mid ++ [b31]) := by
  match x, hx with
  | b0 :: rest, hx =>
    have hrest : rest.length = 31 := by simpa using hx
    have hlast : (rest.drop 30).length = 1 := by simp [hrest]
    obtain ⟨b31, hb31⟩ := List.length_eq_one_iff.mp hlast
    refine ⟨b0, rest.take 30, b31, by simp [hrest], ?_⟩
    rw [← hb31, List.take_append_drop]

/-- pure arithmetic behind `isCanonicalY`. -/
theorem canonical_arith (a M t : ℕ) (ha : a < 256) (hM : M < 256 ^ 30) :
    (a + 256 * (M + 2 ^ 240 * t)) % 2 ^ 255 < Iota.Edwards.p ↔
      (a < 237 ∨ M ≠ 256 ^ 30 - 1 ∨ t % 128 ≠ 127) := by
  have e1 : (256 : ℕ) ^ 30 = 2 ^ 240 := by norm_num
  rw [e1] at hM ⊢
  rw [p_eq]
  have h1 : (a + 256 * (M + 2 ^ 240 * t)) % 2 ^ 255 = a + 256 * M + 2 ^ 248 * (t % 128) := by
    have e : a + 256 * (M + 2 ^ 240 * t) = (a + 256 * M + 2 ^ 248 * (t % 128)) + 2 ^ 255 * (t / 128) := by
      omega
    rw [e, Nat.add_mul_mod_self_left, Nat.mod_eq_of_lt]
    omega
  rw [h1]
  omega

/-- **E3** `isCanonicalY` is exactly the test `y < p` on `y = (little-endian value) mod 2^255`. -/
theorem isCanonicalY_iff (x : Bytes) (hx : x.length = 32) :
    isCanonicalY x = true ↔ leNat x % 2 ^ 255 < Iota.Edwards.p := by
  obtain ⟨b0, mid, b31, hmid, rfl⟩ := bytes32_split x hx
  have hany := any_range_getD b0 mid [b31]
  rw [hmid] at hany
  have h31 : (b0 :: (mid ++ [b31])).getD 31 0 = b31 := by
    simp [List.getD_eq_getElem?_getD, hmid]
  have hM := leNat_lt mid
  rw [hmid] at hM
  have hmax := any_ne_255_iff mid
  rw [hmid] at hmax
  have hval : leNat (b0 :: (mid ++ [b31])) = b0.toNat + 256 * (leNat mid + 2 ^ 240 * b31.toNat) := by
    rw [leNat_cons, leNat_append, hmid, leNat_cons, leNat_nil]; norm_num
  rw [hval, canonical_arith b0.toNat (leNat mid) b31.toNat b0.toNat_lt hM]
  unfold isCanonicalY
  rw [hany, h31]
  simp only [List.getD_cons_zero]
  by_cases h0 : b0.toNat < 237
  · simp [h0]
  · rw [if_neg h0]
    by_cases hm : mid.any (· != 255) = true
    · rw [if_pos hm]
      simp only [true_iff]
      exact Or.inr (Or.inl (hmax.mp hm))
    · rw [if_neg hm]
      have hm' : leNat mid = 256 ^ 30 - 1 := by
        by_contra hne; exact hm (hmax.mpr hne)
      simp only [bne_iff_ne, ne_eq, uint8_or_128, h0, hm', not_true_eq_false, false_or]

end Iota.Proofs.Ed
