/-
E3 (C18), part 2: the VRF proof codec, completeness of `prove`/`verify`/`proofToHash`, key
validation, and the algebraic half of uniqueness.
-/
import Iota.Proofs.Ed.Sign
import Iota.Proofs.Ed.Canonical

namespace Iota.Proofs.Ed
open Iota.Edwards (Bytes leNat leBytes L)
open Iota.Ed25519 (EdLib uniformScalar newKeyFromSeed)
open Iota.Vrf

variable {G : Type} [AddCommGroup G] {lib : EdLib G}

/-! ### `newPointFromCanonicalBytes` -/

omit [AddCommGroup G] in
theorem pointFromCanonicalBytes_eq_some_iff (x : Bytes) (P : G) :
    pointFromCanonicalBytes lib x = some P ↔
      isCanonicalY x = true ∧ x ∉ nonCanonicalSignBytes ∧ lib.decode x = some P := by
  unfold pointFromCanonicalBytes
  by_cases h1 : isCanonicalY x = true
  · by_cases h2 : x ∈ nonCanonicalSignBytes
    · simp [h1, h2]
    · simp [h1, h2]
  · simp [h1]

omit [AddCommGroup G] in
theorem pointFromCanonicalBytes_eq_none_iff (x : Bytes) :
    pointFromCanonicalBytes lib x = none ↔
      isCanonicalY x = false ∨ x ∈ nonCanonicalSignBytes ∨ lib.decode x = none := by
  unfold pointFromCanonicalBytes
  by_cases h1 : isCanonicalY x = true
  · by_cases h2 : x ∈ nonCanonicalSignBytes
    · simp [h1, h2]
    · simp [h1, h2]
  · simp [h1]

theorem pointFromCanonicalBytes_encode (h : Lawful lib) (hcan : EncodeCanonical lib) (a : G) :
    pointFromCanonicalBytes lib (lib.encode a) = some a :=
  (pointFromCanonicalBytes_eq_some_iff _ _).mpr ⟨(hcan a).1, (hcan a).2, h.decode_encode a⟩

/-! ### the proof codec -/

omit [AddCommGroup G] in
theorem setBytes_eq (b : Bytes) :
    Proof.setBytes lib b =
      if b.length ≠ 80 then none else
      match pointFromCanonicalBytes lib (b.take 32) with
      | none => none
      | some gamma =>
        if leNat (b.drop 48) ≥ L then none
        else some ⟨gamma, leNat ((b.drop 32).take 16), leNat (b.drop 48)⟩ := rfl

omit [AddCommGroup G] in
theorem bytes_eq (pr : Proof G) :
    pr.bytes lib = lib.encode pr.gamma ++ (leBytes pr.c 32).take 16 ++ leBytes pr.s 32 := rfl

theorem take32_append3 (a b c : Bytes) (ha : a.length = 32) : (a ++ b ++ c).take 32 = a := by
  rw [List.append_assoc, List.take_left' ha]

theorem drop32_take16_append3 (a b c : Bytes) (ha : a.length = 32) (hb : b.length = 16) :
    ((a ++ b ++ c).drop 32).take 16 = b := by
  rw [List.append_assoc, List.drop_left' ha, List.take_left' hb]

theorem drop48_append3 (a b c : Bytes) (ha : a.length = 32) (hb : b.length = 16) :
    (a ++ b ++ c).drop 48 = c := by
  rw [List.drop_left' (by simp [ha, hb])]

theorem pow_256_16 : (256 : ℕ) ^ 16 = 2 ^ 128 := by norm_num
theorem pow_256_32 : (256 : ℕ) ^ 32 = 2 ^ 256 := by norm_num

omit [AddCommGroup G] in
/-- **E3 codec, decoding direction**: whatever `Proof.SetBytes` accepts is an 80-byte string with a
canonical scalar `s < L`, a 128-bit `c`, and it is the `Proof.Bytes` of the decoded proof. -/
theorem setBytes_some (hed : EncodeDecode lib) (b : Bytes) (pr : Proof G)
    (hb : Proof.setBytes lib b = some pr) :
    b.length = 80 ∧ pr.s < L ∧ pr.c < 2 ^ 128 ∧ pr.bytes lib = b := by
  rw [setBytes_eq] at hb
  split at hb
  · cases hb
  rename_i hlen
  rw [ne_eq, not_not] at hlen
  split at hb
  · cases hb
  rename_i gamma hg
  split at hb
  · cases hb
  rename_i hs
  cases hb
  obtain ⟨hcy, hncs, hdec⟩ := (pointFromCanonicalBytes_eq_some_iff _ _).mp hg
  have hlen32 : (b.take 32).length = 32 := by simp [hlen]
  have hlen16 : ((b.drop 32).take 16).length = 16 := by simp [hlen]
  have hlenS : (b.drop 48).length = 32 := by simp [hlen]
  refine ⟨hlen, by simpa using hs, ?_, ?_⟩
  · have := leNat_lt ((b.drop 32).take 16)
    rw [hlen16, pow_256_16] at this
    exact this
  · rw [bytes_eq]
    simp only
    rw [hed _ _ hdec hcy hncs hlen32, leBytes_take, show min 16 32 = 16 from rfl,
      eq_leBytes_of_length _ 16 hlen16, eq_leBytes_of_length _ 32 hlenS, List.append_assoc]
    conv_rhs => rw [← List.take_append_drop 32 b, ← List.take_append_drop 16 (b.drop 32)]
    rw [List.drop_drop]

/-- **E3 codec, encoding direction**: `Proof.SetBytes` inverts `Proof.Bytes` on proofs with
`s < L` and `c < 2^128`. -/
theorem setBytes_bytes (h : Lawful lib) (hcan : EncodeCanonical lib) (pr : Proof G)
    (hs : pr.s < L) (hc : pr.c < 2 ^ 128) : Proof.setBytes lib (pr.bytes lib) = some pr := by
  have hE : (lib.encode pr.gamma).length = 32 := h.encode_length _
  have hC : ((leBytes pr.c 32).take 16).length = 16 := by simp
  rw [setBytes_eq, bytes_eq, take32_append3 _ _ _ hE, drop32_take16_append3 _ _ _ hE hC,
    drop48_append3 _ _ _ hE hC]
  rw [if_neg (by simp [hE])]
  rw [pointFromCanonicalBytes_encode h hcan]
  simp only
  have hsval : leNat (leBytes pr.s 32) = pr.s := by
    apply leNat_leBytes_of_lt
    have := L_lt_256
    rw [pow_256_32]; omega
  have hcval : leNat ((leBytes pr.c 32).take 16) = pr.c := by
    rw [leBytes_take, show min 16 32 = 16 from rfl]
    apply leNat_leBytes_of_lt
    rw [pow_256_16]; exact hc
  rw [hsval, hcval, if_neg (by omega)]

theorem bytes_length (h : Lawful lib) (pr : Proof G) : (pr.bytes lib).length = 80 := by
  rw [bytes_eq]; simp [h.encode_length]

omit [AddCommGroup G] in
theorem challenge_lt (p1 p2 : Bytes) (p3 p4 p5 : G) : challenge lib p1 p2 p3 p4 p5 < 2 ^ 128 := by
  unfold challenge
  simp only
  generalize lib.sha512 _ = cs
  have h1 := leNat_lt (cs.take cLen)
  have h2 : (cs.take cLen).length ≤ 16 := by simp [cLen]
  have h3 : (256 : ℕ) ^ (cs.take cLen).length ≤ 256 ^ 16 := Nat.pow_le_pow_right (by norm_num) h2
  rw [pow_256_16] at h3
  omega

/-! ### `encodeToCurve` -/

/-- whatever `encodeToCurveTryAndIncrement` returns is a non-zero cofactor multiple. -/
theorem encodeToCurve_some (h : Lawful lib) (salt alpha : Bytes) (H : G)
    (hH : encodeToCurve lib salt alpha = some H) : ∃ H', H = (8 : ℕ) • H' ∧ H ≠ 0 := by
  unfold encodeToCurve at hH
  obtain ⟨ctr, _, hctr⟩ := List.exists_of_findSome?_eq_some hH
  simp only at hctr
  split at hctr
  · cases hctr
  rename_i H' _
  split at hctr
  · cases hctr
  rename_i hne
  cases hctr
  rw [h.eq_zero_iff, h.smul_eq] at hne
  exact ⟨H', h.smul_eq _ _, by rw [h.smul_eq]; exact hne⟩

/-- with cofactor 8 the hashed-to point has order dividing `L`. -/
theorem encodeToCurve_order (h : Lawful lib) (hcof : Cofactor lib) (salt alpha : Bytes) (H : G)
    (hH : encodeToCurve lib salt alpha = some H) : L • H = 0 := by
  obtain ⟨H', rfl, _⟩ := encodeToCurve_some h salt alpha H hH
  exact hcof.L_smul_eight H'

/-! ### key validation -/

/-- `validateKey` passes for `x•B` whenever `L ∤ x`, given that `B` has prime order `L`. -/
theorem validateKey_smul_base (h : Lawful lib) (hord : OrderExact lib) (hprime : Nat.Prime L)
    (x : ℕ) (hx : x % L ≠ 0) : validateKey lib (x • lib.base) = true := by
  unfold validateKey
  rw [Bool.not_eq_true', ← Bool.not_eq_true, h.eq_zero_iff, h.smul_eq, ← mul_smul,
    ← addOrderOf_dvd_iff_nsmul_eq_zero, hord, hprime.dvd_mul]
  rintro (h8 | hxx)
  · have := Nat.le_of_dvd (by norm_num) h8
    have := L_gt_252
    omega
  · exact hx (Nat.mod_eq_zero_of_dvd hxx)

/-- **honest keys pass `validateKey`**. -/
theorem validateKey_honest (h : Lawful lib) (hord : OrderExact lib) (hprime : Nat.Prime L)
    (seed : Bytes) : validateKey lib (publicPoint lib seed) = true :=
  validateKey_smul_base h hord hprime _ (clamp_mod_L_ne_zero _)

omit [AddCommGroup G] in
theorem vrf_verify_eq_none_of_length (pk alpha pi : Bytes) (hpk : pk.length ≠ 32) :
    verify lib pk alpha pi = none := by
  unfold verify; rw [if_pos hpk]

omit [AddCommGroup G] in
/-- **key validation (1)**: a key that is not a canonical point encoding is rejected. -/
theorem vrf_verify_bad_key_encoding (pk alpha pi : Bytes) (hpk : pk.length = 32)
    (hbad : isCanonicalY pk = false ∨ pk ∈ nonCanonicalSignBytes ∨ lib.decode pk = none) :
    verify lib pk alpha pi = some (false, []) := by
  unfold verify
  rw [if_neg (by simp [hpk]), (pointFromCanonicalBytes_eq_none_iff pk).mpr hbad]

/-- **key validation (2)**: a key of small order (`8•Y = 0`) is rejected. -/
theorem vrf_verify_small_order_key (h : Lawful lib) (pk alpha pi : Bytes) (hpk : pk.length = 32)
    (Y : G) (hY : pointFromCanonicalBytes lib pk = some Y) (h8 : (8 : ℕ) • Y = 0) :
    verify lib pk alpha pi = some (false, []) := by
  unfold verify
  rw [if_neg (by simp [hpk]), hY]
  have : validateKey lib Y = false := by
    unfold validateKey
    rw [Bool.not_eq_false', h.eq_zero_iff, h.smul_eq]; exact h8
  simp [this]

/-! ### what `verify` accepts -/

/-- `verify` returns `(true, β)` exactly when key, proof and hashed point decode/validate, the
recomputed challenge matches, and `β` is the proof's hash. -/
theorem vrf_verify_eq_true_iff (h : Lawful lib) (pk alpha pi β : Bytes) (hpk : pk.length = 32) :
    verify lib pk alpha pi = some (true, β) ↔
      ∃ Y D H, pointFromCanonicalBytes lib pk = some Y ∧ (8 : ℕ) • Y ≠ 0 ∧
        Proof.setBytes lib pi = some D ∧ encodeToCurve lib pk alpha = some H ∧
        D.c = challenge lib pk (lib.encode H) D.gamma
          (D.s • lib.base - D.c • Y) (D.s • H - D.c • D.gamma) ∧
        β = D.hash lib := by
  have hU : ∀ (c s : ℕ) (Y : G), c • (-Y) + s • lib.base = s • lib.base - c • Y := fun c s Y => by
    rw [smul_neg]; abel
  have hV : ∀ (c s : ℕ) (H Γ : G), s • H + c • (-Γ) = s • H - c • Γ := fun c s H Γ => by
    rw [smul_neg]; abel
  unfold verify
  rw [if_neg (by simp [hpk])]
  cases hY : pointFromCanonicalBytes lib pk with
  | none => simp
  | some Y =>
    simp only
    by_cases hval : validateKey lib Y = true
    · have h8 : (8 : ℕ) • Y ≠ 0 := by
        unfold validateKey at hval
        rwa [Bool.not_eq_true', ← Bool.not_eq_true, h.eq_zero_iff, h.smul_eq] at hval
      rw [if_neg (by simp [hval])]
      cases hD : Proof.setBytes lib pi with
      | none => simp
      | some D =>
        cases hH : encodeToCurve lib pk alpha with
        | none => simp
        | some H =>
          simp only [h.smul_eq, h.add_eq, h.neg_eq, hU, hV]
          by_cases hc : D.c = challenge lib pk (lib.encode H) D.gamma
              (D.s • lib.base - D.c • Y) (D.s • H - D.c • D.gamma)
          · rw [if_neg (by simpa using hc)]
            simp only [Option.some.injEq, Prod.mk.injEq, true_and, exists_and_left, exists_eq_left']
            constructor
            · intro hβ; exact ⟨h8, hc, hβ.symm⟩
            · rintro ⟨_, _, hβ⟩; exact hβ.symm
          · rw [if_pos (by simpa using hc)]
            simp only [Option.some.injEq, Prod.mk.injEq, Bool.false_eq_true, false_and, false_iff,
              exists_and_left, exists_eq_left', not_and]
            intro _ hc'; exact absurd hc' hc
    · have h8 : (8 : ℕ) • Y = 0 := by
        unfold validateKey at hval
        rwa [Bool.not_eq_true, Bool.not_eq_false', h.eq_zero_iff, h.smul_eq] at hval
      rw [if_pos (by simpa using hval)]
      simp only [Option.some.injEq, Prod.mk.injEq, Bool.false_eq_true, false_and, false_iff,
        exists_and_left, exists_eq_left', not_exists, not_and]
      intro hne; exact absurd h8 hne

/-! ### completeness -/

/-- the proof `Prove` computes for the key of `seed`, in closed form (`H` = the hashed point). -/
def honestProof (lib : EdLib G) (seed : Bytes) (H : G) : Proof G :=
  let x := secretScalar lib seed
  let k := uniformScalar (lib.sha512 ((lib.sha512 seed).drop 32 ++ lib.encode H))
  let c := challenge lib (lib.encode (publicPoint lib seed)) (lib.encode H) (x • H) (k • lib.base) (k • H)
  ⟨x • H, c, (c * (x % L) + k) % L⟩

theorem prove_honest (h : Lawful lib) (seed alpha : Bytes) (hs : seed.length = 32) (H : G)
    (hH : encodeToCurve lib (lib.encode (publicPoint lib seed)) alpha = some H) :
    prove lib (seed ++ lib.encode (publicPoint lib seed)) alpha = some (honestProof lib seed H) := by
  generalize hpk : lib.encode (publicPoint lib seed) = pk at hH ⊢
  have hpklen : pk.length = 32 := by rw [← hpk]; exact h.encode_length _
  have hlen : (seed ++ pk).length = 64 := by simp [hs, hpklen]
  have htake : (seed ++ pk).take 32 = seed := List.take_left' hs
  have hdrop : (seed ++ pk).drop 32 = pk := List.drop_left' hs
  unfold prove
  rw [if_neg (by simp [hlen])]
  simp only [htake, hdrop, hH, h.smul_eq]
  unfold honestProof secretScalar
  rw [hpk]

/-- a Schnorr/Chaum–Pedersen response for the key `x•B` verifies (abstract over `x` and nonce `k`). -/
theorem vrf_verify_constructed (h : Lawful lib) (hcof : Cofactor lib) (hcan : EncodeCanonical lib)
    (x k : ℕ) (alpha : Bytes) (H : G) (hY : validateKey lib (x • lib.base) = true)
    (hH : encodeToCurve lib (lib.encode (x • lib.base)) alpha = some H) (pr : Proof G)
    (hpr : pr = ⟨x • H,
      challenge lib (lib.encode (x • lib.base)) (lib.encode H) (x • H) (k • lib.base) (k • H),
      (challenge lib (lib.encode (x • lib.base)) (lib.encode H) (x • H) (k • lib.base) (k • H)
        * (x % L) + k) % L⟩) :
    verify lib (lib.encode (x • lib.base)) alpha (pr.bytes lib) = some (true, pr.hash lib) := by
  have hLH : L • H = 0 := encodeToCurve_order h hcof _ _ _ hH
  generalize hc : challenge lib (lib.encode (x • lib.base)) (lib.encode H) (x • H) (k • lib.base) (k • H)
    = c at hpr
  have hclt : c < 2 ^ 128 := by rw [← hc]; exact challenge_lt _ _ _ _ _
  have hslt : (c * (x % L) + k) % L < L := Nat.mod_lt _ L_pos
  have h8 : (8 : ℕ) • (x • lib.base) ≠ 0 := by
    unfold validateKey at hY
    rwa [Bool.not_eq_true', ← Bool.not_eq_true, h.eq_zero_iff, h.smul_eq] at hY
  rw [vrf_verify_eq_true_iff h _ _ _ _ (h.encode_length _)]
  refine ⟨x • lib.base, pr, H, pointFromCanonicalBytes_encode h hcan _, h8,
    setBytes_bytes h hcan pr (by rw [hpr]; exact hslt) (by rw [hpr]; exact hclt), hH, ?_, rfl⟩
  have hU : pr.s • lib.base - pr.c • (x • lib.base) = k • lib.base := by
    rw [hpr]
    simp only
    rw [h.mod_L_base, add_smul, mul_smul, h.mod_L_base]
    abel
  have hV : pr.s • H - pr.c • pr.gamma = k • H := by
    rw [hpr]
    simp only
    rw [nsmul_mod_of_nsmul_eq_zero hLH, add_smul, mul_smul, nsmul_mod_of_nsmul_eq_zero hLH]
    abel
  rw [hU, hV]
  rw [hpr]
  exact hc.symm

/-- **E3 completeness**: for every 32-byte seed and every `alpha` for which try-and-increment finds
a point, the proof made by `prove` under the key made by `newKeyFromSeed` is accepted by `verify`,
and `verify`, `proofToHash` and `Proof.hash` give the same output. -/
theorem vrf_complete (h : Lawful lib) (hcof : Cofactor lib) (hcan : EncodeCanonical lib)
    (hord : OrderExact lib) (hprime : Nat.Prime L) (seed alpha : Bytes) (hs : seed.length = 32)
    (sk : Bytes) (hsk : newKeyFromSeed lib seed = some sk) (H : G)
    (hH : encodeToCurve lib (sk.drop 32) alpha = some H) :
    ∃ pr, prove lib sk alpha = some pr ∧
      verify lib (sk.drop 32) alpha (pr.bytes lib) = some (true, pr.hash lib) ∧
      proofToHash lib (pr.bytes lib) = some (pr.hash lib) := by
  rw [newKeyFromSeed_eq' h seed hs] at hsk
  cases hsk
  have hdrop : (seed ++ lib.encode (publicPoint lib seed)).drop 32 = lib.encode (publicPoint lib seed) :=
    List.drop_left' hs
  rw [hdrop] at hH ⊢
  refine ⟨honestProof lib seed H, prove_honest h seed alpha hs H hH, ?_, ?_⟩
  · exact vrf_verify_constructed h hcof hcan (secretScalar lib seed) _ alpha H
      (validateKey_honest h hord hprime seed) hH _ rfl
  · unfold proofToHash
    rw [setBytes_bytes h hcan]
    · rfl
    · exact Nat.mod_lt _ L_pos
    · exact challenge_lt _ _ _ _ _

/-- `proofToHash` agrees with `verify` on every accepted proof (not only honest ones). -/
theorem proofToHash_of_verify (h : Lawful lib) (pk alpha pi β : Bytes) (hpk : pk.length = 32)
    (hv : verify lib pk alpha pi = some (true, β)) : proofToHash lib pi = some β := by
  obtain ⟨Y, D, H, _, _, hD, _, _, rfl⟩ := (vrf_verify_eq_true_iff h pk alpha pi β hpk).mp hv
  unfold proofToHash; rw [hD]; rfl

/-! ### uniqueness, algebraic half -/

/-- the honest output for secret scalar `x` and hashed point `H`. -/
def honestHash (lib : EdLib G) (x : ℕ) (H : G) : Bytes :=
  lib.sha512 (suiteString ++ [0x03] ++ lib.encode ((8 : ℕ) • (x • H)) ++ [0x00])

theorem honestProof_hash (h : Lawful lib) (seed : Bytes) (H : G) :
    (honestProof lib seed H).hash lib = honestHash lib (secretScalar lib seed) H := by
  unfold Proof.hash honestHash honestProof
  simp only [h.smul_eq]

/-- the hash depends on `Γ` only through `8•Γ`: if `Γ − x•H` has small order the output is the
honest one. -/
theorem hash_eq_honest_of_small_order (h : Lawful lib) (D : Proof G) (x : ℕ) (H : G)
    (hsmall : (8 : ℕ) • (D.gamma - x • H) = 0) : D.hash lib = honestHash lib x H := by
  unfold Proof.hash honestHash
  rw [h.smul_eq]
  have : (8 : ℕ) • D.gamma = (8 : ℕ) • (x • H) := by
    rw [smul_sub, sub_eq_zero] at hsmall; exact hsmall
  rw [this]

/-- **E3 uniqueness, algebraic half**: if `verify` accepts `pi = (Γ, c, s)` under the key `Y = x•B`
and `Γ − x•H` has small order, the output hash is the honest one. -/
theorem vrf_unique_algebraic (h : Lawful lib) (pk alpha pi β : Bytes) (hpk : pk.length = 32)
    (x : ℕ) (D : Proof G) (H : G)
    (hv : verify lib pk alpha pi = some (true, β))
    (hD : Proof.setBytes lib pi = some D) (hH : encodeToCurve lib pk alpha = some H)
    (hsmall : (8 : ℕ) • (D.gamma - x • H) = 0) :
    β = honestHash lib x H := by
  obtain ⟨Y, D', H', _, _, hD', hH', _, rfl⟩ := (vrf_verify_eq_true_iff h pk alpha pi β hpk).mp hv
  rw [hD] at hD'; cases hD'
  rw [hH] at hH'; cases hH'
  exact hash_eq_honest_of_small_order h D x H hsmall

/-- the Chaum–Pedersen relation behind soundness (pure group algebra, no hypothesis): for the key
`Y = x•B` the two recomputed commitments are `U = u•B` and `V = u•H + c•(x•H − Γ)` with the same
integer `u = s − c·x`; so `(U, V)` is a Diffie–Hellman pair for `(B, H)` iff `c•(x•H − Γ) = 0`. -/
theorem vrf_commitments (x c s : ℕ) (B H Γ : G) :
    s • B - c • (x • B) = ((s : ℤ) - c * x) • B ∧
    s • H - c • Γ = ((s : ℤ) - c * x) • H + c • (x • H - Γ) := by
  constructor
  · rw [sub_smul, mul_smul]; simp
  · rw [sub_smul, mul_smul, smul_sub]; simp

end Iota.Proofs.Ed
