/-
Little-endian byte strings (`leNat`, `leBytes` of Iota/Model/Edwards.lean) and the few numeric facts
about the group order `L` and the field prime `p` that the Ed25519 / VRF proofs use.
-/
import Mathlib.Tactic.Ring
import Mathlib.Tactic.NormNum
import Iota.Model.Vrf

namespace Iota.Proofs.Ed
open Iota.Edwards (Bytes leNat leBytes L)

/-! ### numeric facts -/

theorem L_eq : L = 7237005577332262213973186563042994240857116359379907606001950938285454250989 := by
  norm_num [L]

theorem p_eq : Iota.Edwards.p =
    57896044618658097711785492504343953926634992332820282019728792003956564819949 := by
  norm_num [Iota.Edwards.p]

theorem L_pos : 0 < L := by rw [L_eq]; norm_num
theorem L_lt_253 : L < 2 ^ 253 := by rw [L_eq]; norm_num
theorem L_lt_256 : L < 2 ^ 256 := by rw [L_eq]; norm_num
theorem L_gt_252 : 2 ^ 252 < L := by rw [L_eq]; norm_num

/-! ### `leNat` -/

@[simp] theorem leNat_nil : leNat [] = 0 := rfl

theorem leNat_cons (x : UInt8) (xs : Bytes) : leNat (x :: xs) = x.toNat + 256 * leNat xs := rfl

theorem leNat_append (a b : Bytes) : leNat (a ++ b) = leNat a + 256 ^ a.length * leNat b := by
  induction a with
  | nil => simp
  | cons x xs ih =>
    simp only [List.cons_append, leNat_cons, ih, List.length_cons, pow_succ]; ring

theorem leNat_lt (b : Bytes) : leNat b < 256 ^ b.length := by
  induction b with
  | nil => simp
  | cons x xs ih =>
    have := x.toNat_lt
    simp only [leNat_cons, List.length_cons, pow_succ]; omega

theorem leNat_take_add_drop (b : Bytes) (n : Nat) (hn : n ≤ b.length) :
    leNat b = leNat (b.take n) + 256 ^ n * leNat (b.drop n) := by
  conv_lhs => rw [← List.take_append_drop n b]
  rw [leNat_append, List.length_take, Nat.min_eq_left hn]

/-- the value of a byte string all of whose bytes are `255` is the maximum, and conversely. -/
theorem leNat_eq_max_iff (b : Bytes) : leNat b = 256 ^ b.length - 1 ↔ ∀ x ∈ b, x = 255 := by
  induction b with
  | nil => simp
  | cons x xs ih =>
    have hx := x.toNat_lt
    have hlt := leNat_lt xs
    have hpos : 0 < 256 ^ xs.length := Nat.pow_pos (by norm_num)
    simp only [leNat_cons, List.length_cons, pow_succ, List.mem_cons, forall_eq_or_imp]
    rw [← ih]
    have h255 : x = 255 ↔ x.toNat = 255 := by
      constructor
      · rintro rfl; rfl
      · intro h; exact UInt8.toNat_inj.mp (by simpa using h)
    rw [h255]
    omega

/-! ### `leBytes` -/

@[simp] theorem leBytes_length (n len : Nat) : (leBytes n len).length = len := by simp [leBytes]

theorem leBytes_zero (n : Nat) : leBytes n 0 = [] := by simp [leBytes]

theorem leBytes_succ (n len : Nat) :
    leBytes n (len + 1) = UInt8.ofNat (n % 256) :: leBytes (n / 256) len := by
  simp only [leBytes, List.range_succ_eq_map, List.map_cons, List.map_map]
  simp only [Nat.mul_zero, Nat.shiftRight_zero, List.cons.injEq, true_and]
  · apply List.map_congr_left
    intro i _
    simp only [Function.comp, Nat.shiftRight_eq_div_pow]
    rw [Nat.succ_eq_add_one, Nat.mul_add, Nat.pow_add, Nat.mul_comm (2 ^ (8 * i)), ← Nat.div_div_eq_div_mul]

theorem leNat_leBytes (n len : Nat) : leNat (leBytes n len) = n % 256 ^ len := by
  induction len generalizing n with
  | zero => simp [leBytes_zero, Nat.mod_one]
  | succ len ih =>
    rw [leBytes_succ, leNat_cons, ih, UInt8.toNat_ofNat']
    have : n % 256 % 2 ^ 8 = n % 256 := by omega
    rw [this, pow_succ, Nat.mul_comm (256 ^ len), Nat.mod_mul]

theorem leNat_leBytes_of_lt (n len : Nat) (h : n < 256 ^ len) : leNat (leBytes n len) = n := by
  rw [leNat_leBytes, Nat.mod_eq_of_lt h]

theorem leBytes_leNat (b : Bytes) : leBytes (leNat b) b.length = b := by
  induction b with
  | nil => simp [leBytes_zero]
  | cons x xs ih =>
    have hx := x.toNat_lt
    rw [List.length_cons, leBytes_succ, leNat_cons]
    have h1 : (x.toNat + 256 * leNat xs) % 256 = x.toNat := by omega
    have h2 : (x.toNat + 256 * leNat xs) / 256 = leNat xs := by omega
    rw [h1, h2, ih, UInt8.ofNat_toNat]

theorem leBytes_take (n len k : Nat) : (leBytes n len).take k = leBytes n (min k len) := by
  simp only [leBytes, ← List.map_take, List.take_range]

/-- a byte string of the right length is `leBytes` of its value. -/
theorem eq_leBytes_of_length (b : Bytes) (len : Nat) (h : b.length = len) : leBytes (leNat b) len = b := by
  subst h; exact leBytes_leNat b

end Iota.Proofs.Ed
