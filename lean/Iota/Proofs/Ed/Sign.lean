/-
E2 (C07): key generation, signing, and sign-then-verify.
-/
import Iota.Proofs.Ed.Verify

namespace Iota.Proofs.Ed
open Iota.Edwards (Bytes leNat leBytes L)
open Iota.Ed25519

variable {G : Type} [AddCommGroup G] {lib : EdLib G}

/-! ### the clamped scalar -/

theorem clamp_eq (h : Bytes) :
    Edwards.clamp h = leNat (h.take 32) % 2 ^ 254 / 8 * 8 + 2 ^ 254 := rfl

theorem clamp_ge (h : Bytes) : 2 ^ 254 ≤ Edwards.clamp h := by rw [clamp_eq]; omega

theorem clamp_lt (h : Bytes) : Edwards.clamp h < 2 ^ 255 := by rw [clamp_eq]; omega

theorem clamp_mod_8 (h : Bytes) : Edwards.clamp h % 8 = 0 := by rw [clamp_eq]; omega

theorem L_mod_8 : L % 8 = 5 := by rw [L_eq]

/-- the clamped scalar is never a multiple of the group order: it is a multiple of 8 in
`[2^254, 2^255)`, and the multiples of `L` in that range are `4L … 7L`, none divisible by 8. -/
theorem clamp_mod_L_ne_zero (h : Bytes) : Edwards.clamp h % L ≠ 0 := by
  intro h0
  obtain ⟨q, hq⟩ := Nat.dvd_of_mod_eq_zero h0
  have h1 := clamp_ge h
  have h2 := clamp_lt h
  have h3 := clamp_mod_8 h
  have hL := L_gt_252
  have hq8 : q < 8 := by
    by_contra hge
    have : L * 8 ≤ L * q := Nat.mul_le_mul_left _ (by omega)
    omega
  have hq0 : q ≠ 0 := by rintro rfl; omega
  rw [hq, Nat.mul_mod, L_mod_8] at h3
  omega

/-! ### lengths and panics -/

omit [AddCommGroup G] in
theorem newKeyFromSeed_eq_none_iff (seed : Bytes) : newKeyFromSeed lib seed = none ↔ seed.length ≠ 32 := by
  unfold newKeyFromSeed; split <;> simp_all

omit [AddCommGroup G] in
theorem sign_eq_none_iff (sk msg : Bytes) : sign lib sk msg = none ↔ sk.length ≠ 64 := by
  unfold sign; split <;> simp_all

omit [AddCommGroup G] in
theorem newKeyFromSeed_eq (seed : Bytes) (hs : seed.length = 32) :
    newKeyFromSeed lib seed =
      some (seed ++ lib.encode (lib.smul (Edwards.clamp (lib.sha512 seed)) lib.base)) := by
  unfold newKeyFromSeed; rw [if_neg (by simp [hs])]

/-- the secret scalar and the public point of a seed -/
def secretScalar (lib : EdLib G) (seed : Bytes) : ℕ := Edwards.clamp (lib.sha512 seed)
def publicPoint (lib : EdLib G) (seed : Bytes) : G := secretScalar lib seed • lib.base

theorem newKeyFromSeed_eq' (h : Lawful lib) (seed : Bytes) (hs : seed.length = 32) :
    newKeyFromSeed lib seed = some (seed ++ lib.encode (publicPoint lib seed)) := by
  rw [newKeyFromSeed_eq seed hs, h.smul_eq]; rfl

theorem newKeyFromSeed_length (h : Lawful lib) (seed sk : Bytes) (hsk : newKeyFromSeed lib seed = some sk) :
    sk.length = 64 ∧ seed.length = 32 ∧ sk.take 32 = seed ∧ sk.drop 32 = lib.encode (publicPoint lib seed) := by
  have hs : seed.length = 32 := by
    by_contra hne
    rw [(newKeyFromSeed_eq_none_iff seed).mpr hne] at hsk; cases hsk
  rw [newKeyFromSeed_eq' h seed hs] at hsk
  cases hsk
  refine ⟨by simp [hs, h.encode_length], hs, ?_, ?_⟩
  · rw [List.take_append_of_le_length (by omega), ← hs, List.take_length]
  · rw [List.drop_append_of_le_length (by omega), ← hs, List.drop_length, List.nil_append]

omit [AddCommGroup G] in
theorem sign_length_of_encode (hel : ∀ a, (lib.encode a).length = 32) (sk msg sig : Bytes)
    (hsig : sign lib sk msg = some sig) : sig.length = 64 := by
  unfold sign at hsig
  split at hsig
  · cases hsig
  · cases hsig; simp [hel]

/-! ### `signerSign` -/

omit [AddCommGroup G] in
theorem signerSign_zero (sk msg : Bytes) : signerSign lib sk msg 0 = (sign lib sk msg).map .ok := by
  simp [signerSign]

omit [AddCommGroup G] in
theorem signerSign_ne_zero (sk msg : Bytes) (hf : ℕ) (h : hf ≠ 0) :
    signerSign lib sk msg hf = some (.error ()) := by
  simp [signerSign, h]

/-! ### sign then verify -/

/-- the signature computed by `sign` on an honest key, in closed form. -/
theorem sign_honest (h : Lawful lib) (seed msg : Bytes) (hs : seed.length = 32) :
    let pk := lib.encode (publicPoint lib seed)
    let r := uniformScalar (lib.sha512 ((lib.sha512 seed).drop 32 ++ msg))
    let Renc := lib.encode (r • lib.base)
    let k := uniformScalar (lib.sha512 (Renc ++ pk ++ msg))
    sign lib (seed ++ pk) msg = some (Renc ++ leBytes ((k * (secretScalar lib seed % L) + r) % L) 32) := by
  intro pk r Renc k
  have hlen : (seed ++ pk).length = 64 := by simp [pk, hs, h.encode_length]
  have htake : (seed ++ pk).take 32 = seed := by
    rw [List.take_append_of_le_length (by omega), ← hs, List.take_length]
  have hdrop : (seed ++ pk).drop 32 = pk := by
    rw [List.drop_append_of_le_length (by omega), ← hs, List.drop_length, List.nil_append]
  unfold sign
  rw [if_neg (by simp [hlen])]
  simp only [htake, hdrop, h.smul_eq]
  rfl

/-- a Schnorr response `S = k·x + r mod L` for the key `x•B` and commitment `r•B` verifies. -/
theorem verify_constructed (h : Lawful lib) (x r : ℕ) (msg : Bytes) :
    verify lib (lib.encode (x • lib.base)) msg
      (lib.encode (r • lib.base) ++
        leBytes ((uniformScalar (lib.sha512 (lib.encode (r • lib.base) ++ lib.encode (x • lib.base) ++ msg))
          * (x % L) + r) % L) 32) = some true := by
  generalize hpk : lib.encode (x • lib.base) = pk
  generalize hRenc : lib.encode (r • lib.base) = Renc
  generalize hk : uniformScalar (lib.sha512 (Renc ++ pk ++ msg)) = k
  generalize hS : (k * (x % L) + r) % L = S
  have hpklen : pk.length = 32 := by rw [← hpk]; exact h.encode_length _
  have hRlen : Renc.length = 32 := by rw [← hRenc]; exact h.encode_length _
  have htake : (Renc ++ leBytes S 32).take 32 = Renc := by
    rw [List.take_append_of_le_length (by omega), ← hRlen, List.take_length]
  have hdropS : (Renc ++ leBytes S 32).drop 32 = leBytes S 32 := by
    rw [List.drop_append_of_le_length (by omega), ← hRlen, List.drop_length, List.nil_append]
  have hSlt : S < L := by rw [← hS]; exact Nat.mod_lt _ L_pos
  have hSval : leNat (leBytes S 32) = S := by
    apply leNat_leBytes_of_lt
    have h1 := L_lt_256
    have h2 : (256 : ℕ) ^ 32 = 2 ^ 256 := by norm_num
    omega
  rw [verify_eq_true_iff h _ _ _ hpklen]
  refine ⟨?_, ?_, x • lib.base, r • lib.base, ?_, ?_, ?_⟩
  · rw [List.length_append, hRlen, leBytes_length]
  · rw [hdropS, hSval]; exact hSlt
  · rw [← hpk]; exact h.decode_encode _
  · rw [htake, ← hRenc]; exact h.decode_encode _
  · have key : S • lib.base = r • lib.base + k • (x • lib.base) := by
      rw [← hS, h.mod_L_base, add_smul, mul_smul, h.mod_L_base, add_comm]
    rw [hdropS, hSval, htake, hk, key, smul_add]

/-- **E2** for every 32-byte seed and every message: key generation succeeds with a 64-byte key,
signing succeeds with a 64-byte signature, and the signature verifies under the public half. -/
theorem sign_verify (h : Lawful lib) (seed msg : Bytes) (hs : seed.length = 32) :
    ∃ sk sig, newKeyFromSeed lib seed = some sk ∧ sk.length = 64 ∧
      sign lib sk msg = some sig ∧ sig.length = 64 ∧
      verify lib (sk.drop 32) msg sig = some true := by
  have hk := newKeyFromSeed_eq' h seed hs
  obtain ⟨hsklen, _, _, hdrop⟩ := newKeyFromSeed_length h seed _ hk
  have hsig := sign_honest h seed msg hs
  simp only at hsig
  refine ⟨_, _, hk, hsklen, hsig, sign_length_of_encode h.encode_length _ _ _ hsig, ?_⟩
  rw [hdrop]
  exact verify_constructed h (secretScalar lib seed) _ msg

/-- the same statement for keys obtained from `newKeyFromSeed`, in functional form. -/
theorem sign_verify' (h : Lawful lib) (seed msg sk sig : Bytes)
    (hsk : newKeyFromSeed lib seed = some sk) (hsig : sign lib sk msg = some sig) :
    verify lib (sk.drop 32) msg sig = some true := by
  obtain ⟨_, hs, _, _⟩ := newKeyFromSeed_length h seed sk hsk
  obtain ⟨sk', sig', h1, _, h3, _, h5⟩ := sign_verify h seed msg hs
  rw [hsk] at h1; cases h1
  rw [hsig] at h3; cases h3
  exact h5

end Iota.Proofs.Ed
