/-
Non-vacuity, second part (answers an audit of Iota/Proofs/Ed/Witness.lean).

`Witness.lean` shows that the hypotheses `Lawful`, `Cofactor`, `OrderExact`, `EncodeCanonical`,
`EncodeDecode` are jointly satisfiable, but its library has a CONSTANT hash, so try-and-increment never
finds a point there (`Vrf.encodeToCurve witnessLib salt alpha = none`), and its group `ZMod L` has no
non-zero 8-torsion.  Hence the theorems whose hypotheses mention an accepted VRF proof, or a torsion
point, were only vacuously witnessed.  This file gives two more witnesses:

  A. `witnessLibH` = `ZMod L` with a NON-constant hash whose first 32 bytes always encode a non-zero
     group element: all five hypotheses hold, `encodeToCurve` succeeds for every input, and for every
     32-byte seed and every alpha the honest VRF proof exists and is accepted (so the hypotheses of
     C18 `complete`, `verify_iff`, `hash_routes_agree`, `unique_partial` are met by actual data); the
     same for Ed25519 sign-then-verify.
  B. `torsLibL` = `ZMod (8·L)` with base point `8` (order `L`) and torsion point `T = L ≠ 0`,
     `8•T = 0`: `Lawful` and `Cofactor` hold (`EncodeCanonical` does not and is not needed for C01), and
     honest signatures for a key `A` are ZIP-215-accepted for `A + T` although the cofactorless equation
     fails for `A + T` — at the level of the group equation and at the level of `verify` / `stdVerify`.

As in Witness.lean everything is proved for a variable modulus `n` and specialised to `n = L` last.
-/
import Mathlib.Data.ZMod.Basic
import Iota.Proofs.Ed
import Iota.Proofs.Primes

namespace Iota.Proofs.Ed
open Iota.Edwards (Bytes leNat leBytes L)
open Iota.Ed25519 (EdLib uniformScalar newKeyFromSeed sign)
open Iota

theorem L_gt_300 : 300 < L := Nat.lt_trans (by norm_num) L_gt_252

/-! ## A. a lawful library on which the VRF runs -/

/-- a toy "hash to a non-zero residue": a polynomial rolling hash of the message folded into
`1 … n-1`. -/
def hashNat (n : ℕ) (m : Bytes) : ℕ := (m.foldl (fun a b => a * 31 + b.toNat) 7) % (n - 1) + 1

/-- `zmodLib n` with a non-constant hash: the first 32 bytes of `sha512 m` are the canonical encoding
of the non-zero residue `hashNat n m`, the last 32 bytes are zero. -/
def zmodLibH (n : ℕ) : EdLib (ZMod n) where
  add a b := a + b
  neg a := -a
  zero := 0
  smul k a := k • a
  base := 1
  decode b := if b.length = 32 ∧ leNat b < n then some ((leNat b : ℕ) : ZMod n) else none
  encode a := leBytes a.val 32
  eq a b := decide (a = b)
  sha512 m := leBytes (hashNat n m) 32 ++ List.replicate 32 0

section
variable {n : ℕ}

theorem hashNat_pos (m : Bytes) : 0 < hashNat n m := Nat.succ_pos _

theorem hashNat_lt (hn : 2 ≤ n) (m : Bytes) : hashNat n m < n := by
  unfold hashNat
  have := Nat.mod_lt (m.foldl (fun a b => a * 31 + b.toNat) 7) (show 0 < n - 1 by omega)
  omega

theorem zmodLibH_sha512 (m : Bytes) :
    (zmodLibH n).sha512 m = leBytes (hashNat n m) 32 ++ List.replicate 32 0 := rfl

theorem zmodLibH_sha512_length (m : Bytes) : ((zmodLibH n).sha512 m).length = 64 := by
  rw [zmodLibH_sha512, List.length_append, leBytes_length, List.length_replicate]

theorem zmodLibH_lawful [NeZero n] (hn : n < 2 ^ 253) (hL : n = L) : Lawful (zmodLibH n) :=
  have h := zmodLib_lawful hn hL
  { add_eq := h.add_eq
    neg_eq := h.neg_eq
    zero_eq := h.zero_eq
    smul_eq := h.smul_eq
    eq_iff := h.eq_iff
    order_base := h.order_base
    decode_encode := h.decode_encode
    encode_length := h.encode_length
    sha512_length := zmodLibH_sha512_length }

theorem zmodLibH_cofactor (hL : n = L) : Cofactor (zmodLibH n) := zmodLib_cofactor hL

theorem zmodLibH_orderExact (hL : n = L) : OrderExact (zmodLibH n) := zmodLib_orderExact hL

theorem zmodLibH_encodeCanonical [NeZero n] (hn : n < 2 ^ 253) : EncodeCanonical (zmodLibH n) :=
  zmodLib_encodeCanonical hn

theorem zmodLibH_encodeDecode : EncodeDecode (zmodLibH n) := zmodLib_encodeDecode (n := n)

/-- the hash is not constant. -/
theorem zmodLibH_sha512_nonconst (hn : 300 < n) :
    (zmodLibH n).sha512 [] ≠ (zmodLibH n).sha512 [0] := by
  intro heq
  have h1 : hashNat n [] = 8 := by
    unfold hashNat
    rw [List.foldl_nil, Nat.mod_eq_of_lt (by omega)]
  have h2 : hashNat n [0] = 218 := by
    unfold hashNat
    rw [List.foldl_cons, List.foldl_nil, show 7 * 31 + (0 : UInt8).toNat = 217 from rfl,
      Nat.mod_eq_of_lt (by omega)]
  rw [zmodLibH_sha512, zmodLibH_sha512, h1, h2] at heq
  have := congrArg (fun l => leNat (l.take 32)) heq
  simp only [List.take_left' (leBytes_length _ 32)] at this
  rw [leNat_leBytes_of_lt _ _ (by norm_num), leNat_leBytes_of_lt _ _ (by norm_num)] at this
  exact absurd this (by decide)

/-- the first 32 bytes of every hash are the encoding of the residue `hashNat n m`. -/
theorem zmodLibH_sha512_take (hn : 2 ≤ n) (m : Bytes) :
    ((zmodLibH n).sha512 m).take Vrf.ptLen = (zmodLibH n).encode ((hashNat n m : ℕ) : ZMod n) := by
  rw [zmodLibH_sha512, show Vrf.ptLen = 32 from rfl, List.take_left' (leBytes_length _ 32)]
  show _ = leBytes (((hashNat n m : ℕ) : ZMod n)).val 32
  rw [ZMod.val_natCast_of_lt (hashNat_lt hn m)]

/-- eight times a non-zero residue is non-zero (prime modulus above 8). -/
theorem zmod_eight_nsmul_ne_zero (hp : n.Prime) (h8 : 8 < n) (x : ℕ) (h0 : 0 < x) (hx : x < n) :
    (8 : ℕ) • ((x : ℕ) : ZMod n) ≠ 0 := by
  rw [nsmul_eq_mul, ← Nat.cast_mul, Ne, ZMod.natCast_eq_zero_iff, hp.dvd_mul]
  rintro (h | h)
  · exact absurd (Nat.le_of_dvd (by norm_num) h) (by omega)
  · exact absurd (Nat.le_of_dvd h0 h) (by omega)

/-- **try-and-increment succeeds** on `zmodLibH n` for every salt and alpha (already at counter 0). -/
theorem zmodLibH_encodeToCurve [NeZero n] (hn : n < 2 ^ 253) (hL : n = L) (hp : n.Prime)
    (salt alpha : Bytes) : ∃ H, Vrf.encodeToCurve (zmodLibH n) salt alpha = some H := by
  have h := zmodLibH_lawful hn hL
  have hcan := zmodLibH_encodeCanonical hn
  have h8 : 8 < n := by
    have := L_gt_252
    rw [← hL] at this
    exact Nat.lt_trans (by norm_num) this
  rw [← Option.isSome_iff_exists]
  unfold Vrf.encodeToCurve
  rw [List.findSome?_isSome_iff]
  refine ⟨0, by simp, ?_⟩
  simp only
  rw [zmodLibH_sha512_take (by omega), pointFromCanonicalBytes_encode h hcan]
  simp only
  rw [if_neg]
  · rfl
  · rw [h.eq_zero_iff, h.smul_eq]
    exact zmod_eight_nsmul_ne_zero hp h8 _ (hashNat_pos _) (hashNat_lt (by omega) _)

end

/-! ## B. a lawful library with non-trivial 8-torsion -/

/-- the cyclic group `ZMod (8·n)` with base point `8` (of order `n`), permissive decoding of any
32-byte representative below `8·n`, and a toy hash that sees only the length of its input (an odd
number below 256, as 64 little-endian bytes) — so that two different keys of the same length give the
same hash scalar, which is what the hypothesis of `torsion_verdicts` asks. -/
def torsLib (n : ℕ) : EdLib (ZMod (8 * n)) where
  add a b := a + b
  neg a := -a
  zero := 0
  smul k a := k • a
  base := ((8 : ℕ) : ZMod (8 * n))
  decode b :=
    if b.length = 32 ∧ leNat b < 8 * n then some ((leNat b : ℕ) : ZMod (8 * n)) else none
  encode a := leBytes a.val 32
  eq a b := decide (a = b)
  sha512 m := leBytes (2 * (m.length % 128) + 1) 64

section
variable {n : ℕ}

theorem torsLib_decode (b : Bytes) :
    (torsLib n).decode b =
      if b.length = 32 ∧ leNat b < 8 * n then some ((leNat b : ℕ) : ZMod (8 * n)) else none := rfl

theorem torsLib_encode (a : ZMod (8 * n)) : (torsLib n).encode a = leBytes a.val 32 := rfl

theorem torsLib_base : (torsLib n).base = ((8 : ℕ) : ZMod (8 * n)) := rfl

theorem torsLib_sha512 (m : Bytes) :
    (torsLib n).sha512 m = leBytes (2 * (m.length % 128) + 1) 64 := rfl

theorem neZero_eight_mul [NeZero n] : NeZero (8 * n) :=
  ⟨Nat.mul_ne_zero (by norm_num) (NeZero.ne n)⟩

theorem pow_256_lt : (2 : ℕ) ^ 256 = 256 ^ 32 := by norm_num

theorem torsLib_lawful [NeZero n] (hn : 8 * n < 2 ^ 256) (hL : n = L) : Lawful (torsLib n) :=
  haveI := neZero_eight_mul (n := n)
  { add_eq := fun _ _ => rfl
    neg_eq := fun _ => rfl
    zero_eq := rfl
    smul_eq := fun _ _ => rfl
    eq_iff := fun a b => by simp [torsLib]
    order_base := by
      rw [← hL, torsLib_base, nsmul_eq_mul, ← Nat.cast_mul, ZMod.natCast_eq_zero_iff, Nat.mul_comm]
    decode_encode := fun a => by
      have hlt : a.val < 8 * n := ZMod.val_lt a
      have hval : leNat (leBytes a.val 32) = a.val :=
        leNat_leBytes_of_lt _ _ (by rw [← pow_256_lt]; exact Nat.lt_trans hlt hn)
      rw [torsLib_encode, torsLib_decode, if_pos ⟨leBytes_length _ _, by rw [hval]; exact hlt⟩, hval,
        ZMod.natCast_zmod_val]
    encode_length := fun _ => leBytes_length _ _
    sha512_length := fun _ => leBytes_length _ _ }

theorem torsLib_cofactor (hL : n = L) : Cofactor (torsLib n) := by
  intro a
  rw [← hL, nsmul_eq_mul, ZMod.natCast_self, zero_mul]

/-- the torsion point `T = n`: `8•T = 0` and `T ≠ 0`. -/
theorem torsLib_torsion (hn : 0 < n) :
    (8 : ℕ) • ((n : ℕ) : ZMod (8 * n)) = 0 ∧ ((n : ℕ) : ZMod (8 * n)) ≠ 0 := by
  constructor
  · rw [nsmul_eq_mul, ← Nat.cast_mul, ZMod.natCast_self]
  · rw [Ne, ZMod.natCast_eq_zero_iff]
    intro h
    have := Nat.le_of_dvd hn h
    omega

/-- `k•T = 0` only for `8 ∣ k`. -/
theorem torsLib_smul_torsion_ne (hn : 0 < n) (k : ℕ) (hk : k % 8 ≠ 0) :
    k • ((n : ℕ) : ZMod (8 * n)) ≠ 0 := by
  rw [nsmul_eq_mul, ← Nat.cast_mul, Ne, ZMod.natCast_eq_zero_iff]
  intro h
  exact hk (Nat.mod_eq_zero_of_dvd (Nat.dvd_of_mul_dvd_mul_right hn h))

/-- **the ZIP-215 equation is strictly weaker than the cofactorless one** on `torsLib n`: for the key
`A = a•B`, commitment `R = r•B`, any scalar `k` not divisible by 8 and the honest response
`S = r + k·a`, the cofactored equation holds for `A` AND for the torsion-shifted key `A + T`, the
cofactorless equation holds for `A`, and FAILS for `A + T`. -/
theorem torsLib_zip215_strict (hn : 0 < n) (a r k : ℕ) (hk : k % 8 ≠ 0) :
    let lib := torsLib n
    let T : ZMod (8 * n) := ((n : ℕ) : ZMod (8 * n))
    let A := a • lib.base
    let R := r • lib.base
    let S := r + k * a
    (8 : ℕ) • T = 0 ∧ T ≠ 0 ∧
    Zip215Eq lib S k A R ∧ Zip215Eq lib S k (A + T) R ∧
    (Zip215Eq lib S k (A + T) R ↔ Zip215Eq lib S k A R) ∧
    (8 : ℕ) • (S • lib.base) = (8 : ℕ) • R + (8 : ℕ) • (k • (A + T)) ∧
    S • lib.base = R + k • A ∧ S • lib.base ≠ R + k • (A + T) := by
  intro lib T A R S
  obtain ⟨hT, hT0⟩ := torsLib_torsion hn
  have hstd : S • lib.base = R + k • A := by
    show (r + k * a) • lib.base = r • lib.base + k • (a • lib.base)
    rw [add_smul, mul_smul]
  have hA : Zip215Eq lib S k A R := by
    unfold Zip215Eq; rw [hstd, smul_add]
  have hiff : Zip215Eq lib S k (A + T) R ↔ Zip215Eq lib S k A R :=
    zip215Eq_congr S k (by rw [smul_add, hT, add_zero]) rfl
  refine ⟨hT, hT0, hA, hiff.mpr hA, hiff, hiff.mpr hA, hstd, ?_⟩
  intro hbad
  rw [smul_add, ← add_assoc, ← hstd] at hbad
  exact torsLib_smul_torsion_ne hn k hk (left_eq_add.mp hbad)

end

/-! ### generic consequences (any lawful library): the honest proof, with everything `unique_partial` asks -/

section
variable {G : Type} [AddCommGroup G] {lib : EdLib G}

/-- completeness in detailed form: the key, the proof `prove` returns (it is `honestProof`), its
acceptance, its decoding, and the small-order condition of `unique_partial` with
`x = secretScalar lib seed` (here `Γ − x•H = 0`). -/
theorem vrf_complete_detailed (h : Lawful lib) (hcof : Cofactor lib) (hcan : EncodeCanonical lib)
    (hord : OrderExact lib) (hprime : Nat.Prime L) (seed alpha : Bytes) (hs : seed.length = 32) (H : G)
    (hH : Vrf.encodeToCurve lib (lib.encode (publicPoint lib seed)) alpha = some H) :
    ∃ sk D, newKeyFromSeed lib seed = some sk ∧ (sk.drop 32).length = 32 ∧
      Vrf.encodeToCurve lib (sk.drop 32) alpha = some H ∧
      Vrf.prove lib sk alpha = some D ∧
      Vrf.verify lib (sk.drop 32) alpha (D.bytes lib) = some (true, D.hash lib) ∧
      Vrf.proofToHash lib (D.bytes lib) = some (D.hash lib) ∧
      Vrf.Proof.setBytes lib (D.bytes lib) = some D ∧
      (8 : ℕ) • (D.gamma - secretScalar lib seed • H) = 0 := by
  have hk := newKeyFromSeed_eq' h seed hs
  have hdrop : (seed ++ lib.encode (publicPoint lib seed)).drop 32 = lib.encode (publicPoint lib seed) :=
    List.drop_left' hs
  have hH' : Vrf.encodeToCurve lib ((seed ++ lib.encode (publicPoint lib seed)).drop 32) alpha = some H := by
    rw [hdrop]; exact hH
  obtain ⟨pr, hpr, hv, hph⟩ := vrf_complete h hcof hcan hord hprime seed alpha hs _ hk H hH'
  have hpr' := prove_honest h seed alpha hs H hH
  rw [hpr] at hpr'
  have hD : pr = honestProof lib seed H := Option.some.inj hpr'
  refine ⟨_, pr, hk, ?_, hH', hpr, hv, hph, ?_, ?_⟩
  · rw [hdrop]; exact h.encode_length _
  · rw [hD]
    exact setBytes_bytes h hcan _ (Nat.mod_lt _ L_pos) (challenge_lt _ _ _ _ _)
  · rw [hD]
    show (8 : ℕ) • (secretScalar lib seed • H - secretScalar lib seed • H) = 0
    rw [sub_self, smul_zero]

/-- `Point.Bytes` is injective (it has the left inverse `decode`). -/
theorem encode_injective (h : Lawful lib) {a b : G} (hab : lib.encode a = lib.encode b) : a = b := by
  have ha := h.decode_encode a
  rw [hab, h.decode_encode b] at ha
  exact (Option.some.inj ha).symm

/-- the honest Schnorr response also passes the cofactorless check (cf. `verify_constructed`). -/
theorem stdVerify_constructed (h : Lawful lib) (x r : ℕ) (msg : Bytes) :
    stdVerify lib (lib.encode (x • lib.base)) msg
      (lib.encode (r • lib.base) ++
        leBytes ((uniformScalar (lib.sha512 (lib.encode (r • lib.base) ++ lib.encode (x • lib.base) ++ msg))
          * (x % L) + r) % L) 32) = true := by
  generalize hpk : lib.encode (x • lib.base) = pk
  generalize hRenc : lib.encode (r • lib.base) = Renc
  generalize hk : uniformScalar (lib.sha512 (Renc ++ pk ++ msg)) = k
  generalize hS : (k * (x % L) + r) % L = S
  have hpklen : pk.length = 32 := by rw [← hpk]; exact h.encode_length _
  have hRlen : Renc.length = 32 := by rw [← hRenc]; exact h.encode_length _
  have htake : (Renc ++ leBytes S 32).take 32 = Renc := List.take_left' hRlen
  have hdropS : (Renc ++ leBytes S 32).drop 32 = leBytes S 32 := List.drop_left' hRlen
  have hSlt : S < L := by rw [← hS]; exact Nat.mod_lt _ L_pos
  have hSval : leNat (leBytes S 32) = S :=
    leNat_leBytes_of_lt _ _ (by rw [pow_256_32]; exact Nat.lt_trans hSlt L_lt_256)
  rw [stdVerify_iff h]
  refine ⟨hpklen, ?_, ?_, x • lib.base, ?_, ?_⟩
  · rw [List.length_append, hRlen, leBytes_length]
  · rw [hdropS, hSval]; exact hSlt
  · rw [← hpk]; exact h.decode_encode _
  · have key : S • lib.base = r • lib.base + k • (x • lib.base) := by
      rw [← hS, h.mod_L_base, add_smul, mul_smul, h.mod_L_base, add_comm]
    unfold hramScalar
    rw [hdropS, hSval, htake, hk, key, add_sub_cancel_right, hRenc]

/-- a signature that passes the cofactorless check for the key `A` fails it for a key `A + T` with the
same hash scalar `k` as soon as `k•T ≠ 0`. -/
theorem stdVerify_torsion_false (h : Lawful lib) (pk pk' msg sig : Bytes) (A T : G)
    (hA : lib.decode pk = some A) (hA' : lib.decode pk' = some (A + T))
    (hk : hramScalar lib pk msg sig = hramScalar lib pk' msg sig)
    (hkT : hramScalar lib pk msg sig • T ≠ 0) (hstd : stdVerify lib pk msg sig = true) :
    stdVerify lib pk' msg sig = false := by
  rw [← Bool.not_eq_true]
  intro hstd'
  obtain ⟨_, _, _, A1, hA1, he1⟩ := (stdVerify_iff h pk msg sig).mp hstd
  obtain ⟨_, _, _, A2, hA2, he2⟩ := (stdVerify_iff h pk' msg sig).mp hstd'
  rw [hA] at hA1; cases hA1
  rw [hA'] at hA2; cases hA2
  rw [← hk] at he2
  have heq := encode_injective h (he1.trans he2.symm)
  rw [smul_add] at heq
  exact hkT (left_eq_add.mp (sub_right_inj.mp heq))

end

/-! ### verdict level on `torsLib`: `verify` accepts for `A` and `A + T`, the cofactorless check only for `A` -/

section
variable {n : ℕ}

/-- the toy hash sees only the length, so keys of equal length give the same hash scalar … -/
theorem torsLib_hram_eq (pk pk' msg sig : Bytes) (h : pk.length = pk'.length) :
    hramScalar (torsLib n) pk msg sig = hramScalar (torsLib n) pk' msg sig := by
  unfold hramScalar
  rw [torsLib_sha512, torsLib_sha512]
  simp only [List.length_append, h]

/-- … and that scalar is odd (so it does not kill the torsion point). -/
theorem torsLib_hram_mod8 (pk msg sig : Bytes) : hramScalar (torsLib n) pk msg sig % 8 ≠ 0 := by
  unfold hramScalar uniformScalar
  rw [torsLib_sha512]
  have hv := Nat.mod_lt (sig.take 32 ++ pk ++ msg).length (show 0 < 128 by norm_num)
  generalize (sig.take 32 ++ pk ++ msg).length % 128 = v at hv ⊢
  have h256 : 2 * v + 1 < 256 := by omega
  rw [leNat_leBytes_of_lt _ _ (Nat.lt_of_lt_of_le h256 (by norm_num)),
    Nat.mod_eq_of_lt (Nat.lt_trans (Nat.lt_trans h256 (by norm_num)) L_gt_300)]
  omega

/-- **verdicts**: for the honest key `A = x•B`, its torsion-shifted companion `A + T` (a different
32-byte key), any message and the honest signature under `A`:
`verify` accepts under both keys, the cofactorless `stdVerify` accepts under `A` and rejects under
`A + T`.  (All hypotheses of `torsion_verdicts`, first part, hold here with `T ≠ 0`.) -/
theorem torsLib_verify_strict [NeZero n] (hn8 : 8 * n < 2 ^ 256) (hL : n = L) (x r : ℕ) (msg : Bytes) :
    let lib := torsLib n
    let T : ZMod (8 * n) := ((n : ℕ) : ZMod (8 * n))
    let A := x • lib.base
    let pk := lib.encode A
    let pk' := lib.encode (A + T)
    let Renc := lib.encode (r • lib.base)
    let sig := Renc ++ leBytes ((uniformScalar (lib.sha512 (Renc ++ pk ++ msg)) * (x % L) + r) % L) 32
    pk.length = 32 ∧ pk'.length = 32 ∧ pk ≠ pk' ∧
    lib.decode pk = some A ∧ lib.decode pk' = some (A + T) ∧ (8 : ℕ) • T = 0 ∧ T ≠ 0 ∧
    hramScalar lib pk msg sig = hramScalar lib pk' msg sig ∧
    Ed25519.verify lib pk msg sig = some true ∧ Ed25519.verify lib pk' msg sig = some true ∧
    stdVerify lib pk msg sig = true ∧ stdVerify lib pk' msg sig = false := by
  intro lib T A pk pk' Renc sig
  have h : Lawful lib := torsLib_lawful hn8 hL
  have hn : 0 < n := Nat.pos_of_ne_zero (NeZero.ne n)
  obtain ⟨hT, hT0⟩ := torsLib_torsion hn
  have hpk : pk.length = 32 := h.encode_length _
  have hpk' : pk'.length = 32 := h.encode_length _
  have hA : lib.decode pk = some A := h.decode_encode _
  have hA' : lib.decode pk' = some (A + T) := h.decode_encode _
  have hk : hramScalar lib pk msg sig = hramScalar lib pk' msg sig :=
    torsLib_hram_eq pk pk' msg sig (hpk.trans hpk'.symm)
  have hv : Ed25519.verify lib pk msg sig = some true := verify_constructed h x r msg
  have hs : stdVerify lib pk msg sig = true := stdVerify_constructed h x r msg
  refine ⟨hpk, hpk', ?_, hA, hA', hT, hT0, hk, hv, ?_, hs, ?_⟩
  · intro heq
    exact hT0 (left_eq_add.mp (encode_injective h heq))
  · exact (verify_torsion_key h pk pk' msg sig hpk hpk' A T hA hA' hT hk).mp hv
  · exact stdVerify_torsion_false h pk pk' msg sig A T hA hA' hk
      (torsLib_smul_torsion_ne hn _ (torsLib_hram_mod8 pk msg sig)) hs

/-- the same for the `R` half (second part of `torsion_verdicts`): replacing the commitment encoding of
`R` by that of `R + T` keeps `verify` accepting and makes the cofactorless check reject. -/
theorem torsLib_verify_strict_R [NeZero n] (hn8 : 8 * n < 2 ^ 256) (hL : n = L) (x r : ℕ) (msg : Bytes) :
    let lib := torsLib n
    let T : ZMod (8 * n) := ((n : ℕ) : ZMod (8 * n))
    let pk := lib.encode (x • lib.base)
    let R := r • lib.base
    let Sb := leBytes ((uniformScalar (lib.sha512 (lib.encode R ++ pk ++ msg)) * (x % L) + r) % L) 32
    let sig := lib.encode R ++ Sb
    let sig' := lib.encode (R + T) ++ Sb
    sig.length = 64 ∧ sig'.length = 64 ∧ sig ≠ sig' ∧ sig.drop 32 = sig'.drop 32 ∧
    lib.decode (sig.take 32) = some R ∧ lib.decode (sig'.take 32) = some (R + T) ∧
    (8 : ℕ) • T = 0 ∧ T ≠ 0 ∧
    hramScalar lib pk msg sig = hramScalar lib pk msg sig' ∧
    Ed25519.verify lib pk msg sig = some true ∧ Ed25519.verify lib pk msg sig' = some true ∧
    stdVerify lib pk msg sig = true ∧ stdVerify lib pk msg sig' = false := by
  intro lib T pk R Sb sig sig'
  have h : Lawful lib := torsLib_lawful hn8 hL
  have hn : 0 < n := Nat.pos_of_ne_zero (NeZero.ne n)
  obtain ⟨hT, hT0⟩ := torsLib_torsion hn
  have hpk : pk.length = 32 := h.encode_length _
  have hR : (lib.encode R).length = 32 := h.encode_length _
  have hR' : (lib.encode (R + T)).length = 32 := h.encode_length _
  have hlen : sig.length = 64 := by
    show (lib.encode R ++ Sb).length = 64
    rw [List.length_append, hR, leBytes_length]
  have hlen' : sig'.length = 64 := by
    show (lib.encode (R + T) ++ Sb).length = 64
    rw [List.length_append, hR', leBytes_length]
  have htake : sig.take 32 = lib.encode R := List.take_left' hR
  have htake' : sig'.take 32 = lib.encode (R + T) := List.take_left' hR'
  have hdrop : sig.drop 32 = sig'.drop 32 := by
    show (lib.encode R ++ Sb).drop 32 = (lib.encode (R + T) ++ Sb).drop 32
    rw [List.drop_left' hR, List.drop_left' hR']
  have hdR : lib.decode (sig.take 32) = some R := by rw [htake]; exact h.decode_encode _
  have hdR' : lib.decode (sig'.take 32) = some (R + T) := by rw [htake']; exact h.decode_encode _
  have hk : hramScalar lib pk msg sig = hramScalar lib pk msg sig' := by
    unfold hramScalar
    rw [torsLib_sha512, torsLib_sha512, htake, htake']
    simp only [List.length_append, hR, hR']
  have hv : Ed25519.verify lib pk msg sig = some true := verify_constructed h x r msg
  have hs : stdVerify lib pk msg sig = true := stdVerify_constructed h x r msg
  have hne : lib.encode R ≠ lib.encode (R + T) := fun heq =>
    hT0 (left_eq_add.mp (encode_injective h heq))
  refine ⟨hlen, hlen', ?_, hdrop, hdR, hdR', hT, hT0, hk, hv, ?_, hs, ?_⟩
  · intro heq
    apply hne
    rw [← htake, ← htake', heq]
  · exact (verify_torsion_R h pk msg sig sig' hpk hlen hlen' hdrop R T hdR hdR' hT hk).mp hv
  · rw [← Bool.not_eq_true]
    intro hs'
    obtain ⟨_, _, _, A1, hA1, he1⟩ := (stdVerify_iff h pk msg sig).mp hs
    obtain ⟨_, _, _, A2, hA2, he2⟩ := (stdVerify_iff h pk msg sig').mp hs'
    rw [hA1] at hA2; cases hA2
    rw [← hdrop, ← hk, he1, htake, htake'] at he2
    exact hne he2

end

/-! ### the witness `n = L` -/

/-- the cyclic group of order `L` with generator `1`, canonical encoding, and a non-constant hash into
the non-zero residues. -/
def witnessLibH : EdLib (ZMod L) := zmodLibH L

theorem witnessH_lawful : Lawful witnessLibH := zmodLibH_lawful L_lt_253 rfl
theorem witnessH_cofactor : Cofactor witnessLibH := zmodLibH_cofactor rfl
theorem witnessH_orderExact : OrderExact witnessLibH := zmodLibH_orderExact rfl
theorem witnessH_encodeCanonical : EncodeCanonical witnessLibH := zmodLibH_encodeCanonical L_lt_253
theorem witnessH_encodeDecode : EncodeDecode witnessLibH := zmodLibH_encodeDecode

theorem witnessH_sha512_nonconst : witnessLibH.sha512 [] ≠ witnessLibH.sha512 [0] :=
  zmodLibH_sha512_nonconst L_gt_300

/-- **try-and-increment never panics on the witness.** -/
theorem witness_encodeToCurve (salt alpha : Bytes) :
    ∃ H, Vrf.encodeToCurve witnessLibH salt alpha = some H :=
  zmodLibH_encodeToCurve L_lt_253 rfl Iota.Proofs.Primes.prime_L salt alpha

/-- **the VRF runs on the witness**, for EVERY 32-byte seed and EVERY alpha: key, hashed point, proof,
acceptance with the proof's hash, agreement of `proofToHash`, decoding of the proof bytes, and the
small-order hypothesis of `unique_partial` for `x = secretScalar`. -/
theorem witness_vrf_runs (seed alpha : Bytes) (hs : seed.length = 32) :
    ∃ sk H D, newKeyFromSeed witnessLibH seed = some sk ∧ (sk.drop 32).length = 32 ∧
      Vrf.encodeToCurve witnessLibH (sk.drop 32) alpha = some H ∧
      Vrf.prove witnessLibH sk alpha = some D ∧
      Vrf.verify witnessLibH (sk.drop 32) alpha (D.bytes witnessLibH) = some (true, D.hash witnessLibH) ∧
      Vrf.proofToHash witnessLibH (D.bytes witnessLibH) = some (D.hash witnessLibH) ∧
      Vrf.Proof.setBytes witnessLibH (D.bytes witnessLibH) = some D ∧
      (8 : ℕ) • (D.gamma - secretScalar witnessLibH seed • H) = 0 := by
  obtain ⟨H, hH⟩ := witness_encodeToCurve (witnessLibH.encode (publicPoint witnessLibH seed)) alpha
  obtain ⟨sk, D, h1⟩ := vrf_complete_detailed witnessH_lawful witnessH_cofactor witnessH_encodeCanonical
    witnessH_orderExact Iota.Proofs.Primes.prime_L seed alpha hs H hH
  exact ⟨sk, H, D, h1⟩

/-- the instance asked for: an actual accepted proof, from the general completeness theorem. -/
theorem witness_vrf_complete :
    ∃ seed alpha sk pr β, newKeyFromSeed witnessLibH seed = some sk ∧
      Vrf.prove witnessLibH sk alpha = some pr ∧
      Vrf.verify witnessLibH (sk.drop 32) alpha (pr.bytes witnessLibH) = some (true, β) := by
  obtain ⟨sk, H, D, h1, _, _, h4, h5, _⟩ :=
    witness_vrf_runs (List.replicate 32 0) [] List.length_replicate
  exact ⟨_, _, sk, D, _, h1, h4, h5⟩

/-- **Ed25519 runs on the witness**: every 32-byte seed and every message. -/
theorem witness_ed_runs (seed msg : Bytes) (hs : seed.length = 32) :
    ∃ sk sig, newKeyFromSeed witnessLibH seed = some sk ∧ sk.length = 64 ∧
      sign witnessLibH sk msg = some sig ∧ sig.length = 64 ∧
      Ed25519.verify witnessLibH (sk.drop 32) msg sig = some true :=
  E2_sign_verify witnessH_lawful seed msg hs

theorem witness_ed_complete :
    ∃ seed msg sk sig, newKeyFromSeed witnessLibH seed = some sk ∧
      sign witnessLibH sk msg = some sig ∧
      Ed25519.verify witnessLibH (sk.drop 32) msg sig = some true := by
  obtain ⟨sk, sig, h1, _, h3, _, h5⟩ := witness_ed_runs (List.replicate 32 0) [] List.length_replicate
  exact ⟨_, _, sk, sig, h1, h3, h5⟩

/-! ### the torsion witness `n = L` -/

theorem eight_L_lt : 8 * L < 2 ^ 256 := by
  have h := L_lt_253
  generalize L = l at h
  omega

/-- `ZMod (8·L)` with base point `8` of order `L`. -/
def torsLibL : EdLib (ZMod (8 * L)) := torsLib L

/-- the torsion point: `L` in `ZMod (8·L)` (order 8). -/
def torsT : ZMod (8 * L) := ((L : ℕ) : ZMod (8 * L))

theorem torsL_lawful : Lawful torsLibL := torsLib_lawful eight_L_lt rfl
theorem torsL_cofactor : Cofactor torsLibL := torsLib_cofactor rfl
theorem torsT_torsion : (8 : ℕ) • torsT = 0 ∧ torsT ≠ 0 := torsLib_torsion L_pos

/-- **non-trivial 8-torsion is compatible with `Lawful` and `Cofactor`.** -/
theorem torsion_witness :
    ∃ (G : Type) (_ : AddCommGroup G) (lib : EdLib G) (T : G),
      Lawful lib ∧ Cofactor lib ∧ (8 : ℕ) • T = 0 ∧ T ≠ 0 :=
  ⟨ZMod (8 * L), inferInstance, torsLibL, torsT, torsL_lawful, torsL_cofactor, torsT_torsion⟩

/-- concrete small numbers: `A = B`, `R = B`, `k = 1`, `S = 2`, `T = L`.  Both cofactored equations hold
(so `torsion_invisible` is instantiated with `T ≠ 0` and both sides true), the cofactorless equation
holds for `A` and fails for `A + T`. -/
theorem torsion_zip215_concrete :
    let B := torsLibL.base
    Zip215Eq torsLibL 2 1 B B ∧ Zip215Eq torsLibL 2 1 (B + torsT) B ∧
    (Zip215Eq torsLibL 2 1 (B + torsT) B ↔ Zip215Eq torsLibL 2 1 B B) ∧
    (8 : ℕ) • ((2 : ℕ) • B) = (8 : ℕ) • B + (8 : ℕ) • ((1 : ℕ) • (B + torsT)) ∧
    (2 : ℕ) • B = B + (1 : ℕ) • B ∧ (2 : ℕ) • B ≠ B + (1 : ℕ) • (B + torsT) := by
  have h := torsLib_zip215_strict (n := L) L_pos 1 1 1 (by decide)
  simp only [one_smul, Nat.mul_one, Nat.reduceAdd] at h
  intro B
  simp only [one_smul]
  exact ⟨h.2.2.1, h.2.2.2.1, h.2.2.2.2.1, h.2.2.2.2.2.1, h.2.2.2.2.2.2.1, h.2.2.2.2.2.2.2⟩

/-! ## C. packaged statements for the `Props` files -/

/-- **non-vacuity of C18 (and C07)**: there is a library satisfying all five hypotheses, with a
non-constant hash, on which try-and-increment always succeeds and, for every 32-byte seed and every
alpha, `newKeyFromSeed`, `prove`, `verify` (accepting, with the proof's hash), `proofToHash`,
`Proof.setBytes` all succeed, with the small-order hypothesis of `unique_partial` satisfied for
`x = secretScalar`; and on which every Ed25519 signature made by `sign` verifies. -/
theorem lawful_witness_vrf_runs :
    ∃ (G : Type) (_ : AddCommGroup G) (lib : EdLib G),
      Lawful lib ∧ Cofactor lib ∧ OrderExact lib ∧ EncodeCanonical lib ∧ EncodeDecode lib ∧
      (∃ m m', lib.sha512 m ≠ lib.sha512 m') ∧
      (∀ salt alpha, ∃ H, Vrf.encodeToCurve lib salt alpha = some H) ∧
      (∀ seed alpha : Bytes, seed.length = 32 →
        ∃ sk H D, newKeyFromSeed lib seed = some sk ∧ (sk.drop 32).length = 32 ∧
          Vrf.encodeToCurve lib (sk.drop 32) alpha = some H ∧
          Vrf.prove lib sk alpha = some D ∧
          Vrf.verify lib (sk.drop 32) alpha (D.bytes lib) = some (true, D.hash lib) ∧
          Vrf.proofToHash lib (D.bytes lib) = some (D.hash lib) ∧
          Vrf.Proof.setBytes lib (D.bytes lib) = some D ∧
          (8 : ℕ) • (D.gamma - secretScalar lib seed • H) = 0) ∧
      (∀ seed msg : Bytes, seed.length = 32 →
        ∃ sk sig, newKeyFromSeed lib seed = some sk ∧ sk.length = 64 ∧
          sign lib sk msg = some sig ∧ sig.length = 64 ∧
          Ed25519.verify lib (sk.drop 32) msg sig = some true) :=
  ⟨ZMod L, inferInstance, witnessLibH, witnessH_lawful, witnessH_cofactor, witnessH_orderExact,
    witnessH_encodeCanonical, witnessH_encodeDecode, ⟨[], [0], witnessH_sha512_nonconst⟩,
    witness_encodeToCurve, witness_vrf_runs, witness_ed_runs⟩

/-- **non-vacuity of the torsion theorems of C01**: there is a lawful cofactor-8 library with a torsion
point `T ≠ 0`, `8•T = 0`, such that
 (1) for some `S k A R` both `Zip215Eq … (A + T) R` and `Zip215Eq … A R` hold while the cofactorless
     equation holds for `A` and fails for `A + T`;
 (2) for every honest key `A = x•B` and every message there are two different 32-byte keys
     decoding to `A` and `A + T` with the same hash scalar, under both of which `verify` accepts the
     honest signature, whereas the cofactorless `stdVerify` accepts under the first and rejects under
     the second: the ZIP-215 acceptance set is strictly larger;
 (3) likewise for the `R` half of the signature (`R` versus `R + T`, same `S`). -/
theorem lawful_witness_torsion :
    ∃ (G : Type) (_ : AddCommGroup G) (lib : EdLib G) (T : G),
      Lawful lib ∧ Cofactor lib ∧ (8 : ℕ) • T = 0 ∧ T ≠ 0 ∧
      (∃ (S k : ℕ) (A R : G), Zip215Eq lib S k A R ∧ Zip215Eq lib S k (A + T) R ∧
        S • lib.base = R + k • A ∧ S • lib.base ≠ R + k • (A + T)) ∧
      (∀ (x : ℕ) (msg : Bytes), ∃ (pk pk' sig : Bytes),
        pk.length = 32 ∧ pk'.length = 32 ∧ pk ≠ pk' ∧
        lib.decode pk = some (x • lib.base) ∧ lib.decode pk' = some (x • lib.base + T) ∧
        hramScalar lib pk msg sig = hramScalar lib pk' msg sig ∧
        Ed25519.verify lib pk msg sig = some true ∧ Ed25519.verify lib pk' msg sig = some true ∧
        stdVerify lib pk msg sig = true ∧ stdVerify lib pk' msg sig = false) ∧
      (∀ (x r : ℕ) (msg : Bytes), ∃ (pk sig sig' : Bytes),
        pk.length = 32 ∧ lib.decode pk = some (x • lib.base) ∧
        sig.length = 64 ∧ sig'.length = 64 ∧ sig ≠ sig' ∧
        sig.drop 32 = sig'.drop 32 ∧ lib.decode (sig.take 32) = some (r • lib.base) ∧
        lib.decode (sig'.take 32) = some (r • lib.base + T) ∧
        hramScalar lib pk msg sig = hramScalar lib pk msg sig' ∧
        Ed25519.verify lib pk msg sig = some true ∧ Ed25519.verify lib pk msg sig' = some true ∧
        stdVerify lib pk msg sig = true ∧ stdVerify lib pk msg sig' = false) := by
  refine ⟨ZMod (8 * L), inferInstance, torsLibL, torsT, torsL_lawful, torsL_cofactor,
    torsT_torsion.1, torsT_torsion.2, ?_, ?_, ?_⟩
  · have h := torsion_zip215_concrete
    exact ⟨2, 1, _, _, h.1, h.2.1, h.2.2.2.2.1, h.2.2.2.2.2⟩
  · intro x msg
    have h := torsLib_verify_strict (n := L) eight_L_lt rfl x 1 msg
    exact ⟨_, _, _, h.1, h.2.1, h.2.2.1, h.2.2.2.1, h.2.2.2.2.1, h.2.2.2.2.2.2.2.1,
      h.2.2.2.2.2.2.2.2.1, h.2.2.2.2.2.2.2.2.2.1, h.2.2.2.2.2.2.2.2.2.2.1, h.2.2.2.2.2.2.2.2.2.2.2⟩
  · intro x r msg
    obtain ⟨h1, h2, h3, h4, h5, h6, _, _, h9, h10, h11, h12, h13⟩ :=
      torsLib_verify_strict_R (n := L) eight_L_lt rfl x r msg
    exact ⟨_, _, _, torsL_lawful.encode_length _, torsL_lawful.decode_encode _,
      h1, h2, h3, h4, h5, h6, h9, h10, h11, h12, h13⟩

end Iota.Proofs.Ed
