/-
Ed25519 (pkg/ed25519, ZIP-215 verification) and ECVRF-EDWARDS25519-SHA512-TAI (pkg/vrf): proofs about
`Iota.Model.Ed25519` and `Iota.Model.Vrf`.  The curve library is abstract: its group law is the
hypothesis `Lawful lib` (Iota/Proofs/Ed/Lawful.lean); further hypotheses (`Cofactor`, `OrderExact`,
`Nat.Prime L`, `EncodeCanonical`, `EncodeDecode`) appear as explicit arguments where used.
  Bytes      `leNat`/`leBytes` inverse codecs, bounds, numeric facts on `L`, `p`
  Lawful     the hypotheses, scalar reduction mod `L`
  Verify     E1 `verify` = ZIP-215 set; pre-check, malleability, unreduced hash, torsion, std ⊆ ZIP-215
  Sign       E2 clamping, key generation, sign-then-verify, `signerSign`, panics
  Canonical  E3 `isCanonicalY` ⇔ `y < p`
  Witness    a concrete library (over ZMod L) satisfying every hypothesis at once: the theorems are not vacuous
  Vrf        E3 proof codec, completeness, key validation, uniqueness (algebraic half)
This file collects the headline statements.
-/
import Iota.Proofs.Ed.Bytes
import Iota.Proofs.Ed.Lawful
import Iota.Proofs.Ed.Verify
import Iota.Proofs.Ed.Sign
import Iota.Proofs.Ed.Canonical
import Iota.Proofs.Ed.Vrf
import Iota.Proofs.Ed.Witness

namespace Iota.Proofs.Ed
open Iota.Edwards (Bytes leNat leBytes L)
open Iota.Ed25519 (EdLib uniformScalar newKeyFromSeed sign signerSign)

variable {G : Type} [AddCommGroup G] {lib : EdLib G}

/-! ## E1 (C01) -/

/-- **E1** `Verify` accepts exactly the ZIP-215 set, rejects everything else with `false`, and panics
exactly on a key of the wrong length. -/
theorem E1_verify (h : Lawful lib) (pk msg sig : Bytes) (hpk : pk.length = 32) :
    (Ed25519.verify lib pk msg sig = some true ↔
      sig.length = 64 ∧ leNat (sig.drop 32) < L ∧
        ∃ A R, lib.decode pk = some A ∧ lib.decode (sig.take 32) = some R ∧
          (8 : ℕ) • (leNat (sig.drop 32) • lib.base) =
            (8 : ℕ) • R + (8 : ℕ) • (uniformScalar (lib.sha512 (sig.take 32 ++ pk ++ msg)) • A)) ∧
    (Ed25519.verify lib pk msg sig = some false ↔ ¬ Zip215 lib pk msg sig) :=
  ⟨verify_eq_true_iff h pk msg sig hpk, verify_eq_false_iff h pk msg sig hpk⟩

omit [AddCommGroup G] in
theorem E1_verify_panic (pk msg sig : Bytes) : Ed25519.verify lib pk msg sig = none ↔ pk.length ≠ 32 :=
  verify_eq_none_iff pk msg sig

/-- **E1 pre-check** -/
theorem E1_precheck (sig : Bytes) (hlen : sig.length = 64) (hS : leNat (sig.drop 32) < L) :
    (sig.getD 63 0) &&& 224 = 0 := precheck_of_canonical sig hlen hS

/-- **E1 malleability** -/
theorem E1_malleability (h : Lawful lib) (pk msg sig : Bytes) (hpk : pk.length = 32) (S j : ℕ)
    (hj : 1 ≤ j) (hS : leNat (sig.drop 32) = S + j * L) : Ed25519.verify lib pk msg sig = some false :=
  verify_malleable_rejected h pk msg sig hpk S j hj hS

/-- **E1 unreduced hash** (needs `Cofactor`) -/
theorem E1_unreduced (h : Lawful lib) (hc : Cofactor lib) (pk msg sig : Bytes) (hpk : pk.length = 32) :
    Ed25519.verify lib pk msg sig = some true ↔
      sig.length = 64 ∧ leNat (sig.drop 32) < L ∧
        ∃ A R, lib.decode pk = some A ∧ lib.decode (sig.take 32) = some R ∧
          (8 : ℕ) • (leNat (sig.drop 32) • lib.base) =
            (8 : ℕ) • R + (8 : ℕ) • (leNat (lib.sha512 (sig.take 32 ++ pk ++ msg)) • A) :=
  verify_eq_true_iff_unreduced h hc pk msg sig hpk

/-- **E1 torsion-insensitivity** -/
theorem E1_torsion (S k : ℕ) (A R T T' : G) (hT : (8 : ℕ) • T = 0) (hT' : (8 : ℕ) • T' = 0) :
    (Zip215Eq lib S k A R ↔ (8 : ℕ) • (S • lib.base) = (8 : ℕ) • R + k • ((8 : ℕ) • A)) ∧
    (Zip215Eq lib S k (A + T) (R + T') ↔ Zip215Eq lib S k A R) :=
  ⟨zip215Eq_iff_eight S k A R, zip215Eq_add_torsion S k A R T T' hT hT'⟩

/-- **E1 inclusion** of the cofactorless check -/
theorem E1_inclusion (h : Lawful lib) (pk msg sig : Bytes) (hstd : stdVerify lib pk msg sig = true) :
    Ed25519.verify lib pk msg sig = some true := verify_of_stdVerify h pk msg sig hstd

/-! ## E2 (C07) -/

/-- **E2** -/
theorem E2_sign_verify (h : Lawful lib) (seed msg : Bytes) (hs : seed.length = 32) :
    ∃ sk sig, newKeyFromSeed lib seed = some sk ∧ sk.length = 64 ∧
      sign lib sk msg = some sig ∧ sig.length = 64 ∧
      Ed25519.verify lib (sk.drop 32) msg sig = some true := sign_verify h seed msg hs

theorem E2_clamp (h : Bytes) : Edwards.clamp h % L ≠ 0 := clamp_mod_L_ne_zero h

omit [AddCommGroup G] in
theorem E2_panics (seed sk msg : Bytes) :
    (newKeyFromSeed lib seed = none ↔ seed.length ≠ 32) ∧ (sign lib sk msg = none ↔ sk.length ≠ 64) :=
  ⟨newKeyFromSeed_eq_none_iff seed, sign_eq_none_iff sk msg⟩

omit [AddCommGroup G] in
theorem E2_signer (sk msg : Bytes) (hf : ℕ) :
    signerSign lib sk msg 0 = (sign lib sk msg).map .ok ∧
    (hf ≠ 0 → signerSign lib sk msg hf = some (.error ())) :=
  ⟨signerSign_zero sk msg, signerSign_ne_zero sk msg hf⟩

theorem E2_leBytes (n : ℕ) (hn : n < 2 ^ 256) : leNat (leBytes n 32) = n ∧ (leBytes n 32).length = 32 :=
  ⟨leNat_leBytes_of_lt n 32 (by rw [pow_256_32]; exact hn), leBytes_length n 32⟩

/-! ## E3 (C18) -/

/-- **E3 canonical y** -/
theorem E3_isCanonicalY (x : Bytes) (hx : x.length = 32) :
    Vrf.isCanonicalY x = true ↔ leNat x % 2 ^ 255 < Iota.Edwards.p := isCanonicalY_iff x hx

omit [AddCommGroup G] in
/-- **E3 codec** (decoding) -/
theorem E3_setBytes (hed : EncodeDecode lib) (b : Bytes) (pr : Vrf.Proof G)
    (hb : Vrf.Proof.setBytes lib b = some pr) :
    b.length = 80 ∧ pr.s < L ∧ pr.c < 2 ^ 128 ∧ pr.bytes lib = b := setBytes_some hed b pr hb

/-- **E3 codec** (encoding) -/
theorem E3_setBytes_bytes (h : Lawful lib) (hcan : EncodeCanonical lib) (pr : Vrf.Proof G)
    (hs : pr.s < L) (hc : pr.c < 2 ^ 128) : Vrf.Proof.setBytes lib (pr.bytes lib) = some pr :=
  setBytes_bytes h hcan pr hs hc

/-- **E3 completeness** -/
theorem E3_complete (h : Lawful lib) (hcof : Cofactor lib) (hcan : EncodeCanonical lib)
    (hord : OrderExact lib) (hprime : Nat.Prime L) (seed alpha sk : Bytes)
    (hsk : newKeyFromSeed lib seed = some sk) (H : G)
    (hH : Vrf.encodeToCurve lib (sk.drop 32) alpha = some H) :
    ∃ pr, Vrf.prove lib sk alpha = some pr ∧
      Vrf.verify lib (sk.drop 32) alpha (pr.bytes lib) = some (true, pr.hash lib) ∧
      Vrf.proofToHash lib (pr.bytes lib) = some (pr.hash lib) :=
  vrf_complete h hcof hcan hord hprime seed alpha (newKeyFromSeed_length h seed sk hsk).2.1 sk hsk H hH

/-- **E3 key validation** -/
theorem E3_key_validation (h : Lawful lib) (pk alpha pi : Bytes) (hpk : pk.length = 32) :
    ((Vrf.isCanonicalY pk = false ∨ pk ∈ Vrf.nonCanonicalSignBytes ∨ lib.decode pk = none) →
      Vrf.verify lib pk alpha pi = some (false, [])) ∧
    (∀ Y, Vrf.pointFromCanonicalBytes lib pk = some Y → (8 : ℕ) • Y = 0 →
      Vrf.verify lib pk alpha pi = some (false, [])) :=
  ⟨vrf_verify_bad_key_encoding pk alpha pi hpk, fun Y hY h8 =>
    vrf_verify_small_order_key h pk alpha pi hpk Y hY h8⟩

theorem E3_honest_key (h : Lawful lib) (hord : OrderExact lib) (hprime : Nat.Prime L) (seed : Bytes) :
    Vrf.validateKey lib (publicPoint lib seed) = true := validateKey_honest h hord hprime seed

/-- **E3 uniqueness, algebraic half** -/
theorem E3_unique_algebraic (h : Lawful lib) (pk alpha pi β : Bytes) (hpk : pk.length = 32)
    (x : ℕ) (D : Vrf.Proof G) (H : G)
    (hv : Vrf.verify lib pk alpha pi = some (true, β))
    (hD : Vrf.Proof.setBytes lib pi = some D) (hH : Vrf.encodeToCurve lib pk alpha = some H)
    (hsmall : (8 : ℕ) • (D.gamma - x • H) = 0) :
    β = lib.sha512 (Vrf.suiteString ++ [0x03] ++ lib.encode ((8 : ℕ) • (x • H)) ++ [0x00]) :=
  vrf_unique_algebraic h pk alpha pi β hpk x D H hv hD hH hsmall

end Iota.Proofs.Ed

