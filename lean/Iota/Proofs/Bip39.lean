import Iota.Model.Bip39
import Iota.Proofs.Digits

namespace Iota.Proofs.Bip39
open Iota.Bip39 Iota.Proofs.Digits

/-! ### big.Int helpers as positional numerals -/

theorem setBytes_eq (b : Bytes) : setBytes b = undigs 256 (b.map UInt8.toNat) := by
  unfold setBytes undigs
  rw [List.foldl_map]

theorem setBytes_snoc (b : Bytes) (x : UInt8) : setBytes (b ++ [x]) = setBytes b * 256 + x.toNat := by
  simp [setBytes, List.foldl_append]

theorem setBytes_zeros (z : Nat) (b : Bytes) : setBytes (List.replicate z 0 ++ b) = setBytes b := by
  induction z with
  | zero => simp
  | succ z ih =>
    simp only [List.replicate_succ, List.cons_append]
    unfold setBytes at ih ⊢
    simpa using ih

theorem setBytes_lt (b : Bytes) : setBytes b < 256 ^ b.length := by
  rw [setBytes_eq]
  have := undigs_lt 256 (b.map UInt8.toNat) (by
    intro d hd
    simp only [List.mem_map] at hd
    obtain ⟨x, _, rfl⟩ := hd
    exact x.toNat_lt)
  simpa using this

theorem map_toNat_inj : ∀ (a b : Bytes), a.map UInt8.toNat = b.map UInt8.toNat → a = b
  | [], [], _ => rfl
  | [], _ :: _, h => by simp at h
  | _ :: _, [], h => by simp at h
  | x :: xs, y :: ys, h => by
    simp only [List.map_cons, List.cons.injEq] at h
    rw [UInt8.toNat_inj.mp h.1, map_toNat_inj xs ys h.2]

theorem setBytes_inj (a b : Bytes) (hl : a.length = b.length) (h : setBytes a = setBytes b) : a = b := by
  rw [setBytes_eq, setBytes_eq] at h
  have hlt : ∀ (c : Bytes), ∀ d ∈ c.map UInt8.toNat, d < 256 := by
    intro c d hd
    simp only [List.mem_map] at hd
    obtain ⟨x, _, rfl⟩ := hd
    exact x.toNat_lt
  have := undigs_inj 256 (by omega) _ _ (by simpa using hl) (hlt a) (hlt b) h
  exact map_toNat_inj a b this

theorem ofNat_toNat (n : Nat) (h : n < 256) : (UInt8.ofNat n).toNat = n := by
  simp [UInt8.toNat_ofNat']; omega

theorem natBytesAux_spec (fuel n : Nat) (h : n < 256 ^ fuel) :
    setBytes (natBytesAux fuel n) = n ∧ ∀ m, n < 256 ^ m → (natBytesAux fuel n).length ≤ m := by
  induction fuel generalizing n with
  | zero => simp at h; subst h; simp [natBytesAux, setBytes]
  | succ fuel ih =>
    unfold natBytesAux
    split
    · rename_i h0; subst h0; simp [setBytes]
    · rename_i h0
      have hdiv : n / 256 < 256 ^ fuel := by rw [Nat.pow_succ] at h; omega
      obtain ⟨hv, hl⟩ := ih (n / 256) hdiv
      refine ⟨?_, ?_⟩
      · rw [setBytes_snoc, hv, ofNat_toNat _ (Nat.mod_lt _ (by omega))]; omega
      · intro m hm
        cases m with
        | zero => simp at hm; omega
        | succ m =>
          have : n / 256 < 256 ^ m := by rw [Nat.pow_succ] at hm; omega
          have := hl m this
          simp; omega

theorem pad_natBytes (x n : Nat) (hn : n ≤ 80) (hx : x < 256 ^ n) :
    (padBytes (natBytes x) n).length = n ∧ setBytes (padBytes (natBytes x) n) = x := by
  have h80 : x < 256 ^ 80 := Nat.lt_of_lt_of_le hx (Nat.pow_le_pow_right (by omega) hn)
  obtain ⟨hv, hl⟩ := natBytesAux_spec 80 x h80
  have := hl n hx
  unfold padBytes natBytes
  refine ⟨by simp; omega, ?_⟩
  rw [setBytes_zeros]; exact hv

theorem splitIndices_eq (k big : Nat) : splitIndices k big = digs 2048 k big := by
  induction k generalizing big with
  | zero => rfl
  | succ k ih =>
    simp only [splitIndices, digs, ih]
    have h1 : big >>> 11 = big / 2048 := by rw [Nat.shiftRight_eq_div_pow]
    have h2 : big &&& 2047 = big % 2048 := Nat.and_two_pow_sub_one_eq_mod big 11
    rw [h1, h2]

theorem or_add (a b i : Nat) (hb : b < 2 ^ i) : (a <<< i) ||| b = a * 2 ^ i + b := by
  rw [← Nat.shiftLeft_add_eq_or_of_lt hb, Nat.shiftLeft_eq]

theorem joinIndices_eq (W : List Word) (ws : List Word) (h : ∀ w ∈ ws, W.idxOf w < 2048) (acc : Nat) :
    joinIndices W acc ws = (ws.map (W.idxOf ·)).foldl (fun acc d => acc * 2048 + d) acc := by
  induction ws generalizing acc with
  | nil => rfl
  | cons w ws ih =>
    simp only [joinIndices, List.map_cons, List.foldl_cons]
    rw [or_add acc _ 11 (h w (by simp)), ih (fun x hx => h x (by simp [hx]))]

/-! ### word list -/

section
variable (W : List Word) (hW : W.length = 2048) (hN : W.Nodup)

include hW hN in
theorem idxOf_getD (i : Nat) (hi : i < 2048) : W.idxOf (W.getD i []) = i := by
  have hlt : i < W.length := by omega
  rw [List.getD_eq_getElem?_getD, List.getElem?_eq_getElem hlt]
  simp only [Option.getD_some]
  exact List.Nodup.idxOf_getElem hN i hlt

include hW in
theorem getD_mem (i : Nat) (hi : i < 2048) : W.getD i [] ∈ W := by
  have hlt : i < W.length := by omega
  rw [List.getD_eq_getElem?_getD, List.getElem?_eq_getElem hlt]
  exact List.getElem_mem hlt

theorem getD_idxOf (w : Word) (hw : w ∈ W) : W.getD (W.idxOf w) [] = w := by
  have hlt : W.idxOf w < W.length := List.idxOf_lt_length_of_mem hw
  rw [List.getD_eq_getElem?_getD, List.getElem?_eq_getElem hlt]
  simp

include hW in
theorem idxOf_lt (w : Word) (hw : w ∈ W) : W.idxOf w < 2048 := by
  have := List.idxOf_lt_length_of_mem hw; omega
end

/-! ### parameters of a valid size -/

/-- entropy byte counts 16, 20, …, 64 -/
def ValidLen (n : Nat) : Prop := n % 4 = 0 ∧ 16 ≤ n ∧ n ≤ 64

theorem validLen_iff (n : Nat) :
    ¬ ((n * 8) % entropyMultiple ≠ 0 ∨ entropyMinBits > n * 8 ∨ n * 8 > entropyMaxBits) ↔ ValidLen n := by
  unfold entropyMultiple entropyMinBits entropyMaxBits ValidLen; omega

/-- word counts 12, 15, …, 48 -/
def ValidCount (k : Nat) : Prop := k % 3 = 0 ∧ 12 ≤ k ∧ k ≤ 48

theorem validCount_iff (k : Nat) :
    ¬ (k % 3 ≠ 0 ∨ entropyBitsToWordCount entropyMinBits > k ∨ k > entropyBitsToWordCount entropyMaxBits)
      ↔ ValidCount k := by
  unfold entropyBitsToWordCount entropyMinBits entropyMaxBits ValidCount; omega

theorem pow_split (n : Nat) : (2 : Nat) ^ (n * 8 + n * 8 / 32) = 2 ^ (n * 8) * 2 ^ (n * 8 / 32) := Nat.pow_add ..

theorem checksum_lt (H : Bytes → Bytes) (hH : ∀ x, (H x).length = 32) (e : Bytes) (cs : Nat) (hcs : cs ≤ 256) :
    computeChecksum H e cs < 2 ^ cs := by
  unfold computeChecksum
  rw [Nat.shiftRight_eq_div_pow]
  have := setBytes_lt (H e)
  rw [hH e] at this
  have e1 : (256 : Nat) ^ 32 = 2 ^ (256 - cs) * 2 ^ cs := by
    rw [← Nat.pow_add, show (256 : Nat) = 2 ^ 8 from rfl, ← Nat.pow_mul]; congr 1; omega
  rw [e1] at this
  exact Nat.div_lt_of_lt_mul this

/-! ### main theorems -/

section
variable (H : Bytes → Bytes) (hH : ∀ x, (H x).length = 32)
variable (W : List Word) (hW : W.length = 2048) (hN : W.Nodup)

/-- the integer whose 11-bit digits are the word indices: entropy bits followed by the checksum bits. -/
def bigOf (H : Bytes → Bytes) (e : Bytes) : Nat :=
  setBytes e * 2 ^ (e.length * 8 / 32) + computeChecksum H e (e.length * 8 / 32)

include hH in
theorem bigOf_lt (e : Bytes) (hv : ValidLen e.length) :
    bigOf H e < 2048 ^ (entropyBitsToWordCount (e.length * 8)) := by
  unfold bigOf entropyBitsToWordCount
  obtain ⟨h4, h16, h64⟩ := hv
  have hc := checksum_lt H hH e (e.length * 8 / 32) (by omega)
  have hs := setBytes_lt e
  have e1 : (2048 : Nat) ^ (3 * (e.length * 8) / 32) = 256 ^ e.length * 2 ^ (e.length * 8 / 32) := by
    rw [show (2048 : Nat) = 2 ^ 11 from rfl, show (256 : Nat) = 2 ^ 8 from rfl, ← Nat.pow_mul, ← Nat.pow_mul,
      ← Nat.pow_add]
    congr 1; omega
  rw [e1]
  calc _ < setBytes e * 2 ^ (e.length * 8 / 32) + 2 ^ (e.length * 8 / 32) := by omega
    _ = (setBytes e + 1) * 2 ^ (e.length * 8 / 32) := by rw [Nat.add_mul]; simp
    _ ≤ _ := Nat.mul_le_mul_right _ hs

include hH in
theorem encode_eq (e : Bytes) (hv : ValidLen e.length) :
    entropyToMnemonic H W e = .ok
      ((digs 2048 (entropyBitsToWordCount (e.length * 8)) (bigOf H e)).map fun i => W.getD i []) := by
  unfold entropyToMnemonic
  simp only
  rw [if_neg ((validLen_iff e.length).mpr hv), splitIndices_eq]
  congr 3
  unfold bigOf
  exact or_add _ _ _ (checksum_lt H hH e _ (by obtain ⟨_, _, h⟩ := hv; omega))

theorem encode_err (e : Bytes) (hv : ¬ ValidLen e.length) :
    entropyToMnemonic H W e = .error .invalidEntropySize := by
  unfold entropyToMnemonic
  simp only
  rw [if_pos (Classical.byContradiction fun hc => hv ((validLen_iff e.length).mp hc))]

include hW in
/-- what a successful decode establishes. -/
theorem decode_ok (ws : List Word) (e : Bytes) (h : mnemonicToEntropy H W ws = .ok e) :
    ValidCount ws.length ∧ (∀ w ∈ ws, w ∈ W) ∧
    e = padBytes (natBytes (undigs 2048 (ws.map (W.idxOf ·)) >>> (wordCountToEntropyBits ws.length / 32)))
          (wordCountToEntropyBits ws.length / 8) ∧
    undigs 2048 (ws.map (W.idxOf ·)) &&& ((1 <<< (wordCountToEntropyBits ws.length / 32)) - 1) =
      computeChecksum H e (wordCountToEntropyBits ws.length / 32) := by
  unfold mnemonicToEntropy at h
  simp only at h
  split at h
  · simp at h
  · rename_i h1
    split at h
    · simp at h
    · rename_i h2
      have hmem : ∀ w ∈ ws, w ∈ W := by
        simp only [Bool.not_eq_true', Bool.not_eq_false, List.all_eq_true, List.contains_iff_mem] at h2
        exact h2
      have hj := joinIndices_eq W ws (fun w hw => by have := List.idxOf_lt_length_of_mem (hmem w hw); omega) 0
      split at h
      · simp at h
      · rename_i h3
        simp only [Except.ok.injEq] at h
        rw [hj] at h h3
        refine ⟨(validCount_iff _).mp h1, hmem, h.symm, ?_⟩
        simp only [ne_eq, Classical.not_not, entropyMultiple] at h3
        rw [← h]; exact h3

end

end Iota.Proofs.Bip39

namespace Iota.Proofs.Bip39
open Iota.Bip39 Iota.Proofs.Digits

section
variable (H : Bytes → Bytes) (hH : ∀ x, (H x).length = 32)
variable (W : List Word) (hW : W.length = 2048) (hN : W.Nodup)

theorem and_mask (x cs : Nat) : x &&& ((1 <<< cs) - 1) = x % 2 ^ cs := by
  rw [Nat.shiftLeft_eq, Nat.one_mul]; exact Nat.and_two_pow_sub_one_eq_mod x cs

theorem wc_ent (n : Nat) (hv : ValidLen n) :
    wordCountToEntropyBits (entropyBitsToWordCount (n * 8)) = n * 8 ∧ ValidCount (entropyBitsToWordCount (n * 8)) := by
  unfold wordCountToEntropyBits entropyBitsToWordCount ValidCount
  obtain ⟨h4, h16, h64⟩ := hv
  omega

include hH hW hN in
/-- decoding an encoding returns the entropy. -/
theorem decode_encode (e : Bytes) (hv : ValidLen e.length) (ws : List Word)
    (henc : entropyToMnemonic H W e = .ok ws) : mnemonicToEntropy H W ws = .ok e := by
  rw [encode_eq H hH W e hv] at henc
  simp only [Except.ok.injEq] at henc
  obtain ⟨h4, h16, h64⟩ := hv
  have hv : ValidLen e.length := ⟨h4, h16, h64⟩
  let k := entropyBitsToWordCount (e.length * 8)
  have hlen : ws.length = k := by rw [← henc]; simp [digs_length, k]
  obtain ⟨hent, hcount⟩ := wc_ent e.length hv
  have hdl := digs_lt 2048 (by omega) k (bigOf H e)
  have hidx : ws.map (W.idxOf ·) = digs 2048 k (bigOf H e) := by
    rw [← henc, List.map_map]
    conv => rhs; rw [← List.map_id (digs 2048 k (bigOf H e))]
    apply List.map_congr_left
    intro i hi
    exact idxOf_getD W hW hN i (hdl i hi)
  have hmem : ∀ w ∈ ws, w ∈ W := by
    rw [← henc]
    intro w hw
    simp only [List.mem_map] at hw
    obtain ⟨i, hi, rfl⟩ := hw
    exact getD_mem W hW i (hdl i hi)
  have hD : undigs 2048 (ws.map (W.idxOf ·)) = bigOf H e := by
    rw [hidx]; exact undigs_digs 2048 k _ (by omega) (bigOf_lt H hH e hv)
  unfold mnemonicToEntropy
  simp only
  rw [if_neg ((validCount_iff ws.length).mpr (hlen ▸ hcount))]
  have hall : (!ws.all fun w => W.contains w) = false := by
    simp only [Bool.not_eq_false', List.all_eq_true, List.contains_iff_mem]; exact hmem
  rw [hall]
  simp only [Bool.false_eq_true, if_false]
  rw [joinIndices_eq W ws (fun w hw => idxOf_lt W hW w (hmem w hw)) 0]
  have hfold : (ws.map (W.idxOf ·)).foldl (fun acc d => acc * 2048 + d) 0 = bigOf H e := hD
  rw [hfold, hlen, hent]
  have hcs : computeChecksum H e (e.length * 8 / 32) < 2 ^ (e.length * 8 / 32) :=
    checksum_lt H hH e _ (by omega)
  have hshift : bigOf H e >>> (e.length * 8 / entropyMultiple) = setBytes e := by
    unfold bigOf entropyMultiple
    rw [Nat.shiftRight_eq_div_pow, Nat.mul_comm, Nat.mul_add_div (Nat.pow_pos (by omega)),
      Nat.div_eq_of_lt hcs]; simp
  have hmask : bigOf H e &&& ((1 <<< (e.length * 8 / entropyMultiple)) - 1)
      = computeChecksum H e (e.length * 8 / 32) := by
    rw [and_mask]
    unfold bigOf entropyMultiple
    rw [Nat.mul_comm, Nat.mul_add_mod, Nat.mod_eq_of_lt hcs]
  have hlen8 : e.length * 8 / 8 = e.length := by omega
  obtain ⟨hpl, hpv⟩ := pad_natBytes (setBytes e) e.length (by omega) (setBytes_lt e)
  have hpad : padBytes (natBytes (setBytes e)) e.length = e := setBytes_inj _ _ hpl hpv
  rw [hshift, hmask, hlen8, hpad]
  simp [entropyMultiple]

include hH hW hN in
/-- every accepted sentence is the encoding of the entropy it decodes to. -/
theorem encode_decode (ws : List Word) (e : Bytes) (hdec : mnemonicToEntropy H W ws = .ok e) :
    entropyToMnemonic H W e = .ok ws := by
  obtain ⟨hc, hmem, he, hck⟩ := decode_ok H W hW ws e hdec
  obtain ⟨h3, h12, h48⟩ := hc
  let k := ws.length
  let D := undigs 2048 (ws.map (W.idxOf ·))
  have hbits : wordCountToEntropyBits k = 32 * k / 3 := rfl
  have hidxlt : ∀ d ∈ ws.map (W.idxOf ·), d < 2048 := by
    intro d hd
    simp only [List.mem_map] at hd
    obtain ⟨w, hw, rfl⟩ := hd
    exact idxOf_lt W hW w (hmem w hw)
  have hDlt : D < 2048 ^ k := by
    have := undigs_lt 2048 _ hidxlt
    simpa [D, k] using this
  -- sizes
  let n := 32 * k / 3 / 8
  have hn : ValidLen n := by unfold ValidLen; omega
  have hent : 32 * k / 3 = n * 8 := by omega
  have hcs : 32 * k / 3 / 32 = n * 8 / 32 := by omega
  have hk : entropyBitsToWordCount (n * 8) = k := by unfold entropyBitsToWordCount; omega
  have hpow : (2048 : Nat) ^ k = 256 ^ n * 2 ^ (n * 8 / 32) := by
    rw [show (2048 : Nat) = 2 ^ 11 from rfl, show (256 : Nat) = 2 ^ 8 from rfl, ← Nat.pow_mul, ← Nat.pow_mul,
      ← Nat.pow_add]
    congr 1; omega
  have hEn : D >>> (n * 8 / 32) < 256 ^ n := by
    rw [Nat.shiftRight_eq_div_pow]
    apply Nat.div_lt_of_lt_mul
    rw [Nat.mul_comm, ← hpow]; exact hDlt
  obtain ⟨hpl, hpv⟩ := pad_natBytes (D >>> (n * 8 / 32)) n (by omega) hEn
  have hA : wordCountToEntropyBits ws.length / 32 = n * 8 / 32 := hcs
  have hB : wordCountToEntropyBits ws.length / 8 = n := rfl
  rw [hA, hB] at he
  rw [hA] at hck
  have helen : e.length = n := by rw [he]; exact hpl
  have hset : setBytes e = D >>> (n * 8 / 32) := by rw [he]; exact hpv
  have hck' : D % 2 ^ (n * 8 / 32) = computeChecksum H e (n * 8 / 32) := by
    rw [← and_mask]; exact hck
  have hbig : bigOf H e = D := by
    unfold bigOf
    rw [helen, hset, ← hck', Nat.shiftRight_eq_div_pow, Nat.mul_comm]
    exact Nat.div_add_mod D _
  rw [encode_eq H hH W e (helen ▸ hn), helen, hk, hbig]
  have hdig : digs 2048 k D = ws.map (W.idxOf ·) := by
    have := digs_undigs 2048 (by omega) _ hidxlt
    simpa [D, k] using this
  rw [hdig, List.map_map]
  congr 1
  conv => rhs; rw [← List.map_id ws]
  apply List.map_congr_left
  intro w hw
  exact getD_idxOf W w (hmem w hw)

end

end Iota.Proofs.Bip39
