/- Main theorems about the Bech32 model: Decode ↔ Valid, re-encoding, offsets, Encode. -/
import Iota.Proofs.Bech32Strings
import Iota.Proofs.Base32Spec

namespace Iota.Proofs.Bech32
open Iota.Bech32 Iota.Proofs Iota.Spec.Bip173 Iota.Proofs.Base32

/-- everything `Decode` checks on the way to success, as one proposition. -/
structure Guards (s : Str) (n : Nat) (syms : List UInt8) (data : List UInt8) : Prop where
  g1 : s.length ≤ maxStringLength
  g2 : lastIndexSep s = some n
  g3 : 1 ≤ n ∧ n + checksumLength ≤ s.length
  g4 : ∀ c ∈ s.take n, isValidHRPChar c = true
  g5 : ∀ c ∈ s.drop (n + 1), c.toNat < 128
  g6 : validateCase s = none
  g7 : charsetDecode ((lower s).drop (n + 1)) = .ok syms
  g8 : checksumLength ≤ syms.length ∧ verifyChecksum ((lower s).take n) syms = true
  g9 : b32Decode (syms.take (syms.length - checksumLength)) = .ok data

theorem decode_ok_iff_guards (s hrp : Str) (data : List UInt8) :
    decode s = .ok (hrp, data) ↔ ∃ n syms, Guards s n syms data ∧ hrp = (lower s).take n := by
  constructor
  · intro h
    unfold decode at h
    split at h
    · simp at h
    · rename_i h1
      split at h
      · simp at h
      · rename_i n h2
        split at h
        · simp at h
        · rename_i h3
          split at h
          · simp at h
          · rename_i h4
            split at h
            · simp at h
            · rename_i h5
              split at h
              · simp at h
              · rename_i h6
                simp only at h
                split at h
                · simp at h
                · rename_i syms h7
                  split at h
                  · simp at h
                  · rename_i h8
                    split at h
                    · simp at h
                    · simp at h
                    · rename_i dst h9
                      simp only [Except.ok.injEq, Prod.mk.injEq] at h
                      refine ⟨n, syms, ⟨by omega, h2, by omega, ?_, ?_, h6, h7, ?_, ?_⟩, h.1.symm⟩
                      · intro c hc
                        have := (findIdx_none_iff _ _).mp h4 c hc
                        simpa using this
                      · intro c hc
                        have := (findIdx_none_iff _ _).mp h5 c hc
                        simpa using this
                      · simp only [not_or, Nat.not_lt, Bool.not_eq_true', Bool.not_eq_false] at h8
                        exact ⟨h8.1, by simpa using h8.2⟩
                      · rw [h9, h.2]
  · rintro ⟨n, syms, g, rfl⟩
    unfold decode
    have h1 : ¬ s.length > maxStringLength := by have := g.g1; omega
    rw [if_neg h1]
    simp only [g.g2]
    have h3 : ¬ (n < 1 ∨ n + checksumLength > s.length) := by have := g.g3; omega
    rw [if_neg h3]
    have h4 : (s.take n).findIdx? (fun c => !isValidHRPChar c) = none := by
      rw [findIdx_none_iff]; intro c hc; simp [g.g4 c hc]
    have h5 : (s.drop (n + 1)).findIdx? (fun c => decide (c.toNat ≥ 128)) = none := by
      rw [findIdx_none_iff]; intro c hc; have := g.g5 c hc; simp; omega
    simp only [h4, h5, g.g6, g.g7]
    have h8 : ¬ (syms.length < checksumLength ∨ (!verifyChecksum ((lower s).take n) syms) = true) := by
      have := g.g8; simp [this.2]; omega
    rw [if_neg h8]
    simp only [g.g9]

/-! ### Decode ↔ Valid -/

theorem charsetEncode_length (syms : List UInt8) : (charsetEncode syms).length = syms.length := by
  simp [charsetEncode]

theorem charsetEncode_props (syms : List UInt8) (h : ∀ x ∈ syms, x.toNat < 32) :
    ∀ c ∈ charsetEncode syms, c.toNat < 128 ∧ c ≠ separator ∧ isUpperAscii c = false := by
  intro c hc
  simp only [charsetEncode, List.mem_map] at hc
  obtain ⟨x, hx, rfl⟩ := hc
  have := charset_spec x (h x hx)
  exact ⟨this.2.1, this.2.2.1, this.2.2.2⟩

theorem valid_of_guards (s : Str) (n : Nat) (syms data : List UInt8) (g : Guards s n syms data) :
    Valid s ((lower s).take n) data := by
  obtain ⟨hlt, hsplit, hnosep⟩ := lastIndexSep_some s n g.g2
  obtain ⟨hchars, hsyms⟩ := charsetDecode_ok _ syms g.g7
  have hpay : ∀ x ∈ syms.take (syms.length - checksumLength), x.toNat < 32 :=
    fun x hx => hsyms x (List.mem_of_mem_take hx)
  refine ⟨g.g1, (validateCase_none_iff s).mp g.g6, s.take n, s.drop (n + 1), syms, hsplit, hnosep, ?_, ?_,
    hsyms, ?_, g.g8.1, ?_, ?_, ?_⟩
  · intro h0
    have : (s.take n).length = 0 := by rw [h0]; rfl
    rw [List.length_take] at this
    have := g.g3; omega
  · intro c hc; exact (valid_iff_c c).mp (g.g4 c hc)
  · rw [← lower_drop]; exact hchars
  · have := g.g8.2
    unfold verifyChecksum at this
    rw [lower_take] at this
    simpa using this
  · have := b32_encode_of_decode _ _ hpay g.g9
    rw [← b32Encode_eq_to5]; exact this
  · exact lower_take n s

theorem guards_of_valid (s hrp : Str) (data : List UInt8) (v : Valid s hrp data) :
    ∃ n syms, Guards s n syms data ∧ hrp = (lower s).take n := by
  obtain ⟨hlen, hcase, h, d, syms, hs, hnosep, hne, hvalid, hsyms, hd, h6, hpoly, hto5, hhrp⟩ := v
  have hdlen : d.length = syms.length := by
    rw [← lower_length d, hd, charsetEncode_length]
  have htake : s.take h.length = h := by rw [hs]; simp
  have hdrop : s.drop (h.length + 1) = d := by rw [hs]; simp
  have hslen : s.length = h.length + 1 + d.length := by rw [hs]; simp; omega
  have hhpos : 1 ≤ h.length := by
    cases h with
    | nil => exact absurd rfl hne
    | cons _ _ => simp
  refine ⟨h.length, syms, ⟨hlen, ?_, ?_, ?_, ?_, ?_, ?_, ?_, ?_⟩, ?_⟩
  · rw [hs]; exact lastIndexSep_of_split h d hnosep
  · unfold checksumLength; omega
  · rw [htake]; intro c hc; exact (valid_iff_c c).mpr (hvalid c hc)
  · rw [hdrop]
    intro c hc
    have hmem : toLowerAscii c ∈ lower d := by simp only [lower, List.mem_map]; exact ⟨c, hc, rfl⟩
    rw [hd] at hmem
    have := (charsetEncode_props syms hsyms _ hmem).1
    exact (ascii_lower_c c).mp this
  · exact (validateCase_none_iff s).mpr hcase
  · rw [lower_drop, hdrop, hd]; exact charsetDecode_encode syms hsyms
  · refine ⟨h6, ?_⟩
    unfold verifyChecksum
    rw [lower_take, htake, hpoly]; rfl
  · unfold checksumLength
    rw [hto5, ← b32Encode_eq_to5]; exact b32_decode_encode data
  · rw [lower_take, htake]; exact hhrp

/-- C04 (1): `Decode` succeeds exactly on the valid Bech32 strings, returning the lower-cased prefix and the bytes. -/
theorem decode_ok_iff_valid (s hrp : Str) (data : List UInt8) :
    decode s = .ok (hrp, data) ↔ Valid s hrp data := by
  rw [decode_ok_iff_guards]
  constructor
  · rintro ⟨n, syms, g, rfl⟩; exact valid_of_guards s n syms data g
  · exact guards_of_valid s hrp data

/-! ### error offsets -/

theorem b32DecodeAux_err_off (syms : List UInt8) : ∀ (read : Nat) (k : B32Err) (off : Nat),
    b32DecodeAux read syms = .error (k, off) → read ≤ off ∧ off < read + syms.length := by
  intro read
  fun_induction b32DecodeAux read syms with
  | case1 read => intro k off h; simp at h
  | case2 read s0 s1 s2 s3 s4 s5 s6 s7 rest bs hrec ih => intro k off h; simp at h
  | case3 read s0 s1 s2 s3 s4 s5 s6 s7 rest e hrec ih =>
    intro k off h
    simp only [Except.error.injEq] at h
    subst h
    have := ih k off hrec
    simp only [List.length_cons]; omega
  | case4 read tail hne h8 hlen =>
    intro k off h
    simp only [Except.error.injEq, Prod.mk.injEq] at h
    have : 0 < tail.length := by
      cases tail with
      | nil => exact absurd rfl hne
      | cons _ _ => simp
    omega
  | case5 read tail hne h8 hlen o hpad =>
    intro k off h
    simp only [Except.error.injEq, Prod.mk.injEq] at h
    have ho : o < tail.length := by
      unfold padCheck at hpad
      simp only at hpad
      split at hpad
      · rename_i hc; simp only [Option.some.injEq] at hpad; omega
      · split at hpad
        · rename_i hc; simp only [Option.some.injEq] at hpad; omega
        · split at hpad
          · rename_i hc; simp only [Option.some.injEq] at hpad; omega
          · split at hpad
            · rename_i hc; simp only [Option.some.injEq] at hpad; omega
            · simp at hpad
    omega
  | case6 read tail hne h8 hlen hpad => intro k off h; simp at h

/-- C04 (3): when the error carries a position it lies inside the input. -/
theorem decode_err_offset (s : Str) (k : ErrKind) (off : Nat)
    (h : decode s = .error (k, some off)) : off < s.length := by
  unfold decode at h
  split at h
  · rename_i h1
    simp only [Except.error.injEq, Prod.mk.injEq, Option.some.injEq] at h
    unfold maxStringLength at *; omega
  · split at h
    · simp at h
    · rename_i n h2
      have hn := (lastIndexSep_some s n h2).1
      split at h
      · simp only [Except.error.injEq, Prod.mk.injEq, Option.some.injEq] at h; omega
      · rename_i h3
        split at h
        · rename_i i hi
          simp only [Except.error.injEq, Prod.mk.injEq, Option.some.injEq] at h
          have := findIdx_some_lt _ _ _ hi
          rw [List.length_take] at this
          omega
        · split at h
          · rename_i i hi
            simp only [Except.error.injEq, Prod.mk.injEq, Option.some.injEq] at h
            have := findIdx_some_lt _ _ _ hi
            rw [List.length_drop] at this
            omega
          · split at h
            · rename_i o ho
              simp only [Except.error.injEq, Prod.mk.injEq, Option.some.injEq] at h
              have := validateCase_some_lt s o ho
              omega
            · simp only at h
              split at h
              · rename_i m hm
                simp only [Except.error.injEq, Prod.mk.injEq, Option.some.injEq] at h
                have := charsetDecode_err _ m hm
                rw [List.length_drop, lower_length] at this
                omega
              · rename_i syms hsyms
                have hsl : syms.length = s.length - (n + 1) := by
                  have := (charsetDecode_ok _ syms hsyms).1
                  have h2 := congrArg List.length this
                  rw [List.length_drop, lower_length, charsetEncode_length] at h2
                  omega
                split at h
                · simp only [Except.error.injEq, Prod.mk.injEq, Option.some.injEq] at h
                  unfold checksumLength at *; omega
                · split at h
                  · rename_i o ho
                    simp only [Except.error.injEq, Prod.mk.injEq, Option.some.injEq] at h
                    have := b32DecodeAux_err_off _ 0 _ o ho
                    rw [List.length_take] at this
                    omega
                  · rename_i o ho
                    simp only [Except.error.injEq, Prod.mk.injEq, Option.some.injEq] at h
                    have := b32DecodeAux_err_off _ 0 _ o ho
                    rw [List.length_take] at this
                    omega
                  · simp at h

end Iota.Proofs.Bech32

namespace Iota.Proofs.Bech32
open Iota.Bech32 Iota.Proofs Iota.Spec.Bip173 Iota.Proofs.Base32

/-! ### Encode -/

/-- precondition of a successful `Encode`. -/
def EncPre (hrp : Str) (src : List UInt8) : Prop :=
  hrp.length + symCount src.length + 7 ≤ 90 ∧ hrp ≠ [] ∧
  (∀ c ∈ hrp, 33 ≤ c.toNat ∧ c.toNat ≤ 126) ∧ ¬ (hasUpper hrp ∧ hasLower hrp)

/-- the BIP-173 string for (hrp, src): regrouped data, six checksum symbols computed over the
lower-cased prefix, the whole in the prefix's case. -/
def encSpec (hrp : Str) (src : List UInt8) : Str :=
  let body := hrp ++ [separator] ++
    charsetEncode (to5 src ++ createChecksum (lower hrp) (to5 src))
  if hrp = lower hrp then body else upper body

theorem encodedLen_eq (n : Nat) : encodedLen n = symCount n := by
  unfold encodedLen symCount; omega

theorem all_valid_iff (hrp : Str) : hrp.all isValidHRPChar = true ↔ ∀ c ∈ hrp, 33 ≤ c.toNat ∧ c.toNat ≤ 126 := by
  rw [List.all_eq_true]
  constructor
  · intro h c hc; exact (valid_iff_c c).mp (h c hc)
  · intro h c hc; exact (valid_iff_c c).mpr (h c hc)

theorem encode_ok_iff (hrp : Str) (src : List UInt8) (r : Str) :
    encode hrp src = .ok r ↔ EncPre hrp src ∧ r = encSpec hrp src := by
  unfold encode EncPre encSpec
  simp only [encodedLen_eq, ← b32Encode_eq_to5]
  constructor
  · intro h
    split at h
    · simp at h
    · rename_i h1
      split at h
      · simp at h
      · rename_i h2
        split at h
        · simp at h
        · rename_i h3
          split at h
          · simp at h
          · rename_i h4
            have hne : hrp ≠ [] := by
              intro h0; rw [h0] at h2; simp at h2
            have hv := (all_valid_iff hrp).mp (by simpa using h3)
            have hc := (validateCase_none_iff hrp).mp h4
            refine ⟨⟨by unfold maxStringLength checksumLength at h1; omega, hne, hv, hc⟩, ?_⟩
            split at h
            · rename_i hc
              simp only [Except.ok.injEq] at h
              rw [if_pos hc]; exact h.symm
            · rename_i hc
              simp only [Except.ok.injEq] at h
              rw [if_neg hc]; exact h.symm
  · rintro ⟨⟨h1, h2, h3, h4⟩, rfl⟩
    have g1 : ¬ (hrp.length + symCount src.length + checksumLength + 1 > maxStringLength) := by
      unfold maxStringLength checksumLength; omega
    have g2 : ¬ hrp.length < 1 := by
      cases hrp with
      | nil => exact absurd rfl h2
      | cons _ _ => simp
    have g3 : ¬ ((!hrp.all isValidHRPChar) = true) := by
      rw [(all_valid_iff hrp).mpr h3]; simp
    rw [if_neg g1, if_neg g2, if_neg g3]
    simp only [(validateCase_none_iff hrp).mpr h4]
    split <;> rfl

/-- `Encode` yields a string or an error, never both/neither; without the precondition it is an error. -/
theorem encode_err_of_not_pre (hrp : Str) (src : List UInt8) (h : ¬ EncPre hrp src) :
    ∃ e, encode hrp src = .error e := by
  cases he : encode hrp src with
  | error e => exact ⟨e, rfl⟩
  | ok r => exact absurd ((encode_ok_iff hrp src r).mp he).1 h

theorem to5_length (src : List UInt8) : (to5 src).length = symCount src.length := by
  rw [← b32Encode_eq_to5, b32Encode_length, encodedLen_eq]

theorem to5_lt (src : List UInt8) : ∀ x ∈ to5 src, x.toNat < 32 := by
  rw [← b32Encode_eq_to5]; exact b32Encode_lt src

/-- the encoder's output is a valid Bech32 string for (lower hrp, src). -/
theorem encSpec_valid (hrp : Str) (src : List UInt8) (hp : EncPre hrp src) :
    Valid (encSpec hrp src) (lower hrp) src := by
  obtain ⟨h1, h2, h3, h4⟩ := hp
  let data := to5 src
  let cs := createChecksum (lower hrp) data
  let syms := data ++ cs
  have hcs := createChecksum_spec (lower hrp) data
  have hsyms : ∀ x ∈ syms, x.toNat < 32 := by
    intro x hx
    rcases List.mem_append.mp hx with h | h
    · exact to5_lt src x h
    · exact hcs.2 x h
  have hslen : syms.length = symCount src.length + 6 := by
    simp only [syms, List.length_append, data, to5_length, cs, hcs.1]
  have hslen' : (to5 src).length + (createChecksum (lower hrp) (to5 src)).length = symCount src.length + 6 := by
    rw [to5_length, hcs.1]
  have hchars := charsetEncode_props syms hsyms
  have hpoly : polymod (hrpExpand (lower hrp) ++ syms) = 1 := by
    have := verify_create (lower hrp) data
    unfold verifyChecksum at this
    simpa using this
  have htake : syms.take (syms.length - 6) = to5 src := by
    have : syms.length - 6 = data.length := by rw [hslen]; simp [data, to5_length]
    rw [this]; exact List.take_left' rfl
  have hlowchars : lower (charsetEncode syms) = charsetEncode syms :=
    (lower_eq_self_iff _).mpr (fun c hc => (hchars c hc).2.2)
  unfold encSpec
  split
  · rename_i hlow
    have hnoup : ∀ c ∈ hrp, isUpperAscii c = false := (lower_eq_self_iff hrp).mp hlow.symm
    refine ⟨?_, ?_, hrp, charsetEncode syms, syms, rfl, ?_, h2, h3, hsyms, hlowchars, by omega, hpoly, htake, rfl⟩
    · simp only [List.length_append, List.length_cons, List.length_nil, charsetEncode_length] at ⊢; omega
    · rintro ⟨⟨c, hc, hu⟩, _⟩
      simp only [List.mem_append, List.mem_cons, List.not_mem_nil, or_false] at hc
      rcases hc with (hc | rfl) | hc
      · rw [hnoup c hc] at hu; simp at hu
      · revert hu; decide
      · rw [(hchars c hc).2.2] at hu; simp at hu
    · intro hmem; exact (hchars _ hmem).2.1 rfl
  · rename_i hlow
    have hbody : upper (hrp ++ [separator] ++ charsetEncode syms) =
        upper hrp ++ [separator] ++ upper (charsetEncode syms) := by
      rw [upper_append, upper_append]; rfl
    rw [hbody]
    refine ⟨?_, ?_, upper hrp, upper (charsetEncode syms), syms, rfl, ?_, ?_, ?_, hsyms, ?_, by omega, ?_, htake, ?_⟩
    · simp only [List.length_append, List.length_cons, List.length_nil, charsetEncode_length, upper_length]; omega
    · rintro ⟨_, hl⟩
      rw [← hbody] at hl
      exact hasLower_upper _ hl
    · intro hmem
      simp only [upper, List.mem_map] at hmem
      obtain ⟨c, hc, hcs⟩ := hmem
      have := (upper_eq_sep c).mp hcs
      exact (hchars c hc).2.1 this
    · intro h0
      apply h2
      have : (upper hrp).length = 0 := by rw [h0]; rfl
      rw [upper_length] at this
      exact List.length_eq_zero_iff.mp this
    · intro c hc
      simp only [upper, List.mem_map] at hc
      obtain ⟨x, hx, rfl⟩ := hc
      exact (valid_iff_c _).mp (by rw [valid_upper_c]; exact (valid_iff_c x).mpr (h3 x hx))
    · rw [lower_upper]; exact hlowchars
    · rw [lower_upper]; exact hpoly
    · rw [lower_upper]

/-- C05: `Decode` inverts `Encode`. -/
theorem decode_encode (hrp : Str) (src : List UInt8) (r : Str) (h : encode hrp src = .ok r) :
    decode r = .ok (lower hrp, src) := by
  obtain ⟨hp, rfl⟩ := (encode_ok_iff hrp src r).mp h
  exact (decode_ok_iff_valid _ _ _).mpr (encSpec_valid hrp src hp)

/-- C04 (2): every accepted string re-encodes to its own lower-case form. -/
theorem reencode (s hrp : Str) (data : List UInt8) (h : decode s = .ok (hrp, data)) :
    encode hrp data = .ok (lower s) := by
  obtain ⟨hlen, hcase, hh, d, syms, hs, hnosep, hne, hvalid, hsyms, hd, h6, hpoly, hto5, hhrp⟩ :=
    (decode_ok_iff_valid s hrp data).mp h
  subst hhrp
  have hdlen : d.length = syms.length := by rw [← lower_length d, hd, charsetEncode_length]
  have hslen : s.length = hh.length + 1 + d.length := by rw [hs]; simp; omega
  have hpaylen : symCount data.length = syms.length - 6 := by
    rw [← to5_length, ← hto5, List.length_take]; omega
  rw [encode_ok_iff]
  refine ⟨⟨?_, ?_, ?_, ?_⟩, ?_⟩
  · rw [lower_length]; omega
  · intro h0
    apply hne
    have : (lower hh).length = 0 := by rw [h0]; rfl
    rw [lower_length] at this
    exact List.length_eq_zero_iff.mp this
  · intro c hc
    simp only [lower, List.mem_map] at hc
    obtain ⟨x, hx, rfl⟩ := hc
    exact (valid_iff_c _).mp (by rw [valid_lower_c]; exact (valid_iff_c x).mpr (hvalid x hx))
  · intro ⟨hu, _⟩; exact hasUpper_lower hh hu
  · unfold encSpec
    rw [if_pos (lower_lower hh).symm, lower_lower]
    have hsplit : syms = to5 data ++ syms.drop (syms.length - 6) := by
      rw [← hto5, List.take_append_drop]
    have hcslen : (syms.drop (syms.length - 6)).length = 6 := by rw [List.length_drop]; omega
    have hcslt : ∀ c ∈ syms.drop (syms.length - 6), c.toNat < 32 :=
      fun c hc => hsyms c (List.mem_of_mem_drop hc)
    have hver : verifyChecksum (lower hh) (to5 data ++ syms.drop (syms.length - 6)) = true := by
      unfold verifyChecksum; rw [← hsplit, hpoly]; rfl
    have hcs := checksum_unique (lower hh) (to5 data) _ hcslen hcslt hver
    rw [← hcs, ← hsplit, ← hd, hs, lower_append, lower_append, lower_sep]

end Iota.Proofs.Bech32
